import Aplang.Model.Ast
/-!
# Parser model  (src: parser/parser.rs)

State = the Rust `Parser`'s cursor as a zipper over the token vector (`before` = consumed tokens, most
recent first; `after` = tokens from `current` on) plus the two admission flags. `peek()` past the end,
`previous()` at position 0 and a literal token without its literal are *panic primitives*: they
return `.panic site`, so "the parser never panics" is a statement about this model and not a
by-product of totality.

All recursion (the expression ladder, the `while match_token` loops, the statement loops) is
structural on a fuel argument; `.fuel` is an outcome, never defaulted.
-/
namespace Aplang

structure PErr where
  code : String
  labels : List Span
deriving Inhabited

structure PState where
  before : List Token
  after : List Token
  inFn : Bool
  inLoop : Bool
deriving Inhabited

inductive PRes (α : Type)
  | ok (a : α) (s : PState)
  | err (e : PErr) (s : PState)
  | panic (site : String)
  | fuel
deriving Inhabited

@[inline] def PRes.bind {α β} (r : PRes α) (k : α → PState → PRes β) : PRes β :=
  match r with
  | .ok a s => k a s
  | .err e s => .err e s
  | .panic p => .panic p
  | .fuel => .fuel

@[simp] theorem PRes.bind_ok {α β} (a : α) (s) (k : α → PState → PRes β) : (PRes.ok a s).bind k = k a s := rfl
@[simp] theorem PRes.bind_err {α β} (e s) (k : α → PState → PRes β) : (PRes.err e s : PRes α).bind k = .err e s := rfl
@[simp] theorem PRes.bind_panic {α β} (p) (k : α → PState → PRes β) : (PRes.panic p : PRes α).bind k = .panic p := rfl
@[simp] theorem PRes.bind_fuel {α β} (k : α → PState → PRes β) : (PRes.fuel : PRes α).bind k = .fuel := rfl

namespace P

/-- src: `peek` -/
def peek (s : PState) : PRes Token :=
  match s.after with
  | t :: _ => .ok t s
  | [] => .panic "peek: no token"

/-- src: `previous` -/
def previous (s : PState) : PRes Token :=
  match s.before with
  | t :: _ => .ok t s
  | [] => .panic "previous: at position 0"

/-- src: `is_at_end` -/
def isAtEnd (s : PState) : PRes Bool :=
  (peek s).bind fun t s => .ok (t.tt == .eof) s

/-- src: `advance` (returns `previous()`) -/
def advance (s : PState) : PRes Token :=
  (isAtEnd s).bind fun e s =>
    if e then previous s
    else match s.after with
      | t :: r => previous { s with before := t :: s.before, after := r }
      | [] => .panic "advance: no token"

/-- src: `check` -/
def check (tt : TT) (s : PState) : PRes Bool :=
  (isAtEnd s).bind fun e s =>
    if e then .ok false s else (peek s).bind fun t s => .ok (t.tt == tt) s

/-- src: `match_token`; yields the matched token (`previous()`) -/
def matchToken (tt : TT) (s : PState) : PRes (Option Token) :=
  (check tt s).bind fun c s =>
    if c then (advance s).bind fun t s => .ok (some t) s else .ok none s

/-- src: `match_tokens` -/
def matchTokens : List TT → PState → PRes (Option Token)
  | [], s => .ok none s
  | tt :: tts, s => (matchToken tt s).bind fun r s =>
      match r with
      | some t => .ok (some t) s
      | none => matchTokens tts s

/-- src: `consume` -/
def consume (tt : TT) (report : Token → PErr) (s : PState) : PRes Token :=
  (peek s).bind fun nxt s =>
    if nxt.tt == tt then advance s else .err (report nxt) s

/-- src: `confirm` -/
def confirm (tt : TT) (s : PState) : PRes Unit :=
  (previous s).bind fun p s => if p.tt == tt then .ok () s else .err ⟨"confirm", []⟩ s

def err1 (code : String) (labels : List Span) : PErr := ⟨code, labels⟩

/-- last token of an expression (what `self.previous()` is right after parsing it) -/
def lastTok : Expr → Token
  | .lit _ t => t
  | .binary _ _ r _ => lastTok r
  | .logical _ _ r _ => lastTok r
  | .unary _ r _ => lastTok r
  | .grouping _ _ rp => rp
  | .call _ _ _ _ _ rp => rp
  | .access _ _ _ _ rb => rb
  | .list _ _ rb => rb
  | .var _ t => t
  | .assign _ _ v _ => lastTok v
  | .set _ _ _ _ _ v _ => lastTok v

inductive BinLevel | equality | comparison | addition | multiplication
deriving DecidableEq, Repr

def BinLevel.ops : BinLevel → List TT
  | .equality => [.bangEqual, .equalEqual]
  | .comparison => [.greater, .greaterEqual, .less, .lessEqual]
  | .addition => [.plus, .minus]
  | .multiplication => [.star, .slash, .mod_]

def BinLevel.next : BinLevel → Option BinLevel
  | .equality => some .comparison
  | .comparison => some .addition
  | .addition => some .multiplication
  | .multiplication => none

/-- src: token.rs `to_binary_op` -/
def toBinOp : TT → Option BinOp
  | .equalEqual => some .eqeq | .bangEqual => some .ne | .less => some .lt | .lessEqual => some .le
  | .greater => some .gt | .greaterEqual => some .ge | .plus => some .add | .minus => some .sub
  | .star => some .mul | .slash => some .div | .mod_ => some .mod | _ => none

/-- src: token.rs `to_unary_op` -/
def toUnOp : TT → Option UnOp
  | .minus => some .neg | .not_ => some .not | _ => none

/-- argument spans: src `arguments_tokens.windows(2).map(span_until_token)` -/
def windowSpans : List Token → List Span
  | a :: b :: r => spanBetween a b :: windowSpans (b :: r)
  | _ => []

mutual

/-- src: `expression` -/
def expression : Nat → PState → PRes Expr
  | 0, _ => .fuel
  | f+1, s => assignment f s

/-- src: `assignment` -/
def assignment : Nat → PState → PRes Expr
  | 0, _ => .fuel
  | f+1, s =>
    (orE f s).bind fun e s =>
    (previous s).bind fun exprTok s =>
    (matchToken .arrow s).bind fun m s =>
    match m with
    | none => .ok e s
    | some arrow =>
      (assignment f s).bind fun value s =>
      match e with
      | .var name tok => .ok (.assign name tok value arrow) s
      | .access l lt k lb rb => .ok (.set l lt k lb rb value arrow) s
      | _ => .err (err1 "invalid_assignment_target" [arrow.span, exprTok.span]) s

/-- src: `or` -/
def orE : Nat → PState → PRes Expr
  | 0, _ => .fuel
  | f+1, s => (andE f s).bind fun e s => orLoop f e s

def orLoop : Nat → Expr → PState → PRes Expr
  | 0, _, _ => .fuel
  | f+1, left, s =>
    (matchToken .or_ s).bind fun m s =>
    match m with
    | none => .ok left s
    | some tok => (andE f s).bind fun right s => orLoop f (.logical left .or right tok) s

/-- src: `and` (note the right recursion inside the loop) -/
def andE : Nat → PState → PRes Expr
  | 0, _ => .fuel
  | f+1, s => (binLevel f .equality s).bind fun e s => andLoop f e s

def andLoop : Nat → Expr → PState → PRes Expr
  | 0, _, _ => .fuel
  | f+1, left, s =>
    (matchToken .and_ s).bind fun m s =>
    match m with
    | none => .ok left s
    | some tok => (andE f s).bind fun right s => andLoop f (.logical left .and right tok) s

/-- src: `equality`, `comparison`, `addition`, `multiplication` (the same loop at four levels) -/
def binLevel : Nat → BinLevel → PState → PRes Expr
  | 0, _, _ => .fuel
  | f+1, lvl, s =>
    (match lvl.next with
     | some n => binLevel f n s
     | none => unary f s).bind fun e s => binLoop f lvl e s

def binLoop : Nat → BinLevel → Expr → PState → PRes Expr
  | 0, _, _, _ => .fuel
  | f+1, lvl, left, s =>
    (matchTokens lvl.ops s).bind fun m s =>
    match m with
    | none => .ok left s
    | some tok =>
      (match lvl.next with
       | some n => binLevel f n s
       | none => unary f s).bind fun right s =>
      match toBinOp tok.tt with
      | some op => binLoop f lvl (.binary left op right tok) s
      | none => .err (err1 "to_binary_op" []) s

/-- src: `unary` -/
def unary : Nat → PState → PRes Expr
  | 0, _ => .fuel
  | f+1, s =>
    (matchTokens [.not_, .minus] s).bind fun m s =>
    match m with
    | some tok =>
      (unary f s).bind fun right s =>
      match toUnOp tok.tt with
      | some op => .ok (.unary op right tok) s
      | none => .err (err1 "to_unary_op" []) s
    | none => access f s

/-- src: `access` -/
def access : Nat → PState → PRes Expr
  | 0, _ => .fuel
  | f+1, s =>
    (primary f s).bind fun e s =>
    (previous s).bind fun exprTok s => accessLoop f exprTok e s

def accessLoop : Nat → Token → Expr → PState → PRes Expr
  | 0, _, _, _ => .fuel
  | f+1, exprTok, e, s =>
    (matchToken .leftBracket s).bind fun m s =>
    match m with
    | none => .ok e s
    | some lb =>
      (expression f s).bind fun index s =>
      (consume .rightBracket (fun t => err1 "missing_rbracket" [t.span]) s).bind fun rb s =>
      accessLoop f exprTok (.access e exprTok index lb rb) s

/-- src: `primary` -/
def primary : Nat → PState → PRes Expr
  | 0, _ => .fuel
  | f+1, s =>
    (matchToken .true_ s).bind fun m s =>
    match m with
    | some tok => .ok (.lit .true tok) s
    | none =>
    (matchToken .false_ s).bind fun m s =>
    match m with
    | some tok => .ok (.lit .false tok) s
    | none =>
    (matchToken .null s).bind fun m s =>
    match m with
    | some tok => .ok (.lit .null tok) s
    | none =>
    (matchToken .stringLiteral s).bind fun m s =>
    match m with
    | some tok =>
      (match tok.lit with
       | .str v => .ok (.lit (.str v) tok) s
       | .none => .panic "primary: string token without literal"
       | .num _ => .panic "primary: string token with number literal")
    | none =>
    (matchToken .number s).bind fun m s =>
    match m with
    | some tok =>
      (match tok.lit with
       | .num v => .ok (.lit (.num v) tok) s
       | .none => .panic "primary: number token without literal"
       | .str _ => .panic "primary: number token with string literal")
    | none =>
    (matchToken .identifier s).bind fun m s =>
    match m with
    | some tok =>
      (matchToken .leftParen s).bind fun m s =>
      (match m with
       | some lp =>
         (check .rightParen s).bind fun c s =>
         (if c then .ok ([], [lp]) s else callArgs f [] [lp] s).bind fun (args, argToks) s =>
         (consume .rightParen (fun t => err1 "missing_rp" [t.span]) s).bind fun rp s =>
         .ok (.call tok.lexeme args (windowSpans argToks) tok lp rp) s
       | none => .ok (.var tok.lexeme tok) s)
    | none =>
    (matchToken .leftParen s).bind fun m s =>
    match m with
    | some lp =>
      (expression f s).bind fun e s =>
      (consume .rightParen (fun t => err1 "missing_lp" [t.span]) s).bind fun rp s =>
      .ok (.grouping e lp rp) s
    | none =>
    (matchToken .leftBracket s).bind fun m s =>
    match m with
    | some lb =>
      (check .rightBracket s).bind fun c s =>
      (if c then .ok [] s else listItems f [] s).bind fun items s =>
      (consume .rightBracket (fun t => err1 "missing_rb" [t.span]) s).bind fun rb s =>
      .ok (.list items lb rb) s
    | none =>
      (peek s).bind fun t s => .err (err1 "expected_primary" [t.span]) s

/-- src: the argument loop of a call in `primary`; accumulators in source order -/
def callArgs : Nat → List Expr → List Token → PState → PRes (List Expr × List Token)
  | 0, _, _, _ => .fuel
  | f+1, args, toks, s =>
    if args.length ≥ 255 then .err (err1 "max_args" []) s else
    (expression f s).bind fun e s =>
    (peek s).bind fun nxt s =>
    (matchToken .comma s).bind fun m s =>
    match m with
    | some _ => callArgs f (args ++ [e]) (toks ++ [nxt]) s
    | none => .ok (args ++ [e], toks ++ [nxt]) s

/-- src: the item loop of a list literal in `primary` -/
def listItems : Nat → List Expr → PState → PRes (List Expr)
  | 0, _, _ => .fuel
  | f+1, items, s =>
    (expression f s).bind fun e s =>
    (matchToken .comma s).bind fun m s =>
    match m with
    | some _ => listItems f (items ++ [e]) s
    | none => .ok (items ++ [e]) s

end

/-- the statement terminator rule shared by expression statements, RETURN and IMPORT:
end of input or a following `}` also terminate; otherwise a `SoftSemi` is consumed -/
def terminator (code : String) (labelled : Bool) (s : PState) : PRes Unit :=
  (isAtEnd s).bind fun e s =>
  if e then .ok () s else
  (check .rightBrace s).bind fun c s =>
  if c then .ok () s else
  (consume .softSemi (fun t => err1 code (if labelled then [t.span] else [])) s).bind fun _ s => .ok () s

/-- src: `expression_statement` -/
def expressionStatement (f : Nat) (s : PState) : PRes Stmt :=
  (expression f s).bind fun e s =>
  (terminator "missing_eol" true s).bind fun _ s => .ok (.expr e) s

/-- src: `return_statement` -/
def returnStatement (f : Nat) (tok : Token) (s : PState) : PRes Stmt :=
  if !s.inFn then .err (err1 "return_outside_procedure" []) s else
  (matchToken .softSemi s).bind fun m s =>
  match m with
  | some _ => .ok (.ret tok none) s
  | none =>
    (isAtEnd s).bind fun e s =>
    (check .rightBrace s).bind fun c s =>
    if e || c then .ok (.ret tok none) s else
    (expression f s).bind fun v s =>
    (terminator "return_semicolon" false s).bind fun _ s => .ok (.ret tok (some v)) s

/-- src: the specific-function loop of `import_statement` -/
def importNames : Nat → Token → List Token → PState → PRes (List Token)
  | 0, _, _, _ => .fuel
  | f+1, lbracket, names, s =>
    if names.length ≥ 63 then
      .err (err1 "max_specific_functions"
        [match names.getLast? with | some l => spanBetween lbracket l | none => (0, 0)]) s
    else
    (consume .stringLiteral (fun _ => err1 "expected_specific_function" []) s).bind fun t s =>
    (matchToken .comma s).bind fun m s =>
    match m with
    | some _ => importNames f lbracket (names ++ [t]) s
    | none => .ok (names ++ [t]) s

/-- src: `import_statement` -/
def importStatement (f : Nat) (importTok : Token) (s : PState) : PRes Stmt :=
  (matchToken .leftBracket s).bind fun m s =>
  (match m with
   | some lb =>
     (importNames f lb [] s).bind fun names s =>
     (consume .rightBracket (fun _ => err1 "import_rbracket" []) s).bind fun _ s => .ok (some names) s
   | none =>
     (matchToken .stringLiteral s).bind fun m s =>
     match m with
     | some one => .ok (some [one]) s
     | none => .ok none s).bind fun only s =>
  (match only with
   | some _ => (consume .from_ (fun _ => err1 "expected_from" []) s).bind fun t s => .ok (some t) s
   | none => .ok none s).bind fun fromTok s =>
  (consume .mod_ (fun _ => err1 "expected_mod" []) s).bind fun modTok s =>
  (consume .stringLiteral (fun _ => err1 "expected_module_name" []) s).bind fun modName s =>
  (terminator "import_semicolon" false s).bind fun _ s =>
  .ok (.import_ importTok modTok fromTok only modName) s

/-- src: the parameter loop of `procedure` -/
def procParams : Nat → List (Str × Token) → PState → PRes (List (Str × Token))
  | 0, _, _ => .fuel
  | f+1, params, s =>
    if params.length ≥ 255 then .err (err1 "max_params" []) s else
    (consume .identifier (fun _ => err1 "param_ident" []) s).bind fun t s =>
    (matchToken .comma s).bind fun m s =>
    match m with
    | some _ => procParams f (params ++ [(t.lexeme, t)]) s
    | none => .ok (params ++ [(t.lexeme, t)]) s

/-- src: `self.in_loop_scope = cache_loop_state` after the loop statement was parsed (or failed) -/
def restoreLoop {α} (cache : Bool) : PRes α → PRes α
  | .ok a s => .ok a { s with inLoop := cache }
  | .err e s => .err e { s with inLoop := cache }
  | .panic p => .panic p
  | .fuel => .fuel

mutual

/-- src: `declaration` -/
def declaration : Nat → PState → PRes Stmt
  | 0, _ => .fuel
  | f+1, s =>
    (matchTokens [.export_, .procedure] s).bind fun m s =>
    match m with
    | some t => procedure f t s
    | none => statement f s

/-- src: `procedure` -/
def procedure : Nat → Token → PState → PRes Stmt
  | 0, _, _ => .fuel
  | f+1, exportOrProc, s =>
    (if exportOrProc.tt == .export_ then
       (consume .procedure (fun t => err1 "standalone_export" [t.span, t.span]) s).bind fun pt s => .ok (pt, true) s
     else .ok (exportOrProc, false) s).bind fun (procTok, exported) s =>
    (consume .identifier (fun t => err1 "unnamed_procedure" [procTok.span, t.span]) s).bind fun nameTok s =>
    (consume .leftParen (fun t => err1 "missing_lp" [t.span, nameTok.span]) s).bind fun _ s =>
    (check .rightParen s).bind fun c s =>
    (if c then .ok [] s else procParams f [] s).bind fun params s =>
    (consume .rightParen (fun t => err1 "missing_rp" [t.span]) s).bind fun _ s =>
    let fnCache := s.inFn
    let loopCache := s.inLoop
    (statement f { s with inFn := true, inLoop := false }).bind fun body s =>
    .ok (.procDecl nameTok.lexeme params body exported procTok nameTok)
      { s with inFn := fnCache, inLoop := loopCache }

/-- src: `statement` -/
def statement : Nat → PState → PRes Stmt
  | 0, _ => .fuel
  | f+1, s =>
    (matchToken .import_ s).bind fun m s =>
    match m with
    | some t => importStatement f t s
    | none =>
    (matchToken .if_ s).bind fun m s =>
    match m with
    | some t => ifStatement f t s
    | none =>
    (matchToken .repeat_ s).bind fun m s =>
    match m with
    | some t =>
      let cache := s.inLoop
      (check .until_ { s with inLoop := true }).bind fun c s =>
      restoreLoop cache (if c then repeatUntil f t s else repeatTimes f t s)
    | none =>
    (matchToken .for_ s).bind fun m s =>
    match m with
    | some t =>
      let cache := s.inLoop
      restoreLoop cache (forEach f t { s with inLoop := true })
    | none =>
    (matchToken .leftBrace s).bind fun m s =>
    match m with
    | some lb => (blockLoop f [] s).bind fun stmts s =>
        (consume .rightBrace (fun _ => err1 "missing_rb" [lb.span]) s).bind fun rb s =>
        .ok (.block lb stmts rb) s
    | none =>
    (matchToken .continue_ s).bind fun m s =>
    match m with
    | some t => if !s.inLoop then .err (err1 "continue_outside_loop" []) s else .ok (.cont t) s
    | none =>
    (matchToken .break_ s).bind fun m s =>
    match m with
    | some t => if !s.inLoop then .err (err1 "break_outside_loop" []) s else .ok (.brk t) s
    | none =>
    (matchToken .return_ s).bind fun m s =>
    match m with
    | some t => returnStatement f t s
    | none => expressionStatement f s

/-- src: the statement loop of `block` -/
def blockLoop : Nat → List Stmt → PState → PRes (List Stmt)
  | 0, _, _ => .fuel
  | f+1, acc, s =>
    (check .rightBrace s).bind fun c s =>
    (isAtEnd s).bind fun e s =>
    if c || e then .ok acc s else
    (matchToken .softSemi s).bind fun m s =>
    match m with
    | some _ => blockLoop f acc s
    | none => (declaration f s).bind fun st s => blockLoop f (acc ++ [st]) s

/-- src: `if_statement` -/
def ifStatement : Nat → Token → PState → PRes Stmt
  | 0, _, _ => .fuel
  | f+1, ifTok, s =>
    (consume .leftParen (fun t => err1 "missing_lp" [t.span, ifTok.span]) s).bind fun _ s =>
    (expression f s).bind fun cond s =>
    (consume .rightParen (fun t => err1 "missing_rp" [t.span]) s).bind fun _ s =>
    (statement f s).bind fun thn s =>
    (matchToken .else_ s).bind fun m s =>
    match m with
    | some et => (statement f s).bind fun els s => .ok (.ifs cond thn (some els) ifTok (some et)) s
    | none => .ok (.ifs cond thn none ifTok none) s

/-- src: `repeat_times` -/
def repeatTimes : Nat → Token → PState → PRes Stmt
  | 0, _, _ => .fuel
  | f+1, repeatTok, s =>
    (confirm .repeat_ s).bind fun _ s =>
    (expression f s).bind fun count s =>
    (previous s).bind fun countTok s =>
    (consume .times (fun t => err1 "missing_times" [t.span]) s).bind fun timesTok s =>
    (statement f s).bind fun body s =>
    .ok (.repeatTimes count body repeatTok timesTok countTok) s

/-- src: `repeat_until` -/
def repeatUntil : Nat → Token → PState → PRes Stmt
  | 0, _, _ => .fuel
  | f+1, repeatTok, s =>
    (confirm .repeat_ s).bind fun _ s =>
    (consume .until_ (fun _ => err1 "expected_until" []) s).bind fun untilTok s =>
    (consume .leftParen (fun t => err1 "missing_lp" [t.span, untilTok.span]) s).bind fun _ s =>
    (expression f s).bind fun cond s =>
    (consume .rightParen (fun t => err1 "missing_rp" [t.span]) s).bind fun _ s =>
    (statement f s).bind fun body s =>
    .ok (.repeatUntil cond body repeatTok untilTok) s

/-- src: `for_each` -/
def forEach : Nat → Token → PState → PRes Stmt
  | 0, _, _ => .fuel
  | f+1, forTok, s =>
    (confirm .for_ s).bind fun _ s =>
    (consume .each (fun t => err1 "missing_each" [t.span]) s).bind fun eachTok s =>
    (consume .identifier (fun t => err1 "missing_ident" [eachTok.span, t.span]) s).bind fun itemTok s =>
    (consume .in_ (fun t => err1 "missing_in" [itemTok.span, t.span]) s).bind fun inTok s =>
    (expression f s).bind fun list s =>
    (previous s).bind fun listTok s =>
    (statement f s).bind fun body s =>
    .ok (.forEach itemTok.lexeme itemTok list body forTok eachTok inTok listTok) s

end

def isSyncPoint : TT → Bool
  | .procedure | .repeat_ | .for_ | .if_ | .return_ | .continue_ | .break_ | .import_ | .export_ => true
  | _ => false

/-- src: the loop of `synchronize` (after its first `advance`) -/
def syncLoop : Nat → PState → PRes Unit
  | 0, _ => .fuel
  | f+1, s =>
    (isAtEnd s).bind fun e s =>
    if e then .ok () s else
    (peek s).bind fun t s =>
    if isSyncPoint t.tt then .ok () s else
    (advance s).bind fun _ s => syncLoop f s

/-- src: `synchronize` -/
def synchronize (f : Nat) (s : PState) : PRes Unit :=
  (advance s).bind fun _ s => syncLoop f s

inductive ParseOut
  | ok (prog : List Stmt)
  | errs (es : List PErr)
  | panic (site : String)
  | fuel

/-- src: the loop of `parse` -/
def parseLoop : Nat → List Stmt → List PErr → PState → ParseOut
  | 0, _, _, _ => .fuel
  | f+1, stmts, errs, s =>
    match isAtEnd s with
    | .panic p => .panic p
    | .fuel => .fuel
    | .err _ _ => .panic "unreachable"
    | .ok true _ => if errs.isEmpty then .ok stmts else .errs errs
    | .ok false s =>
      match matchToken .softSemi s with
      | .panic p => .panic p
      | .fuel => .fuel
      | .err _ _ => .panic "unreachable"
      | .ok (some _) s => parseLoop f stmts errs s
      | .ok none s =>
        match declaration f s with
        | .ok st s => parseLoop f (stmts ++ [st]) errs s
        | .panic p => .panic p
        | .fuel => .fuel
        | .err e s =>
          match synchronize f s with
          | .ok _ s => parseLoop f stmts (errs ++ [e]) s
          | .panic p => .panic p
          | .fuel => .fuel
          | .err _ _ => .panic "unreachable"

end P

/-- fuel that is never exhausted for a token list of this length (see `Thm/C08`) -/
def parseFuel (n : Nat) : Nat := 16 * n + 64

/-- src: `Parser::new` + `Parser::parse` -/
def parse (fuel : Nat) (tokens : List Token) : P.ParseOut :=
  P.parseLoop fuel [] [] ⟨[], tokens, false, false⟩

end Aplang
