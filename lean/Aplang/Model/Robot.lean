import Aplang.Prim.Text
/-!
# Model of `src/standard_library/robot.rs`

Executable mirror of the Rust code (core Lean only).  Every definition is total; the partial Rust
operations (`usize -= 1`, `usize += 1`, `u8 += 1` in the debug profile, `self.area[y][x]`, the
`AreaCell::Wall => panic!` arm) are *panic primitives*: they produce `MoveRes.panic site`, so that
"never panics" is a theorem (`Thm/C17.lean : move_no_panic`) and not a by-product of totality.

Machine integers: `usize`/`isize` are 64 bit (`as isize`, `as usize` are `asIsize`, `asUsize`),
`i8` arithmetic on headings stays inside `-1 ..= 5` so it is done in `Int`.
-/
namespace Aplang.Robot

/-- `enum AreaCell` (the `u8` payload is a `Nat`; the parser only produces `1 ..= 9`) -/
inductive Cell | wall | goal | space | checkpoint (n : Nat)
deriving DecidableEq, Repr, Inhabited

/-- `enum AreaDirection` (`repr(u8)`: 0,1,2,3) -/
inductive Dir | north | east | south | west
deriving DecidableEq, Repr, Inhabited

/-- `enum RelativeDirection` (`repr(i8)`: 0,-1,1,2) -/
inductive Rel | forward | left | right | backward
deriving DecidableEq, Repr, Inhabited

/-- `struct Robot` -/
structure Robot where
  area : List (List Cell)      -- rows, `area[y][x]`
  width : Nat                   -- `area_size.0`
  height : Nat                  -- `area_size.1`
  x : Nat                       -- `location.0`
  y : Nat                       -- `location.1`
  dir : Dir
  power : Nat                   -- `checkpoint_power : u8`
deriving DecidableEq, Repr, Inhabited

/-! ## machine integers -/

/-- `usize as isize` (two's complement reinterpretation, 64 bit) -/
def asIsize (n : Nat) : Int := if n < 2^63 then (n : Int) else (n : Int) - 2^64

/-- `isize as usize` (64 bit) -/
def asUsize (i : Int) : Nat := if i < 0 then (2^64 - i.natAbs) else i.toNat

/-- `usize -= 1` (panics on underflow: `none`) -/
def usizeDec (n : Nat) : Option Nat := if n = 0 then none else some (n - 1)

/-- `usize += 1` (debug profile: panics on overflow: `none`) -/
def usizeInc (n : Nat) : Option Nat := if n + 1 < 2^64 then some (n + 1) else none

/-- `u8 += 1` (debug profile: panics on overflow: `none`) -/
def u8Inc (n : Nat) : Option Nat := if n + 1 < 256 then some (n + 1) else none

/-! ## headings -/

/-- `self.direction as i8` -/
def Dir.toI8 : Dir → Int | .north => 0 | .east => 1 | .south => 2 | .west => 3

/-- `direction as i8` -/
def Rel.toI8 : Rel → Int | .forward => 0 | .left => -1 | .right => 1 | .backward => 2

/-- `impl From<i8> for AreaDirection`: `value.rem_euclid(4)`; the `_ => unreachable!()` arm is
    unreachable because `0 ≤ v.emod 4 < 4` (mapped to `west` here; `Dir.ofI8_cases` covers it). -/
def Dir.ofI8 (value : Int) : Dir :=
  match (value.emod 4).toNat with
  | 0 => .north
  | 1 => .east
  | 2 => .south
  | _ => .west

def rotateLeft (r : Robot) : Robot := { r with dir := Dir.ofI8 (r.dir.toI8 - 1) }
def rotateRight (r : Robot) : Robot := { r with dir := Dir.ofI8 (r.dir.toI8 + 1) }

/-! ## `impl FromStr for RelativeDirection` -/

def parseRel (s : Str) : Option Rel :=
  let u := s.map Char.toUpper            -- `to_ascii_uppercase` (`Char.toUpper` is ASCII-only)
  if u = ['L','E','F','T'] then some .left
  else if u = ['R','I','G','H','T'] then some .right
  else if u = ['F','O','R','W','A','R','D'] then some .forward
  else if u = ['B','A','C','K','W','A','R','D'] then some .backward
  else none

/-! ## `impl FromStr for Robot` -/

/-- `str::split_inclusive('\n')` -/
def splitInclusive : Str → List Str
  | [] => []
  | c :: cs =>
    if c = '\n' then [c] :: splitInclusive cs
    else match splitInclusive cs with
      | [] => [[c]]
      | l :: ls => (c :: l) :: ls

/-- the closure of `str::lines`: strip a final `"\n"`, and then a `'\r'` before it.
    (A bare `'\r'` at the very end of the text is kept — rustc 1.95, checked on the real binary.) -/
def stripLine : Str → Str
  | [] => []
  | c :: cs =>
    if c = '\n' ∧ cs = [] then []
    else if c = '\r' ∧ cs = ['\n'] then []
    else c :: stripLine cs

/-- `str::lines` -/
def lines (s : Str) : List Str := (splitInclusive s).map stripLine

/-- what one character of the map text means (the `match ch` of `from_str`) -/
inductive Sym | cell (c : Cell) | robot (d : Dir) | zero | other
deriving DecidableEq, Repr

def classify (ch : Char) : Sym :=
  if ch = '#' ∨ ch = '@' then .cell .wall
  else if ch = '.' ∨ ch = ',' ∨ ch = ' ' then .cell .space
  else if ch = 'x' ∨ ch = 'X' then .cell .goal
  else if ch = 'n' ∨ ch = 'N' then .robot .north
  else if ch = 's' ∨ ch = 'S' then .robot .south
  else if ch = 'e' ∨ ch = 'E' then .robot .east
  else if ch = 'w' ∨ ch = 'W' then .robot .west
  else if isAsciiDigit ch then
    let n := ch.toNat - 48                 -- `n as u8 - b'0'`
    if n = 0 then .zero else .cell (.checkpoint n)
  else .other

/-- `robot_location`, `robot_direction` -/
structure Found where
  loc : Option (Nat × Nat)
  dir : Option Dir
deriving DecidableEq, Repr

/-- inner loop `for (x, ch) in row_chars.into_iter().enumerate()`; `none` is `return Err(())` -/
def parseCells (y : Nat) : Nat → Str → Found → Option (List Cell × Found)
  | _, [], st => some ([], st)
  | x, ch :: rest, st =>
    match classify ch with
    | .cell c =>
      match parseCells y (x + 1) rest st with
      | none => none
      | some (cs, st') => some (c :: cs, st')
    | .robot d =>
      if st.loc.isSome then none
      else match parseCells y (x + 1) rest ⟨some (x, y), some d⟩ with
        | none => none
        | some (cs, st') => some (Cell.space :: cs, st')
    | .zero => none
    | .other => none

/-- `if row_chars.len() < max_width { row_chars.resize(max_width, ' ') }` -/
def padRow (w : Nat) (row : Str) : Str :=
  if row.length < w then row ++ List.replicate (w - row.length) ' ' else row

/-- outer loop `for (y, line) in lines.iter().enumerate()` -/
def parseRows (w : Nat) : Nat → List Str → Found → Option (List (List Cell) × Found)
  | _, [], st => some ([], st)
  | y, line :: rest, st =>
    match parseCells y 0 (padRow w line) st with
    | none => none
    | some (row, st1) =>
      match parseRows w (y + 1) rest st1 with
      | none => none
      | some (rows, st2) => some (row :: rows, st2)

/-- `lines.iter().map(|line| line.len()).max().unwrap_or(0)` — BYTE lengths -/
def maxWidth : List Str → Nat
  | [] => 0
  | l :: ls => max (ulen l) (maxWidth ls)

def parse (s : Str) : Option Robot :=
  let ls := lines s
  let maxW := maxWidth ls
  let height := ls.length
  match parseRows maxW 0 ls ⟨none, none⟩ with
  | none => none
  | some (area, st) =>
    match st.loc with
    | none => none
    | some (x, y) =>
      match st.dir with
      | none => none
      | some d => some { area := area, width := maxW, height := height, x := x, y := y, dir := d, power := 1 }

/-! ## `can_move` -/

/-- Rust: `check_pos < (0, 0)` on `(isize, isize)` — lexicographic -/
def tupleLtZero (a b : Int) : Bool := a < 0 || (a == 0 && b < 0)

/-- `check_pos` = (row, col) -/
def checkPos (r : Robot) (d : Dir) : Int × Int :=
  match d with
  | .north => (asIsize r.y - 1, asIsize r.x)
  | .east  => (asIsize r.y,     asIsize r.x + 1)
  | .south => (asIsize r.y + 1, asIsize r.x)
  | .west  => (asIsize r.y,     asIsize r.x - 1)

def canMove (r : Robot) (d : Rel) : Bool :=
  let checkDirection := Dir.ofI8 (r.dir.toI8 + d.toI8)
  let (row, col) := checkPos r checkDirection
  if tupleLtZero row col then false else
  match r.area[asUsize row]? with
  | none => false
  | some rw =>
    match rw[asUsize col]? with
    | none => false
    | some c => c != .wall

/-! ## `move_forward` -/

inductive MoveRes | moved (r : Robot) (result : Bool) | blocked | panic (site : String)
deriving DecidableEq, Repr

def Cell.isCheckpoint : Cell → Bool | .checkpoint _ => true | _ => false

/-- `matches!(cell, AreaCell::Checkpoint(p) if *p <= power)` -/
def Cell.isCheckpointLe (power : Nat) : Cell → Bool | .checkpoint p => p ≤ power | _ => false

/-- the position update `match self.direction { … -= 1 / += 1 }` -/
def advance (r : Robot) : Option (Nat × Nat) :=
  match r.dir with
  | .north => (usizeDec r.y).map fun y => (r.x, y)
  | .east  => (usizeInc r.x).map fun x => (x, r.y)
  | .south => (usizeInc r.y).map fun y => (r.x, y)
  | .west  => (usizeDec r.x).map fun x => (x, r.y)

/-- `move_forward`; `None ↦ blocked`.  The two writes `self.area[y][x] = Space` use the indices that
    were just read successfully, so they are modelled by `List.set`. -/
def moveForward (r : Robot) : MoveRes :=
  if canMove r .forward then
    match advance r with
    | none => .panic "usize arithmetic overflow in move_forward"
    | some (x, y) =>
      match r.area[y]? with
      | none => .panic "index out of bounds: self.area[y]"
      | some row =>
        match row[x]? with
        | none => .panic "index out of bounds: self.area[y][x]"
        | some moveCell =>
          match moveCell with
          | .goal =>
            let checkpointExists := r.area.flatten.any Cell.isCheckpoint
            if !checkpointExists then
              .moved { r with x := x, y := y, area := r.area.set y (row.set x .space) } true
            else
              .moved { r with x := x, y := y } false
          | .checkpoint order =>
            if r.power ≥ order then
              let area' := r.area.set y (row.set x .space)
              if !(area'.flatten.any (Cell.isCheckpointLe r.power)) then
                match u8Inc r.power with
                | none => .panic "u8 overflow: checkpoint_power += 1"
                | some p => .moved { r with x := x, y := y, area := area', power := p } false
              else
                .moved { r with x := x, y := y, area := area' } false
            else
              .moved { r with x := x, y := y } false
          | .space => .moved { r with x := x, y := y } false
          | .wall => .panic "THIS IS A BUG: Moved into a wall"
  else
    .blocked

/-! ## `impl Debug` / `impl Display` -/

/-- `{power}` for a `u8` -/
def decimal (n : Nat) : Str := Nat.toDigits 10 n

structure Glyphs where
  tl : Char
  tr : Char
  bl : Char
  br : Char
  hbar : Char
  vbar : Char
  cell : Cell → Str
  dir : Dir → Str

def asciiGlyphs : Glyphs where
  tl := '+'
  tr := '+'
  bl := '+'
  br := '+'
  hbar := '-'
  vbar := '|'
  cell
    | .wall => ['#', '#']
    | .goal => ['X', 'X']
    | .space => ['.', '.']
    | .checkpoint p => decimal p ++ decimal p
  dir
    | .north => ['n', 'n']
    | .east => ['e', 'e']
    | .south => ['s', 's']
    | .west => ['w', 'w']

def unicodeGlyphs : Glyphs where
  tl := '┌'
  tr := '┐'
  bl := '└'
  br := '┘'
  hbar := '─'
  vbar := '│'
  cell
    | .wall => ['█', '█']
    | .goal => ['╳', '╳']
    | .space => ['░', '░']
    | .checkpoint p => decimal p ++ decimal p
  dir
    | .north => ['▲', '▲']
    | .east => ['►', '►']
    | .south => ['▼', '▼']
    | .west => ['◄', '◄']

/-- marker for the `self.area[y][x]` index panic inside `fmt` (unreachable for well-formed robots:
    `Thm/C17.lean : fmtAscii_eq_render`) -/
def fmtPanicGlyph : Str := ['!', '!']

/-- body of `for x in 0..width` -/
def fmtCell (g : Glyphs) (r : Robot) (y x : Nat) : Str :=
  (if (x, y) = (r.x, r.y) then g.dir r.dir
   else match r.area[y]? with
     | none => fmtPanicGlyph
     | some row => match row[x]? with
       | none => fmtPanicGlyph
       | some c => g.cell c) ++ [' ']

/-- body of `for y in 0..height` -/
def fmtRow (g : Glyphs) (r : Robot) (y : Nat) : Str :=
  [g.vbar, ' '] ++ ((List.range r.width).map (fmtCell g r y)).flatten ++ [g.vbar, '\n']

/-- the two `fmt` implementations have the same shape and differ in the glyph tables only -/
def fmtGrid (g : Glyphs) (r : Robot) : Str :=
  [g.tl] ++ List.replicate (r.width * 3) g.hbar ++ [g.hbar, g.tr, '\n']
  ++ ((List.range r.height).map (fmtRow g r)).flatten
  ++ [g.bl] ++ List.replicate (r.width * 3) g.hbar ++ [g.hbar, g.br, '\n']

/-- `impl Debug for Robot` (FORMAT_ROBOT_ASCII) -/
def fmtAscii (r : Robot) : Str := fmtGrid asciiGlyphs r

/-- `impl Display for Robot` (FORMAT_ROBOT) -/
def fmtUnicode (r : Robot) : Str := fmtGrid unicodeGlyphs r

end Aplang.Robot
