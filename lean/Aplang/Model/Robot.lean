import Aplang.Prim.Text
/-! STUB — replaced by the real module -/
namespace Aplang.Robot
inductive Cell | wall | goal | space | checkpoint (n : Nat)
inductive Dir | north | east | south | west
inductive Rel | forward | left | right | backward
structure Robot where
  area : List (List Cell)
  width : Nat
  height : Nat
  x : Nat
  y : Nat
  dir : Dir
  power : Nat
def parse (_s : Str) : Option Robot := none
def parseRel (_s : Str) : Option Rel := none
def canMove (_r : Robot) (_d : Rel) : Bool := false
inductive MoveRes | moved (r : Robot) (result : Bool) | blocked | panic (site : String)
def moveForward (_r : Robot) : MoveRes := .blocked
def rotateLeft (r : Robot) : Robot := r
def rotateRight (r : Robot) : Robot := r
def fmtAscii (_r : Robot) : Str := []
def fmtUnicode (_r : Robot) : Str := []
end Aplang.Robot
