import Aplang.Model.Natives
import Aplang.Model.Lexer
import Aplang.Model.Parser
/-!
# Evaluator model  (src: interpreter/interpreter.rs, procedure.rs)

Mirrors the Rust: BREAK / CONTINUE set flags on the top `LoopCtl`, RETURN sets the pending return
value, blocks and loops poll them. Every partial Rust operation (`loop_stack.last().unwrap()`, the
`assert!(pop())`, `activate()`, `scrape()`) is a panic primitive. All recursion is structural on fuel.
-/
namespace Aplang

structure Cfg where
  lex : LexCfg
  chars : CharEnv
  /-- src: `Modules::lookup` -/
  modules : Str → Option FunTable

def rtErr {α} (kind : String) (sp : Span) (σ : St) : Res α := .err ⟨kind, sp⟩ σ

/-- the bracket interior `lb.end .. rb.start` -/
def interior (lb rb : Token) : Span := (lb.endOff, rb.off - lb.endOff)

/-- src: `(idx - 1.0) as usize`, valid only from 1 (NaN and everything below 1 are out of range) -/
def natIndex (idx : Float) : Option Nat :=
  if idx >= 1.0 then some (F64.toUSize (idx - 1.0)) else none

/-- src: `count as usize` in REPEAT n TIMES -/
def countOf (n : Float) : Nat := F64.toUSize n

/-- src: `Interpreter::binary` after both operands are evaluated (the tuple match, in its order) -/
def binop (op : BinOp) (tok : Token) (a b : Value) (σ : St) : Res (Value × St) :=
  match op, a, b with
  | .eqeq, a, b => .ok (.bool (langEq a b), σ)
  | .ne, a, b => .ok (.bool (!langEq a b), σ)
  | .lt, .num x, .num y => .ok (.bool (x < y), σ)
  | .le, .num x, .num y => .ok (.bool (x <= y), σ)
  | .gt, .num x, .num y => .ok (.bool (x > y), σ)
  | .ge, .num x, .num y => .ok (.bool (x >= y), σ)
  | .add, .num x, .num y => .ok (.num (x + y), σ)
  | .sub, .num x, .num y => .ok (.num (x - y), σ)
  | .mul, .num x, .num y => .ok (.num (x * y), σ)
  | .div, .num x, .num y => if y != 0.0 then .ok (.num (x / y), σ) else rtErr "Division by Zero" tok.span σ
  | .mod, .num x, .num y => if y != 0.0 then .ok (.num (F64.fmod x y), σ) else rtErr "Modulo by Zero" tok.span σ
  | .add, .str s, b => (display σ b).bind fun t => .ok (.str (s ++ t), σ)
  | .add, .list x, .list y =>
    (match getList σ x, getList σ y with
     | some xs, some ys => .ok (mkList σ (xs ++ ys))
     | _, _ => .panic "dangling list" σ.out)
  | _, _, _ => rtErr "Incomparable Values" tok.span σ

/-- src: `Interpreter::unary` after the operand is evaluated -/
def unop (op : UnOp) (tok : Token) (v : Value) (σ : St) : Res (Value × St) :=
  match op, v with
  | .neg, .num x => .ok (.num (-x), σ)
  | .not, v => .ok (.bool (!truthy v), σ)
  | _, _ => rtErr "Invalid Unary Op" tok.span σ

def litValue : LitV → Value
  | .num x => .num x | .str s => .str s | .true => .bool true | .false => .bool false | .null => .null

/-- src: the `Assign` arm of `expr` after the value is evaluated -/
def assignVar (name : Str) (result : Value) (σ : St) : Res (Value × St) :=
  match result with
  | .list src =>
    (match lookupVar σ name with
     | some (.list tgt) =>
       if tgt == src then .ok (result, σ) else
       (match getList σ src with
        | some vs => .ok (result, setCell σ tgt (.list vs))
        | none => .panic "dangling list" σ.out)
     | _ => (define σ name result).bind fun σ => .ok (result, σ))
  | _ => (define σ name result).bind fun σ => .ok (result, σ)

/-- src: `access` after list and key are evaluated -/
def indexRead (l k : Value) (listTok lb rb : Token) (σ : St) : Res (Value × St) :=
  match k with
  | .num idx =>
    (match l with
     | .str s =>
       (match (natIndex idx).bind (fun i => s[i]?) with
        | some c => .ok (.str [c], σ)
        | none => rtErr "Invalid List Index" (interior lb rb) σ)
     | .list a =>
       (match getList σ a with
        | some vs =>
          (match (natIndex idx).bind (fun i => vs[i]?) with
           | some v => .ok (v, σ)
           | none => rtErr "Invalid List Index" (interior lb rb) σ)
        | none => .panic "dangling list" σ.out)
     | _ => rtErr "Invalid Type" listTok.span σ)
  | _ => rtErr "Invalid Index" (interior lb rb) σ

/-- src: `set` after list, index and value are evaluated -/
def indexWrite (l k v : Value) (listTok lb rb : Token) (σ : St) : Res (Value × St) :=
  match l with
  | .list a =>
    (match k with
     | .num idx =>
       (match getList σ a with
        | some vs =>
          (match natIndex idx with
           | some i => if i < vs.length then .ok (v, setCell σ a (.list (vs.set i v)))
                       else rtErr "Invalid List Index" (interior lb rb) σ
           | none => rtErr "Invalid List Index" (interior lb rb) σ)
        | none => .panic "dangling list" σ.out)
     | _ => rtErr "Invalid Index" (interior lb rb) σ)
  | _ => rtErr "Invalid Type" listTok.span σ

def bindParams : List Str → List Value → Frame → Frame
  | p :: ps, a :: as, fr => bindParams ps as (fr.set p a)
  | _, _, fr => fr

/-- is a BREAK / CONTINUE flag or a return value pending? (what `Stmt::Block` polls) -/
def pending (σ : St) : Bool :=
  σ.ret.isSome || (match σ.loops with | [] => false | lc :: _ => lc.brk || lc.cont)

/-- src: `self.loop_stack.pop()` under `assert!` -/
def popLoop (σ : St) : Res St :=
  match σ.loops with
  | [] => .panic "loop_stack.pop" σ.out
  | _ :: rest => .ok { σ with loops := rest }

inductive LoopNext | again | stop
deriving DecidableEq

/-- what a loop does after one run of its body: src the flag tests of the three loops
(`brkFirst = false` for REPEAT TIMES, which tests `should_continue` first) -/
def afterBody (brkFirst : Bool) (σ : St) : Res (LoopNext × St) :=
  if σ.ret.isSome then .ok (.stop, σ) else
  match σ.loops with
  | [] => .panic "loop_stack.last" σ.out
  | lc :: rest =>
    if brkFirst then
      if lc.brk then .ok (.stop, { σ with loops := { lc with brk := false } :: rest })
      else if lc.cont then .ok (.again, { σ with loops := { lc with cont := false } :: rest })
      else .ok (.again, σ)
    else
      if lc.cont then .ok (.again, { σ with loops := { lc with cont := false } :: rest })
      else if lc.brk then .ok (.stop, { σ with loops := { lc with brk := false } :: rest })
      else .ok (.again, σ)

/-- src: `(*values.borrow_mut())[i] = …` guarded by the slot still existing -/
def writeBack (σ : St) (a i : Nat) (cur : Option Value) : St :=
  match cur, getList σ a with
  | some v', some vs => if i < vs.length then setCell σ a (.list (vs.set i v')) else σ
  | _, _ => σ

inductive ForNext | stop | skip | writeBack
deriving DecidableEq

/-- the flag tests of FOR EACH after one run of its body (src: the three `if`s after `self.stmt(&for_each.body)?`):
a pending RETURN or a BREAK end the loop, a CONTINUE skips the write-back of the loop variable -/
def forAfter (σ : St) : Res (ForNext × St) :=
  if σ.ret.isSome then .ok (.stop, σ) else
  match σ.loops with
  | [] => .panic "loop_stack.last" σ.out
  | lc :: rest =>
    if lc.brk then .ok (.stop, { σ with loops := { lc with brk := false } :: rest })
    else if lc.cont then .ok (.skip, { σ with loops := { lc with cont := false } :: rest })
    else .ok (.writeBack, σ)

def dirOf (path : Str) : Str :=
  match (Fs.splitSlash path).dropLast with
  | [] => []
  | comps => StrOps.join comps ['/']

def joinPath (dir name : Str) : Str :=
  if name.head? == some '/' then name
  else if dir == [] then name
  else if dir.getLast? == some '/' then dir ++ name else dir ++ '/' :: name

/-- src: `maybe_path.extension()` is `ap` (ASCII case-insensitive) -/
def hasApExtension (path : Str) : Bool :=
  let file := (Fs.splitSlash path).getLast?.getD []
  match (Fs.splitSlash (file.map fun c => if c == '.' then '/' else c)).reverse with
  | ext :: stem :: rest => (StrOps.toAsciiLower ext == ['a', 'p']) && !(stem == [] && rest == [])
  | _ => false

/-- src: the `only_functions` trimming of `Stmt::Import` -/
def trimModule : List Token → FunTable → FunTable → St → Res FunTable
  | [], _, acc, _ => .ok acc
  | t :: ts, module, acc, σ =>
    match t.lit with
    | .str name =>
      (match module.find? name with
       | some p => trimModule ts (List.filter (fun e => e.1 != name) module) (acc.insert name p) σ
       | none => rtErr "Invalid Function" t.span σ)
    | _ => .panic "import: unreachable" σ.out

/-- the fresh interpreter a user module runs in (src: `Interpreter::new` in `execute_as_module`): a base
scope, the CORE procedures, nothing exported yet; heap, output channel and the world are the process's -/
def moduleState (cfg : Cfg) (σ : St) (path : Str) : St :=
  { σ with scopes := [[]], procs := FunTable.extend [] ((cfg.modules "CORE".toList).getD []), exports := [],
           ret := none, loops := [], filePath := path }

/-- back in the importer after the module has run: its own scopes and tables, the module's effects on
heap, output and the world -/
def afterModule (σ σm : St) : St :=
  { σm with scopes := σ.scopes, procs := σ.procs, exports := σ.exports, ret := σ.ret, loops := σ.loops,
            filePath := σ.filePath }

/-- src: the `Stmt::Import` arm of `Interpreter::stmt`. `runModule` interprets the statements of a user
module in the fresh interpreter state it is given (src: `execute_as_module`). -/
def importStmt (cfg : Cfg) (runModule : List Stmt → St → Res St) (only : Option (List Token)) (modName : Token)
    (σ : St) : Res St :=
  (match modName.lit with
   | .str name => .ok name
   | _ => .panic "import: unreachable" σ.out : Res Str).bind fun name =>
  (match cfg.modules name with
   | some table => .ok (table, σ)
   | none =>
     -- user module (src: the `else` branch of `Stmt::Import`)
     let path := joinPath (dirOf σ.filePath) name
     if !hasApExtension path then rtErr "std module not found" modName.span σ else
     match Fs.fileRead σ.world.fs path with
     | none => rtErr "module file does not exist" modName.span σ
     | some src =>
       let lexed := lex cfg.lex src
       if !lexed.errors.isEmpty then rtErr "module has lexical errors" modName.span σ else
       match parse (parseFuel lexed.tokens.length) lexed.tokens with
       | .ok prog =>
         (runModule prog (moduleState cfg σ path)).bind fun σm => .ok (σm.exports, afterModule σ σm)
       | .errs _ => rtErr "module has syntax errors" modName.span σ
       | .panic p => .panic p σ.out
       | .fuel => .fuel : Res (FunTable × St)).bind fun (module, σ) =>
  (match only with
   | some names => trimModule names module [] σ
   | none => .ok module : Res FunTable).bind fun module =>
  .ok { σ with procs := σ.procs.extend module }

mutual

/-- src: `Interpreter::expr` -/
def expr (cfg : Cfg) : Nat → Expr → St → Res (Value × St)
  | 0, _, _ => .fuel
  | f+1, .grouping e _ _, σ => expr cfg f e σ
  | _+1, .lit v _, σ => .ok (litValue v, σ)
  | f+1, .binary l op r tok, σ =>
    (expr cfg f l σ).bind fun (a, σ) => (expr cfg f r σ).bind fun (b, σ) => binop op tok a b σ
  | f+1, .unary op r tok, σ => (expr cfg f r σ).bind fun (v, σ) => unop op tok v σ
  | f+1, .call name args spans tok lp rp, σ =>
    (exprs cfg f args σ).bind fun (vs, σ) =>
    match σ.procs.find? name with
    | none => rtErr "Invalid PROCEDURE" tok.span σ
    | some (.native n) =>
      if n.arity != vs.length then rtErr "Incorrect Number Of Args" (interior lp rp) σ
      else callNative cfg.chars n vs spans σ
    | some (.user params body) =>
      if params.length != vs.length then rtErr "Incorrect Number Of Args" (interior lp rp) σ else
      -- src: `Procedure::call`
      let cached := σ.ret
      (stmt cfg f body { σ with scopes := bindParams params vs [] :: σ.scopes, ret := none }).bind fun σ =>
      -- the return value is read and the caller's pending value restored before the scope is popped
      match σ.scopes with
      | [] => .panic "env.scrape" σ.out
      | _ :: rest => .ok (σ.ret.getD .null, { σ with ret := cached, scopes := rest })
  | f+1, .access l listTok k lb rb, σ =>
    (expr cfg f l σ).bind fun (lv, σ) => (expr cfg f k σ).bind fun (kv, σ) => indexRead lv kv listTok lb rb σ
  | f+1, .list items _ _, σ => (exprs cfg f items σ).bind fun (vs, σ) => .ok (mkList σ vs)
  | _+1, .var name tok, σ =>
    (match lookupVar σ name with
     | some v => .ok (v, σ)
     | none => rtErr "Invalid Variable" tok.span σ)
  | f+1, .assign name _ value _, σ => (expr cfg f value σ).bind fun (v, σ) => assignVar name v σ
  | f+1, .set l listTok idx lb rb value _, σ =>
    (expr cfg f l σ).bind fun (lv, σ) => (expr cfg f idx σ).bind fun (kv, σ) =>
    (expr cfg f value σ).bind fun (v, σ) => indexWrite lv kv v listTok lb rb σ
  | f+1, .logical l op r _, σ =>
    (expr cfg f l σ).bind fun (a, σ) =>
    let short := match op with | .or => truthy a | .and => !truthy a
    if short then .ok (a, σ) else expr cfg f r σ

/-- argument / item lists, left to right -/
def exprs (cfg : Cfg) : Nat → List Expr → St → Res (List Value × St)
  | _, [], σ => .ok ([], σ)
  | 0, _ :: _, _ => .fuel
  | f+1, e :: es, σ =>
    (expr cfg f e σ).bind fun (v, σ) => (exprs cfg f es σ).bind fun (vs, σ) => .ok (v :: vs, σ)

/-- src: `Interpreter::stmt` -/
def stmt (cfg : Cfg) : Nat → Stmt → St → Res St
  | 0, _, _ => .fuel
  | f+1, s, σ0 =>
    match tick σ0 with
    | none => .fuel
    | some σ =>
    match s with
    | .expr e => (expr cfg f e σ).bind fun (_, σ) => .ok σ
    | .ifs c t e _ _ =>
      (expr cfg f c σ).bind fun (v, σ) =>
      if truthy v then stmt cfg f t σ
      else (match e with | some e => stmt cfg f e σ | none => .ok σ)
    | .repeatTimes count body _ _ countTok =>
      (expr cfg f count σ).bind fun (v, σ) =>
      (match v with
       | .num n =>
         (repeatLoop cfg f (countOf n) body { σ with loops := {} :: σ.loops }).bind popLoop
       | _ => rtErr "Invalid Value for nTIMES" countTok.span σ)
    | .repeatUntil cond body _ _ =>
      (untilLoop cfg f cond body { σ with loops := {} :: σ.loops }).bind popLoop
    | .forEach item _ list body _ _ _ listTok =>
      (expr cfg f list σ).bind fun (v, σ) =>
      (match v with
       | .list a => .ok (a, σ)
       | .str s => .ok ((allocCell σ (.list ((StrOps.charsToStrs s).map Value.str))).1,
           (allocCell σ (.list ((StrOps.charsToStrs s).map Value.str))).2)
       | _ => rtErr "Invalid Iterator" listTok.span σ : Res (Nat × St)).bind fun (a, σ) =>
      (removeVar σ item).bind fun (cached, σ) =>
      (match getList σ a with
       | some vs => .ok vs.length
       | none => .panic "dangling list" σ.out : Res Nat).bind fun len =>
      (forLoop cfg f item a 0 len body { σ with loops := {} :: σ.loops }).bind fun σ =>
      (popLoop σ).bind fun σ =>
      (match cached with
       | some v => define σ item v
       | none => .ok σ)
    | .procDecl name params body exported _ _ =>
      let p := Proc.user (params.map (·.1)) body
      .ok { σ with procs := σ.procs.insert name p,
                   exports := if exported then σ.exports.insert name p else σ.exports }
    | .ret _ value =>
      (match value with
       | none => .ok { σ with ret := some .null }
       | some e => (expr cfg f e σ).bind fun (v, σ) => .ok { σ with ret := some v })
    | .cont _ =>
      (match σ.loops with
       | [] => .panic "loop_stack.last_mut" σ.out
       | lc :: rest => .ok { σ with loops := { lc with cont := true } :: rest })
    | .brk _ =>
      (match σ.loops with
       | [] => .panic "loop_stack.last_mut" σ.out
       | lc :: rest => .ok { σ with loops := { lc with brk := true } :: rest })
    | .block _ stmts _ =>
      (createNested σ).bind fun σ => (block cfg f stmts σ).bind flattenNested
    | .import_ _ _ _ only modName => importStmt cfg (fun prog σm => program cfg f prog σm) only modName σ

/-- src: the statement loop of `Stmt::Block` -/
def block (cfg : Cfg) : Nat → List Stmt → St → Res St
  | _, [], σ => .ok σ
  | f, s :: ss, σ =>
    if pending σ then .ok σ else
    match f with
    | 0 => .fuel
    | f+1 => (stmt cfg f s σ).bind fun σ => block cfg f ss σ

/-- src: `for _ in 1..=count as usize` -/
def repeatLoop (cfg : Cfg) : Nat → Nat → Stmt → St → Res St
  | _, 0, _, σ => .ok σ
  | 0, _+1, _, _ => .fuel
  | f+1, k+1, body, σ =>
    (stmt cfg f body σ).bind fun σ => (afterBody false σ).bind fun (nxt, σ) =>
    match nxt with
    | .stop => .ok σ
    | .again => repeatLoop cfg f k body σ

/-- src: `while !is_truthy(condition)` -/
def untilLoop (cfg : Cfg) : Nat → Expr → Stmt → St → Res St
  | 0, _, _, _ => .fuel
  | f+1, cond, body, σ =>
    (expr cfg f cond σ).bind fun (c, σ) =>
    if truthy c then .ok σ else
    (stmt cfg f body σ).bind fun σ => (afterBody true σ).bind fun (nxt, σ) =>
    match nxt with
    | .stop => .ok σ
    | .again => untilLoop cfg f cond body σ

/-- src: `for i in 0..len` of FOR EACH over the cell at `a` -/
def forLoop (cfg : Cfg) : Nat → Str → Nat → Nat → Nat → Stmt → St → Res St
  | 0, _, _, _, _, _, _ => .fuel
  | f+1, item, a, i, len, body, σ =>
    if i ≥ len then .ok σ else
    match (getList σ a).bind (fun vs => vs[i]?) with
    | none => .ok σ      -- the body made the list shorter
    | some v =>
      (define σ item v).bind fun σ =>
      (stmt cfg f body σ).bind fun σ =>
      (forAfter σ).bind fun (nxt, σ) =>
      match nxt with
      | .stop => .ok σ
      | .skip => forLoop cfg f item a (i + 1) len body σ
      | .writeBack =>
        -- write the loop variable back into the list
        (removeVar σ item).bind fun (cur, σ) =>
        forLoop cfg f item a (i + 1) len body (writeBack σ a i cur)

/-- src: `Interpreter::interpret` / `interpret_module`: the top-level statement loop -/
def program (cfg : Cfg) : Nat → List Stmt → St → Res St
  | _, [], σ => .ok σ
  | 0, _ :: _, _ => .fuel
  | f+1, s :: ss, σ => (stmt cfg f s σ).bind fun σ => program cfg f ss σ

end

end Aplang
