import Aplang.Model.State
/-!
# File-system model  (src: standard_library/file_system.rs over `std::fs` on Linux)

A tree below a sandbox root: association list from component paths to nodes; the root (empty
path) always exists and is a directory. Path strings are split at `/`; empty components and `.`
are dropped (so an absolute path string is read from the root as well: its leading empty component
is dropped).

`..` is resolved as the kernel does it (`resolve`): the components are walked from left to right
starting at the root; a normal component descends (whether or not the name exists: what is missing
is found out by the operation at the end); `..` goes to the parent of the directory reached so far,
and it is valid only if everything before it names an existing **directory** (Linux: `ENOENT` for
`missing/../x`, `ENOTDIR` for `file/../x`). An operation on a path string that does not resolve
fails by value and leaves the tree as it was. A path string whose last component is `..` or `.`
can only name a directory (`dirOnly`), exactly like one with a trailing `/`: `g/.` with `g` a file
names nothing (Linux: `ENOTDIR`), and `mkdir`, `rmdir`, `open(O_CREAT)`, `unlink` of a path whose last
component is `.` or `..` fail whatever it names (`lastDots`). Elsewhere in the string `.` is dropped.

The one deliberate simplification: `..` at the root stays at the root (Linux: `/..` = `/`). For the
real root that is what Linux does; for the *sandbox* root it is not (the parent of the sandbox
directory is a different directory). The harness never generates paths that climb above the sandbox
root.

Symlinks and permissions are outside the model.

For a path string without a `..` component and without a last component `.` below a name
(`lexicalOK`) every operation below is what it was before `..` and the final `.` were brought into
the model (`Aplang.Fs.Lexical`, `*_eq_lexical` in Proofs/FsLemmas.lean).
-/
namespace Aplang.Fs

abbrev Path := List Str
abbrev Tree := List (Path × FsNode)

def splitSlash : Str → List Str
  | [] => [[]]
  | c :: cs =>
    if c == '/' then [] :: splitSlash cs
    else match splitSlash cs with
      | [] => [[c]]
      | h :: t => (c :: h) :: t

/-- the components of a path string: empty ones and `.` dropped, `..` kept -/
def components (s : Str) : Path := (splitSlash s).filter (fun c => c != [] && c != ['.'])

def find? (t : Tree) (p : Path) : Option FsNode :=
  if p == [] then some .dir else (List.find? (fun e => e.1 == p) t).map (·.2)

def isDir (t : Tree) (p : Path) : Bool := match find? t p with | some .dir => true | _ => false
def isFile (t : Tree) (p : Path) : Bool := match find? t p with | some (.file _) => true | _ => false
def pathExists (t : Tree) (p : Path) : Bool := (find? t p).isSome

def parent (p : Path) : Path := p.dropLast

def put (t : Tree) (p : Path) (n : FsNode) : Tree := (p, n) :: List.filter (fun e => e.1 != p) t
def erase (t : Tree) (p : Path) : Tree := List.filter (fun e => e.1 != p) t
def eraseUnder (t : Tree) (p : Path) : Tree := List.filter (fun e => !(p.isPrefixOf e.1)) t
/-- everything strictly below `p` goes, `p` itself stays -/
def eraseBelow (t : Tree) (p : Path) : Tree :=
  List.filter (fun e => (e.1 == p && e.1 != []) || !(p.isPrefixOf e.1)) t
def children (t : Tree) (p : Path) : List Path :=
  (List.filter (fun e => e.1 != [] && parent e.1 == p) t).map (·.1)

/-! ## `..` -/

def dotdot : Str := ['.', '.']

/-- no component of the path string is `..` -/
def noDotDot (s : Str) : Bool := !(components s).contains dotdot

/-- the last component of the path string is `..` -/
def endsDotDot (s : Str) : Bool := (components s).getLast? == some dotdot

/-- the last component of the path string as written is `.` (`g/.`, `g/./`, `g/./.`, `.`) -/
def endsDot (s : Str) : Bool := ((splitSlash s).filter (fun c => c != [])).getLast? == some ['.']

/-- the last component is `.` or `..`: `mkdir`, `rmdir` of such a path fail (`EEXIST` or `ENOENT`;
`EINVAL` or `ENOTEMPTY`) -/
def lastDots (s : Str) : Bool := endsDot s || endsDotDot s

/-- neither a `..` component nor a last component `.` -/
def plain (s : Str) : Bool := noDotDot s && !endsDot s

/-- the strings on which the model is the lexical one (`Aplang.Fs.Lexical`): no `..` component, and a
last component `.` only when there is no name in the string at all (`.`, `./`, `./.`: the root) -/
def lexicalOK (s : Str) : Bool := noDotDot s && (!endsDot s || components s == [])

/-- the walk of the kernel over the components `cs`, standing at the directory `cur`: a normal
component descends; `..` needs `cur` to be an existing directory and goes to its parent (the root is
its own parent) -/
def resolveFrom (t : Tree) : Path → List Str → Option Path
  | cur, [] => some cur
  | cur, c :: cs =>
    if c == dotdot then (if isDir t cur then resolveFrom t (parent cur) cs else none)
    else resolveFrom t (cur ++ [c]) cs

/-- the component path a path string names in the tree `t`; `none`: some `..` is taken from
something that is not an existing directory -/
def resolve (t : Tree) (s : Str) : Option Path := resolveFrom t [] (components s)

/-- a trailing `/` demands a directory: `f/` never names a file -/
def trailingSlash (s : Str) : Bool := s.getLast? == some '/'

/-- the path string can only name a directory: it ends in `/`, or its last component is `..` or `.`
(Linux: `ENOTDIR` when it names a file; `EISDIR` for `open(O_CREAT)` and `unlink` of such a path,
whatever it resolves to) -/
def dirOnly (s : Str) : Bool := trailingSlash s || lastDots s

/-! ## the operations at a resolved path

`s` is the path string as written (for what only the spelling decides), `p` the path it resolves to. -/

def existsAt (t : Tree) (s : Str) (p : Path) : Bool :=
  s != [] && (if dirOnly s then isDir t p else pathExists t p)
def isFileAt (t : Tree) (s : Str) (p : Path) : Bool := s != [] && !dirOnly s && isFile t p
def isDirAt (t : Tree) (s : Str) (p : Path) : Bool := s != [] && isDir t p

def fileCreateAt (t : Tree) (s : Str) (p : Path) : Tree × Bool :=
  if s == [] || dirOnly s || p == [] || pathExists t p || !isDir t (parent p) then (t, false)
  else (put t p (.file []), true)

def fileRemoveAt (t : Tree) (s : Str) (p : Path) : Tree × Bool :=
  if s != [] && !dirOnly s && isFile t p then (erase t p, true) else (t, false)

def fileReadAt (t : Tree) (s : Str) (p : Path) : Option Str :=
  if s == [] || dirOnly s then none else
  match find? t p with
  | some (.file c) => some c
  | _ => none

def fileAppendAt (t : Tree) (s : Str) (p : Path) (text : Str) : Tree × Bool :=
  if s == [] || dirOnly s then (t, false) else
  match find? t p with
  | some (.file c) => (put t p (.file (c ++ text)), true)
  | _ => (t, false)

def fileOverwriteAt (t : Tree) (s : Str) (p : Path) (text : Str) : Tree × Bool :=
  if s == [] || dirOnly s then (t, false) else
  match find? t p with
  | some (.file _) => (put t p (.file text), true)
  | _ => (t, false)

/-- `mkdir("a/..")`, `mkdir("a/.")` are `EEXIST` (or `ENOENT`: `mkdir("new/.")`) -/
def dirCreateAt (t : Tree) (s : Str) (p : Path) : Tree × Bool :=
  if s == [] || lastDots s || p == [] || pathExists t p || !isDir t (parent p) then (t, false)
  else (put t p .dir, true)

/-- `rmdir` of a path whose last component is `..` fails (`ENOTEMPTY`), and so does `rmdir("k/.")` (`EINVAL`) -/
def dirRemoveAt (t : Tree) (s : Str) (p : Path) : Tree × Bool :=
  if s != [] && !lastDots s && p != [] && isDir t p && (children t p).isEmpty then (erase t p, true)
  else (t, false)

/-- `remove_dir_all(s)` first removes everything below the directory `s` names, then calls `rmdir(s)` — and
`s` is resolved again, in the tree as it is by then:
* if `s` went (with `..`) through a directory that has just been removed, that `rmdir` is `ENOENT`, which
  `remove_dir_all` takes as done: success, and the directory named stays, empty
  (`remove_dir_all("d/..")`, `remove_dir_all("d/e/../../d")`);
* `rmdir` of the root fails (`remove_dir_all(".")` empties the sandbox root and then fails), and so does
  `rmdir` of a path whose last component is `.` (`remove_dir_all("d/.")` empties `d` and then fails, `d`
  stays) or `..` (this arises only for `..` taken at the root);
* otherwise the directory, now empty, is removed. -/
def dirRemoveAllAt (t : Tree) (s : Str) (p : Path) : Tree × Bool :=
  if s == [] || !isDir t p then (t, false) else
  match resolve (eraseBelow t p) s with
  | none => (eraseBelow t p, true)
  | some _ => if p == [] || lastDots s then (eraseBelow t p, false) else (eraseUnder t p, true)

def dirReadAt (t : Tree) (s : Str) (p : Path) : Option (List Str) :=
  if s == [] || !isDir t p then none else
  let base : Str := if s.getLast? == some '/' then s else s ++ ['/']
  some ((children t p).map fun q => base ++ (q.getLast?.getD []))

/-! ## the operations on path strings -/

/-- `PATH_EXISTS` etc. on the raw string: the empty string names nothing -/
def existsS (t : Tree) (s : Str) : Bool :=
  match resolve t s with | none => false | some p => existsAt t s p
def isFileS (t : Tree) (s : Str) : Bool :=
  match resolve t s with | none => false | some p => isFileAt t s p
def isDirS (t : Tree) (s : Str) : Bool :=
  match resolve t s with | none => false | some p => isDirAt t s p

/-- `File::create_new` -/
def fileCreate (t : Tree) (s : Str) : Tree × Bool :=
  match resolve t s with | none => (t, false) | some p => fileCreateAt t s p

/-- `remove_file` -/
def fileRemove (t : Tree) (s : Str) : Tree × Bool :=
  match resolve t s with | none => (t, false) | some p => fileRemoveAt t s p

/-- `read_to_string` -/
def fileRead (t : Tree) (s : Str) : Option Str :=
  match resolve t s with | none => none | some p => fileReadAt t s p

/-- `OpenOptions::append(true).open` + `write!` -/
def fileAppend (t : Tree) (s : Str) (text : Str) : Tree × Bool :=
  match resolve t s with | none => (t, false) | some p => fileAppendAt t s p text

/-- `OpenOptions::write(true).truncate(true).open` + `write!` -/
def fileOverwrite (t : Tree) (s : Str) (text : Str) : Tree × Bool :=
  match resolve t s with | none => (t, false) | some p => fileOverwriteAt t s p text

/-- `create_dir` -/
def dirCreate (t : Tree) (s : Str) : Tree × Bool :=
  match resolve t s with | none => (t, false) | some p => dirCreateAt t s p

/-- `remove_dir`: an existing, empty directory other than the root -/
def dirRemove (t : Tree) (s : Str) : Tree × Bool :=
  match resolve t s with | none => (t, false) | some p => dirRemoveAt t s p

/-- `remove_dir_all`: an existing directory other than the root, with everything below it -/
def dirRemoveAll (t : Tree) (s : Str) : Tree × Bool :=
  match resolve t s with | none => (t, false) | some p => dirRemoveAllAt t s p

/-- `read_dir(path)`: each entry as `path.join(name)` — the path string as written, `..` included;
`none` when the path is not a directory -/
def dirRead (t : Tree) (s : Str) : Option (List Str) :=
  match resolve t s with | none => none | some p => dirReadAt t s p

/-! ## `create_dir_all`

`create_dir_all` does not go through `resolve`: it makes the directories it misses, so that a `..`
after a missing name is taken from the directory just made (`create_dir_all("new/../x")` makes `new`
and `x`). (src: `DirBuilder::create_dir_all` calls `mkdir` on the ancestors of the path string, longest
first, until one succeeds or exists as a directory, then on the remaining ones, shortest first; an
ancestor ending in `..` is `EEXIST` and a directory by then. The outcome is that of the walk below.) -/

/-- prefixes of a path, shortest first, excluding the empty one -/
def prefixes : Path → List Path
  | [] => []
  | c :: cs => [c] :: (prefixes cs).map (c :: ·)

/-- `mkdir` unless something is there -/
def mkdirStep (acc : Tree) (q : Path) : Tree := if pathExists acc q then acc else put acc q .dir

/-- the directories `create_dir_all` wants to see, in order, standing at `cur`: a normal component
names the next one, `..` steps back to the parent (which exists by then). For components without
`..` these are the `prefixes`. -/
def mkdirVisits : Path → List Str → List Path
  | _, [] => []
  | cur, c :: cs =>
    if c == dotdot then mkdirVisits (parent cur) cs else (cur ++ [c]) :: mkdirVisits (cur ++ [c]) cs

/-- `create_dir_all` over the directories `vs` it wants to see: fails when one of them is a file.
Without `..` nothing has been made by then; with `..` the directories visited before the file have
been (`create_dir_all("new/../file/x")` makes `new`, then fails).
(The ancestors of the file are left out of what is made before the failure: they exist in every tree
in which the ancestors of an entry exist, and leaving them out makes the function what it was for
`..`-free strings on every association list.) -/
def mkdirRun (t : Tree) (vs : List Path) : Tree × Bool :=
  match vs.find? (fun q => isFile t q) with
  | none => (vs.foldl mkdirStep t, true)
  | some f =>
    (((vs.takeWhile fun q => !isFile t q).filter fun q => !(q.isPrefixOf f)).foldl mkdirStep t, false)

/-- `create_dir_all("a/b/.")` does not make `b`: the ancestors of that path string are `a/b/.` itself and
`a` (src: `Path::parent` drops the `.` together with `b`), and `mkdir("a/b/.")` makes nothing — it is
`EEXIST` when `a/b` is a directory (fine), `ENOENT` / `ENOTDIR` otherwise (failure, after `a` was made).
So when the last component is `.` and the one before it is a name, that last directory must be there. -/
def lastMustExist (s : Str) : Bool := endsDot s && !endsDotDot s && components s != []

/-- the directories `create_dir_all` makes when they are missing -/
def dirCreateAllVisits (s : Str) : List Path :=
  if lastMustExist s then (mkdirVisits [] (components s)).dropLast else mkdirVisits [] (components s)

/-- `create_dir_all` -/
def dirCreateAll (t : Tree) (s : Str) : Tree × Bool :=
  let r := mkdirRun t (dirCreateAllVisits s)
  if lastMustExist s then (r.1, r.2 && isDir r.1 ((mkdirVisits [] (components s)).getLast?.getD [])) else r

end Aplang.Fs
