import Aplang.Model.State
/-!
# File-system model  (src: standard_library/file_system.rs over `std::fs` on Linux)

A tree below a sandbox root: association list from component paths to nodes; the root (empty
path) always exists and is a directory. Path strings are relative, split at `/`; empty components
and `.` are dropped; `..`, absolute paths, symlinks and permissions are outside the model.
-/
namespace Aplang.Fs

abbrev Path := List Str
abbrev Tree := List (Path × FsNode)

def splitSlash : Str → List Str
  | [] => [[]]
  | c :: cs =>
    if c == '/' then [] :: splitSlash cs
    else match splitSlash cs with
      | [] => [[c]]
      | h :: t => (c :: h) :: t

def components (s : Str) : Path := (splitSlash s).filter (fun c => c != [] && c != ['.'])

def find? (t : Tree) (p : Path) : Option FsNode :=
  if p == [] then some .dir else (List.find? (fun e => e.1 == p) t).map (·.2)

def isDir (t : Tree) (p : Path) : Bool := match find? t p with | some .dir => true | _ => false
def isFile (t : Tree) (p : Path) : Bool := match find? t p with | some (.file _) => true | _ => false
def pathExists (t : Tree) (p : Path) : Bool := (find? t p).isSome

def parent (p : Path) : Path := p.dropLast

def put (t : Tree) (p : Path) (n : FsNode) : Tree := (p, n) :: List.filter (fun e => e.1 != p) t
def erase (t : Tree) (p : Path) : Tree := List.filter (fun e => e.1 != p) t
def eraseUnder (t : Tree) (p : Path) : Tree := List.filter (fun e => !(p.isPrefixOf e.1)) t
def children (t : Tree) (p : Path) : List Path :=
  (List.filter (fun e => e.1 != [] && parent e.1 == p) t).map (·.1)

/-- a trailing `/` demands a directory: `f/` never names a file -/
def trailingSlash (s : Str) : Bool := s.getLast? == some '/'

/-- `PATH_EXISTS` etc. on the raw string: the empty string names nothing -/
def existsS (t : Tree) (s : Str) : Bool :=
  s != [] && (if trailingSlash s then isDir t (components s) else pathExists t (components s))
def isFileS (t : Tree) (s : Str) : Bool := s != [] && !trailingSlash s && isFile t (components s)
def isDirS (t : Tree) (s : Str) : Bool := s != [] && isDir t (components s)

/-- `File::create_new` -/
def fileCreate (t : Tree) (s : Str) : Tree × Bool :=
  let p := components s
  if s == [] || trailingSlash s || p == [] || pathExists t p || !isDir t (parent p) then (t, false)
  else (put t p (.file []), true)

/-- `remove_file` -/
def fileRemove (t : Tree) (s : Str) : Tree × Bool :=
  let p := components s
  if s != [] && !trailingSlash s && isFile t p then (erase t p, true) else (t, false)

/-- `read_to_string` -/
def fileRead (t : Tree) (s : Str) : Option Str :=
  if s == [] || trailingSlash s then none else
  match find? t (components s) with
  | some (.file c) => some c
  | _ => none

/-- `OpenOptions::append(true).open` + `write!` -/
def fileAppend (t : Tree) (s : Str) (text : Str) : Tree × Bool :=
  let p := components s
  if s == [] || trailingSlash s then (t, false) else
  match find? t p with
  | some (.file c) => (put t p (.file (c ++ text)), true)
  | _ => (t, false)

/-- `OpenOptions::write(true).truncate(true).open` + `write!` -/
def fileOverwrite (t : Tree) (s : Str) (text : Str) : Tree × Bool :=
  let p := components s
  if s == [] || trailingSlash s then (t, false) else
  match find? t p with
  | some (.file _) => (put t p (.file text), true)
  | _ => (t, false)

/-- `create_dir` -/
def dirCreate (t : Tree) (s : Str) : Tree × Bool :=
  let p := components s
  if s == [] || p == [] || pathExists t p || !isDir t (parent p) then (t, false)
  else (put t p .dir, true)

/-- prefixes of a path, shortest first, excluding the empty one -/
def prefixes : Path → List Path
  | [] => []
  | c :: cs => [c] :: (prefixes cs).map (c :: ·)

/-- `create_dir_all`: fails (creating nothing) when a component is a file -/
def dirCreateAll (t : Tree) (s : Str) : Tree × Bool :=
  let p := components s
  if (prefixes p).any (fun q => isFile t q) then (t, false)
  else ((prefixes p).foldl (fun acc q => if pathExists acc q then acc else put acc q .dir) t, true)

/-- `remove_dir`: an existing, empty directory other than the root -/
def dirRemove (t : Tree) (s : Str) : Tree × Bool :=
  let p := components s
  if s != [] && p != [] && isDir t p && (children t p).isEmpty then (erase t p, true) else (t, false)

/-- `remove_dir_all`: an existing directory other than the root, with everything below it -/
def dirRemoveAll (t : Tree) (s : Str) : Tree × Bool :=
  let p := components s
  if s != [] && p != [] && isDir t p then (eraseUnder t p, true)
  -- `remove_dir_all(".")` empties the sandbox root and then fails to remove the root itself
  else if s != [] && p == [] then ([], false)
  else (t, false)

/-- `read_dir(path)`: each entry as `path.join(name)`; `none` when the path is not a directory -/
def dirRead (t : Tree) (s : Str) : Option (List Str) :=
  let p := components s
  if s == [] || !isDir t p then none else
  let base : Str := if s.getLast? == some '/' then s else s ++ ['/']
  some ((children t p).map fun q => base ++ (q.getLast?.getD []))

end Aplang.Fs
