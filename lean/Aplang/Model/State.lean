import Aplang.Model.Ast
import Aplang.Model.Value
import Aplang.Model.MapCell
import Aplang.Model.Robot
import Aplang.Prim.F64
import Aplang.Prim.StrOps
/-!
# Interpreter state  (src: interpreter/{interpreter,env,procedure,errors}.rs)
-/
namespace Aplang

/-- src: env.rs `LoopControl` -/
structure LoopCtl where
  brk : Bool := false
  cont : Bool := false
deriving DecidableEq, Repr, Inhabited

/-- what an `Rc<RefCell<..>>` can hold -/
inductive Cell
  | list (vs : List Value)
  | map (m : MapCell.AMap)
  | robot (r : Robot.Robot)
deriving Inhabited

/-- src: env.rs `Context` (HashMap as association list; a name occurs at most once) -/
abbrev Frame := List (Str × Value)

/-- every native procedure of the standard library -/
inductive Native
  -- CORE
  | display | displayNoln | input | insert | append | remove | length | random
  -- MATH
  | sin | cos | tan | asin | acos | atan | atan2 | sinh | cosh | tanh | asinh | acosh | atanh
  | exp | log | log10 | log2 | round | floor | ceil | int | clamp | pi | e | tau
  -- STRING
  | toNumber | toBool | split | toUpper | toLower | trim | contains | replace | startsWith | endsWith
  | join | substring | toCharArray
  -- MAP
  | mapNew | mapInsert | mapGet | mapContainsKey | mapValues | mapKeys
  -- IO
  | inputPrompt | format | displayf
  -- STYLE
  | style | clearStyle
  -- TIME
  | time | sleep
  -- ROBOT
  | robotMap | moveFoward | canMove | moveForward | rotateLeft | rotateRight | formatRobot | formatRobotAscii
  -- FS
  | pathExists | pathIsFile | pathIsDirectory | fileRemove | fileCreate | fileRead | fileAppend
  | fileOverwrite | directoryRead | directoryCreate | directoryCreateAll | directoryRemove | directoryRemoveAll
deriving DecidableEq, Repr, Inhabited

/-- src: procedure.rs `Procedure` / `NativeProcedure` behind `Rc<dyn Callable>` -/
inductive Proc
  | user (params : List Str) (body : Stmt)
  | native (n : Native)
deriving Inhabited

/-- src: procedure.rs `FunctionMap` -/
abbrev FunTable := List (Str × Proc)

def FunTable.insert (t : FunTable) (name : Str) (p : Proc) : FunTable :=
  (name, p) :: List.filter (fun e => e.1 != name) t

def FunTable.find? (t : FunTable) (name : Str) : Option Proc :=
  (List.find? (fun e => e.1 == name) t).map (·.2)

/-- src: `HashMap::extend` -/
def FunTable.extend (t : FunTable) (more : FunTable) : FunTable :=
  more.foldl (fun acc e => acc.insert e.1 e.2) t

/-- file-system model: path components below the sandbox root -/
inductive FsNode
  | file (content : Str)
  | dir
deriving Inhabited

/-- everything outside the interpreter: standard input, random choices, clock, files -/
structure World where
  stdin : Str := []
  rng : List Nat := []
  clock : Nat := 0
  fs : List (List Str × FsNode) := []
deriving Inhabited

structure RtErr where
  kind : String
  span : Span
deriving Inhabited, Repr

/-- src: `Interpreter` + `Env` -/
structure St where
  heap : List Cell := []
  scopes : List Frame := [[]]
  procs : FunTable := []
  exports : FunTable := []
  ret : Option Value := none
  loops : List LoopCtl := []
  /-- output events, most recent first -/
  out : List Str := []
  world : World := {}
  /-- src: `file_path` (`None` is never constructed by the tool; `Some("")` for -e / stdin) -/
  filePath : Str := []
  /-- statements that may still start (the counterpart of the hook's statement budget; keeps runs of
  the executable model finite even for programs with branching recursion) -/
  budget : Nat := 1000000
deriving Inhabited

inductive Res (α : Type)
  | ok (a : α)
  | err (e : RtErr) (σ : St)
  /-- robot moved into a wall: terminates the program by specification (a `panic!` in the Rust) -/
  | terminate (why : String) (σ : St)
  /-- a Rust panic: the process aborts; only what was already displayed matters -/
  | panic (site : String) (out : List Str)
  | fuel
deriving Inhabited

@[inline] def Res.bind {α β} (x : Res α) (k : α → Res β) : Res β :=
  match x with
  | .ok a => k a
  | .err e σ => .err e σ
  | .terminate w σ => .terminate w σ
  | .panic s σ => .panic s σ
  | .fuel => .fuel

@[simp] theorem Res.bind_ok {α β} (a : α) (k : α → Res β) : (Res.ok a).bind k = k a := rfl
@[simp] theorem Res.bind_err {α β} (e σ) (k : α → Res β) : (Res.err e σ : Res α).bind k = .err e σ := rfl
@[simp] theorem Res.bind_terminate {α β} (w σ) (k : α → Res β) : (Res.terminate w σ : Res α).bind k = .terminate w σ := rfl
@[simp] theorem Res.bind_panic {α β} (s o) (k : α → Res β) : (Res.panic s o : Res α).bind k = .panic s o := rfl
@[simp] theorem Res.bind_fuel {α β} (k : α → Res β) : (Res.fuel : Res α).bind k = .fuel := rfl

/-! ## Environment (src: env.rs) -/

def Frame.get? (fr : Frame) (x : Str) : Option Value := (fr.find? (fun e => e.1 == x)).map (·.2)
def Frame.set (fr : Frame) (x : Str) (v : Value) : Frame := (x, v) :: fr.filter (fun e => e.1 != x)
def Frame.erase (fr : Frame) (x : Str) : Frame := fr.filter (fun e => e.1 != x)

/-- src: `Env::lookup_name` on the active (top) context -/
def lookupVar (σ : St) (x : Str) : Option Value :=
  match σ.scopes with
  | [] => none
  | fr :: _ => fr.get? x

/-- src: `Env::define`; `activate()` indexes `venv[len-1]`: a panic primitive when no context exists -/
def define (σ : St) (x : Str) (v : Value) : Res St :=
  match σ.scopes with
  | [] => .panic "env.activate" σ.out
  | fr :: rest => .ok { σ with scopes := fr.set x v :: rest }

/-- src: `Env::remove` -/
def removeVar (σ : St) (x : Str) : Res (Option Value × St) :=
  match σ.scopes with
  | [] => .panic "env.activate" σ.out
  | fr :: rest => .ok (fr.get? x, { σ with scopes := fr.erase x :: rest })

/-- src: `Env::create_nested_layer` -/
def createNested (σ : St) : Res St :=
  match σ.scopes with
  | [] => .panic "env.activate" σ.out
  | fr :: rest => .ok { σ with scopes := fr :: fr :: rest }

/-- src: `Env::flatten_nested_layer` -/
def flattenNested (σ : St) : Res St :=
  match σ.scopes with
  | [] => .panic "env.scrape" σ.out
  | _ :: [] => .panic "env.activate" σ.out
  | fr :: _ :: rest => .ok { σ with scopes := fr :: rest }

/-- one statement starts: src (hook) `verif::tick` at the top of `Interpreter::stmt` -/
def tick (σ : St) : Option St :=
  if σ.budget = 0 then none else some { σ with budget := σ.budget - 1 }

/-! ## Heap -/

def allocCell (σ : St) (c : Cell) : Nat × St := (σ.heap.length, { σ with heap := σ.heap ++ [c] })

def getList (σ : St) (a : Nat) : Option (List Value) :=
  match σ.heap[a]? with
  | some (.list vs) => some vs
  | _ => none

def setCell (σ : St) (a : Nat) (c : Cell) : St := { σ with heap := σ.heap.set a c }

def emit (σ : St) (text : Str) : St := { σ with out := text :: σ.out }

/-- the bytes written to the output channel so far -/
def St.output (σ : St) : Str := (σ.out.reverse).flatten

/-! ## Display (src: value.rs `impl Display for Value`) -/

def joinComma : List Str → Str
  | [] => []
  | [a] => a
  | a :: rest => a ++ ", ".toList ++ joinComma rest

mutual
/-- `none`: the value contains itself (the Rust recursion would not terminate) -/
def displayV (heap : List Cell) : Nat → Value → Option Str
  | _, .null => some "NULL".toList
  | _, .num x => some (F64.fmt x)
  | _, .bool true => some "TRUE".toList
  | _, .bool false => some "FALSE".toList
  | _, .str s => some s
  | _, .obj _ => some "NATIVE".toList
  | 0, .list _ => none
  | d+1, .list a =>
    match heap[a]? with
    | some (.list vs) => (displayVs heap d vs).map fun parts => '[' :: joinComma parts ++ [']']
    | _ => none
def displayVs (heap : List Cell) : Nat → List Value → Option (List Str)
  | _, [] => some []
  | d, v :: vs =>
    match displayV heap d v, displayVs heap d vs with
    | some a, some b => some (a :: b)
    | _, _ => none
end

/-- display with a depth budget that every acyclic value fits in -/
def display (σ : St) (v : Value) : Res Str :=
  match displayV σ.heap (σ.heap.length + 1) v with
  | some s => .ok s
  | none => .fuel

end Aplang
