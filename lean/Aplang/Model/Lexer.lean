import Aplang.Model.Token
/-!
# Lexer model  (src: lexer/lexer.rs)

`scan` mirrors `Lexer::scan_tokens`: a loop that sets `start = current`, calls `scan_token`,
collects errors and finally pushes `Eof`. The cursor is a byte offset; the remaining input is the
suffix of the source not yet consumed. The loop is defined by well-founded recursion on the remaining
input: Lean accepts it only because every `scanOne` consumes at least one character.

Parameters: the keyword table and the set of statement-ending token kinds (both regenerated from the
live code into `Gen/`), and the Unicode class `is_alphanumeric`.
-/
namespace Aplang

/-- lexical error classes -/
inductive LexErrKind
  | loneBang | loneEq | badBackslash | unknownSymbol | badEscape | unterminated
deriving DecidableEq, Repr

structure LexErr where
  kind : LexErrKind
  /-- labelled byte ranges (offset, length) of the diagnostic -/
  labels : List (Nat × Nat)

structure LexCfg where
  kw : Str → Option TT
  ender : TT → Bool
  isAlnum : Char → Bool

/-- result of one `scan_token`; `bytes` = how far the cursor moved -/
inductive Step where
  | tok (t : Token) (rest : Str)
  | skip (bytes : Nat) (rest : Str)
  | err (e : LexErr) (bytes : Nat) (rest : Str)

def Step.rest : Step → Str
  | .tok _ r => r | .skip _ r => r | .err _ _ r => r

def Step.bytes : Step → Nat
  | .tok t _ => t.len | .skip b _ => b | .err _ b _ => b

/-- body of a string literal: src `Lexer::string` loop. Input: text after the opening quote.
Result: decoded value, consumed characters (incl. closing quote), rest — or the error class with the
consumed characters and rest. -/
inductive StrRes where
  | ok (value consumed rest : Str)
  | badEscape (consumed rest : Str)
  | unterminated (consumed : Str)

def scanString : Str → StrRes
  | [] => .unterminated []
  | '"' :: rest => .ok [] ['"'] rest
  | '\\' :: rest =>
    match rest with
    | e :: rest' =>
      let dec : Option Char :=
        if e == 'n' then some '\n' else if e == 'r' then some '\r' else if e == 't' then some '\t'
        else if e == '\\' then some '\\' else if e == '"' then some '"' else none
      match dec with
      | some d =>
        match scanString rest' with
        | .ok v c r => .ok (d :: v) ('\\' :: e :: c) r
        | .badEscape c r => .badEscape ('\\' :: e :: c) r
        | .unterminated c => .unterminated ('\\' :: e :: c)
      | none => .badEscape ['\\'] (e :: rest')
    | [] => .badEscape ['\\'] []
  | c :: rest =>
    match scanString rest with
    | .ok v cs r => .ok (c :: v) (c :: cs) r
    | .badEscape cs r => .badEscape (c :: cs) r
    | .unterminated cs => .unterminated (c :: cs)

def StrRes.rest : StrRes → Str
  | .ok _ _ r => r | .badEscape _ r => r | .unterminated _ => []
def StrRes.consumed : StrRes → Str
  | .ok _ c _ => c | .badEscape c _ => c | .unterminated c => c

theorem scanString_split (s : Str) : (scanString s).consumed ++ (scanString s).rest = s := by
  fun_induction scanString s <;> simp_all [StrRes.consumed, StrRes.rest]

theorem scanString_len (s : Str) : (scanString s).rest.length ≤ s.length := by
  have := congrArg List.length (scanString_split s); simp at this; omega

/-- decimal value of a digit string -/
def digitsVal (ds : Str) : Nat := ds.foldl (fun n d => 10 * n + (d.toNat - '0'.toNat)) 0

/-- src: `substring.parse::<f64>()` on `digits[.digits]`: the nearest double -/
def numberValue (intPart fracPart : Str) : Float :=
  Float.ofScientific (digitsVal (intPart ++ fracPart)) true fracPart.length

def mkTok (tt : TT) (lexeme : Str) (lit : Lit) (pos : Nat) : Token :=
  ⟨tt, lexeme, lit, pos, ulen lexeme⟩

/-- first-character classes of `scan_token`'s `match c` (in the order of its arms) -/
inductive CClass
  | single (tt : TT) | bang | eq | lt | gt | slash | backslash | blank | newline | quote | digit | alnum | other
deriving DecidableEq, Repr

/-- the single-character tokens of `scan_token` -/
def singleTable : List (Char × TT) :=
  [('(', .leftParen), (')', .rightParen), ('[', .leftBracket), (']', .rightBracket), ('{', .leftBrace),
   ('}', .rightBrace), (',', .comma), ('.', .dot), ('-', .minus), ('+', .plus), ('*', .star), (';', .softSemi)]

def singleTT (c : Char) : Option TT := (singleTable.find? (fun e => e.1 == c)).map (·.2)

def classify (cfg : LexCfg) (c : Char) : CClass :=
  match singleTT c with
  | some tt => .single tt
  | none =>
    if c == '!' then .bang else if c == '=' then .eq else if c == '<' then .lt else if c == '>' then .gt
    else if c == '/' then .slash else if c == '\\' then .backslash
    else if c == ' ' || c == '\r' || c == '\t' then .blank
    else if c == '\n' then .newline else if c == '"' then .quote
    else if isAsciiDigit c then .digit else if cfg.isAlnum c then .alnum else .other

/-- src: `Lexer::number`, after the first digit `c` -/
def scanNumber (pos : Nat) (c : Char) (cs : Str) : Step :=
  let (ds, r1) := spanWhile isAsciiDigit cs
  match r1 with
  | '.' :: d :: r2 =>
    if isAsciiDigit d then
      let (fs, r3) := spanWhile isAsciiDigit r2
      .tok (mkTok .number (c :: ds ++ '.' :: d :: fs) (.num (numberValue (c :: ds) (d :: fs))) pos) r3
    else .tok (mkTok .number (c :: ds) (.num (numberValue (c :: ds) [])) pos) r1
  | _ => .tok (mkTok .number (c :: ds) (.num (numberValue (c :: ds) [])) pos) r1

/-- src: `Lexer::identifier`, after the first character `c` -/
def scanIdent (cfg : LexCfg) (pos : Nat) (c : Char) (cs : Str) : Step :=
  let (a, r) := spanWhile (fun d => cfg.isAlnum d || d == '_') cs
  match cfg.kw (c :: a) with
  | some k => .tok (mkTok k (c :: a) .none pos) r
  | none => .tok (mkTok .identifier (c :: a) .none pos) r

/-- one `scan_token` call on input `c :: cs` at byte offset `pos`; `prev` = kind of the last token
pushed so far. Consumes at least `c`. -/
def scanOne (cfg : LexCfg) (prev : Option TT) (pos : Nat) (c : Char) (cs : Str) : Step :=
  match classify cfg c with
  | .single tt => .tok (mkTok tt [c] .none pos) cs
  | .bang =>
    match cs with
    | '=' :: r => .tok (mkTok .bangEqual [c, '='] .none pos) r
    | _ => .err ⟨.loneBang, [(pos, 1)]⟩ c.utf8Size cs
  | .eq =>
    match cs with
    | '=' :: r => .tok (mkTok .equalEqual [c, '='] .none pos) r
    | _ => .err ⟨.loneEq, [(pos, 1)]⟩ c.utf8Size cs
  | .lt =>
    match cs with
    | '=' :: r => .tok (mkTok .lessEqual [c, '='] .none pos) r
    | '-' :: r => .tok (mkTok .arrow [c, '-'] .none pos) r
    | _ => .tok (mkTok .less [c] .none pos) cs
  | .gt =>
    match cs with
    | '=' :: r => .tok (mkTok .greaterEqual [c, '='] .none pos) r
    | _ => .tok (mkTok .greater [c] .none pos) cs
  | .slash =>
    match cs with
    | '/' :: r => .skip (c.utf8Size + (1 + ulen (spanWhile (fun d => d != '\n') r).1)) (spanWhile (fun d => d != '\n') r).2
    | _ => .tok (mkTok .slash [c] .none pos) cs
  | .backslash =>
    match cs with
    | '\n' :: r => .skip (c.utf8Size + 1) r
    | _ => .err ⟨.badBackslash, [(pos, 1)]⟩ c.utf8Size cs
  | .blank => .skip c.utf8Size cs
  | .newline =>
    match prev with
    | some p => if cfg.ender p then .tok (mkTok .softSemi [c] .none pos) cs else .skip c.utf8Size cs
    | none => .skip c.utf8Size cs
  | .quote =>
    match scanString cs with
    | .ok v consumed rest => .tok (mkTok .stringLiteral (c :: consumed) (.str v) pos) rest
    | .badEscape consumed rest => .err ⟨.badEscape, []⟩ (c.utf8Size + ulen consumed) rest
    | .unterminated consumed => .err ⟨.unterminated, [(pos, 0), (pos, 1 + ulen consumed)]⟩ (c.utf8Size + ulen consumed) []
  | .digit => scanNumber pos c cs
  | .alnum => scanIdent cfg pos c cs
  | .other => .err ⟨.unknownSymbol, [(pos, c.utf8Size)]⟩ c.utf8Size cs

theorem scanNumber_progress (pos c cs) : (scanNumber pos c cs).rest.length ≤ cs.length := by
  unfold scanNumber
  have h1 := spanWhile_len isAsciiDigit cs
  simp only []
  split
  · rename_i d r2 heq
    have h2 := spanWhile_len isAsciiDigit r2
    rw [heq] at h1
    split <;> simp [Step.rest, heq] <;> simp at h1 <;> omega
  · simpa [Step.rest] using h1

theorem scanIdent_progress (cfg pos c cs) : (scanIdent cfg pos c cs).rest.length ≤ cs.length := by
  unfold scanIdent
  have h1 := spanWhile_len (fun d => cfg.isAlnum d || d == '_') cs
  simp only []
  split <;> simpa [Step.rest] using h1

theorem scanOne_progress (cfg prev pos c cs) : (scanOne cfg prev pos c cs).rest.length ≤ cs.length := by
  unfold scanOne
  cases classify cfg c
  case digit => exact scanNumber_progress pos c cs
  case alnum => exact scanIdent_progress cfg pos c cs
  case quote =>
    have := scanString_len cs
    simp only []
    split <;> simp_all [Step.rest, StrRes.rest]
  case slash =>
    simp only []
    split
    · rename_i r
      have := spanWhile_len (fun d => d != '\n') r
      simp [Step.rest]; omega
    · simp [Step.rest]
  all_goals (simp only []; repeat' split)
  all_goals simp [Step.rest]
  all_goals omega

/-- what the previous-token kind becomes after a step -/
def Step.prev (prev : Option TT) : Step → Option TT
  | .tok t _ => some t.tt
  | _ => prev

/-- what `scan_tokens` does with the result of one `scan_token` -/
def Step.push (st : Step) (r : List Token × List LexErr × Nat) : List Token × List LexErr × Nat :=
  match st with
  | .tok t _ => (t :: r.1, r.2.1, r.2.2)
  | .skip _ _ => r
  | .err e _ _ => (r.1, e :: r.2.1, r.2.2)

/-- src: `scan_tokens` loop. Returns the tokens (without `Eof`), the errors, and the offset of the
last `start` (the `Eof` token's offset). -/
def scanLoop (cfg : LexCfg) (src : Str) (pos : Nat) (prev : Option TT) (lastStart : Nat) :
    List Token × List LexErr × Nat :=
  match src with
  | [] => ([], [], lastStart)
  | c :: cs =>
    have : (scanOne cfg prev pos c cs).rest.length < (c :: cs).length := by
      have := scanOne_progress cfg prev pos c cs; simp; omega
    (scanOne cfg prev pos c cs).push
      (scanLoop cfg (scanOne cfg prev pos c cs).rest
        (pos + (scanOne cfg prev pos c cs).bytes)
        ((scanOne cfg prev pos c cs).prev prev) pos)
termination_by src.length

def eofToken (off : Nat) : Token := ⟨.eof, "<EOF>".toList, .none, off, 0⟩

structure LexOut where
  tokens : List Token      -- always ends with `Eof` (the Rust pushes it even when it reports errors)
  errors : List LexErr

/-- src: `Lexer::scan` -/
def lex (cfg : LexCfg) (src : Str) : LexOut :=
  let (ts, es, ls) := scanLoop cfg src 0 none 0
  ⟨ts ++ [eofToken ls], es⟩

end Aplang
