import Aplang.Prim.Text
/-!
# Runtime values  (src: interpreter/value.rs)

`Rc<RefCell<..>>` identity is an address into the heap (`Nat`); see `Model/Interp.lean` for cells.
-/
namespace Aplang

/-- src: value.rs `Value` (`NativeFunction()` / `Function()` are never constructed by the interpreter) -/
inductive Value
  | null
  | num (f : Float)
  | bool (b : Bool)
  | str (s : Str)
  | list (addr : Nat)
  | obj (addr : Nat)
deriving Inhabited

/-- f64::EPSILON = 2^-52 -/
def f64Epsilon : Float := Float.ofBits 0x3CB0000000000000

/-- src: interpreter.rs `equals` — the language's `==` -/
def langEq : Value → Value → Bool
  | .num a, .num b => (a - b).abs < f64Epsilon
  | .str a, .str b => a == b
  | .bool a, .bool b => a == b
  | .null, .null => true
  | _, _ => false

/-- src: interpreter.rs `is_truthy` -/
def truthy : Value → Bool
  | .bool b => b
  | .num n => !(n == 0.0)
  | .null => false
  | _ => true

/-- src: value.rs `impl PartialEq for Value` restricted to keys whose equality does not read the heap
(lists as map keys compare by contents in the Rust; they are outside the model and compare by address here) -/
def keyEq : Value → Value → Bool
  | .null, .null => true
  | .num a, .num b => a == b
  | .bool a, .bool b => a == b
  | .str a, .str b => a == b
  | .list a, .list b => a == b
  | .obj a, .obj b => a == b
  | _, _ => false

end Aplang
