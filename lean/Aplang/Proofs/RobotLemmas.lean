import Aplang.Model.Robot
import Aplang.Spec.Grid
/-!
# Helper lemmas for C17 (ROBOT): model ↔ grid-world specification
-/
namespace Aplang.Robot

open Spec

/-! ## headings -/

theorem ofI8_turn (d : Dir) (rel : Rel) : Dir.ofI8 (d.toI8 + rel.toI8) = Spec.turn d rel := by
  cases d <;> cases rel <;> decide

theorem rotateLeft_dir (r : Robot) : (rotateLeft r).dir = Spec.turnLeft r.dir := by
  cases r with | mk a w h x y d p => cases d <;> rfl

theorem rotateRight_dir (r : Robot) : (rotateRight r).dir = Spec.turnRight r.dir := by
  cases r with | mk a w h x y d p => cases d <;> rfl

/-! ## machine integers -/

theorem asIsize_small {n : Nat} (h : n < 2^63) : asIsize n = (n : Int) := by
  simp [asIsize, h]

theorem asUsize_nonneg {i : Int} (h : 0 ≤ i) : asUsize i = i.toNat := by
  simp [asUsize]; omega

theorem asUsize_neg_big {i : Int} (h : i < 0) (hb : -(2^63 : Int) ≤ i) : 2^63 ≤ asUsize i := by
  simp only [asUsize, h, if_true]; omega

/-! ## rectangular grids -/

theorem WF.row_length {r : Robot} (h : WF r) {y : Nat} {row : List Cell} (hy : r.area[y]? = some row) :
    row.length = r.width := h.cols row (List.mem_of_getElem? hy)

theorem WF.row_exists {r : Robot} (h : WF r) {y : Nat} (hy : y < r.height) : ∃ row, r.area[y]? = some row := by
  have : y < r.area.length := by rw [h.rows]; exact hy
  exact ⟨r.area[y], List.getElem?_eq_getElem this⟩

theorem WF.cell_exists {r : Robot} (h : WF r) {p : Nat × Nat} (hp : Spec.inside r p) :
    ∃ c, Spec.cellAt r p = some c := by
  obtain ⟨row, hrow⟩ := h.row_exists hp.2
  have hl := h.row_length hrow
  have : p.1 < row.length := by rw [hl]; exact hp.1
  refine ⟨row[p.1], ?_⟩
  simp [Spec.cellAt, hp.1, hp.2, hrow, List.getElem?_eq_getElem this]

theorem cellAt_some_inside {r : Robot} {p : Nat × Nat} {c : Cell} (h : Spec.cellAt r p = some c) :
    Spec.inside r p := by
  unfold Spec.cellAt at h
  split at h
  · assumption
  · cases h

theorem cellAt_some_lookup {r : Robot} {p : Nat × Nat} {c : Cell} (h : Spec.cellAt r p = some c) :
    ∃ row, r.area[p.2]? = some row ∧ row[p.1]? = some c := by
  unfold Spec.cellAt at h
  split at h
  · cases hr : r.area[p.2]? with
    | none => simp [hr] at h
    | some row => exact ⟨row, rfl, by simpa [hr] using h⟩
  · cases h

/-- the adjacent cell, when it exists, is inside the grid -/
theorem ahead_inside {r : Robot} (h : WF r) {d : Dir} {p : Nat × Nat} (hp : Spec.ahead r d = some p) :
    Spec.inside r p := by
  have hx := h.x_in; have hy := h.y_in
  cases d <;> simp only [Spec.ahead] at hp <;> split at hp <;> cases hp <;> constructor <;> simp <;> omega

/-! ## `can_move` = spec -/

/-- the Rust lookup: tuple test, then two `get`s with `as usize` -/
def lookupM (r : Robot) (row col : Int) : Option Cell :=
  if tupleLtZero row col then none else
  match r.area[asUsize row]? with
  | none => none
  | some rw => rw[asUsize col]?

theorem canMove_lookup (r : Robot) (rel : Rel) :
    canMove r rel =
      (match lookupM r (checkPos r (Spec.turn r.dir rel)).1 (checkPos r (Spec.turn r.dir rel)).2 with
       | some c => c != .wall | none => false) := by
  unfold canMove lookupM
  rw [ofI8_turn]
  simp only
  generalize (checkPos r (turn r.dir rel)).fst = row
  generalize (checkPos r (turn r.dir rel)).snd = col
  by_cases ht : tupleLtZero row col = true
  · simp [ht]
  · simp only [ht, Bool.false_eq_true, if_false]
    cases r.area[asUsize row]? with
    | none => rfl
    | some rw => simp only; cases rw[asUsize col]? <;> rfl

/-- integer-coordinate view of `cellAt` -/
def cellAtI (r : Robot) (cx cy : Int) : Option Cell :=
  if 0 ≤ cx ∧ cx < r.width ∧ 0 ≤ cy ∧ cy < r.height then Spec.cellAt r (cx.toNat, cy.toNat) else none

theorem lookup_eq (r : Robot) (hr : WF r) (hm : Mach r) (row col : Int)
    (hrow : -(2^63 : Int) ≤ row) (hcol : -(2^63 : Int) ≤ col) :
    lookupM r row col = cellAtI r col row := by
  have hw := hm.width_lt; have hh := hm.height_lt
  unfold lookupM cellAtI Spec.cellAt tupleLtZero
  by_cases h1 : row < 0
  · simp [h1]; intro _ _ h; omega
  · by_cases h2 : col < 0
    · by_cases h3 : row = 0
      · simp [h3, h2]; intro h; omega
      · have hb := asUsize_neg_big h2 hcol
        have : ¬ (0 ≤ col ∧ col < r.width ∧ 0 ≤ row ∧ row < r.height) := by omega
        have t : (decide (row < 0) || (row == 0 && decide (col < 0))) = false := by simp [h1, h3]
        simp only [t, this, Bool.false_eq_true, if_false]
        cases hl : r.area[asUsize row]? with
        | none => rfl
        | some rw =>
          have hlen := hr.row_length hl
          simp only
          apply List.getElem?_eq_none
          omega
    · have e1 : asUsize row = row.toNat := asUsize_nonneg (by omega)
      have e2 : asUsize col = col.toNat := asUsize_nonneg (by omega)
      have t : (decide (row < 0) || (row == 0 && decide (col < 0))) = false := by simp [h1, h2]
      simp only [t, Bool.false_eq_true, if_false, e1, e2]
      by_cases hin : 0 ≤ col ∧ col < r.width ∧ 0 ≤ row ∧ row < r.height
      · have a : col.toNat < r.width := by omega
        have b : row.toNat < r.height := by omega
        simp only [hin, and_self, if_true, a, b]
        cases r.area[row.toNat]? <;> rfl
      · simp only [hin, if_false]
        cases hl : r.area[row.toNat]? with
        | none => rfl
        | some rw =>
          have hlen := hr.row_length hl
          have hrowlt : row.toNat < r.area.length := (List.getElem?_eq_some_iff.mp hl).1
          simp only
          apply List.getElem?_eq_none
          rw [hr.rows] at hrowlt
          omega

/-- the spec's adjacent cell, in integer coordinates -/
theorem cellAtI_checkPos (r : Robot) (hr : WF r) (hm : Mach r) (d : Dir) :
    cellAtI r (checkPos r d).2 (checkPos r d).1 =
      (match Spec.ahead r d with | none => none | some p => Spec.cellAt r p) := by
  have hw := hm.width_lt; have hh := hm.height_lt
  have hx := hr.x_in; have hy := hr.y_in
  have ex : asIsize r.x = r.x := asIsize_small (by omega)
  have ey : asIsize r.y = r.y := asIsize_small (by omega)
  cases d <;> simp only [checkPos, Spec.ahead, cellAtI, ex, ey]
  · by_cases h0 : 0 < r.y
    · have : (0:Int) ≤ (r.y:Int) - 1 := by omega
      have e : ((r.y:Int) - 1).toNat = r.y - 1 := by omega
      simp [h0, hx, e]; omega
    · simp [h0]; intros; omega
  · by_cases h0 : r.x + 1 < r.width
    · have e : ((r.x:Int) + 1).toNat = r.x + 1 := by omega
      have : (r.x:Int) + 1 < r.width := by omega
      have h1 : (0:Int) ≤ (r.x:Int) + 1 := by omega
      simp [h0, this, hy, e, h1]
    · have : ¬ (r.x:Int) + 1 < r.width := by omega
      simp [h0, this]
  · by_cases h0 : r.y + 1 < r.height
    · have e : ((r.y:Int) + 1).toNat = r.y + 1 := by omega
      have : (r.y:Int) + 1 < r.height := by omega
      have h1 : (0:Int) ≤ (r.y:Int) + 1 := by omega
      simp [h0, this, hx, e, h1]
    · have : ¬ (r.y:Int) + 1 < r.height := by omega
      simp [h0, this]
  · by_cases h0 : 0 < r.x
    · have : (0:Int) ≤ (r.x:Int) - 1 := by omega
      have e : ((r.x:Int) - 1).toNat = r.x - 1 := by omega
      simp [h0, hy, e]; omega
    · simp [h0]; intros; omega

theorem checkPos_range (r : Robot) (hr : WF r) (hm : Mach r) (d : Dir) :
    -(2^63 : Int) ≤ (checkPos r d).1 ∧ (checkPos r d).1 < 2^63 ∧
    -(2^63 : Int) ≤ (checkPos r d).2 ∧ (checkPos r d).2 < 2^63 := by
  have hw := hm.width_lt; have hh := hm.height_lt
  have hx := hr.x_in; have hy := hr.y_in
  have ex : asIsize r.x = r.x := asIsize_small (by omega)
  have ey : asIsize r.y = r.y := asIsize_small (by omega)
  cases d <;> simp only [checkPos, ex, ey] <;> omega

/-- **the model's `can_move` is the grid-world `canMove`** -/
theorem canMove_eq_spec (r : Robot) (hr : WF r) (hm : Mach r) (rel : Rel) :
    canMove r rel = Spec.canMove r rel := by
  rw [canMove_lookup]
  have hrg := checkPos_range r hr hm (Spec.turn r.dir rel)
  rw [lookup_eq r hr hm _ _ hrg.1 hrg.2.2.1, cellAtI_checkPos r hr hm]
  unfold Spec.canMove Spec.neighbour
  cases Spec.ahead r (Spec.turn r.dir rel) with
  | none => rfl
  | some p => simp only; cases Spec.cellAt r p <;> rfl

/-! ## `move_forward` = spec `step` -/

theorem advance_eq_ahead {r : Robot} (hr : WF r) (hm : Mach r) {p : Nat × Nat}
    (h : Spec.ahead r r.dir = some p) : advance r = some p := by
  have hw := hm.width_lt; have hh := hm.height_lt
  have hx := hr.x_in; have hy := hr.y_in
  unfold advance
  cases hd : r.dir <;> rw [hd] at h <;> simp only [Spec.ahead] at h <;> split at h <;> cases h
  · have : r.y ≠ 0 := by omega
    simp [usizeDec, this]
  · have : r.x + 1 < 2^64 := by omega
    simp [usizeInc, this]
  · have : r.y + 1 < 2^64 := by omega
    simp [usizeInc, this]
  · have : r.x ≠ 0 := by omega
    simp [usizeDec, this]

theorem any_isCheckpoint (l : List Cell) :
    l.any Cell.isCheckpoint = !(l.filterMap Spec.checkpointNumber).isEmpty := by
  induction l with
  | nil => rfl
  | cons c l ih => cases c <;> simp [List.filterMap_cons, Cell.isCheckpoint, Spec.checkpointNumber, ih]

theorem any_isCheckpointLe (l : List Cell) (p : Nat) :
    l.any (Cell.isCheckpointLe p) = (l.filterMap Spec.checkpointNumber).any (· ≤ p) := by
  induction l with
  | nil => rfl
  | cons c l ih => cases c <;> simp [List.filterMap_cons, Cell.isCheckpointLe, Spec.checkpointNumber, ih]

theorem no_checkpoint_iff (area : List (List Cell)) :
    area.flatten.any Cell.isCheckpoint = false ↔ Spec.remaining area = [] := by
  rw [any_isCheckpoint]; unfold Spec.remaining
  cases (List.filterMap Spec.checkpointNumber area.flatten) <;> simp

theorem setCell_eq {area : List (List Cell)} {p : Nat × Nat} {row : List Cell} (c : Cell)
    (h : area[p.2]? = some row) : Spec.setCell area p c = area.set p.2 (row.set p.1 c) := by
  simp [Spec.setCell, h]

/-- **refinement**: on well-formed machine states `move_forward` is the grid-world `step`
    (in particular it never takes a panic branch) -/
theorem moveForward_eq_step (r : Robot) (hr : WF r) (hm : Mach r) :
    moveForward r = (Spec.step r).toMoveRes := by
  unfold moveForward Spec.step
  rw [canMove_eq_spec r hr hm]
  unfold Spec.canMove
  cases hn : Spec.neighbour r .forward with
  | none => simp [Outcome.toMoveRes]
  | some p =>
    have hn' : Spec.ahead r r.dir = some p := hn
    have hin := ahead_inside hr hn'
    obtain ⟨c, hc⟩ := hr.cell_exists hin
    obtain ⟨row, hrow, hcell⟩ := cellAt_some_lookup hc
    have hadv := advance_eq_ahead hr hm hn'
    have hset := setCell_eq (area := r.area) (p := p) Cell.space hrow
    obtain ⟨px, py⟩ := p
    simp only at hrow hcell hset
    simp only [hc, hadv, hrow, hcell]
    cases c with
    | wall => simp [Outcome.toMoveRes]
    | space => simp [Outcome.toMoveRes]
    | goal =>
      by_cases hrem : Spec.remaining r.area = []
      · have := (no_checkpoint_iff r.area).mpr hrem
        simp [Outcome.toMoveRes, hrem, this, hset]
      · have : r.area.flatten.any Cell.isCheckpoint = true := by
          cases h : r.area.flatten.any Cell.isCheckpoint
          · exact absurd ((no_checkpoint_iff r.area).mp h) hrem
          · rfl
        simp [Outcome.toMoveRes, hrem, this]
    | checkpoint k =>
      by_cases hk : k ≤ r.power
      · have hp : u8Inc r.power = some (r.power + 1) := by
          have : r.power + 1 < 256 := by have := hm.power_le; omega
          simp [u8Inc, this]
        have hany : (r.area.set py (row.set px Cell.space)).flatten.any (Cell.isCheckpointLe r.power)
            = (Spec.remaining (r.area.set py (row.set px Cell.space))).any (· ≤ r.power) :=
          any_isCheckpointLe _ _
        simp only [ge_iff_le, hk, if_true, hany, hset, hp]
        cases (Spec.remaining (r.area.set py (row.set px Cell.space))).any (· ≤ r.power) <;>
          simp [Outcome.toMoveRes]
      · simp [Outcome.toMoveRes, hk]

/-! ## inversion of the spec step -/

/-- what a successful step looks like -/
structure StepFacts (r r' : Robot) (b : Bool) (p : Nat × Nat) (c : Cell) : Prop where
  nb : Spec.neighbour r .forward = some p
  cell : Spec.cellAt r p = some c
  not_wall : c ≠ .wall
  x_eq : r'.x = p.1
  y_eq : r'.y = p.2
  dir_eq : r'.dir = r.dir
  width_eq : r'.width = r.width
  height_eq : r'.height = r.height
  cases :
    (r'.area = r.area ∧ r'.power = r.power ∧ b = false ∧
        (c = .goal → Spec.remaining r.area ≠ []) ∧ (∀ k, c = .checkpoint k → r.power < k)) ∨
    (c = .goal ∧ Spec.remaining r.area = [] ∧ r'.area = Spec.setCell r.area p .space ∧
        r'.power = r.power ∧ b = true) ∨
    (∃ k, c = .checkpoint k ∧ k ≤ r.power ∧ r'.area = Spec.setCell r.area p .space ∧ b = false ∧
        ((r'.power = r.power ∧ ∃ k' ∈ Spec.remaining r'.area, k' ≤ r.power) ∨
         (r'.power = r.power + 1 ∧ ∀ k' ∈ Spec.remaining r'.area, r.power < k')))

theorem step_moved {r r' : Robot} {b : Bool} (h : Spec.step r = .moved r' b) :
    ∃ p c, StepFacts r r' b p c := by
  unfold Spec.step at h
  cases hn : Spec.neighbour r .forward with
  | none => simp [hn] at h
  | some p =>
    simp only [hn] at h
    cases hc : Spec.cellAt r p with
    | none => simp [hc] at h
    | some c =>
      simp only [hc] at h
      cases c with
      | wall => cases h
      | space =>
        cases h
        exact ⟨p, .space, hn, hc, by simp, rfl, rfl, rfl, rfl, rfl, Or.inl ⟨rfl, rfl, rfl, by simp, by simp⟩⟩
      | goal =>
        by_cases hrem : Spec.remaining r.area = []
        · simp only [hrem, if_true] at h
          cases h
          exact ⟨p, .goal, hn, hc, by simp, rfl, rfl, rfl, rfl, rfl, Or.inr (Or.inl ⟨rfl, hrem, rfl, rfl, rfl⟩)⟩
        · simp only [hrem, if_false] at h
          cases h
          exact ⟨p, .goal, hn, hc, by simp, rfl, rfl, rfl, rfl, rfl, Or.inl ⟨rfl, rfl, rfl, fun _ => hrem, by simp⟩⟩
      | checkpoint k =>
        by_cases hk : k ≤ r.power
        · simp only [hk, if_true] at h
          cases hany : (Spec.remaining (Spec.setCell r.area p .space)).any (· ≤ r.power) with
          | true =>
            simp only [hany, if_true] at h
            cases h
            refine ⟨p, .checkpoint k, hn, hc, by simp, rfl, rfl, rfl, rfl, rfl,
              Or.inr (Or.inr ⟨k, rfl, hk, rfl, rfl, Or.inl ⟨rfl, ?_⟩⟩)⟩
            simpa using hany
          | false =>
            simp only [hany, Bool.false_eq_true, if_false] at h
            cases h
            refine ⟨p, .checkpoint k, hn, hc, by simp, rfl, rfl, rfl, rfl, rfl,
              Or.inr (Or.inr ⟨k, rfl, hk, rfl, rfl, Or.inr ⟨rfl, ?_⟩⟩)⟩
            intro k' hk'
            have := List.any_eq_false.mp hany k' hk'
            simpa using this
        · simp only [hk, if_false] at h
          cases h
          refine ⟨p, .checkpoint k, hn, hc, by simp, rfl, rfl, rfl, rfl, rfl,
            Or.inl ⟨rfl, rfl, rfl, by simp, ?_⟩⟩
          intro k' hk'; cases hk'; omega

theorem step_blocked_iff (r : Robot) : Spec.step r = .blocked ↔ Spec.canMove r .forward = false := by
  unfold Spec.step Spec.canMove
  cases hn : Spec.neighbour r .forward with
  | none => simp
  | some p =>
    simp only
    cases hc : Spec.cellAt r p with
    | none => simp
    | some c =>
      cases c with
      | wall => simp
      | space => simp
      | goal => by_cases h : Spec.remaining r.area = [] <;> simp [h]
      | checkpoint k =>
        by_cases hk : k ≤ r.power
        · cases hany : (Spec.remaining (Spec.setCell r.area p .space)).any (· ≤ r.power) <;> simp [hk]
        · simp [hk]

/-! ## the grid after `setCell` -/

theorem setCell_length (area : List (List Cell)) (p : Nat × Nat) (c : Cell) :
    (Spec.setCell area p c).length = area.length := by
  unfold Spec.setCell; split <;> simp

theorem setCell_cols {area : List (List Cell)} {w : Nat} (h : ∀ row ∈ area, row.length = w)
    (p : Nat × Nat) (c : Cell) : ∀ row ∈ Spec.setCell area p c, row.length = w := by
  unfold Spec.setCell
  split
  · exact h
  · rename_i row hrow
    intro row' hmem
    rcases List.mem_or_eq_of_mem_set hmem with h1 | h1
    · exact h _ h1
    · subst h1; simp [h row (List.mem_of_getElem? hrow)]

theorem mem_remaining {area : List (List Cell)} {k : Nat} :
    k ∈ Spec.remaining area ↔ ∃ row ∈ area, Cell.checkpoint k ∈ row := by
  unfold Spec.remaining
  simp only [List.mem_filterMap, List.mem_flatten]
  constructor
  · rintro ⟨c, ⟨row, hrow, hc⟩, hk⟩
    cases c <;> simp [Spec.checkpointNumber] at hk
    subst hk; exact ⟨row, hrow, hc⟩
  · rintro ⟨row, hrow, hc⟩
    exact ⟨.checkpoint k, ⟨row, hrow, hc⟩, rfl⟩

/-- capturing removes one checkpoint and adds none -/
theorem remaining_setCell_subset {area : List (List Cell)} {p : Nat × Nat} {k : Nat}
    (h : k ∈ Spec.remaining (Spec.setCell area p .space)) : k ∈ Spec.remaining area := by
  rw [mem_remaining] at h ⊢
  obtain ⟨row', hmem, hk⟩ := h
  unfold Spec.setCell at hmem
  split at hmem
  · exact ⟨row', hmem, hk⟩
  · rename_i row hrow
    rcases List.mem_or_eq_of_mem_set hmem with h1 | h1
    · exact ⟨row', h1, hk⟩
    · subst h1
      rcases List.mem_or_eq_of_mem_set hk with h2 | h2
      · exact ⟨row, List.mem_of_getElem? hrow, h2⟩
      · cases h2

theorem cellAt_setCell_self {r r' : Robot} {p : Nat × Nat} {c c' : Cell}
    (hc : Spec.cellAt r p = some c) (hw : r'.width = r.width) (hh : r'.height = r.height)
    (ha : r'.area = Spec.setCell r.area p c') : Spec.cellAt r' p = some c' := by
  have hin := cellAt_some_inside hc
  obtain ⟨row, hrow, hcell⟩ := cellAt_some_lookup hc
  have h1 : p.2 < r.area.length := (List.getElem?_eq_some_iff.mp hrow).1
  have h2 : p.1 < row.length := (List.getElem?_eq_some_iff.mp hcell).1
  unfold Spec.cellAt
  rw [ha, hw, hh, setCell_eq c' hrow]
  simp [hin.1, hin.2, h1, h2]

theorem cellAt_congr {r r' : Robot} (ha : r'.area = r.area) (hw : r'.width = r.width)
    (hh : r'.height = r.height) (p : Nat × Nat) : Spec.cellAt r' p = Spec.cellAt r p := by
  unfold Spec.cellAt; rw [ha, hw, hh]

theorem cellAt_checkpoint_mem_remaining {r : Robot} {p : Nat × Nat} {k : Nat}
    (h : Spec.cellAt r p = some (.checkpoint k)) : k ∈ Spec.remaining r.area := by
  obtain ⟨row, hrow, hcell⟩ := cellAt_some_lookup h
  exact mem_remaining.mpr ⟨row, List.mem_of_getElem? hrow, List.mem_of_getElem? hcell⟩

theorem remaining_nil_of_setCell {area : List (List Cell)} {p : Nat × Nat}
    (h : Spec.remaining area = []) : Spec.remaining (Spec.setCell area p .space) = [] := by
  apply List.eq_nil_iff_forall_not_mem.mpr
  intro k hk
  have := remaining_setCell_subset hk
  rw [h] at this; cases this

/-! ## preservation of the invariants by one step -/

theorem step_wf {r r' : Robot} {b : Bool} (hr : WF r) (h : Spec.step r = .moved r' b) : WF r' := by
  obtain ⟨p, c, f⟩ := step_moved h
  have hin := cellAt_some_inside f.cell
  have harea : r'.area = r.area ∨ r'.area = Spec.setCell r.area p .space := by
    rcases f.cases with h1 | h1 | ⟨k, h1⟩
    · exact Or.inl h1.1
    · exact Or.inr h1.2.2.1
    · exact Or.inr h1.2.2.1
  refine ⟨?_, ?_, ?_, ?_, ?_⟩
  · rw [f.height_eq, ← hr.rows]
    rcases harea with ha | ha <;> rw [ha]
    exact setCell_length _ _ _
  · rw [f.width_eq]
    rcases harea with ha | ha <;> rw [ha]
    · exact hr.cols
    · exact setCell_cols hr.cols _ _
  · rw [f.x_eq, f.width_eq]; exact hin.1
  · rw [f.y_eq, f.height_eq]; exact hin.2
  · have hp : (r'.x, r'.y) = p := by rw [f.x_eq, f.y_eq]
    rw [hp]
    rcases harea with ha | ha
    · rw [cellAt_congr ha f.width_eq f.height_eq, f.cell]
      intro hc; cases hc; exact f.not_wall rfl
    · rw [cellAt_setCell_self f.cell f.width_eq f.height_eq ha]
      intro hc; cases hc

theorem step_mach {r r' : Robot} {b : Bool} (hm : Mach r) (h : Spec.step r = .moved r' b) : Mach r' := by
  obtain ⟨p, c, f⟩ := step_moved h
  have hsub : ∀ k ∈ Spec.remaining r'.area, k ∈ Spec.remaining r.area := by
    intro k hk
    rcases f.cases with h1 | h1 | ⟨k0, h1⟩
    · rw [h1.1] at hk; exact hk
    · rw [h1.2.2.1] at hk; exact remaining_setCell_subset hk
    · rw [h1.2.2.1] at hk; exact remaining_setCell_subset hk
  refine ⟨by rw [f.width_eq]; exact hm.width_lt, by rw [f.height_eq]; exact hm.height_lt,
    fun k hk => hm.cp_le k (hsub k hk), ?_⟩
  have hnil : Spec.remaining r.area = [] → Spec.remaining r'.area = [] := by
    intro h0
    apply List.eq_nil_iff_forall_not_mem.mpr
    intro k hk; have := hsub k hk; rw [h0] at this; cases this
  rcases f.cases with h1 | h1 | ⟨k0, hc, hk0, ha, hb, h1⟩
  · rw [h1.2.1]
    rcases hm.power_le with hp | hp
    · exact Or.inl hp
    · exact Or.inr ⟨hp.1, hnil hp.2⟩
  · rw [h1.2.2.2.1]
    rcases hm.power_le with hp | hp
    · exact Or.inl hp
    · exact Or.inr ⟨hp.1, hnil hp.2⟩
  · have hmem : k0 ∈ Spec.remaining r.area := cellAt_checkpoint_mem_remaining (hc ▸ f.cell)
    have hp9 : r.power ≤ 9 := by
      rcases hm.power_le with hp | hp
      · exact hp
      · rw [hp.2] at hmem; cases hmem
    rcases h1 with ⟨hp, _⟩ | ⟨hp, hall⟩
    · rw [hp]; exact Or.inl hp9
    · rw [hp]
      by_cases h8 : r.power ≤ 8
      · exact Or.inl (by omega)
      · refine Or.inr ⟨by omega, ?_⟩
        apply List.eq_nil_iff_forall_not_mem.mpr
        intro k hk
        have a := hall k hk
        have b := hm.cp_le k (hsub k hk)
        omega

theorem step_ordered {r r' : Robot} {b : Bool} (ho : Ordered r) (h : Spec.step r = .moved r' b) :
    Ordered r' := by
  obtain ⟨p, c, f⟩ := step_moved h
  intro k hk
  rcases f.cases with h1 | h1 | ⟨k0, hc, hk0, ha, hb, h1⟩
  · rw [h1.1] at hk; rw [h1.2.1]; exact ho k hk
  · rw [h1.2.2.1] at hk; rw [h1.2.2.2.1]; exact ho k (remaining_setCell_subset hk)
  · rcases h1 with ⟨hp, _⟩ | ⟨hp, hall⟩
    · rw [ha] at hk; rw [hp]; exact ho k (remaining_setCell_subset hk)
    · rw [hp]; have := hall k hk; omega

/-- in a stuck grid nothing ever changes but the robot's position -/
theorem step_stuck {r r' : Robot} {b : Bool} (hs : Stuck r) (h : Spec.step r = .moved r' b) :
    b = false ∧ r'.area = r.area ∧ r'.power = r.power := by
  obtain ⟨p, c, f⟩ := step_moved h
  rcases f.cases with h1 | h1 | ⟨k0, hc, hk0, ha, hb, h1⟩
  · exact ⟨h1.2.2.1, h1.1, h1.2.1⟩
  · exact absurd h1.2.1 hs.1
  · have hmem : k0 ∈ Spec.remaining r.area := cellAt_checkpoint_mem_remaining (hc ▸ f.cell)
    have := hs.2 k0 hmem
    omega



/-! ## parsing: characters -/

theorem digit_bound {ch : Char} (h : isAsciiDigit ch = true) : 48 ≤ ch.toNat ∧ ch.toNat ≤ 57 := by
  simp only [isAsciiDigit, Bool.and_eq_true, decide_eq_true_eq] at h
  obtain ⟨h1, h2⟩ := h
  rw [Char.le_def] at h1 h2
  have a : ('0' : Char).val.toNat ≤ ch.val.toNat := UInt32.le_iff_toNat_le.mp h1
  have b : ch.val.toNat ≤ ('9' : Char).val.toNat := UInt32.le_iff_toNat_le.mp h2
  exact ⟨a, b⟩

theorem classify_checkpoint {ch : Char} {k : Nat} (h : classify ch = .cell (.checkpoint k)) :
    1 ≤ k ∧ k ≤ 9 := by
  unfold classify at h
  repeat' split at h
  all_goals first | (cases h; done) | skip
  rename_i hd
  have := digit_bound hd
  simp only at h
  split at h
  · cases h
  · injection h with h; injection h with h; omega

def isRobotChar (c : Char) : Bool := match classify c with | .robot _ => true | _ => false

/-- number of robot markers in a text (`Spec.robotCountC`, through `classify`) -/
def robotCountC (s : Str) : Nat := (s.filter isRobotChar).length

theorem classify_robot {c : Char} {d : Dir} (h : classify c = .robot d) : c ∈ robotMarkers := by
  unfold classify at h
  simp only [robotMarkers, List.mem_cons, List.not_mem_nil, or_false]
  split at h; · cases h
  split at h; · cases h
  split at h; · cases h
  split at h; · rename_i hh; rcases hh with hh | hh <;> simp [hh]
  split at h; · rename_i hh; rcases hh with hh | hh <;> simp [hh]
  split at h; · rename_i hh; rcases hh with hh | hh <;> simp [hh]
  split at h; · rename_i hh; rcases hh with hh | hh <;> simp [hh]
  split at h
  · simp only at h; split at h <;> cases h
  · cases h
  
theorem isRobotChar_iff (c : Char) : isRobotChar c = true ↔ c ∈ robotMarkers := by
  constructor
  · intro h
    unfold isRobotChar at h
    cases hc : classify c with
    | robot d => exact classify_robot hc
    | _ => simp [hc] at h
  · intro h
    simp only [robotMarkers, List.mem_cons, List.not_mem_nil, or_false] at h
    rcases h with rfl | rfl | rfl | rfl | rfl | rfl | rfl | rfl <;> decide

theorem robotCountC_nil : robotCountC [] = 0 := rfl

theorem robotCountC_cons (c : Char) (s : Str) :
    robotCountC (c :: s) = (if isRobotChar c then 1 else 0) + robotCountC s := by
  unfold robotCountC
  by_cases h : isRobotChar c = true <;> simp [h] <;> omega

theorem robotCountC_append (a b : Str) : robotCountC (a ++ b) = robotCountC a + robotCountC b := by
  simp [robotCountC, List.filter_append]

/-! ## parsing: one row -/

def Found.count (st : Found) : Nat := if st.loc.isSome then 1 else 0

structure CellsFacts (y x0 : Nat) (row : Str) (st : Found) (cs : List Cell) (st' : Found) : Prop where
  len : cs.length = row.length
  cps : ∀ k, Cell.checkpoint k ∈ cs → 1 ≤ k ∧ k ≤ 9
  loc : st' = st ∨ (st.loc = none ∧ ∃ i d, i < row.length ∧ st' = ⟨some (x0 + i, y), some d⟩ ∧
          cs[i]? = some .space)
  count : robotCountC row + st.count = st'.count
  good : ∀ c ∈ row, classify c ≠ .other ∧ classify c ≠ .zero

theorem parseCells_facts (y : Nat) (row : Str) : ∀ (x0 : Nat) (st : Found) (cs : List Cell) (st' : Found),
    parseCells y x0 row st = some (cs, st') → CellsFacts y x0 row st cs st' := by
  induction row with
  | nil =>
    intro x0 st cs st' h
    simp only [parseCells, Option.some.injEq, Prod.mk.injEq] at h
    obtain ⟨rfl, rfl⟩ := h
    exact ⟨rfl, by simp, Or.inl rfl, by simp [robotCountC_nil], by simp⟩
  | cons ch rest ih =>
    intro x0 st cs st' h
    simp only [parseCells] at h
    cases hcl : classify ch with
    | zero => simp [hcl] at h
    | other => simp [hcl] at h
    | cell c =>
      simp only [hcl] at h
      cases hrec : parseCells y (x0 + 1) rest st with
      | none => simp [hrec] at h
      | some res =>
        obtain ⟨cs1, st1⟩ := res
        simp only [hrec, Option.some.injEq, Prod.mk.injEq] at h
        obtain ⟨rfl, rfl⟩ := h
        have f := ih _ _ _ _ hrec
        have hnr : isRobotChar ch = false := by simp [isRobotChar, hcl]
        refine ⟨by simp [f.len], ?_, ?_, ?_, ?_⟩
        · intro k hk
          rcases List.mem_cons.mp hk with h1 | h1
          · exact classify_checkpoint (h1 ▸ hcl)
          · exact f.cps k h1
        · rcases f.loc with h1 | ⟨h0, i, d, hi, h1, h2⟩
          · exact Or.inl h1
          · refine Or.inr ⟨h0, i + 1, d, by simp; omega, ?_, by simpa using h2⟩
            rw [h1]; congr 3; omega
        · rw [robotCountC_cons, hnr]; simpa using f.count
        · intro c hc
          rcases List.mem_cons.mp hc with h1 | h1
          · subst h1; simp [hcl]
          · exact f.good c h1
    | robot d =>
      simp only [hcl] at h
      cases hloc : st.loc with
      | some l => simp [hloc] at h
      | none =>
        simp only [hloc, Option.isSome_none, Bool.false_eq_true, if_false] at h
        cases hrec : parseCells y (x0 + 1) rest ⟨some (x0, y), some d⟩ with
        | none => simp [hrec] at h
        | some res =>
          obtain ⟨cs1, st1⟩ := res
          simp only [hrec, Option.some.injEq, Prod.mk.injEq] at h
          obtain ⟨rfl, rfl⟩ := h
          have f := ih _ _ _ _ hrec
          have hr : isRobotChar ch = true := by simp [isRobotChar, hcl]
          have hst : st1 = ⟨some (x0, y), some d⟩ := by
            rcases f.loc with h1 | ⟨h0, _⟩
            · exact h1
            · simp at h0
          refine ⟨by simp [f.len], ?_, ?_, ?_, ?_⟩
          · intro k hk
            rcases List.mem_cons.mp hk with h1 | h1
            · cases h1
            · exact f.cps k h1
          · exact Or.inr ⟨hloc, 0, d, by simp, by simpa using hst, by simp⟩
          · rw [robotCountC_cons, hr]
            have := f.count
            simp only [Found.count, hloc, hst] at this ⊢
            simp at this ⊢
            omega
          · intro c hc
            rcases List.mem_cons.mp hc with h1 | h1
            · subst h1; simp [hcl]
            · exact f.good c h1

/-! ## parsing: all rows -/

theorem robotCountC_replicate_space (n : Nat) : robotCountC (List.replicate n ' ') = 0 := by
  induction n with
  | zero => rfl
  | succ n ih => rw [List.replicate_succ, robotCountC_cons, ih]; decide

theorem robotCountC_padRow (w : Nat) (l : Str) : robotCountC (padRow w l) = robotCountC l := by
  unfold padRow; split
  · rw [robotCountC_append, robotCountC_replicate_space]; rfl
  · rfl

theorem mem_padRow {w : Nat} {l : Str} {c : Char} (h : c ∈ l) : c ∈ padRow w l := by
  unfold padRow; split
  · exact List.mem_append_left _ h
  · exact h

theorem padRow_length {w : Nat} {l : Str} (h : l.length ≤ w) : (padRow w l).length = w := by
  unfold padRow; split
  · simp; omega
  · omega

structure RowsFacts (w y0 : Nat) (ls : List Str) (st : Found) (area : List (List Cell)) (st' : Found) :
    Prop where
  len : area.length = ls.length
  cols : ∀ row ∈ area, ∃ l ∈ ls, row.length = (padRow w l).length
  cps : ∀ row ∈ area, ∀ k, Cell.checkpoint k ∈ row → 1 ≤ k ∧ k ≤ 9
  loc : st' = st ∨ (st.loc = none ∧ ∃ j x d row, st' = ⟨some (x, y0 + j), some d⟩ ∧
          area[j]? = some row ∧ row[x]? = some .space)
  count : robotCountC ls.flatten + st.count = st'.count
  good : ∀ l ∈ ls, ∀ c ∈ l, classify c ≠ .other ∧ classify c ≠ .zero

theorem parseRows_facts (w : Nat) (ls : List Str) : ∀ (y0 : Nat) (st : Found) (area : List (List Cell))
    (st' : Found), parseRows w y0 ls st = some (area, st') → RowsFacts w y0 ls st area st' := by
  induction ls with
  | nil =>
    intro y0 st area st' h
    simp only [parseRows, Option.some.injEq, Prod.mk.injEq] at h
    obtain ⟨rfl, rfl⟩ := h
    exact ⟨rfl, by simp, by simp, Or.inl rfl, by simp [robotCountC_nil], by simp⟩
  | cons line rest ih =>
    intro y0 st area st' h
    simp only [parseRows] at h
    cases hrow : parseCells y0 0 (padRow w line) st with
    | none => simp [hrow] at h
    | some res =>
      obtain ⟨row, st1⟩ := res
      simp only [hrow] at h
      cases hrec : parseRows w (y0 + 1) rest st1 with
      | none => simp [hrec] at h
      | some res2 =>
        obtain ⟨rows, st2⟩ := res2
        simp only [hrec, Option.some.injEq, Prod.mk.injEq] at h
        obtain ⟨rfl, rfl⟩ := h
        have f := parseCells_facts _ _ _ _ _ _ hrow
        have g := ih _ _ _ _ hrec
        refine ⟨by simp [g.len], ?_, ?_, ?_, ?_, ?_⟩
        · intro r hr
          rcases List.mem_cons.mp hr with h1 | h1
          · subst h1; exact ⟨line, by simp, f.len⟩
          · obtain ⟨l, hl, hlen⟩ := g.cols r h1
            exact ⟨l, List.mem_cons_of_mem _ hl, hlen⟩
        · intro r hr k hk
          rcases List.mem_cons.mp hr with h1 | h1
          · subst h1; exact f.cps k hk
          · exact g.cps r h1 k hk
        · rcases f.loc with h1 | ⟨h0, i, d, hi, h1, h2⟩
          · subst h1
            rcases g.loc with h3 | ⟨h0, j, x, d, r, h3, h4, h5⟩
            · exact Or.inl h3
            · refine Or.inr ⟨h0, j + 1, x, d, r, ?_, by simpa using h4, h5⟩
              rw [h3]; congr 3; omega
          · have h3 : st2 = st1 := by
              rcases g.loc with h3 | ⟨h4, _⟩
              · exact h3
              · rw [h1] at h4; simp at h4
            refine Or.inr ⟨h0, 0, 0 + i, d, row, ?_, by simp, by simpa using h2⟩
            rw [h3, h1]; rfl
        · rw [List.flatten_cons, robotCountC_append, ← g.count, ← f.count, robotCountC_padRow]; omega
        · intro l hl c hc
          rcases List.mem_cons.mp hl with h1 | h1
          · subst h1; exact f.good c (mem_padRow hc)
          · exact g.good l h1 c hc

/-! ## parsing: `str::lines` -/

theorem splitInclusive_flatten (s : Str) : (splitInclusive s).flatten = s := by
  induction s with
  | nil => rfl
  | cons c cs ih =>
    simp only [splitInclusive]
    split
    · simp [ih]
    · cases hsp : splitInclusive cs with
      | nil => rw [hsp] at ih; simp at ih; simp [← ih]
      | cons l ls => rw [hsp] at ih; simp only [List.flatten_cons] at ih ⊢; simp [← ih]

theorem splitInclusive_length_le (s : Str) : (splitInclusive s).length ≤ s.length := by
  induction s with
  | nil => simp [splitInclusive]
  | cons c cs ih =>
    simp only [splitInclusive]
    split
    · simp; omega
    · cases hsp : splitInclusive cs with
      | nil => simp
      | cons l ls => rw [hsp] at ih; simp at ih ⊢; omega

theorem stripLine_filter (p : Char → Bool) (hn : p '\n' = false) (hr : p '\r' = false) (l : Str) :
    (stripLine l).filter p = l.filter p := by
  induction l with
  | nil => rfl
  | cons c cs ih =>
    simp only [stripLine]
    split
    · rename_i h; obtain ⟨rfl, rfl⟩ := h; simp [hn]
    · split
      · rename_i h; obtain ⟨rfl, rfl⟩ := h; simp [hn, hr]
      · simp only [List.filter_cons, ih]

theorem stripLine_subset (l : Str) : ∀ c ∈ stripLine l, c ∈ l := by
  induction l with
  | nil => simp [stripLine]
  | cons c cs ih =>
    simp only [stripLine]
    split
    · simp
    · split
      · simp
      · intro a ha
        rcases List.mem_cons.mp ha with h | h
        · simp [h]
        · exact List.mem_cons_of_mem _ (ih a h)

theorem ulen_stripLine_le (l : Str) : ulen (stripLine l) ≤ ulen l := by
  induction l with
  | nil => simp [stripLine]
  | cons c cs ih =>
    simp only [stripLine]
    split
    · simp
    · split
      · simp
      · simp only [ulen_cons]; omega

theorem lines_filter (p : Char → Bool) (hn : p '\n' = false) (hr : p '\r' = false) (s : Str) :
    (lines s).flatten.filter p = s.filter p := by
  unfold lines
  rw [List.filter_flatten, List.map_map]
  have : (List.filter p ∘ stripLine) = List.filter p := by
    funext l; exact stripLine_filter p hn hr l
  rw [this, ← List.filter_flatten, splitInclusive_flatten]

theorem length_le_ulen (l : Str) : l.length ≤ ulen l := by
  induction l with
  | nil => simp
  | cons c cs ih => have := utf8Size_pos c; simp only [ulen_cons, List.length_cons]; omega

theorem ulen_mem_flatten_le {L : List Str} {l : Str} (h : l ∈ L) : ulen l ≤ ulen L.flatten := by
  induction L with
  | nil => cases h
  | cons a L ih =>
    rw [List.flatten_cons, ulen_append]
    rcases List.mem_cons.mp h with h1 | h1
    · subst h1; omega
    · have := ih h1; omega

theorem ulen_line_le {s l : Str} (h : l ∈ lines s) : ulen l ≤ ulen s := by
  unfold lines at h
  obtain ⟨chunk, hc, rfl⟩ := List.mem_map.mp h
  have a := ulen_stripLine_le chunk
  have b := ulen_mem_flatten_le hc
  rw [splitInclusive_flatten] at b
  omega

theorem ulen_le_maxWidth {ls : List Str} {l : Str} (h : l ∈ ls) : ulen l ≤ maxWidth ls := by
  induction ls with
  | nil => cases h
  | cons a ls ih =>
    simp only [maxWidth]
    rcases List.mem_cons.mp h with h1 | h1
    · subst h1; omega
    · have := ih h1; omega

theorem maxWidth_le {ls : List Str} {b : Nat} (h : ∀ l ∈ ls, ulen l ≤ b) : maxWidth ls ≤ b := by
  induction ls with
  | nil => simp [maxWidth]
  | cons a ls ih =>
    simp only [maxWidth]
    have h1 := h a (by simp)
    have h2 := ih (fun l hl => h l (List.mem_cons_of_mem _ hl))
    omega

theorem lines_length_le (s : Str) : (lines s).length ≤ ulen s := by
  unfold lines
  have := splitInclusive_length_le s
  have := length_le_ulen s
  simp; omega

/-! ## parsing: the whole map -/

theorem parse_inv {s : Str} {r : Robot} (h : parse s = some r) :
    ∃ st, parseRows (maxWidth (lines s)) 0 (lines s) ⟨none, none⟩ = some (r.area, st) ∧
      st.loc = some (r.x, r.y) ∧ st.dir = some r.dir ∧ r.width = maxWidth (lines s) ∧
      r.height = (lines s).length ∧ r.power = 1 := by
  unfold parse at h
  simp only at h
  cases hp : parseRows (maxWidth (lines s)) 0 (lines s) ⟨none, none⟩ with
  | none => simp [hp] at h
  | some res =>
    obtain ⟨area, st⟩ := res
    simp only [hp] at h
    cases hl : st.loc with
    | none => simp [hl] at h
    | some xy =>
      obtain ⟨x, y⟩ := xy
      simp only [hl] at h
      cases hd : st.dir with
      | none => simp [hd] at h
      | some d =>
        simp only [hd, Option.some.injEq] at h
        subst h
        exact ⟨st, rfl, hl, hd, rfl, rfl, rfl⟩

theorem parse_rows_facts {s : Str} {r : Robot} (h : parse s = some r) :
    ∃ d, RowsFacts r.width 0 (lines s) ⟨none, none⟩ r.area ⟨some (r.x, r.y), some d⟩ ∧
      r.width = maxWidth (lines s) ∧ r.height = (lines s).length ∧ r.power = 1 ∧ r.dir = d := by
  obtain ⟨st, hp, hl, hd, hw, hh, hpow⟩ := parse_inv h
  have f := parseRows_facts _ _ _ _ _ _ hp
  have hst : st = ⟨some (r.x, r.y), some r.dir⟩ := by
    cases st; simp only at hl hd; simp [hl, hd]
  rw [hst, ← hw] at f
  exact ⟨r.dir, f, hw, hh, hpow, rfl⟩

theorem parse_wf_lemma {s : Str} {r : Robot} (h : parse s = some r) :
    WF r ∧ Spec.cellAt r (r.x, r.y) = some .space := by
  obtain ⟨d, f, hw, hh, hpow, _⟩ := parse_rows_facts h
  have hcols : ∀ row ∈ r.area, row.length = r.width := by
    intro row hrow
    obtain ⟨l, hl, hlen⟩ := f.cols row hrow
    rw [hlen]
    apply padRow_length
    have a := length_le_ulen l
    have b := ulen_le_maxWidth hl
    omega
  have hrows : r.area.length = r.height := by rw [f.len, hh]
  rcases f.loc with h1 | ⟨_, j, x, d', row, h1, h2, h3⟩
  · simp at h1
  · simp only [Found.mk.injEq, Option.some.injEq, Prod.mk.injEq] at h1
    obtain ⟨⟨hx, hy⟩, _⟩ := h1
    have hj : j < r.area.length := (List.getElem?_eq_some_iff.mp h2).1
    have hxl : x < row.length := (List.getElem?_eq_some_iff.mp h3).1
    have hrl := hcols row (List.mem_of_getElem? h2)
    have hcell : Spec.cellAt r (r.x, r.y) = some .space := by
      unfold Spec.cellAt
      have e1 : r.x < r.width := by omega
      have e2 : r.y < r.height := by omega
      have e3 : r.area[r.y]? = some row := by rw [hy]; simpa using h2
      have e4 : row[r.x]? = some .space := by rw [hx]; exact h3
      simp [e1, e2, e3, e4]
    refine ⟨⟨hrows, hcols, by omega, by omega, ?_⟩, hcell⟩
    rw [hcell]; simp

theorem parse_cps {s : Str} {r : Robot} (h : parse s = some r) :
    ∀ k ∈ Spec.remaining r.area, 1 ≤ k ∧ k ≤ 9 := by
  obtain ⟨d, f, _⟩ := parse_rows_facts h
  intro k hk
  obtain ⟨row, hrow, hc⟩ := mem_remaining.mp hk
  exact f.cps row hrow k hc

theorem parse_mach_lemma {s : Str} {r : Robot} (hs : ulen s < 2^63) (h : parse s = some r) : Mach r := by
  obtain ⟨d, f, hw, hh, hpow, _⟩ := parse_rows_facts h
  refine ⟨?_, ?_, fun k hk => (parse_cps h k hk).2, Or.inl (by omega)⟩
  · have := maxWidth_le (ls := lines s) (b := ulen s) (fun l hl => ulen_line_le hl)
    omega
  · have := lines_length_le s
    omega

theorem parse_ordered_lemma {s : Str} {r : Robot} (h : parse s = some r) : Ordered r := by
  obtain ⟨d, f, hw, hh, hpow, _⟩ := parse_rows_facts h
  intro k hk
  have := (parse_cps h k hk).1
  omega

theorem isRobotChar_nl : isRobotChar '\n' = false := by decide
theorem isRobotChar_cr : isRobotChar '\r' = false := by decide

theorem parse_robotCountC {s : Str} {r : Robot} (h : parse s = some r) : robotCountC s = 1 := by
  obtain ⟨d, f, _⟩ := parse_rows_facts h
  have := f.count
  simp only [Found.count] at this
  unfold robotCountC at this ⊢
  rw [lines_filter _ isRobotChar_nl isRobotChar_cr] at this
  simpa using this

theorem parse_good {s : Str} {r : Robot} (h : parse s = some r) :
    ∀ c ∈ s, c ≠ '\n' → c ≠ '\r' → classify c ≠ .other ∧ classify c ≠ .zero := by
  obtain ⟨d, f, _⟩ := parse_rows_facts h
  intro c hc hn hr
  have h1 : c ∈ s.filter (· == c) := by simp [hc]
  rw [← lines_filter _ (by simpa using Ne.symm hn) (by simpa using Ne.symm hr)] at h1
  have h2 : c ∈ (lines s).flatten := (List.mem_filter.mp h1).1
  obtain ⟨l, hl, hcl⟩ := List.mem_flatten.mp h2
  exact f.good l hl c hcl


/-! ## rendering -/


theorem range_map_eq_mapIdx {α β : Type} (l : List α) (f : Nat → β) (g : Nat → α → β)
    (h : ∀ i a, l[i]? = some a → f i = g i a) : (List.range l.length).map f = l.mapIdx g := by
  apply List.ext_getElem?
  intro i
  rw [List.getElem?_map, List.getElem?_mapIdx]
  by_cases hi : i < l.length
  · have : l[i]? = some l[i] := List.getElem?_eq_getElem hi
    rw [List.getElem?_range hi, this]
    simp [h i l[i] this]
  · have : l[i]? = none := List.getElem?_eq_none (by omega)
    rw [this]
    simp [hi]

/-- under `WF` the formatter reads only existing cells and draws the world row by row -/
theorem fmtGrid_eq_render (g : Glyphs) (r : Robot) (h : WF r) : fmtGrid g r = Spec.render g r := by
  unfold fmtGrid Spec.render Spec.border
  have hrows : (List.range r.height).map (fmtRow g r) = r.area.mapIdx (Spec.drawRow g r) := by
    rw [← h.rows]
    apply range_map_eq_mapIdx
    intro y row hrow
    unfold fmtRow Spec.drawRow
    rw [← h.row_length hrow]
    congr 2
    congr 1
    apply range_map_eq_mapIdx
    intro x c hc
    simp [fmtCell, Spec.drawCell, hrow, hc]
  rw [hrows]
  simp [List.append_assoc]



/-! ## the map alphabet -/


theorem robotCountC_eq (s : Str) : robotCountC s = Spec.robotCount s := by
  unfold robotCountC Spec.robotCount
  congr 1
  apply List.filter_congr
  intro c _
  by_cases h : c ∈ robotMarkers
  · simp [h, (isRobotChar_iff c).mpr h]
  · have : isRobotChar c = false := by
      cases hc : isRobotChar c
      · rfl
      · exact absurd ((isRobotChar_iff c).mp hc) h
    simp [h, this]

theorem char_eq_of_toNat {c d : Char} (h : c.toNat = d.toNat) : c = d := by
  apply Char.ext
  exact UInt32.toNat_inj.mp h

theorem classify_bad_of_not_alphabet {c : Char} (h : c ∉ mapAlphabet) :
    classify c = .other ∨ classify c = .zero := by
  simp only [mapAlphabet, List.mem_cons, List.not_mem_nil, or_false, not_or] at h
  obtain ⟨h1, h2, h3, h4, h5, h6, h7, h8, h9, h10, h11, h12, h13, h14, h15, d1, d2, d3, d4, d5, d6, d7, d8, d9⟩ := h
  unfold classify
  simp only [h1, h2, h3, h4, h5, h6, h7, h8, h9, h10, h11, h12, h13, h14, h15, or_self, if_false]
  by_cases hd : isAsciiDigit c = true
  · have hb := digit_bound hd
    simp only [hd, if_true]
    by_cases h0 : c.toNat - 48 = 0
    · simp [h0]
    · exfalso
      have : c.toNat = 49 ∨ c.toNat = 50 ∨ c.toNat = 51 ∨ c.toNat = 52 ∨ c.toNat = 53 ∨ c.toNat = 54 ∨
          c.toNat = 55 ∨ c.toNat = 56 ∨ c.toNat = 57 := by omega
      rcases this with e | e | e | e | e | e | e | e | e
      · exact d1 (char_eq_of_toNat e)
      · exact d2 (char_eq_of_toNat e)
      · exact d3 (char_eq_of_toNat e)
      · exact d4 (char_eq_of_toNat e)
      · exact d5 (char_eq_of_toNat e)
      · exact d6 (char_eq_of_toNat e)
      · exact d7 (char_eq_of_toNat e)
      · exact d8 (char_eq_of_toNat e)
      · exact d9 (char_eq_of_toNat e)
  · simp [hd]



/-! ## captures as a permutation -/


/-! ## capturing removes exactly one checkpoint number -/

theorem filterMap_set_checkpoint {l : List Cell} {i k : Nat} (h : l[i]? = some (.checkpoint k)) :
    List.Perm (k :: (l.set i .space).filterMap Spec.checkpointNumber) (l.filterMap Spec.checkpointNumber) := by
  induction l generalizing i with
  | nil => simp at h
  | cons c t ih =>
    cases i with
    | zero =>
      simp only [List.getElem?_cons_zero, Option.some.injEq] at h
      subst h
      simp [List.filterMap_cons, Spec.checkpointNumber]
    | succ j =>
      simp only [List.getElem?_cons_succ] at h
      have := ih h
      simp only [List.set_cons_succ, List.filterMap_cons]
      cases hc : Spec.checkpointNumber c with
      | none => simpa using this
      | some m =>
        simp only
        exact (List.Perm.swap m k _).trans (List.Perm.cons m this)

theorem filterMap_set_plain {l : List Cell} {i : Nat} {c : Cell} (h : l[i]? = some c)
    (hc : Spec.checkpointNumber c = none) :
    (l.set i .space).filterMap Spec.checkpointNumber = l.filterMap Spec.checkpointNumber := by
  induction l generalizing i with
  | nil => simp at h
  | cons a t ih =>
    cases i with
    | zero =>
      simp only [List.getElem?_cons_zero, Option.some.injEq] at h
      subst h
      simp only [List.set_cons_zero, List.filterMap_cons, hc]
      rfl
    | succ j =>
      simp only [List.getElem?_cons_succ] at h
      simp only [List.set_cons_succ, List.filterMap_cons, ih h]

theorem remaining_cons (row : List Cell) (rest : List (List Cell)) :
    Spec.remaining (row :: rest) = row.filterMap Spec.checkpointNumber ++ Spec.remaining rest := by
  simp [Spec.remaining, List.filterMap_append]

theorem remaining_set_checkpoint {area : List (List Cell)} {row : List Cell} {x y k : Nat}
    (hrow : area[y]? = some row) (hc : row[x]? = some (.checkpoint k)) :
    List.Perm (k :: Spec.remaining (area.set y (row.set x .space))) (Spec.remaining area) := by
  induction area generalizing y with
  | nil => simp at hrow
  | cons r0 rest ih =>
    cases y with
    | zero =>
      simp only [List.getElem?_cons_zero, Option.some.injEq] at hrow
      subst hrow
      simp only [List.set_cons_zero, remaining_cons]
      have := filterMap_set_checkpoint hc
      exact (List.Perm.append_right (Spec.remaining rest) this)
    | succ j =>
      simp only [List.getElem?_cons_succ] at hrow
      simp only [List.set_cons_succ, remaining_cons]
      have := ih hrow
      exact (List.perm_middle.symm).trans (List.Perm.append_left _ this)

theorem remaining_set_plain {area : List (List Cell)} {row : List Cell} {x y : Nat} {c : Cell}
    (hrow : area[y]? = some row) (hcell : row[x]? = some c) (hc : Spec.checkpointNumber c = none) :
    Spec.remaining (area.set y (row.set x .space)) = Spec.remaining area := by
  induction area generalizing y with
  | nil => simp at hrow
  | cons r0 rest ih =>
    cases y with
    | zero =>
      simp only [List.getElem?_cons_zero, Option.some.injEq] at hrow
      subst hrow
      simp only [List.set_cons_zero, remaining_cons, filterMap_set_plain hcell hc]
    | succ j =>
      simp only [List.getElem?_cons_succ] at hrow
      simp only [List.set_cons_succ, remaining_cons, ih hrow]


/-- one move: what is captured plus what remains is what was there before -/
theorem step_captured_perm {r r' : Robot} {b : Bool} (h : Spec.step r = .moved r' b) :
    List.Perm (capturedBy r r' ++ Spec.remaining r'.area) (Spec.remaining r.area) ∧
    (capturedBy r r' = [] ∨
      ∃ k, capturedBy r r' = [k] ∧ Spec.cellAt r (r'.x, r'.y) = some (.checkpoint k) ∧ k ≤ r.power) := by
  obtain ⟨p, c, f⟩ := step_moved h
  have hp : (r'.x, r'.y) = p := by rw [f.x_eq, f.y_eq]
  obtain ⟨row, hrow, hcell⟩ := cellAt_some_lookup f.cell
  unfold capturedBy
  rw [hp, f.cell]
  rcases f.cases with h1 | h1 | ⟨k, hc, hk, ha, hb, h1⟩
  · rw [cellAt_congr h1.1 f.width_eq f.height_eq, f.cell, h1.1]
    cases c <;> simp
  · obtain ⟨hc, _, ha, _, _⟩ := h1
    subst hc
    rw [ha, setCell_eq _ hrow, remaining_set_plain hrow hcell rfl]
    simp
  · subst hc
    rw [cellAt_setCell_self f.cell f.width_eq f.height_eq ha, ha, setCell_eq _ hrow]
    exact ⟨remaining_set_checkpoint hrow hcell, Or.inr ⟨k, rfl, rfl, hk⟩⟩

end Aplang.Robot
