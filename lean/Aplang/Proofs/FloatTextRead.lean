import Aplang.Proofs.FloatTextRound
/-!
# `Float.ofScientific` is correctly rounded (piece 3 of `display_reads_back`)

`readBack_correct`: if the decimal `d · 10^s` lies in the rounding interval of the canonical double `m · 2^e`
(`Inside`), then `F64.readBack d s` — i.e. `Float.ofScientific` — IS that double. Proved from the definitions of the
toolchain (`Init/Data/OfScientific.lean`, `Float.Model`), for all four paths of `Float.ofScientific`: the fast paths
(`m < 2^53`, `e ≤ 22`: one float multiplication / division by an exactly representable power of ten) and the slow
paths through `UnpackedFloat.ofScientific` (exact product or quotient, one rounding).
-/
set_option linter.unusedSimpArgs false
set_option linter.unnecessarySeqFocus false
namespace Aplang.FloatText
open Float.Model Float.Model.UnpackedFloat Aplang.FloatIndex

/-! ## `Float.ofScientific`: the branches -/

theorem ofSci_slow (m : Nat) (s : Bool) (e : Nat) (h : ¬ (m < 2 ^ 53 ∧ e ≤ 22)) :
    Float.ofScientific m s e = Float.ofModel (Float.Model.pack
      (UnpackedFloat.ofScientific Format.binary64 m (if s then Int.negOfNat e else Int.ofNat e))) := by
  unfold Float.ofScientific
  simp only [h, dite_false]
  rfl

theorem float_mul_eq (a b : Float) :
    a * b = Float.ofModel (Float.Model.pack (UnpackedFloat.mul Format.binary64 a.toModel.unpack b.toModel.unpack)) := rfl
theorem float_div_eq (a b : Float) :
    a / b = Float.ofModel (Float.Model.pack (UnpackedFloat.div Format.binary64 a.toModel.unpack b.toModel.unpack)) := rfl

theorem p10_size : Float.exactlyRepresentablePowersOfTen.size = 23 := rfl

theorem ofSci_fast_mul (m e : Nat) (h : m < 2 ^ 53 ∧ e ≤ 22) :
    Float.ofScientific m false e =
      m.toUInt64.toFloat * Float.exactlyRepresentablePowersOfTen[e]'(by rw [p10_size]; omega) := by
  unfold Float.ofScientific
  simp only [h, and_self, dite_true]
  rfl

theorem ofSci_fast_div (m e : Nat) (h : m < 2 ^ 53 ∧ e ≤ 22) :
    Float.ofScientific m true e =
      m.toUInt64.toFloat / Float.exactlyRepresentablePowersOfTen[e]'(by rw [p10_size]; omega) := by
  unfold Float.ofScientific
  simp only [h, and_self, dite_true]
  rfl

/-- a natural number below `2^53` converts exactly -/
theorem toFloat_unpack_canon (n : Nat) (h0 : 0 < n) (hn : n < 2 ^ 53) :
    ∃ h, (n.toUInt64.toFloat).toModel.unpack =
      .finite .positive (n * 2 ^ (52 - n.log2)) (-((52 - n.log2 : Nat) : Int)) h := by
  have hu : n.toUInt64.toNat = n := by
    simp only [Nat.toUInt64, UInt64.toNat_ofNat']
    exact Nat.mod_eq_of_lt (Nat.lt_trans hn (by decide))
  have hL : n.log2 ≤ 52 := by
    have := (Nat.log2_lt (by omega)).mpr hn; omega
  show ∃ h, rt (UnpackedFloat.ofUInt64 Format.binary64 n.toUInt64) = _
  simp only [UnpackedFloat.ofUInt64, UnpackedFloat.ofNat, UnpackedFloat.ofInt, hu]
  unfold normalize
  have hc : compare (n : Int) 0 = .gt := by rw [Int.compare_eq_gt]; omega
  simp only [hc, Int.toNat_natCast]
  obtain ⟨h, hr⟩ := round_small n 0 h0 hL (by omega)
  obtain ⟨b1, b2⟩ := pow_bounds_small n h0 hL
  rw [hr, rt, unpack_pack_normal _ _ _ h b1 b2 (by omega) (by omega)]
  have : (0 : Int) - ((52 - n.log2 : Nat) : Int) = -((52 - n.log2 : Nat) : Int) := by omega
  rw [this]
  exact ⟨h, rfl⟩

theorem unpack_p10_zero :
    (Float.exactlyRepresentablePowersOfTen[0]'(by decide)).toModel.unpack = one := by rfl

theorem uofSci_nonneg (N k : Nat) (hN : N ≠ 0) (hk : k ≤ 2048) (h1 : 0 < N <<< 53) (h2 : 0 < 10 ^ k) :
    UnpackedFloat.ofScientific Format.binary64 N (k : Int) =
      UnpackedFloat.mul Format.binary64 (.finite .positive (N <<< 53) (-53) h1) (.finite .positive (10 ^ k) 0 h2) := by
  unfold UnpackedFloat.ofScientific
  have c1 : ¬ ((k : Int) > 2 ^ Format.binary64.exponentBits) := by
    have : (2 : Int) ^ Format.binary64.exponentBits = 2048 := by decide
    omega
  have c2 : ¬ ((k : Int) < -((2 ^ Format.binary64.exponentBits : Int) + N.log2)) := by
    have : (2 : Int) ^ Format.binary64.exponentBits = 2048 := by decide
    omega
  have c3 : (0 : Int) ≤ (k : Int) := by omega
  simp only [hN, dite_false, c1, c2, c3, if_false, if_true]
  rfl

theorem uofSci_neg (N k : Nat) (hN : N ≠ 0) (hk0 : 0 < k) (hk : k ≤ 2048) (h1 : 0 < N) (h2 : 0 < 10 ^ k) :
    UnpackedFloat.ofScientific Format.binary64 N (Int.negOfNat k) =
      UnpackedFloat.div Format.binary64 (.finite .positive N 0 h1) (.finite .positive (10 ^ k) 0 h2) := by
  have hneg : Int.negOfNat k = -(k : Int) := by cases k <;> rfl
  rw [hneg]
  unfold UnpackedFloat.ofScientific
  have c1 : ¬ (-(k : Int) > 2 ^ Format.binary64.exponentBits) := by
    have : (2 : Int) ^ Format.binary64.exponentBits = 2048 := by decide
    omega
  have c2 : ¬ (-(k : Int) < -((2 ^ Format.binary64.exponentBits : Int) + N.log2)) := by
    have : (2 : Int) ^ Format.binary64.exponentBits = 2048 := by decide
    omega
  have c3 : ¬ ((0 : Int) ≤ -(k : Int)) := by omega
  have c4 : (- -(k : Int)).toNat = k := by omega
  simp only [hN, dite_false, c1, c2, c3, if_false, c4]

/-! ## naturals: `Float.ofScientific N false 0` -/

theorem ofNat_round (m : Nat) (e : Int) (hc : Canon m e) (N : Nat) (hN : 0 < N)
    (hlo : Le2 (l4 m (asymOf m e)) (e - 2) N 0) (hhi : Le2 N 0 (h4 m) (e - 2))
    (hodd : m % 2 = 1 → Lt2 (l4 m (asymOf m e)) (e - 2) N 0 ∧ Lt2 N 0 (h4 m) (e - 2)) :
    ∃ h, Float.ofScientific N false 0 = Float.ofModel (Float.Model.pack (.finite .positive m e h)) := by
  by_cases hf : N < 2 ^ 53 ∧ 0 ≤ 22
  · -- fast path: `N` as a float, times `1.0`
    rw [ofSci_fast_mul N 0 hf, float_mul_eq, unpack_p10_zero]
    obtain ⟨h1, hu⟩ := toFloat_unpack_canon N hN hf.1
    rw [hu]
    obtain ⟨b1, b2⟩ := pow_bounds_small N hN (by have := (Nat.log2_lt (by omega)).mpr hf.1; omega)
    unfold one
    have hz : -((52 - N.log2 : Nat) : Int) + -52 + ((52 : Nat) : Int) + ((52 - N.log2 : Nat) : Int) = 0 := by omega
    obtain ⟨h, hm⟩ := mul_round m e hc (N * 2 ^ (52 - N.log2)) (-((52 - N.log2 : Nat) : Int)) (2 ^ 52) (-52) h1 (by decide)
      (Or.inl ((Nat.le_log2 (Nat.ne_of_gt (Nat.mul_pos h1 (by decide)))).mpr
        (Nat.le_trans (by decide : 2 ^ 52 ≤ 2 ^ 52 * 2 ^ 52) (Nat.mul_le_mul_right _ b1))))
      (by rw [le2_pow_right, le2_pow_right, hz]; exact hlo)
      (by rw [le2_pow_left, le2_pow_left, hz]; exact hhi)
      (by rw [lt2_pow_right, lt2_pow_right, lt2_pow_left, lt2_pow_left, hz]; exact hodd)
    exact ⟨h, by rw [hm]⟩
  · -- slow path: through `UnpackedFloat.ofScientific`
    have hbig : 2 ^ 53 ≤ N := by omega
    rw [ofSci_slow N false 0 hf]
    have hN0 : N ≠ 0 := by omega
    have hm1 : 0 < N <<< 53 := by rw [Nat.shiftLeft_eq]; exact Nat.mul_pos hN (by decide)
    have hu : UnpackedFloat.ofScientific Format.binary64 N (if false = true then Int.negOfNat 0 else Int.ofNat 0) =
        UnpackedFloat.mul Format.binary64 (.finite .positive (N <<< 53) (-53) hm1)
          (.finite .positive (10 ^ 0) 0 (by decide)) :=
      uofSci_nonneg N 0 hN0 (by decide) hm1 (by decide)
    rw [hu]
    have e1 : N <<< 53 * 10 ^ 0 = N * 2 ^ 53 := by rw [Nat.shiftLeft_eq]; simp
    obtain ⟨h, hm⟩ := mul_round m e hc (N <<< 53) (-53) (10 ^ 0) 0 hm1 (by decide)
      (Or.inl (by
        rw [e1]
        exact (Nat.le_log2 (Nat.ne_of_gt (Nat.mul_pos hN (by decide)))).mpr
          (Nat.le_trans (by decide : 2 ^ 52 ≤ 1 * 2 ^ 53) (Nat.mul_le_mul_right _ hN))))
      (by rw [e1, le2_pow_right]; exact hlo)
      (by rw [e1, le2_pow_left]; exact hhi)
      (by rw [e1, lt2_pow_right, lt2_pow_left]; exact hodd)
    exact ⟨h, by rw [hm]⟩

/-! ## replacing a coefficient `c = c' · 2^g` -/

theorem le2_scale_left (a b c c' : Nat) (p q g : Int) (hg : c * 2 ^ (-g).toNat = c' * 2 ^ g.toNat) :
    Le2 (a * c) p b q ↔ Le2 (a * c') p b (q - g) := by
  have e1 : a * c * 2 ^ (-g).toNat = a * c' * 2 ^ g.toNat := by rw [Nat.mul_assoc, hg, Nat.mul_assoc]
  have e2 : q + ((-g).toNat : Int) = q - g + (g.toNat : Int) := by omega
  rw [← le2_mul_iff (a * c) b (2 ^ (-g).toNat) p q (Nat.two_pow_pos _), e1, le2_pow_left, le2_pow_right, e2, le2_shift]

theorem le2_scale_right (a b c c' : Nat) (p q g : Int) (hg : c * 2 ^ (-g).toNat = c' * 2 ^ g.toNat) :
    Le2 b q (a * c) p ↔ Le2 b (q - g) (a * c') p := by
  have e1 : a * c * 2 ^ (-g).toNat = a * c' * 2 ^ g.toNat := by rw [Nat.mul_assoc, hg, Nat.mul_assoc]
  have e2 : q + ((-g).toNat : Int) = q - g + (g.toNat : Int) := by omega
  rw [← le2_mul_iff b (a * c) (2 ^ (-g).toNat) q p (Nat.two_pow_pos _), e1, le2_pow_left, le2_pow_right, e2, le2_shift]

theorem lt2_scale_left (a b c c' : Nat) (p q g : Int) (hg : c * 2 ^ (-g).toNat = c' * 2 ^ g.toNat) :
    Lt2 (a * c) p b q ↔ Lt2 (a * c') p b (q - g) := by
  have e1 : a * c * 2 ^ (-g).toNat = a * c' * 2 ^ g.toNat := by rw [Nat.mul_assoc, hg, Nat.mul_assoc]
  have e2 : q + ((-g).toNat : Int) = q - g + (g.toNat : Int) := by omega
  rw [← lt2_mul_iff (a * c) b (2 ^ (-g).toNat) p q (Nat.two_pow_pos _), e1, lt2_pow_left, lt2_pow_right, e2, lt2_shift]

theorem lt2_scale_right (a b c c' : Nat) (p q g : Int) (hg : c * 2 ^ (-g).toNat = c' * 2 ^ g.toNat) :
    Lt2 b q (a * c) p ↔ Lt2 b (q - g) (a * c') p := by
  have e1 : a * c * 2 ^ (-g).toNat = a * c' * 2 ^ g.toNat := by rw [Nat.mul_assoc, hg, Nat.mul_assoc]
  have e2 : q + ((-g).toNat : Int) = q - g + (g.toNat : Int) := by omega
  rw [← lt2_mul_iff b (a * c) (2 ^ (-g).toNat) q p (Nat.two_pow_pos _), e1, lt2_pow_left, lt2_pow_right, e2, lt2_shift]

/-! ## the exactly representable powers of ten -/

/-- the table entry `k` is `10^k` in canonical form -/
def p10ok (k : Fin 23) : Bool :=
  match (Float.exactlyRepresentablePowersOfTen[k.val]'(by rw [p10_size]; exact k.isLt)).toModel.unpack with
  | .finite .positive m e _ => decide (10 ^ k.val * 2 ^ (-e).toNat = m * 2 ^ e.toNat)
  | _ => false

theorem p10ok_all : ∀ k : Fin 23, p10ok k = true := by decide

theorem unpack_p10 (k : Nat) (hk : k ≤ 22) :
    ∃ m2 e2 h, (Float.exactlyRepresentablePowersOfTen[k]'(by rw [p10_size]; omega)).toModel.unpack =
      .finite .positive m2 e2 h ∧ 10 ^ k * 2 ^ (-e2).toNat = m2 * 2 ^ e2.toNat := by
  have h := p10ok_all ⟨k, by omega⟩
  unfold p10ok at h
  simp only [] at h
  split at h
  · rename_i m e hm heq
    exact ⟨m, e, hm, heq, of_decide_eq_true h⟩
  · cases h

/-! ## fractions: `Float.ofScientific d true k` -/

theorem ofSci_div_round (m : Nat) (e : Int) (hc : Canon m e) (d k : Nat) (hd : 0 < d) (hk0 : 0 < k) (hk : k ≤ 2048)
    (hlo : Le2 (l4 m (asymOf m e) * 10 ^ k) (e - 2) d 0) (hhi : Le2 d 0 (h4 m * 10 ^ k) (e - 2))
    (hodd : m % 2 = 1 → Lt2 (l4 m (asymOf m e) * 10 ^ k) (e - 2) d 0 ∧ Lt2 d 0 (h4 m * 10 ^ k) (e - 2)) :
    ∃ h, Float.ofScientific d true k = Float.ofModel (Float.Model.pack (.finite .positive m e h)) := by
  by_cases hf : d < 2 ^ 53 ∧ k ≤ 22
  · -- fast path: `d` as a float, divided by the float `10^k`
    rw [ofSci_fast_div d k hf, float_div_eq]
    obtain ⟨h1, hu⟩ := toFloat_unpack_canon d hd hf.1
    obtain ⟨m2, e2, h2, hp, hg⟩ := unpack_p10 k hf.2
    rw [hu, hp]
    have hz : -((52 - d.log2 : Nat) : Int) - e2 + ((52 - d.log2 : Nat) : Int) = 0 - e2 := by omega
    obtain ⟨h, hm⟩ := div_round m e hc (d * 2 ^ (52 - d.log2)) (-((52 - d.log2 : Nat) : Int)) m2 e2 h1 h2
      (by rw [le2_pow_right, hz, ← le2_scale_left _ _ _ _ _ _ _ hg]; exact hlo)
      (by rw [le2_pow_left, hz, ← le2_scale_right _ _ _ _ _ _ _ hg]; exact hhi)
      (by rw [lt2_pow_right, lt2_pow_left, hz, ← lt2_scale_left _ _ _ _ _ _ _ hg, ← lt2_scale_right _ _ _ _ _ _ _ hg]
          exact hodd)
    exact ⟨h, by rw [hm]⟩
  · -- slow path: exact quotient, one rounding
    rw [ofSci_slow d true k hf]
    have h2 : 0 < 10 ^ k := Nat.pow_pos (by decide)
    have hu : UnpackedFloat.ofScientific Format.binary64 d (if true = true then Int.negOfNat k else Int.ofNat k) =
        UnpackedFloat.div Format.binary64 (.finite .positive d 0 hd) (.finite .positive (10 ^ k) 0 h2) :=
      uofSci_neg d k (by omega) hk0 hk hd h2
    rw [hu]
    have hz : (0 : Int) - 0 = 0 := by decide
    obtain ⟨h, hm⟩ := div_round m e hc d 0 (10 ^ k) 0 hd h2 (by rw [hz]; exact hlo) (by rw [hz]; exact hhi)
      (by rw [hz]; exact hodd)
    exact ⟨h, by rw [hm]⟩

/-! ## `readBack` -/

/-- **`Float.ofScientific` is correctly rounded**: a decimal inside the rounding interval of a double reads back as
that double -/
theorem readBack_correct (m : Nat) (e : Int) (hc : Canon m e) (d : Nat) (s : Int) (hd : 0 < d) (hs : -2048 ≤ s)
    (hin : Inside m e (asymOf m e) d s) :
    ∃ h, F64.readBack d s = Float.ofModel (Float.Model.pack (.finite .positive m e h)) := by
  unfold F64.readBack
  obtain ⟨⟨hlo, hhi⟩, hodd⟩ := hin
  by_cases h0 : s ≥ 0
  · have e1 : (-s).toNat = 0 := by omega
    simp only [h0, if_true, F64.pow10]
    simp only [e1, Nat.pow_zero, Nat.mul_one] at hlo hhi hodd
    exact ofNat_round m e hc _ (Nat.mul_pos hd (Nat.pow_pos (by decide))) hlo hhi hodd
  · have e1 : s.toNat = 0 := by omega
    have e2 : (-s).toNat = s.natAbs := by omega
    simp only [h0, if_false]
    simp only [e1, e2, Nat.pow_zero, Nat.mul_one] at hlo hhi hodd
    exact ofSci_div_round m e hc d s.natAbs hd (by omega) (by omega) hlo hhi hodd

end Aplang.FloatText
