import Aplang.Proofs.ParserComplete
/-!
# Completeness of the expression parser for minimally parenthesised renderings (lemmas for C05)

`renderMin ctx e` writes parentheses around a sub-expression only where the ladder of the *model* requires
them (operand binds looser than its position allows). The ladder is the model's: binary operators and OR
nest to the left, assignment, unary operators and AND nest to the right.

Proof plan (after `/verif/notes/proto_parser_ladder`): for every expression `e`
* `AllQ e`: at every rung `b` of the ladder, `renderMin b e` parses to `treeMin b e`;
* `SBin e lvl` / `SOr e`: parsing `e` as the first operand of a left-associative loop and continuing is the
  same as continuing the loop from `treeMin e` (this is what makes left-nested chains work).
-/
namespace Aplang
namespace P

/-! ## rungs of the ladder -/

inductive Rung | assign | or | and | eq | cmp | add | mul | unary | access | primary
deriving DecidableEq, Repr

def Rung.n : Rung → Nat
  | .assign => 1 | .or => 2 | .and => 3 | .eq => 4 | .cmp => 5 | .add => 6 | .mul => 7
  | .unary => 8 | .access => 9 | .primary => 10

def Rung.run : Rung → Nat → PState → PRes Expr
  | .assign, f, s => assignment f s
  | .or, f, s => orE f s
  | .and, f, s => andE f s
  | .eq, f, s => binLevel f .equality s
  | .cmp, f, s => binLevel f .comparison s
  | .add, f, s => binLevel f .addition s
  | .mul, f, s => binLevel f .multiplication s
  | .unary, f, s => P.unary f s
  | .access, f, s => P.access f s
  | .primary, f, s => P.primary f s

def Rung.down : Rung → Rung
  | .primary => .access | .access => .unary | .unary => .mul | .mul => .add | .add => .cmp
  | .cmp => .eq | .eq => .and | .and => .or | .or => .assign | .assign => .assign

def Rung.ofLvl : BinLevel → Rung
  | .equality => .eq | .comparison => .cmp | .addition => .add | .multiplication => .mul

/-- the rung of the operands of a binary level -/
def Rung.opnd : BinLevel → Rung
  | .equality => .cmp | .comparison => .add | .addition => .mul | .multiplication => .unary

theorem Rung.ofLvl_n (lvl : BinLevel) : (Rung.ofLvl lvl).n = lvl.n := by cases lvl <;> rfl
theorem Rung.opnd_n (lvl : BinLevel) : (Rung.opnd lvl).n = lvl.n + 1 := by cases lvl <;> rfl
theorem Rung.ofLvl_run (lvl : BinLevel) (f s) : (Rung.ofLvl lvl).run f s = binLevel f lvl s := by
  cases lvl <;> rfl
theorem Rung.opnd_run (lvl : BinLevel) (f s) :
    (Rung.opnd lvl).run f s = (match lvl.next with | some n => binLevel f n s | none => P.unary f s) := by
  cases lvl <;> rfl
theorem Rung.n_inj {a b : Rung} (h : a.n = b.n) : a = b := by
  cases a <;> cases b <;> simp [Rung.n] at h <;> rfl
theorem Rung.down_n {k : Rung} (h : k ≠ .assign) : k.down.n + 1 = k.n := by
  cases k <;> simp [Rung.down, Rung.n] at h ⊢
theorem Rung.n_pos (k : Rung) : 1 ≤ k.n := by cases k <;> simp [Rung.n]
theorem Rung.n_le (k : Rung) : k.n ≤ 10 := by cases k <;> simp [Rung.n]

/-- with some fuel, rung `k` parses from `s` to `s'` and returns `t` -/
def Parses (k : Rung) (s : PState) (t : Expr) (s' : PState) : Prop := ∃ f, k.run f s = .ok t s'

/-- the first token is not a unary operator -/
def HeadOK (s : PState) : Prop := ∃ t r0, s.after = t :: r0 ∧ t.tt ∉ [TT.not_, TT.minus]

theorem step_down {k : Rung} {s s' : PState} {t : Expr} {nxt : Token} {r : List Token}
    (hk : k ≠ .assign) (h : Parses k s t s') (hn : s'.after = nxt :: r)
    (hT : trigLevel nxt.tt ≠ k.down.n) (hh : k = .access → HeadOK s) : Parses k.down s t s' := by
  cases k with
  | assign => exact absurd rfl hk
  | or => exact up_assign h hn hT
  | and => exact up_or h hn hT
  | eq => exact up_and h hn hT
  | cmp => exact up_bin .equality .comparison rfl h hn hT
  | add => exact up_bin .comparison .addition rfl h hn hT
  | mul => exact up_bin .addition .multiplication rfl h hn hT
  | unary => exact up_mul h hn hT
  | access =>
    obtain ⟨t0, r0, hs, ht⟩ := hh rfl
    exact up_unary h hs ht
  | primary => exact up_access h hn hT

/-- from rung `k` down to a looser rung `b`, when the next token continues none of the loops in between -/
theorem down_to {s s' : PState} {t : Expr} {nxt : Token} {r : List Token} (hn : s'.after = nxt :: r) :
    ∀ (d : Nat) (k b : Rung), k.n = b.n + d → Parses k s t s' → trigLevel nxt.tt < b.n →
      (b.n ≤ 8 → 8 < k.n → HeadOK s) → Parses b s t s'
  | 0, k, b, hkb, h, _, _ => by
    have : k = b := Rung.n_inj (by omega)
    subst this; exact h
  | d+1, k, b, hkb, h, hT, hh => by
    have hk : k ≠ .assign := by
      intro e; subst e; have := Rung.n_pos b; have h1 : Rung.assign.n = 1 := rfl; omega
    have hdn := Rung.down_n hk
    have h' : Parses k.down s t s' := step_down hk h hn (by omega) (by
      intro e; subst e
      have h9 : Rung.access.n = 9 := rfl
      exact hh (by omega) (by omega))
    exact down_to hn d k.down b (by omega) h' hT (fun h1 h2 => hh h1 (by omega))

/-! ## minimal rendering -/

def SExpr.level : SExpr → Nat
  | .lit .. => 10
  | .var .. => 10
  | .binary _ op _ _ => opLevel op
  | .logical _ op _ _ => logLevel op
  | .unary .. => 8
  | .assign .. => 1

/-- the level the left operand of a logical operator must have: OR nests to the left, AND to the right -/
def lctx : LogOp → Nat
  | .or => 2 | .and => 4

section defs
variable (lp rp : Token)

/-- tokens of `e` without outer parentheses -/
def rawMin : SExpr → List Token
  | .lit _ tok => [tok]
  | .var tok => [tok]
  | .binary l op tok r =>
    wrapToks lp rp (decide (opLevel op ≤ l.level)) (rawMin l) ++
      tok :: wrapToks lp rp (decide (opLevel op + 1 ≤ r.level)) (rawMin r)
  | .logical l op tok r =>
    wrapToks lp rp (decide (lctx op ≤ l.level)) (rawMin l) ++
      tok :: wrapToks lp rp (decide (3 ≤ r.level)) (rawMin r)
  | .unary _ tok r => tok :: wrapToks lp rp (decide (8 ≤ r.level)) (rawMin r)
  | .assign name arrow v => name :: arrow :: wrapToks lp rp (decide (1 ≤ v.level)) (rawMin v)

/-- the tree of `e` with a `.grouping` node where `rawMin` wrote parentheses -/
def rawTree : SExpr → Expr
  | .lit v tok => .lit v tok
  | .var tok => .var tok.lexeme tok
  | .binary l op tok r =>
    .binary (wrapTree lp rp (decide (opLevel op ≤ l.level)) (rawTree l)) op
      (wrapTree lp rp (decide (opLevel op + 1 ≤ r.level)) (rawTree r)) tok
  | .logical l op tok r =>
    .logical (wrapTree lp rp (decide (lctx op ≤ l.level)) (rawTree l)) op
      (wrapTree lp rp (decide (3 ≤ r.level)) (rawTree r)) tok
  | .unary op tok r => .unary op (wrapTree lp rp (decide (8 ≤ r.level)) (rawTree r)) tok
  | .assign name arrow v => .assign name.lexeme name (wrapTree lp rp (decide (1 ≤ v.level)) (rawTree v)) arrow

/-- `e` at a position that allows trees of level `ctx` and tighter: parenthesised iff it binds looser -/
def renderMin (ctx : Nat) (e : SExpr) : List Token := wrapToks lp rp (decide (ctx ≤ e.level)) (rawMin lp rp e)
def treeMin (ctx : Nat) (e : SExpr) : Expr := wrapTree lp rp (decide (ctx ≤ e.level)) (rawTree lp rp e)

theorem renderMin_congr {a b : Nat} {e : SExpr} (h : a ≤ e.level ↔ b ≤ e.level) :
    renderMin lp rp a e = renderMin lp rp b e ∧ treeMin lp rp a e = treeMin lp rp b e := by
  have : decide (a ≤ e.level) = decide (b ≤ e.level) := by simp [h]
  simp [renderMin, treeMin, this]

theorem renderMin_raw {a : Nat} {e : SExpr} (h : a ≤ e.level) :
    renderMin lp rp a e = rawMin lp rp e ∧ treeMin lp rp a e = rawTree lp rp e := by
  simp [renderMin, treeMin, wrapToks, wrapTree, h]

theorem renderMin_paren {a : Nat} {e : SExpr} (h : ¬ a ≤ e.level) :
    renderMin lp rp a e = lp :: (rawMin lp rp e ++ [rp]) ∧
    treeMin lp rp a e = .grouping (rawTree lp rp e) lp rp := by
  simp [renderMin, treeMin, wrapToks, wrapTree, h]

/-- at every rung, the minimal rendering for that rung parses to the minimal tree -/
def AllQ (e : SExpr) : Prop :=
  ∀ (b : Rung) s nxt r, s.after = renderMin lp rp b.n e ++ nxt :: r → trigLevel nxt.tt < b.n →
    nxt.tt ≠ .leftParen → Parses b s (treeMin lp rp b.n e) (advs s (renderMin lp rp b.n e) (nxt :: r))

/-- `e` as the first operand of the operator loop of a binary level -/
def SBin (e : SExpr) (lvl : BinLevel) : Prop :=
  ∀ s nxt r out s', s.after = renderMin lp rp lvl.n e ++ nxt :: r → trigLevel nxt.tt ≤ lvl.n →
    nxt.tt ≠ .leftParen →
    (∃ g, binLoop g lvl (treeMin lp rp lvl.n e) (advs s (renderMin lp rp lvl.n e) (nxt :: r)) = .ok out s') →
    ∃ f, binLevel f lvl s = .ok out s'

/-- `e` as the first operand of the OR loop -/
def SOr (e : SExpr) : Prop :=
  ∀ s nxt r out s', s.after = renderMin lp rp 2 e ++ nxt :: r → trigLevel nxt.tt ≤ 2 →
    nxt.tt ≠ .leftParen →
    (∃ g, orLoop g (treeMin lp rp 2 e) (advs s (renderMin lp rp 2 e) (nxt :: r)) = .ok out s') →
    ∃ f, orE f s = .ok out s'

end defs


theorem advs3 (s : PState) (cl X : List Token) (tok : Token) (Y cr Z : List Token) :
    advs (adv (advs s cl X) tok Y) cr Z = advs s (cl ++ tok :: cr) Z := by simp [advs]

/-- first operand, then the loop -/
theorem binLevel_of_operand_loop (lvl : BinLevel) {s s1 s' : PState} {t out : Expr}
    (h1 : Parses (Rung.opnd lvl) s t s1) (h2 : ∃ g, binLoop g lvl t s1 = .ok out s') :
    ∃ f, binLevel f lvl s = .ok out s' := by
  obtain ⟨f, hf⟩ := h1
  obtain ⟨g, hg⟩ := h2
  refine ⟨max f g + 1, ?_⟩
  have hg' := (exprMono (Nat.le_max_right f g)).binLoop lvl _ _ _ _ hg
  rw [P.binLevel]
  cases lvl <;> simp only [Rung.opnd, Rung.run] at hf <;> simp only [BinLevel.next]
  · rw [(exprMono (Nat.le_max_left f g)).binLevel _ s _ _ hf]; exact hg'
  · rw [(exprMono (Nat.le_max_left f g)).binLevel _ s _ _ hf]; exact hg'
  · rw [(exprMono (Nat.le_max_left f g)).binLevel _ s _ _ hf]; exact hg'
  · rw [(exprMono (Nat.le_max_left f g)).unary s _ _ hf]; exact hg'

/-- one round of the loop: operator, operand, and the loop again -/
theorem binLoop_round (lvl : BinLevel) {s1 s3 s' : PState} {tl tr out : Expr} {tok : Token} {op : BinOp}
    {rest : List Token} (h1 : s1.after = tok :: rest) (hmem : tok.tt ∈ lvl.ops) (hop : toBinOp tok.tt = some op)
    (h2 : Parses (Rung.opnd lvl) (adv s1 tok rest) tr s3)
    (h3 : ∃ g, binLoop g lvl (.binary tl op tr tok) s3 = .ok out s') :
    ∃ g, binLoop g lvl tl s1 = .ok out s' := by
  obtain ⟨f, hf⟩ := h2
  obtain ⟨g, hg⟩ := h3
  refine ⟨max f g + 1, ?_⟩
  have hg' := (exprMono (Nat.le_max_right f g)).binLoop lvl _ _ _ _ hg
  rw [P.binLoop, matchTokens_hit h1 hmem (ops_ne_eof hmem)]
  simp only [PRes.bind_ok]
  cases lvl <;> simp only [Rung.opnd, Rung.run] at hf <;> simp only [BinLevel.next]
  · rw [(exprMono (Nat.le_max_left f g)).binLevel _ _ _ _ hf]; simp only [PRes.bind_ok, hop]; exact hg'
  · rw [(exprMono (Nat.le_max_left f g)).binLevel _ _ _ _ hf]; simp only [PRes.bind_ok, hop]; exact hg'
  · rw [(exprMono (Nat.le_max_left f g)).binLevel _ _ _ _ hf]; simp only [PRes.bind_ok, hop]; exact hg'
  · rw [(exprMono (Nat.le_max_left f g)).unary _ _ _ hf]; simp only [PRes.bind_ok, hop]; exact hg'

section main
variable (lp rp : Token) (hlp : lp.tt = .leftParen) (hrp : rp.tt = .rightParen)
include hlp hrp

/-- from the parse at the expression's own rung to every rung: looser rungs pass the tree through,
tighter rungs see it in parentheses -/
theorem all_of_own (k : Rung) (e : SExpr) (hk : e.level = k.n)
    (own : ∀ s nxt r, s.after = rawMin lp rp e ++ nxt :: r → trigLevel nxt.tt < k.n → nxt.tt ≠ .leftParen →
      Parses k s (rawTree lp rp e) (advs s (rawMin lp rp e) (nxt :: r)))
    (hhead : 8 < k.n → ∃ t c', rawMin lp rp e = t :: c' ∧ t.tt ∉ [TT.not_, TT.minus]) : AllQ lp rp e := by
  intro b s nxt r h hT hnp
  by_cases hb : b.n ≤ e.level
  · obtain ⟨e1, e2⟩ := renderMin_raw lp rp hb
    rw [e1] at h ⊢; rw [e2]
    have hp := own s nxt r h (by omega) hnp
    refine down_to (advs_after _ _ _) (k.n - b.n) k b (by omega) hp hT ?_
    intro _ h8
    obtain ⟨t, c', hc, ht⟩ := hhead h8
    exact ⟨t, c' ++ nxt :: r, by rw [h, hc]; rfl, ht⟩
  · obtain ⟨e1, e2⟩ := renderMin_paren lp rp hb
    rw [e1] at h ⊢; rw [e2]
    have h' : s.after = lp :: (rawMin lp rp e ++ rp :: nxt :: r) := by rw [h]; simp
    have hp := own (adv s lp (rawMin lp rp e ++ rp :: nxt :: r)) rp (nxt :: r) rfl
      (by rw [hrp]; have := Rung.n_pos k; simp [trigLevel]; omega) (by rw [hrp]; decide)
    have ha : Parses .assign (adv s lp (rawMin lp rp e ++ rp :: nxt :: r)) (rawTree lp rp e) _ :=
      down_to (advs_after _ _ _) (k.n - 1) k .assign (by have := Rung.n_pos k; show k.n = 1 + (k.n - 1); omega) hp
        (by rw [hrp]; decide) (by
          intro _ h8
          obtain ⟨t, c', hc, ht⟩ := hhead h8
          exact ⟨t, c' ++ rp :: nxt :: r, by simp [hc], ht⟩)
    obtain ⟨f, hf⟩ := up_expr ha
    have hprim : Parses .primary s (.grouping (rawTree lp rp e) lp rp)
        (advs s (lp :: (rawMin lp rp e ++ [rp])) (nxt :: r)) := by
      refine ⟨f + 1, ?_⟩
      show P.primary (f+1) s = _
      rw [primary_lparen f h' hlp, hf]
      simp only [PRes.bind_ok]
      rw [consume_hit _ (advs_after _ _ _) hrp (by decide)]
      simp [advs]
    exact down_to (advs_after _ _ _) (10 - b.n) .primary b (by have := Rung.n_le b; show 10 = b.n + (10 - b.n); omega)
      hprim hT (fun _ _ => ⟨lp, _, h', by rw [hlp]; decide⟩)

/-! ### left-associative binary levels -/

omit hlp hrp in
/-- pass-through: an expression of another level as first operand -/
theorem sbin_of_all (e : SExpr) (lvl : BinLevel) (hne : e.level ≠ lvl.n) (hall : AllQ lp rp e) :
    SBin lp rp e lvl := by
  intro s nxt r out s' h hT hnp hloop
  obtain ⟨e1, e2⟩ := renderMin_congr lp rp (a := lvl.n) (b := lvl.n + 1) (e := e) (by omega)
  rw [e1] at h hloop; rw [e2] at hloop
  have := hall (Rung.opnd lvl) s nxt r (by rw [Rung.opnd_n]; exact h) (by rw [Rung.opnd_n]; omega) hnp
  rw [Rung.opnd_n] at this
  exact binLevel_of_operand_loop lvl this hloop

omit hlp hrp in
/-- the loop stops on a token that is not one of its operators -/
theorem own_of_sbin (e : SExpr) (lvl : BinLevel) (hlv : e.level = lvl.n) (hs : SBin lp rp e lvl)
    (s : PState) (nxt : Token) (r : List Token) (h : s.after = rawMin lp rp e ++ nxt :: r)
    (hT : trigLevel nxt.tt < (Rung.ofLvl lvl).n) (hnp : nxt.tt ≠ .leftParen) :
    Parses (Rung.ofLvl lvl) s (rawTree lp rp e) (advs s (rawMin lp rp e) (nxt :: r)) := by
  rw [Rung.ofLvl_n] at hT
  obtain ⟨e1, e2⟩ := renderMin_raw lp rp (a := lvl.n) (e := e) (by omega)
  have := hs s nxt r (rawTree lp rp e) (advs s (rawMin lp rp e) (nxt :: r)) (by rw [e1]; exact h)
    (by omega) hnp ⟨1, by
      rw [e1, e2, P.binLoop, matchTokens_miss (advs_after _ _ _) (not_mem_ops (by omega))]; rfl⟩
  obtain ⟨f, hf⟩ := this
  exact ⟨f, by rw [Rung.ofLvl_run]; exact hf⟩

omit hlp hrp in
/-- an operator node at its own level, as first operand of that level's loop -/
theorem sbin_node (l r : SExpr) (op : BinOp) (tok : Token) (hop : toBinOp tok.tt = some op)
    (hl : SBin lp rp l (lvlOf op)) (hr : AllQ lp rp r) : SBin lp rp (.binary l op tok r) (lvlOf op) := by
  intro s nxt r' out s' h hT hnp ⟨g, hg⟩
  have hmem := toBinOp_lvl hop
  have hlev : opLevel op = (lvlOf op).n := opLevel_of_mem hmem hop
  obtain ⟨e1, e2⟩ := renderMin_raw lp rp (a := (lvlOf op).n) (e := .binary l op tok r)
    (by simp [SExpr.level, hlev])
  rw [e1] at h hg; rw [e2] at hg
  simp only [rawMin, rawTree, hlev] at h hg
  change s.after = renderMin lp rp (lvlOf op).n l ++ tok :: renderMin lp rp ((lvlOf op).n + 1) r ++ nxt :: r' at h
  simp only [List.append_assoc, List.cons_append] at h
  refine hl s tok _ out s' h (by rw [trig_of_mem_ops hmem]; exact Nat.le_refl _) (toBinOp_ne_lparen hop) ?_
  have hr' := hr (Rung.opnd (lvlOf op))
    (adv (advs s (renderMin lp rp (lvlOf op).n l) (tok :: (renderMin lp rp ((lvlOf op).n + 1) r ++ nxt :: r')))
      tok (renderMin lp rp ((lvlOf op).n + 1) r ++ nxt :: r')) nxt r'
    (by rw [Rung.opnd_n]) (by rw [Rung.opnd_n]; omega) hnp
  rw [Rung.opnd_n] at hr'
  refine binLoop_round (lvlOf op) (advs_after _ _ _) hmem hop hr' ⟨g, ?_⟩
  rw [advs3]
  exact hg

/-! ### the OR loop -/

omit hlp hrp in
theorem sor_of_all (e : SExpr) (hne : e.level ≠ 2) (hall : AllQ lp rp e) : SOr lp rp e := by
  intro s nxt r out s' h hT hnp ⟨g, hg⟩
  obtain ⟨e1, e2⟩ := renderMin_congr lp rp (a := 2) (b := 3) (e := e) (by omega)
  rw [e1] at h hg; rw [e2] at hg
  obtain ⟨f, hf⟩ := hall .and s nxt r h (by simp [Rung.n]; omega) hnp
  refine ⟨max f g + 1, ?_⟩
  rw [P.orE, (exprMono (Nat.le_max_left f g)).andE s _ _ hf]
  simp only [PRes.bind_ok]
  exact (exprMono (Nat.le_max_right f g)).orLoop _ _ _ _ hg

omit hlp hrp in
theorem own_of_sor (e : SExpr) (hlv : e.level = 2) (hs : SOr lp rp e)
    (s : PState) (nxt : Token) (r : List Token) (h : s.after = rawMin lp rp e ++ nxt :: r)
    (hT : trigLevel nxt.tt < Rung.or.n) (hnp : nxt.tt ≠ .leftParen) :
    Parses .or s (rawTree lp rp e) (advs s (rawMin lp rp e) (nxt :: r)) := by
  simp only [Rung.n] at hT
  obtain ⟨e1, e2⟩ := renderMin_raw lp rp (a := 2) (e := e) (by omega)
  exact hs s nxt r (rawTree lp rp e) (advs s (rawMin lp rp e) (nxt :: r)) (by rw [e1]; exact h)
    (by omega) hnp ⟨1, by
      rw [e1, e2, P.orLoop, matchToken_miss (advs_after _ _ _) (by
        intro e; rw [e] at hT; simp [trigLevel] at hT)]; rfl⟩

omit hlp hrp in
theorem sor_node (l r : SExpr) (tok : Token) (htok : tok.tt = .or_)
    (hl : SOr lp rp l) (hr : AllQ lp rp r) : SOr lp rp (.logical l .or tok r) := by
  intro s nxt r' out s' h hT hnp ⟨g, hg⟩
  obtain ⟨e1, e2⟩ := renderMin_raw lp rp (a := 2) (e := .logical l .or tok r) (by simp [SExpr.level, logLevel])
  rw [e1] at h hg; rw [e2] at hg
  simp only [rawMin, rawTree, lctx] at h hg
  change s.after = renderMin lp rp 2 l ++ tok :: renderMin lp rp 3 r ++ nxt :: r' at h
  simp only [List.append_assoc, List.cons_append] at h
  refine hl s tok _ out s' h (by rw [htok]; decide) (by rw [htok]; decide) ?_
  obtain ⟨f, hf⟩ := hr .and
    (adv (advs s (renderMin lp rp 2 l) (tok :: (renderMin lp rp 3 r ++ nxt :: r')))
      tok (renderMin lp rp 3 r ++ nxt :: r')) nxt r' rfl (by simp [Rung.n]; omega) hnp
  refine ⟨max f g + 1, ?_⟩
  rw [P.orLoop, matchToken_hit (advs_after _ _ _) htok (by decide)]
  simp only [PRes.bind_ok]
  rw [(exprMono (Nat.le_max_left f g)).andE _ _ _ hf]
  simp only [PRes.bind_ok]
  rw [advs3]
  exact (exprMono (Nat.le_max_right f g)).orLoop _ _ _ _ hg

/-! ### right-nested nodes and atoms at their own rung -/

omit hlp hrp in
theorem own_lit (v : LitV) (tok : Token) (hv : litOf tok = some v) (s : PState) (nxt : Token) (r : List Token)
    (h : s.after = rawMin lp rp (.lit v tok) ++ nxt :: r) :
    Parses .primary s (rawTree lp rp (.lit v tok)) (advs s (rawMin lp rp (.lit v tok)) (nxt :: r)) :=
  ⟨1, primary_lit h hv⟩

omit hlp hrp in
theorem own_var (tok : Token) (htt : tok.tt = .identifier) (s : PState) (nxt : Token) (r : List Token)
    (h : s.after = rawMin lp rp (.var tok) ++ nxt :: r) (hnp : nxt.tt ≠ .leftParen) :
    Parses .primary s (rawTree lp rp (.var tok)) (advs s (rawMin lp rp (.var tok)) (nxt :: r)) :=
  ⟨1, primary_var h htt hnp⟩

omit hlp hrp in
theorem own_unary (op : UnOp) (tok : Token) (x : SExpr) (hop : toUnOp tok.tt = some op) (hx : AllQ lp rp x)
    (s : PState) (nxt : Token) (r : List Token)
    (h : s.after = rawMin lp rp (.unary op tok x) ++ nxt :: r) (hT : trigLevel nxt.tt < Rung.unary.n)
    (hnp : nxt.tt ≠ .leftParen) :
    Parses .unary s (rawTree lp rp (.unary op tok x)) (advs s (rawMin lp rp (.unary op tok x)) (nxt :: r)) := by
  change s.after = tok :: (renderMin lp rp 8 x ++ nxt :: r) at h
  have o2 := hx .unary (adv s tok (renderMin lp rp 8 x ++ nxt :: r)) nxt r rfl hT hnp
  obtain ⟨f, hf⟩ := unary_node h hop o2
  refine ⟨f, ?_⟩
  show P.unary f s = .ok (.unary op (treeMin lp rp 8 x) tok) (advs s (tok :: renderMin lp rp 8 x) (nxt :: r))
  rw [hf, advs_adv]
  rfl

omit hlp hrp in
theorem own_and (l x : SExpr) (tok : Token) (htok : tok.tt = .and_) (hl : AllQ lp rp l) (hx : AllQ lp rp x)
    (s : PState) (nxt : Token) (r : List Token)
    (h : s.after = rawMin lp rp (.logical l .and tok x) ++ nxt :: r) (hT : trigLevel nxt.tt < Rung.and.n)
    (hnp : nxt.tt ≠ .leftParen) :
    Parses .and s (rawTree lp rp (.logical l .and tok x))
      (advs s (rawMin lp rp (.logical l .and tok x)) (nxt :: r)) := by
  change s.after = (renderMin lp rp 4 l ++ tok :: renderMin lp rp 3 x) ++ nxt :: r at h
  simp only [List.append_assoc, List.cons_append] at h
  have o1 := hl .eq s tok _ h (by rw [htok]; decide) (by rw [htok]; decide)
  have o2 := hx .and (adv (advs s (renderMin lp rp 4 l) (tok :: (renderMin lp rp 3 x ++ nxt :: r))) tok
    (renderMin lp rp 3 x ++ nxt :: r)) nxt r rfl hT hnp
  obtain ⟨f, hf⟩ := and_node o1 (advs_after _ _ _) htok o2 (advs_after _ _ _)
    (by intro e; rw [e] at hT; simp [trigLevel, Rung.n] at hT)
  refine ⟨f, ?_⟩
  show andE f s = .ok (.logical (treeMin lp rp 4 l) .and (treeMin lp rp 3 x) tok)
    (advs s (renderMin lp rp 4 l ++ tok :: renderMin lp rp 3 x) (nxt :: r))
  rw [hf, advs3]
  rfl

omit hlp hrp in
theorem own_assign (name arrow : Token) (v : SExpr) (hname : name.tt = .identifier) (harrow : arrow.tt = .arrow)
    (hv : AllQ lp rp v) (s : PState) (nxt : Token) (r : List Token)
    (h : s.after = rawMin lp rp (.assign name arrow v) ++ nxt :: r) (hT : trigLevel nxt.tt < Rung.assign.n)
    (hnp : nxt.tt ≠ .leftParen) :
    Parses .assign s (rawTree lp rp (.assign name arrow v))
      (advs s (rawMin lp rp (.assign name arrow v)) (nxt :: r)) := by
  change s.after = name :: arrow :: (renderMin lp rp 1 v ++ nxt :: r) at h
  have hp1 : ∃ f, primary f s = .ok (.var name.lexeme name)
      (adv s name (arrow :: (renderMin lp rp 1 v ++ nxt :: r))) :=
    ⟨1, primary_var h hname (by rw [harrow]; decide)⟩
  have o1 := prim_to_or hp1 h (by simp [hname]) rfl (by rw [harrow]; decide)
  have o2 := hv .assign (adv (adv s name (arrow :: (renderMin lp rp 1 v ++ nxt :: r))) arrow
    (renderMin lp rp 1 v ++ nxt :: r)) nxt r rfl hT hnp
  obtain ⟨f, hf⟩ := assign_node o1 rfl harrow o2
  refine ⟨f, ?_⟩
  show assignment f s = .ok (.assign name.lexeme name (treeMin lp rp 1 v) arrow)
    (advs s (name :: arrow :: renderMin lp rp 1 v) (nxt :: r))
  rw [hf]
  simp [advs, Rung.n]

/-! ### the induction -/

/-- everything the induction carries for a sub-expression -/
structure MinQ (e : SExpr) : Prop where
  all : AllQ lp rp e
  sbin : ∀ lvl, SBin lp rp e lvl
  sor : SOr lp rp e

omit hlp hrp in
theorem minQ_of_all (e : SExpr) (hall : AllQ lp rp e) (h1 : ∀ lvl : BinLevel, e.level ≠ lvl.n)
    (h2 : e.level ≠ 2) : MinQ lp rp e :=
  ⟨hall, fun lvl => sbin_of_all lp rp e lvl (h1 lvl) hall, sor_of_all lp rp e h2 hall⟩

omit hlp hrp in
theorem lvlOf_inj {lvl : BinLevel} {op : BinOp} (h : opLevel op = lvl.n) : lvl = lvlOf op := by
  cases lvl <;> cases op <;> simp [opLevel, BinLevel.n] at h <;> rfl

theorem minQ (e : SExpr) (he : e.WF) : MinQ lp rp e := by
  induction e with
  | lit v tok =>
    have hall : AllQ lp rp (.lit v tok) := all_of_own lp rp hlp hrp .primary _ rfl
      (fun s nxt r h _ _ => own_lit lp rp v tok he s nxt r h) (fun _ => ⟨tok, [], rfl, litOf_not_unary he⟩)
    exact minQ_of_all lp rp _ hall (by intro lvl; cases lvl <;> simp [SExpr.level, BinLevel.n])
      (by simp [SExpr.level])
  | var tok =>
    simp only [SExpr.WF] at he
    have hall : AllQ lp rp (.var tok) := all_of_own lp rp hlp hrp .primary _ rfl
      (fun s nxt r h _ hnp => own_var lp rp tok he s nxt r h hnp) (fun _ => ⟨tok, [], rfl, by simp [he]⟩)
    exact minQ_of_all lp rp _ hall (by intro lvl; cases lvl <;> simp [SExpr.level, BinLevel.n])
      (by simp [SExpr.level])
  | binary l op tok r ihl ihr =>
    obtain ⟨hl, hop, hr⟩ := he
    have hmem := toBinOp_lvl hop
    have hlev : opLevel op = (lvlOf op).n := opLevel_of_mem hmem hop
    have hs : SBin lp rp (.binary l op tok r) (lvlOf op) :=
      sbin_node lp rp l r op tok hop ((ihl hl).sbin _) (ihr hr).all
    have hall : AllQ lp rp (.binary l op tok r) :=
      all_of_own lp rp hlp hrp (Rung.ofLvl (lvlOf op)) _ (by rw [Rung.ofLvl_n]; exact hlev)
        (own_of_sbin lp rp _ (lvlOf op) hlev hs)
        (by rw [Rung.ofLvl_n]; intro h8; cases op <;> simp [lvlOf, BinLevel.n] at h8)
    refine ⟨hall, fun lvl => ?_, sor_of_all lp rp _ (by simp [SExpr.level]; cases op <;> simp [opLevel]) hall⟩
    by_cases hlv : opLevel op = lvl.n
    · rw [lvlOf_inj hlv]; exact hs
    · exact sbin_of_all lp rp _ lvl hlv hall
  | logical l op tok r ihl ihr =>
    obtain ⟨hl, hop, hr⟩ := he
    cases op with
    | or =>
      have htok : tok.tt = .or_ := by
        generalize tok.tt = k at hop; cases k <;> simp [toLogOp] at hop <;> rfl
      have hs : SOr lp rp (.logical l .or tok r) := sor_node lp rp l r tok htok (ihl hl).sor (ihr hr).all
      have hall : AllQ lp rp (.logical l .or tok r) :=
        all_of_own lp rp hlp hrp .or _ rfl (own_of_sor lp rp _ rfl hs) (by simp [Rung.n])
      exact ⟨hall, fun lvl => sbin_of_all lp rp _ lvl
        (by cases lvl <;> simp [SExpr.level, logLevel, BinLevel.n]) hall, hs⟩
    | and =>
      have htok : tok.tt = .and_ := by
        generalize tok.tt = k at hop; cases k <;> simp [toLogOp] at hop <;> rfl
      have hall : AllQ lp rp (.logical l .and tok r) :=
        all_of_own lp rp hlp hrp .and _ rfl (own_and lp rp l r tok htok (ihl hl).all (ihr hr).all)
          (by simp [Rung.n])
      exact minQ_of_all lp rp _ hall (by intro lvl; cases lvl <;> simp [SExpr.level, logLevel, BinLevel.n])
        (by simp [SExpr.level, logLevel])
  | unary op tok r ihr =>
    obtain ⟨hop, hr⟩ := he
    have hall : AllQ lp rp (.unary op tok r) :=
      all_of_own lp rp hlp hrp .unary _ rfl (own_unary lp rp op tok r hop (ihr hr).all) (by simp [Rung.n])
    exact minQ_of_all lp rp _ hall (by intro lvl; cases lvl <;> simp [SExpr.level, BinLevel.n])
      (by simp [SExpr.level])
  | assign name arrow v ihv =>
    obtain ⟨hname, harrow, hv⟩ := he
    have hall : AllQ lp rp (.assign name arrow v) :=
      all_of_own lp rp hlp hrp .assign _ rfl (own_assign lp rp name arrow v hname harrow (ihv hv).all)
        (by simp [Rung.n])
    exact minQ_of_all lp rp _ hall (by intro lvl; cases lvl <;> simp [SExpr.level, BinLevel.n])
      (by simp [SExpr.level])

end main

/-! ## both renderings give the same tree up to `.grouping` nodes -/

/-- `Ungroups t t'`: `t'` is `t` with the `.grouping` nodes removed -/
inductive Ungroups : Expr → Expr → Prop
  | lit (v tok) : Ungroups (.lit v tok) (.lit v tok)
  | var (n tok) : Ungroups (.var n tok) (.var n tok)
  | grouping {e e' lp rp} : Ungroups e e' → Ungroups (.grouping e lp rp) e'
  | binary {l l' r r' op tok} : Ungroups l l' → Ungroups r r' → Ungroups (.binary l op r tok) (.binary l' op r' tok)
  | logical {l l' r r' op tok} : Ungroups l l' → Ungroups r r' →
      Ungroups (.logical l op r tok) (.logical l' op r' tok)
  | unary {r r' op tok} : Ungroups r r' → Ungroups (.unary op r tok) (.unary op r' tok)
  | assign {v v' name tok arrow} : Ungroups v v' → Ungroups (.assign name tok v arrow) (.assign name tok v' arrow)

/-- the tree of a spec-level expression without any `.grouping` node -/
def skeleton : SExpr → Expr
  | .lit v tok => .lit v tok
  | .var tok => .var tok.lexeme tok
  | .binary l op tok r => .binary (skeleton l) op (skeleton r) tok
  | .logical l op tok r => .logical (skeleton l) op (skeleton r) tok
  | .unary op tok r => .unary op (skeleton r) tok
  | .assign name arrow v => .assign name.lexeme name (skeleton v) arrow

theorem Ungroups.wrap (lp rp : Token) (b : Bool) {t t' : Expr} (h : Ungroups t t') :
    Ungroups (wrapTree lp rp b t) t' := by
  cases b
  · exact .grouping h
  · exact h

theorem rawTree_ungroups (lp rp : Token) : ∀ e : SExpr, Ungroups (rawTree lp rp e) (skeleton e)
  | .lit v tok => .lit v tok
  | .var tok => .var _ tok
  | .binary l _ _ r => .binary (.wrap lp rp _ (rawTree_ungroups lp rp l)) (.wrap lp rp _ (rawTree_ungroups lp rp r))
  | .logical l _ _ r => .logical (.wrap lp rp _ (rawTree_ungroups lp rp l)) (.wrap lp rp _ (rawTree_ungroups lp rp r))
  | .unary _ _ r => .unary (.wrap lp rp _ (rawTree_ungroups lp rp r))
  | .assign _ _ v => .assign (.wrap lp rp _ (rawTree_ungroups lp rp v))

theorem treeMin_ungroups (lp rp : Token) (ctx : Nat) (e : SExpr) : Ungroups (treeMin lp rp ctx e) (skeleton e) :=
  .wrap lp rp _ (rawTree_ungroups lp rp e)

theorem groupAll_ungroups (lp rp : Token) : ∀ e : SExpr, Ungroups (groupAll lp rp e) (skeleton e)
  | .lit v tok => .lit v tok
  | .var tok => .var _ tok
  | .binary l _ _ r => .binary (.wrap lp rp _ (groupAll_ungroups lp rp l)) (.wrap lp rp _ (groupAll_ungroups lp rp r))
  | .logical l _ _ r => .logical (.wrap lp rp _ (groupAll_ungroups lp rp l)) (.wrap lp rp _ (groupAll_ungroups lp rp r))
  | .unary _ _ r => .unary (.wrap lp rp _ (groupAll_ungroups lp rp r))
  | .assign _ _ v => .assign (.wrap lp rp _ (groupAll_ungroups lp rp v))

theorem SExpr.level_pos (e : SExpr) : 1 ≤ e.level := by
  cases e <;> simp [SExpr.level]
  · rename_i op _ _; cases op <;> simp [opLevel]
  · rename_i op _ _; cases op <;> simp [logLevel]

end P
end Aplang
