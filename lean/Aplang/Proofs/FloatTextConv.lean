import Aplang.Proofs.FloatTextRead
import Aplang.Proofs.FloatTextBits
/-!
# Converse of correct rounding: a decimal reads back as `x` ONLY IF it lies in the rounding interval of `x`

`rwa_conv` (converse of `rwa_round`), `mul_pack_iff` / `div_pack_iff`, and `readBack_iff`:
`F64.readBack d s = (the double m·2^e) ↔ Inside m e (asymOf m e) d s`.
-/
set_option linter.unusedSimpArgs false
set_option linter.unnecessarySeqFocus false
namespace Aplang.FloatText
open Float.Model Float.Model.UnpackedFloat Aplang.FloatIndex

/-- `rne N D` is within half a unit of `N / D`; exactly half only if it is even -/
theorem rne_spec (N D : Nat) (hD : 0 < D) :
    2 * N ≤ (2 * rne N D + 1) * D ∧ 2 * rne N D * D ≤ 2 * N + D ∧
    (2 * N = (2 * rne N D + 1) * D → rne N D % 2 = 0) ∧ (2 * rne N D * D = 2 * N + D → rne N D % 2 = 0) ∧
    N / D ≤ rne N D ∧ rne N D ≤ N / D + 1 := by
  have hN := Nat.div_add_mod N D
  have hr : N % D < D := Nat.mod_lt _ hD
  generalize hq : N / D = q at *
  generalize hrr : N % D = r at *
  have e1 : ∀ x : Nat, (2 * x + 1) * D = 2 * (D * x) + D := by intro x; ring
  have e2 : ∀ x : Nat, 2 * x * D = 2 * (D * x) := by intro x; ring
  have e3 : D * (q + 1) = D * q + D := by ring
  unfold rne
  rw [hq, hrr]
  split
  · rw [e1, e2]; refine ⟨by omega, by omega, ?_, ?_, by omega, by omega⟩ <;> intro h <;> omega
  · split
    · rcases Nat.mod_two_eq_zero_or_one q with hb | hb
      · simp only [hb, Nat.add_zero, e1, e2]
        refine ⟨by omega, by omega, ?_, ?_, by omega, by omega⟩ <;> intro _ <;> trivial
      · simp only [hb, e1, e2, e3]
        refine ⟨by omega, by omega, ?_, ?_, by omega, by omega⟩ <;> intro _ <;> omega
    · rw [e1, e2, e3]; refine ⟨by omega, by omega, ?_, ?_, by omega, by omega⟩ <;> intro h <;> omega

theorem finish_zero (t : Int) : finish 0 t = .zero .positive := by
  unfold finish
  have : (shiftToTargetExponent Format.binary64 0 t .exact).1.mantissa = 0 := by
    unfold shiftToTargetExponent shiftToExponent
    simp only [shr_mantissa, ExtendedMantissa.ofMantissaAndAccuracy, Nat.zero_div]
  simp only [this, dite_true]

/-- the results of `finish` on a rounded mantissa `r ≤ 2^53` at exponent `t` (`r < 2^52` only in the subnormal range) -/
theorem finish_cases (r : Nat) (t : Int) (hr : r ≤ 2 ^ 53) (ht : -1074 ≤ t) (hsmall : r < 2 ^ 52 → t = -1074) :
    finish r t = .zero .positive ∨
    (0 < r ∧ r < 2 ^ 53 ∧ ∃ h, finish r t = .finite .positive r t h) ∨
    (r = 2 ^ 53 ∧ ∃ h, finish r t = .finite .positive (2 ^ 52) (t + 1) h) := by
  by_cases h0 : r = 0
  · subst h0; exact Or.inl (finish_zero t)
  · by_cases h53 : r = 2 ^ 53
    · subst h53; exact Or.inr (Or.inr ⟨rfl, finish_overflow t ht⟩)
    · refine Or.inr (Or.inl ⟨by omega, by omega, ?_⟩)
      by_cases h52 : 2 ^ 52 ≤ r
      · exact finish_canonical r t h52 (by omega) ht
      · have := hsmall (by omega)
        subst this
        exact finish_sub r (by omega) (by omega)

/-- **converse of `rwa_round`**: if the rounding step returns the canonical double `m · 2^e`, the exact value was in its
rounding interval -/
theorem rwa_conv (m : Nat) (e : Int) (hc : Canon m e) (M : Nat) (E : Int) (num den : Nat) (hnd : num < den)
    (hM : 52 ≤ M.log2 ∨ E ≤ -1074) (h : 0 < m)
    (hres : roundWithAccuracy Format.binary64 .positive M E (accuracyOfFraction num den) = .finite .positive m e h) :
    (Le2 (l4 m (asymOf m e) * den) (e - 2) (M * den + num) E ∧ Le2 (M * den + num) E (h4 m * den) (e - 2)) ∧
    (m % 2 = 1 → Lt2 (l4 m (asymOf m e) * den) (e - 2) (M * den + num) E ∧
      Lt2 (M * den + num) E (h4 m * den) (e - 2)) := by
  have hden : 0 < den := by omega
  have hEt : E ≤ tgt M E := by unfold tgt; omega
  rw [rwa_spec M E num den hnd hEt] at hres
  generalize hNdef : M * den + num = N at *
  have hN1 : M * den ≤ N := by omega
  have hN2 : N < (M + 1) * den := by rw [Nat.add_mul]; omega
  obtain ⟨k, hk⟩ : ∃ k : Nat, E + k = tgt M E := ⟨(tgt M E - E).toNat, by omega⟩
  have hk' : (tgt M E - E).toNat = k := by omega
  rw [hk'] at hres
  generalize hDdef : 2 ^ k * den = D at *
  have hD : 0 < D := by rw [← hDdef]; exact Nat.mul_pos (Nat.two_pow_pos k) hden
  -- (a) N < 2^53 * D
  have hlg : (M.log2 : Int) ≤ 52 + k := by unfold tgt at hk; omega
  have ha : N < 2 ^ 53 * D := by
    have h1 : M + 1 ≤ 2 ^ (M.log2 + 1) := Nat.lt_log2_self
    have h2 : 2 ^ (M.log2 + 1) ≤ 2 ^ (53 + k) := Nat.pow_le_pow_right (by decide) (by omega)
    have h3 : (M + 1) * den ≤ 2 ^ (53 + k) * den := Nat.mul_le_mul_right den (Nat.le_trans h1 h2)
    have h4' : 2 ^ (53 + k) * den = 2 ^ 53 * D := by rw [← hDdef, Nat.pow_add]; ring
    omega
  -- (b) above the subnormal range, 2^52 * D ≤ N
  have hb : -1074 < tgt M E → 2 ^ 52 * D ≤ N := by
    intro ht
    have hlg2 : (M.log2 : Int) = 52 + k := by unfold tgt at hk ht; omega
    have hM0 : M ≠ 0 := by intro h0; subst h0; simp at hlg2; omega
    have h1 : 2 ^ M.log2 ≤ M := Nat.log2_self_le hM0
    have h2 : M.log2 = 52 + k := by omega
    rw [h2] at h1
    have h3 : 2 ^ (52 + k) * den ≤ M * den := Nat.mul_le_mul_right den h1
    have h4' : 2 ^ (52 + k) * den = 2 ^ 52 * D := by rw [← hDdef, Nat.pow_add]; ring
    omega
  obtain ⟨s1, s2, s3, s4, s5, s6⟩ := rne_spec N D hD
  have hq53 : N / D < 2 ^ 53 := (Nat.div_lt_iff_lt_mul hD).mpr ha
  have ht0 : -1074 ≤ tgt M E := by unfold tgt; omega
  have hsm : rne N D < 2 ^ 52 → tgt M E = -1074 := by
    intro hlt
    apply Classical.byContradiction; intro hne
    have := hb (by omega)
    have : 2 ^ 52 ≤ N / D := (Nat.le_div_iff_mul_le hD).mpr this
    omega
  have ej : ∀ j : Nat, E + (k : Int) + j = e → (e - 2 - (E - 2)).toNat = k + j := by intro j hj; omega
  have e2' : (E - (E - 2)).toNat = 2 := by omega
  have a2 : N * 2 ^ 2 = 4 * N := by omega
  rcases finish_cases (rne N D) (tgt M E) (by omega) ht0 hsm with hz | ⟨hr0, hr53, h', hf⟩ | ⟨hr, h', hf⟩
  · rw [hz] at hres; cases hres
  · -- the result is `(rne N D, tgt M E)`
    rw [hf] at hres
    injection hres with _ hm he
    subst hm
    have hEe : E ≤ e := by omega
    have ej0 := ej 0 (by omega)
    rw [le2_iff _ _ _ _ (E - 2) (by omega) (by omega), le2_iff _ _ _ _ (E - 2) (by omega) (by omega),
      lt2_iff _ _ _ _ (E - 2) (by omega) (by omega), lt2_iff _ _ _ _ (E - 2) (by omega) (by omega), ej0, e2', a2]
    have a1 : ∀ x : Nat, x * den * 2 ^ (k + 0) = x * D := by intro x; rw [← hDdef]; ring
    simp only [a1]
    have g1 : (2 * rne N D + 1) * D = 2 * (D * rne N D) + D := by ring
    have g2 : 2 * rne N D * D = 2 * (D * rne N D) := by ring
    have g3 : h4 (rne N D) * D = 4 * (D * rne N D) + 2 * D := by unfold h4; ring
    rw [g1] at s1 s3
    rw [g2] at s2 s4
    have hDr : D ≤ D * rne N D := Nat.le_mul_of_pos_right D hr0
    have hl : l4 (rne N D) (asymOf (rne N D) e) * D ≤ 4 * N ∧
        (rne N D % 2 = 1 → l4 (rne N D) (asymOf (rne N D) e) * D < 4 * N) := by
      cases has : asymOf (rne N D) e
      · have : l4 (rne N D) false * D = 4 * (D * rne N D) - 2 * D := by
          simp only [l4, Bool.false_eq_true, if_false, Nat.sub_mul]; congr 1; ring
        rw [this]
        refine ⟨by omega, fun ho => ?_⟩
        have : ¬ (2 * (D * rne N D) = 2 * N + D) := fun hh => by have := s4 hh; omega
        omega
      · simp only [asymOf, Bool.and_eq_true, decide_eq_true_eq] at has
        have hbb := hb (by omega)
        rw [has.1]
        have : l4 (2 ^ 52) true * D = 4 * (2 ^ 52 * D) - D := by
          simp only [l4, if_true, Nat.sub_mul, Nat.one_mul]; congr 1; ring
        rw [this]
        exact ⟨by omega, fun _ => by omega⟩
    rw [g3]
    refine ⟨⟨hl.1, by omega⟩, fun ho => ⟨hl.2 ho, ?_⟩⟩
    have : ¬ (2 * N = 2 * (D * rne N D) + D) := fun hh => by have := s3 hh; omega
    omega
  · -- rounding overflowed into the next binade: `(2^52, tgt M E + 1)`
    rw [hf] at hres
    injection hres with _ hm he
    subst hm
    have hEe : E ≤ e := by omega
    have ej1 := ej 1 (by omega)
    rw [le2_iff _ _ _ _ (E - 2) (by omega) (by omega), le2_iff _ _ _ _ (E - 2) (by omega) (by omega),
      lt2_iff _ _ _ _ (E - 2) (by omega) (by omega), lt2_iff _ _ _ _ (E - 2) (by omega) (by omega), ej1, e2', a2]
    have a1 : ∀ x : Nat, x * den * 2 ^ (k + 1) = 2 * (x * D) := by intro x; rw [← hDdef, Nat.pow_succ]; ring
    simp only [a1]
    have has : asymOf (2 ^ 52) e = true := by
      unfold asymOf; simp; omega
    rw [has]
    rw [hr] at s2
    have g1 : l4 (2 ^ 52) true * D = 2 ^ 54 * D - D := by
      simp only [l4, if_true, Nat.sub_mul, Nat.one_mul]; congr 1
    have g2 : h4 (2 ^ 52) * D = 2 ^ 54 * D + 2 * D := by unfold h4; ring
    have g3 : 2 * 2 ^ 53 * D = 2 ^ 54 * D := by ring
    have g4 : 2 ^ 53 * D + 2 ^ 53 * D = 2 ^ 54 * D := by ring
    rw [g1, g2]
    rw [g3] at s2
    exact ⟨⟨by omega, by omega⟩, fun ho => by omega⟩

/-- `N` (in units `2^E / den`) is in the rounding interval of `m · 2^e` -/
def RI (m : Nat) (e : Int) (den N : Nat) (E : Int) : Prop :=
  (Le2 (l4 m (asymOf m e) * den) (e - 2) N E ∧ Le2 N E (h4 m * den) (e - 2)) ∧
  (m % 2 = 1 → Lt2 (l4 m (asymOf m e) * den) (e - 2) N E ∧ Lt2 N E (h4 m * den) (e - 2))

theorem rt_eq (U : UnpackedFloat) : (Float.ofModel (Float.Model.pack U)).toModel.unpack = rt U := rfl

theorem rt_shape (r : Nat) (t : Int) (h : 0 < r) (ht : -1074 ≤ t) (hr : r < 2 ^ 53) (hn : t ≠ -1074 → 2 ^ 52 ≤ r) :
    (t ≤ 971 ∧ rt (.finite .positive r t h) = .finite .positive r t h) ∨
    rt (.finite .positive r t h) = .infinity .positive := by
  by_cases h971 : t ≤ 971
  · exact Or.inl ⟨h971, unpack_pack_canon _ _ _ h ⟨h, hr, ht, h971, hn⟩⟩
  · right
    rw [rt, pack_overflow r t h (by omega)]
    rfl

/-- what the rounding step can return: a zero, or a finite value that is canonical except that its exponent may be
too large (then `pack` overflows to infinity) -/
theorem rwa_shape (M : Nat) (E : Int) (num den : Nat) (hnd : num < den) (hM : 52 ≤ M.log2 ∨ E ≤ -1074) :
    roundWithAccuracy Format.binary64 .positive M E (accuracyOfFraction num den) = .zero .positive ∨
    ∃ r t h, roundWithAccuracy Format.binary64 .positive M E (accuracyOfFraction num den) = .finite .positive r t h ∧
      -1074 ≤ t ∧ r < 2 ^ 53 ∧ (t ≠ -1074 → 2 ^ 52 ≤ r) := by
  have hden : 0 < den := by omega
  have hEt : E ≤ tgt M E := by unfold tgt; omega
  rw [rwa_spec M E num den hnd hEt]
  generalize hNdef : M * den + num = N at *
  have hN1 : M * den ≤ N := by omega
  have hN2 : N < (M + 1) * den := by rw [Nat.add_mul]; omega
  obtain ⟨k, hk⟩ : ∃ k : Nat, E + k = tgt M E := ⟨(tgt M E - E).toNat, by omega⟩
  have hk' : (tgt M E - E).toNat = k := by omega
  rw [hk']
  generalize hDdef : 2 ^ k * den = D at *
  have hD : 0 < D := by rw [← hDdef]; exact Nat.mul_pos (Nat.two_pow_pos k) hden
  have hlg : (M.log2 : Int) ≤ 52 + k := by unfold tgt at hk; omega
  have ha : N < 2 ^ 53 * D := by
    have h1 : M + 1 ≤ 2 ^ (M.log2 + 1) := Nat.lt_log2_self
    have h2 : 2 ^ (M.log2 + 1) ≤ 2 ^ (53 + k) := Nat.pow_le_pow_right (by decide) (by omega)
    have h3 : (M + 1) * den ≤ 2 ^ (53 + k) * den := Nat.mul_le_mul_right den (Nat.le_trans h1 h2)
    have h4' : 2 ^ (53 + k) * den = 2 ^ 53 * D := by rw [← hDdef, Nat.pow_add]; ring
    omega
  have hb : -1074 < tgt M E → 2 ^ 52 * D ≤ N := by
    intro ht
    have hlg2 : (M.log2 : Int) = 52 + k := by unfold tgt at hk ht; omega
    have hM0 : M ≠ 0 := by intro h0; subst h0; simp at hlg2; omega
    have h1 : 2 ^ M.log2 ≤ M := Nat.log2_self_le hM0
    have h2 : M.log2 = 52 + k := by omega
    rw [h2] at h1
    have h3 : 2 ^ (52 + k) * den ≤ M * den := Nat.mul_le_mul_right den h1
    have h4' : 2 ^ (52 + k) * den = 2 ^ 52 * D := by rw [← hDdef, Nat.pow_add]; ring
    omega
  obtain ⟨s1, s2, s3, s4, s5, s6⟩ := rne_spec N D hD
  have hq53 : N / D < 2 ^ 53 := (Nat.div_lt_iff_lt_mul hD).mpr ha
  have ht0 : -1074 ≤ tgt M E := by unfold tgt; omega
  have hsm : rne N D < 2 ^ 52 → tgt M E = -1074 := by
    intro hlt
    apply Classical.byContradiction; intro hne
    have := hb (by omega)
    have : 2 ^ 52 ≤ N / D := (Nat.le_div_iff_mul_le hD).mpr this
    omega
  rcases finish_cases (rne N D) (tgt M E) (by omega) ht0 hsm with hz | ⟨hr0, hr53, h', hf⟩ | ⟨hr, h', hf⟩
  · exact Or.inl hz
  · exact Or.inr ⟨_, _, h', hf, ht0, hr53, fun hne => by
      apply Classical.byContradiction; intro hlt; exact hne (hsm (by omega))⟩
  · exact Or.inr ⟨_, _, h', hf, by omega, by decide, fun _ => by decide⟩

theorem rt_eq' (U : UnpackedFloat) : (Float.Model.pack U).unpack = rt U := rfl

/-- packing loses nothing on what the rounding step returns, when the packed value is a canonical finite double -/
theorem pack_inj_rwa (m : Nat) (e : Int) (h : 0 < m) (M : Nat) (E : Int) (num den : Nat) (hnd : num < den)
    (hM : 52 ≤ M.log2 ∨ E ≤ -1074)
    (heq : Float.ofModel (Float.Model.pack (roundWithAccuracy Format.binary64 .positive M E (accuracyOfFraction num den))) =
      Float.ofModel (Float.Model.pack (.finite .positive m e h))) (hc : Canon m e) :
    roundWithAccuracy Format.binary64 .positive M E (accuracyOfFraction num den) = .finite .positive m e h := by
  have h1 := congrArg (fun f : Float => f.toModel.unpack) heq
  simp only [] at h1
  rw [rt_eq', rt_eq'] at h1
  rw [show rt (.finite .positive m e h) = .finite .positive m e h from unpack_pack_canon _ _ _ h hc] at h1
  rcases rwa_shape M E num den hnd hM with hz | ⟨r, t, h', hU, ht, hr, hn⟩
  · rw [hz, rt_zero] at h1; cases h1
  · rw [hU] at h1 ⊢
    rcases rt_shape r t h' ht hr hn with ⟨_, hs⟩ | hs
    · rw [hs] at h1; exact h1
    · rw [hs] at h1; cases h1

/-- **the rounding step returns `m · 2^e` iff the exact value is in its rounding interval** -/
theorem rwa_iff (m : Nat) (e : Int) (hc : Canon m e) (M : Nat) (E : Int) (num den : Nat) (hnd : num < den)
    (hM : 52 ≤ M.log2 ∨ E ≤ -1074) :
    Float.ofModel (Float.Model.pack (roundWithAccuracy Format.binary64 .positive M E (accuracyOfFraction num den))) =
      Float.ofModel (Float.Model.pack (.finite .positive m e hc.pos)) ↔ RI m e den (M * den + num) E := by
  constructor
  · intro heq
    exact rwa_conv m e hc M E num den hnd hM hc.pos (pack_inj_rwa m e hc.pos M E num den hnd hM heq hc)
  · rintro ⟨⟨hlo, hhi⟩, hodd⟩
    obtain ⟨h, hr⟩ := rwa_round m e hc M E num den hnd hM hlo hhi hodd
    rw [hr]

theorem ri_one (m : Nat) (e : Int) (N : Nat) (E : Int) :
    RI m e 1 N E ↔ (Le2 (l4 m (asymOf m e)) (e - 2) N E ∧ Le2 N E (h4 m) (e - 2)) ∧
      (m % 2 = 1 → Lt2 (l4 m (asymOf m e)) (e - 2) N E ∧ Lt2 N E (h4 m) (e - 2)) := by
  unfold RI; simp only [Nat.mul_one]

theorem ri_pow (m : Nat) (e : Int) (den N k : Nat) (E : Int) : RI m e den (N * 2 ^ k) E ↔ RI m e den N (E + k) := by
  unfold RI
  rw [le2_pow_right, le2_pow_left, lt2_pow_right, lt2_pow_left]

theorem mul_pack_iff (m : Nat) (e : Int) (hc : Canon m e) (m1 : Nat) (e1 : Int) (m2 : Nat) (e2 : Int)
    (h1 : 0 < m1) (h2 : 0 < m2) (hM : 52 ≤ (m1 * m2).log2 ∨ e1 + e2 ≤ -1074) :
    Float.ofModel (Float.Model.pack
      (UnpackedFloat.mul Format.binary64 (.finite .positive m1 e1 h1) (.finite .positive m2 e2 h2))) =
      Float.ofModel (Float.Model.pack (.finite .positive m e hc.pos)) ↔ RI m e 1 (m1 * m2) (e1 + e2) := by
  have hm : UnpackedFloat.mul Format.binary64 (.finite .positive m1 e1 h1) (.finite .positive m2 e2 h2) =
      roundWithAccuracy Format.binary64 .positive (m1 * m2) (e1 + e2) (accuracyOfFraction 0 1) := rfl
  rw [hm, rwa_iff m e hc (m1 * m2) (e1 + e2) 0 1 (by decide) hM]
  simp only [Nat.mul_one, Nat.add_zero]

/-- division as one rounding step with enough bits -/
theorem div_as_rwa (m1 : Nat) (e1 : Int) (m2 : Nat) (e2 : Int) (h1 : 0 < m1) (h2 : 0 < m2) :
    ∃ (sh : Nat) (tE : Int), tE + sh = e1 - e2 ∧ (52 ≤ (m1 * 2 ^ sh / m2).log2 ∨ tE ≤ -1074) ∧
      UnpackedFloat.div Format.binary64 (.finite .positive m1 e1 h1) (.finite .positive m2 e2 h2) =
        roundWithAccuracy Format.binary64 .positive (m1 * 2 ^ sh / m2) tE (accuracyOfFraction (m1 * 2 ^ sh % m2) m2) := by
  generalize htE : min (e1 - e2) (Format.binary64.targetExponent (totalExponent m1 e1 - totalExponent m2 e2)) = tE
  generalize hsh : (e1 - e2 - tE).toNat = sh
  refine ⟨sh, tE, by omega, ?_, ?_⟩
  · by_cases hlow : tE ≤ -1074
    · exact Or.inr hlow
    · left
      have ht : tE ≤ (totalExponent m1 e1 - totalExponent m2 e2) - 53 := by
        simp only [Format.targetExponent, Format.mantissaBits, Format.minExponent] at htE
        omega
      simp only [totalExponent] at ht
      have hsh' : 53 + m2.log2 ≤ m1.log2 + sh := by omega
      have g1 : 2 ^ m1.log2 ≤ m1 := Nat.log2_self_le (by omega)
      have g2 : m2 < 2 ^ (m2.log2 + 1) := Nat.lt_log2_self
      have g3 : 2 ^ (53 + m2.log2) ≤ m1 * 2 ^ sh := by
        calc 2 ^ (53 + m2.log2) ≤ 2 ^ (m1.log2 + sh) := Nat.pow_le_pow_right (by decide) hsh'
          _ = 2 ^ m1.log2 * 2 ^ sh := Nat.pow_add _ _ _
          _ ≤ m1 * 2 ^ sh := Nat.mul_le_mul_right _ g1
      have g4 : 2 ^ 52 * m2 ≤ m1 * 2 ^ sh := by
        have : 2 ^ (53 + m2.log2) = 2 ^ 52 * 2 ^ (m2.log2 + 1) := by rw [← Nat.pow_add]; congr 1; omega
        have : 2 ^ 52 * m2 ≤ 2 ^ 52 * 2 ^ (m2.log2 + 1) := Nat.mul_le_mul_left _ (by omega)
        omega
      have g5 : 2 ^ 52 ≤ m1 * 2 ^ sh / m2 := (Nat.le_div_iff_mul_le h2).mpr g4
      exact (Nat.le_log2 (by omega)).mpr g5
  · simp only [UnpackedFloat.div, divCore, htE, hsh, Nat.shiftLeft_eq]
    rfl

theorem div_pack_iff (m : Nat) (e : Int) (hc : Canon m e) (m1 : Nat) (e1 : Int) (m2 : Nat) (e2 : Int)
    (h1 : 0 < m1) (h2 : 0 < m2) :
    Float.ofModel (Float.Model.pack
      (UnpackedFloat.div Format.binary64 (.finite .positive m1 e1 h1) (.finite .positive m2 e2 h2))) =
      Float.ofModel (Float.Model.pack (.finite .positive m e hc.pos)) ↔ RI m e m2 m1 (e1 - e2) := by
  obtain ⟨sh, tE, hsum, hM, hd⟩ := div_as_rwa m1 e1 m2 e2 h1 h2
  have hN : m1 * 2 ^ sh / m2 * m2 + m1 * 2 ^ sh % m2 = m1 * 2 ^ sh := by
    rw [Nat.mul_comm]; exact Nat.div_add_mod _ _
  rw [hd, rwa_iff m e hc _ tE _ m2 (Nat.mod_lt _ h2) hM, hN, ri_pow, hsum]

theorem ri_scale (m : Nat) (e : Int) (c c' N : Nat) (E g : Int) (hg : c * 2 ^ (-g).toNat = c' * 2 ^ g.toNat) :
    RI m e c N E ↔ RI m e c' N (E - g) := by
  unfold RI
  rw [le2_scale_left _ _ _ _ _ _ _ hg, le2_scale_right _ _ _ _ _ _ _ hg, lt2_scale_left _ _ _ _ _ _ _ hg,
    lt2_scale_right _ _ _ _ _ _ _ hg]

/-- naturals -/
theorem ofNat_iff (m : Nat) (e : Int) (hc : Canon m e) (N : Nat) (hN : 0 < N) :
    Float.ofScientific N false 0 = Float.ofModel (Float.Model.pack (.finite .positive m e hc.pos)) ↔ RI m e 1 N 0 := by
  by_cases hf : N < 2 ^ 53 ∧ 0 ≤ 22
  · rw [ofSci_fast_mul N 0 hf, float_mul_eq, unpack_p10_zero]
    obtain ⟨h1, hu⟩ := toFloat_unpack_canon N hN hf.1
    rw [hu]
    obtain ⟨b1, b2⟩ := pow_bounds_small N hN (by have := (Nat.log2_lt (by omega)).mpr hf.1; omega)
    unfold one
    have hz : -((52 - N.log2 : Nat) : Int) + -52 + ((52 : Nat) : Int) + ((52 - N.log2 : Nat) : Int) = 0 := by omega
    rw [mul_pack_iff m e hc (N * 2 ^ (52 - N.log2)) (-((52 - N.log2 : Nat) : Int)) (2 ^ 52) (-52) h1 (by decide)
      (Or.inl ((Nat.le_log2 (Nat.ne_of_gt (Nat.mul_pos h1 (by decide)))).mpr
        (Nat.le_trans (by decide : 2 ^ 52 ≤ 2 ^ 52 * 2 ^ 52) (Nat.mul_le_mul_right _ b1)))),
      ri_pow, ri_pow, hz]
  · have hbig : 2 ^ 53 ≤ N := by omega
    rw [ofSci_slow N false 0 hf]
    have hN0 : N ≠ 0 := by omega
    have hm1 : 0 < N <<< 53 := by rw [Nat.shiftLeft_eq]; exact Nat.mul_pos hN (by decide)
    have hu : UnpackedFloat.ofScientific Format.binary64 N (if false = true then Int.negOfNat 0 else Int.ofNat 0) =
        UnpackedFloat.mul Format.binary64 (.finite .positive (N <<< 53) (-53) hm1)
          (.finite .positive (10 ^ 0) 0 (by decide)) :=
      uofSci_nonneg N 0 hN0 (by decide) hm1 (by decide)
    rw [hu]
    have e1 : N <<< 53 * 10 ^ 0 = N * 2 ^ 53 := by rw [Nat.shiftLeft_eq]; simp
    rw [mul_pack_iff m e hc (N <<< 53) (-53) (10 ^ 0) 0 hm1 (by decide)
      (Or.inl (by
        rw [e1]
        exact (Nat.le_log2 (Nat.ne_of_gt (Nat.mul_pos hN (by decide)))).mpr
          (Nat.le_trans (by decide : 2 ^ 52 ≤ 1 * 2 ^ 53) (Nat.mul_le_mul_right _ hN)))),
      e1, ri_pow]
    rfl

/-- fractions -/
theorem ofSci_div_iff (m : Nat) (e : Int) (hc : Canon m e) (d k : Nat) (hd : 0 < d) (hk0 : 0 < k) (hk : k ≤ 2048) :
    Float.ofScientific d true k = Float.ofModel (Float.Model.pack (.finite .positive m e hc.pos)) ↔
      RI m e (10 ^ k) d 0 := by
  by_cases hf : d < 2 ^ 53 ∧ k ≤ 22
  · rw [ofSci_fast_div d k hf, float_div_eq]
    obtain ⟨h1, hu⟩ := toFloat_unpack_canon d hd hf.1
    obtain ⟨m2, e2, h2, hp, hg⟩ := unpack_p10 k hf.2
    rw [hu, hp]
    have hz : -((52 - d.log2 : Nat) : Int) - e2 + ((52 - d.log2 : Nat) : Int) = 0 - e2 := by omega
    rw [div_pack_iff m e hc (d * 2 ^ (52 - d.log2)) (-((52 - d.log2 : Nat) : Int)) m2 e2 h1 h2, ri_pow, hz,
      ← ri_scale _ _ _ _ _ _ _ hg]
  · rw [ofSci_slow d true k hf]
    have h2 : 0 < 10 ^ k := Nat.pow_pos (by decide)
    have hu : UnpackedFloat.ofScientific Format.binary64 d (if true = true then Int.negOfNat k else Int.ofNat k) =
        UnpackedFloat.div Format.binary64 (.finite .positive d 0 hd) (.finite .positive (10 ^ k) 0 h2) :=
      uofSci_neg d k (by omega) hk0 hk hd h2
    rw [hu, div_pack_iff m e hc d 0 (10 ^ k) 0 hd h2]
    rfl

/-- **a decimal reads back as the double `m · 2^e` iff it lies in the rounding interval of that double** -/
theorem readBack_iff (m : Nat) (e : Int) (hc : Canon m e) (d : Nat) (s : Int) (hd : 0 < d) (hs : -2048 ≤ s) :
    F64.readBack d s = Float.ofModel (Float.Model.pack (.finite .positive m e hc.pos)) ↔
      Inside m e (asymOf m e) d s := by
  unfold F64.readBack Inside
  by_cases h0 : s ≥ 0
  · have e1 : (-s).toNat = 0 := by omega
    simp only [h0, if_true, F64.pow10]
    rw [ofNat_iff m e hc _ (Nat.mul_pos hd (Nat.pow_pos (by decide)))]
    unfold RI
    simp only [e1, Nat.pow_zero, Nat.mul_one]
  · have e1 : s.toNat = 0 := by omega
    have e2 : (-s).toNat = s.natAbs := by omega
    simp only [h0, if_false]
    rw [ofSci_div_iff m e hc d s.natAbs hd (by omega) (by omega)]
    unfold RI
    simp only [e1, e2, Nat.pow_zero, Nat.mul_one]

end Aplang.FloatText
