import Aplang.Proofs.PosEraseState
import Aplang.Proofs.NativeEqns
/-!
# Native procedures do not depend on argument positions  (property C06)

`callNative env n args spans σ` uses the list `spans` only for the labels of runtime errors (and its *length*
for dispatch) and never looks at the procedure tables: with similar states and span lists of the same length the
results are similar.
-/
namespace Aplang

/-- two lists of the same length have the same shape (up to length 3; longer ones are all alike for the library) -/
theorem same_shape {α} {l₁ l₂ : List α} (h : l₁.length = l₂.length) :
    (l₁ = [] ∧ l₂ = []) ∨ (∃ a b, l₁ = [a] ∧ l₂ = [b]) ∨ (∃ a a' b b', l₁ = [a, a'] ∧ l₂ = [b, b']) ∨
    (∃ a a' a'' b b' b'', l₁ = [a, a', a''] ∧ l₂ = [b, b', b'']) ∨
    (∃ a a' a'' a''' r b b' b'' b''' r', l₁ = a :: a' :: a'' :: a''' :: r ∧ l₂ = b :: b' :: b'' :: b''' :: r') := by
  rcases l₁ with _ | ⟨a, _ | ⟨a', _ | ⟨a'', _ | ⟨a''', r⟩⟩⟩⟩ <;>
  rcases l₂ with _ | ⟨b, _ | ⟨b', _ | ⟨b'', _ | ⟨b''', r'⟩⟩⟩⟩ <;> simp at h <;> simp

/-- leaves of a library procedure: the same result built from similar states -/
macro "nat_leaf " h:term : tactic =>
  `(tactic| first
    | exact RSim.okP $h
    | exact RSim.okP (StSim.emit $h _)
    | exact RSim.okP (StSim.setCell $h _ _)
    | exact RSim.ok (StSim.mkList $h _)
    | exact RSim.okP (StSim.allocCell $h _)
    | exact RSim.okP (StSim.readInput $h _ _)
    | exact RSim.err $h
    | exact RSim.panic rfl
    | exact RSim.panicS $h
    | exact RSim.terminate $h
    | exact RSim.fuel
    | exact StSim.fsFlag $h _ _
    | (refine RSim.ok ⟨rfl, ?_⟩; stsim $h))

macro "nat_step " h:term : tactic =>
  `(tactic| first
    | nat_leaf $h
    | (apply RSim.bindQ (StSim.castNum $h _ _ _); intro _)
    | (apply RSim.bindQ (StSim.castStr $h _ _ _); intro _)
    | (apply RSim.bindQ (StSim.castList $h _ _ _); intro _)
    | (apply RSim.bindQ (StSim.castMap $h _ _ _); intro _)
    | (apply RSim.bindQ (StSim.castRobot $h _ _ _); intro _)
    | (apply RSim.bindQ (QSim.refl _); intro _)
    | split)

/-- one module group of the library: fix the procedure, the shape of the argument list (by the arity) and the
common shape of the two span lists; rewrite with the arm equations; step through casts and leaves -/
macro "nat_sweep " h:term ", " n:ident ", " args:ident ", " hg:ident ", " ha:ident ", " hl:ident : tactic =>
  `(tactic| (
    cases $n:ident <;> first | (exact absurd $hg (by decide)) | skip
    all_goals (simp only [Native.arity, Native.info] at $ha:ident)
    all_goals (rcases $args:ident with _ | ⟨a, _ | ⟨b, _ | ⟨c, _ | ⟨d, args⟩⟩⟩⟩ <;> simp at $ha:ident)
    all_goals (rcases same_shape $hl with ⟨e1, e2⟩ | ⟨s1, t1, e1, e2⟩ | ⟨s1, s2, t1, t2, e1, e2⟩ |
      ⟨s1, s2, s3, t1, t2, t3, e1, e2⟩ | ⟨s1, s2, s3, s4, sr, t1, t2, t3, t4, tr, e1, e2⟩ <;> subst e1 e2)
    all_goals (try simp only [callNative_display, callNative_displayNoln, callNative_input, callNative_insert, callNative_append, callNative_remove,
    callNative_length, callNative_random, callNative_atan2, callNative_log, callNative_clamp, callNative_pi,
    callNative_e, callNative_tau, callNative_sin, callNative_cos, callNative_tan, callNative_asin,
    callNative_acos, callNative_atan, callNative_sinh, callNative_cosh, callNative_tanh, callNative_asinh,
    callNative_acosh, callNative_atanh, callNative_exp, callNative_log10, callNative_log2, callNative_round,
    callNative_floor, callNative_ceil, callNative_int, callNative_moveForward, callNative_moveFoward, callNative_toNumber,
    callNative_toBool, callNative_split, callNative_toUpper, callNative_toLower, callNative_trim, callNative_contains,
    callNative_replace, callNative_startsWith, callNative_endsWith, callNative_join, callNative_substring, callNative_toCharArray,
    callNative_mapNew, callNative_mapInsert, callNative_mapGet, callNative_mapContainsKey, callNative_mapValues, callNative_mapKeys,
    callNative_inputPrompt, callNative_format, callNative_displayf, callNative_style, callNative_clearStyle, callNative_time,
    callNative_sleep, callNative_robotMap, callNative_canMove, callNative_rotateLeft, callNative_rotateRight, callNative_formatRobot,
    callNative_formatRobotAscii, callNative_pathExists, callNative_pathIsFile, callNative_pathIsDirectory, callNative_fileRemove, callNative_fileCreate,
    callNative_fileRead, callNative_fileAppend, callNative_fileOverwrite, callNative_directoryRead, callNative_directoryCreate, callNative_directoryCreateAll,
    callNative_directoryRemove, callNative_directoryRemoveAll])
    all_goals (try simp only [($h).display, ($h).displayAll, ($h).getList, ($h).world, ($h).allocCell_fst,
      ($h).readInput_fst])
    all_goals (repeat' nat_step $h)))

section
variable {σ₁ σ₂ : St} (h : StSim σ₁ σ₂) (env : CharEnv)
include h

theorem callNative_sim_core (n : Native) (args : List Value) (sp₁ sp₂ : List Span) (hg : n.group = .core)
    (ha : args.length = n.arity) (hl : sp₁.length = sp₂.length) :
    VSim (callNative env n args sp₁ σ₁) (callNative env n args sp₂ σ₂) := by
  nat_sweep h, n, args, hg, ha, hl

theorem callNative_sim_math (n : Native) (args : List Value) (sp₁ sp₂ : List Span) (hg : n.group = .math)
    (ha : args.length = n.arity) (hl : sp₁.length = sp₂.length) :
    VSim (callNative env n args sp₁ σ₁) (callNative env n args sp₂ σ₂) := by
  nat_sweep h, n, args, hg, ha, hl

theorem callNative_sim_string (n : Native) (args : List Value) (sp₁ sp₂ : List Span) (hg : n.group = .string)
    (ha : args.length = n.arity) (hl : sp₁.length = sp₂.length) :
    VSim (callNative env n args sp₁ σ₁) (callNative env n args sp₂ σ₂) := by
  nat_sweep h, n, args, hg, ha, hl

theorem callNative_sim_map (n : Native) (args : List Value) (sp₁ sp₂ : List Span) (hg : n.group = .map)
    (ha : args.length = n.arity) (hl : sp₁.length = sp₂.length) :
    VSim (callNative env n args sp₁ σ₁) (callNative env n args sp₂ σ₂) := by
  nat_sweep h, n, args, hg, ha, hl

theorem callNative_sim_io (n : Native) (args : List Value) (sp₁ sp₂ : List Span) (hg : n.group = .io)
    (ha : args.length = n.arity) (hl : sp₁.length = sp₂.length) :
    VSim (callNative env n args sp₁ σ₁) (callNative env n args sp₂ σ₂) := by
  nat_sweep h, n, args, hg, ha, hl

theorem callNative_sim_style (n : Native) (args : List Value) (sp₁ sp₂ : List Span) (hg : n.group = .style)
    (ha : args.length = n.arity) (hl : sp₁.length = sp₂.length) :
    VSim (callNative env n args sp₁ σ₁) (callNative env n args sp₂ σ₂) := by
  nat_sweep h, n, args, hg, ha, hl

theorem callNative_sim_time (n : Native) (args : List Value) (sp₁ sp₂ : List Span) (hg : n.group = .time)
    (ha : args.length = n.arity) (hl : sp₁.length = sp₂.length) :
    VSim (callNative env n args sp₁ σ₁) (callNative env n args sp₂ σ₂) := by
  nat_sweep h, n, args, hg, ha, hl

theorem callNative_sim_robot (n : Native) (args : List Value) (sp₁ sp₂ : List Span) (hg : n.group = .robot)
    (ha : args.length = n.arity) (hl : sp₁.length = sp₂.length) :
    VSim (callNative env n args sp₁ σ₁) (callNative env n args sp₂ σ₂) := by
  nat_sweep h, n, args, hg, ha, hl

theorem callNative_sim_fs (n : Native) (args : List Value) (sp₁ sp₂ : List Span) (hg : n.group = .fs)
    (ha : args.length = n.arity) (hl : sp₁.length = sp₂.length) :
    VSim (callNative env n args sp₁ σ₁) (callNative env n args sp₂ σ₂) := by
  nat_sweep h, n, args, hg, ha, hl

/-- **a library procedure does not depend on where its arguments stand, nor on stored procedure bodies** -/
theorem callNative_sim (n : Native) (args : List Value) (sp₁ sp₂ : List Span)
    (ha : args.length = n.arity) (hl : sp₁.length = sp₂.length) :
    VSim (callNative env n args sp₁ σ₁) (callNative env n args sp₂ σ₂) := by
  cases hg : n.group
  · exact callNative_sim_core h env n args sp₁ sp₂ hg ha hl
  · exact callNative_sim_math h env n args sp₁ sp₂ hg ha hl
  · exact callNative_sim_string h env n args sp₁ sp₂ hg ha hl
  · exact callNative_sim_map h env n args sp₁ sp₂ hg ha hl
  · exact callNative_sim_io h env n args sp₁ sp₂ hg ha hl
  · exact callNative_sim_style h env n args sp₁ sp₂ hg ha hl
  · exact callNative_sim_time h env n args sp₁ sp₂ hg ha hl
  · exact callNative_sim_robot h env n args sp₁ sp₂ hg ha hl
  · exact callNative_sim_fs h env n args sp₁ sp₂ hg ha hl

end

end Aplang
