import Aplang.Model.Natives
/-!
# Lemmas on the file-system model (`Aplang.Fs`): lookup after `put` / `erase` / `eraseUnder`,
the fold of `dirCreateAll`, the no-duplicate-paths invariant, path resolution with `..` (`resolve`),
and the model as it was before `..` was brought in (`Aplang.Fs.Lexical`) with the proof that the two
agree on every path string without a `..` component.
-/
namespace Aplang.Fs

/-! ## lookup in an association list after filtering -/

theorem list_find?_congr {α} {f g : α → Bool} : ∀ (l : List α), (∀ a ∈ l, f a = g a) → l.find? f = l.find? g
  | [], _ => rfl
  | a :: l, h => by
    have ha : f a = g a := h a (by simp)
    have ih := list_find?_congr l (fun b hb => h b (by simp [hb]))
    simp only [List.find?_cons, ha, ih]

theorem find?_filter_ne (t : Tree) (p q : Path) (h : q ≠ p) :
    List.find? (fun e => e.1 == q) (List.filter (fun e => e.1 != p) t) = List.find? (fun e => e.1 == q) t := by
  rw [List.find?_filter]
  apply list_find?_congr
  intro e _
  by_cases heq : e.1 = q
  · simp [heq, h]
  · simp [heq]

theorem find?_filter_self (t : Tree) (p : Path) :
    List.find? (fun e => e.1 == p) (List.filter (fun e => e.1 != p) t) = none := by
  simp [List.find?_eq_none]

theorem find?_put (t : Tree) (p : Path) (n : FsNode) (q : Path) :
    find? (put t p n) q = if q = [] then some .dir else if q = p then some n else find? t q := by
  unfold find? put
  by_cases hq : q = []
  · simp [hq]
  · by_cases hp : q = p
    · subst hp
      simp [hq]
    · have hp' : ¬ p = q := fun h => hp h.symm
      simp only [beq_iff_eq, hq, ↓reduceIte, hp]
      rw [List.find?_cons_of_neg (by simpa using hp'), find?_filter_ne t p q hp]

theorem find?_erase (t : Tree) (p q : Path) :
    find? (erase t p) q = if q = [] then some .dir else if q = p then none else find? t q := by
  unfold find? erase
  by_cases hq : q = []
  · simp [hq]
  · by_cases hp : q = p
    · subst hp
      simp only [beq_iff_eq, hq, ↓reduceIte]
      rw [find?_filter_self]; rfl
    · simp only [beq_iff_eq, hq, ↓reduceIte, hp]
      rw [find?_filter_ne t p q hp]

theorem find?_eraseUnder (t : Tree) (p q : Path) :
    find? (eraseUnder t p) q =
      if q = [] then some .dir else if p.isPrefixOf q = true then none else find? t q := by
  unfold find? eraseUnder
  by_cases hq : q = []
  · simp [hq]
  · simp only [beq_iff_eq, hq, ↓reduceIte]
    by_cases hp : p.isPrefixOf q = true
    · simp only [hp, ↓reduceIte]
      have : List.find? (fun e => e.1 == q) (List.filter (fun e => !(p.isPrefixOf e.1)) t) = none := by
        simp only [List.find?_eq_none, List.mem_filter, beq_iff_eq]
        rintro e ⟨_, he⟩ heq
        rw [heq, hp] at he; simp at he
      rw [this]; rfl
    · simp only [hp, Bool.false_eq_true, ↓reduceIte]
      congr 1
      rw [List.find?_filter]
      apply list_find?_congr
      intro e _
      by_cases heq : e.1 = q
      · simp [heq, hp]
      · simp [heq]

theorem find?_nil (t : Tree) : find? t [] = some .dir := by simp [find?]

/-! ## `prefixes` -/

theorem ne_nil_of_mem_prefixes {p q : Path} (h : q ∈ prefixes p) : q ≠ [] := by
  cases p with
  | nil => simp [prefixes] at h
  | cons c cs =>
    simp only [prefixes, List.mem_cons, List.mem_map] at h
    rcases h with h | ⟨r, _, h⟩
    · rw [h]; simp
    · rw [← h]; simp

theorem mem_prefixes_iff {p q : Path} : q ∈ prefixes p ↔ q ≠ [] ∧ q.isPrefixOf p = true := by
  induction p generalizing q with
  | nil => cases q <;> simp [prefixes, List.isPrefixOf]
  | cons c cs ih =>
    cases q with
    | nil => simp [prefixes]
    | cons d ds =>
      simp only [prefixes, List.mem_cons, List.mem_map, List.cons.injEq, ne_eq, reduceCtorEq,
        not_false_eq_true, List.isPrefixOf, Bool.and_eq_true, beq_iff_eq, true_and]
      constructor
      · rintro (⟨rfl, rfl⟩ | ⟨r, hr, rfl, rfl⟩)
        · simp [List.isPrefixOf]
        · exact ⟨rfl, (ih.1 hr).2⟩
      · rintro ⟨rfl, h⟩
        by_cases hds : ds = []
        · left; exact ⟨rfl, hds⟩
        · right; exact ⟨ds, ih.2 ⟨hds, h⟩, rfl, rfl⟩

/-! ## the fold of `dirCreateAll` -/

theorem find?_mkdirStep (t : Tree) (a q : Path) (ha : a ≠ []) :
    find? (mkdirStep t a) q = if q = a ∧ find? t q = none then some .dir else find? t q := by
  unfold mkdirStep pathExists
  cases h : find? t a with
  | some n =>
    simp only [Option.isSome_some, ↓reduceIte]
    by_cases hq : q = a
    · subst hq; simp [h]
    · simp [hq]
  | none =>
    simp only [Option.isSome_none, Bool.false_eq_true, ↓reduceIte, find?_put]
    by_cases hq : q = a
    · subst hq; simp [h, ha]
    · simp only [hq, ↓reduceIte, false_and]
      split
      · next hq' => rw [hq']; exact (find?_nil t).symm
      · rfl

theorem find?_foldl_mkdir (qs : List Path) (hqs : ∀ a ∈ qs, a ≠ []) (t : Tree) (q : Path) :
    find? (qs.foldl mkdirStep t) q = if q ∈ qs ∧ find? t q = none then some .dir else find? t q := by
  induction qs generalizing t with
  | nil => simp
  | cons a as ih =>
    have ha : a ≠ [] := hqs a (by simp)
    rw [List.foldl_cons, ih (fun b hb => hqs b (by simp [hb])), find?_mkdirStep t a q ha]
    by_cases hqa : q = a
    · subst hqa
      cases hf : find? t q with
      | none => simp
      | some n => simp
    · simp [hqa]

/-! ## no duplicate paths -/

/-- every path occurs at most once in the association list -/
def NoDupPaths (t : Tree) : Prop := (t.map (·.1)).Nodup

theorem noDup_filter (t : Tree) (f : Path × FsNode → Bool) (h : NoDupPaths t) : NoDupPaths (t.filter f) := by
  unfold NoDupPaths at *
  exact List.Nodup.sublist (List.Sublist.map _ List.filter_sublist) h

theorem noDup_put (t : Tree) (p : Path) (n : FsNode) (h : NoDupPaths t) : NoDupPaths (put t p n) := by
  unfold put
  have h' := noDup_filter t (fun e => e.1 != p) h
  unfold NoDupPaths at *
  simp only [List.map_cons, List.nodup_cons, h', and_true, List.mem_map, List.mem_filter]
  rintro ⟨e, ⟨_, he⟩, heq⟩
  simp [heq] at he

theorem noDup_erase (t : Tree) (p : Path) (h : NoDupPaths t) : NoDupPaths (erase t p) := noDup_filter t _ h
theorem noDup_eraseUnder (t : Tree) (p : Path) (h : NoDupPaths t) : NoDupPaths (eraseUnder t p) := noDup_filter t _ h

theorem noDup_mkdirStep (t : Tree) (q : Path) (h : NoDupPaths t) : NoDupPaths (mkdirStep t q) := by
  unfold mkdirStep; split
  · exact h
  · exact noDup_put t q .dir h

theorem noDup_foldl_mkdir (qs : List Path) (t : Tree) (h : NoDupPaths t) : NoDupPaths (qs.foldl mkdirStep t) := by
  induction qs generalizing t with
  | nil => exact h
  | cons a as ih => exact ih _ (noDup_mkdirStep t a h)

theorem find?_eraseBelow (t : Tree) (p q : Path) :
    find? (eraseBelow t p) q =
      if q = [] then some .dir else if p.isPrefixOf q = true ∧ q ≠ p then none else find? t q := by
  unfold find? eraseBelow
  by_cases hq : q = []
  · simp [hq]
  · simp only [beq_iff_eq, hq, ↓reduceIte]
    by_cases hp : p.isPrefixOf q = true ∧ q ≠ p
    · simp only [hp, ne_eq, not_false_eq_true, and_self, ↓reduceIte]
      have : List.find? (fun e => e.1 == q)
          (List.filter (fun e => (e.1 == p && e.1 != []) || !(p.isPrefixOf e.1)) t) = none := by
        simp only [List.find?_eq_none, List.mem_filter, beq_iff_eq]
        rintro e ⟨_, he⟩ heq
        rw [heq, hp.1] at he
        simp [hp.2] at he
      rw [this]; rfl
    · rw [if_neg hp]
      congr 1
      rw [List.find?_filter]
      apply list_find?_congr
      intro e _
      by_cases heq : e.1 = q
      · simp only [heq, beq_self_eq_true]
        by_cases hpre : p.isPrefixOf q = true
        · have : q = p := Classical.not_not.1 fun hne => hp ⟨hpre, hne⟩
          subst this
          simp [hq]
        · simp [hpre]
      · simp [heq]

theorem eraseBelow_nil (t : Tree) : eraseBelow t [] = [] := by
  unfold eraseBelow
  rw [List.filter_eq_nil_iff]
  intro e _
  simp [List.isPrefixOf]

theorem noDup_eraseBelow (t : Tree) (p : Path) (h : NoDupPaths t) : NoDupPaths (eraseBelow t p) := noDup_filter t _ h

/-! ## `isDir` / `isFile` / `pathExists` through `find?` -/

theorem isDir_iff (t : Tree) (p : Path) : isDir t p = true ↔ find? t p = some .dir := by
  unfold isDir
  cases find? t p with
  | none => simp
  | some n => cases n <;> simp

theorem isFile_iff (t : Tree) (p : Path) : isFile t p = true ↔ ∃ c, find? t p = some (.file c) := by
  unfold isFile
  cases find? t p with
  | none => simp
  | some n => cases n <;> simp

theorem isDir_congr {t t' : Tree} {p : Path} (h : find? t' p = find? t p) : isDir t' p = isDir t p := by
  unfold isDir; rw [h]

theorem isDir_nil (t : Tree) : isDir t [] = true := by simp [isDir, find?_nil]

/-- a file is an entry of the association list -/
theorem mem_of_find?_file {t : Tree} {p : Path} {c : Str} (h : find? t p = some (.file c)) :
    (p, FsNode.file c) ∈ t := by
  unfold find? at h
  split at h
  · cases h
  · cases hf : List.find? (fun e => e.1 == p) t with
    | none => simp [hf] at h
    | some e =>
      simp only [hf, Option.map_some, Option.some.injEq] at h
      have hm := List.mem_of_find?_eq_some hf
      have hp := List.find?_some hf
      simp only [beq_iff_eq] at hp
      obtain ⟨e1, e2⟩ := e
      simp only at hp h
      subst hp; subst h
      exact hm

theorem dropLast_append_of_getLast? {α} {l : List α} {a : α} (h : l.getLast? = some a) : l.dropLast ++ [a] = l := by
  obtain ⟨ys, rfl⟩ := List.getLast?_eq_some_iff.1 h
  simp

theorem isDir_put_file (t : Tree) (p : Path) (c : Str) (q : Path) (h : isDir t p = false) :
    isDir (put t p (.file c)) q = isDir t q := by
  unfold isDir at *
  rw [find?_put]
  by_cases h0 : q = []
  · subst h0; simp [find?_nil]
  · by_cases hq : q = p
    · subst hq; simp only [h0, ↓reduceIte]; rw [h]
    · simp only [h0, hq, ↓reduceIte]

theorem isDir_erase_of_not_dir (t : Tree) (p q : Path) (h : isDir t p = false) :
    isDir (erase t p) q = isDir t q := by
  unfold isDir at *
  rw [find?_erase]
  by_cases h0 : q = []
  · subst h0; simp [find?_nil]
  · by_cases hq : q = p
    · subst hq; simp only [h0, ↓reduceIte]; rw [h]
    · simp only [h0, hq, ↓reduceIte]

/-! ## path resolution -/

theorem not_mem_of_noDotDot {s : Str} (h : noDotDot s = true) : dotdot ∉ components s := by
  unfold noDotDot at h
  simpa using h

theorem noDotDot_of_not_mem {s : Str} (h : dotdot ∉ components s) : noDotDot s = true := by
  unfold noDotDot
  simpa using h

theorem resolveFrom_of_not_mem (t : Tree) (cur : Path) (cs : List Str) (h : dotdot ∉ cs) :
    resolveFrom t cur cs = some (cur ++ cs) := by
  induction cs generalizing cur with
  | nil => simp [resolveFrom]
  | cons c cs ih =>
    have hc : (c == dotdot) = false := by
      simp only [beq_eq_false_iff_ne, ne_eq]
      intro e; exact h (by simp [e])
    have hcs : dotdot ∉ cs := fun e => h (by simp [e])
    simp only [resolveFrom, hc, Bool.false_eq_true, ↓reduceIte]
    rw [ih _ hcs]; simp

/-- without a `..` component a path string names its components -/
theorem resolve_eq_components (t : Tree) (s : Str) (h : noDotDot s = true) :
    resolve t s = some (components s) := by
  unfold resolve
  rw [resolveFrom_of_not_mem t [] _ (not_mem_of_noDotDot h)]; simp

theorem endsDotDot_of_noDotDot {s : Str} (h : noDotDot s = true) : endsDotDot s = false := by
  unfold endsDotDot
  cases hl : (components s).getLast? with
  | none => rfl
  | some x =>
    have hx : x ∈ components s := List.mem_of_getLast? hl
    have : x ≠ dotdot := fun e => not_mem_of_noDotDot h (e ▸ hx)
    simp [this]

theorem noDotDot_of_plain {s : Str} (h : plain s = true) : noDotDot s = true := by
  unfold plain at h; simp only [Bool.and_eq_true] at h; exact h.1

theorem endsDot_of_plain {s : Str} (h : plain s = true) : endsDot s = false := by
  unfold plain at h; simp only [Bool.and_eq_true] at h; simpa using h.2

theorem lastDots_of {s : Str} (hnd : noDotDot s = true) (hdot : endsDot s = false) : lastDots s = false := by
  simp [lastDots, hdot, endsDotDot_of_noDotDot hnd]

theorem lastDots_of_plain {s : Str} (h : plain s = true) : lastDots s = false :=
  lastDots_of (noDotDot_of_plain h) (endsDot_of_plain h)

theorem dirOnly_of {s : Str} (hnd : noDotDot s = true) (hdot : endsDot s = false) : dirOnly s = trailingSlash s := by
  simp [dirOnly, lastDots_of hnd hdot]

theorem dirOnly_of_plain {s : Str} (h : plain s = true) : dirOnly s = trailingSlash s :=
  dirOnly_of (noDotDot_of_plain h) (endsDot_of_plain h)

theorem lastMustExist_of_plain {s : Str} (h : plain s = true) : lastMustExist s = false := by
  simp [lastMustExist, endsDot_of_plain h]

theorem noDotDot_of_lexicalOK {s : Str} (h : lexicalOK s = true) : noDotDot s = true := by
  unfold lexicalOK at h; simp only [Bool.and_eq_true] at h; exact h.1

/-- a string on which the model is the lexical one has no `..` and no final `.`, or has no name in it -/
theorem lexicalOK_cases {s : Str} (h : lexicalOK s = true) :
    (noDotDot s = true ∧ endsDot s = false) ∨ (noDotDot s = true ∧ components s = []) := by
  unfold lexicalOK at h
  simp only [Bool.and_eq_true, Bool.or_eq_true, Bool.not_eq_eq_eq_not, Bool.not_true, beq_iff_eq] at h
  rcases h.2 with h2 | h2
  · exact Or.inl ⟨h.1, h2⟩
  · exact Or.inr ⟨h.1, h2⟩

theorem lexicalOK_of_plain {s : Str} (h : plain s = true) : lexicalOK s = true := by
  simp [lexicalOK, noDotDot_of_plain h, endsDot_of_plain h]

theorem lastMustExist_of_lexicalOK {s : Str} (h : lexicalOK s = true) : lastMustExist s = false := by
  rcases lexicalOK_cases h with ⟨_, h2⟩ | ⟨_, h2⟩
  · simp [lastMustExist, h2]
  · simp [lastMustExist, h2]

theorem resolveFrom_append (t : Tree) (cur : Path) (a b : List Str) :
    resolveFrom t cur (a ++ b) = (resolveFrom t cur a).bind fun q => resolveFrom t q b := by
  induction a generalizing cur with
  | nil => simp [resolveFrom]
  | cons c cs ih =>
    simp only [List.cons_append, resolveFrom]
    split
    · split
      · exact ih _
      · rfl
    · exact ih _

/-- resolution looks at the tree only through `isDir` -/
theorem resolveFrom_congr {t t' : Tree} (h : ∀ q, isDir t' q = isDir t q) (cur : Path) (cs : List Str) :
    resolveFrom t' cur cs = resolveFrom t cur cs := by
  induction cs generalizing cur with
  | nil => rfl
  | cons c cs ih => simp only [resolveFrom, h, ih]

theorem resolve_congr {t t' : Tree} (h : ∀ q, isDir t' q = isDir t q) (s : Str) : resolve t' s = resolve t s :=
  resolveFrom_congr h _ _

/-- a path string that resolves in a tree with fewer directories resolves to the same path in the larger one -/
theorem resolveFrom_mono {t t' : Tree} (h : ∀ q, isDir t' q = true → isDir t q = true) (cur : Path)
    (cs : List Str) (p : Path) (hr : resolveFrom t' cur cs = some p) : resolveFrom t cur cs = some p := by
  induction cs generalizing cur with
  | nil => exact hr
  | cons c cs ih =>
    simp only [resolveFrom] at hr ⊢
    split at hr
    · next hc =>
      rw [if_pos hc]
      split at hr
      · next hd => rw [if_pos (h _ hd)]; exact ih _ hr
      · cases hr
    · next hc => rw [if_neg hc]; exact ih _ hr

theorem resolve_mono {t t' : Tree} (h : ∀ q, isDir t' q = true → isDir t q = true) (s : Str) (p : Path)
    (hr : resolve t' s = some p) : resolve t s = some p := resolveFrom_mono h _ _ _ hr

/-- `..` from an existing directory: its parent -/
theorem resolveFrom_dotdot (t : Tree) (cur : Path) (h : isDir t cur = true) :
    resolveFrom t cur [dotdot] = some (parent cur) := by
  simp [resolveFrom, h]

/-- `..` from anything else: nothing -/
theorem resolveFrom_dotdot_none (t : Tree) (cur : Path) (cs : List Str) (h : isDir t cur = false) :
    resolveFrom t cur (dotdot :: cs) = none := by
  simp [resolveFrom, h]

/-- the content of a file that can be read is the content of an entry of the tree -/
theorem fileRead_mem (t : Tree) (s c : Str) (h : fileRead t s = some c) : ∃ p, (p, FsNode.file c) ∈ t := by
  unfold fileRead at h
  cases hr : resolve t s with
  | none => rw [hr] at h; cases h
  | some p =>
    rw [hr] at h
    simp only [] at h
    unfold fileReadAt at h
    split at h
    · cases h
    · split at h
      · next c' hf => cases h; exact ⟨p, mem_of_find?_file hf⟩
      · cases h

/-! ## splitting a path string at a `/` -/

theorem splitSlash_ne_nil (s : Str) : splitSlash s ≠ [] := by
  cases s with
  | nil => simp [splitSlash]
  | cons c cs =>
    unfold splitSlash
    split
    · simp
    · split <;> simp

theorem splitSlash_append_slash (a b : Str) : splitSlash (a ++ '/' :: b) = splitSlash a ++ splitSlash b := by
  induction a with
  | nil => simp [splitSlash]
  | cons c cs ih =>
    simp only [List.cons_append]
    rw [splitSlash, splitSlash, ih]
    split
    · rfl
    · cases hs : splitSlash cs with
      | nil => exact absurd hs (splitSlash_ne_nil cs)
      | cons h tl => rfl

theorem components_append_slash (a b : Str) : components (a ++ '/' :: b) = components a ++ components b := by
  unfold components
  rw [splitSlash_append_slash, List.filter_append]

/-- the path string `d/../x` -/
def upFrom (d x : Str) : Str := d ++ '/' :: (dotdot ++ '/' :: x)

theorem components_upFrom (d x : Str) : components (upFrom d x) = components d ++ dotdot :: components x := by
  unfold upFrom
  rw [components_append_slash, components_append_slash]
  rfl

/-- the non-empty components as written (`.` included) -/
def rawComponents (s : Str) : List Str := (splitSlash s).filter (fun c => c != [])

theorem endsDot_eq (s : Str) : endsDot s = ((rawComponents s).getLast? == some ['.']) := rfl

theorem rawComponents_append_slash (a b : Str) :
    rawComponents (a ++ '/' :: b) = rawComponents a ++ rawComponents b := by
  unfold rawComponents
  rw [splitSlash_append_slash, List.filter_append]

theorem rawComponents_ne_nil_of_components {x : Str} (h : components x ≠ []) : rawComponents x ≠ [] := by
  intro e
  apply h
  unfold rawComponents at e
  unfold components
  rw [List.filter_eq_nil_iff] at e ⊢
  intro c hc
  have := e c hc
  simp_all

theorem endsDot_append_slash (a b : Str) (hb : rawComponents b ≠ []) : endsDot (a ++ '/' :: b) = endsDot b := by
  rw [endsDot_eq, endsDot_eq, rawComponents_append_slash, List.getLast?_append]
  cases hl : (rawComponents b).getLast? with
  | none => exact absurd (List.getLast?_eq_none_iff.1 hl) hb
  | some c => rfl

theorem endsDot_upFrom (d x : Str) (hx : components x ≠ []) : endsDot (upFrom d x) = endsDot x := by
  have hr := rawComponents_ne_nil_of_components hx
  unfold upFrom
  rw [endsDot_append_slash _ _ (by rw [rawComponents_append_slash]; simp [hr]), endsDot_append_slash _ _ hr]

/-! ## `mkdirVisits` -/

theorem mkdirVisits_of_not_mem (cur : Path) (cs : List Str) (h : dotdot ∉ cs) :
    mkdirVisits cur cs = (prefixes cs).map (cur ++ ·) := by
  induction cs generalizing cur with
  | nil => rfl
  | cons c cs ih =>
    have hc : (c == dotdot) = false := by
      simp only [beq_eq_false_iff_ne, ne_eq]
      intro e; exact h (by simp [e])
    have hcs : dotdot ∉ cs := fun e => h (by simp [e])
    simp only [mkdirVisits, hc, Bool.false_eq_true, ↓reduceIte, prefixes, List.map_cons, List.map_map]
    rw [ih _ hcs]
    congr 1
    apply List.map_congr_left
    intro x _
    simp

theorem mkdirVisits_eq_prefixes (s : Str) (h : noDotDot s = true) :
    mkdirVisits [] (components s) = prefixes (components s) := by
  rw [mkdirVisits_of_not_mem [] _ (not_mem_of_noDotDot h)]
  simp

theorem mkdirVisits_append (cur : Path) (a b : List Str) :
    mkdirVisits cur (a ++ b) = mkdirVisits cur a ++
      mkdirVisits (a.foldl (fun q c => if c == dotdot then parent q else q ++ [c]) cur) b := by
  induction a generalizing cur with
  | nil => rfl
  | cons c cs ih =>
    simp only [List.cons_append, mkdirVisits, List.foldl_cons]
    split
    · exact ih _
    · rw [ih]; rfl

theorem ne_nil_of_mem_mkdirVisits {cur : Path} {cs : List Str} {q : Path} (h : q ∈ mkdirVisits cur cs) :
    q ≠ [] := by
  induction cs generalizing cur with
  | nil => simp [mkdirVisits] at h
  | cons c cs ih =>
    simp only [mkdirVisits] at h
    split at h
    · exact ih h
    · rcases List.mem_cons.1 h with h | h
      · rw [h]; simp
      · exact ih h

/-- in `prefixes p` what comes before an element is a prefix of it -/
theorem prefixes_split {p : Path} {l1 l2 : List Path} {f : Path} (h : prefixes p = l1 ++ f :: l2) :
    ∀ q ∈ l1, q.isPrefixOf f = true := by
  induction p generalizing l1 l2 f with
  | nil => simp [prefixes] at h
  | cons c cs ih =>
    simp only [prefixes] at h
    cases l1 with
    | nil => simp
    | cons a l1' =>
      simp only [List.cons_append, List.cons.injEq] at h
      obtain ⟨ha, h⟩ := h
      obtain ⟨m1, m2, hcs, hm1, hm2⟩ := List.map_eq_append_iff.1 h
      cases m2 with
      | nil => simp at hm2
      | cons f' m2' =>
        simp only [List.map_cons, List.cons.injEq] at hm2
        obtain ⟨hf, _⟩ := hm2
        intro q hq
        rcases List.mem_cons.1 hq with hq | hq
        · rw [hq, ← ha, ← hf]; simp [List.isPrefixOf]
        · rw [← hm1] at hq
          obtain ⟨q', hq', rfl⟩ := List.mem_map.1 hq
          rw [← hf]
          simp only [List.isPrefixOf, beq_self_eq_true, Bool.true_and]
          exact ih hcs q' hq'

theorem takeWhile_append_stop {α} (q : α → Bool) (as : List α) (b : α) (bs : List α)
    (has : ∀ a ∈ as, q a = true) (hb : q b = false) : (as ++ b :: bs).takeWhile q = as := by
  induction as with
  | nil => simp [hb]
  | cons a as ih =>
    simp only [List.cons_append, List.takeWhile_cons, has a (by simp), ↓reduceIte, List.cons.injEq, true_and]
    exact ih fun x hx => has x (by simp [hx])

/-! ## the model before `..`: every path string is read lexically (`..` an ordinary name) -/

namespace Lexical

def existsS (t : Tree) (s : Str) : Bool :=
  s != [] && (if trailingSlash s then isDir t (components s) else pathExists t (components s))
def isFileS (t : Tree) (s : Str) : Bool := s != [] && !trailingSlash s && isFile t (components s)
def isDirS (t : Tree) (s : Str) : Bool := s != [] && isDir t (components s)

def fileCreate (t : Tree) (s : Str) : Tree × Bool :=
  let p := components s
  if s == [] || trailingSlash s || p == [] || pathExists t p || !isDir t (parent p) then (t, false)
  else (put t p (.file []), true)

def fileRemove (t : Tree) (s : Str) : Tree × Bool :=
  let p := components s
  if s != [] && !trailingSlash s && isFile t p then (erase t p, true) else (t, false)

def fileRead (t : Tree) (s : Str) : Option Str :=
  if s == [] || trailingSlash s then none else
  match find? t (components s) with
  | some (.file c) => some c
  | _ => none

def fileAppend (t : Tree) (s : Str) (text : Str) : Tree × Bool :=
  let p := components s
  if s == [] || trailingSlash s then (t, false) else
  match find? t p with
  | some (.file c) => (put t p (.file (c ++ text)), true)
  | _ => (t, false)

def fileOverwrite (t : Tree) (s : Str) (text : Str) : Tree × Bool :=
  let p := components s
  if s == [] || trailingSlash s then (t, false) else
  match find? t p with
  | some (.file _) => (put t p (.file text), true)
  | _ => (t, false)

def dirCreate (t : Tree) (s : Str) : Tree × Bool :=
  let p := components s
  if s == [] || p == [] || pathExists t p || !isDir t (parent p) then (t, false)
  else (put t p .dir, true)

def dirCreateAll (t : Tree) (s : Str) : Tree × Bool :=
  let p := components s
  if (prefixes p).any (fun q => isFile t q) then (t, false)
  else ((prefixes p).foldl (fun acc q => if pathExists acc q then acc else put acc q .dir) t, true)

def dirRemove (t : Tree) (s : Str) : Tree × Bool :=
  let p := components s
  if s != [] && p != [] && isDir t p && (children t p).isEmpty then (erase t p, true) else (t, false)

def dirRemoveAll (t : Tree) (s : Str) : Tree × Bool :=
  let p := components s
  if s != [] && p != [] && isDir t p then (eraseUnder t p, true)
  else if s != [] && p == [] then ([], false)
  else (t, false)

def dirRead (t : Tree) (s : Str) : Option (List Str) :=
  let p := components s
  if s == [] || !isDir t p then none else
  let base : Str := if s.getLast? == some '/' then s else s ++ ['/']
  some ((children t p).map fun q => base ++ (q.getLast?.getD []))

end Lexical

/-! ## on `lexicalOK` strings the model is the lexical one

`lexicalOK s`: no `..` component, and a last component `.` only when the string has no name in it at all.
(For the other strings the two differ: `Lexical` reads `d/..` as a name and `g/.` as `g`.) -/

section
variable (t : Tree) (s : Str) (h : lexicalOK s = true)
include h

theorem existsS_eq_lexical : existsS t s = Lexical.existsS t s := by
  rcases lexicalOK_cases h with ⟨hnd, hdot⟩ | ⟨hnd, hc⟩
  · simp [existsS, Lexical.existsS, existsAt, resolve_eq_components t s hnd, dirOnly_of hnd hdot]
  · simp [existsS, Lexical.existsS, existsAt, resolve_eq_components t s hnd, hc, isDir_nil, pathExists, find?_nil]
theorem isFileS_eq_lexical : isFileS t s = Lexical.isFileS t s := by
  rcases lexicalOK_cases h with ⟨hnd, hdot⟩ | ⟨hnd, hc⟩
  · simp [isFileS, Lexical.isFileS, isFileAt, resolve_eq_components t s hnd, dirOnly_of hnd hdot]
  · simp [isFileS, Lexical.isFileS, isFileAt, resolve_eq_components t s hnd, hc, isFile, find?_nil]
theorem isDirS_eq_lexical : isDirS t s = Lexical.isDirS t s := by
  simp [isDirS, Lexical.isDirS, isDirAt, resolve_eq_components t s (noDotDot_of_lexicalOK h)]
theorem fileCreate_eq_lexical : fileCreate t s = Lexical.fileCreate t s := by
  rcases lexicalOK_cases h with ⟨hnd, hdot⟩ | ⟨hnd, hc⟩
  · simp [fileCreate, Lexical.fileCreate, fileCreateAt, resolve_eq_components t s hnd, dirOnly_of hnd hdot]
  · simp [fileCreate, Lexical.fileCreate, fileCreateAt, resolve_eq_components t s hnd, hc]
theorem fileRemove_eq_lexical : fileRemove t s = Lexical.fileRemove t s := by
  rcases lexicalOK_cases h with ⟨hnd, hdot⟩ | ⟨hnd, hc⟩
  · simp [fileRemove, Lexical.fileRemove, fileRemoveAt, resolve_eq_components t s hnd, dirOnly_of hnd hdot]
  · simp [fileRemove, Lexical.fileRemove, fileRemoveAt, resolve_eq_components t s hnd, hc, isFile, find?_nil]
theorem fileRead_eq_lexical : fileRead t s = Lexical.fileRead t s := by
  rcases lexicalOK_cases h with ⟨hnd, hdot⟩ | ⟨hnd, hc⟩
  · simp [fileRead, Lexical.fileRead, fileReadAt, resolve_eq_components t s hnd, dirOnly_of hnd hdot]
    split
    · rfl
    · cases find? t (components s) with
      | none => rfl
      | some n => cases n <;> rfl
  · simp [fileRead, Lexical.fileRead, fileReadAt, resolve_eq_components t s hnd, hc, find?_nil]
theorem fileAppend_eq_lexical (text : Str) : fileAppend t s text = Lexical.fileAppend t s text := by
  rcases lexicalOK_cases h with ⟨hnd, hdot⟩ | ⟨hnd, hc⟩
  · simp [fileAppend, Lexical.fileAppend, fileAppendAt, resolve_eq_components t s hnd, dirOnly_of hnd hdot]
    split
    · rfl
    · cases find? t (components s) with
      | none => rfl
      | some n => cases n <;> rfl
  · simp [fileAppend, Lexical.fileAppend, fileAppendAt, resolve_eq_components t s hnd, hc, find?_nil]
theorem fileOverwrite_eq_lexical (text : Str) : fileOverwrite t s text = Lexical.fileOverwrite t s text := by
  rcases lexicalOK_cases h with ⟨hnd, hdot⟩ | ⟨hnd, hc⟩
  · simp [fileOverwrite, Lexical.fileOverwrite, fileOverwriteAt, resolve_eq_components t s hnd, dirOnly_of hnd hdot]
    split
    · rfl
    · cases find? t (components s) with
      | none => rfl
      | some n => cases n <;> rfl
  · simp [fileOverwrite, Lexical.fileOverwrite, fileOverwriteAt, resolve_eq_components t s hnd, hc, find?_nil]
theorem dirCreate_eq_lexical : dirCreate t s = Lexical.dirCreate t s := by
  rcases lexicalOK_cases h with ⟨hnd, hdot⟩ | ⟨hnd, hc⟩
  · simp [dirCreate, Lexical.dirCreate, dirCreateAt, resolve_eq_components t s hnd, lastDots_of hnd hdot]
  · simp [dirCreate, Lexical.dirCreate, dirCreateAt, resolve_eq_components t s hnd, hc]
theorem dirRemove_eq_lexical : dirRemove t s = Lexical.dirRemove t s := by
  rcases lexicalOK_cases h with ⟨hnd, hdot⟩ | ⟨hnd, hc⟩
  · simp [dirRemove, Lexical.dirRemove, dirRemoveAt, resolve_eq_components t s hnd, lastDots_of hnd hdot]
  · simp [dirRemove, Lexical.dirRemove, dirRemoveAt, resolve_eq_components t s hnd, hc]
theorem dirRemoveAll_eq_lexical : dirRemoveAll t s = Lexical.dirRemoveAll t s := by
  have hnd := noDotDot_of_lexicalOK h
  simp only [dirRemoveAll, Lexical.dirRemoveAll, dirRemoveAllAt, resolve_eq_components _ s hnd]
  by_cases hs : s = []
  · simp [hs]
  · by_cases hp : components s = []
    · simp [hs, hp, isDir_nil, eraseBelow_nil]
    · have hdot : endsDot s = false := by
        rcases lexicalOK_cases h with ⟨_, h2⟩ | ⟨_, h2⟩
        · exact h2
        · exact absurd h2 hp
      by_cases hd : isDir t (components s) = true <;> simp [hs, hp, hd, lastDots_of hnd hdot]
theorem dirRead_eq_lexical : dirRead t s = Lexical.dirRead t s := by
  simp [dirRead, Lexical.dirRead, dirReadAt, resolve_eq_components t s (noDotDot_of_lexicalOK h)]

theorem dirCreateAll_eq_lexical : dirCreateAll t s = Lexical.dirCreateAll t s := by
  have hnd := noDotDot_of_lexicalOK h
  unfold dirCreateAll dirCreateAllVisits Lexical.dirCreateAll mkdirRun
  simp only [lastMustExist_of_lexicalOK h, Bool.false_eq_true, ↓reduceIte, mkdirVisits_eq_prefixes s hnd]
  cases hf : List.find? (fun q => isFile t q) (prefixes (components s)) with
  | none =>
    have : (prefixes (components s)).any (fun q => isFile t q) = false := by
      rw [List.find?_eq_none] at hf
      simpa using hf
    simp only [this, Bool.false_eq_true, ↓reduceIte]
    rfl
  | some f =>
    have hany : (prefixes (components s)).any (fun q => isFile t q) = true := by
      rw [List.any_eq_true]
      exact ⟨f, List.mem_of_find?_eq_some hf, List.find?_some hf⟩
    simp only [hany, ↓reduceIte]
    obtain ⟨hpf, as, bs, hsplit, has⟩ := List.find?_eq_some_iff_append.1 hf
    have htw : (prefixes (components s)).takeWhile (fun q => !isFile t q) = as := by
      rw [hsplit]
      exact takeWhile_append_stop _ as f bs (fun a ha => by simpa using has a ha) (by simp [hpf])
    rw [htw]
    have hnil : as.filter (fun q => !(q.isPrefixOf f)) = [] := by
      rw [List.filter_eq_nil_iff]
      intro a ha
      simp [prefixes_split hsplit a ha]
    rw [hnil]
    rfl

end

end Aplang.Fs
