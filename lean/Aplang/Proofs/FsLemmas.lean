import Aplang.Model.Natives
/-!
# Lemmas on the file-system model (`Aplang.Fs`): lookup after `put` / `erase` / `eraseUnder`,
the fold of `dirCreateAll`, and the no-duplicate-paths invariant.
-/
namespace Aplang.Fs

/-! ## lookup in an association list after filtering -/

theorem list_find?_congr {α} {f g : α → Bool} : ∀ (l : List α), (∀ a ∈ l, f a = g a) → l.find? f = l.find? g
  | [], _ => rfl
  | a :: l, h => by
    have ha : f a = g a := h a (by simp)
    have ih := list_find?_congr l (fun b hb => h b (by simp [hb]))
    simp only [List.find?_cons, ha, ih]

theorem find?_filter_ne (t : Tree) (p q : Path) (h : q ≠ p) :
    List.find? (fun e => e.1 == q) (List.filter (fun e => e.1 != p) t) = List.find? (fun e => e.1 == q) t := by
  rw [List.find?_filter]
  apply list_find?_congr
  intro e _
  by_cases heq : e.1 = q
  · simp [heq, h]
  · simp [heq]

theorem find?_filter_self (t : Tree) (p : Path) :
    List.find? (fun e => e.1 == p) (List.filter (fun e => e.1 != p) t) = none := by
  simp [List.find?_eq_none]

theorem find?_put (t : Tree) (p : Path) (n : FsNode) (q : Path) :
    find? (put t p n) q = if q = [] then some .dir else if q = p then some n else find? t q := by
  unfold find? put
  by_cases hq : q = []
  · simp [hq]
  · by_cases hp : q = p
    · subst hp
      simp [hq]
    · have hp' : ¬ p = q := fun h => hp h.symm
      simp only [beq_iff_eq, hq, ↓reduceIte, hp]
      rw [List.find?_cons_of_neg (by simpa using hp'), find?_filter_ne t p q hp]

theorem find?_erase (t : Tree) (p q : Path) :
    find? (erase t p) q = if q = [] then some .dir else if q = p then none else find? t q := by
  unfold find? erase
  by_cases hq : q = []
  · simp [hq]
  · by_cases hp : q = p
    · subst hp
      simp only [beq_iff_eq, hq, ↓reduceIte]
      rw [find?_filter_self]; rfl
    · simp only [beq_iff_eq, hq, ↓reduceIte, hp]
      rw [find?_filter_ne t p q hp]

theorem find?_eraseUnder (t : Tree) (p q : Path) :
    find? (eraseUnder t p) q =
      if q = [] then some .dir else if p.isPrefixOf q = true then none else find? t q := by
  unfold find? eraseUnder
  by_cases hq : q = []
  · simp [hq]
  · simp only [beq_iff_eq, hq, ↓reduceIte]
    by_cases hp : p.isPrefixOf q = true
    · simp only [hp, ↓reduceIte]
      have : List.find? (fun e => e.1 == q) (List.filter (fun e => !(p.isPrefixOf e.1)) t) = none := by
        simp only [List.find?_eq_none, List.mem_filter, beq_iff_eq]
        rintro e ⟨_, he⟩ heq
        rw [heq, hp] at he; simp at he
      rw [this]; rfl
    · simp only [hp, Bool.false_eq_true, ↓reduceIte]
      congr 1
      rw [List.find?_filter]
      apply list_find?_congr
      intro e _
      by_cases heq : e.1 = q
      · simp [heq, hp]
      · simp [heq]

theorem find?_nil (t : Tree) : find? t [] = some .dir := by simp [find?]

/-! ## `prefixes` -/

theorem ne_nil_of_mem_prefixes {p q : Path} (h : q ∈ prefixes p) : q ≠ [] := by
  cases p with
  | nil => simp [prefixes] at h
  | cons c cs =>
    simp only [prefixes, List.mem_cons, List.mem_map] at h
    rcases h with h | ⟨r, _, h⟩
    · rw [h]; simp
    · rw [← h]; simp

theorem mem_prefixes_iff {p q : Path} : q ∈ prefixes p ↔ q ≠ [] ∧ q.isPrefixOf p = true := by
  induction p generalizing q with
  | nil => cases q <;> simp [prefixes, List.isPrefixOf]
  | cons c cs ih =>
    cases q with
    | nil => simp [prefixes]
    | cons d ds =>
      simp only [prefixes, List.mem_cons, List.mem_map, List.cons.injEq, ne_eq, reduceCtorEq,
        not_false_eq_true, List.isPrefixOf, Bool.and_eq_true, beq_iff_eq, true_and]
      constructor
      · rintro (⟨rfl, rfl⟩ | ⟨r, hr, rfl, rfl⟩)
        · simp [List.isPrefixOf]
        · exact ⟨rfl, (ih.1 hr).2⟩
      · rintro ⟨rfl, h⟩
        by_cases hds : ds = []
        · left; exact ⟨rfl, hds⟩
        · right; exact ⟨ds, ih.2 ⟨hds, h⟩, rfl, rfl⟩

/-! ## the fold of `dirCreateAll` -/

def mkdirStep (acc : Tree) (q : Path) : Tree := if pathExists acc q then acc else put acc q .dir

theorem find?_mkdirStep (t : Tree) (a q : Path) (ha : a ≠ []) :
    find? (mkdirStep t a) q = if q = a ∧ find? t q = none then some .dir else find? t q := by
  unfold mkdirStep pathExists
  cases h : find? t a with
  | some n =>
    simp only [Option.isSome_some, ↓reduceIte]
    by_cases hq : q = a
    · subst hq; simp [h]
    · simp [hq]
  | none =>
    simp only [Option.isSome_none, Bool.false_eq_true, ↓reduceIte, find?_put]
    by_cases hq : q = a
    · subst hq; simp [h, ha]
    · simp only [hq, ↓reduceIte, false_and]
      split
      · next hq' => rw [hq']; exact (find?_nil t).symm
      · rfl

theorem find?_foldl_mkdir (qs : List Path) (hqs : ∀ a ∈ qs, a ≠ []) (t : Tree) (q : Path) :
    find? (qs.foldl mkdirStep t) q = if q ∈ qs ∧ find? t q = none then some .dir else find? t q := by
  induction qs generalizing t with
  | nil => simp
  | cons a as ih =>
    have ha : a ≠ [] := hqs a (by simp)
    rw [List.foldl_cons, ih (fun b hb => hqs b (by simp [hb])), find?_mkdirStep t a q ha]
    by_cases hqa : q = a
    · subst hqa
      cases hf : find? t q with
      | none => simp
      | some n => simp
    · simp [hqa]

/-! ## no duplicate paths -/

/-- every path occurs at most once in the association list -/
def NoDupPaths (t : Tree) : Prop := (t.map (·.1)).Nodup

theorem noDup_filter (t : Tree) (f : Path × FsNode → Bool) (h : NoDupPaths t) : NoDupPaths (t.filter f) := by
  unfold NoDupPaths at *
  exact List.Nodup.sublist (List.Sublist.map _ List.filter_sublist) h

theorem noDup_put (t : Tree) (p : Path) (n : FsNode) (h : NoDupPaths t) : NoDupPaths (put t p n) := by
  unfold put
  have h' := noDup_filter t (fun e => e.1 != p) h
  unfold NoDupPaths at *
  simp only [List.map_cons, List.nodup_cons, h', and_true, List.mem_map, List.mem_filter]
  rintro ⟨e, ⟨_, he⟩, heq⟩
  simp [heq] at he

theorem noDup_erase (t : Tree) (p : Path) (h : NoDupPaths t) : NoDupPaths (erase t p) := noDup_filter t _ h
theorem noDup_eraseUnder (t : Tree) (p : Path) (h : NoDupPaths t) : NoDupPaths (eraseUnder t p) := noDup_filter t _ h

theorem noDup_mkdirStep (t : Tree) (q : Path) (h : NoDupPaths t) : NoDupPaths (mkdirStep t q) := by
  unfold mkdirStep; split
  · exact h
  · exact noDup_put t q .dir h

theorem noDup_foldl_mkdir (qs : List Path) (t : Tree) (h : NoDupPaths t) : NoDupPaths (qs.foldl mkdirStep t) := by
  induction qs generalizing t with
  | nil => exact h
  | cons a as ih => exact ih _ (noDup_mkdirStep t a h)

end Aplang.Fs
