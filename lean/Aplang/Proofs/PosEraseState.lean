import Aplang.Proofs.PosEraseSyntax
/-!
# States and results "equal up to positions"  (property C06)

`StSim σ₁ σ₂`: the two interpreter states agree in everything except the bodies of stored user procedures,
which agree up to `Stmt.norm`.  `RSim R r₁ r₂`: the two results have the same shape; successful values are
related by `R`, runtime errors have the same message (the labelled byte range may differ), states are
`StSim`, panics have the same site and the same output so far.
-/
namespace Aplang

structure StSim (σ₁ σ₂ : St) : Prop where
  heap : σ₂.heap = σ₁.heap
  scopes : σ₂.scopes = σ₁.scopes
  procs : FunTable.norm σ₂.procs = FunTable.norm σ₁.procs
  exports : FunTable.norm σ₂.exports = FunTable.norm σ₁.exports
  ret : σ₂.ret = σ₁.ret
  loops : σ₂.loops = σ₁.loops
  out : σ₂.out = σ₁.out
  world : σ₂.world = σ₁.world
  filePath : σ₂.filePath = σ₁.filePath
  budget : σ₂.budget = σ₁.budget

theorem StSim.refl (σ : St) : StSim σ σ := ⟨rfl, rfl, rfl, rfl, rfl, rfl, rfl, rfl, rfl, rfl⟩
theorem StSim.symm {a b : St} (h : StSim a b) : StSim b a :=
  ⟨h.heap.symm, h.scopes.symm, h.procs.symm, h.exports.symm, h.ret.symm, h.loops.symm, h.out.symm,
   h.world.symm, h.filePath.symm, h.budget.symm⟩
theorem StSim.trans {a b c : St} (h1 : StSim a b) (h2 : StSim b c) : StSim a c :=
  ⟨h2.heap.trans h1.heap, h2.scopes.trans h1.scopes, h2.procs.trans h1.procs, h2.exports.trans h1.exports,
   h2.ret.trans h1.ret, h2.loops.trans h1.loops, h2.out.trans h1.out, h2.world.trans h1.world,
   h2.filePath.trans h1.filePath, h2.budget.trans h1.budget⟩

/-- the two results agree up to positions -/
def RSim {α} (R : α → α → Prop) : Res α → Res α → Prop
  | .ok a, .ok b => R a b
  | .err e₁ σ₁, .err e₂ σ₂ => e₁.kind = e₂.kind ∧ StSim σ₁ σ₂
  | .terminate w₁ σ₁, .terminate w₂ σ₂ => w₁ = w₂ ∧ StSim σ₁ σ₂
  | .panic s₁ o₁, .panic s₂ o₂ => s₁ = s₂ ∧ o₁ = o₂
  | .fuel, .fuel => True
  | _, _ => False

/-- a value together with a state -/
def PSim {α} (p q : α × St) : Prop := p.1 = q.1 ∧ StSim p.2 q.2

/-- results carrying a value and a state -/
abbrev VSim {α} := RSim (α := α × St) PSim
/-- results carrying a state -/
abbrev SSim := RSim StSim
/-- results carrying a plain value -/
abbrev QSim {α} := RSim (α := α) Eq

theorem RSim.ok {α} {R : α → α → Prop} {a b : α} (h : R a b) : RSim R (.ok a) (.ok b) := h
theorem RSim.okP {α} {a : α} {σ₁ σ₂ : St} (h : StSim σ₁ σ₂) : VSim (.ok (a, σ₁)) (.ok (a, σ₂)) := ⟨rfl, h⟩
theorem RSim.err {α} {R : α → α → Prop} {k : String} {s₁ s₂ : Span} {σ₁ σ₂ : St} (h : StSim σ₁ σ₂) :
    RSim R (.err ⟨k, s₁⟩ σ₁) (.err ⟨k, s₂⟩ σ₂) := ⟨rfl, h⟩
theorem RSim.rtErr {α} {R : α → α → Prop} {k : String} {s₁ s₂ : Span} {σ₁ σ₂ : St} (h : StSim σ₁ σ₂) :
    RSim R (rtErr k s₁ σ₁) (rtErr k s₂ σ₂) := ⟨rfl, h⟩
theorem RSim.terminate {α} {R : α → α → Prop} {w : String} {σ₁ σ₂ : St} (h : StSim σ₁ σ₂) :
    RSim R (.terminate w σ₁) (.terminate w σ₂) := ⟨rfl, h⟩
theorem RSim.panic {α} {R : α → α → Prop} {s : String} {o₁ o₂ : List Str} (h : o₂ = o₁) :
    RSim R (.panic s o₁) (.panic s o₂) := ⟨rfl, h.symm⟩
theorem RSim.panicS {α} {R : α → α → Prop} {s : String} {σ₁ σ₂ : St} (h : StSim σ₁ σ₂) :
    RSim R (.panic s σ₁.out) (.panic s σ₂.out) := ⟨rfl, h.out.symm⟩
theorem RSim.fuel {α} {R : α → α → Prop} : RSim R (.fuel) (.fuel) := trivial

theorem RSim.bind {α β} {R : α → α → Prop} {S : β → β → Prop} {x₁ x₂ : Res α} {k₁ k₂ : α → Res β}
    (hx : RSim R x₁ x₂) (hk : ∀ a b, R a b → RSim S (k₁ a) (k₂ b)) : RSim S (x₁.bind k₁) (x₂.bind k₂) := by
  cases x₁ <;> cases x₂ <;> first | exact hx.elim | exact hk _ _ hx | exact hx

/-- binding a value-and-state result -/
theorem RSim.bindP {α β} {S : β → β → Prop} {x₁ x₂ : Res (α × St)} {k₁ k₂ : α × St → Res β}
    (hx : VSim x₁ x₂) (hk : ∀ a σ₁ σ₂, StSim σ₁ σ₂ → RSim S (k₁ (a, σ₁)) (k₂ (a, σ₂))) :
    RSim S (x₁.bind k₁) (x₂.bind k₂) := by
  refine RSim.bind hx ?_
  rintro ⟨a, σ₁⟩ ⟨b, σ₂⟩ ⟨h1, h2⟩
  cases h1
  exact hk a σ₁ σ₂ h2

/-- binding a plain-value result -/
theorem RSim.bindQ {α β} {S : β → β → Prop} {x₁ x₂ : Res α} {k₁ k₂ : α → Res β}
    (hx : QSim x₁ x₂) (hk : ∀ a, RSim S (k₁ a) (k₂ a)) : RSim S (x₁.bind k₁) (x₂.bind k₂) := by
  refine RSim.bind hx ?_
  rintro a b rfl
  exact hk a

theorem RSim.symm {α} {R : α → α → Prop} (hR : ∀ a b, R a b → R b a) {r₁ r₂ : Res α} (h : RSim R r₁ r₂) :
    RSim R r₂ r₁ := by
  cases r₁ <;> cases r₂ <;> first | exact h.elim | exact hR _ _ h | exact ⟨h.1.symm, h.2.symm⟩ | trivial

theorem RSim.trans {α} {R : α → α → Prop} (hR : ∀ a b c, R a b → R b c → R a c) {r₁ r₂ r₃ : Res α}
    (h1 : RSim R r₁ r₂) (h2 : RSim R r₂ r₃) : RSim R r₁ r₃ := by
  cases r₁ <;> cases r₂ <;> (try exact h1.elim) <;> cases r₃ <;>
    first | exact h2.elim | exact hR _ _ _ h1 h2 | exact ⟨h1.1.trans h2.1, h1.2.trans h2.2⟩ | trivial

theorem RSim.refl {α} {R : α → α → Prop} (hR : ∀ a, R a a) (r : Res α) : RSim R r r := by
  cases r <;> first | exact hR _ | exact ⟨rfl, StSim.refl _⟩ | exact ⟨rfl, rfl⟩ | trivial
theorem QSim.refl {α} (r : Res α) : QSim r r := RSim.refl (fun _ => rfl) r

theorem PSim.symm {α} (p q : α × St) (h : PSim p q) : PSim q p := ⟨h.1.symm, h.2.symm⟩
theorem PSim.trans {α} (p q r : α × St) (h1 : PSim p q) (h2 : PSim q r) : PSim p r :=
  ⟨h1.1.trans h2.1, h1.2.trans h2.2⟩

theorem SSim.symm {r₁ r₂ : Res St} (h : SSim r₁ r₂) : SSim r₂ r₁ := RSim.symm (R := StSim) (fun _ _ h => StSim.symm h) h
theorem SSim.trans {r₁ r₂ r₃ : Res St} (h1 : SSim r₁ r₂) (h2 : SSim r₂ r₃) : SSim r₁ r₃ :=
  RSim.trans (R := StSim) (fun _ _ _ a b => StSim.trans a b) h1 h2
theorem VSim.symm {α} {r₁ r₂ : Res (α × St)} (h : VSim r₁ r₂) : VSim r₂ r₁ := RSim.symm PSim.symm h
theorem VSim.trans {α} {r₁ r₂ r₃ : Res (α × St)} (h1 : VSim r₁ r₂) (h2 : VSim r₂ r₃) : VSim r₁ r₃ :=
  RSim.trans PSim.trans h1 h2

/-- close a goal `StSim _ _` between two states built the same way from similar states -/
macro "stsim " h:term : tactic =>
  `(tactic| (constructor <;> first
    | rfl | exact ($h).heap | exact ($h).scopes | exact ($h).procs | exact ($h).exports | exact ($h).ret
    | exact ($h).loops | exact ($h).out | exact ($h).world | exact ($h).filePath | exact ($h).budget
    | simp only [($h).heap, ($h).scopes, ($h).procs, ($h).exports, ($h).ret, ($h).loops, ($h).out, ($h).world,
        ($h).filePath, ($h).budget]))

/-! ## readers: what a similar state answers -/

section
variable {σ₁ σ₂ : St} (h : StSim σ₁ σ₂)
include h

theorem StSim.getList (a : Nat) : Aplang.getList σ₂ a = Aplang.getList σ₁ a := by
  simp only [Aplang.getList, h.heap]
theorem StSim.lookupVar (x : Str) : Aplang.lookupVar σ₂ x = Aplang.lookupVar σ₁ x := by
  simp only [Aplang.lookupVar, h.scopes]
theorem StSim.pending : Aplang.pending σ₂ = Aplang.pending σ₁ := by simp only [Aplang.pending, h.ret, h.loops]
theorem StSim.display (v : Value) : Aplang.display σ₂ v = Aplang.display σ₁ v := by
  simp only [Aplang.display, h.heap]
theorem StSim.displayAll (vs : List Value) : Aplang.displayAll σ₂ vs = Aplang.displayAll σ₁ vs := by
  induction vs with
  | nil => rfl
  | cons v vs ih => simp only [Aplang.displayAll, h.display, ih]

/-! ## writers keep similarity -/

theorem StSim.emit (t : Str) : StSim (Aplang.emit σ₁ t) (Aplang.emit σ₂ t) :=
  ⟨h.heap, h.scopes, h.procs, h.exports, h.ret, h.loops, by simp only [Aplang.emit, h.out], h.world, h.filePath,
   h.budget⟩
theorem StSim.setCell (a : Nat) (c : Cell) : StSim (Aplang.setCell σ₁ a c) (Aplang.setCell σ₂ a c) :=
  ⟨by simp only [Aplang.setCell, h.heap], h.scopes, h.procs, h.exports, h.ret, h.loops, h.out, h.world,
   h.filePath, h.budget⟩
theorem StSim.allocCell (c : Cell) : StSim (Aplang.allocCell σ₁ c).2 (Aplang.allocCell σ₂ c).2 :=
  ⟨by simp only [Aplang.allocCell, h.heap], h.scopes, h.procs, h.exports, h.ret, h.loops, h.out, h.world,
   h.filePath, h.budget⟩
theorem StSim.allocCell_fst (c : Cell) : (Aplang.allocCell σ₂ c).1 = (Aplang.allocCell σ₁ c).1 := by
  simp only [Aplang.allocCell, h.heap]
theorem StSim.mkList (vs : List Value) : PSim (Aplang.mkList σ₁ vs) (Aplang.mkList σ₂ vs) :=
  ⟨by simp only [Aplang.mkList, h.allocCell_fst], h.allocCell _⟩
theorem StSim.withWorld (w : World) : StSim { σ₁ with world := w } { σ₂ with world := w } :=
  ⟨h.heap, h.scopes, h.procs, h.exports, h.ret, h.loops, h.out, rfl, h.filePath, h.budget⟩
theorem StSim.withScopes (sc : List Frame) : StSim { σ₁ with scopes := sc } { σ₂ with scopes := sc } :=
  ⟨h.heap, rfl, h.procs, h.exports, h.ret, h.loops, h.out, h.world, h.filePath, h.budget⟩
theorem StSim.withLoops (l : List LoopCtl) : StSim { σ₁ with loops := l } { σ₂ with loops := l } :=
  ⟨h.heap, h.scopes, h.procs, h.exports, h.ret, rfl, h.out, h.world, h.filePath, h.budget⟩
theorem StSim.withRet (r : Option Value) : StSim { σ₁ with ret := r } { σ₂ with ret := r } :=
  ⟨h.heap, h.scopes, h.procs, h.exports, rfl, h.loops, h.out, h.world, h.filePath, h.budget⟩
theorem StSim.withScopesRet (sc : List Frame) (r : Option Value) :
    StSim { σ₁ with scopes := sc, ret := r } { σ₂ with scopes := sc, ret := r } :=
  ⟨h.heap, rfl, h.procs, h.exports, rfl, h.loops, h.out, h.world, h.filePath, h.budget⟩
theorem StSim.withBudget (b : Nat) : StSim { σ₁ with budget := b } { σ₂ with budget := b } :=
  ⟨h.heap, h.scopes, h.procs, h.exports, h.ret, h.loops, h.out, h.world, h.filePath, rfl⟩

theorem StSim.readInput_fst (env : CharEnv) (p : Str) :
    (Aplang.readInput env p σ₂).1 = (Aplang.readInput env p σ₁).1 := by
  simp only [Aplang.readInput, Aplang.emit, h.world]
theorem StSim.readInput (env : CharEnv) (p : Str) :
    StSim (Aplang.readInput env p σ₁).2 (Aplang.readInput env p σ₂).2 := by
  simp only [Aplang.readInput, Aplang.emit, h.world, h.out]
  exact ⟨h.heap, h.scopes, h.procs, h.exports, h.ret, h.loops, rfl, rfl, h.filePath, h.budget⟩

theorem StSim.writeBack (a i : Nat) (cur : Option Value) :
    StSim (Aplang.writeBack σ₁ a i cur) (Aplang.writeBack σ₂ a i cur) := by
  unfold Aplang.writeBack
  rw [h.getList]
  split
  · split
    · exact h.setCell _ _
    · exact h
  · exact h

/-! ## small steps of the evaluator -/

theorem StSim.tick_none (h0 : Aplang.tick σ₁ = none) : Aplang.tick σ₂ = none := by
  simp only [Aplang.tick, h.budget] at h0 ⊢
  split at h0
  · simp [*]
  · cases h0

theorem StSim.tick_some {a : St} (h0 : Aplang.tick σ₁ = some a) : ∃ b, Aplang.tick σ₂ = some b ∧ StSim a b := by
  simp only [Aplang.tick, h.budget] at h0 ⊢
  split at h0
  · cases h0
  · cases h0
    rename_i hb
    exact ⟨_, by simp only [hb, if_false], h.withBudget _⟩

theorem StSim.define (x : Str) (v : Value) : SSim (Aplang.define σ₁ x v) (Aplang.define σ₂ x v) := by
  simp only [Aplang.define, h.scopes, h.out]
  split
  · exact RSim.panic rfl
  · apply RSim.ok; stsim h

theorem StSim.removeVar (x : Str) : VSim (Aplang.removeVar σ₁ x) (Aplang.removeVar σ₂ x) := by
  simp only [Aplang.removeVar, h.scopes, h.out]
  split
  · exact RSim.panic rfl
  · refine RSim.ok ⟨rfl, ?_⟩; stsim h

theorem StSim.createNested : SSim (Aplang.createNested σ₁) (Aplang.createNested σ₂) := by
  simp only [Aplang.createNested, h.scopes, h.out]
  split
  · exact RSim.panic rfl
  · apply RSim.ok; stsim h

theorem StSim.flattenNested : SSim (Aplang.flattenNested σ₁) (Aplang.flattenNested σ₂) := by
  simp only [Aplang.flattenNested, h.scopes, h.out]
  split
  · exact RSim.panic rfl
  · exact RSim.panic rfl
  · apply RSim.ok; stsim h

theorem StSim.popLoop : SSim (Aplang.popLoop σ₁) (Aplang.popLoop σ₂) := by
  simp only [Aplang.popLoop, h.loops, h.out]
  split
  · exact RSim.panic rfl
  · apply RSim.ok; stsim h

theorem StSim.afterBody (b : Bool) : VSim (Aplang.afterBody b σ₁) (Aplang.afterBody b σ₂) := by
  simp only [Aplang.afterBody, h.ret, h.loops, h.out]
  split
  · exact RSim.okP h
  · split
    · exact RSim.panic rfl
    · repeat' split
      all_goals (refine RSim.ok ⟨rfl, ?_⟩; stsim h)

theorem StSim.forAfter : VSim (Aplang.forAfter σ₁) (Aplang.forAfter σ₂) := by
  simp only [Aplang.forAfter, h.ret, h.loops, h.out]
  split
  · exact RSim.okP h
  · split
    · exact RSim.panic rfl
    · repeat' split
      all_goals (refine RSim.ok ⟨rfl, ?_⟩; stsim h)

theorem StSim.binop (op : BinOp) (t₁ t₂ : Token) (a b : Value) :
    VSim (Aplang.binop op t₁ a b σ₁) (Aplang.binop op t₂ a b σ₂) := by
  unfold Aplang.binop
  simp only [h.display, h.getList, h.out]
  split
  all_goals first
    | exact RSim.okP h
    | exact RSim.rtErr h
    | (split <;> first | exact RSim.okP h | exact RSim.rtErr h | exact RSim.panic rfl | exact RSim.ok (h.mkList _))
    | (apply RSim.bindQ (QSim.refl _); intro t; exact RSim.okP h)

theorem StSim.unop (op : UnOp) (t₁ t₂ : Token) (v : Value) :
    VSim (Aplang.unop op t₁ v σ₁) (Aplang.unop op t₂ v σ₂) := by
  unfold Aplang.unop
  split <;> first | exact RSim.okP h | exact RSim.rtErr h

theorem StSim.define_bind {α} (x : Str) (v : Value) (a : α) :
    VSim ((Aplang.define σ₁ x v).bind fun σ => .ok (a, σ)) ((Aplang.define σ₂ x v).bind fun σ => .ok (a, σ)) :=
  RSim.bind (h.define x v) (fun _ _ hs => RSim.okP hs)

theorem StSim.assignVar (name : Str) (v : Value) :
    VSim (Aplang.assignVar name v σ₁) (Aplang.assignVar name v σ₂) := by
  unfold Aplang.assignVar
  simp only [h.lookupVar, h.getList, h.out]
  split
  · split
    · split
      · exact RSim.okP h
      · split
        · exact RSim.okP (h.setCell _ _)
        · exact RSim.panic rfl
    · exact h.define_bind _ _ _
  · exact h.define_bind _ _ _

theorem StSim.indexRead (l k : Value) (lt₁ lb₁ rb₁ lt₂ lb₂ rb₂ : Token) :
    VSim (Aplang.indexRead l k lt₁ lb₁ rb₁ σ₁) (Aplang.indexRead l k lt₂ lb₂ rb₂ σ₂) := by
  unfold Aplang.indexRead
  simp only [h.getList, h.out]
  repeat' split
  all_goals first | exact RSim.okP h | exact RSim.rtErr h | exact RSim.panic rfl

theorem StSim.indexWrite (l k v : Value) (lt₁ lb₁ rb₁ lt₂ lb₂ rb₂ : Token) :
    VSim (Aplang.indexWrite l k v lt₁ lb₁ rb₁ σ₁) (Aplang.indexWrite l k v lt₂ lb₂ rb₂ σ₂) := by
  unfold Aplang.indexWrite
  simp only [h.getList, h.out]
  repeat' split
  all_goals first | exact RSim.okP (h.setCell _ _) | exact RSim.okP h | exact RSim.rtErr h | exact RSim.panic rfl

/-! ## argument casts of the library -/

theorem StSim.castNum (v : Value) (s₁ s₂ : Span) : QSim (Aplang.castNum v s₁ σ₁) (Aplang.castNum v s₂ σ₂) := by
  unfold Aplang.castNum Aplang.castErr
  split <;> first | exact RSim.ok rfl | exact RSim.err h
theorem StSim.castStr (v : Value) (s₁ s₂ : Span) : QSim (Aplang.castStr v s₁ σ₁) (Aplang.castStr v s₂ σ₂) := by
  unfold Aplang.castStr Aplang.castErr
  split <;> first | exact RSim.ok rfl | exact RSim.err h
theorem StSim.castList (v : Value) (s₁ s₂ : Span) : QSim (Aplang.castList v s₁ σ₁) (Aplang.castList v s₂ σ₂) := by
  unfold Aplang.castList Aplang.castErr
  simp only [h.getList, h.out]
  repeat' split
  all_goals first | exact RSim.ok rfl | exact RSim.err h | exact RSim.panic rfl
theorem StSim.castMap (v : Value) (s₁ s₂ : Span) : QSim (Aplang.castMap v s₁ σ₁) (Aplang.castMap v s₂ σ₂) := by
  unfold Aplang.castMap Aplang.castErr
  simp only [h.heap, h.out]
  repeat' split
  all_goals first | exact RSim.ok rfl | exact RSim.err h | exact RSim.panic rfl
theorem StSim.castRobot (v : Value) (s₁ s₂ : Span) : QSim (Aplang.castRobot v s₁ σ₁) (Aplang.castRobot v s₂ σ₂) := by
  unfold Aplang.castRobot Aplang.castErr
  simp only [h.heap, h.out]
  repeat' split
  all_goals first | exact RSim.ok rfl | exact RSim.err h | exact RSim.panic rfl

theorem StSim.fsFlag (op : Fs.Tree → Str → Fs.Tree × Bool) (path : Str) :
    VSim (Aplang.fsFlag op path σ₁) (Aplang.fsFlag op path σ₂) := by
  unfold Aplang.fsFlag
  simp only [h.world]
  exact RSim.okP (h.withWorld _)

end

end Aplang
