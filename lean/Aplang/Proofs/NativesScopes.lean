import Aplang.Proofs.NativesSame
/-! no native procedure touches the scope stack (the library has no access to the interpreter's environment) -/
namespace Aplang

/-- a result whose successful state has the same scope stack -/
def OkSc {α} (σ : St) (r : Res (α × St)) : Prop := ∀ a σ', r = .ok (a, σ') → σ'.scopes = σ.scopes

theorem OkSc.bind_pure {α β} {σ : St} {x : Res α} {k : α → Res (β × St)} (h : ∀ a, OkSc σ (k a)) :
    OkSc σ (x.bind k) := by
  cases x with
  | ok a => exact h a
  | err e s => intro a σ' he; cases he
  | terminate w s => intro a σ' he; cases he
  | panic p s => intro a σ' he; cases he
  | fuel => intro a σ' he; cases he

theorem OkSc.ok {α} {σ σ' : St} (a : α) (h : σ'.scopes = σ.scopes) : OkSc σ (.ok (a, σ')) := by
  intro b s he; cases he; exact h
theorem OkSc.err {α} {σ : St} (e s) : OkSc (α := α) σ (.err e s) := by intro b s' he; cases he
theorem OkSc.panic {α} {σ : St} (e s) : OkSc (α := α) σ (.panic e s) := by intro b s' he; cases he
theorem OkSc.terminate {α} {σ : St} (e s) : OkSc (α := α) σ (.terminate e s) := by intro b s' he; cases he
theorem OkSc.fuel {α} {σ : St} : OkSc (α := α) σ .fuel := by intro b s' he; cases he

theorem fsFlag_sc (op path σ) : OkSc σ (fsFlag op path σ) := by
  unfold fsFlag; exact OkSc.ok _ rfl

macro "sc_leaf" : tactic =>
  `(tactic| first
    | exact OkSc.ok _ rfl
    | exact OkSc.err _ _
    | exact OkSc.panic _ _
    | exact OkSc.terminate _ _
    | exact OkSc.fuel
    | exact fsFlag_sc _ _ _)

macro "sc_step" : tactic =>
  `(tactic| first
    | sc_leaf
    | (apply OkSc.bind_pure; intro _)
    | split)

theorem moveRobot_sc (v s1 σ) : OkSc σ (moveRobot v s1 σ) := by
  unfold moveRobot
  repeat' sc_step

theorem callCore_sc (env n args spans σ) : OkSc σ (callCore env n args spans σ) := by
  unfold callCore; split
  all_goals (repeat' sc_step)
theorem callMath_sc (env n args spans σ) : OkSc σ (callMath env n args spans σ) := by
  unfold callMath; split
  all_goals (repeat' sc_step)
theorem callString_sc (env n args spans σ) : OkSc σ (callString env n args spans σ) := by
  unfold callString; split
  all_goals (repeat' sc_step)
theorem callMap_sc (env n args spans σ) : OkSc σ (callMap env n args spans σ) := by
  unfold callMap; split
  all_goals (repeat' sc_step)
theorem callIo_sc (env n args spans σ) : OkSc σ (callIo env n args spans σ) := by
  unfold callIo; split
  all_goals (repeat' sc_step)
theorem callStyle_sc (env n args spans σ) : OkSc σ (callStyle env n args spans σ) := by
  unfold callStyle; split
  all_goals (repeat' sc_step)
theorem callTime_sc (env n args spans σ) : OkSc σ (callTime env n args spans σ) := by
  unfold callTime; split
  all_goals (repeat' sc_step)
theorem callRobot_sc (env n args spans σ) : OkSc σ (callRobot env n args spans σ) := by
  unfold callRobot; split
  all_goals first | exact moveRobot_sc _ _ _ | (repeat' sc_step)
theorem callFs_sc (env n args spans σ) : OkSc σ (callFs env n args spans σ) := by
  unfold callFs; split
  all_goals (repeat' sc_step)

/-- **no native procedure changes the scope stack** -/
theorem callNative_scopes (env n args spans σ) : OkSc σ (callNative env n args spans σ) := by
  unfold callNative
  split
  · exact callCore_sc env n args spans σ
  · exact callMath_sc env n args spans σ
  · exact callString_sc env n args spans σ
  · exact callMap_sc env n args spans σ
  · exact callIo_sc env n args spans σ
  · exact callStyle_sc env n args spans σ
  · exact callTime_sc env n args spans σ
  · exact callRobot_sc env n args spans σ
  · exact callFs_sc env n args spans σ

end Aplang
