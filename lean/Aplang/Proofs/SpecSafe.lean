import Aplang.Proofs.SafeBasics
import Aplang.Proofs.NativesScopes
/-!
# The reference semantics never reaches a panic outcome (the evaluator part of C10)

One induction on fuel over `Spec.expr / exprs / stmt / block / repeatLoop / untilLoop / forLoop / program`
(`SafeAll`, `safeAll`): from a state that satisfies the control invariant `SInv` of the refinement proof and
the safety invariant `SafeSt` of `Proofs/SafeBasics`, for code that is well-formed (`WFStmt`) and keeps the
parser's conventions (`EOK`, `SOK`), the result is never `.panic`; a successful result is a `SStep` (safe
again, heap only grew, scope stack of the same height) whose values are closed in the new heap; a
termination is a blocked robot move. What the control state does along the way (`Keeps`, which signals can
come out of a statement or a loop) is taken from the refinement theorem (`SpecKeeps`, `specKeeps`).
-/
namespace Aplang

/-! ## what the refinement theorem says about successful results of the reference semantics -/

def SigG (il fn : Bool) (σ : St) (sig : Sig) (σ' : St) : Prop := Keeps σ σ' ∧ sigOK il fn sig
def LoopG (fn : Bool) (σ : St) (sig : Sig) (σ' : St) : Prop :=
  Keeps σ σ' ∧ (sig = .normal ∨ ∃ v, sig = .ret v ∧ fn = true)

theorem SimS.okP {il fn σ} {s : Res (Sig × St)} {m : Res St} (h : SimS il fn σ s m) : OkP (SigG il fn σ) s := by
  cases s with
  | ok p =>
    obtain ⟨sig, σ'⟩ := p
    cases m with
    | ok τ => exact ⟨h.2.2, h.2.1⟩
    | err e st => exact h.elim
    | terminate w st => exact h.elim
    | panic p st => exact h.elim
    | fuel => exact h.elim
  | err e st => trivial
  | terminate w st => trivial
  | panic p st => trivial
  | fuel => trivial

theorem SimL.okP {fn σ} {s : Res (Sig × St)} {m : Res St} (h : SimL fn σ s m) : OkP (LoopG fn σ) s := by
  cases s with
  | ok p =>
    obtain ⟨sig, σ'⟩ := p
    cases m with
    | ok τ => exact ⟨h.2.2, h.2.1⟩
    | err e st => exact h.elim
    | terminate w st => exact h.elim
    | panic p st => exact h.elim
    | fuel => exact h.elim
  | err e st => trivial
  | terminate w st => trivial
  | panic p st => trivial
  | fuel => trivial

structure SpecKeeps (cfg : Cfg) (f : Nat) : Prop where
  expr : ∀ il e σ, SInv il σ → OkP (fun _ σ' => Keeps σ σ') (Spec.expr cfg f e σ)
  exprs : ∀ il es σ, SInv il σ → OkP (fun _ σ' => Keeps σ σ') (Spec.exprs cfg f es σ)
  stmt : ∀ il fn s σ, WFStmt il fn s → SInv il σ → OkP (SigG il fn σ) (Spec.stmt cfg f s σ)
  block : ∀ il fn ss σ, WFList il fn ss → SInv il σ → OkP (SigG il fn σ) (Spec.block cfg f ss σ)
  repeatLoop : ∀ fn k body σ, WFStmt true fn body → SInv true σ → OkP (LoopG fn σ) (Spec.repeatLoop cfg f k body σ)
  untilLoop : ∀ fn c body σ, WFStmt true fn body → SInv true σ → OkP (LoopG fn σ) (Spec.untilLoop cfg f c body σ)
  forLoop : ∀ fn item a i len body σ, WFStmt true fn body → SInv true σ →
    OkP (LoopG fn σ) (Spec.forLoop cfg f item a i len body σ)
  program : ∀ ss σ, WFList false false ss → SInv false σ → OkS (fun σ' => Keeps σ σ') (Spec.program cfg f ss σ)

theorem specKeeps {cfg : Cfg} (hc : CfgOK cfg) (hp : ParseWF) (f : Nat) : SpecKeeps cfg f :=
  have R := refines hc hp f
  { expr := fun il e σ i => OkP.of_goodE (R.expr il e σ i).2
    exprs := fun il es σ i => OkP.of_goodE (R.exprs il es σ i).2
    stmt := fun il fn s σ hw i => (R.stmt il fn s σ hw i).okP
    block := fun il fn ss σ hw i => (R.block il fn ss σ hw i).okP
    repeatLoop := fun fn k body σ hw i => (R.repeatLoop fn k body σ hw i).okP
    untilLoop := fun fn c body σ hw i => (R.untilLoop fn c body σ hw i).okP
    forLoop := fun fn item a idx len body σ hw i => (R.forLoop fn item a idx len body σ hw i).okP
    program := fun ss σ hw i => OkS.of_goodS (R.program ss σ hw i).2 }

/-! ## what the front end guarantees -/

/-- the registry holds procedures whose bodies keep the parser's conventions; what the parser accepts from
the lexer's output does too; the parser does not panic on the lexer's output -/
structure FrontOK (cfg : Cfg) : Prop where
  modules : ∀ name table, cfg.modules name = some table → ProcsSOK table
  parsed : ∀ src fuel prog, parse fuel (lex cfg.lex src).tokens = .ok prog → SsOK prog
  noPanic : ∀ src fuel p, parse fuel (lex cfg.lex src).tokens ≠ .panic p

/-! ## more sequencing -/

/-- like `Post.bind`, but the continuation reports relative to another base state (calls, blocks, loops:
the intermediate state has one more scope or loop record) -/
theorem Post.bind' {α β} {σ0 σ : St} {x : Res (α × St)} {k : α × St → Res (β × St)} {Q : α → St → Prop}
    {G : α → St → Prop} {Q' : β → St → Prop} (hx : Post σ Q x) (gx : OkP G x)
    (hk : ∀ a σ1, G a σ1 → SStep σ σ1 → Q a σ1 → Post σ0 Q' (k (a, σ1))) : Post σ0 Q' (x.bind k) := by
  cases x with
  | ok p => obtain ⟨a, σ1⟩ := p; exact hk a σ1 gx hx.1 hx.2
  | err e st => trivial
  | terminate w st => exact hx
  | panic p o => exact hx
  | fuel => trivial

theorem PostS.bind' {β} {σ0 σ : St} {x : Res St} {k : St → Res (β × St)} {Q' : β → St → Prop}
    (hx : PostS σ x) (hk : ∀ σ1, SStep σ σ1 → Post σ0 Q' (k σ1)) : Post σ0 Q' (x.bind k) := by
  cases x with
  | ok σ1 => exact hk σ1 hx
  | err e st => trivial
  | terminate w st => exact hx
  | panic p o => exact hx
  | fuel => trivial

theorem SigC.mono {sig : Sig} {σ σ' : St} (h : SigC sig σ) (hle : HeapLe σ.heap σ'.heap) : SigC sig σ' := by
  cases sig with
  | ret v => exact Value.ClosedIn.mono hle h
  | normal => trivial
  | brk => trivial
  | cont => trivial

theorem SigC.heap_eq {sig : Sig} {σ σ' : St} (h : SigC sig σ) (he : σ'.heap = σ.heap) : SigC sig σ' :=
  h.mono (by rw [he]; exact HeapLe.refl _)

/-- changing the loop stack does not affect safety -/
theorem SStep.loops {σ : St} (h : SafeSt σ) (L : List LoopCtl) : SStep σ { σ with loops := L } :=
  SStep.of_eq h rfl rfl rfl rfl

/-! ## native calls -/

theorem callNative_post (env : CharEnv) (n : Native) (args : List Value) (spans : List Span) (σ : St)
    (hl : args.length = n.arity) (hs : spans.length = n.arity) (h : SafeSt σ)
    (ha : ∀ v ∈ args, v.ClosedIn σ.heap) : Post σ VC (callNative env n args spans σ) := by
  have g := builtin_total env n args spans hl hs h.heap ha
  have sm := callNative_same env n args spans σ
  have sc := callNative_scopes env n args spans σ
  cases hr : callNative env n args spans σ with
  | ok p =>
    obtain ⟨v, σ'⟩ := p
    rw [hr] at g
    have s := sm v σ' hr
    exact ⟨SStep.heap h g.1 g.2.2 (sc v σ' hr) s.procs s.exports, g.2.1⟩
  | err e st => trivial
  | terminate w st =>
    rw [hr] at g
    obtain ⟨b, rfl⟩ := g
    exact ⟨n, args, b⟩
  | panic p o => rw [hr] at g; exact g
  | fuel => trivial

/-! ## loops: push a control record, run, pop -/

theorem loop_wrap_s {il fn : Bool} {σ1 : St} (_h1 : SafeSt σ1) {specR : Res (Sig × St)}
    (hp : Post { σ1 with loops := {} :: σ1.loops } SigC specR)
    (hg : OkP (LoopG fn { σ1 with loops := {} :: σ1.loops }) specR) :
    Post σ1 SigC (specR.bind fun (sig, σ) => (popLoop σ).bind fun σ => .ok (sig, σ)) := by
  have _ := il
  apply Post.bind' hp hg
  intro sig σ' g s hsig
  have hl : σ'.loops = {} :: σ1.loops := g.1.loops
  simp only [popLoop, hl, Res.bind_ok]
  have sp := SStep.loops s.safe σ1.loops
  exact ⟨⟨sp.safe, s.le, s.len⟩, hsig.heap_eq rfl⟩

/-- FOR EACH: push a control record, run the loop, pop, put an outer variable of the same name back -/
theorem loop_wrap_for_s {fn : Bool} {σ1 : St} (_h1 : SafeSt σ1) (item : Str) (cached : Option Value)
    (hc : ∀ v, cached = some v → v.ClosedIn σ1.heap) {specR : Res (Sig × St)}
    (hp : Post { σ1 with loops := {} :: σ1.loops } SigC specR)
    (hg : OkP (LoopG fn { σ1 with loops := {} :: σ1.loops }) specR) :
    Post σ1 SigC (specR.bind fun (sig, σ) => (popLoop σ).bind fun σ =>
      (match cached with | some v => define σ item v | none => .ok σ).bind fun σ => .ok (sig, σ)) := by
  apply Post.bind' hp hg
  intro sig σ' g s hsig
  have hl : σ'.loops = {} :: σ1.loops := g.1.loops
  simp only [popLoop, hl, Res.bind_ok]
  have sp0 := SStep.loops s.safe σ1.loops
  have sp : SStep σ1 ({ σ' with loops := σ1.loops } : St) := ⟨sp0.safe, s.le, s.len⟩
  cases cached with
  | none => simp only [Res.bind_ok]; exact ⟨sp, hsig.heap_eq rfl⟩
  | some v =>
    simp only
    have hd := define_post ({ σ' with loops := σ1.loops } : St) item v sp.safe ((hc v rfl).mono sp.le)
    cases hdef : define ({ σ' with loops := σ1.loops } : St) item v with
    | ok σ2 =>
      rw [hdef] at hd
      simp only [Res.bind_ok]
      exact ⟨sp.trans hd, SigC.mono (σ := σ') hsig hd.le⟩
    | err e st => trivial
    | terminate w st => rw [hdef] at hd; exact hd
    | panic p o => rw [hdef] at hd; exact hd
    | fuel => trivial

/-! ## IMPORT -/

/-- with string tokens in the import list, trimming the module gives a table or the "Invalid Function"
diagnostic -/
theorem trimModule_ok_or_err' : ∀ (toks : List Token) (module acc : FunTable) (σ : St),
    (∀ t ∈ toks, TokStr t) →
    (∃ r, trimModule toks module acc σ = .ok r) ∨ (∃ e, trimModule toks module acc σ = .err e σ)
  | [], _, acc, _, _ => Or.inl ⟨acc, rfl⟩
  | t :: ts, module, acc, σ, h => by
    obtain ⟨nm, hlit⟩ := h t (by simp)
    simp only [trimModule, hlit]
    cases hf : module.find? nm with
    | none => exact Or.inr ⟨_, rfl⟩
    | some p => exact trimModule_ok_or_err' ts _ _ σ (fun t' ht' => h t' (by simp [ht']))

theorem importStmt_post {cfg : Cfg} (hc : CfgOK cfg) (hp : ParseWF) (F : FrontOK cfg)
    (runS : List Stmt → St → Res St)
    (hrun : ∀ prog σm, WFList false false prog → SsOK prog → SInv false σm → SafeSt σm → PostS σm (runS prog σm))
    (only : Option (List Token)) (modName : Token) (σ : St) (h : SafeSt σ)
    (hm : TokStr modName) (ho : ∀ names, only = some names → ∀ t ∈ names, TokStr t) :
    PostS σ (importStmt cfg runS only modName σ) := by
  unfold importStmt
  obtain ⟨name, hlit⟩ := hm
  simp only [hlit, Res.bind_ok]
  have fin : ∀ (σ2 : St) (r : FunTable), SStep σ σ2 → ProcsSOK r →
      SStep σ ({ σ2 with procs := σ2.procs.extend r } : St) := by
    intro σ2 r s2 hr
    exact ⟨⟨s2.safe.heap, s2.safe.ne, s2.safe.vars, procsSOK_extend s2.safe.pk hr, s2.safe.ek⟩, s2.le, s2.len⟩
  have key : ∀ (module : FunTable) (σ2 : St), ProcsSOK module → SStep σ σ2 →
      PostS σ ((match (generalizing := false) only with
        | some names => trimModule names module [] σ2
        | none => .ok module : Res FunTable).bind fun module => .ok { σ2 with procs := σ2.procs.extend module }) := by
    intro module σ2 hmod s2
    cases only with
    | none => simp only [Res.bind_ok]; exact fin σ2 module s2 hmod
    | some names =>
      simp only
      rcases trimModule_ok_or_err' names module [] σ2 (ho names rfl) with ⟨r, hr⟩ | ⟨e, hr⟩
      · rw [hr]; simp only [Res.bind_ok]
        exact fin σ2 r s2 (trimModule_sok names module [] σ2 r hmod procsSOK_nil hr)
      · rw [hr]; trivial
  cases hmod : cfg.modules name with
  | some table =>
    simp only [Res.bind_ok]
    exact key table σ (F.modules name table hmod) (SStep.refl h)
  | none =>
    simp only
    split
    · trivial
    · cases hrd : Fs.fileRead σ.world.fs (joinPath (dirOf σ.filePath) name) with
      | none => trivial
      | some src =>
        simp only
        split
        · trivial
        · cases hpr : parse (parseFuel (lex cfg.lex src).tokens.length) (lex cfg.lex src).tokens with
          | errs es => trivial
          | panic p => exact absurd hpr (F.noPanic src _ p)
          | fuel => trivial
          | ok prog =>
            simp only
            have hwf := hp _ _ _ hpr
            have hsok := F.parsed src _ prog hpr
            have hcore : ProcsWF ((cfg.modules "CORE".toList).getD []) := by
              cases hcm : cfg.modules "CORE".toList with
              | none => exact procsWF_nil
              | some t => exact hc _ t hcm
            have hcoreS : ProcsSOK ((cfg.modules "CORE".toList).getD []) := by
              cases hcm : cfg.modules "CORE".toList with
              | none => exact procsSOK_nil
              | some t => exact F.modules _ t hcm
            have im : SInv false (moduleState cfg σ (joinPath (dirOf σ.filePath) name)) :=
              ⟨rfl, trivial, procsWF_extend procsWF_nil hcore, procsWF_nil, by intro h; cases h⟩
            have hms : SafeSt (moduleState cfg σ (joinPath (dirOf σ.filePath) name)) := by
              refine ⟨h.heap, List.cons_ne_nil _ _, ?_, procsSOK_extend procsSOK_nil hcoreS, procsSOK_nil⟩
              intro fr hfr
              have : fr = [] := by simpa [moduleState] using hfr
              subst this
              exact FrameClosed.nil _
            have hh : (moduleState cfg σ (joinPath (dirOf σ.filePath) name)).heap = σ.heap := rfl
            generalize moduleState cfg σ (joinPath (dirOf σ.filePath) name) = σm at im hms hh
            have hr := hrun prog σm hwf hsok im hms
            cases hrr : runS prog σm with
            | ok σm' =>
              rw [hrr] at hr
              simp only [Res.bind_ok]
              refine key σm'.exports (afterModule σ σm') hr.safe.ek ?_
              exact SStep.heap h hr.safe.heap (by rw [← hh]; exact hr.le) rfl rfl rfl
            | err e st => trivial
            | terminate w st => rw [hrr] at hr; exact hr
            | panic p o => rw [hrr] at hr; exact hr
            | fuel => trivial

/-! ## the induction -/

/-- the values of an argument list: as many as expressions, all closed -/
def VsC' (n : Nat) (vs : List Value) (σ : St) : Prop := vs.length = n ∧ ∀ v ∈ vs, v.ClosedIn σ.heap

structure SafeAll (cfg : Cfg) (f : Nat) : Prop where
  expr : ∀ il e σ, EOK e → SInv il σ → SafeSt σ → Post σ VC (Spec.expr cfg f e σ)
  exprs : ∀ il es σ, EsOK es → SInv il σ → SafeSt σ → Post σ (VsC' es.length) (Spec.exprs cfg f es σ)
  stmt : ∀ il fn s σ, WFStmt il fn s → SOK s → SInv il σ → SafeSt σ → Post σ SigC (Spec.stmt cfg f s σ)
  block : ∀ il fn ss σ, WFList il fn ss → SsOK ss → SInv il σ → SafeSt σ → Post σ SigC (Spec.block cfg f ss σ)
  repeatLoop : ∀ fn k body σ, WFStmt true fn body → SOK body → SInv true σ → SafeSt σ →
    Post σ SigC (Spec.repeatLoop cfg f k body σ)
  untilLoop : ∀ fn c body σ, WFStmt true fn body → EOK c → SOK body → SInv true σ → SafeSt σ →
    Post σ SigC (Spec.untilLoop cfg f c body σ)
  forLoop : ∀ fn item a i len body σ, WFStmt true fn body → SOK body → SInv true σ → SafeSt σ →
    Post σ SigC (Spec.forLoop cfg f item a i len body σ)
  program : ∀ ss σ, WFList false false ss → SsOK ss → SInv false σ → SafeSt σ → PostS σ (Spec.program cfg f ss σ)

theorem safeAll_zero (cfg : Cfg) : SafeAll cfg 0 where
  expr := by intro il e σ _ _ _; simp only [Spec.expr]; trivial
  exprs := by
    intro il es σ _ _ h
    cases es with
    | nil => simp only [Spec.exprs]; exact ⟨SStep.refl h, rfl, fun v hv => by cases hv⟩
    | cons e es => simp only [Spec.exprs]; trivial
  stmt := by intro il fn s σ _ _ _ _; simp only [Spec.stmt]; trivial
  block := by
    intro il fn ss σ _ _ _ h
    cases ss with
    | nil => simp only [Spec.block]; exact ⟨SStep.refl h, trivial⟩
    | cons s ss => simp only [Spec.block]; trivial
  repeatLoop := by
    intro fn k body σ _ _ _ h
    cases k with
    | zero => simp only [Spec.repeatLoop]; exact ⟨SStep.refl h, trivial⟩
    | succ k => simp only [Spec.repeatLoop]; trivial
  untilLoop := by intro fn c body σ _ _ _ _ _; simp only [Spec.untilLoop]; trivial
  forLoop := by intro fn item a i len body σ _ _ _ _; simp only [Spec.forLoop]; trivial
  program := by
    intro ss σ _ _ _ h
    cases ss with
    | nil => simp only [Spec.program]; exact SStep.refl h
    | cons s ss => simp only [Spec.program]; trivial

section step
variable {cfg : Cfg} {f : Nat} (K : SpecKeeps cfg f) (ih : SafeAll cfg f)
include K ih

theorem exprs_sstep (il es σ) (he : EsOK es) (i : SInv il σ) (h : SafeSt σ) :
    Post σ (VsC' es.length) (Spec.exprs cfg (f+1) es σ) := by
  cases es with
  | nil => simp only [Spec.exprs]; exact ⟨SStep.refl h, rfl, fun v hv => by cases hv⟩
  | cons e es =>
    simp only [Spec.exprs]
    apply (ih.expr il e σ he.1 i h).bind (K.expr il e σ i)
    intro v σ1 k1 s1 hv
    apply (ih.exprs il es σ1 he.2 (k1.inv i) s1.safe).bind (K.exprs il es σ1 (k1.inv i))
    intro vs σ2 k2 s2 hvs
    refine ⟨SStep.refl s2.safe, by simp [hvs.1], ?_⟩
    intro w hw
    rcases List.mem_cons.1 hw with rfl | hw
    · exact Value.ClosedIn.mono s2.le hv
    · exact hvs.2 w hw

/-- the call of a looked-up procedure, after the arguments are evaluated -/
theorem call_sstep (name : Str) (nargs : Nat) (vs : List Value) (spans : List Span) (tok lp rp : Token) (σ1 : St)
    {il : Bool} (i1 : SInv il σ1) (h1 : SafeSt σ1) (hsp : spans.length = nargs) (hvs : VsC' nargs vs σ1) :
    Post σ1 VC
      (match σ1.procs.find? name with
      | none => rtErr "Invalid PROCEDURE" tok.span σ1
      | some (.native n) =>
        if n.arity != vs.length then rtErr "Incorrect Number Of Args" (interior lp rp) σ1
        else callNative cfg.chars n vs spans σ1
      | some (.user params body) =>
        if params.length != vs.length then rtErr "Incorrect Number Of Args" (interior lp rp) σ1 else
        (Spec.stmt cfg f body { σ1 with scopes := bindParams params vs [] :: σ1.scopes }).bind fun (sig, σ) =>
        match σ.scopes with
        | [] => .panic "env.scrape" σ.out
        | _ :: rest => .ok ((match sig with | .ret v => v | _ => .null), { σ with scopes := rest })) := by
  cases hf : σ1.procs.find? name with
  | none => trivial
  | some p =>
    cases p with
    | native n =>
      dsimp only
      split
      · trivial
      · rename_i hne
        have har : vs.length = n.arity := by
          have : n.arity = vs.length := by simpa using hne
          exact this.symm
        exact callNative_post cfg.chars n vs spans σ1 har (by rw [hsp, ← hvs.1, har]) h1 hvs.2
    | user params body =>
      dsimp only
      split
      · trivial
      · have hwf : WFStmt false true body := procsWF_find i1.pw hf
        have hsok : SOK body := procsSOK_find h1.pk hf
        have ic : SInv false ({ σ1 with scopes := bindParams params vs [] :: σ1.scopes } : St) :=
          ⟨i1.ret, i1.hc, i1.pw, i1.ew, by intro h; cases h⟩
        have hcs : SafeSt ({ σ1 with scopes := bindParams params vs [] :: σ1.scopes } : St) := by
          refine ⟨h1.heap, List.cons_ne_nil _ _, ?_, h1.pk, h1.ek⟩
          intro fr hfr
          rcases List.mem_cons.1 hfr with rfl | hfr
          · exact FrameClosed.bindParams params vs [] (FrameClosed.nil _) hvs.2
          · exact h1.vars fr hfr
        apply Post.bind' (ih.stmt false true body _ hwf hsok ic hcs) (K.stmt false true body _ hwf ic)
        intro sig σ3 g3 s3 hsig
        dsimp only
        have hlen : σ3.scopes.length = σ1.scopes.length + 1 := s3.len
        cases hsc : σ3.scopes with
        | nil => rw [hsc] at hlen; simp at hlen
        | cons fr rest =>
          dsimp only
          rw [hsc] at hlen
          have hrl : rest.length = σ1.scopes.length := by simpa using hlen
          refine ⟨⟨⟨s3.safe.heap, ?_, ?_, s3.safe.pk, s3.safe.ek⟩, s3.le, hrl⟩, ?_⟩
          · intro hr
            have hr' : rest = [] := hr
            rw [hr'] at hrl
            exact h1.ne (List.length_eq_zero_iff.mp hrl.symm)
          · intro fr' hfr'
            exact s3.safe.vars fr' (by rw [hsc]; exact List.mem_cons_of_mem _ hfr')
          · cases sig with
            | ret v => exact hsig
            | normal => trivial
            | brk => trivial
            | cont => trivial

theorem expr_sstep (il e σ) (he : EOK e) (i : SInv il σ) (h : SafeSt σ) :
    Post σ VC (Spec.expr cfg (f+1) e σ) := by
  cases e with
  | grouping e lp rp => simp only [Spec.expr]; exact ih.expr il e σ he i h
  | lit v tok => simp only [Spec.expr]; exact ⟨SStep.refl h, by cases v <;> trivial⟩
  | binary l op r tok =>
    simp only [Spec.expr]
    apply (ih.expr il l σ he.1 i h).bind (K.expr il l σ i)
    intro a σ1 k1 s1 ha
    apply (ih.expr il r σ1 he.2 (k1.inv i) s1.safe).bind (K.expr il r σ1 (k1.inv i))
    intro b σ2 k2 s2 hb
    exact binop_post op tok a b σ2 s2.safe (Value.ClosedIn.mono s2.le ha) hb
  | unary op r tok =>
    simp only [Spec.expr]
    apply (ih.expr il r σ he i h).bind (K.expr il r σ i)
    intro v σ1 k1 s1 hv
    exact unop_post op tok v σ1 s1.safe
  | access l lt k lb rb =>
    simp only [Spec.expr]
    apply (ih.expr il l σ he.1 i h).bind (K.expr il l σ i)
    intro lv σ1 k1 s1 hlv
    apply (ih.expr il k σ1 he.2 (k1.inv i) s1.safe).bind (K.expr il k σ1 (k1.inv i))
    intro kv σ2 k2 s2 hkv
    exact indexRead_post lv kv lt lb rb σ2 s2.safe (Value.ClosedIn.mono s2.le hlv)
  | list items lb rb =>
    simp only [Spec.expr]
    apply (ih.exprs il items σ he i h).bind (K.exprs il items σ i)
    intro vs σ1 k1 s1 hvs
    have := SStep.mkList s1.safe hvs.2
    exact ⟨this.1, this.2⟩
  | var name tok =>
    simp only [Spec.expr]
    cases hl : lookupVar σ name with
    | some v => exact ⟨SStep.refl h, h.lookup hl⟩
    | none => trivial
  | assign name nt value arrow =>
    simp only [Spec.expr]
    apply (ih.expr il value σ he i h).bind (K.expr il value σ i)
    intro v σ1 k1 s1 hv
    exact assignVar_post name v σ1 s1.safe hv
  | set l lt idx lb rb value arrow =>
    simp only [Spec.expr]
    apply (ih.expr il l σ he.1 i h).bind (K.expr il l σ i)
    intro lv σ1 k1 s1 hlv
    apply (ih.expr il idx σ1 he.2.1 (k1.inv i) s1.safe).bind (K.expr il idx σ1 (k1.inv i))
    intro kv σ2 k2 s2 hkv
    apply (ih.expr il value σ2 he.2.2 (k2.inv (k1.inv i)) s2.safe).bind (K.expr il value σ2 (k2.inv (k1.inv i)))
    intro v σ3 k3 s3 hv
    exact indexWrite_post lv kv v lt lb rb σ3 s3.safe (Value.ClosedIn.mono (s2.le.trans s3.le) hlv) hv
  | logical l op r tok =>
    simp only [Spec.expr]
    apply (ih.expr il l σ he.1 i h).bind (K.expr il l σ i)
    intro a σ1 k1 s1 ha
    cases op <;> dsimp only <;> split <;>
      first | exact ⟨SStep.refl s1.safe, ha⟩ | exact ih.expr il r σ1 he.2 (k1.inv i) s1.safe
  | call name args spans tok lp rp =>
    simp only [Spec.expr]
    apply (ih.exprs il args σ he.2 i h).bind (K.exprs il args σ i)
    intro vs σ1 k1 s1 hvs
    exact call_sstep K ih name args.length vs spans tok lp rp σ1 (k1.inv i) s1.safe he.1 hvs

theorem block_sstep (il fn ss σ) (hw : WFList il fn ss) (hs : SsOK ss) (i : SInv il σ) (h : SafeSt σ) :
    Post σ SigC (Spec.block cfg (f+1) ss σ) := by
  cases ss with
  | nil => simp only [Spec.block]; exact ⟨SStep.refl h, trivial⟩
  | cons s ss =>
    simp only [Spec.block]
    apply (ih.stmt il fn s σ hw.1 hs.1 i h).bind (K.stmt il fn s σ hw.1 i)
    intro sig σ1 g1 s1 hsig
    cases sig with
    | normal => exact ih.block il fn ss σ1 hw.2 hs.2 (g1.1.inv i) s1.safe
    | brk => exact ⟨SStep.refl s1.safe, hsig⟩
    | cont => exact ⟨SStep.refl s1.safe, hsig⟩
    | ret v => exact ⟨SStep.refl s1.safe, hsig⟩

/-- one loop iteration's body, then `k` decides how the loop continues -/
theorem body_then_s {fn : Bool} (body : Stmt) (σ : St) (hw : WFStmt true fn body) (hs : SOK body)
    (i : SInv true σ) (h : SafeSt σ) (cont : St → Res (Sig × St))
    (hcont : ∀ σ', SInv true σ' → SafeSt σ' → Post σ' SigC (cont σ')) :
    Post σ SigC
      ((Spec.stmt cfg f body σ).bind fun (sig, σ) =>
        match sig with
        | .brk => .ok (.normal, σ)
        | .ret v => .ok (.ret v, σ)
        | _ => cont σ) := by
  apply (ih.stmt true fn body σ hw hs i h).bind (K.stmt true fn body σ hw i)
  intro sig σ1 g1 s1 hsig
  cases sig with
  | normal => exact hcont σ1 (g1.1.inv i) s1.safe
  | cont => exact hcont σ1 (g1.1.inv i) s1.safe
  | brk => exact ⟨SStep.refl s1.safe, trivial⟩
  | ret v => exact ⟨SStep.refl s1.safe, hsig⟩

theorem repeatLoop_sstep (fn k body σ) (hw : WFStmt true fn body) (hs : SOK body) (i : SInv true σ)
    (h : SafeSt σ) : Post σ SigC (Spec.repeatLoop cfg (f+1) k body σ) := by
  cases k with
  | zero => simp only [Spec.repeatLoop]; exact ⟨SStep.refl h, trivial⟩
  | succ k =>
    simp only [Spec.repeatLoop]
    exact body_then_s K ih body σ hw hs i h _ (fun σ' i' h' => ih.repeatLoop fn k body σ' hw hs i' h')

theorem untilLoop_sstep (fn c body σ) (hw : WFStmt true fn body) (hc : EOK c) (hs : SOK body) (i : SInv true σ)
    (h : SafeSt σ) : Post σ SigC (Spec.untilLoop cfg (f+1) c body σ) := by
  simp only [Spec.untilLoop]
  apply (ih.expr true c σ hc i h).bind (K.expr true c σ i)
  intro v σ1 k1 s1 _
  dsimp only
  split
  · exact ⟨SStep.refl s1.safe, trivial⟩
  · exact body_then_s K ih body σ1 hw hs (k1.inv i) s1.safe _
      (fun σ' i' h' => ih.untilLoop fn c body σ' hw hc hs i' h')

theorem forLoop_sstep (fn item a idx len body σ) (hw : WFStmt true fn body) (hs : SOK body) (i : SInv true σ)
    (h : SafeSt σ) : Post σ SigC (Spec.forLoop cfg (f+1) item a idx len body σ) := by
  simp only [Spec.forLoop]
  split
  · exact ⟨SStep.refl h, trivial⟩
  · cases hel : (getList σ a).bind (fun vs => vs[idx]?) with
    | none => exact ⟨SStep.refl h, trivial⟩
    | some v =>
      dsimp only
      have hv := forElem_closed h hel
      apply (define_post σ item v h hv).bind (OkS.of_okSameS (fun σ1 hd => define_same σ item v σ1 hd))
      intro σ1 sm1 s1
      have i1 := (Keeps.of_same i sm1).inv i
      apply (ih.stmt true fn body σ1 hw hs i1 s1.safe).bind (K.stmt true fn body σ1 hw i1)
      intro sig σ2 g2 s2 hsig
      have i2 := g2.1.inv i1
      cases sig with
      | ret w => exact ⟨SStep.refl s2.safe, hsig⟩
      | brk => exact ⟨SStep.refl s2.safe, trivial⟩
      | cont => exact ih.forLoop fn item a (idx + 1) len body σ2 hw hs i2 s2.safe
      | normal =>
        dsimp only
        apply (removeVar_post σ2 item s2.safe).bind
          (OkP.of_okSame (fun c σ3 hr => removeVar_same σ2 item c σ3 hr))
        intro cur σ3 sm3 s3 hcur
        have i3 := (Keeps.of_same i2 sm3).inv i2
        have s4 := writeBack_step σ3 a idx cur s3.safe hcur
        have i4 := (Keeps.of_same i3 (writeBack_same σ3 a idx cur)).inv i3
        exact Post.trans s4 (ih.forLoop fn item a (idx + 1) len body _ hw hs i4 s4.safe)

theorem program_sstep (ss σ) (hw : WFList false false ss) (hs : SsOK ss) (i : SInv false σ) (h : SafeSt σ) :
    PostS σ (Spec.program cfg (f+1) ss σ) := by
  cases ss with
  | nil => simp only [Spec.program]; exact SStep.refl h
  | cons s ss =>
    simp only [Spec.program]
    apply (ih.stmt false false s σ hw.1 hs.1 i h).bindS (K.stmt false false s σ hw.1 i)
    intro sig σ1 g1 s1 _
    exact ih.program ss σ1 hw.2 hs.2 (g1.1.inv i) s1.safe

end step

section step2
variable {cfg : Cfg} {f : Nat} (hc : CfgOK cfg) (hp : ParseWF) (F : FrontOK cfg)
  (K : SpecKeeps cfg f) (ih : SafeAll cfg f)
include hc hp F K ih

theorem stmt_sstep (il fn s σ0) (hw : WFStmt il fn s) (hs : SOK s) (i0 : SInv il σ0) (h0 : SafeSt σ0) :
    Post σ0 SigC (Spec.stmt cfg (f+1) s σ0) := by
  simp only [Spec.stmt]
  cases ht : tick σ0 with
  | none => trivial
  | some σ =>
    have k0 : Keeps σ0 σ := Keeps.of_same i0 (tick_same σ0 σ ht)
    have i := k0.inv i0
    have st0 := tick_step ht h0
    have h := st0.safe
    apply Post.trans st0
    cases s with
    | expr e =>
      dsimp only
      apply (ih.expr il e σ hs i h).bind (K.expr il e σ i)
      intro v σ1 k1 s1 _
      exact ⟨SStep.refl s1.safe, trivial⟩
    | ifs c t e it et =>
      dsimp only
      apply (ih.expr il c σ hs.1 i h).bind (K.expr il c σ i)
      intro v σ1 k1 s1 _
      dsimp only
      split
      · exact ih.stmt il fn t σ1 hw.1 hs.2.1 (k1.inv i) s1.safe
      · cases e with
        | none => exact ⟨SStep.refl s1.safe, trivial⟩
        | some e => exact ih.stmt il fn e σ1 hw.2 hs.2.2 (k1.inv i) s1.safe
    | repeatTimes count body rt tt ct =>
      dsimp only
      apply (ih.expr il count σ hs.1 i h).bind (K.expr il count σ i)
      intro v σ1 k1 s1 _
      have i1 := k1.inv i
      cases v with
      | num n =>
        dsimp only
        have ip : SInv true ({ σ1 with loops := {} :: σ1.loops } : St) :=
          ⟨i1.ret, rfl, i1.pw, i1.ew, by intro _ h; cases h⟩
        have hp' := (SStep.loops s1.safe ({} :: σ1.loops)).safe
        exact loop_wrap_s (il := il) s1.safe (ih.repeatLoop fn (countOf n) body _ hw hs.2 ip hp')
          (K.repeatLoop fn (countOf n) body _ hw ip)
      | null => trivial
      | bool b => trivial
      | str x => trivial
      | list a => trivial
      | obj a => trivial
    | repeatUntil cond body rt ut =>
      dsimp only
      have ip : SInv true ({ σ with loops := {} :: σ.loops } : St) :=
        ⟨i.ret, rfl, i.pw, i.ew, by intro _ h; cases h⟩
      have hp' := (SStep.loops h ({} :: σ.loops)).safe
      exact loop_wrap_s (il := il) h (ih.untilLoop fn cond body _ hw hs.1 hs.2 ip hp')
        (K.untilLoop fn cond body _ hw ip)
    | procDecl name params body exported pt nt =>
      dsimp only
      have hu : UserSOK (Proc.user (params.map (·.1)) body) := hs
      refine ⟨⟨⟨h.heap, h.ne, h.vars, procsSOK_insert h.pk hu, ?_⟩, HeapLe.refl _, rfl⟩, trivial⟩
      dsimp only
      split
      · exact procsSOK_insert h.ek hu
      · exact h.ek
    | ret tok value =>
      dsimp only
      cases value with
      | none => exact ⟨SStep.refl h, trivial⟩
      | some e =>
        dsimp only
        apply (ih.expr il e σ hs i h).bind (K.expr il e σ i)
        intro v σ1 k1 s1 hv
        exact ⟨SStep.refl s1.safe, hv⟩
    | cont tok =>
      dsimp only
      cases hl : σ.loops with
      | nil => exact absurd hl (i.il hw)
      | cons lc rest => exact ⟨SStep.refl h, trivial⟩
    | brk tok =>
      dsimp only
      cases hl : σ.loops with
      | nil => exact absurd hl (i.il hw)
      | cons lc rest => exact ⟨SStep.refl h, trivial⟩
    | block lb stmts rb =>
      dsimp only
      obtain ⟨σ1, hcn, h1, hh1, hl1⟩ := createNested_ok σ h
      rw [hcn]
      simp only [Res.bind_ok]
      have i1 := (Keeps.of_same i (createNested_same σ σ1 hcn)).inv i
      obtain ⟨n, hn⟩ : ∃ n, σ.scopes.length = n + 1 := by
        cases hsc : σ.scopes with
        | nil => exact absurd hsc h.ne
        | cons a r => exact ⟨r.length, by simp⟩
      apply Post.bind' (ih.block il fn stmts σ1 hw hs i1 h1) (K.block il fn stmts σ1 hw i1)
      intro sig σ' g s hsig
      dsimp only
      obtain ⟨σ2, hfl, h2, hh2, hl2, _⟩ := flattenNested_ok σ' s.safe n (by rw [s.len, hl1, hn])
      rw [hfl]
      simp only [Res.bind_ok]
      refine ⟨⟨h2, ?_, by rw [hl2, hn]⟩, hsig.heap_eq hh2⟩
      rw [hh2, ← hh1]
      exact s.le
    | import_ it mt ft only modName =>
      dsimp only
      have himp := importStmt_post hc hp F (fun prog σm => Spec.program cfg f prog σm)
        (fun prog σm hwf hsok im hms => ih.program prog σm hwf hsok im hms) only modName σ h hs.1 hs.2
      cases hr : importStmt cfg (fun prog σm => Spec.program cfg f prog σm) only modName σ with
      | ok σ1 =>
        rw [hr] at himp
        simp only [Res.bind_ok]
        exact ⟨himp, trivial⟩
      | err e st => trivial
      | terminate w st => rw [hr] at himp; exact himp
      | panic p o => rw [hr] at himp; exact himp
      | fuel => trivial
    | forEach item itok list body ft et int lt =>
      dsimp only
      apply (ih.expr il list σ hs.1 i h).bind (K.expr il list σ i)
      intro v σ1 k1 s1 hv
      have i1 := k1.inv i
      dsimp only
      have hsel : Post σ1 (fun a σ' => (Value.list a).ClosedIn σ'.heap) (match (generalizing := false) v with
          | .list a => .ok (a, σ1)
          | .str s => .ok ((allocCell σ1 (.list ((StrOps.charsToStrs s).map Value.str))).1,
              (allocCell σ1 (.list ((StrOps.charsToStrs s).map Value.str))).2)
          | _ => rtErr "Invalid Iterator" lt.span σ1 : Res (Nat × St)) := by
        cases v with
        | list a => exact ⟨SStep.refl s1.safe, hv⟩
        | str s =>
          exact ⟨SStep.alloc s1.safe (c := .list ((StrOps.charsToStrs s).map Value.str)) (strs_closed _ _),
            sortAt_append_new σ1.heap (.list ((StrOps.charsToStrs s).map Value.str))⟩
        | null => trivial
        | bool b => trivial
        | num x => trivial
        | obj a => trivial
      have hselK : OkP (fun _ σ' => SameCtl σ1 σ') (match (generalizing := false) v with
          | .list a => .ok (a, σ1)
          | .str s => .ok ((allocCell σ1 (.list ((StrOps.charsToStrs s).map Value.str))).1,
              (allocCell σ1 (.list ((StrOps.charsToStrs s).map Value.str))).2)
          | _ => rtErr "Invalid Iterator" lt.span σ1 : Res (Nat × St)) := by
        cases v <;> first | exact SameCtl.rfl' _ | exact allocCell_same _ _ | trivial
      apply hsel.bind hselK
      intro a σ2 sm2 s2 ha
      have i2 := (Keeps.of_same i1 sm2).inv i1
      dsimp only
      apply (removeVar_post σ2 item s2.safe).bind
        (OkP.of_okSame (fun c σ3 hr => removeVar_same σ2 item c σ3 hr))
      intro cached σ3 sm3 s3 hcached
      have i3 := (Keeps.of_same i2 sm3).inv i2
      dsimp only
      obtain ⟨vs, hg⟩ := getList_of_closed (Value.ClosedIn.mono s3.le ha)
      simp only [hg, Res.bind_ok]
      have ip : SInv true ({ σ3 with loops := {} :: σ3.loops } : St) :=
        ⟨i3.ret, rfl, i3.pw, i3.ew, by intro _ h; cases h⟩
      have hp' := (SStep.loops s3.safe ({} :: σ3.loops)).safe
      exact loop_wrap_for_s s3.safe item cached hcached
        (ih.forLoop fn item a 0 vs.length body _ hw hs.2 ip hp')
        (K.forLoop fn item a 0 vs.length body _ hw ip)

end step2

/-- **the reference semantics never panics**, for every fuel -/
theorem safeAll {cfg : Cfg} (hc : CfgOK cfg) (hp : ParseWF) (F : FrontOK cfg) : ∀ f, SafeAll cfg f
  | 0 => safeAll_zero cfg
  | f+1 =>
    have ih := safeAll hc hp F f
    have K := specKeeps hc hp f
    { expr := expr_sstep K ih, exprs := exprs_sstep K ih, stmt := stmt_sstep hc hp F K ih,
      block := block_sstep K ih, repeatLoop := repeatLoop_sstep K ih, untilLoop := untilLoop_sstep K ih,
      forLoop := forLoop_sstep K ih, program := program_sstep K ih }

end Aplang
