import Aplang.Model.Parser
/-!
# Fuel monotonicity of the expression parser model

A successful run stays the same run with more fuel: `f ≤ g → expression f s = .ok e s' → expression g s = .ok e s'`
(and likewise for every function of the ladder). Needed by the completeness statements, which assert
`∃ fuel, …`.
-/
namespace Aplang
namespace P

/-- every success of `r1` is the same success of `r2` -/
def Mono {α} (r1 r2 : PRes α) : Prop := ∀ a s, r1 = .ok a s → r2 = .ok a s

theorem Mono.refl {α} (r : PRes α) : Mono r r := fun _ _ h => h
theorem Mono.fuel {α} (r : PRes α) : Mono .fuel r := fun _ _ h => by cases h
theorem Mono.bind {α β} {r1 r2 : PRes α} {k1 k2 : α → PState → PRes β} (h : Mono r1 r2)
    (hk : ∀ a s, Mono (k1 a s) (k2 a s)) : Mono (r1.bind k1) (r2.bind k2) := by
  intro b s'' hb
  cases r1 with
  | ok a s' => rw [h a s' rfl]; exact hk a s' b s'' hb
  | err e s' => cases hb
  | panic m => cases hb
  | fuel => cases hb
theorem Mono.bind_same {α β} (r : PRes α) {k1 k2 : α → PState → PRes β}
    (hk : ∀ a s, Mono (k1 a s) (k2 a s)) : Mono (r.bind k1) (r.bind k2) := Mono.bind (Mono.refl r) hk

structure ExprMono (f g : Nat) : Prop where
  expression : ∀ s, Mono (expression f s) (expression g s)
  assignment : ∀ s, Mono (assignment f s) (assignment g s)
  orE : ∀ s, Mono (orE f s) (orE g s)
  orLoop : ∀ l s, Mono (orLoop f l s) (orLoop g l s)
  andE : ∀ s, Mono (andE f s) (andE g s)
  andLoop : ∀ l s, Mono (andLoop f l s) (andLoop g l s)
  binLevel : ∀ lvl s, Mono (binLevel f lvl s) (binLevel g lvl s)
  binLoop : ∀ lvl l s, Mono (binLoop f lvl l s) (binLoop g lvl l s)
  unary : ∀ s, Mono (unary f s) (unary g s)
  access : ∀ s, Mono (access f s) (access g s)
  accessLoop : ∀ t e s, Mono (accessLoop f t e s) (accessLoop g t e s)
  primary : ∀ s, Mono (primary f s) (primary g s)
  callArgs : ∀ a t s, Mono (callArgs f a t s) (callArgs g a t s)
  listItems : ∀ a s, Mono (listItems f a s) (listItems g a s)

theorem exprMono_zero (g : Nat) : ExprMono 0 g := by
  constructor <;> intros <;> simp only [P.expression, P.assignment, P.orE, P.orLoop, P.andE, P.andLoop,
    P.binLevel, P.binLoop, P.unary, P.access, P.accessLoop, P.primary, P.callArgs, P.listItems] <;>
    exact Mono.fuel _

section step
variable {f g : Nat} (ih : ExprMono f g)
include ih

theorem expression_mstep (s) : Mono (expression (f+1) s) (expression (g+1) s) := by
  simp only [P.expression]; exact ih.assignment s

theorem assignment_mstep (s) : Mono (assignment (f+1) s) (assignment (g+1) s) := by
  simp only [P.assignment]
  apply Mono.bind (ih.orE s)
  intro e s1
  apply Mono.bind_same; intro exprTok s2
  apply Mono.bind_same; intro m s3
  cases m with
  | none => exact Mono.refl _
  | some arrow =>
    dsimp only
    apply Mono.bind (ih.assignment _)
    intro value s4
    exact Mono.refl _

theorem orE_mstep (s) : Mono (orE (f+1) s) (orE (g+1) s) := by
  simp only [P.orE]
  exact Mono.bind (ih.andE s) (fun e s1 => ih.orLoop e s1)

theorem orLoop_mstep (l s) : Mono (orLoop (f+1) l s) (orLoop (g+1) l s) := by
  simp only [P.orLoop]
  apply Mono.bind_same; intro m s1
  cases m with
  | none => exact Mono.refl _
  | some tok => exact Mono.bind (ih.andE _) (fun r s2 => ih.orLoop _ s2)

theorem andE_mstep (s) : Mono (andE (f+1) s) (andE (g+1) s) := by
  simp only [P.andE]
  exact Mono.bind (ih.binLevel _ s) (fun e s1 => ih.andLoop e s1)

theorem andLoop_mstep (l s) : Mono (andLoop (f+1) l s) (andLoop (g+1) l s) := by
  simp only [P.andLoop]
  apply Mono.bind_same; intro m s1
  cases m with
  | none => exact Mono.refl _
  | some tok => exact Mono.bind (ih.andE _) (fun r s2 => ih.andLoop _ s2)

theorem operand_mono (lvl : BinLevel) (s) :
    Mono (match lvl.next with | some n => binLevel f n s | none => unary f s)
         (match lvl.next with | some n => binLevel g n s | none => unary g s) := by
  cases lvl.next with
  | some n => exact ih.binLevel n s
  | none => exact ih.unary s

theorem binLevel_mstep (lvl s) : Mono (binLevel (f+1) lvl s) (binLevel (g+1) lvl s) := by
  simp only [P.binLevel]
  exact Mono.bind (operand_mono ih lvl s) (fun e s1 => ih.binLoop lvl e s1)

theorem binLoop_mstep (lvl l s) : Mono (binLoop (f+1) lvl l s) (binLoop (g+1) lvl l s) := by
  simp only [P.binLoop]
  apply Mono.bind_same; intro m s1
  cases m with
  | none => exact Mono.refl _
  | some tok =>
    dsimp only
    apply Mono.bind (operand_mono ih lvl s1)
    intro right s2
    cases toBinOp tok.tt with
    | none => exact Mono.refl _
    | some op => exact ih.binLoop lvl _ s2

theorem unary_mstep (s) : Mono (unary (f+1) s) (unary (g+1) s) := by
  simp only [P.unary]
  apply Mono.bind_same; intro m s1
  cases m with
  | none => exact ih.access s1
  | some tok => exact Mono.bind (ih.unary _) (fun r s2 => Mono.refl _)

theorem access_mstep (s) : Mono (access (f+1) s) (access (g+1) s) := by
  simp only [P.access]
  apply Mono.bind (ih.primary s)
  intro e s1
  apply Mono.bind_same; intro t s2
  exact ih.accessLoop t e s2

theorem accessLoop_mstep (t e s) : Mono (accessLoop (f+1) t e s) (accessLoop (g+1) t e s) := by
  simp only [P.accessLoop]
  apply Mono.bind_same; intro m s1
  cases m with
  | none => exact Mono.refl _
  | some lb =>
    dsimp only
    apply Mono.bind (ih.expression _)
    intro index s2
    apply Mono.bind_same; intro rb s3
    exact ih.accessLoop t _ s3

theorem callArgs_mstep (a t s) : Mono (callArgs (f+1) a t s) (callArgs (g+1) a t s) := by
  simp only [P.callArgs]
  split
  · exact Mono.refl _
  · apply Mono.bind (ih.expression s)
    intro e s1
    apply Mono.bind_same; intro nxt s2
    apply Mono.bind_same; intro m s3
    cases m with
    | none => exact Mono.refl _
    | some _ => exact ih.callArgs _ _ s3

theorem listItems_mstep (a s) : Mono (listItems (f+1) a s) (listItems (g+1) a s) := by
  simp only [P.listItems]
  apply Mono.bind (ih.expression s)
  intro e s1
  apply Mono.bind_same; intro m s3
  cases m with
  | none => exact Mono.refl _
  | some _ => exact ih.listItems _ s3

theorem primary_mstep (s) : Mono (primary (f+1) s) (primary (g+1) s) := by
  simp only [P.primary]
  apply Mono.bind_same; intro m s
  cases m with
  | some tok => exact Mono.refl _
  | none =>
  dsimp only
  apply Mono.bind_same; intro m s
  cases m with
  | some tok => exact Mono.refl _
  | none =>
  dsimp only
  apply Mono.bind_same; intro m s
  cases m with
  | some tok => exact Mono.refl _
  | none =>
  dsimp only
  apply Mono.bind_same; intro m s
  cases m with
  | some tok => exact Mono.refl _
  | none =>
  dsimp only
  apply Mono.bind_same; intro m s
  cases m with
  | some tok => exact Mono.refl _
  | none =>
  dsimp only
  apply Mono.bind_same; intro m s
  cases m with
  | some tok =>
    dsimp only
    apply Mono.bind_same; intro m s
    cases m with
    | none => exact Mono.refl _
    | some lp =>
      dsimp only
      apply Mono.bind_same; intro c s
      apply Mono.bind
      · split
        · exact Mono.refl _
        · exact ih.callArgs _ _ s
      · intro p s; exact Mono.refl _
  | none =>
  dsimp only
  apply Mono.bind_same; intro m s
  cases m with
  | some lp =>
    dsimp only
    exact Mono.bind (ih.expression _) (fun e s => Mono.refl _)
  | none =>
  dsimp only
  apply Mono.bind_same; intro m s
  cases m with
  | some lb =>
    dsimp only
    apply Mono.bind_same; intro c s
    apply Mono.bind
    · split
      · exact Mono.refl _
      · exact ih.listItems _ s
    · intro p s; exact Mono.refl _
  | none => exact Mono.refl _

end step

theorem exprMono_succ {f g : Nat} (ih : ExprMono f g) : ExprMono (f+1) (g+1) :=
  { expression := expression_mstep ih, assignment := assignment_mstep ih, orE := orE_mstep ih,
    orLoop := orLoop_mstep ih, andE := andE_mstep ih, andLoop := andLoop_mstep ih,
    binLevel := binLevel_mstep ih, binLoop := binLoop_mstep ih, unary := unary_mstep ih,
    access := access_mstep ih, accessLoop := accessLoop_mstep ih, primary := primary_mstep ih,
    callArgs := callArgs_mstep ih, listItems := listItems_mstep ih }

/-- **fuel monotonicity** of the expression ladder -/
theorem exprMono : ∀ {f g : Nat}, f ≤ g → ExprMono f g
  | 0, g, _ => exprMono_zero g
  | f+1, 0, h => absurd h (by omega)
  | f+1, g+1, h => exprMono_succ (exprMono (Nat.le_of_succ_le_succ h))

end P
end Aplang
