import Aplang.Model.Interp
/-!
# Byte ranges inside a source text (basics for C11, first sentence)

* `Bd src p`: `p` is the byte offset of a character boundary of `src` (the byte length of a prefix), hence `p ≤ ulen src`;
* `SpIn pos sp` / `TokIn pos t`: both ends of a span / of a token's range are *good positions* `pos`
  (the theorems are stated for an arbitrary predicate `pos : Nat → Prop`; the instance is `Bd src`);
* `InSrc src sp`: the range lies inside `src` and both ends are character boundaries — what a renderer
  needs to slice the source line;
* every span the parser or the evaluator derives from two tokens (`spanBetween`, `interior`, `windowSpans`) is
  `SpIn` as soon as the two tokens are `TokIn` — **in whatever order the two tokens stand**: the length is a
  truncated subtraction, so a reversed pair gives the empty range at the end of the first token;
* `ExprIn pos` / `StmtIn pos M`: every token and every stored span of a syntax tree is in; `M` is an
  additional condition on the module-name token of every IMPORT statement (used to say "imports no user module").
-/
namespace Aplang

/-- `p` is the byte offset of a character boundary of `src` -/
def Bd (src : Str) (p : Nat) : Prop := ∃ pre post, src = pre ++ post ∧ ulen pre = p

theorem Bd.le {src : Str} {p : Nat} (h : Bd src p) : p ≤ ulen src := by
  obtain ⟨pre, post, rfl, rfl⟩ := h
  rw [ulen_append]; omega

theorem Bd.zero (src : Str) : Bd src 0 := ⟨[], src, rfl, rfl⟩
theorem Bd.full (src : Str) : Bd src (ulen src) := ⟨src, [], by simp, rfl⟩

/-- a boundary is never strictly inside the encoding of a character -/
theorem Bd.not_inside {pre post : Str} {c : Char} {p : Nat} (h : Bd (pre ++ c :: post) p)
    (h1 : ulen pre < p) : ulen pre + c.utf8Size ≤ p := by
  obtain ⟨a, b, hab, rfl⟩ := h
  induction pre generalizing a with
  | nil =>
    cases a with
    | nil => simp at h1
    | cons x a => simp only [List.nil_append, List.cons_append, List.cons.injEq] at hab
                  obtain ⟨rfl, _⟩ := hab; simp only [ulen_nil, ulen_cons]; omega
  | cons x pre ih =>
    cases a with
    | nil => simp at h1
    | cons y a =>
      simp only [List.cons_append, List.cons.injEq] at hab
      obtain ⟨rfl, hab⟩ := hab
      have := ih a hab (by simp only [ulen_cons] at h1; omega)
      simp only [ulen_cons]; omega

/-- both ends of the span are good positions -/
def SpIn (pos : Nat → Prop) (sp : Span) : Prop := pos sp.1 ∧ pos (sp.1 + sp.2)

/-- both ends of the token's range are good positions -/
def TokIn (pos : Nat → Prop) (t : Token) : Prop := pos t.off ∧ pos (t.off + t.len)

/-- **the statement of C11 for one labelled range**: it lies inside the source text and starts and ends on
character boundaries -/
def InSrc (src : Str) (sp : Span) : Prop :=
  sp.1 + sp.2 ≤ ulen src ∧ Bd src sp.1 ∧ Bd src (sp.1 + sp.2)

theorem SpIn.inSrc {src : Str} {sp : Span} (h : SpIn (Bd src) sp) : InSrc src sp := ⟨h.2.le, h.1, h.2⟩
theorem InSrc.spIn {src : Str} {sp : Span} (h : InSrc src sp) : SpIn (Bd src) sp := ⟨h.2.1, h.2.2⟩

/-- the text the range selects: the source is `pre ++ text ++ post` with `pre` of `sp.1` bytes and `text` of `sp.2` bytes -/
theorem InSrc.slice {src : Str} {sp : Span} (h : InSrc src sp) :
    ∃ pre text post, src = pre ++ text ++ post ∧ ulen pre = sp.1 ∧ ulen text = sp.2 := by
  obtain ⟨_, ⟨p1, q1, h1, hp1⟩, ⟨p2, q2, h2, hp2⟩⟩ := h
  -- p1 is a prefix of p2
  have key : ∀ (p1 p2 q1 q2 : Str), p1 ++ q1 = p2 ++ q2 → ulen p1 ≤ ulen p2 → ∃ m, p2 = p1 ++ m := by
    intro p1
    induction p1 with
    | nil => intro p2 _ _ _ _; exact ⟨p2, rfl⟩
    | cons x p1 ih =>
      intro p2 q1 q2 he hl
      cases p2 with
      | nil => have := utf8Size_pos x; simp only [ulen_cons, ulen_nil] at hl; omega
      | cons y p2 =>
        simp only [List.cons_append, List.cons.injEq] at he
        obtain ⟨rfl, he⟩ := he
        obtain ⟨m, rfl⟩ := ih p2 q1 q2 he (by simp only [ulen_cons] at hl; omega)
        exact ⟨m, rfl⟩
  obtain ⟨m, rfl⟩ := key p1 p2 q1 q2 (h1.symm.trans h2) (by omega)
  refine ⟨p1, m, q2, h2, hp1, ?_⟩
  rw [ulen_append] at hp2; omega

theorem TokIn.span {pos : Nat → Prop} {t : Token} (h : TokIn pos t) : SpIn pos t.span := h

/-- the range from the end of one token to the start of another (empty when they stand the other way round) -/
theorem spanBetween_in {pos : Nat → Prop} {a b : Token} (ha : TokIn pos a) (hb : TokIn pos b) :
    SpIn pos (spanBetween a b) := by
  refine ⟨ha.2, ?_⟩
  show pos (a.endOff + (b.off - a.endOff))
  by_cases h : a.endOff ≤ b.off
  · rw [Nat.add_sub_cancel' h]; exact hb.1
  · rw [Nat.sub_eq_zero_of_le (by omega)]; exact ha.2

theorem interior_in {pos : Nat → Prop} {a b : Token} (ha : TokIn pos a) (hb : TokIn pos b) :
    SpIn pos (interior a b) := spanBetween_in ha hb

theorem windowSpans_in {pos : Nat → Prop} : ∀ (ts : List Token), (∀ t ∈ ts, TokIn pos t) →
    ∀ sp ∈ P.windowSpans ts, SpIn pos sp
  | [], _, sp, h => by simp [P.windowSpans] at h
  | [_], _, sp, h => by simp [P.windowSpans] at h
  | a :: b :: r, ht, sp, h => by
    simp only [P.windowSpans, List.mem_cons] at h
    rcases h with rfl | h
    · exact spanBetween_in (ht a (by simp)) (ht b (by simp))
    · exact windowSpans_in (b :: r) (fun t h' => ht t (List.mem_cons_of_mem _ h')) sp h

/-! ## syntax trees -/

def OptTokIn (pos : Nat → Prop) : Option Token → Prop
  | none => True
  | some t => TokIn pos t

mutual
/-- every token and every argument span of the expression is in -/
def ExprIn (pos : Nat → Prop) : Expr → Prop
  | .lit _ t => TokIn pos t
  | .binary l _ r t => ExprIn pos l ∧ ExprIn pos r ∧ TokIn pos t
  | .logical l _ r t => ExprIn pos l ∧ ExprIn pos r ∧ TokIn pos t
  | .unary _ r t => ExprIn pos r ∧ TokIn pos t
  | .grouping e lp rp => ExprIn pos e ∧ TokIn pos lp ∧ TokIn pos rp
  | .call _ args spans tok lp rp =>
    ExprsIn pos args ∧ (∀ sp ∈ spans, SpIn pos sp) ∧ TokIn pos tok ∧ TokIn pos lp ∧ TokIn pos rp
  | .access l lt k lb rb => ExprIn pos l ∧ ExprIn pos k ∧ TokIn pos lt ∧ TokIn pos lb ∧ TokIn pos rb
  | .list items lb rb => ExprsIn pos items ∧ TokIn pos lb ∧ TokIn pos rb
  | .var _ t => TokIn pos t
  | .assign _ nt v arrow => ExprIn pos v ∧ TokIn pos nt ∧ TokIn pos arrow
  | .set l lt i lb rb v arrow =>
    ExprIn pos l ∧ ExprIn pos i ∧ ExprIn pos v ∧ TokIn pos lt ∧ TokIn pos lb ∧ TokIn pos rb ∧ TokIn pos arrow
def ExprsIn (pos : Nat → Prop) : List Expr → Prop
  | [] => True
  | e :: es => ExprIn pos e ∧ ExprsIn pos es
end

def OptExprIn (pos : Nat → Prop) : Option Expr → Prop
  | none => True
  | some e => ExprIn pos e

mutual
/-- every token and span of the statement is in; the module-name token of every IMPORT satisfies `M` -/
def StmtIn (pos : Nat → Prop) (M : Token → Prop) : Stmt → Prop
  | .expr e => ExprIn pos e
  | .ifs c t e ifTok elseTok =>
    ExprIn pos c ∧ StmtIn pos M t ∧ OptStmtIn pos M e ∧ TokIn pos ifTok ∧ OptTokIn pos elseTok
  | .repeatTimes c b rt tt ct => ExprIn pos c ∧ StmtIn pos M b ∧ TokIn pos rt ∧ TokIn pos tt ∧ TokIn pos ct
  | .repeatUntil c b rt ut => ExprIn pos c ∧ StmtIn pos M b ∧ TokIn pos rt ∧ TokIn pos ut
  | .forEach _ it l b ft et int lt =>
    ExprIn pos l ∧ StmtIn pos M b ∧ TokIn pos it ∧ TokIn pos ft ∧ TokIn pos et ∧ TokIn pos int ∧ TokIn pos lt
  | .procDecl _ params b _ pt nt =>
    StmtIn pos M b ∧ (∀ p ∈ params, TokIn pos p.2) ∧ TokIn pos pt ∧ TokIn pos nt
  | .block lb ss rb => StmtsIn pos M ss ∧ TokIn pos lb ∧ TokIn pos rb
  | .ret t v => OptExprIn pos v ∧ TokIn pos t
  | .cont t => TokIn pos t
  | .brk t => TokIn pos t
  | .import_ it mt ft only modName =>
    TokIn pos it ∧ TokIn pos mt ∧ OptTokIn pos ft ∧ (∀ names, only = some names → ∀ t ∈ names, TokIn pos t) ∧
    TokIn pos modName ∧ M modName
def OptStmtIn (pos : Nat → Prop) (M : Token → Prop) : Option Stmt → Prop
  | none => True
  | some s => StmtIn pos M s
def StmtsIn (pos : Nat → Prop) (M : Token → Prop) : List Stmt → Prop
  | [] => True
  | s :: ss => StmtIn pos M s ∧ StmtsIn pos M ss
end

theorem ExprsIn_iff {pos : Nat → Prop} (es : List Expr) : ExprsIn pos es ↔ ∀ e ∈ es, ExprIn pos e := by
  induction es with
  | nil => simp [ExprsIn]
  | cons e es ih => simp [ExprsIn, ih]

theorem StmtsIn_iff {pos : Nat → Prop} {M : Token → Prop} (ss : List Stmt) :
    StmtsIn pos M ss ↔ ∀ s ∈ ss, StmtIn pos M s := by
  induction ss with
  | nil => simp [StmtsIn]
  | cons s ss ih => simp [StmtsIn, ih]

theorem ExprsIn_snoc {pos : Nat → Prop} {es : List Expr} {e : Expr} (h1 : ExprsIn pos es) (h2 : ExprIn pos e) :
    ExprsIn pos (es ++ [e]) := by
  rw [ExprsIn_iff] at *
  intro x hx
  rcases List.mem_append.mp hx with hx | hx
  · exact h1 x hx
  · rw [List.mem_singleton.mp hx]; exact h2

theorem StmtsIn_snoc {pos : Nat → Prop} {M : Token → Prop} {ss : List Stmt} {s : Stmt}
    (h1 : StmtsIn pos M ss) (h2 : StmtIn pos M s) : StmtsIn pos M (ss ++ [s]) := by
  rw [StmtsIn_iff] at *
  intro x hx
  rcases List.mem_append.mp hx with hx | hx
  · exact h1 x hx
  · rw [List.mem_singleton.mp hx]; exact h2

/-! ## the two conditions of `StmtIn` can be established separately -/

mutual
theorem ExprIn.triv : ∀ (e : Expr), ExprIn (fun _ => True) e
  | .lit _ _ => ⟨trivial, trivial⟩
  | .binary l _ r _ => ⟨ExprIn.triv l, ExprIn.triv r, trivial, trivial⟩
  | .logical l _ r _ => ⟨ExprIn.triv l, ExprIn.triv r, trivial, trivial⟩
  | .unary _ r _ => ⟨ExprIn.triv r, trivial, trivial⟩
  | .grouping e _ _ => ⟨ExprIn.triv e, ⟨trivial, trivial⟩, trivial, trivial⟩
  | .call _ args _ _ _ _ =>
    ⟨ExprsIn.triv args, fun _ _ => ⟨trivial, trivial⟩, ⟨trivial, trivial⟩, ⟨trivial, trivial⟩, trivial, trivial⟩
  | .access l _ k _ _ => ⟨ExprIn.triv l, ExprIn.triv k, ⟨trivial, trivial⟩, ⟨trivial, trivial⟩, trivial, trivial⟩
  | .list items _ _ => ⟨ExprsIn.triv items, ⟨trivial, trivial⟩, trivial, trivial⟩
  | .var _ _ => ⟨trivial, trivial⟩
  | .assign _ _ v _ => ⟨ExprIn.triv v, ⟨trivial, trivial⟩, trivial, trivial⟩
  | .set l _ i _ _ v _ =>
    ⟨ExprIn.triv l, ExprIn.triv i, ExprIn.triv v, ⟨trivial, trivial⟩, ⟨trivial, trivial⟩, ⟨trivial, trivial⟩,
     trivial, trivial⟩
theorem ExprsIn.triv : ∀ (es : List Expr), ExprsIn (fun _ => True) es
  | [] => trivial
  | e :: es => ⟨ExprIn.triv e, ExprsIn.triv es⟩
end

theorem OptTokIn.triv (t : Option Token) : OptTokIn (fun _ => True) t := by
  cases t <;> simp [OptTokIn, TokIn]

mutual
/-- positions from one tree property, the IMPORT condition from another -/
theorem StmtIn.both {pos : Nat → Prop} {M : Token → Prop} : ∀ (s : Stmt),
    StmtIn pos (fun _ => True) s → StmtIn (fun _ => True) M s → StmtIn pos M s
  | .expr _, h, _ => h
  | .ifs _ t e _ _, h, h' => by
    simp only [StmtIn] at h h' ⊢
    exact ⟨h.1, StmtIn.both t h.2.1 h'.2.1, OptStmtIn.both e h.2.2.1 h'.2.2.1, h.2.2.2⟩
  | .repeatTimes _ b _ _ _, h, h' => by
    simp only [StmtIn] at h h' ⊢
    exact ⟨h.1, StmtIn.both b h.2.1 h'.2.1, h.2.2⟩
  | .repeatUntil _ b _ _, h, h' => by
    simp only [StmtIn] at h h' ⊢
    exact ⟨h.1, StmtIn.both b h.2.1 h'.2.1, h.2.2⟩
  | .forEach _ _ _ b _ _ _ _, h, h' => by
    simp only [StmtIn] at h h' ⊢
    exact ⟨h.1, StmtIn.both b h.2.1 h'.2.1, h.2.2⟩
  | .procDecl _ _ b _ _ _, h, h' => by
    simp only [StmtIn] at h h' ⊢
    exact ⟨StmtIn.both b h.1 h'.1, h.2⟩
  | .block _ ss _, h, h' => by
    simp only [StmtIn] at h h' ⊢
    exact ⟨StmtsIn.both ss h.1 h'.1, h.2⟩
  | .ret _ _, h, _ => h
  | .cont _, h, _ => h
  | .brk _, h, _ => h
  | .import_ _ _ _ _ _, h, h' => by
    simp only [StmtIn] at h h' ⊢
    exact ⟨h.1, h.2.1, h.2.2.1, h.2.2.2.1, h.2.2.2.2.1, h'.2.2.2.2.2⟩
theorem OptStmtIn.both {pos : Nat → Prop} {M : Token → Prop} : ∀ (s : Option Stmt),
    OptStmtIn pos (fun _ => True) s → OptStmtIn (fun _ => True) M s → OptStmtIn pos M s
  | none, _, _ => trivial
  | some s, h, h' => by
    simp only [OptStmtIn] at h h' ⊢
    exact StmtIn.both s h h'
theorem StmtsIn.both {pos : Nat → Prop} {M : Token → Prop} : ∀ (ss : List Stmt),
    StmtsIn pos (fun _ => True) ss → StmtsIn (fun _ => True) M ss → StmtsIn pos M ss
  | [], _, _ => trivial
  | s :: ss, h, h' => by
    simp only [StmtsIn] at h h' ⊢
    exact ⟨StmtIn.both s h.1 h'.1, StmtsIn.both ss h.2 h'.2⟩
end

mutual
/-- the IMPORT condition can be weakened -/
theorem StmtIn.monoM {pos : Nat → Prop} {M M' : Token → Prop} (hm : ∀ t, M t → M' t) : ∀ (s : Stmt),
    StmtIn pos M s → StmtIn pos M' s
  | .expr _, h => h
  | .ifs _ t e _ _, h => by
    simp only [StmtIn] at h ⊢
    exact ⟨h.1, StmtIn.monoM hm t h.2.1, OptStmtIn.monoM hm e h.2.2.1, h.2.2.2⟩
  | .repeatTimes _ b _ _ _, h => by
    simp only [StmtIn] at h ⊢
    exact ⟨h.1, StmtIn.monoM hm b h.2.1, h.2.2⟩
  | .repeatUntil _ b _ _, h => by
    simp only [StmtIn] at h ⊢
    exact ⟨h.1, StmtIn.monoM hm b h.2.1, h.2.2⟩
  | .forEach _ _ _ b _ _ _ _, h => by
    simp only [StmtIn] at h ⊢
    exact ⟨h.1, StmtIn.monoM hm b h.2.1, h.2.2⟩
  | .procDecl _ _ b _ _ _, h => by
    simp only [StmtIn] at h ⊢
    exact ⟨StmtIn.monoM hm b h.1, h.2⟩
  | .block _ ss _, h => by
    simp only [StmtIn] at h ⊢
    exact ⟨StmtsIn.monoM hm ss h.1, h.2⟩
  | .ret _ _, h => h
  | .cont _, h => h
  | .brk _, h => h
  | .import_ _ _ _ _ _, h => by
    simp only [StmtIn] at h ⊢
    exact ⟨h.1, h.2.1, h.2.2.1, h.2.2.2.1, h.2.2.2.2.1, hm _ h.2.2.2.2.2⟩
theorem OptStmtIn.monoM {pos : Nat → Prop} {M M' : Token → Prop} (hm : ∀ t, M t → M' t) : ∀ (s : Option Stmt),
    OptStmtIn pos M s → OptStmtIn pos M' s
  | none, _ => trivial
  | some s, h => by
    simp only [OptStmtIn] at h ⊢
    exact StmtIn.monoM hm s h
theorem StmtsIn.monoM {pos : Nat → Prop} {M M' : Token → Prop} (hm : ∀ t, M t → M' t) : ∀ (ss : List Stmt),
    StmtsIn pos M ss → StmtsIn pos M' ss
  | [], _ => trivial
  | s :: ss, h => by
    simp only [StmtsIn] at h ⊢
    exact ⟨StmtIn.monoM hm s h.1, StmtsIn.monoM hm ss h.2⟩
end

end Aplang
