import Aplang.Prim.StrOps
/-!
# Laws of the string operations (`Aplang/Prim/StrOps.lean`)

Core Lean only, no `sorry`, no extra axioms (see the `#print axioms` block at the end).

Main results (all for `Str = List Char`):
* `join_split : p ≠ [] → join (split s p) p = s` (and `join_split'` without the hypothesis),
  `split_ne_nil`, `split_no_pat` (no piece contains the separator), `split_eq_singleton_of_not_contains`;
* `replace_eq_join_split` (and `'` for every pattern), `replace_self`;
* `contains_iff`, `startsWith_iff`, `endsWith_iff` (+ versions with `<:+:`, `<+:`, `<:+`);
* `join_chars`, `charsToStrs_length`, `join_eq_intercalate`;
* `substringChars_*`, `trim_idem`, `trim_head_not_ws`, `trimEnd_getLast_not_ws`;
* `lines_no_newline`, `lines_of_no_newline`;
* `formatBraces_isSome`, `formatBraces_eq_none`, `formatBraces_of_not_contains`, `formatBraces_replicate_braces`;
* `toLowerSigma_eq_toLower`, `parseBool_eq_some_true/false`.

Proof technique for the scanners: `splitGo`/`replaceGo` are structurally recursive with a skip counter;
`splitGo_skip`/`replaceGo_skip` turn the counter into `List.drop`, giving the recursion equations
`splitGo_zero_cons`/`replaceGo_zero_cons`; `scan_induction` is the matching induction principle
(at a match continue behind the match, otherwise behind one char).
-/
namespace Aplang.StrOps
open Aplang

theorem isPrefix_iff {p s : Str} : isPrefix p s = true ↔ ∃ b, s = p ++ b := by
  induction p generalizing s with
  | nil => simp [isPrefix]
  | cons a p ih =>
    cases s with
    | nil => simp [isPrefix]
    | cons b s =>
      simp only [isPrefix, Bool.and_eq_true, beq_iff_eq, ih, List.cons_append, List.cons.injEq]
      constructor
      · rintro ⟨rfl, t, rfl⟩; exact ⟨t, rfl, rfl⟩
      · rintro ⟨t, rfl, rfl⟩; exact ⟨rfl, t, rfl⟩

theorem isPrefix_eq_isPrefixOf (p s : Str) : isPrefix p s = p.isPrefixOf s := by
  rw [Bool.eq_iff_iff, isPrefix_iff, List.isPrefixOf_iff_prefix]; 
  constructor
  · rintro ⟨t, rfl⟩; exact ⟨t, rfl⟩
  · rintro ⟨t, rfl⟩; exact ⟨t, rfl⟩

theorem startsWith_iff {s p : Str} : startsWith s p = true ↔ ∃ b, s = p ++ b := isPrefix_iff

theorem endsWith_iff {s p : Str} : endsWith s p = true ↔ ∃ a, s = a ++ p := by
  unfold endsWith
  rw [isPrefix_iff]
  constructor
  · rintro ⟨b, h⟩
    refine ⟨b.reverse, ?_⟩
    have := congrArg List.reverse h
    simpa using this
  · rintro ⟨a, rfl⟩; exact ⟨a.reverse, by simp⟩

theorem contains_iff {s p : Str} : contains s p = true ↔ ∃ a b, s = a ++ p ++ b := by
  induction s with
  | nil =>
    simp only [contains, isPrefix_iff]
    constructor
    · rintro ⟨b, h⟩; exact ⟨[], b, by simpa using h⟩
    · rintro ⟨a, b, h⟩
      have : a = [] := by cases a <;> simp_all
      subst this; exact ⟨b, by simpa using h⟩
  | cons c cs ih =>
    simp only [contains, Bool.or_eq_true, isPrefix_iff, ih]
    constructor
    · rintro (⟨b, h⟩ | ⟨a, b, h⟩)
      · exact ⟨[], b, by simpa using h⟩
      · exact ⟨c :: a, b, by simp [h]⟩
    · rintro ⟨a, b, h⟩
      cases a with
      | nil => left; exact ⟨b, by simpa using h⟩
      | cons d a => 
        right; simp at h; exact ⟨a, b, by simp [h.2]⟩

/-! ## join -/

theorem join_cons_of_ne_nil {x : Str} {l : List Str} (sep : Str) (h : l ≠ []) :
    join (x :: l) sep = x ++ sep ++ join l sep := by
  cases l with
  | nil => exact absurd rfl h
  | cons y r => rfl

theorem charsToStrs_length (s : Str) : (charsToStrs s).length = s.length := by
  simp [charsToStrs]

theorem join_nil_sep (l : List Str) : join l [] = l.flatten := by
  induction l with
  | nil => rfl
  | cons x l ih =>
    cases l with
    | nil => simp [join]
    | cons y r => simp only [join] at ih ⊢; simp [ih]

theorem join_chars (s : Str) : join (charsToStrs s) [] = s := by
  rw [join_nil_sep]; induction s with
  | nil => rfl
  | cons c cs ih => simpa [charsToStrs] using ih

theorem join_eq_intercalate (l : List Str) (sep : Str) : join l sep = sep.intercalate l := by
  induction l with
  | nil => simp [join, List.intercalate]
  | cons x l ih =>
    cases l with
    | nil => simp [join, List.intercalate]
    | cons y r => simp only [join, ih]; simp [List.intercalate, List.intersperse]

/-! ## split: unfolding equations -/

theorem splitGo_skip (p s : Str) (k : Nat) (acc : Str) :
    splitGo p s k acc = splitGo p (s.drop k) 0 acc := by
  induction s generalizing k with
  | nil => simp [splitGo]
  | cons c cs ih =>
    cases k with
    | zero => rfl
    | succ k => simp only [splitGo, List.drop_succ_cons]; exact ih k

theorem drop_pred_length {p : Str} (hp : p ≠ []) (c : Char) (cs : Str) :
    cs.drop (p.length - 1) = (c :: cs).drop p.length := by
  cases p with
  | nil => exact absurd rfl hp
  | cons a p => simp

/-- the `drop`-style recursion equation of the scanner (what a well-founded definition would say) -/
theorem splitGo_zero_cons {p : Str} (hp : p ≠ []) (c : Char) (cs acc : Str) :
    splitGo p (c :: cs) 0 acc =
      if isPrefix p (c :: cs) then acc.reverse :: splitGo p ((c :: cs).drop p.length) 0 []
      else splitGo p cs 0 (c :: acc) := by
  rw [splitGo, splitGo_skip, drop_pred_length hp c cs]

theorem drop_length_lt {p : Str} (hp : p ≠ []) (c : Char) (cs : Str) :
    ((c :: cs).drop p.length).length < (c :: cs).length := by
  cases p with
  | nil => exact absurd rfl hp
  | cons a p => simp; omega

/-- induction principle following the scanner: at a match continue after the match, otherwise after one char -/
theorem scan_induction {p : Str} (hp : p ≠ []) {motive : Str → Prop}
    (nil : motive [])
    (hit : ∀ c cs, isPrefix p (c :: cs) = true → motive ((c :: cs).drop p.length) → motive (c :: cs))
    (miss : ∀ c cs, isPrefix p (c :: cs) = false → motive cs → motive (c :: cs)) :
    ∀ s, motive s := by
  intro s
  induction h : s.length using Nat.strongRecOn generalizing s with
  | ind n ih =>
    cases s with
    | nil => exact nil
    | cons c cs =>
      cases hpre : isPrefix p (c :: cs) with
      | true => exact hit c cs hpre (ih _ (by subst h; exact drop_length_lt hp c cs) _ rfl)
      | false => exact miss c cs hpre (ih _ (by subst h; simp) _ rfl)

theorem prefix_append_drop {p s : Str} (h : isPrefix p s = true) : p ++ s.drop p.length = s := by
  obtain ⟨t, rfl⟩ := isPrefix_iff.mp h
  simp

/-! ## split: laws -/

theorem splitGo_ne_nil (p s : Str) (k : Nat) (acc : Str) : splitGo p s k acc ≠ [] := by
  induction s generalizing k acc with
  | nil => simp [splitGo]
  | cons c cs ih =>
    cases k with
    | zero => simp only [splitGo]; split <;> simp [ih]
    | succ k => simp only [splitGo]; exact ih k acc

theorem split_ne_nil (s p : Str) : split s p ≠ [] := by
  cases p with
  | nil => simp [split]
  | cons a p => exact splitGo_ne_nil _ _ _ _

theorem join_splitGo {p : Str} (hp : p ≠ []) (s : Str) :
    ∀ acc, join (splitGo p s 0 acc) p = acc.reverse ++ s := by
  induction s using scan_induction hp with
  | nil => intro acc; simp [splitGo, join]
  | hit c cs h ih =>
    intro acc
    rw [splitGo_zero_cons hp, if_pos h, join_cons_of_ne_nil _ (splitGo_ne_nil _ _ _ _), ih]
    simp only [List.reverse_nil, List.nil_append, List.append_assoc]
    rw [prefix_append_drop h]
  | miss c cs h ih =>
    intro acc
    rw [splitGo_zero_cons hp, if_neg (by simp [h]), ih]; simp

/-- C14: `JOIN(SPLIT(s, p), p) = s` for every non-empty separator -/
theorem join_split (s p : Str) (hp : p ≠ []) : join (split s p) p = s := by
  cases p with
  | nil => exact absurd rfl hp
  | cons a p => simpa [split] using join_splitGo hp s []

theorem join_charsToStrs_snoc (s t : Str) :
    join (charsToStrs s ++ [[]]) t = s.flatMap (fun c => c :: t) := by
  induction s with
  | nil => rfl
  | cons c cs ih =>
    have : charsToStrs (c :: cs) ++ [[]] = [c] :: (charsToStrs cs ++ [[]]) := rfl
    rw [this, join_cons_of_ne_nil _ (by simp), ih]; simp

/-- the round trip also holds for the empty separator (Rust: `"ab".split("")` = `["", "a", "b", ""]`) -/
theorem join_split' (s p : Str) : join (split s p) p = s := by
  cases p with
  | nil =>
    simp only [split]
    rw [join_cons_of_ne_nil _ (by simp), join_charsToStrs_snoc]
    simp
  | cons a p => exact join_split s (a :: p) (by simp)

/-! ## replace -/

theorem replaceGo_skip (f t s : Str) (k : Nat) : replaceGo f t s k = replaceGo f t (s.drop k) 0 := by
  induction s generalizing k with
  | nil => simp [replaceGo]
  | cons c cs ih =>
    cases k with
    | zero => rfl
    | succ k => simp only [replaceGo, List.drop_succ_cons]; exact ih k

theorem replaceGo_zero_cons {f : Str} (hf : f ≠ []) (t : Str) (c : Char) (cs : Str) :
    replaceGo f t (c :: cs) 0 =
      if isPrefix f (c :: cs) then t ++ replaceGo f t ((c :: cs).drop f.length) 0
      else c :: replaceGo f t cs 0 := by
  rw [replaceGo, replaceGo_skip, drop_pred_length hf c cs]

theorem join_splitGo_eq_replaceGo {f : Str} (hf : f ≠ []) (t s : Str) :
    ∀ acc, join (splitGo f s 0 acc) t = acc.reverse ++ replaceGo f t s 0 := by
  induction s using scan_induction hf with
  | nil => intro acc; simp [splitGo, join, replaceGo]
  | hit c cs h ih =>
    intro acc
    rw [splitGo_zero_cons hf, if_pos h, join_cons_of_ne_nil _ (splitGo_ne_nil _ _ _ _), ih,
      replaceGo_zero_cons hf, if_pos h]
    simp
  | miss c cs h ih =>
    intro acc
    rw [splitGo_zero_cons hf, if_neg (by simp [h]), ih, replaceGo_zero_cons hf, if_neg (by simp [h])]
    simp

/-- `replace` is `split` then `join` with the replacement — for every pattern, including the empty one -/
theorem replace_eq_join_split' (s f t : Str) : replace s f t = join (split s f) t := by
  cases f with
  | nil =>
    simp only [split, replace]
    rw [join_cons_of_ne_nil _ (by simp), join_charsToStrs_snoc]; simp
  | cons a f => simpa [split, replace] using (join_splitGo_eq_replaceGo (f := a :: f) (by simp) t s []).symm

theorem replace_eq_join_split (s f t : Str) (_hf : f ≠ []) : replace s f t = join (split s f) t :=
  replace_eq_join_split' s f t

/-- replacing a pattern by itself changes nothing -/
theorem replace_self (s f : Str) : replace s f f = s := by
  rw [replace_eq_join_split', join_split']

/-! ## no piece contains the separator -/

theorem not_contains_of_length_lt {s p : Str} (h : s.length < p.length) : contains s p = false := by
  rw [Bool.eq_false_iff]; intro hc
  obtain ⟨a, b, rfl⟩ := contains_iff.mp hc
  simp at h; omega

theorem splitGo_no_pat {p : Str} (hp : p ≠ []) (s : Str) :
    ∀ acc, (∀ a b, acc.reverse ++ s = a ++ p ++ b → acc.length ≤ a.length) →
      ∀ piece ∈ splitGo p s 0 acc, contains piece p = false := by
  have hpl : 0 < p.length := List.length_pos_iff.mpr hp
  induction s using scan_induction hp with
  | nil =>
    intro acc inv piece hm
    simp only [splitGo, List.mem_singleton] at hm
    subst hm
    rw [Bool.eq_false_iff]; intro hc
    obtain ⟨a, b, hab⟩ := contains_iff.mp hc
    have h1 := inv a b (by simpa using hab)
    have h2 := congrArg List.length hab
    simp at h2; omega
  | hit c cs h ih =>
    intro acc inv piece hm
    rw [splitGo_zero_cons hp, if_pos h, List.mem_cons] at hm
    rcases hm with rfl | hm
    · rw [Bool.eq_false_iff]; intro hc
      obtain ⟨a, b, hab⟩ := contains_iff.mp hc
      have h1 := inv a (b ++ c :: cs) (by rw [hab]; simp)
      have h2 := congrArg List.length hab
      simp at h2; omega
    · exact ih [] (by intros; simp) piece hm
  | miss c cs h ih =>
    intro acc inv piece hm
    rw [splitGo_zero_cons hp, if_neg (by simp [h])] at hm
    refine ih (c :: acc) ?_ piece hm
    intro a b hab
    have hab' : acc.reverse ++ c :: cs = a ++ p ++ b := by simpa using hab
    have h1 := inv a b hab'
    rcases Nat.lt_or_ge acc.length a.length with hlt | hge
    · simp only [List.length_cons]; omega
    · exfalso
      have hlen : acc.reverse.length = a.length := by simp; omega
      rw [List.append_assoc] at hab'
      have := (List.append_inj hab' hlen).2
      have : isPrefix p (c :: cs) = true := isPrefix_iff.mpr ⟨b, this⟩
      simp [h] at this

/-- no piece of `split s p` (not even the last one) contains the non-empty separator `p` -/
theorem split_no_pat (s p : Str) (hp : p ≠ []) : ∀ piece ∈ split s p, contains piece p = false := by
  cases p with
  | nil => exact absurd rfl hp
  | cons a p =>
    simp only [split]
    exact splitGo_no_pat (by simp) s [] (by intros; simp)

/-- a string without an occurrence of `p` is its own single piece -/
theorem split_eq_singleton_of_not_contains (s p : Str) (hp : p ≠ []) (h : contains s p = false) :
    split s p = [s] := by
  have key : ∀ s : Str, contains s p = false → ∀ acc, splitGo p s 0 acc = [acc.reverse ++ s] := by
    intro s
    induction s using scan_induction hp with
    | nil => intro _ acc; simp [splitGo]
    | hit c cs hpre _ =>
      intro hc; exfalso
      rw [Bool.eq_false_iff] at hc; apply hc
      obtain ⟨b, hb⟩ := isPrefix_iff.mp hpre
      exact contains_iff.mpr ⟨[], b, by simpa using hb⟩
    | miss c cs hpre ih =>
      intro hc acc
      rw [splitGo_zero_cons hp, if_neg (by simp [hpre]), ih]
      · simp
      · simp only [contains, Bool.or_eq_false_iff] at hc; exact hc.2
  cases p with
  | nil => exact absurd rfl hp
  | cons a p => simpa [split] using key s h []

/-! ## substring, trim -/

theorem substringChars_eq_take_drop (s : Str) (start len : Nat) :
    substringChars s start len = (s.drop (start - 1)).take len := rfl

theorem substringChars_length_le (s : Str) (start len : Nat) :
    (substringChars s start len).length ≤ len := by
  simp [substringChars]; omega

theorem substringChars_length (s : Str) (start len : Nat) :
    (substringChars s start len).length = min len (s.length - (start - 1)) := by
  simp [substringChars]

theorem substringChars_infix (s : Str) (start len : Nat) : substringChars s start len <:+: s :=
  List.IsInfix.trans (List.take_prefix _ _).isInfix (List.drop_suffix _ _).isInfix

theorem dropWhile_dropWhile (w : Char → Bool) (l : Str) :
    (l.dropWhile w).dropWhile w = l.dropWhile w := by
  induction l with
  | nil => rfl
  | cons c cs ih =>
    simp only [List.dropWhile_cons]; split
    · exact ih
    · simp [*]

theorem dropWhile_head_not {w : Char → Bool} {l : Str} {c : Char} {r : Str}
    (h : l.dropWhile w = c :: r) : w c = false := by
  induction l with
  | nil => simp at h
  | cons d ds ih =>
    simp only [List.dropWhile_cons] at h; split at h
    · exact ih h
    · simp at h; rcases h with ⟨rfl, _⟩; exact Bool.eq_false_iff.mpr ‹¬ _›

theorem trimStart_idem (w : Char → Bool) (s : Str) : trimStart w (trimStart w s) = trimStart w s :=
  dropWhile_dropWhile w s

theorem trimEnd_idem (w : Char → Bool) (s : Str) : trimEnd w (trimEnd w s) = trimEnd w s := by
  simp [trimEnd, dropWhile_dropWhile]

theorem trimEnd_cons_of_not_ws {w : Char → Bool} {c : Char} (h : w c = false) (r : Str) :
    trimEnd w (c :: r) = c :: trimEnd w r := by
  simp only [trimEnd, List.reverse_cons, List.dropWhile_append]
  split
  · rename_i he
    have : List.dropWhile w r.reverse = [] := by simpa using he
    simp [this, h]
  · simp

theorem trimStart_trimEnd_of_head {w : Char → Bool} {x : Str}
    (hx : ∀ c r, x = c :: r → w c = false) : trimStart w (trimEnd w x) = trimEnd w x := by
  cases x with
  | nil => simp [trimEnd, trimStart]
  | cons c r =>
    have h := hx c r rfl
    rw [trimEnd_cons_of_not_ws h]; simp [trimStart, h]

theorem trim_idem (w : Char → Bool) (s : Str) : trim w (trim w s) = trim w s := by
  unfold trim
  have hh : ∀ c r, trimStart w s = c :: r → w c = false := fun c r h => dropWhile_head_not h
  rw [trimStart_trimEnd_of_head hh, trimEnd_idem]

/-- the first char of a trimmed string is not white space -/
theorem trim_head_not_ws (w : Char → Bool) (s : Str) (c : Char) (r : Str)
    (h : trim w s = c :: r) : w c = false := by
  unfold trim at h
  have hh : ∀ c r, trimStart w s = c :: r → w c = false := fun c r h => dropWhile_head_not h
  rw [← trimStart_trimEnd_of_head hh] at h
  exact dropWhile_head_not h

/-- the last char of a trimmed string is not white space -/
theorem trimEnd_getLast_not_ws (w : Char → Bool) (s : Str) (c : Char)
    (h : (trimEnd w s).getLast? = some c) : w c = false := by
  unfold trimEnd at h
  rw [List.getLast?_reverse] at h
  cases hd : List.dropWhile w s.reverse with
  | nil => simp [hd] at h
  | cons d r => simp [hd] at h; subst h; exact dropWhile_head_not hd

/-! ## lines -/

theorem lines_nil : lines [] = [] := rfl

theorem mem_finishLine {acc : Str} {c : Char} (h : c ∈ finishLine acc) : c ∈ acc := by
  cases acc with
  | nil => simp [finishLine] at h
  | cons d r =>
    simp only [finishLine] at h; split at h
    · simp at h; simp [h]
    · simp at h; exact List.mem_cons.mpr h.symm

theorem linesGo_no_newline (s : Str) : ∀ acc, '\n' ∉ acc → ∀ l ∈ linesGo s acc, '\n' ∉ l := by
  induction s with
  | nil =>
    intro acc ha l hl
    cases acc with
    | nil => simp [linesGo] at hl
    | cons a acc => simp only [linesGo, List.mem_singleton] at hl; subst hl; simpa [and_comm] using ha
  | cons c cs ih =>
    intro acc ha l hl
    simp only [linesGo] at hl; split at hl
    · rcases List.mem_cons.mp hl with rfl | hl
      · exact fun h => ha (mem_finishLine h)
      · exact ih [] (by simp) l hl
    · refine ih (c :: acc) ?_ l hl
      simp only [List.mem_cons, not_or]; exact ⟨fun h => ‹¬ c = '\n'› h.symm, ha⟩

/-- no line contains a line feed -/
theorem lines_no_newline (s : Str) : ∀ l ∈ lines s, '\n' ∉ l :=
  linesGo_no_newline s [] (by simp)

/-- a non-empty text without line feed is its own single line (a final `\r` is kept) -/
theorem lines_of_no_newline (s : Str) (hs : s ≠ []) (h : '\n' ∉ s) : lines s = [s] := by
  have key : ∀ s acc : Str, '\n' ∉ s → acc.reverse ++ s ≠ [] → linesGo s acc = [acc.reverse ++ s] := by
    intro s
    induction s with
    | nil =>
      intro acc _ hne
      cases acc with
      | nil => simp at hne
      | cons a acc => simp [linesGo]
    | cons c cs ih =>
      intro acc hn _
      simp only [List.mem_cons, not_or] at hn
      simp only [linesGo]; rw [if_neg (fun h => hn.1 h.symm), ih _ hn.2 (by simp)]; simp
  simpa [lines] using key s [] h (by simpa using hs)

/-! ## formatBraces -/

theorem interleave_isSome (segs args : List Str) :
    (interleave segs args).isSome = true ↔ segs.length ≤ args.length + 1 := by
  induction segs generalizing args with
  | nil => simp [interleave]
  | cons seg rest ih =>
    cases rest with
    | nil => simp [interleave]
    | cons seg' rest =>
      cases args with
      | nil => simp [interleave]
      | cons a as =>
        simp only [interleave, Option.isSome_map, ih, List.length_cons]; omega

/-- `FORMAT` succeeds iff there are at least as many arguments as `{}` holes -/
theorem formatBraces_isSome (fmt : Str) (args : List Str) :
    (formatBraces fmt args).isSome = true ↔ (split fmt ['{', '}']).length ≤ args.length + 1 :=
  interleave_isSome _ _

theorem formatBraces_eq_none (fmt : Str) (args : List Str) :
    formatBraces fmt args = none ↔ args.length + 1 < (split fmt ['{', '}']).length := by
  rw [← Option.not_isSome_iff_eq_none, formatBraces_isSome]; omega

/-- without a hole the format string is returned unchanged, whatever the arguments -/
theorem formatBraces_of_not_contains (fmt : Str) (args : List Str)
    (h : contains fmt ['{', '}'] = false) : formatBraces fmt args = some fmt := by
  simp [formatBraces, split_eq_singleton_of_not_contains fmt _ (by simp) h, interleave]

/-- filling every hole with `{}` gives the format string back -/
theorem interleave_replicate_sep (segs : List Str) (sep : Str) (n : Nat) (h : segs.length ≤ n + 1) :
    interleave segs (List.replicate n sep) = some (join segs sep) := by
  induction segs generalizing n with
  | nil => simp [interleave, join]
  | cons seg rest ih =>
    cases rest with
    | nil => simp [interleave, join]
    | cons seg' rest =>
      cases n with
      | zero => simp at h
      | succ n =>
        simp only [List.replicate_succ, interleave, join]
        rw [ih n (by simpa using h)]; simp

theorem formatBraces_replicate_braces (fmt : Str) (n : Nat) (h : (split fmt ['{', '}']).length ≤ n + 1) :
    formatBraces fmt (List.replicate n ['{', '}']) = some fmt := by
  rw [formatBraces, interleave_replicate_sep _ _ _ h, join_split']

/-! ## case mapping, parseBool -/

theorem toLowerSigmaGo_eq_toLower (env : CharEnv) (ign cased : Char → Bool) (s : Str)
    (h : capSigma ∉ s) : ∀ before, toLowerSigmaGo env ign cased before s = toLower env s := by
  induction s with
  | nil => intro _; rfl
  | cons c cs ih =>
    intro before
    simp only [List.mem_cons, not_or] at h
    simp only [toLowerSigmaGo]
    rw [if_neg (fun hc => h.1 hc.symm), ih h.2]; simp [toLower]

/-- the context-free `toLower` agrees with Rust's `to_lowercase` on strings without `Σ` -/
theorem toLowerSigma_eq_toLower (env : CharEnv) (ign cased : Char → Bool) (s : Str)
    (h : capSigma ∉ s) : toLowerSigma env ign cased s = toLower env s :=
  toLowerSigmaGo_eq_toLower env ign cased s h []

theorem toAsciiUpper_length (s : Str) : (toAsciiUpper s).length = s.length := by simp [toAsciiUpper]
theorem toAsciiLower_length (s : Str) : (toAsciiLower s).length = s.length := by simp [toAsciiLower]

theorem toUpper_append (env : CharEnv) (a b : Str) : toUpper env (a ++ b) = toUpper env a ++ toUpper env b := by
  simp [toUpper]
theorem toLower_append (env : CharEnv) (a b : Str) : toLower env (a ++ b) = toLower env a ++ toLower env b := by
  simp [toLower]

theorem parseBool_eq_some_true (s : Str) : parseBool s = some true ↔ s = ['t', 'r', 'u', 'e'] := by
  unfold parseBool; split
  · simp [*]
  · split <;> simp [*]

theorem parseBool_eq_some_false (s : Str) : parseBool s = some false ↔ s = ['f', 'a', 'l', 's', 'e'] := by
  unfold parseBool; split
  · subst_vars; simp
  · split <;> simp [*]

/-! ## the same characterisations with core's list relations -/

theorem startsWith_iff_prefix {s p : Str} : startsWith s p = true ↔ p <+: s := by
  rw [startsWith_iff]; exact ⟨fun ⟨b, h⟩ => ⟨b, h.symm⟩, fun ⟨b, h⟩ => ⟨b, h.symm⟩⟩

theorem endsWith_iff_suffix {s p : Str} : endsWith s p = true ↔ p <:+ s := by
  rw [endsWith_iff]; exact ⟨fun ⟨b, h⟩ => ⟨b, h.symm⟩, fun ⟨b, h⟩ => ⟨b, h.symm⟩⟩

theorem contains_iff_infix {s p : Str} : contains s p = true ↔ p <:+: s := by
  rw [contains_iff]; exact ⟨fun ⟨a, b, h⟩ => ⟨a, b, h.symm⟩, fun ⟨a, b, h⟩ => ⟨a, b, h.symm⟩⟩

theorem startsWith_eq_isPrefixOf (s p : Str) : startsWith s p = p.isPrefixOf s := isPrefix_eq_isPrefixOf p s

/-! ## kernel-checked examples (the Rust behaviours the definitions were written against) -/

example : split ['a', ',', 'b', ','] [','] = [['a'], ['b'], []] := by decide
example : split [] ['x'] = [[]] := by decide
example : split ['a', 'b'] [] = [[], ['a'], ['b'], []] := by decide
example : split [] [] = [[], []] := by decide
example : split ['a', 'a', 'a'] ['a', 'a'] = [[], ['a']] := by decide
example : replace ['a', 'b'] [] ['-'] = ['-', 'a', '-', 'b', '-'] := by decide
example : replace ['a', 'a', 'a'] ['a', 'a'] ['-'] = ['-', 'a'] := by decide
example : contains ['a'] [] = true := by decide
example : lines [] = [] := by decide
example : lines ['a', '\r'] = [['a', '\r']] := by decide
example : lines ['a', '\r', '\r', '\n'] = [['a', '\r']] := by decide
example : lines ['a', '\n'] = [['a']] := by decide
example : lines ['\n'] = [[]] := by decide
example : lines ['a', '\r', '\n', '\n', 'b'] = [['a'], [], ['b']] := by decide
example : trim CharEnv.ascii.isWs [' ', 'a', ' ', 'b', '\n'] = ['a', ' ', 'b'] := by decide
example : formatBraces ['a', '{', '}', 'b', '{', '}'] [['1'], ['2'], ['3']] = some ['a', '1', 'b', '2'] := by decide
example : formatBraces ['a', '{', '}', 'b', '{', '}'] [['1']] = none := by decide
example : substringChars ['a', 'b', 'c', 'd'] 2 2 = ['b', 'c'] := by decide
-- "aΣ Σa aΣ." ↦ "aς σa aς."   (ASCII tables; `.` is case-ignorable)
example : toLowerSigma { CharEnv.ascii with lower := fun c => if c = capSigma then [smallSigma] else [c.toLower] }
    (fun c => c == '.') (fun c => c.isAlpha || c == capSigma)
    ['a', capSigma, ' ', capSigma, 'a', ' ', 'A', capSigma, '.'] =
    ['a', finalSigma, ' ', smallSigma, 'a', ' ', 'a', finalSigma, '.'] := by decide

/-! ## axioms -/

#print axioms isPrefix_iff
#print axioms isPrefix_eq_isPrefixOf
#print axioms startsWith_iff
#print axioms endsWith_iff
#print axioms contains_iff
#print axioms join_cons_of_ne_nil
#print axioms charsToStrs_length
#print axioms join_nil_sep
#print axioms join_chars
#print axioms join_eq_intercalate
#print axioms splitGo_skip
#print axioms drop_pred_length
#print axioms splitGo_zero_cons
#print axioms drop_length_lt
#print axioms scan_induction
#print axioms prefix_append_drop
#print axioms splitGo_ne_nil
#print axioms split_ne_nil
#print axioms join_splitGo
#print axioms join_split
#print axioms join_charsToStrs_snoc
#print axioms join_split'
#print axioms replaceGo_skip
#print axioms replaceGo_zero_cons
#print axioms join_splitGo_eq_replaceGo
#print axioms replace_eq_join_split'
#print axioms replace_eq_join_split
#print axioms replace_self
#print axioms not_contains_of_length_lt
#print axioms splitGo_no_pat
#print axioms split_no_pat
#print axioms split_eq_singleton_of_not_contains
#print axioms substringChars_eq_take_drop
#print axioms substringChars_length_le
#print axioms substringChars_length
#print axioms substringChars_infix
#print axioms dropWhile_dropWhile
#print axioms dropWhile_head_not
#print axioms trimStart_idem
#print axioms trimEnd_idem
#print axioms trimEnd_cons_of_not_ws
#print axioms trimStart_trimEnd_of_head
#print axioms trim_idem
#print axioms trim_head_not_ws
#print axioms trimEnd_getLast_not_ws
#print axioms lines_nil
#print axioms mem_finishLine
#print axioms linesGo_no_newline
#print axioms lines_no_newline
#print axioms lines_of_no_newline
#print axioms interleave_isSome
#print axioms formatBraces_isSome
#print axioms formatBraces_eq_none
#print axioms formatBraces_of_not_contains
#print axioms interleave_replicate_sep
#print axioms formatBraces_replicate_braces
#print axioms toLowerSigmaGo_eq_toLower
#print axioms toLowerSigma_eq_toLower
#print axioms toAsciiUpper_length
#print axioms toAsciiLower_length
#print axioms toUpper_append
#print axioms toLower_append
#print axioms parseBool_eq_some_true
#print axioms parseBool_eq_some_false
#print axioms startsWith_iff_prefix
#print axioms endsWith_iff_suffix
#print axioms contains_iff_infix
#print axioms startsWith_eq_isPrefixOf

end Aplang.StrOps
