import Aplang.Proofs.ParserComplete
import Aplang.Proofs.ParserWF
import Aplang.Proofs.ParserEval
/-!
# Completeness of the statement parser (lemmas for C09b)

Derivations of the documented statement grammar are the mutual inductive types `SStmt` / `SSeq`: every node
carries the tokens it is written with. `renderStmt` / `renderSeq` print a derivation (the canonical printer),
`treeStmt` / `treeSeq` give the syntax tree the parser must return.

Expressions are a parameter: a *printed expression* `PExpr` is a token list with the tree it stands for;
`PExpr.OK` says the expression parser accepts it whenever the following token cannot continue an expression
(`stopsExpr`). The minimally and the fully parenthesised renderings of `Proofs/ParserMin` / `ParserComplete`
are instances (`Thm/C09b`).

Layout: simple statements (expression statement, RETURN, IMPORT) carry their optional terminator token
(`SoftSemi`); without one they must be the last statement of their block / of the program. Additional
terminator tokens between statements are `SSeq.semi`. Bodies are in braces; an ELSE branch is a block or
another IF.

This file: part 1, one lemma per construct — the parser function of the construct, applied to the construct's
tokens followed by any continuation, returns the tree and stops in front of the continuation.
-/
namespace Aplang
namespace P

/-! ## "for all sufficiently large fuel" -/

/-- for all sufficiently large fuel the run succeeds with `a` in state `s'` -/
def Evt {α} (run : Nat → PRes α) (a : α) (s' : PState) : Prop := ∃ f, ∀ g, f ≤ g → run g = .ok a s'

theorem Evt.of_succ {α} {run : Nat → PRes α} {a : α} {s' : PState} (f0 : Nat)
    (h : ∀ g, f0 ≤ g → run (g+1) = .ok a s') : Evt run a s' := by
  refine ⟨f0 + 1, fun g hg => ?_⟩
  obtain ⟨g', rfl⟩ : ∃ g', g = g' + 1 := ⟨g - 1, by omega⟩
  exact h g' (by omega)

theorem Evt.const {α} {r : PRes α} {a : α} {s' : PState} (h : r = .ok a s') : Evt (fun _ => r) a s' :=
  ⟨0, fun _ _ => h⟩

/-! ## printed expressions -/

/-- a printed expression: its tokens and the tree the parser is to return -/
structure PExpr where
  toks : List Token
  tree : Expr

/-- the expression parser accepts the tokens in front of every token that cannot continue an expression -/
def PExpr.OK (e : PExpr) : Prop :=
  ∀ s nxt r, s.after = e.toks ++ nxt :: r → stopsExpr nxt.tt →
    ∃ fuel, ∀ g, fuel ≤ g → expression g s = .ok e.tree (advs s e.toks (nxt :: r))

/-- the first token of an accepted expression is one an expression can begin with -/
theorem PExpr.OK.first {e : PExpr} (h : e.OK) : ∃ t r, e.toks = t :: r ∧ isExprStart t.tt = true := by
  let eof : Token := ⟨.eof, [], .none, 0, 0⟩
  obtain ⟨f, hf⟩ := h ⟨[], e.toks ++ [eof], false, false⟩ eof [] rfl (by decide)
  obtain ⟨c, hc, hs, _⟩ := (expression_sound f _).elim (hf f (Nat.le_refl f))
  have ha : e.toks ++ [eof] = c ++ [eof] := hc.after
  have : c = e.toks := (List.append_cancel_right ha).symm
  rw [← this]
  exact hs.first

/-- after an accepted expression, `previous()` is the last token of the tree -/
theorem PExpr.OK.previous {e : PExpr} (_h : e.OK) {s nxt r g} (hg : expression g s = .ok e.tree (advs s e.toks (nxt :: r))) :
    previous (advs s e.toks (nxt :: r)) = .ok (lastTok e.tree) (advs s e.toks (nxt :: r)) :=
  previous_of_exprQ ((expression_sound g s).elim hg)

/-! ## terminators -/

/-- an optional terminator token is a `SoftSemi` -/
def TermOK (term : Option Token) : Prop := ∀ t, term = some t → t.tt = .softSemi

/-- the next token closes the block or ends the input -/
def Closes (rest : List Token) : Prop := ∃ t r, rest = t :: r ∧ (t.tt = .rightBrace ∨ t.tt = .eof)

theorem term_head {term : Option Token} {rest : List Token} (hterm : TermOK term)
    (hfol : term = none → Closes rest) :
    ∃ nxt r, term.toList ++ rest = nxt :: r ∧ (nxt.tt = .softSemi ∨ nxt.tt = .rightBrace ∨ nxt.tt = .eof) := by
  cases term with
  | some t => exact ⟨t, rest, rfl, Or.inl (hterm t rfl)⟩
  | none =>
    obtain ⟨t, r, rfl, ht⟩ := hfol rfl
    exact ⟨t, r, rfl, Or.inr ht⟩

theorem stops_of_term {k : TT} (h : k = .softSemi ∨ k = .rightBrace ∨ k = .eof) : stopsExpr k := by
  rcases h with h | h | h <;> rw [h] <;> decide

theorem terminator_ev (code : String) (lab : Bool) {s : PState} {term : Option Token} {rest : List Token}
    (h : s.after = term.toList ++ rest) (hterm : TermOK term) (hfol : term = none → Closes rest) :
    terminator code lab s = .ok () (advs s term.toList rest) := by
  cases term with
  | some t =>
    rw [terminator_at_semi' code lab h (hterm t rfl)]
    rfl
  | none =>
    obtain ⟨t, r, rfl, ht⟩ := hfol rfl
    rw [terminator_at_close' code lab h ht]
    obtain ⟨b, a, f1, f2⟩ := s
    simp at h
    subst h
    rfl
where
  terminator_at_close' (code : String) (lab : Bool) {s : PState} {t : Token} {r : List Token}
      (h : s.after = t :: r) (ht : t.tt = .rightBrace ∨ t.tt = .eof) : terminator code lab s = .ok () s := by
    unfold terminator
    rw [isAtEnd_eq h]
    rcases ht with ht | ht
    · simp [ht, check_eq _ h]
    · simp [ht]
  terminator_at_semi' (code : String) (lab : Bool) {s : PState} {t : Token} {r : List Token}
      (h : s.after = t :: r) (ht : t.tt = .softSemi) : terminator code lab s = .ok () (adv s t r) := by
    unfold terminator
    rw [isAtEnd_eq h]
    simp [ht, check_eq _ h, consume_hit _ h ht]

/-! ## dispatch on the first token -/

/-- the kinds with a statement form of their own -/
def isStmtKw : TT → Bool
  | .import_ | .if_ | .repeat_ | .for_ | .leftBrace | .continue_ | .break_ | .return_ => true
  | _ => false

theorem exprStart_not_kw {k : TT} (h : isExprStart k = true) :
    isStmtKw k = false ∧ k ≠ .export_ ∧ k ≠ .procedure ∧ k ≠ .softSemi ∧ k ≠ .rightBrace ∧ k ≠ .eof ∧
    k ≠ .until_ := by
  cases k <;> simp [isExprStart] at h <;> simp [isStmtKw]

theorem statement_expr (g : Nat) {s : PState} {t r} (h : s.after = t :: r) (hk : isStmtKw t.tt = false) :
    statement (g+1) s = expressionStatement g s := by
  have hne : ∀ k, isStmtKw k = true → t.tt ≠ k := by
    intro k hk' e; rw [e] at hk; rw [hk] at hk'; cases hk'
  simp only [P.statement]
  rw [matchToken_miss h (hne _ rfl)]; simp only [PRes.bind_ok]
  rw [matchToken_miss h (hne _ rfl)]; simp only [PRes.bind_ok]
  rw [matchToken_miss h (hne _ rfl)]; simp only [PRes.bind_ok]
  rw [matchToken_miss h (hne _ rfl)]; simp only [PRes.bind_ok]
  rw [matchToken_miss h (hne _ rfl)]; simp only [PRes.bind_ok]
  rw [matchToken_miss h (hne _ rfl)]; simp only [PRes.bind_ok]
  rw [matchToken_miss h (hne _ rfl)]; simp only [PRes.bind_ok]
  rw [matchToken_miss h (hne _ rfl)]; simp only [PRes.bind_ok]

theorem statement_import (g : Nat) {s : PState} {t r} (h : s.after = t :: r) (ht : t.tt = .import_) :
    statement (g+1) s = importStatement g t (adv s t r) := by
  simp only [P.statement]
  rw [matchToken_hit h ht (by decide)]; rfl

theorem statement_if (g : Nat) {s : PState} {t r} (h : s.after = t :: r) (ht : t.tt = .if_) :
    statement (g+1) s = ifStatement g t (adv s t r) := by
  simp only [P.statement]
  rw [matchToken_miss h (by rw [ht]; decide)]; simp only [PRes.bind_ok]
  rw [matchToken_hit h ht (by decide)]; rfl

theorem statement_repeat_until (g : Nat) {s : PState} {t u r} (h : s.after = t :: u :: r) (ht : t.tt = .repeat_)
    (hu : u.tt = .until_) :
    statement (g+1) s = restoreLoop s.inLoop (repeatUntil g t { adv s t (u :: r) with inLoop := true }) := by
  simp only [P.statement]
  rw [matchToken_miss h (by rw [ht]; decide)]; simp only [PRes.bind_ok]
  rw [matchToken_miss h (by rw [ht]; decide)]; simp only [PRes.bind_ok]
  rw [matchToken_hit h ht (by decide)]; simp only [PRes.bind_ok]
  rw [check_eq .until_ (s := { adv s t (u :: r) with inLoop := true }) (t := u) (r := r) rfl]
  simp [hu]

theorem statement_repeat_times (g : Nat) {s : PState} {t u r} (h : s.after = t :: u :: r) (ht : t.tt = .repeat_)
    (hu : u.tt ≠ .until_) :
    statement (g+1) s = restoreLoop s.inLoop (repeatTimes g t { adv s t (u :: r) with inLoop := true }) := by
  simp only [P.statement]
  rw [matchToken_miss h (by rw [ht]; decide)]; simp only [PRes.bind_ok]
  rw [matchToken_miss h (by rw [ht]; decide)]; simp only [PRes.bind_ok]
  rw [matchToken_hit h ht (by decide)]; simp only [PRes.bind_ok]
  rw [check_eq .until_ (s := { adv s t (u :: r) with inLoop := true }) (t := u) (r := r) rfl]
  simp [hu]

theorem statement_for (g : Nat) {s : PState} {t r} (h : s.after = t :: r) (ht : t.tt = .for_) :
    statement (g+1) s = restoreLoop s.inLoop (forEach g t { adv s t r with inLoop := true }) := by
  simp only [P.statement]
  rw [matchToken_miss h (by rw [ht]; decide)]; simp only [PRes.bind_ok]
  rw [matchToken_miss h (by rw [ht]; decide)]; simp only [PRes.bind_ok]
  rw [matchToken_miss h (by rw [ht]; decide)]; simp only [PRes.bind_ok]
  rw [matchToken_hit h ht (by decide)]; rfl

theorem statement_lbrace (g : Nat) {s : PState} {t r} (h : s.after = t :: r) (ht : t.tt = .leftBrace) :
    statement (g+1) s = (blockLoop g [] (adv s t r)).bind fun stmts s =>
      (consume .rightBrace (fun _ => err1 "missing_rb" [t.span]) s).bind fun rb s => .ok (.block t stmts rb) s := by
  simp only [P.statement]
  rw [matchToken_miss h (by rw [ht]; decide)]; simp only [PRes.bind_ok]
  rw [matchToken_miss h (by rw [ht]; decide)]; simp only [PRes.bind_ok]
  rw [matchToken_miss h (by rw [ht]; decide)]; simp only [PRes.bind_ok]
  rw [matchToken_miss h (by rw [ht]; decide)]; simp only [PRes.bind_ok]
  rw [matchToken_hit h ht (by decide)]; rfl

theorem statement_continue (g : Nat) {s : PState} {t r} (h : s.after = t :: r) (ht : t.tt = .continue_)
    (hl : s.inLoop = true) : statement (g+1) s = .ok (.cont t) (adv s t r) := by
  simp only [P.statement]
  rw [matchToken_miss h (by rw [ht]; decide)]; simp only [PRes.bind_ok]
  rw [matchToken_miss h (by rw [ht]; decide)]; simp only [PRes.bind_ok]
  rw [matchToken_miss h (by rw [ht]; decide)]; simp only [PRes.bind_ok]
  rw [matchToken_miss h (by rw [ht]; decide)]; simp only [PRes.bind_ok]
  rw [matchToken_miss h (by rw [ht]; decide)]; simp only [PRes.bind_ok]
  rw [matchToken_hit h ht (by decide)]; simp [hl]

theorem statement_break (g : Nat) {s : PState} {t r} (h : s.after = t :: r) (ht : t.tt = .break_)
    (hl : s.inLoop = true) : statement (g+1) s = .ok (.brk t) (adv s t r) := by
  simp only [P.statement]
  rw [matchToken_miss h (by rw [ht]; decide)]; simp only [PRes.bind_ok]
  rw [matchToken_miss h (by rw [ht]; decide)]; simp only [PRes.bind_ok]
  rw [matchToken_miss h (by rw [ht]; decide)]; simp only [PRes.bind_ok]
  rw [matchToken_miss h (by rw [ht]; decide)]; simp only [PRes.bind_ok]
  rw [matchToken_miss h (by rw [ht]; decide)]; simp only [PRes.bind_ok]
  rw [matchToken_miss h (by rw [ht]; decide)]; simp only [PRes.bind_ok]
  rw [matchToken_hit h ht (by decide)]; simp [hl]

theorem statement_return (g : Nat) {s : PState} {t r} (h : s.after = t :: r) (ht : t.tt = .return_) :
    statement (g+1) s = returnStatement g t (adv s t r) := by
  simp only [P.statement]
  rw [matchToken_miss h (by rw [ht]; decide)]; simp only [PRes.bind_ok]
  rw [matchToken_miss h (by rw [ht]; decide)]; simp only [PRes.bind_ok]
  rw [matchToken_miss h (by rw [ht]; decide)]; simp only [PRes.bind_ok]
  rw [matchToken_miss h (by rw [ht]; decide)]; simp only [PRes.bind_ok]
  rw [matchToken_miss h (by rw [ht]; decide)]; simp only [PRes.bind_ok]
  rw [matchToken_miss h (by rw [ht]; decide)]; simp only [PRes.bind_ok]
  rw [matchToken_miss h (by rw [ht]; decide)]; simp only [PRes.bind_ok]
  rw [matchToken_hit h ht (by decide)]; rfl

theorem declaration_stmt (g : Nat) {s : PState} {t r} (h : s.after = t :: r) (h1 : t.tt ≠ .export_)
    (h2 : t.tt ≠ .procedure) : declaration (g+1) s = statement g s := by
  simp only [P.declaration]
  rw [matchTokens_miss h (by simp [h1, h2])]; rfl

theorem declaration_proc (g : Nat) {s : PState} {t r} (h : s.after = t :: r)
    (ht : t.tt = .export_ ∨ t.tt = .procedure) : declaration (g+1) s = procedure g t (adv s t r) := by
  simp only [P.declaration]
  rw [matchTokens_hit h (by rcases ht with e | e <;> simp [e]) (by rcases ht with e | e <;> rw [e] <;> decide)]; rfl

/-! ## simple statements -/

theorem expressionStatement_ev {s : PState} {e : PExpr} {term : Option Token} {rest : List Token} (he : e.OK)
    (h : s.after = e.toks ++ (term.toList ++ rest)) (hterm : TermOK term) (hfol : term = none → Closes rest) :
    Evt (fun g => expressionStatement g s) (.expr e.tree) (advs s (e.toks ++ term.toList) rest) := by
  obtain ⟨nxt, r, hn, hk⟩ := term_head hterm hfol
  rw [hn] at h
  obtain ⟨f, hf⟩ := he s nxt r h (stops_of_term hk)
  refine ⟨f, fun g hg => ?_⟩
  dsimp only
  unfold expressionStatement
  rw [hf g hg]
  simp only [PRes.bind_ok]
  rw [terminator_ev "missing_eol" true (s := advs s e.toks (nxt :: r)) (term := term) (rest := rest)
    (by simp [hn]) hterm hfol]
  simp [advs]

theorem returnStatement_none_ev (g : Nat) {s : PState} {tok : Token} {term : Option Token} {rest : List Token}
    (hfn : s.inFn = true) (h : s.after = term.toList ++ rest) (hterm : TermOK term)
    (hfol : term = none → Closes rest) :
    returnStatement g tok s = .ok (.ret tok none) (advs s term.toList rest) := by
  unfold returnStatement
  simp only [hfn, Bool.not_true, Bool.false_eq_true, if_false]
  cases term with
  | some t =>
    rw [matchToken_hit (t := t) (r := rest) h (hterm t rfl) (by decide)]
    rfl
  | none =>
    obtain ⟨t, r, rfl, ht⟩ := hfol rfl
    have h' : s.after = t :: r := h
    rw [matchToken_miss h' (by rcases ht with e | e <;> rw [e] <;> decide)]
    simp only [PRes.bind_ok]
    rw [isAtEnd_eq h']
    simp only [PRes.bind_ok]
    rw [check_eq _ h']
    obtain ⟨b, a, f1, f2⟩ := s
    simp at h'
    subst h'
    rcases ht with e | e <;> simp [e, advs]

theorem returnStatement_some_ev {s : PState} {tok : Token} {e : PExpr} {term : Option Token} {rest : List Token}
    (hfn : s.inFn = true) (he : e.OK) (h : s.after = e.toks ++ (term.toList ++ rest)) (hterm : TermOK term)
    (hfol : term = none → Closes rest) :
    Evt (fun g => returnStatement g tok s) (.ret tok (some e.tree)) (advs s (e.toks ++ term.toList) rest) := by
  obtain ⟨nxt, r, hn, hk⟩ := term_head hterm hfol
  obtain ⟨t0, r0, h0, hs0⟩ := he.first
  have hkw := exprStart_not_kw hs0
  have h' : s.after = t0 :: (r0 ++ (term.toList ++ rest)) := by rw [h, h0]; rfl
  rw [hn] at h
  obtain ⟨f, hf⟩ := he s nxt r h (stops_of_term hk)
  refine ⟨f, fun g hg => ?_⟩
  dsimp only
  unfold returnStatement
  simp only [hfn, Bool.not_true, Bool.false_eq_true, if_false]
  rw [matchToken_miss h' hkw.2.2.2.1]
  simp only [PRes.bind_ok]
  rw [isAtEnd_eq h']
  simp only [PRes.bind_ok]
  rw [check_eq _ h']
  have e1 : (t0.tt == TT.eof) = false := by simpa using hkw.2.2.2.2.2.1
  have e2 : (t0.tt == TT.rightBrace) = false := by simpa using hkw.2.2.2.2.1
  simp only [PRes.bind_ok, e1, e2, Bool.not_false, Bool.and_false, Bool.or_false, Bool.false_eq_true, if_false]
  rw [hf g hg]
  simp only [PRes.bind_ok]
  rw [terminator_ev "return_semicolon" false (s := advs s e.toks (nxt :: r)) (term := term) (rest := rest)
    (by simp [hn]) hterm hfol]
  simp [advs]

/-! ## comma-separated token lists (import names, parameters) -/

/-- `, t` pairs after the first element -/
def moreToks : List (Token × Token) → List Token
  | [] => []
  | p :: r => p.1 :: p.2 :: moreToks r

/-- a non-empty comma-separated list of tokens: the first element and the (comma, element) pairs -/
structure SepList where
  first : Token
  more : List (Token × Token)

def SepList.toks (l : SepList) : List Token := l.first :: moreToks l.more
def SepList.items (l : SepList) : List Token := l.first :: l.more.map (·.2)
/-- all elements are of kind `k`, all separators are commas -/
def SepList.OK (k : TT) (l : SepList) : Prop := l.first.tt = k ∧ ∀ p ∈ l.more, p.1.tt = .comma ∧ p.2.tt = k

theorem importNames_ev (lb : Token) : ∀ (more : List (Token × Token)) (first : Token) (acc : List Token)
    (s : PState) (nxt : Token) (rest : List Token) (g : Nat),
    s.after = first :: (moreToks more ++ nxt :: rest) → first.tt = .stringLiteral →
    (∀ p ∈ more, p.1.tt = .comma ∧ p.2.tt = .stringLiteral) → nxt.tt ≠ .comma →
    acc.length + more.length + 1 ≤ 63 → more.length + 1 ≤ g →
    importNames g lb acc s = .ok (acc ++ first :: more.map (·.2)) (advs s (first :: moreToks more) (nxt :: rest))
  | [], first, acc, s, nxt, rest, g, h, hf, _, hn, hl, hg => by
    obtain ⟨g, rfl⟩ : ∃ g', g = g' + 1 := ⟨g - 1, by simp at hg; omega⟩
    have h : s.after = first :: nxt :: rest := by simpa [moreToks] using h
    simp only [importNames]
    rw [if_neg (by simp at hl; omega)]
    rw [consume_hit _ h hf (by decide)]
    simp only [PRes.bind_ok]
    rw [matchToken_miss (s := adv s first (nxt :: rest)) (t := nxt) (r := rest) rfl hn]
    rfl
  | p :: more, first, acc, s, nxt, rest, g, h, hf, hm, hn, hl, hg => by
    obtain ⟨g, rfl⟩ : ∃ g', g = g' + 1 := ⟨g - 1, by simp at hg; omega⟩
    have hp := hm p (by simp)
    have h : s.after = first :: p.1 :: p.2 :: (moreToks more ++ nxt :: rest) := by simpa [moreToks] using h
    simp only [importNames]
    rw [if_neg (by simp at hl; omega)]
    rw [consume_hit _ h hf (by decide)]
    simp only [PRes.bind_ok]
    rw [matchToken_hit (s := adv s first _) (t := p.1) (r := p.2 :: (moreToks more ++ nxt :: rest)) rfl hp.1 (by decide)]
    simp only [PRes.bind_ok]
    rw [importNames_ev lb more p.2 (acc ++ [first]) _ nxt rest g rfl hp.2
      (fun q hq => hm q (List.mem_cons_of_mem _ hq)) hn (by simp at hl ⊢; omega) (by simp at hg; omega)]
    simp [advs, moreToks]

theorem procParams_ev : ∀ (more : List (Token × Token)) (first : Token) (acc : List (Str × Token))
    (s : PState) (nxt : Token) (rest : List Token) (g : Nat),
    s.after = first :: (moreToks more ++ nxt :: rest) → first.tt = .identifier →
    (∀ p ∈ more, p.1.tt = .comma ∧ p.2.tt = .identifier) → nxt.tt ≠ .comma →
    acc.length + more.length + 1 ≤ 255 → more.length + 1 ≤ g →
    procParams g acc s = .ok (acc ++ (first :: more.map (·.2)).map (fun t => (t.lexeme, t)))
      (advs s (first :: moreToks more) (nxt :: rest))
  | [], first, acc, s, nxt, rest, g, h, hf, _, hn, hl, hg => by
    obtain ⟨g, rfl⟩ : ∃ g', g = g' + 1 := ⟨g - 1, by simp at hg; omega⟩
    have h : s.after = first :: nxt :: rest := by simpa [moreToks] using h
    simp only [procParams]
    rw [if_neg (by simp at hl; omega)]
    rw [consume_hit _ h hf (by decide)]
    simp only [PRes.bind_ok]
    rw [matchToken_miss (s := adv s first (nxt :: rest)) (t := nxt) (r := rest) rfl hn]
    rfl
  | p :: more, first, acc, s, nxt, rest, g, h, hf, hm, hn, hl, hg => by
    obtain ⟨g, rfl⟩ : ∃ g', g = g' + 1 := ⟨g - 1, by simp at hg; omega⟩
    have hp := hm p (by simp)
    have h : s.after = first :: p.1 :: p.2 :: (moreToks more ++ nxt :: rest) := by simpa [moreToks] using h
    simp only [procParams]
    rw [if_neg (by simp at hl; omega)]
    rw [consume_hit _ h hf (by decide)]
    simp only [PRes.bind_ok]
    rw [matchToken_hit (s := adv s first _) (t := p.1) (r := p.2 :: (moreToks more ++ nxt :: rest)) rfl hp.1 (by decide)]
    simp only [PRes.bind_ok]
    rw [procParams_ev more p.2 (acc ++ [(first.lexeme, first)]) _ nxt rest g rfl hp.2
      (fun q hq => hm q (List.mem_cons_of_mem _ hq)) hn (by simp at hl ⊢; omega) (by simp at hg; omega)]
    simp [advs, moreToks]

/-! ## the three IMPORT forms (the cursor stands behind `IMPORT`) -/

theorem importStatement_all_ev (g : Nat) {s : PState} {it mt mn : Token} {term : Option Token} {rest : List Token}
    (h : s.after = mt :: mn :: (term.toList ++ rest)) (hmt : mt.tt = .mod_) (hmn : mn.tt = .stringLiteral)
    (hterm : TermOK term) (hfol : term = none → Closes rest) :
    importStatement g it s = .ok (.import_ it mt none none mn) (advs s (mt :: mn :: term.toList) rest) := by
  unfold importStatement
  rw [matchToken_miss h (by rw [hmt]; decide)]
  simp only [PRes.bind_ok]
  rw [matchToken_miss h (by rw [hmt]; decide)]
  simp only [PRes.bind_ok]
  rw [consume_hit _ h hmt (by decide)]
  simp only [PRes.bind_ok]
  rw [consume_hit (s := adv s mt _) (t := mn) (r := term.toList ++ rest) _ rfl hmn (by decide)]
  simp only [PRes.bind_ok]
  rw [terminator_ev "import_semicolon" false (s := adv (adv s mt _) mn (term.toList ++ rest)) (term := term)
    (rest := rest) rfl hterm hfol]
  simp [advs]

theorem importStatement_one_ev (g : Nat) {s : PState} {it n ft mt mn : Token} {term : Option Token}
    {rest : List Token} (h : s.after = n :: ft :: mt :: mn :: (term.toList ++ rest))
    (hn : n.tt = .stringLiteral) (hft : ft.tt = .from_) (hmt : mt.tt = .mod_) (hmn : mn.tt = .stringLiteral)
    (hterm : TermOK term) (hfol : term = none → Closes rest) :
    importStatement g it s = .ok (.import_ it mt (some ft) (some [n]) mn)
      (advs s (n :: ft :: mt :: mn :: term.toList) rest) := by
  unfold importStatement
  rw [matchToken_miss h (by rw [hn]; decide)]
  simp only [PRes.bind_ok]
  rw [matchToken_hit h hn (by decide)]
  simp only [PRes.bind_ok]
  rw [consume_hit (s := adv s n _) (t := ft) (r := mt :: mn :: (term.toList ++ rest)) _ rfl hft (by decide)]
  simp only [PRes.bind_ok]
  rw [consume_hit (s := adv (adv s n _) ft _) (t := mt) (r := mn :: (term.toList ++ rest)) _ rfl hmt (by decide)]
  simp only [PRes.bind_ok]
  rw [consume_hit (s := adv (adv (adv s n _) ft _) mt _) (t := mn) (r := term.toList ++ rest) _ rfl hmn (by decide)]
  simp only [PRes.bind_ok]
  rw [terminator_ev "import_semicolon" false (s := adv (adv (adv (adv s n _) ft _) mt _) mn (term.toList ++ rest))
    (term := term) (rest := rest) rfl hterm hfol]
  simp [advs]

theorem importStatement_list_ev {s : PState} {it lb rb ft mt mn : Token} {ns : SepList} {term : Option Token}
    {rest : List Token} (h : s.after = lb :: (ns.toks ++ rb :: ft :: mt :: mn :: (term.toList ++ rest)))
    (hlb : lb.tt = .leftBracket) (hns : ns.OK .stringLiteral) (hlen : ns.more.length + 1 ≤ 63)
    (hrb : rb.tt = .rightBracket) (hft : ft.tt = .from_) (hmt : mt.tt = .mod_) (hmn : mn.tt = .stringLiteral)
    (hterm : TermOK term) (hfol : term = none → Closes rest) :
    Evt (fun g => importStatement g it s) (.import_ it mt (some ft) (some ns.items) mn)
      (advs s (lb :: (ns.toks ++ rb :: ft :: mt :: mn :: term.toList)) rest) := by
  refine ⟨ns.more.length + 1, fun g hg => ?_⟩
  dsimp only
  unfold importStatement
  rw [matchToken_hit h hlb (by decide)]
  simp only [PRes.bind_ok]
  rw [importNames_ev lb ns.more ns.first [] (adv s lb _) rb (ft :: mt :: mn :: (term.toList ++ rest)) g
    (by simp [SepList.toks]) hns.1 hns.2 (by rw [hrb]; decide) (by simpa using hlen) hg]
  simp only [PRes.bind_ok]
  rw [consume_hit (t := rb) (r := ft :: mt :: mn :: (term.toList ++ rest)) _ rfl hrb (by decide)]
  simp only [PRes.bind_ok]
  rw [consume_hit (t := ft) (r := mt :: mn :: (term.toList ++ rest)) _ rfl hft (by decide)]
  simp only [PRes.bind_ok]
  rw [consume_hit (t := mt) (r := mn :: (term.toList ++ rest)) _ rfl hmt (by decide)]
  simp only [PRes.bind_ok]
  rw [consume_hit (t := mn) (r := term.toList ++ rest) _ rfl hmn (by decide)]
  simp only [PRes.bind_ok]
  rw [terminator_ev "import_semicolon" false (term := term) (rest := rest) rfl hterm hfol]
  simp [advs, SepList.toks, SepList.items]

/-! ## compound statements (the cursor stands behind the keyword that selected the form) -/

theorem ifStatement_ev {s : PState} {ifTok lp rp : Token} {c : PExpr} {r1 : List Token} {thn : Stmt}
    {s3 : PState} {nxt : Token} {r3 : List Token}
    (h : s.after = lp :: (c.toks ++ rp :: r1)) (hlp : lp.tt = .leftParen) (hrp : rp.tt = .rightParen) (hc : c.OK)
    (hthen : Evt (fun g => statement g (advs s (lp :: (c.toks ++ [rp])) r1)) thn s3)
    (h3 : s3.after = nxt :: r3) (hne : nxt.tt ≠ .else_) :
    Evt (fun g => ifStatement g ifTok s) (.ifs c.tree thn none ifTok none) s3 := by
  obtain ⟨f1, hf1⟩ := hc (adv s lp (c.toks ++ rp :: r1)) rp r1 rfl (by rw [hrp]; decide)
  obtain ⟨f2, hf2⟩ := hthen
  refine Evt.of_succ (max f1 f2) (fun g hg => ?_)
  dsimp only at hf2 ⊢
  have hst : adv (advs (adv s lp (c.toks ++ rp :: r1)) c.toks (rp :: r1)) rp r1 =
      advs s (lp :: (c.toks ++ [rp])) r1 := by simp [advs, adv]
  simp only [P.ifStatement]
  rw [consume_hit _ h hlp (by decide)]
  simp only [PRes.bind_ok]
  rw [hf1 g (by omega)]
  simp only [PRes.bind_ok]
  rw [consume_hit (t := rp) (r := r1) _ rfl hrp (by decide)]
  simp only [PRes.bind_ok]
  rw [hst, hf2 g (by omega)]
  simp only [PRes.bind_ok]
  rw [matchToken_miss h3 hne]
  rfl

theorem ifElse_ev {s : PState} {ifTok lp rp et : Token} {c : PExpr} {r1 : List Token} {thn els : Stmt}
    {s3 s5 : PState} {r3 : List Token}
    (h : s.after = lp :: (c.toks ++ rp :: r1)) (hlp : lp.tt = .leftParen) (hrp : rp.tt = .rightParen) (hc : c.OK)
    (hthen : Evt (fun g => statement g (advs s (lp :: (c.toks ++ [rp])) r1)) thn s3)
    (h3 : s3.after = et :: r3) (het : et.tt = .else_)
    (hels : Evt (fun g => statement g (adv s3 et r3)) els s5) :
    Evt (fun g => ifStatement g ifTok s) (.ifs c.tree thn (some els) ifTok (some et)) s5 := by
  obtain ⟨f1, hf1⟩ := hc (adv s lp (c.toks ++ rp :: r1)) rp r1 rfl (by rw [hrp]; decide)
  obtain ⟨f2, hf2⟩ := hthen
  obtain ⟨f3, hf3⟩ := hels
  refine Evt.of_succ (max f1 (max f2 f3)) (fun g hg => ?_)
  dsimp only at hf2 hf3 ⊢
  have hst : adv (advs (adv s lp (c.toks ++ rp :: r1)) c.toks (rp :: r1)) rp r1 =
      advs s (lp :: (c.toks ++ [rp])) r1 := by simp [advs, adv]
  simp only [P.ifStatement]
  rw [consume_hit _ h hlp (by decide)]
  simp only [PRes.bind_ok]
  rw [hf1 g (by omega)]
  simp only [PRes.bind_ok]
  rw [consume_hit (t := rp) (r := r1) _ rfl hrp (by decide)]
  simp only [PRes.bind_ok]
  rw [hst, hf2 g (by omega)]
  simp only [PRes.bind_ok]
  rw [matchToken_hit h3 het (by decide)]
  simp only [PRes.bind_ok]
  rw [hf3 g (by omega)]
  rfl

theorem confirm_eq {s : PState} {t : Token} {b : List Token} {tt : TT} (hb : s.before = t :: b) (ht : t.tt = tt) :
    confirm tt s = .ok () s := by
  simp [confirm, previous, hb, ht]

theorem repeatTimes_ev {s : PState} {rt tt : Token} {b : List Token} {c : PExpr} {r1 : List Token} {body : Stmt}
    {s3 : PState}
    (hb : s.before = rt :: b) (hrt : rt.tt = .repeat_) (h : s.after = c.toks ++ tt :: r1) (htt : tt.tt = .times)
    (hc : c.OK) (hbody : Evt (fun g => statement g (advs s (c.toks ++ [tt]) r1)) body s3) :
    Evt (fun g => repeatTimes g rt s) (.repeatTimes c.tree body rt tt (lastTok c.tree)) s3 := by
  obtain ⟨f1, hf1⟩ := hc s tt r1 h (by rw [htt]; decide)
  obtain ⟨f2, hf2⟩ := hbody
  refine Evt.of_succ (max f1 f2) (fun g hg => ?_)
  dsimp only at hf2 ⊢
  have hst : adv (advs s c.toks (tt :: r1)) tt r1 = advs s (c.toks ++ [tt]) r1 := by simp [advs, adv]
  simp only [P.repeatTimes]
  rw [confirm_eq hb hrt]
  simp only [PRes.bind_ok]
  rw [hf1 g (by omega)]
  simp only [PRes.bind_ok]
  rw [hc.previous (hf1 g (by omega))]
  simp only [PRes.bind_ok]
  rw [consume_hit (t := tt) (r := r1) _ rfl htt (by decide)]
  simp only [PRes.bind_ok]
  rw [hst, hf2 g (by omega)]
  rfl

theorem repeatUntil_ev {s : PState} {rt ut lp rp : Token} {b : List Token} {c : PExpr} {r1 : List Token}
    {body : Stmt} {s3 : PState}
    (hb : s.before = rt :: b) (hrt : rt.tt = .repeat_) (h : s.after = ut :: lp :: (c.toks ++ rp :: r1))
    (hut : ut.tt = .until_) (hlp : lp.tt = .leftParen) (hrp : rp.tt = .rightParen) (hc : c.OK)
    (hbody : Evt (fun g => statement g (advs s (ut :: lp :: (c.toks ++ [rp])) r1)) body s3) :
    Evt (fun g => repeatUntil g rt s) (.repeatUntil c.tree body rt ut) s3 := by
  obtain ⟨f1, hf1⟩ := hc (adv (adv s ut (lp :: (c.toks ++ rp :: r1))) lp (c.toks ++ rp :: r1)) rp r1 rfl
    (by rw [hrp]; decide)
  obtain ⟨f2, hf2⟩ := hbody
  refine Evt.of_succ (max f1 f2) (fun g hg => ?_)
  dsimp only at hf2 ⊢
  have hst : adv (advs (adv (adv s ut (lp :: (c.toks ++ rp :: r1))) lp (c.toks ++ rp :: r1)) c.toks (rp :: r1)) rp r1
      = advs s (ut :: lp :: (c.toks ++ [rp])) r1 := by simp [advs, adv]
  simp only [P.repeatUntil]
  rw [confirm_eq hb hrt]
  simp only [PRes.bind_ok]
  rw [consume_hit _ h hut (by decide)]
  simp only [PRes.bind_ok]
  rw [consume_hit (t := lp) (r := c.toks ++ rp :: r1) _ rfl hlp (by decide)]
  simp only [PRes.bind_ok]
  rw [hf1 g (by omega)]
  simp only [PRes.bind_ok]
  rw [consume_hit (t := rp) (r := r1) _ rfl hrp (by decide)]
  simp only [PRes.bind_ok]
  rw [hst, hf2 g (by omega)]
  rfl

theorem forEach_ev {s : PState} {ft et it int nxt : Token} {b : List Token} {l : PExpr} {r1 : List Token}
    {body : Stmt} {s3 : PState}
    (hb : s.before = ft :: b) (hft : ft.tt = .for_) (h : s.after = et :: it :: int :: (l.toks ++ nxt :: r1))
    (het : et.tt = .each) (hit : it.tt = .identifier) (hint : int.tt = .in_) (hl : l.OK)
    (hnxt : stopsExpr nxt.tt)
    (hbody : Evt (fun g => statement g (advs s (et :: it :: int :: l.toks) (nxt :: r1))) body s3) :
    Evt (fun g => forEach g ft s) (.forEach it.lexeme it l.tree body ft et int (lastTok l.tree)) s3 := by
  obtain ⟨f1, hf1⟩ := hl (adv (adv (adv s et (it :: int :: (l.toks ++ nxt :: r1))) it (int :: (l.toks ++ nxt :: r1)))
    int (l.toks ++ nxt :: r1)) nxt r1 rfl hnxt
  obtain ⟨f2, hf2⟩ := hbody
  refine Evt.of_succ (max f1 f2) (fun g hg => ?_)
  dsimp only at hf2 ⊢
  have hst : advs (adv (adv (adv s et (it :: int :: (l.toks ++ nxt :: r1))) it (int :: (l.toks ++ nxt :: r1)))
      int (l.toks ++ nxt :: r1)) l.toks (nxt :: r1) = advs s (et :: it :: int :: l.toks) (nxt :: r1) := by
    simp [advs]
  simp only [P.forEach]
  rw [confirm_eq hb hft]
  simp only [PRes.bind_ok]
  rw [consume_hit _ h het (by decide)]
  simp only [PRes.bind_ok]
  rw [consume_hit (t := it) (r := int :: (l.toks ++ nxt :: r1)) _ rfl hit (by decide)]
  simp only [PRes.bind_ok]
  rw [consume_hit (t := int) (r := l.toks ++ nxt :: r1) _ rfl hint (by decide)]
  simp only [PRes.bind_ok]
  rw [hf1 g (by omega)]
  simp only [PRes.bind_ok]
  rw [hl.previous (hf1 g (by omega))]
  simp only [PRes.bind_ok]
  rw [hst, hf2 g (by omega)]
  rfl

/-! ## procedures -/

def SepList.toksO : Option SepList → List Token
  | none => []
  | some l => l.toks

def paramsOf : Option SepList → List (Str × Token)
  | none => []
  | some l => l.items.map (fun t => (t.lexeme, t))

/-- the part of `procedure` after the `PROCEDURE` token has been determined -/
def procTail (f : Nat) (procTok : Token) (exported : Bool) (s : PState) : PRes Stmt :=
  (consume .identifier (fun t => err1 "unnamed_procedure" [procTok.span, t.span]) s).bind fun nameTok s =>
  (consume .leftParen (fun t => err1 "missing_lp" [t.span, nameTok.span]) s).bind fun _ s =>
  (check .rightParen s).bind fun c s =>
  (if c then .ok [] s else procParams f [] s).bind fun params s =>
  (consume .rightParen (fun t => err1 "missing_rp" [t.span]) s).bind fun _ s =>
  let fnCache := s.inFn
  let loopCache := s.inLoop
  (statement f { s with inFn := true, inLoop := false }).bind fun body s =>
  .ok (.procDecl nameTok.lexeme params body exported procTok nameTok)
    { s with inFn := fnCache, inLoop := loopCache }

theorem procedure_plain (f : Nat) {t : Token} (s : PState) (ht : t.tt = .procedure) :
    procedure (f+1) t s = procTail f t false s := by
  simp only [P.procedure, ht]
  rfl

theorem procedure_export (f : Nat) {t pt : Token} {s : PState} {r : List Token} (ht : t.tt = .export_)
    (h : s.after = pt :: r) (hpt : pt.tt = .procedure) :
    procedure (f+1) t s = procTail f pt true (adv s pt r) := by
  simp only [P.procedure, ht]
  rw [consume_hit _ h hpt (by decide)]
  rfl

theorem procTail_ev {s : PState} {pt nt lp rp : Token} {exported : Bool} {ps : Option SepList} {r1 : List Token}
    {body : Stmt} {s3 : PState}
    (h : s.after = nt :: lp :: (SepList.toksO ps ++ rp :: r1)) (hnt : nt.tt = .identifier)
    (hlp : lp.tt = .leftParen) (hps : ∀ l, ps = some l → l.OK .identifier ∧ l.more.length + 1 ≤ 255)
    (hrp : rp.tt = .rightParen)
    (hbody : Evt (fun g => statement g
      { advs s (nt :: lp :: (SepList.toksO ps ++ [rp])) r1 with inFn := true, inLoop := false }) body s3) :
    Evt (fun g => procTail g pt exported s) (.procDecl nt.lexeme (paramsOf ps) body exported pt nt)
      { s3 with inFn := s.inFn, inLoop := s.inLoop } := by
  obtain ⟨f2, hf2⟩ := hbody
  dsimp only at hf2
  cases ps with
  | none =>
    refine ⟨f2, fun g hg => ?_⟩
    have h' : s.after = nt :: lp :: rp :: r1 := by simpa [SepList.toksO] using h
    have hst : ({ adv (adv (adv s nt (lp :: rp :: r1)) lp (rp :: r1)) rp r1 with inFn := true, inLoop := false } : PState)
        = { advs s (nt :: lp :: (SepList.toksO none ++ [rp])) r1 with inFn := true, inLoop := false } := by
      simp [advs, SepList.toksO]
    dsimp only
    unfold procTail
    rw [consume_hit _ h' hnt (by decide)]
    simp only [PRes.bind_ok]
    rw [consume_hit (t := lp) (r := rp :: r1) _ rfl hlp (by decide)]
    simp only [PRes.bind_ok]
    rw [check_eq .rightParen (t := rp) (r := r1) rfl]
    simp only [PRes.bind_ok, hrp, beq_self_eq_true, Bool.and_true]
    have : (!(TT.rightParen == TT.eof)) = true := by decide
    simp only [this, if_true, PRes.bind_ok]
    rw [consume_hit (t := rp) (r := r1) _ rfl hrp (by decide)]
    simp only [PRes.bind_ok]
    rw [hst, hf2 g hg]
    simp [paramsOf]
  | some l =>
    obtain ⟨hl, hlen⟩ := hps l rfl
    refine ⟨max f2 (l.more.length + 1), fun g hg => ?_⟩
    have h' : s.after = nt :: lp :: l.first :: (moreToks l.more ++ rp :: r1) := by
      simpa [SepList.toksO, SepList.toks] using h
    have hst : ({ adv (advs (adv (adv s nt (lp :: l.first :: (moreToks l.more ++ rp :: r1))) lp
          (l.first :: (moreToks l.more ++ rp :: r1))) (l.first :: moreToks l.more) (rp :: r1)) rp r1
          with inFn := true, inLoop := false } : PState)
        = { advs s (nt :: lp :: (SepList.toksO (some l) ++ [rp])) r1 with inFn := true, inLoop := false } := by
      simp [advs, SepList.toksO, SepList.toks]
    dsimp only
    unfold procTail
    rw [consume_hit _ h' hnt (by decide)]
    simp only [PRes.bind_ok]
    rw [consume_hit (t := lp) (r := l.first :: (moreToks l.more ++ rp :: r1)) _ rfl hlp (by decide)]
    simp only [PRes.bind_ok]
    rw [check_eq .rightParen (t := l.first) (r := moreToks l.more ++ rp :: r1) rfl]
    have : (l.first.tt == TT.rightParen) = false := by rw [hl.1]; decide
    simp only [PRes.bind_ok, this, Bool.and_false, Bool.false_eq_true, if_false]
    rw [procParams_ev l.more l.first [] _ rp r1 g rfl hl.1 hl.2 (by rw [hrp]; decide) (by simpa using hlen)
      (by omega)]
    simp only [PRes.bind_ok]
    rw [consume_hit (t := rp) (r := r1) _ rfl hrp (by decide)]
    simp only [PRes.bind_ok]
    rw [hst, hf2 g (by omega)]
    simp [paramsOf, SepList.items, advs]

/-! ## blocks and the two statement loops -/

theorem block_ev {s : PState} {lb rb : Token} {r1 rest : List Token} {stmts : List Stmt} {s2 : PState}
    (h : s.after = lb :: r1) (hlb : lb.tt = .leftBrace)
    (hloop : Evt (fun g => blockLoop g [] (adv s lb r1)) stmts s2) (h2 : s2.after = rb :: rest)
    (hrb : rb.tt = .rightBrace) :
    Evt (fun g => statement g s) (.block lb stmts rb) (adv s2 rb rest) := by
  obtain ⟨f, hf⟩ := hloop
  refine Evt.of_succ f (fun g hg => ?_)
  dsimp only at hf ⊢
  rw [statement_lbrace g h hlb, hf g hg]
  simp only [PRes.bind_ok]
  rw [consume_hit _ h2 hrb (by decide)]
  rfl

theorem blockLoop_close (g : Nat) (acc : List Stmt) {s : PState} {t : Token} {r : List Token}
    (h : s.after = t :: r) (ht : t.tt = .rightBrace ∨ t.tt = .eof) : blockLoop (g+1) acc s = .ok acc s := by
  simp only [P.blockLoop]
  rw [check_eq _ h]
  simp only [PRes.bind_ok]
  rw [isAtEnd_eq h]
  rcases ht with e | e <;> simp [e]

theorem blockLoop_semi (g : Nat) (acc : List Stmt) {s : PState} {t : Token} {r : List Token}
    (h : s.after = t :: r) (ht : t.tt = .softSemi) : blockLoop (g+1) acc s = blockLoop g acc (adv s t r) := by
  simp only [P.blockLoop]
  rw [check_eq _ h]
  simp only [PRes.bind_ok]
  rw [isAtEnd_eq h]
  simp only [PRes.bind_ok, ht]
  rw [matchToken_hit h ht (by decide)]
  simp

theorem blockLoop_decl (g : Nat) (acc : List Stmt) {s : PState} {t : Token} {r : List Token}
    (h : s.after = t :: r) (h1 : t.tt ≠ .rightBrace) (h2 : t.tt ≠ .eof) (h3 : t.tt ≠ .softSemi) :
    blockLoop (g+1) acc s = (declaration g s).bind fun st s => blockLoop g (acc ++ [st]) s := by
  simp only [P.blockLoop]
  rw [check_eq _ h]
  simp only [PRes.bind_ok]
  rw [isAtEnd_eq h]
  have e1 : (t.tt == TT.rightBrace) = false := by simpa using h1
  have e2 : (t.tt == TT.eof) = false := by simpa using h2
  simp only [PRes.bind_ok, e1, e2]
  rw [matchToken_miss h h3]
  simp

theorem parseLoop_eof (g : Nat) (stmts : List Stmt) {s : PState} {t : Token} {r : List Token}
    (h : s.after = t :: r) (ht : t.tt = .eof) : parseLoop (g+1) stmts [] s = .ok stmts := by
  simp only [parseLoop]
  rw [isAtEnd_eq h]
  simp [ht]

theorem parseLoop_semi (g : Nat) (stmts : List Stmt) (errs : List PErr) {s : PState} {t : Token} {r : List Token}
    (h : s.after = t :: r) (ht : t.tt = .softSemi) :
    parseLoop (g+1) stmts errs s = parseLoop g stmts errs (adv s t r) := by
  simp only [parseLoop]
  rw [isAtEnd_eq h]
  have e2 : (t.tt == TT.eof) = false := by rw [ht]; decide
  simp only [e2]
  rw [matchToken_hit h ht (by decide)]

theorem parseLoop_decl (g : Nat) (stmts : List Stmt) (errs : List PErr) {s s1 : PState} {t : Token}
    {r : List Token} {st : Stmt} (h : s.after = t :: r) (h2 : t.tt ≠ .eof) (h3 : t.tt ≠ .softSemi)
    (hd : declaration g s = .ok st s1) :
    parseLoop (g+1) stmts errs s = parseLoop g (stmts ++ [st]) errs s1 := by
  simp only [parseLoop]
  rw [isAtEnd_eq h]
  have e2 : (t.tt == TT.eof) = false := by simpa using h2
  simp only [e2]
  rw [matchToken_miss h h3]
  simp only [hd]

end P
end Aplang
