import Aplang.Proofs.ParserComplete
import Aplang.Proofs.ParserWF
import Aplang.Proofs.ParserEval
/-!
# Completeness of the statement parser (lemmas for C09b)

Derivations of the documented statement grammar are the mutual inductive types `SStmt` / `SSeq`: every node
carries the tokens it is written with. `renderStmt` / `renderSeq` print a derivation (the canonical printer),
`treeStmt` / `treeSeq` give the syntax tree the parser must return.

Expressions are a parameter: a *printed expression* `PExpr` is a token list with the tree it stands for;
`PExpr.OK` says the expression parser accepts it whenever the following token cannot continue an expression
(`stopsExpr`). The minimally and the fully parenthesised renderings of `Proofs/ParserMin` / `ParserComplete`
are instances (`Thm/C09b`).

Layout: simple statements (expression statement, RETURN, IMPORT) carry their optional terminator token
(`SoftSemi`); without one they must be the last statement of their block / of the program. Additional
terminator tokens between statements are `SSeq.semi`. Bodies are in braces; an ELSE branch is a block or
another IF.

This file: part 1, one lemma per construct — the parser function of the construct, applied to the construct's
tokens followed by any continuation, returns the tree and stops in front of the continuation.
-/
namespace Aplang
namespace P

/-! ## "for all sufficiently large fuel" -/

/-- for all sufficiently large fuel the run succeeds with `a` in state `s'` -/
def Evt {α} (run : Nat → PRes α) (a : α) (s' : PState) : Prop := ∃ f, ∀ g, f ≤ g → run g = .ok a s'

theorem Evt.of_succ {α} {run : Nat → PRes α} {a : α} {s' : PState} (f0 : Nat)
    (h : ∀ g, f0 ≤ g → run (g+1) = .ok a s') : Evt run a s' := by
  refine ⟨f0 + 1, fun g hg => ?_⟩
  obtain ⟨g', rfl⟩ : ∃ g', g = g' + 1 := ⟨g - 1, by omega⟩
  exact h g' (by omega)

theorem Evt.const {α} {r : PRes α} {a : α} {s' : PState} (h : r = .ok a s') : Evt (fun _ => r) a s' :=
  ⟨0, fun _ _ => h⟩

/-! ## printed expressions -/

/-- a printed expression: its tokens and the tree the parser is to return -/
structure PExpr where
  toks : List Token
  tree : Expr

/-- the expression parser accepts the tokens in front of every token that cannot continue an expression -/
def PExpr.OK (e : PExpr) : Prop :=
  ∀ s nxt r, s.after = e.toks ++ nxt :: r → stopsExpr nxt.tt →
    ∃ fuel, ∀ g, fuel ≤ g → expression g s = .ok e.tree (advs s e.toks (nxt :: r))

/-- the first token of an accepted expression is one an expression can begin with -/
theorem PExpr.OK.first {e : PExpr} (h : e.OK) : ∃ t r, e.toks = t :: r ∧ isExprStart t.tt = true := by
  let eof : Token := ⟨.eof, [], .none, 0, 0⟩
  obtain ⟨f, hf⟩ := h ⟨[], e.toks ++ [eof], false, false⟩ eof [] rfl (by decide)
  obtain ⟨c, hc, hs, _⟩ := (expression_sound f _).elim (hf f (Nat.le_refl f))
  have ha : e.toks ++ [eof] = c ++ [eof] := hc.after
  have : c = e.toks := (List.append_cancel_right ha).symm
  rw [← this]
  exact hs.first

/-- after an accepted expression, `previous()` is the last token of the tree -/
theorem PExpr.OK.previous {e : PExpr} (_h : e.OK) {s nxt r g} (hg : expression g s = .ok e.tree (advs s e.toks (nxt :: r))) :
    previous (advs s e.toks (nxt :: r)) = .ok (lastTok e.tree) (advs s e.toks (nxt :: r)) :=
  previous_of_exprQ ((expression_sound g s).elim hg)

/-! ## terminators -/

/-- an optional terminator token is a `SoftSemi` -/
def TermOK (term : Option Token) : Prop := ∀ t, term = some t → t.tt = .softSemi

/-- the next token closes the block or ends the input -/
def Closes (rest : List Token) : Prop := ∃ t r, rest = t :: r ∧ (t.tt = .rightBrace ∨ t.tt = .eof)

theorem term_head {term : Option Token} {rest : List Token} (hterm : TermOK term)
    (hfol : term = none → Closes rest) :
    ∃ nxt r, term.toList ++ rest = nxt :: r ∧ (nxt.tt = .softSemi ∨ nxt.tt = .rightBrace ∨ nxt.tt = .eof) := by
  cases term with
  | some t => exact ⟨t, rest, rfl, Or.inl (hterm t rfl)⟩
  | none =>
    obtain ⟨t, r, rfl, ht⟩ := hfol rfl
    exact ⟨t, r, rfl, Or.inr ht⟩

theorem stops_of_term {k : TT} (h : k = .softSemi ∨ k = .rightBrace ∨ k = .eof) : stopsExpr k := by
  rcases h with h | h | h <;> rw [h] <;> decide

theorem terminator_ev (code : String) (lab : Bool) {s : PState} {term : Option Token} {rest : List Token}
    (h : s.after = term.toList ++ rest) (hterm : TermOK term) (hfol : term = none → Closes rest) :
    terminator code lab s = .ok () (advs s term.toList rest) := by
  cases term with
  | some t =>
    rw [terminator_at_semi' code lab h (hterm t rfl)]
    rfl
  | none =>
    obtain ⟨t, r, rfl, ht⟩ := hfol rfl
    rw [terminator_at_close' code lab h ht]
    obtain ⟨b, a, f1, f2⟩ := s
    simp at h
    subst h
    rfl
where
  terminator_at_close' (code : String) (lab : Bool) {s : PState} {t : Token} {r : List Token}
      (h : s.after = t :: r) (ht : t.tt = .rightBrace ∨ t.tt = .eof) : terminator code lab s = .ok () s := by
    unfold terminator
    rw [isAtEnd_eq h]
    rcases ht with ht | ht
    · simp [ht, check_eq _ h]
    · simp [ht]
  terminator_at_semi' (code : String) (lab : Bool) {s : PState} {t : Token} {r : List Token}
      (h : s.after = t :: r) (ht : t.tt = .softSemi) : terminator code lab s = .ok () (adv s t r) := by
    unfold terminator
    rw [isAtEnd_eq h]
    simp [ht, check_eq _ h, consume_hit _ h ht]

/-! ## dispatch on the first token -/

/-- the kinds with a statement form of their own -/
def isStmtKw : TT → Bool
  | .import_ | .if_ | .repeat_ | .for_ | .leftBrace | .continue_ | .break_ | .return_ => true
  | _ => false

theorem exprStart_not_kw {k : TT} (h : isExprStart k = true) :
    isStmtKw k = false ∧ k ≠ .export_ ∧ k ≠ .procedure ∧ k ≠ .softSemi ∧ k ≠ .rightBrace ∧ k ≠ .eof ∧
    k ≠ .until_ := by
  cases k <;> simp [isExprStart] at h <;> simp [isStmtKw]

theorem statement_expr (g : Nat) {s : PState} {t r} (h : s.after = t :: r) (hk : isStmtKw t.tt = false) :
    statement (g+1) s = expressionStatement g s := by
  have hne : ∀ k, isStmtKw k = true → t.tt ≠ k := by
    intro k hk' e; rw [e] at hk; rw [hk] at hk'; cases hk'
  simp only [P.statement]
  rw [matchToken_miss h (hne _ rfl)]; simp only [PRes.bind_ok]
  rw [matchToken_miss h (hne _ rfl)]; simp only [PRes.bind_ok]
  rw [matchToken_miss h (hne _ rfl)]; simp only [PRes.bind_ok]
  rw [matchToken_miss h (hne _ rfl)]; simp only [PRes.bind_ok]
  rw [matchToken_miss h (hne _ rfl)]; simp only [PRes.bind_ok]
  rw [matchToken_miss h (hne _ rfl)]; simp only [PRes.bind_ok]
  rw [matchToken_miss h (hne _ rfl)]; simp only [PRes.bind_ok]
  rw [matchToken_miss h (hne _ rfl)]; simp only [PRes.bind_ok]

theorem statement_import (g : Nat) {s : PState} {t r} (h : s.after = t :: r) (ht : t.tt = .import_) :
    statement (g+1) s = importStatement g t (adv s t r) := by
  simp only [P.statement]
  rw [matchToken_hit h ht (by decide)]; rfl

theorem statement_if (g : Nat) {s : PState} {t r} (h : s.after = t :: r) (ht : t.tt = .if_) :
    statement (g+1) s = ifStatement g t (adv s t r) := by
  simp only [P.statement]
  rw [matchToken_miss h (by rw [ht]; decide)]; simp only [PRes.bind_ok]
  rw [matchToken_hit h ht (by decide)]; rfl

theorem statement_repeat_until (g : Nat) {s : PState} {t u r} (h : s.after = t :: u :: r) (ht : t.tt = .repeat_)
    (hu : u.tt = .until_) :
    statement (g+1) s = restoreLoop s.inLoop (repeatUntil g t { adv s t (u :: r) with inLoop := true }) := by
  simp only [P.statement]
  rw [matchToken_miss h (by rw [ht]; decide)]; simp only [PRes.bind_ok]
  rw [matchToken_miss h (by rw [ht]; decide)]; simp only [PRes.bind_ok]
  rw [matchToken_hit h ht (by decide)]; simp only [PRes.bind_ok]
  rw [check_eq .until_ (s := { adv s t (u :: r) with inLoop := true }) (t := u) (r := r) rfl]
  simp [hu]

theorem statement_repeat_times (g : Nat) {s : PState} {t u r} (h : s.after = t :: u :: r) (ht : t.tt = .repeat_)
    (hu : u.tt ≠ .until_) :
    statement (g+1) s = restoreLoop s.inLoop (repeatTimes g t { adv s t (u :: r) with inLoop := true }) := by
  simp only [P.statement]
  rw [matchToken_miss h (by rw [ht]; decide)]; simp only [PRes.bind_ok]
  rw [matchToken_miss h (by rw [ht]; decide)]; simp only [PRes.bind_ok]
  rw [matchToken_hit h ht (by decide)]; simp only [PRes.bind_ok]
  rw [check_eq .until_ (s := { adv s t (u :: r) with inLoop := true }) (t := u) (r := r) rfl]
  simp [hu]

theorem statement_for (g : Nat) {s : PState} {t r} (h : s.after = t :: r) (ht : t.tt = .for_) :
    statement (g+1) s = restoreLoop s.inLoop (forEach g t { adv s t r with inLoop := true }) := by
  simp only [P.statement]
  rw [matchToken_miss h (by rw [ht]; decide)]; simp only [PRes.bind_ok]
  rw [matchToken_miss h (by rw [ht]; decide)]; simp only [PRes.bind_ok]
  rw [matchToken_miss h (by rw [ht]; decide)]; simp only [PRes.bind_ok]
  rw [matchToken_hit h ht (by decide)]; rfl

theorem statement_lbrace (g : Nat) {s : PState} {t r} (h : s.after = t :: r) (ht : t.tt = .leftBrace) :
    statement (g+1) s = (blockLoop g [] (adv s t r)).bind fun stmts s =>
      (consume .rightBrace (fun _ => err1 "missing_rb" [t.span]) s).bind fun rb s => .ok (.block t stmts rb) s := by
  simp only [P.statement]
  rw [matchToken_miss h (by rw [ht]; decide)]; simp only [PRes.bind_ok]
  rw [matchToken_miss h (by rw [ht]; decide)]; simp only [PRes.bind_ok]
  rw [matchToken_miss h (by rw [ht]; decide)]; simp only [PRes.bind_ok]
  rw [matchToken_miss h (by rw [ht]; decide)]; simp only [PRes.bind_ok]
  rw [matchToken_hit h ht (by decide)]; rfl

theorem statement_continue (g : Nat) {s : PState} {t r} (h : s.after = t :: r) (ht : t.tt = .continue_)
    (hl : s.inLoop = true) : statement (g+1) s = .ok (.cont t) (adv s t r) := by
  simp only [P.statement]
  rw [matchToken_miss h (by rw [ht]; decide)]; simp only [PRes.bind_ok]
  rw [matchToken_miss h (by rw [ht]; decide)]; simp only [PRes.bind_ok]
  rw [matchToken_miss h (by rw [ht]; decide)]; simp only [PRes.bind_ok]
  rw [matchToken_miss h (by rw [ht]; decide)]; simp only [PRes.bind_ok]
  rw [matchToken_miss h (by rw [ht]; decide)]; simp only [PRes.bind_ok]
  rw [matchToken_hit h ht (by decide)]; simp [hl]

theorem statement_break (g : Nat) {s : PState} {t r} (h : s.after = t :: r) (ht : t.tt = .break_)
    (hl : s.inLoop = true) : statement (g+1) s = .ok (.brk t) (adv s t r) := by
  simp only [P.statement]
  rw [matchToken_miss h (by rw [ht]; decide)]; simp only [PRes.bind_ok]
  rw [matchToken_miss h (by rw [ht]; decide)]; simp only [PRes.bind_ok]
  rw [matchToken_miss h (by rw [ht]; decide)]; simp only [PRes.bind_ok]
  rw [matchToken_miss h (by rw [ht]; decide)]; simp only [PRes.bind_ok]
  rw [matchToken_miss h (by rw [ht]; decide)]; simp only [PRes.bind_ok]
  rw [matchToken_miss h (by rw [ht]; decide)]; simp only [PRes.bind_ok]
  rw [matchToken_hit h ht (by decide)]; simp [hl]

theorem statement_return (g : Nat) {s : PState} {t r} (h : s.after = t :: r) (ht : t.tt = .return_) :
    statement (g+1) s = returnStatement g t (adv s t r) := by
  simp only [P.statement]
  rw [matchToken_miss h (by rw [ht]; decide)]; simp only [PRes.bind_ok]
  rw [matchToken_miss h (by rw [ht]; decide)]; simp only [PRes.bind_ok]
  rw [matchToken_miss h (by rw [ht]; decide)]; simp only [PRes.bind_ok]
  rw [matchToken_miss h (by rw [ht]; decide)]; simp only [PRes.bind_ok]
  rw [matchToken_miss h (by rw [ht]; decide)]; simp only [PRes.bind_ok]
  rw [matchToken_miss h (by rw [ht]; decide)]; simp only [PRes.bind_ok]
  rw [matchToken_miss h (by rw [ht]; decide)]; simp only [PRes.bind_ok]
  rw [matchToken_hit h ht (by decide)]; rfl

theorem declaration_stmt (g : Nat) {s : PState} {t r} (h : s.after = t :: r) (h1 : t.tt ≠ .export_)
    (h2 : t.tt ≠ .procedure) : declaration (g+1) s = statement g s := by
  simp only [P.declaration]
  rw [matchTokens_miss h (by simp [h1, h2])]; rfl

theorem declaration_proc (g : Nat) {s : PState} {t r} (h : s.after = t :: r)
    (ht : t.tt = .export_ ∨ t.tt = .procedure) : declaration (g+1) s = procedure g t (adv s t r) := by
  simp only [P.declaration]
  rw [matchTokens_hit h (by rcases ht with e | e <;> simp [e]) (by rcases ht with e | e <;> rw [e] <;> decide)]; rfl

/-! ## simple statements -/

theorem expressionStatement_ev {s : PState} {e : PExpr} {term : Option Token} {rest : List Token} (he : e.OK)
    (h : s.after = e.toks ++ (term.toList ++ rest)) (hterm : TermOK term) (hfol : term = none → Closes rest) :
    Evt (fun g => expressionStatement g s) (.expr e.tree) (advs s (e.toks ++ term.toList) rest) := by
  obtain ⟨nxt, r, hn, hk⟩ := term_head hterm hfol
  rw [hn] at h
  obtain ⟨f, hf⟩ := he s nxt r h (stops_of_term hk)
  refine ⟨f, fun g hg => ?_⟩
  dsimp only
  unfold expressionStatement
  rw [hf g hg]
  simp only [PRes.bind_ok]
  rw [terminator_ev "missing_eol" true (s := advs s e.toks (nxt :: r)) (term := term) (rest := rest)
    (by simp [hn]) hterm hfol]
  simp [advs]

end P
end Aplang
