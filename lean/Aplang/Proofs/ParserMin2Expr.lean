import Aplang.Proofs.ParserMin2
/-!
# Minimal parenthesisation, the full expression language — part 2: the syntax type  (C05 / C09)

`XExpr` are the expressions of the documented grammar, every node with the tokens it is written with:
literals, variables, binary / logical / unary operators, assignment to a variable, **procedure calls, list
literals, indexing, indexed assignment**, and parentheses written by the author (`.paren`, needed or not).
Argument and item lists `XArgs` are non-empty and carry their commas.

* `XExpr.me` — the printer (the combinators of part 1): `renderMin2 ctx e` / `treeMin2 ctx e`;
* `XExpr.minM` — every well-formed expression satisfies `MinM` (mutual structural induction);
* `Expr.stripGrouping` — the tree without `.grouping` nodes (the diagnostic anchor `listTok` of an index
  expression is recomputed as for a tree parsed without parentheses); `XExpr.skel` — the tree of an expression
  without any group; `stripGrouping (treeMin2 ctx e) = skel e`;
* `XExpr.full` — full parenthesisation as a source-to-source map: every sub-expression that is not a single
  token (or already in parentheses) is enclosed in `( )`; `renderFull2` / `groupAll2` are defined directly and
  proved to be the printer's output for `e.full`.
-/
namespace Aplang

/-! ## the tree without `.grouping` nodes -/

mutual
/-- remove every `.grouping` node. The `listTok` of an index expression — the last token of the primary the
chain of indexings starts from, used only as the byte range of the "Invalid Type" diagnostic — is recomputed
(`baseTok`) for the tree without groups. -/
def Expr.stripGrouping : Expr → Expr
  | .lit v t => .lit v t
  | .binary l op r t => .binary l.stripGrouping op r.stripGrouping t
  | .logical l op r t => .logical l.stripGrouping op r.stripGrouping t
  | .unary op r t => .unary op r.stripGrouping t
  | .grouping e _ _ => e.stripGrouping
  | .call name args sp tok lp rp => .call name (Expr.stripGroupingL args) sp tok lp rp
  | .access l _ k lb rb => .access l.stripGrouping (P.baseTok l.stripGrouping) k.stripGrouping lb rb
  | .list items lb rb => .list (Expr.stripGroupingL items) lb rb
  | .var n t => .var n t
  | .assign n nt v a => .assign n nt v.stripGrouping a
  | .set l _ i lb rb v a =>
    .set l.stripGrouping (P.baseTok l.stripGrouping) i.stripGrouping lb rb v.stripGrouping a
def Expr.stripGroupingL : List Expr → List Expr
  | [] => []
  | e :: es => e.stripGrouping :: Expr.stripGroupingL es
end

theorem Expr.stripGroupingL_eq_map (es : List Expr) : Expr.stripGroupingL es = es.map Expr.stripGrouping := by
  induction es with
  | nil => rfl
  | cons e es ih => simp [Expr.stripGroupingL, ih]

mutual
/-- the group-free form is a normal form -/
theorem Expr.stripGrouping_idem : ∀ e : Expr, e.stripGrouping.stripGrouping = e.stripGrouping
  | .lit v t => by simp [Expr.stripGrouping]
  | .binary l op r t => by simp [Expr.stripGrouping, Expr.stripGrouping_idem l, Expr.stripGrouping_idem r]
  | .logical l op r t => by simp [Expr.stripGrouping, Expr.stripGrouping_idem l, Expr.stripGrouping_idem r]
  | .unary op r t => by simp [Expr.stripGrouping, Expr.stripGrouping_idem r]
  | .grouping e lp rp => by simp [Expr.stripGrouping, Expr.stripGrouping_idem e]
  | .call name args sp tok lp rp => by simp [Expr.stripGrouping, Expr.stripGroupingL_idem args]
  | .access l lt k lb rb => by simp [Expr.stripGrouping, Expr.stripGrouping_idem l, Expr.stripGrouping_idem k]
  | .list items lb rb => by simp [Expr.stripGrouping, Expr.stripGroupingL_idem items]
  | .var n t => by simp [Expr.stripGrouping]
  | .assign n nt v a => by simp [Expr.stripGrouping, Expr.stripGrouping_idem v]
  | .set l lt i lb rb v a => by
    simp [Expr.stripGrouping, Expr.stripGrouping_idem l, Expr.stripGrouping_idem i, Expr.stripGrouping_idem v]
theorem Expr.stripGroupingL_idem : ∀ es : List Expr,
    Expr.stripGroupingL (Expr.stripGroupingL es) = Expr.stripGroupingL es
  | [] => rfl
  | e :: es => by simp [Expr.stripGroupingL, Expr.stripGrouping_idem e, Expr.stripGroupingL_idem es]
end

namespace P

/-! ## the syntax type -/

mutual
/-- expressions of the documented grammar; every node carries its tokens -/
inductive XExpr
  | lit (v : LitV) (tok : Token)
  | var (tok : Token)
  | binary (l : XExpr) (op : BinOp) (tok : Token) (r : XExpr)
  | logical (l : XExpr) (op : LogOp) (tok : Token) (r : XExpr)
  | unary (op : UnOp) (tok : Token) (r : XExpr)
  /-- `name <- v` -/
  | assign (name arrow : Token) (v : XExpr)
  /-- parentheses written in the source -/
  | paren (lp : Token) (e : XExpr) (rp : Token)
  /-- `name ( )` -/
  | call0 (name lp rp : Token)
  /-- `name ( a , … )` -/
  | call (name lp : Token) (args : XArgs) (rp : Token)
  /-- `[ ]` -/
  | list0 (lb rb : Token)
  /-- `[ a , … ]` -/
  | list (lb : Token) (items : XArgs) (rb : Token)
  /-- `l [ idx ]` -/
  | index (l : XExpr) (lb : Token) (idx : XExpr) (rb : Token)
  /-- `l [ idx ] <- v` -/
  | set (l : XExpr) (lb : Token) (idx : XExpr) (rb : Token) (arrow : Token) (v : XExpr)
/-- a non-empty comma-separated list -/
inductive XArgs
  | one (e : XExpr)
  | cons (e : XExpr) (comma : Token) (rest : XArgs)
end

def XArgs.length : XArgs → Nat
  | .one _ => 1
  | .cons _ _ rest => rest.length + 1

def XArgs.seps : XArgs → List Token
  | .one _ => []
  | .cons _ c rest => c :: rest.seps

mutual
/-- the tokens are of the right kinds; a call has at most 255 arguments (the parser's limit) -/
def XExpr.WF : XExpr → Prop
  | .lit v tok => litOf tok = some v
  | .var tok => tok.tt = .identifier
  | .binary l op tok r => l.WF ∧ toBinOp tok.tt = some op ∧ r.WF
  | .logical l op tok r => l.WF ∧ toLogOp tok.tt = some op ∧ r.WF
  | .unary op tok r => toUnOp tok.tt = some op ∧ r.WF
  | .assign name arrow v => name.tt = .identifier ∧ arrow.tt = .arrow ∧ v.WF
  | .paren lp e rp => lp.tt = .leftParen ∧ e.WF ∧ rp.tt = .rightParen
  | .call0 name lp rp => name.tt = .identifier ∧ lp.tt = .leftParen ∧ rp.tt = .rightParen
  | .call name lp args rp =>
    name.tt = .identifier ∧ lp.tt = .leftParen ∧ args.WF ∧ args.length ≤ 255 ∧ rp.tt = .rightParen
  | .list0 lb rb => lb.tt = .leftBracket ∧ rb.tt = .rightBracket
  | .list lb items rb => lb.tt = .leftBracket ∧ items.WF ∧ rb.tt = .rightBracket
  | .index l lb idx rb => l.WF ∧ lb.tt = .leftBracket ∧ idx.WF ∧ rb.tt = .rightBracket
  | .set l lb idx rb arrow v =>
    l.WF ∧ lb.tt = .leftBracket ∧ idx.WF ∧ rb.tt = .rightBracket ∧ arrow.tt = .arrow ∧ v.WF
def XArgs.WF : XArgs → Prop
  | .one e => e.WF
  | .cons e comma rest => e.WF ∧ comma.tt = .comma ∧ rest.WF
end

/-! ## the printer -/

section printer
variable (lp rp : Token)

mutual
/-- level, tokens (without outer parentheses) and tree of an expression; parentheses (`lp`, `rp`) are
inserted exactly where a part binds looser than its position admits -/
def XExpr.me : XExpr → ME
  | .lit v tok => ME.lit v tok
  | .var tok => ME.var tok
  | .binary l op tok r => ME.binary lp rp (XExpr.me l) op tok (XExpr.me r)
  | .logical l op tok r => ME.logical lp rp (XExpr.me l) op tok (XExpr.me r)
  | .unary op tok r => ME.unary lp rp op tok (XExpr.me r)
  | .assign name arrow v => ME.assign lp rp name arrow (XExpr.me v)
  | .paren lp' e rp' => ME.paren lp rp lp' (XExpr.me e) rp'
  | .call0 name lp' rp' => ME.call0 name lp' rp'
  | .call name lp' args rp' => ME.call name lp' (XArgs.margs args) rp'
  | .list0 lb rb => ME.list0 lb rb
  | .list lb items rb => ME.list lb (XArgs.margs items) rb
  | .index l lb idx rb => ME.index lp rp (XExpr.me l) lb (XExpr.me idx) rb
  | .set l lb idx rb arrow v => ME.set lp rp (XExpr.me l) lb (XExpr.me idx) rb arrow (XExpr.me v)
def XArgs.margs : XArgs → MArgs
  | .one e => MArgs.one lp rp (XExpr.me e)
  | .cons e comma rest => MArgs.cons lp rp (XExpr.me e) comma (XArgs.margs rest)
end

/-- the documented level of the root: 1 assignment, 2 OR, 3 AND, 4 `== !=`, 5 comparison, 6 `+ -`,
7 `* / MOD`, 8 unary, 9 indexing, 10 primary (literal, variable, call, list literal, parentheses) -/
def XExpr.level (e : XExpr) : Nat := (e.me lp rp).lvl

/-- **the minimally parenthesised rendering** of `e` at a position that admits level `ctx` and tighter -/
def renderMin2 (ctx : Nat) (e : XExpr) : List Token := ME.render lp rp ctx (e.me lp rp)
/-- its tree: `.grouping` nodes exactly at the parentheses of `renderMin2` -/
def treeMin2 (ctx : Nat) (e : XExpr) : Expr := ME.treeAt lp rp ctx (e.me lp rp)

theorem XExpr.lvl_pos (e : XExpr) : 1 ≤ (e.me lp rp).lvl := by
  cases e <;> simp [XExpr.me, ME.lit, ME.var, ME.binary, ME.logical, ME.unary, ME.assign, ME.paren, ME.call0,
    ME.call, ME.list0, ME.list, ME.index, ME.set]
  · rename_i op _ _; cases op <;> simp [opLevel]
  · rename_i op _ _; cases op <;> simp [logLevel]

theorem XExpr.lvl_le (e : XExpr) : (e.me lp rp).lvl ≤ 10 := by
  cases e <;> simp [XExpr.me, ME.lit, ME.var, ME.binary, ME.logical, ME.unary, ME.assign, ME.paren, ME.call0,
    ME.call, ME.list0, ME.list, ME.index, ME.set]
  · rename_i op _ _; cases op <;> simp [opLevel]
  · rename_i op _ _; cases op <;> simp [logLevel]

/-- at the top level nothing is parenthesised -/
theorem renderMin2_top (e : XExpr) :
    renderMin2 lp rp 1 e = (e.me lp rp).toks ∧ treeMin2 lp rp 1 e = (e.me lp rp).tree :=
  ME.render_raw lp rp (e.lvl_pos lp rp)

theorem XArgs.margs_length : ∀ (a : XArgs), (a.margs lp rp).trees.length = a.length
  | .one e => rfl
  | .cons e c rest => by simp [XArgs.margs, MArgs.cons, XArgs.length, XArgs.margs_length rest]

theorem XArgs.margs_seps : ∀ (a : XArgs), (a.margs lp rp).seps = a.seps
  | .one e => rfl
  | .cons e c rest => by simp [XArgs.margs, MArgs.cons, XArgs.seps, XArgs.margs_seps rest]

end printer

/-! ## the induction -/

section main
variable (lp rp : Token) (hlp : lp.tt = .leftParen) (hrp : rp.tt = .rightParen)
include hlp hrp

set_option linter.unusedSectionVars false in
mutual
/-- every well-formed expression satisfies everything the induction carries -/
theorem XExpr.minM : ∀ (e : XExpr), e.WF → MinM lp rp (e.me lp rp)
  | .lit v tok, he => by
    simp only [XExpr.WF] at he
    exact minM_lit lp rp hlp hrp v tok he
  | .var tok, he => by
    simp only [XExpr.WF] at he
    exact minM_var lp rp hlp hrp tok he
  | .binary l op tok r, he => by
    simp only [XExpr.WF] at he
    exact minM_binary lp rp hlp hrp _ _ op tok he.2.1 (XExpr.minM l he.1) (XExpr.minM r he.2.2)
  | .logical l .or tok r, he => by
    simp only [XExpr.WF] at he
    have htok : tok.tt = .or_ := by
      have := he.2.1; generalize tok.tt = k at this; cases k <;> simp [toLogOp] at this <;> rfl
    exact minM_or lp rp hlp hrp _ _ tok htok (XExpr.minM l he.1) (XExpr.minM r he.2.2)
  | .logical l .and tok r, he => by
    simp only [XExpr.WF] at he
    have htok : tok.tt = .and_ := by
      have := he.2.1; generalize tok.tt = k at this; cases k <;> simp [toLogOp] at this <;> rfl
    exact minM_and lp rp hlp hrp _ _ tok htok (XExpr.minM l he.1) (XExpr.minM r he.2.2)
  | .unary op tok r, he => by
    simp only [XExpr.WF] at he
    exact minM_unary lp rp hlp hrp op tok _ he.1 (XExpr.minM r he.2)
  | .assign name arrow v, he => by
    simp only [XExpr.WF] at he
    exact minM_assign lp rp hlp hrp name arrow _ he.1 he.2.1 (XExpr.minM v he.2.2)
  | .paren lp' e rp', he => by
    simp only [XExpr.WF] at he
    exact minM_paren lp rp hlp hrp lp' rp' _ he.1 he.2.2 (XExpr.minM e he.2.1)
  | .call0 name lp' rp', he => by
    simp only [XExpr.WF] at he
    exact minM_call0 lp rp hlp hrp name lp' rp' he.1 he.2.1 he.2.2
  | .call name lp' args rp', he => by
    simp only [XExpr.WF] at he
    exact minM_call lp rp hlp hrp name lp' rp' _ he.1 he.2.1 he.2.2.2.2 (XArgs.argsOK args he.2.2.1)
      (by rw [XArgs.margs_length]; exact he.2.2.2.1)
  | .list0 lb rb, he => by
    simp only [XExpr.WF] at he
    exact minM_list0 lp rp hlp hrp lb rb he.1 he.2
  | .list lb items rb, he => by
    simp only [XExpr.WF] at he
    exact minM_list lp rp hlp hrp lb rb _ he.1 he.2.2 (XArgs.argsOK items he.2.1)
  | .index l lb idx rb, he => by
    simp only [XExpr.WF] at he
    exact minM_index lp rp hlp hrp _ _ lb rb he.2.1 he.2.2.2 (XExpr.minM l he.1) (XExpr.minM idx he.2.2.1)
  | .set l lb idx rb arrow v, he => by
    simp only [XExpr.WF] at he
    exact minM_set lp rp hlp hrp _ _ _ lb rb arrow he.2.1 he.2.2.2.1 he.2.2.2.2.1 (XExpr.minM l he.1)
      (XExpr.minM idx he.2.2.1) (XExpr.minM v he.2.2.2.2.2)
theorem XArgs.argsOK : ∀ (a : XArgs), a.WF → ArgsOK (a.margs lp rp)
  | .one e, ha => by
    simp only [XArgs.WF] at ha
    exact argsOK_one lp rp hlp _ (XExpr.minM e ha)
  | .cons e comma rest, ha => by
    simp only [XArgs.WF] at ha
    exact argsOK_cons lp rp hlp _ comma _ ha.2.1 (XExpr.minM e ha.1) (XArgs.argsOK rest ha.2.2)
end

end main

/-! ## the tree without groups -/

mutual
/-- the tree of an expression without any `.grouping` node -/
def XExpr.skel : XExpr → Expr
  | .lit v tok => .lit v tok
  | .var tok => .var tok.lexeme tok
  | .binary l op tok r => .binary (XExpr.skel l) op (XExpr.skel r) tok
  | .logical l op tok r => .logical (XExpr.skel l) op (XExpr.skel r) tok
  | .unary op tok r => .unary op (XExpr.skel r) tok
  | .assign name arrow v => .assign name.lexeme name (XExpr.skel v) arrow
  | .paren _ e _ => XExpr.skel e
  | .call0 name lp rp => .call name.lexeme [] [] name lp rp
  | .call name lp args rp =>
    .call name.lexeme (XArgs.skels args) (windowSpans (lp :: (args.seps ++ [rp]))) name lp rp
  | .list0 lb rb => .list [] lb rb
  | .list lb items rb => .list (XArgs.skels items) lb rb
  | .index l lb idx rb => .access (XExpr.skel l) (baseTok (XExpr.skel l)) (XExpr.skel idx) lb rb
  | .set l lb idx rb arrow v =>
    .set (XExpr.skel l) (baseTok (XExpr.skel l)) (XExpr.skel idx) lb rb (XExpr.skel v) arrow
def XArgs.skels : XArgs → List Expr
  | .one e => [XExpr.skel e]
  | .cons e _ rest => XExpr.skel e :: XArgs.skels rest
end

theorem stripGrouping_wrapTree (lp rp : Token) (b : Bool) (t : Expr) :
    (wrapTree lp rp b t).stripGrouping = t.stripGrouping := by
  cases b <;> simp [wrapTree, Expr.stripGrouping]

theorem stripGrouping_treeAt (lp rp : Token) (ctx : Nat) (m : ME) :
    (ME.treeAt lp rp ctx m).stripGrouping = m.tree.stripGrouping :=
  stripGrouping_wrapTree lp rp _ _

mutual
theorem XExpr.strip_tree (lp rp : Token) : ∀ e : XExpr, (e.me lp rp).tree.stripGrouping = e.skel
  | .lit v tok => rfl
  | .var tok => rfl
  | .binary l op tok r => by
    simp only [XExpr.me, ME.binary, Expr.stripGrouping, stripGrouping_treeAt, XExpr.strip_tree lp rp l,
      XExpr.strip_tree lp rp r, XExpr.skel]
  | .logical l op tok r => by
    simp only [XExpr.me, ME.logical, Expr.stripGrouping, stripGrouping_treeAt, XExpr.strip_tree lp rp l,
      XExpr.strip_tree lp rp r, XExpr.skel]
  | .unary op tok r => by
    simp only [XExpr.me, ME.unary, Expr.stripGrouping, stripGrouping_treeAt, XExpr.strip_tree lp rp r, XExpr.skel]
  | .assign name arrow v => by
    simp only [XExpr.me, ME.assign, Expr.stripGrouping, stripGrouping_treeAt, XExpr.strip_tree lp rp v, XExpr.skel]
  | .paren lp' e rp' => by
    simp only [XExpr.me, ME.paren, Expr.stripGrouping, stripGrouping_treeAt, XExpr.strip_tree lp rp e, XExpr.skel]
  | .call0 name lp' rp' => by
    simp only [XExpr.me, ME.call0, Expr.stripGrouping, Expr.stripGroupingL, XExpr.skel]
  | .call name lp' args rp' => by
    simp only [XExpr.me, ME.call, Expr.stripGrouping, XArgs.strip_trees lp rp args, XArgs.margs_seps, XExpr.skel]
  | .list0 lb rb => by
    simp only [XExpr.me, ME.list0, Expr.stripGrouping, Expr.stripGroupingL, XExpr.skel]
  | .list lb items rb => by
    simp only [XExpr.me, ME.list, Expr.stripGrouping, XArgs.strip_trees lp rp items, XExpr.skel]
  | .index l lb idx rb => by
    simp only [XExpr.me, ME.index, Expr.stripGrouping, stripGrouping_treeAt, XExpr.strip_tree lp rp l,
      XExpr.strip_tree lp rp idx, XExpr.skel]
  | .set l lb idx rb arrow v => by
    simp only [XExpr.me, ME.set, Expr.stripGrouping, stripGrouping_treeAt, XExpr.strip_tree lp rp l,
      XExpr.strip_tree lp rp idx, XExpr.strip_tree lp rp v, XExpr.skel]
theorem XArgs.strip_trees (lp rp : Token) : ∀ a : XArgs, Expr.stripGroupingL (a.margs lp rp).trees = a.skels
  | .one e => by
    simp only [XArgs.margs, MArgs.one, Expr.stripGroupingL, stripGrouping_treeAt, XExpr.strip_tree lp rp e,
      XArgs.skels]
  | .cons e c rest => by
    simp only [XArgs.margs, MArgs.cons, Expr.stripGroupingL, stripGrouping_treeAt, XExpr.strip_tree lp rp e,
      XArgs.strip_trees lp rp rest, XArgs.skels]
end

/-- **the minimal tree is the group-free tree up to `.grouping` nodes** -/
theorem treeMin2_strip (lp rp : Token) (ctx : Nat) (e : XExpr) :
    (treeMin2 lp rp ctx e).stripGrouping = e.skel := by
  rw [treeMin2, stripGrouping_treeAt, XExpr.strip_tree]

/-- the group-free tree of an expression is its own group-free form -/
theorem XExpr.skel_strip (e : XExpr) : e.skel.stripGrouping = e.skel := by
  rw [← XExpr.strip_tree (default : Token) default e, Expr.stripGrouping_idem]

/-! ## full parenthesisation -/

/-- a single token, or already in parentheses -/
def XExpr.closed : XExpr → Bool
  | .lit .. => true
  | .var .. => true
  | .paren .. => true
  | _ => false

section full
variable (lp rp : Token)

/-- enclose in parentheses unless `closed` -/
def XExpr.wrap (e : XExpr) : XExpr := if e.closed then e else .paren lp e rp

mutual
/-- every sub-expression (operand, argument, item, indexed base, index, assigned value) that is not a single
token is put in parentheses -/
def XExpr.full : XExpr → XExpr
  | .lit v tok => .lit v tok
  | .var tok => .var tok
  | .binary l op tok r => .binary (XExpr.wrap lp rp (XExpr.full l)) op tok (XExpr.wrap lp rp (XExpr.full r))
  | .logical l op tok r => .logical (XExpr.wrap lp rp (XExpr.full l)) op tok (XExpr.wrap lp rp (XExpr.full r))
  | .unary op tok r => .unary op tok (XExpr.wrap lp rp (XExpr.full r))
  | .assign name arrow v => .assign name arrow (XExpr.wrap lp rp (XExpr.full v))
  | .paren lp' e rp' => .paren lp' (XExpr.full e) rp'
  | .call0 name lp' rp' => .call0 name lp' rp'
  | .call name lp' args rp' => .call name lp' (XArgs.full args) rp'
  | .list0 lb rb => .list0 lb rb
  | .list lb items rb => .list lb (XArgs.full items) rb
  | .index l lb idx rb => .index (XExpr.wrap lp rp (XExpr.full l)) lb (XExpr.wrap lp rp (XExpr.full idx)) rb
  | .set l lb idx rb arrow v =>
    .set (XExpr.wrap lp rp (XExpr.full l)) lb (XExpr.wrap lp rp (XExpr.full idx)) rb arrow
      (XExpr.wrap lp rp (XExpr.full v))
def XArgs.full : XArgs → XArgs
  | .one e => .one (XExpr.wrap lp rp (XExpr.full e))
  | .cons e c rest => .cons (XExpr.wrap lp rp (XExpr.full e)) c (XArgs.full rest)
end

theorem XExpr.wrap_skel (e : XExpr) : (e.wrap lp rp).skel = e.skel := by
  unfold XExpr.wrap; split
  · rfl
  · simp only [XExpr.skel]

theorem XExpr.wrap_wf (hlp : lp.tt = .leftParen) (hrp : rp.tt = .rightParen) {e : XExpr} (h : e.WF) :
    (e.wrap lp rp).WF := by
  unfold XExpr.wrap; split
  · exact h
  · simp only [XExpr.WF]; exact ⟨hlp, h, hrp⟩

theorem XArgs.full_length : ∀ (a : XArgs), (a.full lp rp).length = a.length
  | .one e => rfl
  | .cons e c rest => by simp [XArgs.full, XArgs.length, XArgs.full_length rest]

theorem XArgs.full_seps : ∀ (a : XArgs), (a.full lp rp).seps = a.seps
  | .one e => rfl
  | .cons e c rest => by simp [XArgs.full, XArgs.seps, XArgs.full_seps rest]

mutual
theorem XExpr.full_skel : ∀ e : XExpr, (e.full lp rp).skel = e.skel
  | .lit v tok => rfl
  | .var tok => rfl
  | .binary l op tok r => by
    simp only [XExpr.full, XExpr.skel, XExpr.wrap_skel, XExpr.full_skel l, XExpr.full_skel r]
  | .logical l op tok r => by
    simp only [XExpr.full, XExpr.skel, XExpr.wrap_skel, XExpr.full_skel l, XExpr.full_skel r]
  | .unary op tok r => by simp only [XExpr.full, XExpr.skel, XExpr.wrap_skel, XExpr.full_skel r]
  | .assign name arrow v => by simp only [XExpr.full, XExpr.skel, XExpr.wrap_skel, XExpr.full_skel v]
  | .paren lp' e rp' => by simp only [XExpr.full, XExpr.skel, XExpr.full_skel e]
  | .call0 name lp' rp' => rfl
  | .call name lp' args rp' => by simp only [XExpr.full, XExpr.skel, XArgs.full_skels args, XArgs.full_seps]
  | .list0 lb rb => rfl
  | .list lb items rb => by simp only [XExpr.full, XExpr.skel, XArgs.full_skels items]
  | .index l lb idx rb => by
    simp only [XExpr.full, XExpr.skel, XExpr.wrap_skel, XExpr.full_skel l, XExpr.full_skel idx]
  | .set l lb idx rb arrow v => by
    simp only [XExpr.full, XExpr.skel, XExpr.wrap_skel, XExpr.full_skel l, XExpr.full_skel idx, XExpr.full_skel v]
theorem XArgs.full_skels : ∀ a : XArgs, (a.full lp rp).skels = a.skels
  | .one e => by simp only [XArgs.full, XArgs.skels, XExpr.wrap_skel, XExpr.full_skel e]
  | .cons e c rest => by
    simp only [XArgs.full, XArgs.skels, XExpr.wrap_skel, XExpr.full_skel e, XArgs.full_skels rest]
end

section wf
variable (hlp : lp.tt = .leftParen) (hrp : rp.tt = .rightParen)
include hlp hrp

mutual
theorem XExpr.full_wf : ∀ e : XExpr, e.WF → (e.full lp rp).WF
  | .lit v tok, h => h
  | .var tok, h => h
  | .binary l op tok r, h => by
    simp only [XExpr.WF, XExpr.full] at h ⊢
    exact ⟨XExpr.wrap_wf lp rp hlp hrp (XExpr.full_wf l h.1), h.2.1, XExpr.wrap_wf lp rp hlp hrp (XExpr.full_wf r h.2.2)⟩
  | .logical l op tok r, h => by
    simp only [XExpr.WF, XExpr.full] at h ⊢
    exact ⟨XExpr.wrap_wf lp rp hlp hrp (XExpr.full_wf l h.1), h.2.1, XExpr.wrap_wf lp rp hlp hrp (XExpr.full_wf r h.2.2)⟩
  | .unary op tok r, h => by
    simp only [XExpr.WF, XExpr.full] at h ⊢
    exact ⟨h.1, XExpr.wrap_wf lp rp hlp hrp (XExpr.full_wf r h.2)⟩
  | .assign name arrow v, h => by
    simp only [XExpr.WF, XExpr.full] at h ⊢
    exact ⟨h.1, h.2.1, XExpr.wrap_wf lp rp hlp hrp (XExpr.full_wf v h.2.2)⟩
  | .paren lp' e rp', h => by
    simp only [XExpr.WF, XExpr.full] at h ⊢
    exact ⟨h.1, XExpr.full_wf e h.2.1, h.2.2⟩
  | .call0 name lp' rp', h => h
  | .call name lp' args rp', h => by
    simp only [XExpr.WF, XExpr.full] at h ⊢
    exact ⟨h.1, h.2.1, XArgs.full_wf args h.2.2.1, by rw [XArgs.full_length]; exact h.2.2.2.1, h.2.2.2.2⟩
  | .list0 lb rb, h => h
  | .list lb items rb, h => by
    simp only [XExpr.WF, XExpr.full] at h ⊢
    exact ⟨h.1, XArgs.full_wf items h.2.1, h.2.2⟩
  | .index l lb idx rb, h => by
    simp only [XExpr.WF, XExpr.full] at h ⊢
    exact ⟨XExpr.wrap_wf lp rp hlp hrp (XExpr.full_wf l h.1), h.2.1,
      XExpr.wrap_wf lp rp hlp hrp (XExpr.full_wf idx h.2.2.1), h.2.2.2⟩
  | .set l lb idx rb arrow v, h => by
    simp only [XExpr.WF, XExpr.full] at h ⊢
    exact ⟨XExpr.wrap_wf lp rp hlp hrp (XExpr.full_wf l h.1), h.2.1,
      XExpr.wrap_wf lp rp hlp hrp (XExpr.full_wf idx h.2.2.1), h.2.2.2.1, h.2.2.2.2.1,
      XExpr.wrap_wf lp rp hlp hrp (XExpr.full_wf v h.2.2.2.2.2)⟩
theorem XArgs.full_wf : ∀ a : XArgs, a.WF → (a.full lp rp).WF
  | .one e, h => by
    simp only [XArgs.WF, XArgs.full] at h ⊢
    exact XExpr.wrap_wf lp rp hlp hrp (XExpr.full_wf e h)
  | .cons e c rest, h => by
    simp only [XArgs.WF, XArgs.full] at h ⊢
    exact ⟨XExpr.wrap_wf lp rp hlp hrp (XExpr.full_wf e h.1), h.2.1, XArgs.full_wf rest h.2.2⟩
end

end wf

/-! ### the fully parenthesised rendering, written out -/

mutual
/-- **the fully parenthesised rendering**: every part that is not a single token (or already in parentheses)
is written in parentheses -/
def renderFull2 : XExpr → List Token
  | .lit _ tok => [tok]
  | .var tok => [tok]
  | .binary l _ tok r =>
    wrapToks lp rp l.closed (renderFull2 l) ++ tok :: wrapToks lp rp r.closed (renderFull2 r)
  | .logical l _ tok r =>
    wrapToks lp rp l.closed (renderFull2 l) ++ tok :: wrapToks lp rp r.closed (renderFull2 r)
  | .unary _ tok r => tok :: wrapToks lp rp r.closed (renderFull2 r)
  | .assign name arrow v => name :: arrow :: wrapToks lp rp v.closed (renderFull2 v)
  | .paren lp' e rp' => lp' :: (renderFull2 e ++ [rp'])
  | .call0 name lp' rp' => [name, lp', rp']
  | .call name lp' args rp' => name :: lp' :: (renderFullArgs args ++ [rp'])
  | .list0 lb rb => [lb, rb]
  | .list lb items rb => lb :: (renderFullArgs items ++ [rb])
  | .index l lb idx rb =>
    wrapToks lp rp l.closed (renderFull2 l) ++ lb :: (wrapToks lp rp idx.closed (renderFull2 idx) ++ [rb])
  | .set l lb idx rb arrow v =>
    (wrapToks lp rp l.closed (renderFull2 l) ++ lb :: (wrapToks lp rp idx.closed (renderFull2 idx) ++ [rb])) ++
      arrow :: wrapToks lp rp v.closed (renderFull2 v)
def renderFullArgs : XArgs → List Token
  | .one e => wrapToks lp rp e.closed (renderFull2 e)
  | .cons e c rest => wrapToks lp rp e.closed (renderFull2 e) ++ c :: renderFullArgs rest
end

mutual
/-- the tree with a `.grouping` node at every parenthesis of `renderFull2` -/
def groupAll2 : XExpr → Expr
  | .lit v tok => .lit v tok
  | .var tok => .var tok.lexeme tok
  | .binary l op tok r =>
    .binary (wrapTree lp rp l.closed (groupAll2 l)) op (wrapTree lp rp r.closed (groupAll2 r)) tok
  | .logical l op tok r =>
    .logical (wrapTree lp rp l.closed (groupAll2 l)) op (wrapTree lp rp r.closed (groupAll2 r)) tok
  | .unary op tok r => .unary op (wrapTree lp rp r.closed (groupAll2 r)) tok
  | .assign name arrow v => .assign name.lexeme name (wrapTree lp rp v.closed (groupAll2 v)) arrow
  | .paren lp' e rp' => .grouping (groupAll2 e) lp' rp'
  | .call0 name lp' rp' => .call name.lexeme [] [] name lp' rp'
  | .call name lp' args rp' =>
    .call name.lexeme (groupAllArgs args) (windowSpans (lp' :: (args.seps ++ [rp']))) name lp' rp'
  | .list0 lb rb => .list [] lb rb
  | .list lb items rb => .list (groupAllArgs items) lb rb
  | .index l lb idx rb =>
    .access (wrapTree lp rp l.closed (groupAll2 l)) (baseTok (wrapTree lp rp l.closed (groupAll2 l)))
      (wrapTree lp rp idx.closed (groupAll2 idx)) lb rb
  | .set l lb idx rb arrow v =>
    .set (wrapTree lp rp l.closed (groupAll2 l)) (baseTok (wrapTree lp rp l.closed (groupAll2 l)))
      (wrapTree lp rp idx.closed (groupAll2 idx)) lb rb (wrapTree lp rp v.closed (groupAll2 v)) arrow
def groupAllArgs : XArgs → List Expr
  | .one e => [wrapTree lp rp e.closed (groupAll2 e)]
  | .cons e _ rest => wrapTree lp rp e.closed (groupAll2 e) :: groupAllArgs rest
end

/-! ### … and it is what the printer writes for `e.full` (no further parentheses are added) -/

theorem XExpr.full_closed (e : XExpr) : (e.full lp rp).closed = e.closed := by
  cases e <;> rfl

theorem XExpr.closed_lvl {e : XExpr} (h : e.closed = true) : (e.me lp rp).lvl = 10 := by
  cases e <;> simp [XExpr.closed] at h <;> rfl

theorem XExpr.wrap_render (x : XExpr) (ctx : Nat) (hc : ctx ≤ 10) :
    ME.render lp rp ctx ((x.wrap lp rp).me lp rp) = wrapToks lp rp x.closed (x.me lp rp).toks ∧
    ME.treeAt lp rp ctx ((x.wrap lp rp).me lp rp) = wrapTree lp rp x.closed (x.me lp rp).tree := by
  unfold XExpr.wrap
  cases h : x.closed with
  | true =>
    simp only [if_true]
    have := ME.render_raw lp rp (a := ctx) (e := x.me lp rp) (by rw [XExpr.closed_lvl lp rp h]; exact hc)
    simpa [wrapToks, wrapTree] using this
  | false =>
    simp only [Bool.false_eq_true, if_false, XExpr.me]
    have h1 := ME.render_raw lp rp (a := 1) (e := x.me lp rp) (x.lvl_pos lp rp)
    have := ME.render_raw lp rp (a := ctx) (e := ME.paren lp rp lp (x.me lp rp) rp) (by simpa [ME.paren] using hc)
    rw [this.1, this.2]
    simp [ME.paren, h1.1, h1.2, wrapToks, wrapTree]

/-- a part of a fully parenthesised expression -/
theorem XExpr.full_part (c : XExpr)
    (ih : ((c.full lp rp).me lp rp).toks = renderFull2 lp rp c ∧ ((c.full lp rp).me lp rp).tree = groupAll2 lp rp c)
    (ctx : Nat) (hc : ctx ≤ 10) :
    ME.render lp rp ctx (((c.full lp rp).wrap lp rp).me lp rp) = wrapToks lp rp c.closed (renderFull2 lp rp c) ∧
    ME.treeAt lp rp ctx (((c.full lp rp).wrap lp rp).me lp rp) = wrapTree lp rp c.closed (groupAll2 lp rp c) := by
  have := XExpr.wrap_render lp rp (c.full lp rp) ctx hc
  rw [XExpr.full_closed, ih.1, ih.2] at this
  exact this

theorem opLevel_le7 (op : BinOp) : opLevel op ≤ 7 := by cases op <;> simp [opLevel]
theorem lctx_le4 (op : LogOp) : lctx op ≤ 4 := by cases op <;> simp [lctx]

mutual
theorem XExpr.full_me : ∀ e : XExpr,
    ((e.full lp rp).me lp rp).toks = renderFull2 lp rp e ∧ ((e.full lp rp).me lp rp).tree = groupAll2 lp rp e
  | .lit v tok => ⟨rfl, rfl⟩
  | .var tok => ⟨rfl, rfl⟩
  | .binary l op tok r => by
    have a := XExpr.full_part lp rp l (XExpr.full_me l) (opLevel op) (by have := opLevel_le7 op; omega)
    have b := XExpr.full_part lp rp r (XExpr.full_me r) (opLevel op + 1) (by have := opLevel_le7 op; omega)
    simp only [XExpr.full, XExpr.me, ME.binary, renderFull2, groupAll2, a.1, a.2, b.1, b.2, and_self]
  | .logical l op tok r => by
    have a := XExpr.full_part lp rp l (XExpr.full_me l) (lctx op) (by have := lctx_le4 op; omega)
    have b := XExpr.full_part lp rp r (XExpr.full_me r) 3 (by omega)
    simp only [XExpr.full, XExpr.me, ME.logical, renderFull2, groupAll2, a.1, a.2, b.1, b.2, and_self]
  | .unary op tok r => by
    have b := XExpr.full_part lp rp r (XExpr.full_me r) 8 (by omega)
    simp only [XExpr.full, XExpr.me, ME.unary, renderFull2, groupAll2, b.1, b.2, and_self]
  | .assign name arrow v => by
    have b := XExpr.full_part lp rp v (XExpr.full_me v) 1 (by omega)
    simp only [XExpr.full, XExpr.me, ME.assign, renderFull2, groupAll2, b.1, b.2, and_self]
  | .paren lp' e rp' => by
    have ih := XExpr.full_me e
    have h1 := ME.render_raw lp rp (a := 1) (e := (e.full lp rp).me lp rp) ((e.full lp rp).lvl_pos lp rp)
    simp only [XExpr.full, XExpr.me, ME.paren, renderFull2, groupAll2, h1.1, h1.2, ih.1, ih.2, and_self]
  | .call0 name lp' rp' => ⟨rfl, rfl⟩
  | .call name lp' args rp' => by
    have ih := XArgs.full_margs args
    simp only [XExpr.full, XExpr.me, ME.call, renderFull2, groupAll2, ih.1, ih.2, XArgs.margs_seps,
      XArgs.full_seps, and_self]
  | .list0 lb rb => ⟨rfl, rfl⟩
  | .list lb items rb => by
    have ih := XArgs.full_margs items
    simp only [XExpr.full, XExpr.me, ME.list, renderFull2, groupAll2, ih.1, ih.2, and_self]
  | .index l lb idx rb => by
    have a := XExpr.full_part lp rp l (XExpr.full_me l) 9 (by omega)
    have b := XExpr.full_part lp rp idx (XExpr.full_me idx) 1 (by omega)
    simp only [XExpr.full, XExpr.me, ME.index, renderFull2, groupAll2, a.1, a.2, b.1, b.2, and_self]
  | .set l lb idx rb arrow v => by
    have a := XExpr.full_part lp rp l (XExpr.full_me l) 9 (by omega)
    have b := XExpr.full_part lp rp idx (XExpr.full_me idx) 1 (by omega)
    have c := XExpr.full_part lp rp v (XExpr.full_me v) 1 (by omega)
    simp only [XExpr.full, XExpr.me, ME.set, ME.index, renderFull2, groupAll2, a.1, a.2, b.1, b.2, c.1, c.2, and_self]
theorem XArgs.full_margs : ∀ a : XArgs,
    ((a.full lp rp).margs lp rp).toks = renderFullArgs lp rp a ∧
    ((a.full lp rp).margs lp rp).trees = groupAllArgs lp rp a
  | .one e => by
    have b := XExpr.full_part lp rp e (XExpr.full_me e) 1 (by omega)
    simp only [XArgs.full, XArgs.margs, MArgs.one, renderFullArgs, groupAllArgs, b.1, b.2, and_self]
  | .cons e c rest => by
    have b := XExpr.full_part lp rp e (XExpr.full_me e) 1 (by omega)
    have ih := XArgs.full_margs rest
    simp only [XArgs.full, XArgs.margs, MArgs.cons, renderFullArgs, groupAllArgs, b.1, b.2, ih.1, ih.2, and_self]
end

/-- **the fully parenthesised rendering is the printer's output for `e.full`** -/
theorem renderFull2_eq (e : XExpr) :
    renderFull2 lp rp e = renderMin2 lp rp 1 (e.full lp rp) ∧ groupAll2 lp rp e = treeMin2 lp rp 1 (e.full lp rp) := by
  have h := renderMin2_top lp rp (e.full lp rp)
  have h2 := XExpr.full_me lp rp e
  exact ⟨by rw [h.1, h2.1], by rw [h.2, h2.2]⟩

/-- the fully grouped tree is the group-free tree up to `.grouping` nodes -/
theorem groupAll2_strip (e : XExpr) : (groupAll2 lp rp e).stripGrouping = e.skel := by
  rw [(renderFull2_eq lp rp e).2, treeMin2_strip, XExpr.full_skel]

end full

end P
end Aplang
