import Aplang.Proofs.StateOf
import Aplang.Spec.Eval
/-!
# The scope frame: execution touches the top variable scope only

`σ.scopes : List Frame` is the stack of variable scopes; `lookupVar`, `define`, `removeVar` work on its head.
Every successful expression / statement execution leaves all frames *below the top one* untouched and keeps
the height of the stack (`ScopeKeep`): blocks duplicate the head frame and remove the second one on exit, a
call pushes the frame of the parameters and pops it on return. Native procedures, operators, indexing and
IMPORT do not touch the stack at all (`SameSc`).

Level: proved directly for the evaluator **model** (`Model/Interp.lean`), for every program, state, configuration
and fuel (no well-formedness hypothesis), and — by the same induction — for the reference semantics `Spec.*`.
-/
namespace Aplang

/-- a predicate on the payload of a successful result (nothing is said about failures) -/
def OkHolds {α : Type} (P : α → Prop) : Res α → Prop
  | .ok a => P a
  | _ => True

section
variable {α β : Type} {P : α → Prop} {Q : β → Prop}

theorem OkHolds.get {r : Res α} {a : α} (h : OkHolds P r) (hr : r = .ok a) : P a := by subst hr; exact h
theorem OkHolds.intro {r : Res α} (h : ∀ a, r = .ok a → P a) : OkHolds P r := by
  cases r with
  | ok a => exact h a rfl
  | _ => trivial
theorem OkHolds.mono {P' : α → Prop} {r : Res α} (h : OkHolds P r) (hp : ∀ a, P a → P' a) : OkHolds P' r := by
  cases r with
  | ok a => exact hp a h
  | _ => trivial
theorem OkHolds.bind_eq {x : Res α} {k : α → Res β} (h : ∀ a, x = .ok a → OkHolds Q (k a)) : OkHolds Q (x.bind k) := by
  cases x with
  | ok a => exact h a rfl
  | _ => trivial
theorem OkHolds.bind {x : Res α} {k : α → Res β} (hx : OkHolds P x) (hk : ∀ a, P a → OkHolds Q (k a)) : OkHolds Q (x.bind k) :=
  OkHolds.bind_eq fun _ ha => hk _ (hx.get ha)
end

/-- the frames below the top one are the same, and so is the height of the stack -/
def ScopeKeep (σ σ' : St) : Prop := σ'.scopes.tail = σ.scopes.tail ∧ σ'.scopes.length = σ.scopes.length

theorem ScopeKeep.rfl' (σ : St) : ScopeKeep σ σ := ⟨rfl, rfl⟩
theorem ScopeKeep.of_eq {σ σ' : St} (h : σ'.scopes = σ.scopes) : ScopeKeep σ σ' := ⟨by rw [h], by rw [h]⟩
theorem ScopeKeep.trans {a b c : St} (h1 : ScopeKeep a b) (h2 : ScopeKeep b c) : ScopeKeep a c :=
  ⟨h2.1.trans h1.1, h2.2.trans h1.2⟩
theorem ScopeKeep.drop_one {σ σ' : St} (h : ScopeKeep σ σ') : σ'.scopes.drop 1 = σ.scopes.drop 1 := by
  simpa only [List.drop_one] using h.1
/-- the same, frame by frame: the stack is `top :: below` before and `top' :: below` after -/
theorem ScopeKeep.cons {σ σ' : St} {fr : Frame} {below : List Frame} (h : ScopeKeep σ σ')
    (hs : σ.scopes = fr :: below) : ∃ fr', σ'.scopes = fr' :: below := by
  obtain ⟨h1, h2⟩ := h
  rw [hs] at h1 h2
  cases hs' : σ'.scopes with
  | nil => rw [hs'] at h2; cases h2
  | cons fr' rest => rw [hs'] at h1; exact ⟨fr', by rw [show rest = below from h1]⟩

/-- **the frame predicate**: a successful result keeps the lower frames and the height -/
def KeepR {α : Type} [HasSt α] (σ : St) (r : Res α) : Prop := OkHolds (fun a => ScopeKeep σ (HasSt.st a)) r
/-- a successful result has exactly the scopes of `σ` -/
def SameSc {α : Type} [HasSt α] (σ : St) (r : Res α) : Prop := OkHolds (fun a => (HasSt.st a).scopes = σ.scopes) r

section
variable {α β : Type} {σ : St}

theorem KeepR.ok [HasSt α] {a : α} (h : ScopeKeep σ (HasSt.st a)) : KeepR σ (.ok a) := h
theorem SameSc.ok [HasSt α] {a : α} (h : (HasSt.st a).scopes = σ.scopes) : SameSc σ (.ok a) := h

theorem KeepR.of_same [HasSt α] {r : Res α} (h : SameSc σ r) : KeepR σ r :=
  OkHolds.mono h fun _ ha => ScopeKeep.of_eq ha

theorem KeepR.getP {r : Res (α × St)} {a : α} {σ' : St} (h : KeepR σ r) (hr : r = .ok (a, σ')) :
    ScopeKeep σ σ' := by subst hr; exact h
theorem KeepR.getS {r : Res St} {σ' : St} (h : KeepR σ r) (hr : r = .ok σ') : ScopeKeep σ σ' := by
  subst hr; exact h
theorem SameSc.getP {r : Res (α × St)} {a : α} {σ' : St} (h : SameSc σ r) (hr : r = .ok (a, σ')) :
    σ'.scopes = σ.scopes := by subst hr; exact h
theorem SameSc.getS {r : Res St} {σ' : St} (h : SameSc σ r) (hr : r = .ok σ') : σ'.scopes = σ.scopes := by
  subst hr; exact h

/-- start from an earlier state -/
theorem KeepR.of_keep [HasSt α] {σ1 : St} {r : Res α} (hσ : ScopeKeep σ σ1) (h : KeepR σ1 r) : KeepR σ r :=
  OkHolds.mono h fun _ ha => hσ.trans ha
theorem SameSc.of_eq [HasSt α] {σ1 : St} {r : Res α} (hσ : σ1.scopes = σ.scopes) (h : SameSc σ1 r) : SameSc σ r :=
  OkHolds.mono h fun _ ha => ha.trans hσ

/-- sequencing: the continuation runs from the state the first step produced -/
theorem KeepR.bind [HasSt α] [HasSt β] {x : Res α} {k : α → Res β} (hx : KeepR σ x)
    (hk : ∀ a, ScopeKeep σ (HasSt.st a) → KeepR (HasSt.st a) (k a)) : KeepR σ (x.bind k) :=
  OkHolds.bind hx fun a ha => KeepR.of_keep ha (hk a ha)
theorem KeepR.bindP [HasSt β] {x : Res (α × St)} {k : α × St → Res β} (hx : KeepR σ x)
    (hk : ∀ a σ1, ScopeKeep σ σ1 → KeepR σ1 (k (a, σ1))) : KeepR σ (x.bind k) :=
  KeepR.bind hx fun p hp => hk p.1 p.2 hp
theorem KeepR.bindS [HasSt β] {x : Res St} {k : St → Res β} (hx : KeepR σ x)
    (hk : ∀ σ1, ScopeKeep σ σ1 → KeepR σ1 (k σ1)) : KeepR σ (x.bind k) :=
  KeepR.bind hx fun p hp => hk p hp
/-- sequencing with the equation of the first step at hand -/
theorem KeepR.bind_eq [HasSt β] {x : Res α} {k : α → Res β} (h : ∀ a, x = .ok a → KeepR σ (k a)) :
    KeepR σ (x.bind k) := OkHolds.bind_eq h
/-- a helper that returns no state, then a step from the same state -/
theorem KeepR.bind_any [HasSt β] {x : Res α} {k : α → Res β} (h : ∀ a, KeepR σ (k a)) : KeepR σ (x.bind k) :=
  OkHolds.bind_eq fun a _ => h a

theorem SameSc.bind_any [HasSt β] {x : Res α} {k : α → Res β} (h : ∀ a, SameSc σ (k a)) : SameSc σ (x.bind k) :=
  OkHolds.bind_eq fun a _ => h a
theorem SameSc.bindP [HasSt β] {x : Res (α × St)} {k : α × St → Res β} (hx : SameSc σ x)
    (hk : ∀ a σ1, σ1.scopes = σ.scopes → SameSc σ1 (k (a, σ1))) : SameSc σ (x.bind k) :=
  OkHolds.bind hx fun p hp => SameSc.of_eq hp (hk p.1 p.2 hp)
theorem SameSc.bindS [HasSt β] {x : Res St} {k : St → Res β} (hx : SameSc σ x)
    (hk : ∀ σ1, σ1.scopes = σ.scopes → SameSc σ1 (k σ1)) : SameSc σ (x.bind k) :=
  OkHolds.bind hx fun p hp => SameSc.of_eq hp (hk p hp)

end

/-! ## the state primitives -/

theorem tick_scopes {σ0 σ : St} (h : tick σ0 = some σ) : σ.scopes = σ0.scopes := by
  unfold tick at h
  split at h
  · cases h
  · cases h; rfl

theorem writeBack_scopes (σ a i cur) : (writeBack σ a i cur).scopes = σ.scopes := by
  unfold writeBack
  split
  · split <;> rfl
  · rfl

/-- `define` replaces the top frame -/
theorem define_keep (σ x v) : KeepR σ (define σ x v) := by
  unfold define
  cases h : σ.scopes with
  | nil => trivial
  | cons fr rest => exact KeepR.ok ⟨by rw [h]; rfl, by rw [h]; rfl⟩

theorem removeVar_keep (σ x) : KeepR σ (removeVar σ x) := by
  unfold removeVar
  cases h : σ.scopes with
  | nil => trivial
  | cons fr rest => exact KeepR.ok ⟨by rw [h]; rfl, by rw [h]; rfl⟩

theorem popLoop_same (σ) : SameSc σ (popLoop σ) := by
  unfold popLoop; split
  · trivial
  · exact SameSc.ok rfl

theorem createNested_scopes {σ σ1 : St} (h : createNested σ = .ok σ1) :
    ∃ fr rest, σ.scopes = fr :: rest ∧ σ1.scopes = fr :: fr :: rest := by
  unfold createNested at h
  cases hs : σ.scopes with
  | nil => rw [hs] at h; cases h
  | cons fr rest => rw [hs] at h; cases h; exact ⟨fr, rest, rfl, rfl⟩

theorem flattenNested_scopes {τ σ2 : St} (h : flattenNested τ = .ok σ2) :
    ∃ x y r, τ.scopes = x :: y :: r ∧ σ2.scopes = x :: r := by
  unfold flattenNested at h
  split at h
  · cases h
  · cases h
  · rename_i x y r hs
    cases h; exact ⟨x, y, r, hs, rfl⟩

/-- a block: the duplicate of the head frame made on entry is the one removed on exit -/
theorem nest_keep {σ σ1 τ σ2 : St} (h1 : createNested σ = .ok σ1) (h2 : ScopeKeep σ1 τ)
    (h3 : flattenNested τ = .ok σ2) : ScopeKeep σ σ2 := by
  obtain ⟨fr, rest, hs, hs1⟩ := createNested_scopes h1
  obtain ⟨x, y, r, ht, hs2⟩ := flattenNested_scopes h3
  obtain ⟨k1, k2⟩ := h2
  rw [ht, hs1] at k1 k2
  simp only [List.tail_cons, List.cons.injEq, List.length_cons, Nat.add_right_cancel_iff] at k1 k2
  constructor
  · rw [hs2, hs]; simp only [List.tail_cons]; exact k1.2
  · rw [hs2, hs]; simp only [List.length_cons, k2]

/-- a call: the callee's frame is pushed, the body keeps everything below it, the frame is popped -/
theorem call_pop {σ1 τ : St} {B : Frame} {below : List Frame} (hc : σ1.scopes = B :: below) (h : ScopeKeep σ1 τ) :
    ∃ fr, τ.scopes = fr :: below := h.cons hc

/-! ## operators, indexing, assignment, natives: leaves of the sweeps -/

macro "sf_leaf" : tactic =>
  `(tactic| first
    | exact SameSc.ok rfl
    | exact (trivial : True))

theorem fsFlag_sameSc (op path σ) : SameSc σ (fsFlag op path σ) := by
  unfold fsFlag; exact SameSc.ok rfl

macro "sf_step" : tactic =>
  `(tactic| first
    | sf_leaf
    | exact fsFlag_sameSc _ _ _
    | (apply SameSc.bind_any; intro _)
    | split)

theorem binop_sameSc (op tok a b σ) : SameSc σ (binop op tok a b σ) := by
  unfold binop rtErr
  repeat' sf_step

theorem unop_sameSc (op tok v σ) : SameSc σ (unop op tok v σ) := by
  unfold unop rtErr
  repeat' sf_step

theorem indexRead_sameSc (l k lt lb rb σ) : SameSc σ (indexRead l k lt lb rb σ) := by
  unfold indexRead rtErr
  repeat' sf_step

theorem indexWrite_sameSc (l k v lt lb rb σ) : SameSc σ (indexWrite l k v lt lb rb σ) := by
  unfold indexWrite rtErr
  repeat' sf_step

theorem afterBody_sameSc (b σ) : SameSc σ (afterBody b σ) := by
  unfold afterBody
  repeat' sf_step

theorem forAfter_sameSc (σ) : SameSc σ (forAfter σ) := by
  unfold forAfter
  repeat' sf_step

/-- assignment: a new binding in the top frame, or a copy into the list cell the variable refers to -/
theorem assignVar_keep (name v σ) : KeepR σ (assignVar name v σ) := by
  have hd : ∀ σ, KeepR σ ((define σ name v).bind fun σ => Res.ok (v, σ)) := fun σ =>
    KeepR.bindS (define_keep σ name v) fun σ1 _ => KeepR.ok (ScopeKeep.rfl' _)
  unfold assignVar
  split
  · split
    · split
      · exact KeepR.ok (ScopeKeep.rfl' _)
      · split
        · exact KeepR.ok (ScopeKeep.of_eq rfl)
        · trivial
    · exact hd σ
  · exact hd σ

theorem moveRobot_sameSc (v s1 σ) : SameSc σ (moveRobot v s1 σ) := by
  unfold moveRobot
  repeat' sf_step

theorem callCore_sameSc (env n args spans σ) : SameSc σ (callCore env n args spans σ) := by
  unfold callCore; split
  all_goals (repeat' sf_step)
theorem callMath_sameSc (env n args spans σ) : SameSc σ (callMath env n args spans σ) := by
  unfold callMath; split
  all_goals (repeat' sf_step)
theorem callString_sameSc (env n args spans σ) : SameSc σ (callString env n args spans σ) := by
  unfold callString; split
  all_goals (repeat' sf_step)
theorem callMap_sameSc (env n args spans σ) : SameSc σ (callMap env n args spans σ) := by
  unfold callMap; split
  all_goals (repeat' sf_step)
theorem callIo_sameSc (env n args spans σ) : SameSc σ (callIo env n args spans σ) := by
  unfold callIo; split
  all_goals (repeat' sf_step)
theorem callStyle_sameSc (env n args spans σ) : SameSc σ (callStyle env n args spans σ) := by
  unfold callStyle; split
  all_goals (repeat' sf_step)
theorem callTime_sameSc (env n args spans σ) : SameSc σ (callTime env n args spans σ) := by
  unfold callTime; split
  all_goals (repeat' sf_step)
theorem callRobot_sameSc (env n args spans σ) : SameSc σ (callRobot env n args spans σ) := by
  unfold callRobot; split
  all_goals first | exact moveRobot_sameSc _ _ _ | (repeat' sf_step)
theorem callFs_sameSc (env n args spans σ) : SameSc σ (callFs env n args spans σ) := by
  unfold callFs; split
  all_goals (repeat' sf_step)

/-- no native procedure touches the variable scopes -/
theorem callNative_sameSc (env n args spans σ) : SameSc σ (callNative env n args spans σ) := by
  unfold callNative
  split
  · exact callCore_sameSc env n args spans σ
  · exact callMath_sameSc env n args spans σ
  · exact callString_sameSc env n args spans σ
  · exact callMap_sameSc env n args spans σ
  · exact callIo_sameSc env n args spans σ
  · exact callStyle_sameSc env n args spans σ
  · exact callTime_sameSc env n args spans σ
  · exact callRobot_sameSc env n args spans σ
  · exact callFs_sameSc env n args spans σ

/-- IMPORT: the module runs on a scope stack of its own (`moduleState`), and the importer's stack is put back
(`afterModule`) — whatever the module does -/
theorem importStmt_sameSc (cfg : Cfg) (runModule : List Stmt → St → Res St) (only modName σ) :
    SameSc σ (importStmt cfg runModule only modName σ) := by
  unfold importStmt rtErr
  apply SameSc.bind_any
  intro name
  refine SameSc.bindP ?_ ?_
  · split
    · sf_leaf
    · dsimp only
      split
      · sf_leaf
      · split
        · sf_leaf
        · split
          · sf_leaf
          · split
            · apply SameSc.bind_any
              intro σm
              exact SameSc.ok rfl
            · sf_leaf
            · sf_leaf
            · sf_leaf
  · intro module σ1 _
    apply SameSc.bind_any
    intro m
    exact SameSc.ok rfl

/-! ## the evaluator model, by induction on fuel -/

/-- all eight functions of the evaluator keep the lower frames and the height, at fuel `f` -/
structure KeepAll (cfg : Cfg) (f : Nat) : Prop where
  expr : ∀ e σ, KeepR σ (expr cfg f e σ)
  exprs : ∀ es σ, KeepR σ (exprs cfg f es σ)
  stmt : ∀ s σ, KeepR σ (stmt cfg f s σ)
  block : ∀ ss σ, KeepR σ (block cfg f ss σ)
  repeatLoop : ∀ k body σ, KeepR σ (repeatLoop cfg f k body σ)
  untilLoop : ∀ c body σ, KeepR σ (untilLoop cfg f c body σ)
  forLoop : ∀ item a i len body σ, KeepR σ (forLoop cfg f item a i len body σ)
  program : ∀ ss σ, KeepR σ (program cfg f ss σ)

theorem keepAll_zero (cfg : Cfg) : KeepAll cfg 0 where
  expr := by intro e σ; simp only [expr]; trivial
  exprs := by
    intro es σ
    cases es with
    | nil => simp only [exprs]; exact KeepR.ok (ScopeKeep.rfl' _)
    | cons e es => simp only [exprs]; trivial
  stmt := by intro s σ; simp only [stmt]; trivial
  block := by
    intro ss σ
    cases ss with
    | nil => simp only [block]; exact KeepR.ok (ScopeKeep.rfl' _)
    | cons s ss => simp only [block]; split <;> first | exact KeepR.ok (ScopeKeep.rfl' _) | trivial
  repeatLoop := by
    intro k body σ
    cases k with
    | zero => simp only [repeatLoop]; exact KeepR.ok (ScopeKeep.rfl' _)
    | succ k => simp only [repeatLoop]; trivial
  untilLoop := by intro c body σ; simp only [untilLoop]; trivial
  forLoop := by intro item a i len body σ; simp only [forLoop]; trivial
  program := by
    intro ss σ
    cases ss with
    | nil => simp only [program]; exact KeepR.ok (ScopeKeep.rfl' _)
    | cons s ss => simp only [program]; trivial

macro "sf_refl" : tactic => `(tactic| first | exact KeepR.ok (ScopeKeep.rfl' _) | exact (trivial : True))

section step
variable {cfg : Cfg} {f : Nat} (ih : KeepAll cfg f)
include ih

/-- **the call of a looked-up procedure, after the arguments are evaluated**: the scopes after the call are
exactly the scopes before it — the callee's frame has vanished, the caller's frames (its current one
included) are as they were -/
theorem call_tail_sameSc (name : Str) (vs : List Value) (spans : List Span) (tok lp rp : Token) (σ1 : St) :
    SameSc σ1
      (match σ1.procs.find? name with
      | none => rtErr "Invalid PROCEDURE" tok.span σ1
      | some (.native n) =>
        if n.arity != vs.length then rtErr "Incorrect Number Of Args" (interior lp rp) σ1
        else callNative cfg.chars n vs spans σ1
      | some (.user params body) =>
        if params.length != vs.length then rtErr "Incorrect Number Of Args" (interior lp rp) σ1 else
        (stmt cfg f body { σ1 with scopes := bindParams params vs [] :: σ1.scopes, ret := none }).bind fun σ =>
        match σ.scopes with
        | [] => .panic "env.scrape" σ.out
        | _ :: rest => .ok (σ.ret.getD .null, { σ with ret := σ1.ret, scopes := rest })) := by
  split
  · trivial
  · split
    · trivial
    · exact callNative_sameSc cfg.chars _ vs spans σ1
  · split
    · trivial
    · apply OkHolds.bind_eq
      intro τ hτ
      have hk := (ih.stmt _ _).getS hτ
      obtain ⟨fr, hfr⟩ := call_pop (σ1 := { σ1 with scopes := bindParams _ vs [] :: σ1.scopes, ret := none }) rfl hk
      rw [hfr]
      exact SameSc.ok rfl

theorem exprs_keep_step (es σ) : KeepR σ (exprs cfg (f+1) es σ) := by
  cases es with
  | nil => simp only [exprs]; sf_refl
  | cons e es =>
    simp only [exprs]
    apply KeepR.bindP (ih.expr e σ)
    intro v σ1 _
    apply KeepR.bindP (ih.exprs es σ1)
    intro vs σ2 _
    sf_refl

theorem expr_keep_step (e σ) : KeepR σ (expr cfg (f+1) e σ) := by
  cases e with
  | grouping e lp rp => simp only [expr]; exact ih.expr e σ
  | lit v tok => simp only [expr]; sf_refl
  | binary l op r tok =>
    simp only [expr]
    apply KeepR.bindP (ih.expr l σ)
    intro a σ1 _
    apply KeepR.bindP (ih.expr r σ1)
    intro b σ2 _
    exact KeepR.of_same (binop_sameSc op tok a b σ2)
  | unary op r tok =>
    simp only [expr]
    apply KeepR.bindP (ih.expr r σ)
    intro v σ1 _
    exact KeepR.of_same (unop_sameSc op tok v σ1)
  | access l lt k lb rb =>
    simp only [expr]
    apply KeepR.bindP (ih.expr l σ)
    intro lv σ1 _
    apply KeepR.bindP (ih.expr k σ1)
    intro kv σ2 _
    exact KeepR.of_same (indexRead_sameSc lv kv lt lb rb σ2)
  | list items lb rb =>
    simp only [expr]
    apply KeepR.bindP (ih.exprs items σ)
    intro vs σ1 _
    exact KeepR.ok (ScopeKeep.of_eq rfl)
  | var name tok =>
    simp only [expr, rtErr]
    split <;> sf_refl
  | assign name nt value arrow =>
    simp only [expr]
    apply KeepR.bindP (ih.expr value σ)
    intro v σ1 _
    exact assignVar_keep name v σ1
  | set l lt idx lb rb value arrow =>
    simp only [expr]
    apply KeepR.bindP (ih.expr l σ)
    intro lv σ1 _
    apply KeepR.bindP (ih.expr idx σ1)
    intro kv σ2 _
    apply KeepR.bindP (ih.expr value σ2)
    intro v σ3 _
    exact KeepR.of_same (indexWrite_sameSc lv kv v lt lb rb σ3)
  | logical l op r tok =>
    simp only [expr]
    apply KeepR.bindP (ih.expr l σ)
    intro a σ1 _
    cases op <;> dsimp only <;> split <;> first | sf_refl | exact ih.expr r σ1
  | call name args spans tok lp rp =>
    simp only [expr]
    apply KeepR.bindP (ih.exprs args σ)
    intro vs σ1 _
    exact KeepR.of_same (call_tail_sameSc ih name vs spans tok lp rp σ1)

theorem block_keep_step (ss σ) : KeepR σ (block cfg (f+1) ss σ) := by
  cases ss with
  | nil => simp only [block]; sf_refl
  | cons s ss =>
    simp only [block]
    split
    · sf_refl
    · apply KeepR.bindS (ih.stmt s σ)
      intro σ1 _
      exact ih.block ss σ1

theorem repeatLoop_keep_step (k body σ) : KeepR σ (repeatLoop cfg (f+1) k body σ) := by
  cases k with
  | zero => simp only [repeatLoop]; sf_refl
  | succ k =>
    simp only [repeatLoop]
    apply KeepR.bindS (ih.stmt body σ)
    intro σ1 _
    apply KeepR.bindP (KeepR.of_same (afterBody_sameSc false σ1))
    intro nxt σ2 _
    cases nxt
    · exact ih.repeatLoop k body σ2
    · sf_refl

theorem untilLoop_keep_step (c body σ) : KeepR σ (untilLoop cfg (f+1) c body σ) := by
  simp only [untilLoop]
  apply KeepR.bindP (ih.expr c σ)
  intro v σ1 _
  dsimp only
  split
  · sf_refl
  · apply KeepR.bindS (ih.stmt body σ1)
    intro σ2 _
    apply KeepR.bindP (KeepR.of_same (afterBody_sameSc true σ2))
    intro nxt σ3 _
    cases nxt
    · exact ih.untilLoop c body σ3
    · sf_refl

theorem forLoop_keep_step (item a i len body σ) : KeepR σ (forLoop cfg (f+1) item a i len body σ) := by
  simp only [forLoop]
  split
  · sf_refl
  · split
    · sf_refl
    · apply KeepR.bindS (define_keep σ item _)
      intro σ1 _
      apply KeepR.bindS (ih.stmt body σ1)
      intro σ2 _
      apply KeepR.bindP (KeepR.of_same (forAfter_sameSc σ2))
      intro nxt σ3 _
      cases nxt
      · sf_refl
      · exact ih.forLoop item a (i+1) len body σ3
      · dsimp only
        apply KeepR.bindP (removeVar_keep σ3 item)
        intro cur σ4 _
        exact KeepR.of_keep (ScopeKeep.of_eq (writeBack_scopes σ4 a i cur)) (ih.forLoop item a (i+1) len body _)

theorem program_keep_step (ss σ) : KeepR σ (program cfg (f+1) ss σ) := by
  cases ss with
  | nil => simp only [program]; sf_refl
  | cons s ss =>
    simp only [program]
    apply KeepR.bindS (ih.stmt s σ)
    intro σ1 _
    exact ih.program ss σ1

theorem stmt_keep_step (s σ0) : KeepR σ0 (stmt cfg (f+1) s σ0) := by
  simp only [stmt]
  cases ht : tick σ0 with
  | none => trivial
  | some σ =>
    apply KeepR.of_keep (ScopeKeep.of_eq (tick_scopes ht))
    cases s with
    | expr e =>
      dsimp only
      apply KeepR.bindP (ih.expr e σ)
      intro v σ1 _
      sf_refl
    | ifs c t e it et =>
      dsimp only
      apply KeepR.bindP (ih.expr c σ)
      intro v σ1 _
      dsimp only
      split
      · exact ih.stmt t σ1
      · cases e with
        | none => sf_refl
        | some e => exact ih.stmt e σ1
    | repeatTimes count body rt tt ct =>
      dsimp only
      apply KeepR.bindP (ih.expr count σ)
      intro v σ1 _
      cases v with
      | num n =>
        dsimp only
        refine KeepR.bindS (KeepR.of_keep (σ1 := { σ1 with loops := _ }) (ScopeKeep.of_eq rfl)
          (ih.repeatLoop _ body _)) ?_
        intro σ2 _
        exact KeepR.of_same (popLoop_same σ2)
      | null => trivial
      | bool b => trivial
      | str x => trivial
      | list a => trivial
      | obj a => trivial
    | repeatUntil cond body rt ut =>
      dsimp only
      refine KeepR.bindS (KeepR.of_keep (σ1 := { σ with loops := _ }) (ScopeKeep.of_eq rfl)
        (ih.untilLoop cond body _)) ?_
      intro σ2 _
      exact KeepR.of_same (popLoop_same σ2)
    | procDecl name params body exported pt nt =>
      dsimp only
      exact KeepR.ok (ScopeKeep.of_eq rfl)
    | ret tok value =>
      dsimp only
      cases value with
      | none => exact KeepR.ok (ScopeKeep.of_eq rfl)
      | some e =>
        dsimp only
        apply KeepR.bindP (ih.expr e σ)
        intro v σ1 _
        exact KeepR.ok (ScopeKeep.of_eq rfl)
    | cont tok =>
      dsimp only
      split <;> first | exact KeepR.ok (ScopeKeep.of_eq rfl) | trivial
    | brk tok =>
      dsimp only
      split <;> first | exact KeepR.ok (ScopeKeep.of_eq rfl) | trivial
    | block lb stmts rb =>
      dsimp only
      apply KeepR.bind_eq
      intro σ1 h1
      apply KeepR.bind_eq
      intro τ h2
      apply OkHolds.intro
      intro σ2 h3
      exact nest_keep h1 ((ih.block stmts σ1).getS h2) h3
    | import_ it mt ft only modName =>
      dsimp only
      exact KeepR.of_same (importStmt_sameSc cfg _ only modName σ)
    | forEach item itok list body ft et int lt =>
      dsimp only
      apply KeepR.bindP (ih.expr list σ)
      intro v σ1 _
      dsimp only
      refine KeepR.bindP (by cases v <;> first | exact KeepR.ok (ScopeKeep.of_eq rfl) | trivial) ?_
      intro a σ2 _
      dsimp only
      apply KeepR.bindP (removeVar_keep σ2 item)
      intro cached σ3 _
      dsimp only
      apply KeepR.bind_any
      intro len
      refine KeepR.bindS (KeepR.of_keep (σ1 := { σ3 with loops := _ }) (ScopeKeep.of_eq rfl)
        (ih.forLoop item a 0 len body _)) ?_
      intro σ4 _
      apply KeepR.bindS (KeepR.of_same (popLoop_same σ4))
      intro σ5 _
      cases cached with
      | none => sf_refl
      | some v => exact define_keep σ5 item v

end step

/-- **the scope frame of the evaluator model**, for every fuel -/
theorem keepAll (cfg : Cfg) : ∀ f, KeepAll cfg f
  | 0 => keepAll_zero cfg
  | f+1 =>
    have ih := keepAll cfg f
    { expr := expr_keep_step ih, exprs := exprs_keep_step ih, stmt := stmt_keep_step ih,
      block := block_keep_step ih, repeatLoop := repeatLoop_keep_step ih, untilLoop := untilLoop_keep_step ih,
      forLoop := forLoop_keep_step ih, program := program_keep_step ih }

/-! ## the same for the reference semantics `Spec.*` -/

namespace Spec

structure KeepAll (cfg : Cfg) (f : Nat) : Prop where
  expr : ∀ e σ, KeepR σ (Spec.expr cfg f e σ)
  exprs : ∀ es σ, KeepR σ (Spec.exprs cfg f es σ)
  stmt : ∀ s σ, KeepR σ (Spec.stmt cfg f s σ)
  block : ∀ ss σ, KeepR σ (Spec.block cfg f ss σ)
  repeatLoop : ∀ k body σ, KeepR σ (Spec.repeatLoop cfg f k body σ)
  untilLoop : ∀ c body σ, KeepR σ (Spec.untilLoop cfg f c body σ)
  forLoop : ∀ item a i len body σ, KeepR σ (Spec.forLoop cfg f item a i len body σ)
  program : ∀ ss σ, KeepR σ (Spec.program cfg f ss σ)

theorem keepAll_zero (cfg : Cfg) : KeepAll cfg 0 where
  expr := by intro e σ; simp only [Spec.expr]; trivial
  exprs := by
    intro es σ
    cases es with
    | nil => simp only [Spec.exprs]; sf_refl
    | cons e es => simp only [Spec.exprs]; trivial
  stmt := by intro s σ; simp only [Spec.stmt]; trivial
  block := by
    intro ss σ
    cases ss with
    | nil => simp only [Spec.block]; sf_refl
    | cons s ss => simp only [Spec.block]; trivial
  repeatLoop := by
    intro k body σ
    cases k with
    | zero => simp only [Spec.repeatLoop]; sf_refl
    | succ k => simp only [Spec.repeatLoop]; trivial
  untilLoop := by intro c body σ; simp only [Spec.untilLoop]; trivial
  forLoop := by intro item a i len body σ; simp only [Spec.forLoop]; trivial
  program := by
    intro ss σ
    cases ss with
    | nil => simp only [Spec.program]; sf_refl
    | cons s ss => simp only [Spec.program]; trivial

section step
variable {cfg : Cfg} {f : Nat} (ih : KeepAll cfg f)
include ih

/-- the reference call, after the arguments are evaluated: the scopes after the call are exactly the scopes
before it -/
theorem call_tail_sameSc (name : Str) (vs : List Value) (spans : List Span) (tok lp rp : Token) (σ1 : St) :
    SameSc σ1
      (match σ1.procs.find? name with
      | none => rtErr "Invalid PROCEDURE" tok.span σ1
      | some (.native n) =>
        if n.arity != vs.length then rtErr "Incorrect Number Of Args" (interior lp rp) σ1
        else callNative cfg.chars n vs spans σ1
      | some (.user params body) =>
        if params.length != vs.length then rtErr "Incorrect Number Of Args" (interior lp rp) σ1 else
        (Spec.stmt cfg f body { σ1 with scopes := bindParams params vs [] :: σ1.scopes }).bind fun (sig, σ) =>
        match σ.scopes with
        | [] => .panic "env.scrape" σ.out
        | _ :: rest => .ok ((match sig with | .ret v => v | _ => .null), { σ with scopes := rest })) := by
  split
  · trivial
  · split
    · trivial
    · exact callNative_sameSc cfg.chars _ vs spans σ1
  · split
    · trivial
    · apply OkHolds.bind_eq
      intro p hτ
      obtain ⟨sig, τ⟩ := p
      have hk := (ih.stmt _ _).getP hτ
      obtain ⟨fr, hfr⟩ := call_pop (σ1 := { σ1 with scopes := bindParams _ vs [] :: σ1.scopes }) rfl hk
      dsimp only
      rw [hfr]
      exact SameSc.ok rfl

theorem exprs_keep_step (es σ) : KeepR σ (Spec.exprs cfg (f+1) es σ) := by
  cases es with
  | nil => simp only [Spec.exprs]; sf_refl
  | cons e es =>
    simp only [Spec.exprs]
    apply KeepR.bindP (ih.expr e σ)
    intro v σ1 _
    apply KeepR.bindP (ih.exprs es σ1)
    intro vs σ2 _
    sf_refl

theorem expr_keep_step (e σ) : KeepR σ (Spec.expr cfg (f+1) e σ) := by
  cases e with
  | grouping e lp rp => simp only [Spec.expr]; exact ih.expr e σ
  | lit v tok => simp only [Spec.expr]; sf_refl
  | binary l op r tok =>
    simp only [Spec.expr]
    apply KeepR.bindP (ih.expr l σ)
    intro a σ1 _
    apply KeepR.bindP (ih.expr r σ1)
    intro b σ2 _
    exact KeepR.of_same (binop_sameSc op tok a b σ2)
  | unary op r tok =>
    simp only [Spec.expr]
    apply KeepR.bindP (ih.expr r σ)
    intro v σ1 _
    exact KeepR.of_same (unop_sameSc op tok v σ1)
  | access l lt k lb rb =>
    simp only [Spec.expr]
    apply KeepR.bindP (ih.expr l σ)
    intro lv σ1 _
    apply KeepR.bindP (ih.expr k σ1)
    intro kv σ2 _
    exact KeepR.of_same (indexRead_sameSc lv kv lt lb rb σ2)
  | list items lb rb =>
    simp only [Spec.expr]
    apply KeepR.bindP (ih.exprs items σ)
    intro vs σ1 _
    exact KeepR.ok (ScopeKeep.of_eq rfl)
  | var name tok =>
    simp only [Spec.expr, rtErr]
    split <;> sf_refl
  | assign name nt value arrow =>
    simp only [Spec.expr]
    apply KeepR.bindP (ih.expr value σ)
    intro v σ1 _
    exact assignVar_keep name v σ1
  | set l lt idx lb rb value arrow =>
    simp only [Spec.expr]
    apply KeepR.bindP (ih.expr l σ)
    intro lv σ1 _
    apply KeepR.bindP (ih.expr idx σ1)
    intro kv σ2 _
    apply KeepR.bindP (ih.expr value σ2)
    intro v σ3 _
    exact KeepR.of_same (indexWrite_sameSc lv kv v lt lb rb σ3)
  | logical l op r tok =>
    simp only [Spec.expr]
    apply KeepR.bindP (ih.expr l σ)
    intro a σ1 _
    cases op <;> dsimp only <;> split <;> first | sf_refl | exact ih.expr r σ1
  | call name args spans tok lp rp =>
    simp only [Spec.expr]
    apply KeepR.bindP (ih.exprs args σ)
    intro vs σ1 _
    exact KeepR.of_same (call_tail_sameSc ih name vs spans tok lp rp σ1)

theorem block_keep_step (ss σ) : KeepR σ (Spec.block cfg (f+1) ss σ) := by
  cases ss with
  | nil => simp only [Spec.block]; sf_refl
  | cons s ss =>
    simp only [Spec.block]
    apply KeepR.bindP (ih.stmt s σ)
    intro sig σ1 _
    cases sig <;> dsimp only <;> first | exact ih.block ss σ1 | sf_refl

theorem repeatLoop_keep_step (k body σ) : KeepR σ (Spec.repeatLoop cfg (f+1) k body σ) := by
  cases k with
  | zero => simp only [Spec.repeatLoop]; sf_refl
  | succ k =>
    simp only [Spec.repeatLoop]
    apply KeepR.bindP (ih.stmt body σ)
    intro sig σ1 _
    cases sig <;> dsimp only <;> first | exact ih.repeatLoop k body σ1 | sf_refl

theorem untilLoop_keep_step (c body σ) : KeepR σ (Spec.untilLoop cfg (f+1) c body σ) := by
  simp only [Spec.untilLoop]
  apply KeepR.bindP (ih.expr c σ)
  intro v σ1 _
  dsimp only
  split
  · sf_refl
  · apply KeepR.bindP (ih.stmt body σ1)
    intro sig σ2 _
    cases sig <;> dsimp only <;> first | exact ih.untilLoop c body σ2 | sf_refl

theorem forLoop_keep_step (item a i len body σ) : KeepR σ (Spec.forLoop cfg (f+1) item a i len body σ) := by
  simp only [Spec.forLoop]
  split
  · sf_refl
  · split
    · sf_refl
    · apply KeepR.bindS (define_keep σ item _)
      intro σ1 _
      apply KeepR.bindP (ih.stmt body σ1)
      intro sig σ2 _
      cases sig
      · dsimp only
        apply KeepR.bindP (removeVar_keep σ2 item)
        intro cur σ3 _
        exact KeepR.of_keep (ScopeKeep.of_eq (writeBack_scopes σ3 a i cur)) (ih.forLoop item a (i+1) len body _)
      · sf_refl
      · exact ih.forLoop item a (i+1) len body σ2
      · sf_refl

theorem program_keep_step (ss σ) : KeepR σ (Spec.program cfg (f+1) ss σ) := by
  cases ss with
  | nil => simp only [Spec.program]; sf_refl
  | cons s ss =>
    simp only [Spec.program]
    apply KeepR.bindP (ih.stmt s σ)
    intro sig σ1 _
    exact ih.program ss σ1

theorem stmt_keep_step (s σ0) : KeepR σ0 (Spec.stmt cfg (f+1) s σ0) := by
  simp only [Spec.stmt]
  cases ht : tick σ0 with
  | none => trivial
  | some σ =>
    apply KeepR.of_keep (ScopeKeep.of_eq (tick_scopes ht))
    cases s with
    | expr e =>
      dsimp only
      apply KeepR.bindP (ih.expr e σ)
      intro v σ1 _
      sf_refl
    | ifs c t e it et =>
      dsimp only
      apply KeepR.bindP (ih.expr c σ)
      intro v σ1 _
      dsimp only
      split
      · exact ih.stmt t σ1
      · cases e with
        | none => sf_refl
        | some e => exact ih.stmt e σ1
    | repeatTimes count body rt tt ct =>
      dsimp only
      apply KeepR.bindP (ih.expr count σ)
      intro v σ1 _
      cases v with
      | num n =>
        dsimp only
        refine KeepR.bindP (KeepR.of_keep (σ1 := { σ1 with loops := _ }) (ScopeKeep.of_eq rfl)
          (ih.repeatLoop _ body _)) ?_
        intro sig σ2 _
        apply KeepR.bindS (KeepR.of_same (popLoop_same σ2))
        intro σ3 _
        sf_refl
      | null => trivial
      | bool b => trivial
      | str x => trivial
      | list a => trivial
      | obj a => trivial
    | repeatUntil cond body rt ut =>
      dsimp only
      refine KeepR.bindP (KeepR.of_keep (σ1 := { σ with loops := _ }) (ScopeKeep.of_eq rfl)
        (ih.untilLoop cond body _)) ?_
      intro sig σ2 _
      apply KeepR.bindS (KeepR.of_same (popLoop_same σ2))
      intro σ3 _
      sf_refl
    | procDecl name params body exported pt nt =>
      dsimp only
      exact KeepR.ok (ScopeKeep.of_eq rfl)
    | ret tok value =>
      dsimp only
      cases value with
      | none => sf_refl
      | some e =>
        dsimp only
        apply KeepR.bindP (ih.expr e σ)
        intro v σ1 _
        sf_refl
    | cont tok =>
      dsimp only
      split <;> sf_refl
    | brk tok =>
      dsimp only
      split <;> sf_refl
    | block lb stmts rb =>
      dsimp only
      apply KeepR.bind_eq
      intro σ1 h1
      apply KeepR.bind_eq
      intro p h2
      obtain ⟨sig, τ⟩ := p
      apply KeepR.bind_eq
      intro σ2 h3
      exact KeepR.ok (nest_keep h1 ((ih.block stmts σ1).getP h2) h3)
    | import_ it mt ft only modName =>
      dsimp only
      apply KeepR.bindS (KeepR.of_same (importStmt_sameSc cfg _ only modName σ))
      intro σ1 _
      sf_refl
    | forEach item itok list body ft et int lt =>
      dsimp only
      apply KeepR.bindP (ih.expr list σ)
      intro v σ1 _
      dsimp only
      refine KeepR.bindP (by cases v <;> first | exact KeepR.ok (ScopeKeep.of_eq rfl) | trivial) ?_
      intro a σ2 _
      dsimp only
      apply KeepR.bindP (removeVar_keep σ2 item)
      intro cached σ3 _
      dsimp only
      apply KeepR.bind_any
      intro len
      refine KeepR.bindP (KeepR.of_keep (σ1 := { σ3 with loops := _ }) (ScopeKeep.of_eq rfl)
        (ih.forLoop item a 0 len body _)) ?_
      intro sig σ4 _
      apply KeepR.bindS (KeepR.of_same (popLoop_same σ4))
      intro σ5 _
      refine KeepR.bindS (x := match cached with | some v => define σ5 item v | none => .ok σ5) ?_ ?_
      · cases cached with
        | none => sf_refl
        | some v => exact define_keep σ5 item v
      · intro σ6 _
        sf_refl

end step

/-- **the scope frame of the reference semantics**, for every fuel -/
theorem keepAll (cfg : Cfg) : ∀ f, KeepAll cfg f
  | 0 => keepAll_zero cfg
  | f+1 =>
    have ih := keepAll cfg f
    { expr := expr_keep_step ih, exprs := exprs_keep_step ih, stmt := stmt_keep_step ih,
      block := block_keep_step ih, repeatLoop := repeatLoop_keep_step ih, untilLoop := untilLoop_keep_step ih,
      forLoop := forLoop_keep_step ih, program := program_keep_step ih }

end Spec

end Aplang
