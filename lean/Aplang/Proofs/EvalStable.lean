import Aplang.Model.Interp
/-!
# Fuel stability of the evaluator

With more fuel, every outcome of the evaluator that is not `.fuel` stays exactly the same outcome: values,
runtime errors, terminations and panics alike.  `EvStable cfg f g` states this for the eight mutual functions
of `Model/Interp.lean`; `evStable` proves it for `f ≤ g` by recursion on the fuel (`evStable_zero` for `f = 0`,
one `*_stable_step` lemma per function from `ih : EvStable cfg f g` to fuels `f+1`, `g+1`).
-/
namespace Aplang

/-- `r₂` is `r₁` unless `r₁` ran out of fuel -/
def StableRes {α} (r₁ r₂ : Res α) : Prop := r₁ ≠ .fuel → r₂ = r₁

theorem StableRes.refl {α} (r : Res α) : StableRes r r := fun _ => rfl

theorem StableRes.fuel {α} (r : Res α) : StableRes .fuel r := fun h => absurd rfl h

theorem StableRes.bind {α β} {x₁ x₂ : Res α} {k₁ k₂ : α → Res β} (h : StableRes x₁ x₂)
    (hk : ∀ a, StableRes (k₁ a) (k₂ a)) : StableRes (x₁.bind k₁) (x₂.bind k₂) := by
  intro hne
  cases x₁ with
  | ok a => rw [h (by intro h'; cases h')]; exact hk a hne
  | err e σ => rw [h (by intro h'; cases h')]; rfl
  | terminate w σ => rw [h (by intro h'; cases h')]; rfl
  | panic s o => rw [h (by intro h'; cases h')]; rfl
  | fuel => exact absurd rfl hne

theorem StableRes.bind_same {α β} (x : Res α) {k₁ k₂ : α → Res β}
    (hk : ∀ a, StableRes (k₁ a) (k₂ a)) : StableRes (x.bind k₁) (x.bind k₂) :=
  StableRes.bind (StableRes.refl x) hk

theorem StableRes.ite {α} {c : Prop} [Decidable c] {a₁ a₂ b₁ b₂ : Res α} (ha : StableRes a₁ a₂)
    (hb : StableRes b₁ b₂) : StableRes (if c then a₁ else b₁) (if c then a₂ else b₂) := by
  by_cases hc : c
  · simp only [hc, if_true]; exact ha
  · simp only [hc, if_false]; exact hb

structure EvStable (cfg : Cfg) (f g : Nat) : Prop where
  expr : ∀ e σ, StableRes (expr cfg f e σ) (expr cfg g e σ)
  exprs : ∀ es σ, StableRes (exprs cfg f es σ) (exprs cfg g es σ)
  stmt : ∀ s σ, StableRes (stmt cfg f s σ) (stmt cfg g s σ)
  block : ∀ ss σ, StableRes (block cfg f ss σ) (block cfg g ss σ)
  repeatLoop : ∀ k body σ, StableRes (repeatLoop cfg f k body σ) (repeatLoop cfg g k body σ)
  untilLoop : ∀ c body σ, StableRes (untilLoop cfg f c body σ) (untilLoop cfg g c body σ)
  forLoop : ∀ item a i len body σ,
    StableRes (forLoop cfg f item a i len body σ) (forLoop cfg g item a i len body σ)
  program : ∀ ss σ, StableRes (program cfg f ss σ) (program cfg g ss σ)

/-- at fuel `0` every function is out of fuel, or answers before it looks at the fuel -/
theorem evStable_zero (cfg : Cfg) (g : Nat) : EvStable cfg 0 g where
  expr := by intro e σ; simp only [expr]; exact StableRes.fuel _
  exprs := by
    intro es σ
    cases es with
    | nil => simp only [exprs]; exact StableRes.refl _
    | cons e es => simp only [exprs]; exact StableRes.fuel _
  stmt := by intro s σ; simp only [stmt]; exact StableRes.fuel _
  block := by
    intro ss σ
    cases ss with
    | nil => simp only [block]; exact StableRes.refl _
    | cons s ss =>
      by_cases hp : pending σ = true
      · cases g <;> simp only [block, hp, if_true] <;> exact StableRes.refl _
      · simp only [block, hp, Bool.false_eq_true, if_false]; exact StableRes.fuel _
  repeatLoop := by
    intro k body σ
    cases k with
    | zero => simp only [repeatLoop]; exact StableRes.refl _
    | succ k => simp only [repeatLoop]; exact StableRes.fuel _
  untilLoop := by intro c body σ; simp only [untilLoop]; exact StableRes.fuel _
  forLoop := by intro item a i len body σ; simp only [forLoop]; exact StableRes.fuel _
  program := by
    intro ss σ
    cases ss with
    | nil => simp only [program]; exact StableRes.refl _
    | cons s ss => simp only [program]; exact StableRes.fuel _

/-! ## IMPORT -/

/-- `importStmt` is stable in its runner -/
theorem importStmt_stable (cfg : Cfg) (run₁ run₂ : List Stmt → St → Res St)
    (hrun : ∀ prog τ, StableRes (run₁ prog τ) (run₂ prog τ))
    (only : Option (List Token)) (modName : Token) (σ : St) :
    StableRes (importStmt cfg run₁ only modName σ) (importStmt cfg run₂ only modName σ) := by
  unfold importStmt
  apply StableRes.bind_same
  intro name
  refine StableRes.bind ?_ (fun _ => StableRes.refl _)
  cases cfg.modules name with
  | some table => exact StableRes.refl _
  | none =>
    dsimp only
    apply StableRes.ite (StableRes.refl _)
    cases Fs.fileRead σ.world.fs (joinPath (dirOf σ.filePath) name) with
    | none => exact StableRes.refl _
    | some src =>
      dsimp only
      apply StableRes.ite (StableRes.refl _)
      cases parse (parseFuel (lex cfg.lex src).tokens.length) (lex cfg.lex src).tokens with
      | ok prog => exact StableRes.bind (hrun _ _) (fun _ => StableRes.refl _)
      | errs es => exact StableRes.refl _
      | panic p => exact StableRes.refl _
      | fuel => exact StableRes.refl _

/-! ## the step from fuels `f`, `g` to `f+1`, `g+1` -/

section step
variable {cfg : Cfg} {f g : Nat} (ih : EvStable cfg f g)
include ih

theorem exprs_stable_step (es : List Expr) (σ : St) :
    StableRes (exprs cfg (f+1) es σ) (exprs cfg (g+1) es σ) := by
  cases es with
  | nil => simp only [exprs]; exact StableRes.refl _
  | cons e es =>
    simp only [exprs]
    apply StableRes.bind (ih.expr e σ); intro ⟨v, σ₁⟩
    apply StableRes.bind (ih.exprs es σ₁); intro ⟨vs, σ₂⟩
    exact StableRes.refl _

theorem expr_stable_step (e : Expr) (σ : St) :
    StableRes (expr cfg (f+1) e σ) (expr cfg (g+1) e σ) := by
  cases e with
  | grouping e lp rp => simp only [expr]; exact ih.expr e σ
  | lit v tok => simp only [expr]; exact StableRes.refl _
  | binary l op r tok =>
    simp only [expr]
    apply StableRes.bind (ih.expr l σ); intro ⟨a, σ₁⟩
    apply StableRes.bind (ih.expr r σ₁); intro ⟨b, σ₂⟩
    exact StableRes.refl _
  | unary op r tok =>
    simp only [expr]
    apply StableRes.bind (ih.expr r σ); intro ⟨v, σ₁⟩
    exact StableRes.refl _
  | access l lt k lb rb =>
    simp only [expr]
    apply StableRes.bind (ih.expr l σ); intro ⟨lv, σ₁⟩
    apply StableRes.bind (ih.expr k σ₁); intro ⟨kv, σ₂⟩
    exact StableRes.refl _
  | list items lb rb =>
    simp only [expr]
    apply StableRes.bind (ih.exprs items σ); intro ⟨vs, σ₁⟩
    exact StableRes.refl _
  | var name tok => simp only [expr]; exact StableRes.refl _
  | assign name nt value arrow =>
    simp only [expr]
    apply StableRes.bind (ih.expr value σ); intro ⟨v, σ₁⟩
    exact StableRes.refl _
  | set l lt idx lb rb value arrow =>
    simp only [expr]
    apply StableRes.bind (ih.expr l σ); intro ⟨lv, σ₁⟩
    apply StableRes.bind (ih.expr idx σ₁); intro ⟨kv, σ₂⟩
    apply StableRes.bind (ih.expr value σ₂); intro ⟨v, σ₃⟩
    exact StableRes.refl _
  | logical l op r tok =>
    simp only [expr]
    apply StableRes.bind (ih.expr l σ); intro ⟨a, σ₁⟩
    exact StableRes.ite (StableRes.refl _) (ih.expr r σ₁)
  | call name args spans tok lp rp =>
    simp only [expr]
    apply StableRes.bind (ih.exprs args σ); intro ⟨vs, σ₁⟩
    dsimp only
    cases σ₁.procs.find? name with
    | none => exact StableRes.refl _
    | some p =>
      cases p with
      | native n => exact StableRes.refl _
      | user params body =>
        dsimp only
        apply StableRes.ite (StableRes.refl _)
        apply StableRes.bind (ih.stmt body _); intro σ₂
        exact StableRes.refl _

theorem block_stable_step (ss : List Stmt) (σ : St) :
    StableRes (block cfg (f+1) ss σ) (block cfg (g+1) ss σ) := by
  cases ss with
  | nil => simp only [block]; exact StableRes.refl _
  | cons s ss =>
    simp only [block]
    apply StableRes.ite (StableRes.refl _)
    apply StableRes.bind (ih.stmt s σ); intro σ₁
    exact ih.block ss σ₁

theorem program_stable_step (ss : List Stmt) (σ : St) :
    StableRes (program cfg (f+1) ss σ) (program cfg (g+1) ss σ) := by
  cases ss with
  | nil => simp only [program]; exact StableRes.refl _
  | cons s ss =>
    simp only [program]
    apply StableRes.bind (ih.stmt s σ); intro σ₁
    exact ih.program ss σ₁

theorem repeatLoop_stable_step (k : Nat) (body : Stmt) (σ : St) :
    StableRes (repeatLoop cfg (f+1) k body σ) (repeatLoop cfg (g+1) k body σ) := by
  cases k with
  | zero => simp only [repeatLoop]; exact StableRes.refl _
  | succ k =>
    simp only [repeatLoop]
    apply StableRes.bind (ih.stmt body σ); intro σ₁
    apply StableRes.bind_same; intro ⟨nxt, σ₂⟩
    cases nxt
    · exact ih.repeatLoop k body σ₂
    · exact StableRes.refl _

theorem untilLoop_stable_step (c : Expr) (body : Stmt) (σ : St) :
    StableRes (untilLoop cfg (f+1) c body σ) (untilLoop cfg (g+1) c body σ) := by
  simp only [untilLoop]
  apply StableRes.bind (ih.expr c σ); intro ⟨v, σ₁⟩
  apply StableRes.ite (StableRes.refl _)
  apply StableRes.bind (ih.stmt body σ₁); intro σ₂
  apply StableRes.bind_same; intro ⟨nxt, σ₃⟩
  cases nxt
  · exact ih.untilLoop c body σ₃
  · exact StableRes.refl _

theorem forLoop_stable_step (item : Str) (a i len : Nat) (body : Stmt) (σ : St) :
    StableRes (forLoop cfg (f+1) item a i len body σ) (forLoop cfg (g+1) item a i len body σ) := by
  simp only [forLoop]
  apply StableRes.ite (StableRes.refl _)
  cases (getList σ a).bind (fun vs => vs[i]?) with
  | none => exact StableRes.refl _
  | some v =>
    dsimp only
    apply StableRes.bind_same; intro σ₁
    apply StableRes.bind (ih.stmt body σ₁); intro σ₂
    apply StableRes.bind_same; intro ⟨nxt, σ₃⟩
    cases nxt
    · exact StableRes.refl _
    · exact ih.forLoop item a (i+1) len body σ₃
    · apply StableRes.bind_same; intro ⟨cur, σ₄⟩
      exact ih.forLoop item a (i+1) len body _

theorem stmt_stable_step (s : Stmt) (σ : St) :
    StableRes (stmt cfg (f+1) s σ) (stmt cfg (g+1) s σ) := by
  simp only [stmt]
  cases ht : tick σ with
  | none => exact StableRes.refl _
  | some τ =>
    cases s with
    | expr e =>
      apply StableRes.bind (ih.expr e τ); intro ⟨v, σ₁⟩
      exact StableRes.refl _
    | ifs c t e it et =>
      apply StableRes.bind (ih.expr c τ); intro ⟨v, σ₁⟩
      apply StableRes.ite (ih.stmt t σ₁)
      cases e with
      | none => exact StableRes.refl _
      | some e => exact ih.stmt e σ₁
    | repeatTimes count body rt tt ct =>
      apply StableRes.bind (ih.expr count τ); intro ⟨v, σ₁⟩
      cases v with
      | num n => exact StableRes.bind (ih.repeatLoop _ body _) (fun _ => StableRes.refl _)
      | null => exact StableRes.refl _
      | bool b => exact StableRes.refl _
      | str x => exact StableRes.refl _
      | list a => exact StableRes.refl _
      | obj a => exact StableRes.refl _
    | repeatUntil cond body rt ut =>
      exact StableRes.bind (ih.untilLoop cond body _) (fun _ => StableRes.refl _)
    | forEach item itemTok list body ft et int lt =>
      apply StableRes.bind (ih.expr list τ); intro ⟨v, σ₁⟩
      apply StableRes.bind_same; intro ⟨a, σ₂⟩
      apply StableRes.bind_same; intro ⟨cached, σ₃⟩
      apply StableRes.bind_same; intro len
      apply StableRes.bind (ih.forLoop item a 0 len body _); intro σ₄
      exact StableRes.refl _
    | procDecl name params body exported pt nt => exact StableRes.refl _
    | ret tok value =>
      cases value with
      | none => exact StableRes.refl _
      | some e =>
        apply StableRes.bind (ih.expr e τ); intro ⟨v, σ₁⟩
        exact StableRes.refl _
    | cont tok => exact StableRes.refl _
    | brk tok => exact StableRes.refl _
    | block lb stmts rb =>
      apply StableRes.bind_same; intro σ₁
      apply StableRes.bind (ih.block stmts σ₁); intro σ₂
      exact StableRes.refl _
    | import_ it mt ft only mn =>
      exact importStmt_stable cfg _ _ (fun prog σm => ih.program prog σm) only mn τ

end step

/-- **fuel stability of the evaluator**: with more fuel, every outcome that is not `.fuel` stays the same -/
theorem evStable (cfg : Cfg) : ∀ {f g : Nat}, f ≤ g → EvStable cfg f g
  | 0, g, _ => evStable_zero cfg g
  | f+1, 0, h => absurd h (by omega)
  | f+1, g+1, h =>
    have ih := evStable cfg (f := f) (g := g) (by omega)
    { expr := expr_stable_step ih
      exprs := exprs_stable_step ih
      stmt := stmt_stable_step ih
      block := block_stable_step ih
      repeatLoop := repeatLoop_stable_step ih
      untilLoop := untilLoop_stable_step ih
      forLoop := forLoop_stable_step ih
      program := program_stable_step ih }

theorem expr_stable (cfg : Cfg) {f g : Nat} (h : f ≤ g) (e : Expr) (σ : St)
    (hne : expr cfg f e σ ≠ .fuel) : expr cfg g e σ = expr cfg f e σ :=
  (evStable cfg h).expr e σ hne

theorem exprs_stable (cfg : Cfg) {f g : Nat} (h : f ≤ g) (es : List Expr) (σ : St)
    (hne : exprs cfg f es σ ≠ .fuel) : exprs cfg g es σ = exprs cfg f es σ :=
  (evStable cfg h).exprs es σ hne

theorem stmt_stable (cfg : Cfg) {f g : Nat} (h : f ≤ g) (s : Stmt) (σ : St)
    (hne : stmt cfg f s σ ≠ .fuel) : stmt cfg g s σ = stmt cfg f s σ :=
  (evStable cfg h).stmt s σ hne

theorem block_stable (cfg : Cfg) {f g : Nat} (h : f ≤ g) (ss : List Stmt) (σ : St)
    (hne : block cfg f ss σ ≠ .fuel) : block cfg g ss σ = block cfg f ss σ :=
  (evStable cfg h).block ss σ hne

theorem program_stable (cfg : Cfg) {f g : Nat} (h : f ≤ g) (ss : List Stmt) (σ : St)
    (hne : program cfg f ss σ ≠ .fuel) : program cfg g ss σ = program cfg f ss σ :=
  (evStable cfg h).program ss σ hne

end Aplang
