import Aplang.Model.Parser
/-!
# The parser model never reaches a panic primitive (lemmas for C08)

Invariant `Good`: the unconsumed tokens end with an end-of-input token. Progress relation `Prog s s'`:
either something has been consumed (`before ≠ []`) or the cursor has not moved.
-/
namespace Aplang
namespace P

/-- a literal token carries its literal (what the lexer guarantees; `miette_expect` otherwise) -/
def LitOK (t : Token) : Prop :=
  (t.tt = .stringLiteral → ∃ v, t.lit = .str v) ∧ (t.tt = .number → ∃ v, t.lit = .num v)

def Good (s : PState) : Prop :=
  (∃ init e, s.after = init ++ [e] ∧ e.tt = .eof) ∧ ∀ t ∈ s.after, LitOK t
def NB (s : PState) : Prop := s.before ≠ []
/-- the cursor only moves forward: either at least one token has been consumed (so `before ≠ []` and
strictly fewer tokens remain) or the cursor stands where it stood -/
def Prog (s s' : PState) : Prop :=
  (s'.after.length < s.after.length ∧ NB s') ∨ (s'.after = s.after ∧ s'.before = s.before)

theorem Prog.refl (s : PState) : Prog s s := Or.inr ⟨rfl, rfl⟩
theorem Prog.trans {a b c : PState} (h1 : Prog a b) (h2 : Prog b c) : Prog a c := by
  rcases h2 with ⟨hl, hn⟩ | ⟨h2a, h2b⟩
  · rcases h1 with ⟨hl1, _⟩ | ⟨h1a, _⟩
    · exact Or.inl ⟨by omega, hn⟩
    · exact Or.inl ⟨by rw [← h1a]; exact hl, hn⟩
  · rcases h1 with ⟨hl1, hn1⟩ | ⟨h1a, h1b⟩
    · exact Or.inl ⟨by rw [h2a]; exact hl1, by unfold NB at *; rw [h2b]; exact hn1⟩
    · exact Or.inr ⟨h2a.trans h1a, h2b.trans h1b⟩
theorem Prog.nb {a b : PState} (h : Prog a b) (hn : NB a) : NB b := by
  rcases h with ⟨_, h⟩ | ⟨_, hb⟩
  · exact h
  · unfold NB at *; rw [hb]; exact hn
theorem Prog.len_le {a b : PState} (h : Prog a b) : b.after.length ≤ a.after.length := by
  rcases h with ⟨h, _⟩ | ⟨h, _⟩
  · omega
  · rw [h]; exact Nat.le_refl _
/-- changing only the flags keeps the cursor -/
theorem Prog.flags (s : PState) (a b : Bool) : Prog s { s with inFn := a, inLoop := b } :=
  Or.inr ⟨rfl, rfl⟩
theorem Good.flags {s : PState} (h : Good s) (a b : Bool) : Good { s with inFn := a, inLoop := b } := h

/-- the result is not a panic; resulting states keep the invariant and are related by `Prog`;
successful results additionally satisfy `Q` -/
def Safe {α} (s : PState) (r : PRes α) (Q : α → PState → Prop) : Prop :=
  match r with
  | .ok a s' => Good s' ∧ Prog s s' ∧ Q a s'
  | .err _ s' => Good s' ∧ Prog s s'
  | .panic _ => False
  | .fuel => True

theorem Safe.bind {α β} {s : PState} {r : PRes α} {k : α → PState → PRes β} {Q : α → PState → Prop}
    {Q' : β → PState → Prop}
    (h1 : Safe s r Q)
    (h2 : ∀ a s', Good s' → Prog s s' → Q a s' → Safe s' (k a s') Q') :
    Safe s (r.bind k) (fun b s'' => Q' b s'') := by
  cases r with
  | ok a s' =>
    obtain ⟨g, p, q⟩ := h1
    have := h2 a s' g p q
    simp only [PRes.bind_ok]
    cases hk : k a s' with
    | ok b s'' => rw [hk] at this; exact ⟨this.1, p.trans this.2.1, this.2.2⟩
    | err e s'' => rw [hk] at this; exact ⟨this.1, p.trans this.2⟩
    | panic m => rw [hk] at this; exact this
    | fuel => trivial
  | err e s' => exact h1
  | panic m => exact h1
  | fuel => trivial

theorem Safe.mono {α} {s : PState} {r : PRes α} {Q Q' : α → PState → Prop}
    (h : Safe s r Q) (hq : ∀ a s', Good s' → Prog s s' → Q a s' → Q' a s') : Safe s r Q' := by
  cases r with
  | ok a s' => exact ⟨h.1, h.2.1, hq a s' h.1 h.2.1 h.2.2⟩
  | err e s' => exact h
  | panic m => exact h
  | fuel => trivial

theorem Safe.ok {α} {s : PState} (a : α) {Q : α → PState → Prop} (g : Good s) (q : Q a s) :
    Safe s (.ok a s) Q := ⟨g, Prog.refl s, q⟩
theorem Safe.err {α} {s : PState} (e : PErr) {Q : α → PState → Prop} (g : Good s) :
    Safe s (.err e s : PRes α) Q := ⟨g, Prog.refl s⟩
theorem Safe.ite {α} {s : PState} {c : Prop} [Decidable c] {a b : PRes α} {Q : α → PState → Prop}
    (h1 : Safe s a Q) (h2 : Safe s b Q) : Safe s (if c then a else b) Q := by
  split <;> assumption
theorem Safe.ite' {α} {s : PState} {c : Prop} [Decidable c] {a b : PRes α} {Q : α → PState → Prop}
    (h1 : c → Safe s a Q) (h2 : ¬c → Safe s b Q) : Safe s (if c then a else b) Q := by
  split
  · exact h1 ‹_›
  · exact h2 ‹_›
theorem Safe.fuel {α} {s : PState} {Q : α → PState → Prop} : Safe s (.fuel : PRes α) Q := trivial

/-- start from a state that differs only in the flags -/
theorem Safe.from_flags {α} {s : PState} (a b : Bool) {r : PRes α} {Q : α → PState → Prop}
    (h : Safe { s with inFn := a, inLoop := b } r Q) : Safe s r Q := by
  cases r with
  | ok x s' => exact ⟨h.1, (Prog.flags s a b).trans h.2.1, h.2.2⟩
  | err e s' => exact ⟨h.1, (Prog.flags s a b).trans h.2⟩
  | panic m => exact h
  | fuel => trivial

/-! ## primitives -/

theorem Good.ne_nil {s : PState} (g : Good s) : s.after ≠ [] := by
  obtain ⟨⟨i, e, h, _⟩, _⟩ := g; rw [h]; simp

theorem peek_safe {s : PState} (g : Good s) :
    Safe s (peek s) (fun t s' => s' = s ∧ ∃ r, s.after = t :: r) := by
  unfold peek
  cases h : s.after with
  | nil => exact absurd h g.ne_nil
  | cons t r => exact ⟨g, Prog.refl s, rfl, r, rfl⟩

theorem previous_safe {s : PState} (g : Good s) (nb : NB s) :
    Safe s (previous s) (fun _ s' => s' = s) := by
  unfold previous
  cases h : s.before with
  | nil => exact absurd h nb
  | cons t r => exact ⟨g, Prog.refl s, rfl⟩

theorem isAtEnd_safe {s : PState} (g : Good s) :
    Safe s (isAtEnd s) (fun b s' => s' = s ∧ ∃ t r, s.after = t :: r ∧ b = (t.tt == .eof)) := by
  unfold isAtEnd
  have := peek_safe g
  cases hp : peek s with
  | ok t s' =>
    rw [hp] at this
    obtain ⟨_, _, rfl, r, hr⟩ := this
    exact ⟨g, Prog.refl _, rfl, t, r, hr, rfl⟩
  | err e s' => rw [hp] at this; exact this
  | panic m => rw [hp] at this; exact this
  | fuel => trivial

/-- moving the cursor over a token that is not the end marker keeps the invariant -/
theorem good_step {s : PState} (g : Good s) {t : Token} {r : List Token} (h : s.after = t :: r)
    (hne : (t.tt == .eof) = false) : Good { s with before := t :: s.before, after := r } := by
  obtain ⟨⟨i, e, hi, he⟩, hl⟩ := g
  rw [h] at hi hl
  refine ⟨?_, fun x hx => hl x (List.mem_cons_of_mem _ hx)⟩
  cases i with
  | nil => simp at hi; obtain ⟨rfl, _⟩ := hi; simp [he] at hne
  | cons x xs => simp at hi; exact ⟨xs, e, hi.2, he⟩

theorem advance_safe {s : PState} (g : Good s) (h : NB s ∨ ∃ t r, s.after = t :: r ∧ (t.tt == .eof) = false) :
    Safe s (advance s) (fun t' s' => NB s' ∧ ∀ t r, s.after = t :: r → (t.tt == .eof) = false → t' = t) := by
  unfold advance
  have hi := isAtEnd_safe g
  cases he : isAtEnd s with
  | ok b s' =>
    rw [he] at hi
    obtain ⟨_, _, rfl, t, r, hr, hb⟩ := hi
    simp only [PRes.bind_ok]
    cases b with
    | true =>
      simp only [ite_true]
      have nb : NB s' := by
        rcases h with h | ⟨t', r', h1, h2⟩
        · exact h
        · rw [hr] at h1; cases h1; rw [h2] at hb; cases hb
      have := previous_safe g nb
      refine this.mono (fun _ s'' _ _ q => ?_)
      subst q
      refine ⟨nb, fun t' r' h1 h2 => ?_⟩
      rw [hr] at h1; cases h1; rw [h2] at hb; cases hb
    | false =>
      simp only [Bool.false_eq_true, ite_false, hr]
      have g' := good_step g hr hb.symm
      have nb' : NB { s' with before := t :: s'.before, after := r } := by simp [NB]
      have := previous_safe g' nb'
      cases hp : previous { s' with before := t :: s'.before, after := r } with
      | ok a s'' =>
        rw [hp] at this; obtain ⟨_, _, rfl⟩ := this
        refine ⟨g', Or.inl ⟨by simp [hr], nb'⟩, nb', fun t' r' h1 _ => ?_⟩
        cases h1
        simp [previous] at hp; exact hp.symm
      | err e s'' => exact absurd hp (by unfold previous; simp)
      | panic m => rw [hp] at this; exact this
      | fuel => trivial
  | err e s' => rw [he] at hi; exact hi
  | panic m => rw [he] at hi; exact hi
  | fuel => trivial

theorem check_safe {s : PState} (g : Good s) (tt : TT) :
    Safe s (check tt s) (fun b s' => s' = s ∧ (b = true → ∃ t r, s.after = t :: r ∧ (t.tt == .eof) = false) ∧
      (b = true → ∀ t r, s.after = t :: r → t.tt = tt)) := by
  unfold check
  have hi := isAtEnd_safe g
  cases he : isAtEnd s with
  | ok b s' =>
    rw [he] at hi
    obtain ⟨_, _, rfl, t, r, hr, hb⟩ := hi
    simp only [PRes.bind_ok]
    cases b with
    | true => exact ⟨g, Prog.refl _, rfl, by simp, by simp⟩
    | false =>
      simp only [Bool.false_eq_true, ite_false]
      unfold peek; simp only [hr, PRes.bind_ok]
      refine ⟨g, Prog.refl _, rfl, fun _ => ⟨t, r, rfl, hb.symm⟩, ?_⟩
      intro h t' r' h'
      cases h'
      simpa using h
  | err e s' => rw [he] at hi; exact hi
  | panic m => rw [he] at hi; exact hi
  | fuel => trivial

/-- `match_token`: on a match something was consumed; otherwise the state is unchanged -/
theorem matchToken_safe {s : PState} (g : Good s) (tt : TT) :
    Safe s (matchToken tt s) (fun m s' => (m.isSome → NB s') ∧ (m = none → s' = s) ∧
      ∀ t, m = some t → t.tt = tt ∧ LitOK t) := by
  unfold matchToken
  apply (check_safe g tt).bind
  intro c s' g' _ ⟨hs, hc, hk⟩
  subst hs
  cases c with
  | true =>
    simp only [ite_true]
    obtain ⟨t0, r0, h0, hne0⟩ := hc rfl
    apply (advance_safe g' (Or.inr ⟨t0, r0, h0, hne0⟩)).bind
    intro t s'' g'' _ ⟨nb, ht⟩
    have := ht t0 r0 h0 hne0
    subst this
    refine ⟨g'', Prog.refl _, fun _ => nb, by simp, ?_⟩
    intro t' ht'; cases ht'
    exact ⟨hk rfl t r0 h0, g'.2 t (by rw [h0]; simp)⟩
  | false => exact ⟨g', Prog.refl _, by simp, by simp, by simp⟩

theorem matchTokens_safe {s : PState} (g : Good s) (tts : List TT) :
    Safe s (matchTokens tts s) (fun m s' => (m.isSome → NB s') ∧ (m = none → s' = s) ∧
      ∀ t, m = some t → t.tt ∈ tts) := by
  induction tts with
  | nil => exact ⟨g, Prog.refl _, by simp, by simp, by simp⟩
  | cons tt tts ih =>
    unfold matchTokens
    apply (matchToken_safe g tt).bind
    intro m s' g' _ ⟨h1, h2, h3⟩
    cases m with
    | some t => exact ⟨g', Prog.refl _, fun _ => h1 rfl, by simp, by intro t' h; cases h; simp [(h3 t rfl).1]⟩
    | none =>
      have := h2 rfl; subst this
      exact ih.mono (fun m s'' _ _ ⟨a, b, c⟩ => ⟨a, b, fun t ht => List.mem_cons_of_mem _ (c t ht)⟩)

theorem consume_safe {s : PState} (g : Good s) (tt : TT) (hne : tt ≠ .eof) (rep : Token → PErr) :
    Safe s (consume tt rep s) (fun _ s' => NB s') := by
  unfold consume
  apply (peek_safe g).bind
  intro t s' g' _ ⟨hs, r, hr⟩
  subst hs
  split
  · rename_i heq
    have hadv : ∃ t r, s'.after = t :: r ∧ (t.tt == .eof) = false := by
      refine ⟨t, r, hr, ?_⟩
      have : t.tt = tt := by simpa using heq
      rw [this]; cases tt <;> simp at hne ⊢
    exact (advance_safe g' (Or.inr hadv)).mono (fun _ _ _ _ q => q.1)
  · exact Safe.err _ g'

theorem confirm_safe {s : PState} (g : Good s) (nb : NB s) (tt : TT) :
    Safe s (confirm tt s) (fun _ s' => s' = s) := by
  unfold confirm
  apply (previous_safe g nb).bind
  intro t s' g' _ hs
  subst hs
  split
  · exact ⟨g', Prog.refl _, rfl⟩
  · exact Safe.err _ g'

end P
end Aplang

namespace Aplang
namespace P

def NBQ {α} : α → PState → Prop := fun _ s' => NB s'
def AnyQ {α} : α → PState → Prop := fun _ _ => True

/-- everything the expression ladder needs from the smaller fuel -/
structure ExprSafe (f : Nat) : Prop where
  expression : ∀ s, Good s → Safe s (expression f s) NBQ
  assignment : ∀ s, Good s → Safe s (assignment f s) NBQ
  orE : ∀ s, Good s → Safe s (orE f s) NBQ
  orLoop : ∀ l s, Good s → NB s → Safe s (orLoop f l s) NBQ
  andE : ∀ s, Good s → Safe s (andE f s) NBQ
  andLoop : ∀ l s, Good s → NB s → Safe s (andLoop f l s) NBQ
  binLevel : ∀ lvl s, Good s → Safe s (binLevel f lvl s) NBQ
  binLoop : ∀ lvl l s, Good s → NB s → Safe s (binLoop f lvl l s) NBQ
  unary : ∀ s, Good s → Safe s (unary f s) NBQ
  access : ∀ s, Good s → Safe s (access f s) NBQ
  accessLoop : ∀ t e s, Good s → NB s → Safe s (accessLoop f t e s) NBQ
  primary : ∀ s, Good s → Safe s (primary f s) NBQ
  callArgs : ∀ a t s, Good s → Safe s (callArgs f a t s) AnyQ
  listItems : ∀ a s, Good s → Safe s (listItems f a s) AnyQ

theorem exprSafe_zero : ExprSafe 0 := by
  constructor <;> intros <;> simp only [P.expression, P.assignment, P.orE, P.orLoop, P.andE, P.andLoop,
    P.binLevel, P.binLoop, P.unary, P.access, P.accessLoop, P.primary, P.callArgs, P.listItems] <;> exact Safe.fuel

/-- a match that consumed gives `NB`; one that did not leaves the state as it was -/
theorem nb_of_match {m : Option Token} {s s' : PState} (h : (m.isSome → NB s') ∧ (m = none → s' = s))
    (nb : NB s) : NB s' := by
  cases m with
  | some t => exact h.1 rfl
  | none => rw [h.2 rfl]; exact nb

section step
variable {f : Nat} (ih : ExprSafe f)
include ih

theorem expression_step (s) (g : Good s) : Safe s (expression (f+1) s) NBQ := by
  simp only [P.expression]; exact ih.assignment s g

theorem assignment_step (s) (g : Good s) : Safe s (assignment (f+1) s) NBQ := by
  simp only [P.assignment]
  apply (ih.orE s g).bind
  intro e s1 g1 _ nb1
  apply (previous_safe g1 nb1).bind
  intro exprTok s2 g2 _ h2
  subst h2
  apply (matchToken_safe g2 .arrow).bind
  intro m s3 g3 _ h3
  cases m with
  | none => rw [h3.2.1 rfl]; exact Safe.ok _ g2 nb1
  | some arrow =>
    apply (ih.assignment s3 g3).bind
    intro value s4 g4 _ nb4
    cases e <;> first | exact Safe.ok _ g4 nb4 | exact Safe.err _ g4

theorem orE_step (s) (g : Good s) : Safe s (orE (f+1) s) NBQ := by
  simp only [P.orE]
  apply (ih.andE s g).bind
  intro e s1 g1 _ nb1
  exact ih.orLoop e s1 g1 nb1

theorem orLoop_step (l s) (g : Good s) (nb : NB s) : Safe s (orLoop (f+1) l s) NBQ := by
  simp only [P.orLoop]
  apply (matchToken_safe g .or_).bind
  intro m s1 g1 _ h1
  cases m with
  | none => rw [h1.2.1 rfl]; exact Safe.ok _ g nb
  | some tok =>
    apply (ih.andE s1 g1).bind
    intro right s2 g2 _ nb2
    exact ih.orLoop _ s2 g2 nb2

theorem andE_step (s) (g : Good s) : Safe s (andE (f+1) s) NBQ := by
  simp only [P.andE]
  apply (ih.binLevel .equality s g).bind
  intro e s1 g1 _ nb1
  exact ih.andLoop e s1 g1 nb1

theorem andLoop_step (l s) (g : Good s) (nb : NB s) : Safe s (andLoop (f+1) l s) NBQ := by
  simp only [P.andLoop]
  apply (matchToken_safe g .and_).bind
  intro m s1 g1 _ h1
  cases m with
  | none => rw [h1.2.1 rfl]; exact Safe.ok _ g nb
  | some tok =>
    apply (ih.andE s1 g1).bind
    intro right s2 g2 _ nb2
    exact ih.andLoop _ s2 g2 nb2

theorem operand_safe (lvl : BinLevel) (s) (g : Good s) :
    Safe s (match lvl.next with | some n => binLevel f n s | none => unary f s) NBQ := by
  cases lvl.next with
  | some n => exact ih.binLevel n s g
  | none => exact ih.unary s g

theorem binLevel_step (lvl s) (g : Good s) : Safe s (binLevel (f+1) lvl s) NBQ := by
  simp only [P.binLevel]
  apply (operand_safe ih lvl s g).bind
  intro e s1 g1 _ nb1
  exact ih.binLoop lvl e s1 g1 nb1

theorem binLoop_step (lvl l s) (g : Good s) (nb : NB s) : Safe s (binLoop (f+1) lvl l s) NBQ := by
  simp only [P.binLoop]
  apply (matchTokens_safe g lvl.ops).bind
  intro m s1 g1 _ h1
  cases m with
  | none => rw [h1.2.1 rfl]; exact Safe.ok _ g nb
  | some tok =>
    apply (operand_safe ih lvl s1 g1).bind
    intro right s2 g2 _ nb2
    cases toBinOp tok.tt with
    | some op => exact ih.binLoop lvl _ s2 g2 nb2
    | none => exact Safe.err _ g2

theorem unary_step (s) (g : Good s) : Safe s (unary (f+1) s) NBQ := by
  simp only [P.unary]
  apply (matchTokens_safe g [.not_, .minus]).bind
  intro m s1 g1 _ h1
  cases m with
  | none => rw [h1.2.1 rfl]; exact ih.access s g
  | some tok =>
    apply (ih.unary s1 g1).bind
    intro right s2 g2 _ nb2
    cases toUnOp tok.tt with
    | some op => exact Safe.ok _ g2 nb2
    | none => exact Safe.err _ g2

theorem access_step (s) (g : Good s) : Safe s (access (f+1) s) NBQ := by
  simp only [P.access]
  apply (ih.primary s g).bind
  intro e s1 g1 _ nb1
  apply (previous_safe g1 nb1).bind
  intro t s2 g2 _ h2
  subst h2
  exact ih.accessLoop t e s2 g2 nb1

theorem accessLoop_step (t e s) (g : Good s) (nb : NB s) : Safe s (accessLoop (f+1) t e s) NBQ := by
  simp only [P.accessLoop]
  apply (matchToken_safe g .leftBracket).bind
  intro m s1 g1 _ h1
  cases m with
  | none => rw [h1.2.1 rfl]; exact Safe.ok _ g nb
  | some lb =>
    apply (ih.expression s1 g1).bind
    intro index s2 g2 _ _
    apply (consume_safe g2 .rightBracket (by decide) _).bind
    intro rb s3 g3 _ nb3
    exact ih.accessLoop t _ s3 g3 nb3

theorem callArgs_step (a t s) (g : Good s) : Safe s (callArgs (f+1) a t s) AnyQ := by
  simp only [P.callArgs]
  split
  · exact Safe.err _ g
  · apply (ih.expression s g).bind
    intro e s1 g1 _ _
    apply (peek_safe g1).bind
    intro nxt s2 g2 _ h2
    obtain ⟨rfl, _⟩ := h2
    apply (matchToken_safe g2 .comma).bind
    intro m s3 g3 _ _
    cases m with
    | some c => exact ih.callArgs _ _ s3 g3
    | none => exact Safe.ok _ g3 trivial

theorem listItems_step (a s) (g : Good s) : Safe s (listItems (f+1) a s) AnyQ := by
  simp only [P.listItems]
  apply (ih.expression s g).bind
  intro e s1 g1 _ _
  apply (matchToken_safe g1 .comma).bind
  intro m s2 g2 _ _
  cases m with
  | some c => exact ih.listItems _ s2 g2
  | none => exact Safe.ok _ g2 trivial

/-- one `if self.match_token(kind) { … return }` of `primary` -/
theorem primary_step (s) (g : Good s) : Safe s (primary (f+1) s) NBQ := by
  simp only [P.primary]
  apply (matchToken_safe g .true_).bind
  intro m s1 g1 _ h1
  cases m with
  | some tok => exact Safe.ok _ g1 (h1.1 rfl)
  | none =>
  have e1 := h1.2.1 rfl; subst e1
  apply (matchToken_safe g1 .false_).bind
  intro m s2 g2 _ h2
  cases m with
  | some tok => exact Safe.ok _ g2 (h2.1 rfl)
  | none =>
  have e2 := h2.2.1 rfl; subst e2
  apply (matchToken_safe g2 .null).bind
  intro m s3 g3 _ h3
  cases m with
  | some tok => exact Safe.ok _ g3 (h3.1 rfl)
  | none =>
  have e3 := h3.2.1 rfl; subst e3
  apply (matchToken_safe g3 .stringLiteral).bind
  intro m s4 g4 _ h4
  cases m with
  | some tok =>
    obtain ⟨hk, hl⟩ := h4.2.2 tok rfl
    obtain ⟨v, hv⟩ := hl.1 hk
    simp only [hv]
    exact Safe.ok _ g4 (h4.1 rfl)
  | none =>
  have e4 := h4.2.1 rfl; subst e4
  apply (matchToken_safe g4 .number).bind
  intro m s5 g5 _ h5
  cases m with
  | some tok =>
    obtain ⟨hk, hl⟩ := h5.2.2 tok rfl
    obtain ⟨v, hv⟩ := hl.2 hk
    simp only [hv]
    exact Safe.ok _ g5 (h5.1 rfl)
  | none =>
  have e5 := h5.2.1 rfl; subst e5
  apply (matchToken_safe g5 .identifier).bind
  intro m s6 g6 _ h6
  cases m with
  | some tok =>
    have nb6 := h6.1 rfl
    apply (matchToken_safe g6 .leftParen).bind
    intro m s7 g7 p7 h7
    cases m with
    | none => rw [h7.2.1 rfl]; exact Safe.ok _ g6 nb6
    | some lp =>
      apply (check_safe g7 .rightParen).bind
      intro c s8 g8 _ h8
      obtain ⟨rfl, _⟩ := h8
      have hargs : Safe s8 (if c = true then PRes.ok ([], [lp]) s8 else callArgs f [] [lp] s8) AnyQ := by
        split
        · exact Safe.ok _ g8 trivial
        · exact ih.callArgs _ _ s8 g8
      apply hargs.bind
      intro at_ s9 g9 _ _
      apply (consume_safe g9 .rightParen (by decide) _).bind
      intro rp s10 g10 _ nb10
      exact Safe.ok _ g10 nb10
  | none =>
  have e6 := h6.2.1 rfl; subst e6
  apply (matchToken_safe g6 .leftParen).bind
  intro m s7 g7 _ h7
  cases m with
  | some lp =>
    apply (ih.expression s7 g7).bind
    intro e s8 g8 _ _
    apply (consume_safe g8 .rightParen (by decide) _).bind
    intro rp s9 g9 _ nb9
    exact Safe.ok _ g9 nb9
  | none =>
  have e7 := h7.2.1 rfl; subst e7
  apply (matchToken_safe g7 .leftBracket).bind
  intro m s8 g8 _ h8
  cases m with
  | some lb =>
    apply (check_safe g8 .rightBracket).bind
    intro c s9 g9 _ h9
    obtain ⟨rfl, _⟩ := h9
    have hitems : Safe s9 (if c = true then PRes.ok [] s9 else listItems f [] s9) AnyQ := by
      split
      · exact Safe.ok _ g9 trivial
      · exact ih.listItems _ s9 g9
    apply hitems.bind
    intro items s10 g10 _ _
    apply (consume_safe g10 .rightBracket (by decide) _).bind
    intro rb s11 g11 _ nb11
    exact Safe.ok _ g11 nb11
  | none =>
    have e8 := h8.2.1 rfl; subst e8
    apply (peek_safe g8).bind
    intro t s9 g9 _ _
    exact Safe.err _ g9


end step

end P
end Aplang

namespace Aplang
namespace P

theorem exprSafe : ∀ f, ExprSafe f
  | 0 => exprSafe_zero
  | f+1 =>
    have ih := exprSafe f
    { expression := expression_step ih, assignment := assignment_step ih, orE := orE_step ih,
      orLoop := orLoop_step ih, andE := andE_step ih, andLoop := andLoop_step ih,
      binLevel := binLevel_step ih, binLoop := binLoop_step ih, unary := unary_step ih,
      access := access_step ih, accessLoop := accessLoop_step ih, primary := primary_step ih,
      callArgs := callArgs_step ih, listItems := listItems_step ih }

theorem expression_safe (f s) (g : Good s) : Safe s (expression f s) NBQ := (exprSafe f).expression s g

theorem terminator_safe (code lab s) (g : Good s) : Safe s (terminator code lab s) AnyQ := by
  unfold terminator
  apply (isAtEnd_safe g).bind
  intro e s1 g1 _ h1
  obtain ⟨rfl, _⟩ := h1
  split
  · exact Safe.ok _ g1 trivial
  · apply (check_safe g1 .rightBrace).bind
    intro c s2 g2 _ h2
    obtain ⟨rfl, _⟩ := h2
    split
    · exact Safe.ok _ g2 trivial
    · apply (consume_safe g2 .softSemi (by decide) _).bind
      intro _ s3 g3 _ _
      exact Safe.ok _ g3 trivial

theorem expressionStatement_safe (f s) (g : Good s) : Safe s (expressionStatement f s) AnyQ := by
  unfold expressionStatement
  apply (expression_safe f s g).bind
  intro e s1 g1 _ _
  apply (terminator_safe _ _ s1 g1).bind
  intro _ s2 g2 _ _
  exact Safe.ok _ g2 trivial

theorem returnStatement_safe (f tok s) (g : Good s) : Safe s (returnStatement f tok s) AnyQ := by
  unfold returnStatement
  split
  · exact Safe.err _ g
  · apply (matchToken_safe g .softSemi).bind
    intro m s1 g1 _ h1
    cases m with
    | some _ => exact Safe.ok _ g1 trivial
    | none =>
      apply (isAtEnd_safe g1).bind
      intro e s2 g2 _ h2
      obtain ⟨rfl, _⟩ := h2
      apply (check_safe g2 .rightBrace).bind
      intro c s3 g3 _ h3
      obtain ⟨rfl, _⟩ := h3
      split
      · exact Safe.ok _ g3 trivial
      · apply (expression_safe f s3 g3).bind
        intro v s4 g4 _ _
        apply (terminator_safe _ _ s4 g4).bind
        intro _ s5 g5 _ _
        exact Safe.ok _ g5 trivial

theorem importNames_safe : ∀ f lb names s, Good s → Safe s (importNames f lb names s) AnyQ
  | 0, _, _, _, _ => Safe.fuel
  | f+1, lb, names, s, g => by
    simp only [importNames]
    split
    · exact Safe.err _ g
    · apply (consume_safe g .stringLiteral (by decide) _).bind
      intro t s1 g1 _ _
      apply (matchToken_safe g1 .comma).bind
      intro m s2 g2 _ _
      cases m with
      | some _ => exact importNames_safe f lb _ s2 g2
      | none => exact Safe.ok _ g2 trivial

theorem importStatement_safe (f tok s) (g : Good s) : Safe s (importStatement f tok s) AnyQ := by
  unfold importStatement
  apply (matchToken_safe g .leftBracket).bind
  intro m s1 g1 _ _
  have honly : Safe s1 (match m with
      | some lb => (importNames f lb [] s1).bind fun names s =>
          (consume .rightBracket (fun _ => err1 "import_rbracket" []) s).bind fun _ s => .ok (some names) s
      | none => (matchToken .stringLiteral s1).bind fun m s =>
          match m with
          | some one => .ok (some [one]) s
          | none => .ok none s) AnyQ := by
    cases m with
    | some lb =>
      apply (importNames_safe f lb [] s1 g1).bind
      intro names s2 g2 _ _
      apply (consume_safe g2 .rightBracket (by decide) _).bind
      intro _ s3 g3 _ _
      exact Safe.ok _ g3 trivial
    | none =>
      apply (matchToken_safe g1 .stringLiteral).bind
      intro m s2 g2 _ _
      cases m <;> exact Safe.ok _ g2 trivial
  apply honly.bind
  intro only s2 g2 _ hq
  clear hq
  have hfrom : Safe s2 (match only with
      | some _ => (consume .from_ (fun _ => err1 "expected_from" []) s2).bind fun t s => .ok (some t) s
      | none => .ok none s2) AnyQ := by
    cases only with
    | some _ =>
      apply (consume_safe g2 .from_ (by decide) _).bind
      intro t s3 g3 _ _
      exact Safe.ok _ g3 trivial
    | none => exact Safe.ok _ g2 trivial
  apply hfrom.bind
  intro fromTok s3 g3 _ _
  apply (consume_safe g3 .mod_ (by decide) _).bind
  intro modTok s4 g4 _ _
  apply (consume_safe g4 .stringLiteral (by decide) _).bind
  intro modName s5 g5 _ _
  apply (terminator_safe _ _ s5 g5).bind
  intro _ s6 g6 _ _
  exact Safe.ok _ g6 trivial

theorem procParams_safe : ∀ f params s, Good s → Safe s (procParams f params s) AnyQ
  | 0, _, _, _ => Safe.fuel
  | f+1, params, s, g => by
    simp only [procParams]
    split
    · exact Safe.err _ g
    · apply (consume_safe g .identifier (by decide) _).bind
      intro t s1 g1 _ _
      apply (matchToken_safe g1 .comma).bind
      intro m s2 g2 _ _
      cases m with
      | some _ => exact procParams_safe f _ s2 g2
      | none => exact Safe.ok _ g2 trivial

/-- restoring a flag on the way out keeps safety (src: `self.in_loop_scope = cache`) -/
theorem Safe.restore {α} {s : PState} {r : PRes α} (cache : Bool) (h : Safe s r AnyQ) :
    Safe s (restoreLoop cache r) AnyQ := by
  cases r with
  | ok a s' => exact ⟨h.1, h.2.1.trans (Or.inr ⟨rfl, rfl⟩), trivial⟩
  | err e s' => exact ⟨h.1, h.2.trans (Or.inr ⟨rfl, rfl⟩)⟩
  | panic m => exact h
  | fuel => trivial

structure StmtSafe (f : Nat) : Prop where
  declaration : ∀ s, Good s → Safe s (declaration f s) AnyQ
  procedure : ∀ t s, Good s → Safe s (procedure f t s) AnyQ
  statement : ∀ s, Good s → Safe s (statement f s) AnyQ
  blockLoop : ∀ acc s, Good s → Safe s (blockLoop f acc s) AnyQ
  ifStatement : ∀ t s, Good s → Safe s (ifStatement f t s) AnyQ
  repeatTimes : ∀ t s, Good s → NB s → Safe s (repeatTimes f t s) AnyQ
  repeatUntil : ∀ t s, Good s → NB s → Safe s (repeatUntil f t s) AnyQ
  forEach : ∀ t s, Good s → NB s → Safe s (forEach f t s) AnyQ

theorem stmtSafe_zero : StmtSafe 0 := by
  constructor <;> intros <;> simp only [P.declaration, P.procedure, P.statement, P.blockLoop, P.ifStatement,
    P.repeatTimes, P.repeatUntil, P.forEach] <;> exact Safe.fuel

section sstep
variable {f : Nat} (ih : StmtSafe f)
include ih

theorem declaration_step (s) (g : Good s) : Safe s (declaration (f+1) s) AnyQ := by
  simp only [P.declaration]
  apply (matchTokens_safe g [.export_, .procedure]).bind
  intro m s1 g1 _ h1
  cases m with
  | some t => exact ih.procedure t s1 g1
  | none => rw [h1.2.1 rfl]; exact ih.statement s g

theorem procedure_step (t s) (g : Good s) : Safe s (procedure (f+1) t s) AnyQ := by
  simp only [P.procedure]
  have h0 : Safe s (if (t.tt == TT.export_) = true then
        (consume .procedure (fun t => err1 "standalone_export" [t.span, t.span]) s).bind fun pt s => .ok (pt, true) s
      else .ok (t, false) s) AnyQ := by
    split
    · apply (consume_safe g .procedure (by decide) _).bind
      intro pt s1 g1 _ _
      exact Safe.ok _ g1 trivial
    · exact Safe.ok _ g trivial
  apply h0.bind
  intro pe s1 g1 _ _
  obtain ⟨procTok, exported⟩ := pe
  simp only
  apply (consume_safe g1 .identifier (by decide) _).bind
  intro nameTok s2 g2 _ _
  apply (consume_safe g2 .leftParen (by decide) _).bind
  intro _ s3 g3 _ _
  apply (check_safe g3 .rightParen).bind
  intro c s4 g4 _ h4
  obtain ⟨rfl, _⟩ := h4
  have hp : Safe s4 (if c = true then PRes.ok [] s4 else procParams f [] s4) AnyQ := by
    split
    · exact Safe.ok _ g4 trivial
    · exact procParams_safe f [] s4 g4
  apply hp.bind
  intro params s5 g5 _ _
  apply (consume_safe g5 .rightParen (by decide) _).bind
  intro _ s6 g6 _ _
  apply Safe.from_flags true false
  apply (ih.statement _ (g6.flags true false)).bind
  intro body s7 g7 _ _
  exact ⟨g7.flags _ _, Or.inr ⟨rfl, rfl⟩, trivial⟩

theorem blockLoop_step (acc s) (g : Good s) : Safe s (blockLoop (f+1) acc s) AnyQ := by
  simp only [P.blockLoop]
  apply (check_safe g .rightBrace).bind
  intro c s1 g1 _ h1
  obtain ⟨rfl, _⟩ := h1
  apply (isAtEnd_safe g1).bind
  intro e s2 g2 _ h2
  obtain ⟨rfl, _⟩ := h2
  split
  · exact Safe.ok _ g2 trivial
  · apply (matchToken_safe g2 .softSemi).bind
    intro m s3 g3 _ h3
    cases m with
    | some _ => exact ih.blockLoop acc s3 g3
    | none =>
      apply (ih.declaration s3 g3).bind
      intro st s4 g4 _ _
      exact ih.blockLoop _ s4 g4

theorem ifStatement_step (t s) (g : Good s) : Safe s (ifStatement (f+1) t s) AnyQ := by
  simp only [P.ifStatement]
  apply (consume_safe g .leftParen (by decide) _).bind
  intro _ s1 g1 _ _
  apply (expression_safe f s1 g1).bind
  intro cond s2 g2 _ _
  apply (consume_safe g2 .rightParen (by decide) _).bind
  intro _ s3 g3 _ _
  apply (ih.statement s3 g3).bind
  intro thn s4 g4 _ _
  apply (matchToken_safe g4 .else_).bind
  intro m s5 g5 _ _
  cases m with
  | some et =>
    apply (ih.statement s5 g5).bind
    intro els s6 g6 _ _
    exact Safe.ok _ g6 trivial
  | none => exact Safe.ok _ g5 trivial

theorem repeatTimes_step (t s) (g : Good s) (nb : NB s) : Safe s (repeatTimes (f+1) t s) AnyQ := by
  simp only [P.repeatTimes]
  apply (confirm_safe g nb .repeat_).bind
  intro _ s1 g1 _ _
  apply (expression_safe f s1 g1).bind
  intro count s2 g2 _ nb2
  apply (previous_safe g2 nb2).bind
  intro ct s3 g3 _ h3
  subst h3
  apply (consume_safe g3 .times (by decide) _).bind
  intro tt s4 g4 _ _
  apply (ih.statement s4 g4).bind
  intro body s5 g5 _ _
  exact Safe.ok _ g5 trivial

theorem repeatUntil_step (t s) (g : Good s) (nb : NB s) : Safe s (repeatUntil (f+1) t s) AnyQ := by
  simp only [P.repeatUntil]
  apply (confirm_safe g nb .repeat_).bind
  intro _ s1 g1 _ _
  apply (consume_safe g1 .until_ (by decide) _).bind
  intro ut s2 g2 _ _
  apply (consume_safe g2 .leftParen (by decide) _).bind
  intro _ s3 g3 _ _
  apply (expression_safe f s3 g3).bind
  intro cond s4 g4 _ _
  apply (consume_safe g4 .rightParen (by decide) _).bind
  intro _ s5 g5 _ _
  apply (ih.statement s5 g5).bind
  intro body s6 g6 _ _
  exact Safe.ok _ g6 trivial

theorem forEach_step (t s) (g : Good s) (nb : NB s) : Safe s (forEach (f+1) t s) AnyQ := by
  simp only [P.forEach]
  apply (confirm_safe g nb .for_).bind
  intro _ s1 g1 _ _
  apply (consume_safe g1 .each (by decide) _).bind
  intro et s2 g2 _ _
  apply (consume_safe g2 .identifier (by decide) _).bind
  intro it s3 g3 _ _
  apply (consume_safe g3 .in_ (by decide) _).bind
  intro int s4 g4 _ _
  apply (expression_safe f s4 g4).bind
  intro list s5 g5 _ nb5
  apply (previous_safe g5 nb5).bind
  intro lt s6 g6 _ h6
  subst h6
  apply (ih.statement s6 g6).bind
  intro body s7 g7 _ _
  exact Safe.ok _ g7 trivial

theorem statement_step (s) (g : Good s) : Safe s (statement (f+1) s) AnyQ := by
  simp only [P.statement]
  apply (matchToken_safe g .import_).bind
  intro m s1 g1 _ h1
  cases m with
  | some t => exact importStatement_safe f t s1 g1
  | none =>
  have e1 := h1.2.1 rfl; subst e1
  apply (matchToken_safe g1 .if_).bind
  intro m s2 g2 _ h2
  cases m with
  | some t => exact ih.ifStatement t s2 g2
  | none =>
  have e2 := h2.2.1 rfl; subst e2
  apply (matchToken_safe g2 .repeat_).bind
  intro m s3 g3 _ h3
  cases m with
  | some t =>
    have nb3 : NB s3 := h3.1 rfl
    simp only
    apply Safe.from_flags s3.inFn true
    have g3' := g3.flags s3.inFn true
    have nb3' : NB { s3 with inFn := s3.inFn, inLoop := true } := nb3
    apply (check_safe g3' .until_).bind
    intro c s4 g4 _ h4
    obtain ⟨rfl, _⟩ := h4
    apply Safe.restore
    split
    · exact ih.repeatUntil t _ g4 nb3'
    · exact ih.repeatTimes t _ g4 nb3'
  | none =>
  have e3 := h3.2.1 rfl; subst e3
  apply (matchToken_safe g3 .for_).bind
  intro m s4 g4 _ h4
  cases m with
  | some t =>
    have nb4 : NB s4 := h4.1 rfl
    simp only
    apply Safe.restore
    apply Safe.from_flags s4.inFn true
    exact ih.forEach t _ (g4.flags s4.inFn true) nb4
  | none =>
  have e4 := h4.2.1 rfl; subst e4
  apply (matchToken_safe g4 .leftBrace).bind
  intro m s5 g5 _ h5
  cases m with
  | some lb =>
    apply (ih.blockLoop [] s5 g5).bind
    intro stmts s6 g6 _ _
    apply (consume_safe g6 .rightBrace (by decide) _).bind
    intro rb s7 g7 _ _
    exact Safe.ok _ g7 trivial
  | none =>
  have e5 := h5.2.1 rfl; subst e5
  apply (matchToken_safe g5 .continue_).bind
  intro m s6 g6 _ h6
  cases m with
  | some t => exact Safe.ite (Safe.err _ g6) (Safe.ok _ g6 trivial)
  | none =>
  have e6 := h6.2.1 rfl; subst e6
  apply (matchToken_safe g6 .break_).bind
  intro m s7 g7 _ h7
  cases m with
  | some t => exact Safe.ite (Safe.err _ g7) (Safe.ok _ g7 trivial)
  | none =>
  have e7 := h7.2.1 rfl; subst e7
  apply (matchToken_safe g7 .return_).bind
  intro m s8 g8 _ h8
  cases m with
  | some t => exact returnStatement_safe f t s8 g8
  | none => rw [h8.2.1 rfl]; exact expressionStatement_safe f _ g7

end sstep

theorem stmtSafe : ∀ f, StmtSafe f
  | 0 => stmtSafe_zero
  | f+1 =>
    have ih := stmtSafe f
    { declaration := declaration_step ih, procedure := procedure_step ih, statement := statement_step ih,
      blockLoop := blockLoop_step ih, ifStatement := ifStatement_step ih, repeatTimes := repeatTimes_step ih,
      repeatUntil := repeatUntil_step ih, forEach := forEach_step ih }

end P
end Aplang

namespace Aplang
namespace P

/-- the cursor primitives never report a syntax error (they succeed or hit a panic primitive) -/
def NoErr {α} (r : PRes α) : Prop := ∀ e s, r ≠ .err e s

theorem NoErr.bind {α β} {r : PRes α} {k : α → PState → PRes β} (h1 : NoErr r) (h2 : ∀ a s, NoErr (k a s)) :
    NoErr (r.bind k) := by
  cases r with
  | ok a s => exact h2 a s
  | err e s => exact absurd rfl (h1 e s)
  | panic m => intro e s h; cases h
  | fuel => intro e s h; cases h

theorem NoErr.ok {α} (a : α) (s) : NoErr (PRes.ok a s) := by intro e s' h; cases h
theorem NoErr.panic {α} (m) : NoErr (PRes.panic m : PRes α) := by intro e s' h; cases h

theorem peek_noErr (s) : NoErr (peek s) := by unfold peek; split <;> first | exact NoErr.ok _ _ | exact NoErr.panic _
theorem previous_noErr (s) : NoErr (previous s) := by
  unfold previous; split <;> first | exact NoErr.ok _ _ | exact NoErr.panic _
theorem isAtEnd_noErr (s) : NoErr (isAtEnd s) := (peek_noErr s).bind (fun _ _ => NoErr.ok _ _)
theorem advance_noErr (s) : NoErr (advance s) := by
  unfold advance
  apply (isAtEnd_noErr s).bind
  intro e s'
  split
  · exact previous_noErr _
  · split
    · exact previous_noErr _
    · exact NoErr.panic _
theorem check_noErr (tt s) : NoErr (check tt s) := by
  unfold check
  apply (isAtEnd_noErr s).bind
  intro e s'
  split
  · exact NoErr.ok _ _
  · exact (peek_noErr _).bind (fun _ _ => NoErr.ok _ _)
theorem matchToken_noErr (tt s) : NoErr (matchToken tt s) := by
  unfold matchToken
  apply (check_noErr tt s).bind
  intro c s'
  split
  · exact (advance_noErr _).bind (fun _ _ => NoErr.ok _ _)
  · exact NoErr.ok _ _
theorem syncLoop_noErr : ∀ f s, NoErr (syncLoop f s)
  | 0, _ => by intro e s h; cases h
  | f+1, s => by
    simp only [syncLoop]
    apply (isAtEnd_noErr s).bind
    intro e s1
    split
    · exact NoErr.ok _ _
    · apply (peek_noErr _).bind
      intro t s2
      split
      · exact NoErr.ok _ _
      · exact (advance_noErr _).bind (fun _ s3 => syncLoop_noErr f s3)
theorem synchronize_noErr (f s) : NoErr (synchronize f s) :=
  (advance_noErr s).bind (fun _ s1 => syncLoop_noErr f s1)

end P
end Aplang
