import Aplang.Spec.Lexical
import Aplang.Proofs.LexerLemmas
/-!
# The scanner computes the reference segmentation  (helpers for C07b / C06)

Two directions per scan step:
* `isUnit_scanOne`: if the input starts with a lexical unit (per `Spec.Lexical.IsUnit`), `scanOne` consumes
  exactly that unit and reports its kind;
* `scanOne_isUnit`: whatever `scanOne` consumes is a lexical unit.
and their lifting to the loop (`scanLoop_seg`, `seg_exists`, `seg_unique`).
-/
namespace Aplang
open Spec.Lexical

theorem punct_eq : punct = singleTable := rfl

theorem isSpecial_iff (c : Char) : isSpecial c = true ↔ c ∈ special := by
  simp [isSpecial]

/-- on a non-special character the dispatch only asks: digit? alphanumeric? -/
theorem classify_nonspecial (cfg : LexCfg) (c : Char) (h : isSpecial c = false) :
    classify cfg c = if isAsciiDigit c then .digit else if cfg.isAlnum c then .alnum else .other := by
  have hm : ∀ x ∈ special, ¬ (x = c) ∧ ¬ (c = x) := by
    intro x hx
    have : ¬ (x = c) := by intro e; subst e; rw [(isSpecial_iff x).mpr hx] at h; cases h
    exact ⟨this, fun e => this e.symm⟩
  simp only [special, List.forall_mem_cons, List.not_mem_nil, false_imp_iff, implies_true, and_true] at hm
  have hs : singleTT c = none := by
    rw [singleTT, Option.map_eq_none_iff, List.find?_eq_none]
    simp [singleTable, hm]
  unfold classify
  rw [hs]
  simp [hm]

theorem classify_special (cfg : LexCfg) :
    classify cfg '!' = .bang ∧ classify cfg '=' = .eq ∧ classify cfg '<' = .lt ∧ classify cfg '>' = .gt ∧
    classify cfg '/' = .slash ∧ classify cfg '\\' = .backslash ∧ classify cfg ' ' = .blank ∧
    classify cfg '\t' = .blank ∧ classify cfg '\r' = .blank ∧ classify cfg '\n' = .newline ∧
    classify cfg '"' = .quote := by
  refine ⟨rfl, rfl, rfl, rfl, rfl, rfl, rfl, rfl, rfl, rfl, rfl⟩

theorem classify_punct (cfg : LexCfg) (c : Char) (tt : TT) (h : (c, tt) ∈ punct) : classify cfg c = .single tt := by
  simp only [punct, List.mem_cons, Prod.mk.injEq, List.not_mem_nil, or_false] at h
  rcases h with ⟨rfl, rfl⟩ | ⟨rfl, rfl⟩ | ⟨rfl, rfl⟩ | ⟨rfl, rfl⟩ | ⟨rfl, rfl⟩ | ⟨rfl, rfl⟩ | ⟨rfl, rfl⟩ | ⟨rfl, rfl⟩ | ⟨rfl, rfl⟩ | ⟨rfl, rfl⟩ | ⟨rfl, rfl⟩ | ⟨rfl, rfl⟩ <;> rfl

theorem spanWhile_eq (p : Char → Bool) (a b : Str) (ha : ∀ d ∈ a, p d = true)
    (hb : startsWith p b = false) : spanWhile p (a ++ b) = (a, b) := by
  induction a with
  | nil =>
    cases b with
    | nil => rfl
    | cons d r => simp only [startsWith_cons] at hb; simp [spanWhile, hb]
  | cons c cs ih =>
    have hc := ha c (by simp)
    simp only [List.cons_append, spanWhile, hc, if_true]
    rw [ih (fun d hd => ha d (by simp [hd]))]

theorem startsWith_spanWhile (p : Char → Bool) (cs : Str) : startsWith p (spanWhile p cs).2 = false := by
  cases h : (spanWhile p cs).2 with
  | nil => rfl
  | cons d r => exact spanWhile_stop p cs d r h

theorem dec_eq (e : Char) :
    (if e == 'n' then some '\n' else if e == 'r' then some '\r' else if e == 't' then some '\t'
        else if e == '\\' then some '\\' else if e == '"' then some '"' else none) = unescape e := by
  simp only [unescape, escapes, List.lookup]
  repeat' split
  all_goals simp_all

theorem scanString_nil : scanString [] = .unterminated [] := by rw [scanString]
theorem scanString_quote (r : Str) : scanString ('"' :: r) = .ok [] ['"'] r := by rw [scanString]
theorem scanString_bs_nil : scanString ['\\'] = .badEscape ['\\'] [] := by rw [scanString]
theorem scanString_bs (e : Char) (r : Str) : scanString ('\\' :: e :: r) =
    match unescape e with
    | some d =>
      match scanString r with
      | .ok v c r' => .ok (d :: v) ('\\' :: e :: c) r'
      | .badEscape c r' => .badEscape ('\\' :: e :: c) r'
      | .unterminated c => .unterminated ('\\' :: e :: c)
    | none => .badEscape ['\\'] (e :: r) := by
  rw [scanString, dec_eq]
  rfl
theorem scanString_other (c : Char) (r : Str) (h1 : c ≠ '"') (h2 : c ≠ '\\') : scanString (c :: r) =
    match scanString r with
    | .ok v cs r' => .ok (c :: v) (c :: cs) r'
    | .badEscape cs r' => .badEscape (c :: cs) r'
    | .unterminated cs => .unterminated (c :: cs) := by
  rw [scanString]
  · rfl
  · exact h1
  · exact h2

theorem scanString_ok (body v rest) (h : decode body = some v) :
    scanString (body ++ '"' :: rest) = .ok v (body ++ ['"']) rest := by
  fun_induction decode body generalizing v with
  | case1 => cases h; exact scanString_quote rest
  | case2 r => cases h
  | case3 hq => cases h
  | case4 e r' hq hu => cases h
  | case5 e r' d hu hq ih =>
    simp only [Option.map_eq_some_iff] at h
    obtain ⟨v', hv', rfl⟩ := h
    simp only [List.cons_append, scanString_bs, hu, ih v' hv']
  | case6 c r hq hb ih =>
    simp only [Option.map_eq_some_iff] at h
    obtain ⟨v', hv', rfl⟩ := h
    simp only [List.cons_append, scanString_other c _ hq hb, ih v' hv']

theorem scanString_badEscape (pre rest) (h : decode pre ≠ none)
    (hr : startsWith (fun e => (unescape e).isSome) rest = false) :
    scanString (pre ++ '\\' :: rest) = .badEscape (pre ++ ['\\']) rest := by
  fun_induction decode pre with
  | case1 =>
    cases rest with
    | nil => exact scanString_bs_nil
    | cons e r =>
      simp only [startsWith_cons, Option.isSome_eq_false_iff, Option.isNone_iff_eq_none] at hr
      simp only [List.nil_append, scanString_bs, hr]
  | case2 r => exact absurd rfl h
  | case3 hq => exact absurd rfl h
  | case4 e r' hq hu => exact absurd rfl h
  | case5 e r' d hu hq ih =>
    have h' : decode r' ≠ none := by intro e; simp [e] at h
    simp only [List.cons_append, scanString_bs, hu, ih h']
  | case6 c r hq hb ih =>
    have h' : decode r ≠ none := by intro e; simp [e] at h
    simp only [List.cons_append, scanString_other c _ hq hb, ih h']

theorem scanString_unterminated (body) (h : decode body ≠ none) : scanString body = .unterminated body := by
  fun_induction decode body with
  | case1 => exact scanString_nil
  | case2 r => exact absurd rfl h
  | case3 hq => exact absurd rfl h
  | case4 e r' hq hu => exact absurd rfl h
  | case5 e r' d hu hq ih =>
    have h' : decode r' ≠ none := by intro e; simp [e] at h
    simp only [scanString_bs, hu, ih h']
  | case6 c r hq hb ih =>
    have h' : decode r ≠ none := by intro e; simp [e] at h
    simp only [scanString_other c _ hq hb, ih h']

theorem decode_other (c : Char) (r : Str) (h1 : c ≠ '"') (h2 : c ≠ '\\') :
    decode (c :: r) = (decode r).map (c :: ·) := by
  rw [decode.eq_def]; simp only [if_neg h1, if_neg h2]

/-- what `scanString` returns, in the vocabulary of the specification -/
def StrResSpec : StrRes → Prop
  | .ok v consumed _ => ∃ body, consumed = body ++ ['"'] ∧ decode body = some v
  | .badEscape consumed rest => ∃ pre, consumed = pre ++ ['\\'] ∧ decode pre ≠ none ∧
      startsWith (fun e => (unescape e).isSome) rest = false
  | .unterminated consumed => decode consumed ≠ none

theorem scanString_spec (s : Str) : StrResSpec (scanString s) := by
  fun_induction scanString s with
  | case1 => simp [StrResSpec, decode]
  | case2 rest => exact ⟨[], rfl, rfl⟩
  | case3 e r dec d hd v c r' hs ih =>
    have hu : unescape e = some d := by rw [← dec_eq]; exact hd
    rw [hs] at ih
    obtain ⟨body, rfl, hb⟩ := ih
    exact ⟨'\\' :: e :: body, rfl, by simp [decode, hu, hb]⟩
  | case4 e r dec d hd c r' hs ih =>
    have hu : unescape e = some d := by rw [← dec_eq]; exact hd
    rw [hs] at ih
    obtain ⟨pre, rfl, hb, hr⟩ := ih
    exact ⟨'\\' :: e :: pre, rfl, by simpa [decode, hu] using hb, hr⟩
  | case5 e r dec d hd c hs ih =>
    have hu : unescape e = some d := by rw [← dec_eq]; exact hd
    rw [hs] at ih
    simp only [StrResSpec] at ih ⊢
    simpa [decode, hu] using ih
  | case6 e r dec hd =>
    have hu : unescape e = none := by rw [← dec_eq]; exact hd
    exact ⟨[], rfl, by simp [decode], by simp [hu]⟩
  | case7 => exact ⟨[], rfl, by simp [decode], rfl⟩
  | case8 c r hq hb v cs r' hs ih =>
    rw [hs] at ih
    obtain ⟨body, rfl, hb'⟩ := ih
    exact ⟨c :: body, rfl, by simp [decode_other c _ hq hb, hb']⟩
  | case9 c r hq hb cs r' hs ih =>
    rw [hs] at ih
    obtain ⟨pre, rfl, hb', hr⟩ := ih
    exact ⟨c :: pre, rfl, by simpa [decode_other c _ hq hb] using hb', hr⟩
  | case10 c r hq hb cs hs ih =>
    rw [hs] at ih
    simp only [StrResSpec] at ih ⊢
    simpa [decode_other c _ hq hb] using ih

theorem digit_not_special (c : Char) (h : isAsciiDigit c = true) : isSpecial c = false := by
  cases hs : isSpecial c with
  | false => rfl
  | true =>
    have := (isSpecial_iff c).mp hs
    simp only [special, List.mem_cons, List.not_mem_nil, or_false] at this
    revert h
    rcases this with rfl|rfl|rfl|rfl|rfl|rfl|rfl|rfl|rfl|rfl|rfl|rfl|rfl|rfl|rfl|rfl|rfl|rfl|rfl|rfl|rfl|rfl|rfl <;> decide

theorem classify_digit (cfg : LexCfg) (c : Char) (h : isAsciiDigit c = true) : classify cfg c = .digit := by
  rw [classify_nonspecial cfg c (digit_not_special c h), if_pos h]

theorem classify_wordStart (cfg : LexCfg) (c : Char) (h : wordStart cfg c = true) : classify cfg c = .alnum := by
  simp only [wordStart, Bool.and_eq_true, Bool.not_eq_true'] at h
  rw [classify_nonspecial cfg c h.2, if_neg (by simp [h.1.2]), if_pos h.1.1]

theorem classify_noClass (cfg : LexCfg) (c : Char) (h : noClass cfg c = true) : classify cfg c = .other := by
  simp only [noClass, Bool.and_eq_true, Bool.not_eq_true'] at h
  rw [classify_nonspecial cfg c h.1.1, if_neg (by simp [h.1.2]), if_neg (by simp [h.2])]

theorem nonspecial_ne_newline (c : Char) (h : isSpecial c = false) : c ≠ '\n' := by
  intro e; subst e; revert h; decide

/-- the kind of lexical unit a scan step reports (`c` = the first character of its input) -/
def stepKind (c : Char) : Step → UKind
  | .tok t _ => if c = '\n' then .newline else .token t.tt t.lit
  | .err e _ _ => .error e.kind
  | .skip _ _ =>
    if c = '\n' then .newline else if c = '/' then .comment else if c = '\\' then .continuation else .blank

theorem isUnit_scanOne (cfg : LexCfg) (prev : Option TT) (pos : Nat) (k : UKind) (text rest : Str) (c : Char)
    (cs : Str) (h : IsUnit cfg k text rest) (e : text ++ rest = c :: cs) :
    (scanOne cfg prev pos c cs).rest = rest ∧ stepKind c (scanOne cfg prev pos c cs) = k := by
  cases h with
  | blank c0 rest hb =>
    simp only [List.cons_append, List.nil_append, List.cons.injEq] at e
    obtain ⟨rfl, rfl⟩ := e
    simp only [isBlank, Bool.or_eq_true, beq_iff_eq] at hb
    rcases hb with (rfl | rfl) | rfl <;> exact ⟨rfl, rfl⟩
  | newline rest =>
    simp only [List.cons_append, List.nil_append, List.cons.injEq] at e
    obtain ⟨rfl, rfl⟩ := e
    unfold scanOne
    rw [(classify_special cfg).2.2.2.2.2.2.2.2.2.1]
    simp only []
    split
    · split <;> exact ⟨rfl, rfl⟩
    · exact ⟨rfl, rfl⟩
  | comment body rest hb hr =>
    simp only [List.cons_append, List.cons.injEq] at e
    obtain ⟨rfl, rfl⟩ := e
    have hsp := spanWhile_eq (fun d => d != '\n') body rest (by simpa using hb) hr
    unfold scanOne
    rw [(classify_special cfg).2.2.2.2.1]
    simp only [hsp]
    exact ⟨rfl, rfl⟩
  | continuation rest =>
    simp only [List.cons_append, List.nil_append, List.cons.injEq] at e
    obtain ⟨rfl, rfl⟩ := e
    exact ⟨rfl, rfl⟩
  | punct c0 tt rest hm =>
    simp only [List.cons_append, List.nil_append, List.cons.injEq] at e
    obtain ⟨rfl, rfl⟩ := e
    simp only [punct, List.mem_cons, Prod.mk.injEq, List.not_mem_nil, or_false] at hm
    rcases hm with ⟨rfl, rfl⟩ | ⟨rfl, rfl⟩ | ⟨rfl, rfl⟩ | ⟨rfl, rfl⟩ | ⟨rfl, rfl⟩ | ⟨rfl, rfl⟩ | ⟨rfl, rfl⟩ |
      ⟨rfl, rfl⟩ | ⟨rfl, rfl⟩ | ⟨rfl, rfl⟩ | ⟨rfl, rfl⟩ | ⟨rfl, rfl⟩ <;> exact ⟨rfl, rfl⟩
  | op2 a b tt rest hm =>
    simp only [List.cons_append, List.nil_append, List.cons.injEq] at e
    obtain ⟨rfl, rfl⟩ := e
    simp only [op2, List.mem_cons, Prod.mk.injEq, List.not_mem_nil, or_false] at hm
    rcases hm with ⟨rfl, rfl, rfl⟩ | ⟨rfl, rfl, rfl⟩ | ⟨rfl, rfl, rfl⟩ | ⟨rfl, rfl, rfl⟩ | ⟨rfl, rfl, rfl⟩ <;>
      exact ⟨rfl, rfl⟩
  | less rest hr =>
    simp only [List.cons_append, List.nil_append, List.cons.injEq] at e
    obtain ⟨rfl, rfl⟩ := e
    unfold scanOne
    rw [(classify_special cfg).2.2.1]
    simp only []
    split
    · simp at hr
    · simp at hr
    · exact ⟨rfl, rfl⟩
  | greater rest hr =>
    simp only [List.cons_append, List.nil_append, List.cons.injEq] at e
    obtain ⟨rfl, rfl⟩ := e
    unfold scanOne
    rw [(classify_special cfg).2.2.2.1]
    simp only []
    split
    · simp at hr
    · exact ⟨rfl, rfl⟩
  | slash rest hr =>
    simp only [List.cons_append, List.nil_append, List.cons.injEq] at e
    obtain ⟨rfl, rfl⟩ := e
    unfold scanOne
    rw [(classify_special cfg).2.2.2.2.1]
    simp only []
    split
    · simp at hr
    · exact ⟨rfl, rfl⟩
  | numberInt ds rest hd hr hdot =>
    obtain ⟨hne, hall⟩ := hd
    cases text with
    | nil => exact absurd rfl hne
    | cons c0 ds' =>
      simp only [List.cons_append, List.cons.injEq] at e
      obtain ⟨rfl, rfl⟩ := e
      have hc : isAsciiDigit c0 = true := hall c0 (by simp)
      have hsp := spanWhile_eq isAsciiDigit ds' rest (fun d hd => hall d (by simp [hd])) hr
      have hnl : c0 ≠ '\n' := nonspecial_ne_newline c0 (digit_not_special c0 hc)
      unfold scanOne
      rw [classify_digit cfg c0 hc]
      simp only [scanNumber, hsp]
      split
      · rename_i d r2
        have := hdot _ rfl
        simp only [startsWith_cons] at this
        simp [this, Step.rest, stepKind, hnl, mkTok]
      · simp [Step.rest, stepKind, hnl, mkTok]
  | numberFrac ds fs rest hd hf hr =>
    obtain ⟨hne, hall⟩ := hd
    obtain ⟨hnef, hallf⟩ := hf
    cases ds with
    | nil => exact absurd rfl hne
    | cons c0 ds' =>
    cases fs with
    | nil => exact absurd rfl hnef
    | cons d fs' =>
      simp only [List.cons_append, List.append_assoc, List.cons.injEq] at e
      obtain ⟨rfl, rfl⟩ := e
      have hc : isAsciiDigit c0 = true := hall c0 (by simp)
      have hdd : isAsciiDigit d = true := hallf d (by simp)
      have hsp := spanWhile_eq isAsciiDigit ds' ('.' :: d :: (fs' ++ rest)) (fun d hd => hall d (by simp [hd])) (by simp only [startsWith_cons]; decide)
      have hsp2 := spanWhile_eq isAsciiDigit fs' rest (fun d hd => hallf d (by simp [hd])) hr
      have hnl : c0 ≠ '\n' := nonspecial_ne_newline c0 (digit_not_special c0 hc)
      unfold scanOne
      rw [classify_digit cfg c0 hc]
      simp only [scanNumber, hsp, hdd, hsp2]
      simp [Step.rest, stepKind, hnl, mkTok]
  | keyword c0 cs0 k rest hs hall hr hk =>
    simp only [List.cons_append, List.cons.injEq] at e
    obtain ⟨rfl, rfl⟩ := e
    have hsp := spanWhile_eq (fun d => cfg.isAlnum d || d == '_') cs0 rest hall hr
    have hnl : c0 ≠ '\n' := nonspecial_ne_newline c0 (by simp [wordStart] at hs; exact hs.2)
    unfold scanOne
    rw [classify_wordStart cfg c0 hs]
    simp only [scanIdent, hsp, hk]
    simp [Step.rest, stepKind, hnl, mkTok]
  | identifier c0 cs0 rest hs hall hr hk =>
    simp only [List.cons_append, List.cons.injEq] at e
    obtain ⟨rfl, rfl⟩ := e
    have hsp := spanWhile_eq (fun d => cfg.isAlnum d || d == '_') cs0 rest hall hr
    have hnl : c0 ≠ '\n' := nonspecial_ne_newline c0 (by simp [wordStart] at hs; exact hs.2)
    unfold scanOne
    rw [classify_wordStart cfg c0 hs]
    simp only [scanIdent, hsp, hk]
    simp [Step.rest, stepKind, hnl, mkTok]
  | string body v rest hd =>
    simp only [List.cons_append, List.append_assoc, List.nil_append, List.cons.injEq] at e
    obtain ⟨rfl, rfl⟩ := e
    unfold scanOne
    rw [(classify_special cfg).2.2.2.2.2.2.2.2.2.2, scanString_ok body v rest hd]
    exact ⟨rfl, rfl⟩
  | loneBang rest hr =>
    simp only [List.cons_append, List.nil_append, List.cons.injEq] at e
    obtain ⟨rfl, rfl⟩ := e
    unfold scanOne
    rw [(classify_special cfg).1]
    simp only []
    split
    · simp at hr
    · exact ⟨rfl, rfl⟩
  | loneEq rest hr =>
    simp only [List.cons_append, List.nil_append, List.cons.injEq] at e
    obtain ⟨rfl, rfl⟩ := e
    unfold scanOne
    rw [(classify_special cfg).2.1]
    simp only []
    split
    · simp at hr
    · exact ⟨rfl, rfl⟩
  | badBackslash rest hr =>
    simp only [List.cons_append, List.nil_append, List.cons.injEq] at e
    obtain ⟨rfl, rfl⟩ := e
    unfold scanOne
    rw [(classify_special cfg).2.2.2.2.2.1]
    simp only []
    split
    · simp at hr
    · exact ⟨rfl, rfl⟩
  | unknownSymbol c0 rest hn =>
    simp only [List.cons_append, List.nil_append, List.cons.injEq] at e
    obtain ⟨rfl, rfl⟩ := e
    unfold scanOne
    rw [classify_noClass cfg c0 hn]
    exact ⟨rfl, rfl⟩
  | badEscape pre rest hd hr =>
    simp only [List.cons_append, List.append_assoc, List.nil_append, List.cons.injEq] at e
    obtain ⟨rfl, rfl⟩ := e
    unfold scanOne
    rw [(classify_special cfg).2.2.2.2.2.2.2.2.2.2, scanString_badEscape pre rest hd hr]
    exact ⟨rfl, rfl⟩
  | unterminated body hd =>
    simp only [List.append_nil, List.cons.injEq] at e
    obtain ⟨rfl, rfl⟩ := e
    unfold scanOne
    rw [(classify_special cfg).2.2.2.2.2.2.2.2.2.2, scanString_unterminated body hd]
    exact ⟨rfl, rfl⟩

/-- the first-character dispatch in the vocabulary of the specification -/
inductive CView (cfg : LexCfg) : Char → CClass → Prop
  | single (c tt) : (c, tt) ∈ punct → CView cfg c (.single tt)
  | bang : CView cfg '!' .bang
  | eq : CView cfg '=' .eq
  | lt : CView cfg '<' .lt
  | gt : CView cfg '>' .gt
  | slash : CView cfg '/' .slash
  | backslash : CView cfg '\\' .backslash
  | blank (c) : isBlank c = true → CView cfg c .blank
  | newline : CView cfg '\n' .newline
  | quote : CView cfg '"' .quote
  | digit (c) : isAsciiDigit c = true → CView cfg c .digit
  | alnum (c) : wordStart cfg c = true → CView cfg c .alnum
  | other (c) : noClass cfg c = true → CView cfg c .other

theorem classify_view (cfg : LexCfg) (c : Char) : CView cfg c (classify cfg c) := by
  cases hs : isSpecial c with
  | false =>
    rw [classify_nonspecial cfg c hs]
    split
    · exact .digit c ‹_›
    · split
      · exact .alnum c (by simp [wordStart, *])
      · exact .other c (by simp [noClass, *])
  | true =>
    have := (isSpecial_iff c).mp hs
    simp only [special, List.mem_cons, List.not_mem_nil, or_false] at this
    rcases this with rfl|rfl|rfl|rfl|rfl|rfl|rfl|rfl|rfl|rfl|rfl|rfl|rfl|rfl|rfl|rfl|rfl|rfl|rfl|rfl|rfl|rfl|rfl
    · exact .single _ _ (by decide)
    · exact .single _ _ (by decide)
    · exact .single _ _ (by decide)
    · exact .single _ _ (by decide)
    · exact .single _ _ (by decide)
    · exact .single _ _ (by decide)
    · exact .single _ _ (by decide)
    · exact .single _ _ (by decide)
    · exact .single _ _ (by decide)
    · exact .single _ _ (by decide)
    · exact .single _ _ (by decide)
    · exact .single _ _ (by decide)
    · exact .bang
    · exact .eq
    · exact .lt
    · exact .gt
    · exact .slash
    · exact .backslash
    · exact .blank _ (by decide)
    · exact .blank _ (by decide)
    · exact .blank _ (by decide)
    · exact .newline
    · exact .quote

theorem startsWith_eq_false (p : Char → Bool) (cs : Str) (h : ∀ d r, cs = d :: r → p d = false) :
    startsWith p cs = false := by
  cases cs with
  | nil => rfl
  | cons d r => exact h d r rfl

theorem startsWith_beq_false (x : Char) (cs : Str) (h : ∀ r, cs = x :: r → False) :
    startsWith (· == x) cs = false := by
  apply startsWith_eq_false
  intro d r e
  cases hd : d == x with
  | false => rfl
  | true => rw [beq_iff_eq] at hd; subst hd; exact absurd e (h r)

/-- whatever one scan step consumes is a lexical unit of the specification -/
theorem scanOne_isUnit (cfg : LexCfg) (prev : Option TT) (pos : Nat) (c : Char) (cs : Str) :
    ∃ k text, text ++ (scanOne cfg prev pos c cs).rest = c :: cs ∧
      IsUnit cfg k text (scanOne cfg prev pos c cs).rest := by
  have v := classify_view cfg c
  unfold scanOne
  generalize classify cfg c = cl at v
  cases v with
  | single c tt hm => exact ⟨_, [c], rfl, .punct c tt cs hm⟩
  | bang =>
    simp only []; split
    · exact ⟨_, ['!', '='], rfl, .op2 '!' '=' .bangEqual _ (by decide)⟩
    · rename_i hn
      exact ⟨_, ['!'], rfl, .loneBang cs (startsWith_beq_false '=' cs hn)⟩
  | eq =>
    simp only []; split
    · exact ⟨_, ['=', '='], rfl, .op2 '=' '=' .equalEqual _ (by decide)⟩
    · rename_i hn
      exact ⟨_, ['='], rfl, .loneEq cs (startsWith_beq_false '=' cs hn)⟩
  | lt =>
    simp only []; split
    · exact ⟨_, ['<', '='], rfl, .op2 '<' '=' .lessEqual _ (by decide)⟩
    · exact ⟨_, ['<', '-'], rfl, .op2 '<' '-' .arrow _ (by decide)⟩
    · rename_i hn1 hn2
      exact ⟨_, ['<'], rfl, .less cs (startsWith_eq_false _ _ (by
        intro d r e
        cases hd : d == '=' with
        | true => rw [beq_iff_eq] at hd; subst hd; exact absurd e (hn1 r)
        | false =>
          cases hd2 : d == '-' with
          | true => rw [beq_iff_eq] at hd2; subst hd2; exact absurd e (hn2 r)
          | false => rfl))⟩
  | gt =>
    simp only []; split
    · exact ⟨_, ['>', '='], rfl, .op2 '>' '=' .greaterEqual _ (by decide)⟩
    · rename_i hn
      exact ⟨_, ['>'], rfl, .greater cs (startsWith_beq_false '=' cs hn)⟩
  | slash =>
    simp only []; split
    · rename_i r
      refine ⟨_, '/' :: '/' :: (spanWhile (fun d => d != '\n') r).1, ?_, .comment _ _ ?_ ?_⟩
      · simp [Step.rest, spanWhile_append]
      · intro d hd; simpa using spanWhile_all _ r d hd
      · exact startsWith_spanWhile _ r
    · rename_i hn
      exact ⟨_, ['/'], rfl, .slash cs (startsWith_beq_false '/' cs hn)⟩
  | backslash =>
    simp only []; split
    · exact ⟨_, ['\\', '\n'], rfl, .continuation _⟩
    · rename_i hn
      exact ⟨_, ['\\'], rfl, .badBackslash cs (startsWith_beq_false '\n' cs hn)⟩
  | blank c hb => exact ⟨_, [c], rfl, .blank c cs hb⟩
  | newline =>
    simp only []; split
    · split <;> exact ⟨_, ['\n'], rfl, .newline cs⟩
    · exact ⟨_, ['\n'], rfl, .newline cs⟩
  | quote =>
    have hsp := scanString_spec cs
    have hsplit := scanString_split cs
    simp only []
    split
    · rename_i v consumed rest heq
      rw [heq] at hsp hsplit
      obtain ⟨body, rfl, hb⟩ := hsp
      simp only [StrRes.consumed, StrRes.rest] at hsplit
      exact ⟨_, '"' :: body ++ ['"'], by simp [Step.rest, ← hsplit], .string body v rest hb⟩
    · rename_i consumed rest heq
      rw [heq] at hsp hsplit
      obtain ⟨pre, rfl, hb, hr⟩ := hsp
      simp only [StrRes.consumed, StrRes.rest] at hsplit
      exact ⟨_, '"' :: pre ++ ['\\'], by simp [Step.rest, ← hsplit], .badEscape pre rest hb hr⟩
    · rename_i consumed heq
      rw [heq] at hsp hsplit
      simp only [StrRes.consumed, StrRes.rest, List.append_nil] at hsplit
      subst hsplit
      exact ⟨_, '"' :: consumed, by simp [Step.rest], .unterminated consumed hsp⟩
  | digit c hc =>
    simp only [scanNumber]
    have hA := spanWhile_append isAsciiDigit cs
    have hall := spanWhile_all isAsciiDigit cs
    have hstop := startsWith_spanWhile isAsciiDigit cs
    generalize spanWhile isAsciiDigit cs = p at hA hall hstop
    obtain ⟨ds, r1⟩ := p
    simp only at hA hall hstop ⊢
    have hds : IsDigits (c :: ds) := ⟨by simp, by intro d hd; simp at hd; rcases hd with rfl | hd; exact hc; exact hall d hd⟩
    split
    · rename_i d r2
      split
      · rename_i hd
        have hA2 := spanWhile_append isAsciiDigit r2
        have hall2 := spanWhile_all isAsciiDigit r2
        have hstop2 := startsWith_spanWhile isAsciiDigit r2
        generalize spanWhile isAsciiDigit r2 = q at hA2 hall2 hstop2
        obtain ⟨fs, r3⟩ := q
        simp only at hA2 hall2 hstop2 ⊢
        refine ⟨_, (c :: ds) ++ '.' :: d :: fs, ?_, .numberFrac (c :: ds) (d :: fs) r3 hds ⟨by simp, ?_⟩ hstop2⟩
        · simp [Step.rest, ← hA, ← hA2]
        · intro x hx; simp at hx; rcases hx with rfl | hx; exact hd; exact hall2 x hx
      · rename_i hd
        refine ⟨_, c :: ds, by simp [Step.rest, ← hA], .numberInt (c :: ds) _ hds hstop ?_⟩
        intro r e; cases e; simpa using hd
    · rename_i hn
      refine ⟨_, c :: ds, by simp [Step.rest, ← hA], .numberInt (c :: ds) _ hds hstop ?_⟩
      intro r e
      cases r with
      | nil => rfl
      | cons d r2 => exact absurd e (hn d r2)
  | alnum c hc =>
    simp only [scanIdent]
    have hA := spanWhile_append (fun d => cfg.isAlnum d || d == '_') cs
    have hall := spanWhile_all (fun d => cfg.isAlnum d || d == '_') cs
    have hstop := startsWith_spanWhile (fun d => cfg.isAlnum d || d == '_') cs
    generalize spanWhile (fun d => cfg.isAlnum d || d == '_') cs = p at hA hall hstop
    obtain ⟨a, r⟩ := p
    simp only at hA hall hstop ⊢
    split
    · rename_i k hk
      exact ⟨_, c :: a, by simp [Step.rest, ← hA], .keyword c a k r hc hall hstop hk⟩
    · rename_i hk
      exact ⟨_, c :: a, by simp [Step.rest, ← hA], .identifier c a r hc hall hstop hk⟩
  | other c hc => exact ⟨_, [c], rfl, .unknownSymbol c cs hc⟩

theorem isUnit_nonempty {cfg k text rest} (h : IsUnit cfg k text rest) : text ≠ [] := by
  cases h <;> first | (simp; done) | (rename_i hd _ _; exact hd.1)

theorem seg_nil_inv {cfg : LexCfg} {us} (h : Seg cfg [] us) : us = [] := by
  generalize hs : ([] : Str) = s at h
  cases h with
  | nil => rfl
  | cons k text rest us hu _ =>
    have := isUnit_nonempty hu
    cases text with
    | nil => exact absurd rfl this
    | cons => simp at hs

theorem seg_cons_inv {cfg : LexCfg} {c cs us} (h : Seg cfg (c :: cs) us) :
    ∃ k text rest us', us = ⟨k, text⟩ :: us' ∧ text ++ rest = c :: cs ∧ IsUnit cfg k text rest ∧ Seg cfg rest us' := by
  generalize hs : c :: cs = s at h
  cases h with
  | nil => cases hs
  | cons k text rest us hu hr => exact ⟨k, text, rest, us, rfl, rfl, hu, hr⟩

theorem scanOne_newline (cfg : LexCfg) (prev : Option TT) (pos : Nat) (cs : Str) :
    scanOne cfg prev pos '\n' cs =
      match prev with
      | some p => if cfg.ender p then .tok (mkTok .softSemi ['\n'] .none pos) cs else .skip '\n'.utf8Size cs
      | none => .skip '\n'.utf8Size cs := rfl

/-- kind, lexeme, literal of a token -/
def strip (t : Token) : TT × Str × Lit := (t.tt, t.lexeme, t.lit)

theorem scanLoop_seg (cfg : LexCfg) : ∀ (src : Str) (pos : Nat) (prev : Option TT) (ls : Nat) (us : List LUnit),
    Seg cfg src us →
      (scanLoop cfg src pos prev ls).1.map strip = unitToks cfg prev us ∧
      (scanLoop cfg src pos prev ls).2.1.map (·.kind) = unitErrs us := by
  intro src pos prev ls
  fun_induction scanLoop cfg src pos prev ls with
  | case1 pos prev ls => intro us h; rw [seg_nil_inv h]; exact ⟨rfl, rfl⟩
  | case2 pos prev ls c cs _ ih =>
    intro us h
    obtain ⟨k, text, rest, us', rfl, he, hu, hr⟩ := seg_cons_inv h
    obtain ⟨h1, h2⟩ := isUnit_scanOne cfg prev pos k text rest c cs hu he
    obtain ⟨used, hused, _, _, htok⟩ := scanOne_consumes cfg prev pos c cs
    have hut : used = text := by
      rw [h1, ← he] at hused; exact (List.append_cancel_right hused).symm
    have htext : text = used := hut.symm
    by_cases hc : c = '\n'
    · subst hc
      have hnl := scanOne_newline cfg prev pos cs
      have hrest : (scanOne cfg prev pos '\n' cs).rest = cs := by
        rw [hnl]
        cases prev with
        | none => rfl
        | some p => simp only; split <;> rfl
      have hrc : rest = cs := by rw [← h1]; exact hrest
      subst hrc
      have htx : text = ['\n'] := List.append_cancel_right (he.trans rfl : text ++ rest = ['\n'] ++ rest)
      subst htx
      have hk : k = .newline := by
        rw [← h2, hnl]
        cases prev with
        | none => rfl
        | some p => simp only; split <;> rfl
      subst hk
      rw [hnl] at ih ⊢
      cases prev with
      | none =>
        have ih' := ih us' hr
        simp only [Step.push, Step.prev, Step.rest, Step.bytes] at ih' ⊢
        rw [ih'.1, ih'.2]; exact ⟨rfl, rfl⟩
      | some p =>
        by_cases hp : cfg.ender p = true
        · simp only [if_pos hp] at ih ⊢
          have ih' := ih us' hr
          simp only [Step.push, Step.prev, Step.rest, Step.bytes, List.map_cons] at ih' ⊢
          rw [ih'.1, ih'.2]
          simp [unitToks, unitErrs, strip, mkTok, hp]
        · simp only [if_neg hp] at ih ⊢
          have ih' := ih us' hr
          simp only [Step.push, Step.prev, Step.rest, Step.bytes] at ih' ⊢
          rw [ih'.1, ih'.2]
          simp [unitToks, unitErrs, hp]
    · rw [h1] at ih
      have ih' := ih us' hr
      generalize scanOne cfg prev pos c cs = st at h1 h2 htok ih' ⊢
      cases st with
      | tok t r =>
        simp only [Step.rest] at h1
        subst h1
        have hl : t.lexeme = text := by rw [(htok t r rfl).1, hut]
        simp only [Step.push, Step.prev, Step.rest, List.map_cons] at ih' ⊢
        simp only [stepKind, if_neg hc] at h2
        subst h2
        rw [ih'.1, ih'.2]
        simp [unitToks, unitErrs, strip, hl]
      | skip b r =>
        simp only [Step.rest] at h1
        subst h1
        simp only [Step.push, Step.prev, Step.rest] at ih' ⊢
        rw [ih'.1, ih'.2]
        simp only [stepKind, if_neg hc] at h2
        subst h2
        repeat' split
        all_goals exact ⟨rfl, rfl⟩
      | err e b r =>
        simp only [Step.rest] at h1
        subst h1
        simp only [Step.push, Step.prev, Step.rest, stepKind, List.map_cons] at ih' h2 ⊢
        subst h2
        rw [ih'.1, ih'.2]
        exact ⟨rfl, rfl⟩

/-- every source string has a segmentation -/
theorem seg_exists (cfg : LexCfg) (src : Str) : ∃ us, Seg cfg src us := by
  have : ∀ (pos : Nat) (prev : Option TT) (ls : Nat), ∃ us, Seg cfg src us := by
    intro pos prev ls
    fun_induction scanLoop cfg src pos prev ls with
    | case1 => exact ⟨[], .nil⟩
    | case2 pos prev ls c cs _ ih =>
      obtain ⟨k, text, he, hu⟩ := scanOne_isUnit cfg prev pos c cs
      obtain ⟨us, hs⟩ := ih
      exact ⟨⟨k, text⟩ :: us, he ▸ Seg.cons k text _ us hu hs⟩
  exact this 0 none 0

/-- … and only one -/
theorem seg_unique (cfg : LexCfg) (src : Str) (us us' : List LUnit) (h : Seg cfg src us) (h' : Seg cfg src us') :
    us = us' := by
  induction h generalizing us' with
  | nil => exact (seg_nil_inv h').symm
  | cons k text rest us hu hs ih =>
    cases text with
    | nil => exact absurd rfl (isUnit_nonempty hu)
    | cons c t =>
      have h'' : Seg cfg (c :: (t ++ rest)) us' := h'
      obtain ⟨k', text', rest', us'', rfl, he, hu', hr'⟩ := seg_cons_inv h''
      obtain ⟨a1, a2⟩ := isUnit_scanOne cfg none 0 k (c :: t) rest c (t ++ rest) hu rfl
      obtain ⟨b1, b2⟩ := isUnit_scanOne cfg none 0 k' text' rest' c (t ++ rest) hu' he
      have hr : rest = rest' := a1.symm.trans b1
      subst hr
      have hk : k = k' := a2.symm.trans b2
      subst hk
      have ht : text' = c :: t := List.append_cancel_right (he.trans rfl : text' ++ rest = (c :: t) ++ rest)
      subst ht
      rw [ih us'' hr']

theorem step_push_mem (st : Step) (r) (t : Token) (h : t ∈ (st.push r).1) :
    (∃ rest, st = .tok t rest) ∨ t ∈ r.1 := by
  cases st <;> simp [Step.push] at h ⊢
  · rcases h with rfl | h
    · exact Or.inl rfl
    · exact Or.inr h
  · exact h
  · exact h

/-- every token the loop produces was produced by one scan step at the token's offset -/
theorem scanLoop_token_origin (cfg : LexCfg) (whole : Str) :
    ∀ (src : Str) (pos : Nat) (prev : Option TT) (ls : Nat) (pre : Str),
      whole = pre ++ src → ulen pre = pos →
      ∀ t ∈ (scanLoop cfg src pos prev ls).1,
        ∃ pre' c cs prev' r, whole = pre' ++ c :: cs ∧ ulen pre' = t.off ∧ scanOne cfg prev' t.off c cs = .tok t r := by
  intro src pos prev ls
  fun_induction scanLoop cfg src pos prev ls with
  | case1 pos prev ls => intro pre _ _ t ht; simp at ht
  | case2 pos prev ls c cs _ ih =>
    intro pre hw hp t ht
    obtain ⟨used, hu, hne, hby, htok⟩ := scanOne_consumes cfg prev pos c cs
    rcases step_push_mem _ _ t ht with ⟨r0, hst⟩ | ht
    · have hoff := (htok t r0 hst).2.1
      exact ⟨pre, c, cs, prev, r0, hw, by omega, by rw [hoff]; exact hst⟩
    · have hpos : pos + (scanOne cfg prev pos c cs).bytes = ulen (pre ++ used) := by
        rw [hby, ulen_append]; omega
      exact ih (pre ++ used) (by rw [hw, hu]; simp) hpos.symm t ht

/-- a token produced by a scan step is a token unit of the specification, or the terminator a newline stands for -/
theorem scanOne_tok_unit (cfg : LexCfg) (prev : Option TT) (pos : Nat) (c : Char) (cs : Str) (t : Token) (r : Str)
    (h : scanOne cfg prev pos c cs = .tok t r) :
    (c ≠ '\n' ∧ IsUnit cfg (.token t.tt t.lit) t.lexeme r) ∨
    (c = '\n' ∧ r = cs ∧ t = mkTok .softSemi ['\n'] .none pos ∧ ∃ p, prev = some p ∧ cfg.ender p = true) := by
  by_cases hc : c = '\n'
  · subst hc
    right
    rw [scanOne_newline] at h
    cases prev with
    | none => cases h
    | some p =>
      simp only at h
      split at h
      · rename_i hp; cases h; exact ⟨rfl, rfl, rfl, p, rfl, hp⟩
      · cases h
  · left
    refine ⟨hc, ?_⟩
    obtain ⟨k, text, he, hu⟩ := scanOne_isUnit cfg prev pos c cs
    obtain ⟨_, h2⟩ := isUnit_scanOne cfg prev pos k text _ c cs hu he
    obtain ⟨used, hused, _, _, htok⟩ := scanOne_consumes cfg prev pos c cs
    have hl := (htok t r h).1
    have : text = used := List.append_cancel_right (he.trans hused)
    rw [h] at h2 hu
    simp only [stepKind, if_neg hc] at h2
    rw [← h2, this, ← hl] at hu
    exact hu

end Aplang
