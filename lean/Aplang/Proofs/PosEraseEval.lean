import Aplang.Proofs.PosEraseNatives
/-!
# The evaluator does not depend on positions  (property C06)

`EvSim cfg f`: at fuel `f`, running a syntax tree from a state and running its erasure (`Expr.norm`,
`Stmt.norm`) from a similar state give similar results.  Because similarity is symmetric and transitive, this
gives the two-tree form: trees with the same erasure, run from similar states, give similar results
(`EvSim.stmt2`, `EvSim.program2`), which is what procedure calls (the stored bodies are only similar) and
imports (the same module program, similar states) need.
-/
namespace Aplang

/-- tables that agree up to erasure -/
def TabSim (a b : FunTable) : Prop := FunTable.norm b = FunTable.norm a

/-- a table together with a state -/
def TSim (p q : FunTable × St) : Prop := TabSim p.1 q.1 ∧ StSim p.2 q.2

structure EvSim (cfg : Cfg) (f : Nat) : Prop where
  expr : ∀ e σ₁ σ₂, StSim σ₁ σ₂ → VSim (expr cfg f e σ₁) (expr cfg f e.norm σ₂)
  exprs : ∀ es σ₁ σ₂, StSim σ₁ σ₂ → VSim (exprs cfg f es σ₁) (exprs cfg f (Expr.normL es) σ₂)
  stmt : ∀ s σ₁ σ₂, StSim σ₁ σ₂ → SSim (stmt cfg f s σ₁) (stmt cfg f s.norm σ₂)
  block : ∀ ss σ₁ σ₂, StSim σ₁ σ₂ → SSim (block cfg f ss σ₁) (block cfg f (Stmt.normL ss) σ₂)
  repeatLoop : ∀ k body σ₁ σ₂, StSim σ₁ σ₂ →
    SSim (repeatLoop cfg f k body σ₁) (repeatLoop cfg f k body.norm σ₂)
  untilLoop : ∀ c body σ₁ σ₂, StSim σ₁ σ₂ →
    SSim (untilLoop cfg f c body σ₁) (untilLoop cfg f c.norm body.norm σ₂)
  forLoop : ∀ item a i len body σ₁ σ₂, StSim σ₁ σ₂ →
    SSim (forLoop cfg f item a i len body σ₁) (forLoop cfg f item a i len body.norm σ₂)
  program : ∀ ss σ₁ σ₂, StSim σ₁ σ₂ → SSim (program cfg f ss σ₁) (program cfg f (Stmt.normL ss) σ₂)

/-- two statements with the same erasure -/
theorem EvSim.stmt2 {cfg f} (ih : EvSim cfg f) {s₁ s₂ : Stmt} (hs : s₁.norm = s₂.norm) {σ₁ σ₂ : St}
    (h : StSim σ₁ σ₂) : SSim (Aplang.stmt cfg f s₁ σ₁) (Aplang.stmt cfg f s₂ σ₂) := by
  have h1 := ih.stmt s₁ σ₁ σ₂ h
  have h2 := ih.stmt s₂ σ₂ σ₂ (StSim.refl _)
  rw [← hs] at h2
  exact h1.trans h2.symm

/-- two programs with the same erasure -/
theorem EvSim.program2 {cfg f} (ih : EvSim cfg f) {p₁ p₂ : List Stmt} (hs : Stmt.normL p₁ = Stmt.normL p₂)
    {σ₁ σ₂ : St} (h : StSim σ₁ σ₂) : SSim (Aplang.program cfg f p₁ σ₁) (Aplang.program cfg f p₂ σ₂) := by
  have h1 := ih.program p₁ σ₁ σ₂ h
  have h2 := ih.program p₂ σ₂ σ₂ (StSim.refl _)
  rw [← hs] at h2
  exact h1.trans h2.symm

theorem evSim_zero (cfg : Cfg) : EvSim cfg 0 where
  expr := by intro e σ₁ σ₂ h; simp only [expr]; trivial
  exprs := by
    intro es σ₁ σ₂ h
    cases es with
    | nil => simp only [Expr.normL, exprs]; exact RSim.okP h
    | cons e es => simp only [Expr.normL, exprs]; trivial
  stmt := by intro s σ₁ σ₂ h; simp only [stmt]; trivial
  block := by
    intro ss σ₁ σ₂ h
    cases ss with
    | nil => simp only [Stmt.normL, block]; exact RSim.ok h
    | cons s ss =>
      simp only [Stmt.normL, block, h.pending]
      split
      · exact RSim.ok h
      · trivial
  repeatLoop := by
    intro k body σ₁ σ₂ h
    cases k with
    | zero => simp only [repeatLoop]; exact RSim.ok h
    | succ k => simp only [repeatLoop]; trivial
  untilLoop := by intro c body σ₁ σ₂ h; simp only [untilLoop]; trivial
  forLoop := by intro item a i len body σ₁ σ₂ h; simp only [forLoop]; trivial
  program := by
    intro ss σ₁ σ₂ h
    cases ss with
    | nil => simp only [Stmt.normL, program]; exact RSim.ok h
    | cons s ss => simp only [Stmt.normL, program]; trivial

/-! ## IMPORT -/

theorem tabSim_find {m₁ m₂ : FunTable} (hm : TabSim m₁ m₂) (name : Str) :
    (m₁.find? name = none ∧ m₂.find? name = none) ∨
    (∃ p₁ p₂, m₁.find? name = some p₁ ∧ m₂.find? name = some p₂ ∧ p₂.norm = p₁.norm) := by
  have h1 := FunTable.norm_find? m₁ name
  have h2 := FunTable.norm_find? m₂ name
  rw [hm] at h2
  rw [h1] at h2
  cases e1 : m₁.find? name <;> cases e2 : m₂.find? name <;> simp [e1, e2] at h2
  · exact Or.inl ⟨rfl, rfl⟩
  · exact Or.inr ⟨_, _, rfl, rfl, h2.symm⟩

theorem trimModule_sim {σ₁ σ₂ : St} (h : StSim σ₁ σ₂) : ∀ (ts : List Token) (m₁ m₂ a₁ a₂ : FunTable),
    TabSim m₁ m₂ → TabSim a₁ a₂ →
    RSim TabSim (trimModule ts m₁ a₁ σ₁) (trimModule (ts.map Token.norm) m₂ a₂ σ₂)
  | [], _, _, _, _, _, ha => by simp only [List.map_nil, trimModule]; exact RSim.ok ha
  | t :: ts, m₁, m₂, a₁, a₂, hm, ha => by
    simp only [List.map_cons, trimModule, Token.norm_lit]
    cases hl : t.lit with
    | str name =>
      simp only
      rcases tabSim_find hm name with ⟨e1, e2⟩ | ⟨p₁, p₂, e1, e2, hp⟩
      · simp only [e1, e2]; exact RSim.rtErr h
      · simp only [e1, e2]
        apply trimModule_sim h ts
        · unfold TabSim; rw [FunTable.norm_filter, FunTable.norm_filter, hm]
        · unfold TabSim; rw [FunTable.norm_insert, FunTable.norm_insert, ha, hp]
    | none => exact RSim.panicS h
    | num x => exact RSim.panicS h

theorem moduleState_sim (cfg : Cfg) {σ₁ σ₂ : St} (h : StSim σ₁ σ₂) (path : Str) :
    StSim (moduleState cfg σ₁ path) (moduleState cfg σ₂ path) :=
  ⟨h.heap, rfl, rfl, rfl, rfl, rfl, h.out, h.world, rfl, h.budget⟩

theorem afterModule_sim {σ₁ σ₂ m₁ m₂ : St} (h : StSim σ₁ σ₂) (hm : StSim m₁ m₂) :
    StSim (afterModule σ₁ m₁) (afterModule σ₂ m₂) :=
  ⟨hm.heap, h.scopes, h.procs, h.exports, h.ret, h.loops, hm.out, hm.world, h.filePath, hm.budget⟩

theorem importStmt_sim (cfg : Cfg) (run₁ run₂ : List Stmt → St → Res St)
    (hrun : ∀ prog τ₁ τ₂, StSim τ₁ τ₂ → SSim (run₁ prog τ₁) (run₂ prog τ₂))
    (only : Option (List Token)) (modName : Token) {σ₁ σ₂ : St} (h : StSim σ₁ σ₂) :
    SSim (importStmt cfg run₁ only modName σ₁)
      (importStmt cfg run₂ (only.map (List.map Token.norm)) modName.norm σ₂) := by
  unfold importStmt
  simp only [Token.norm_lit, Token.norm_span]
  have hname : QSim (match modName.lit with
      | .str name => .ok name
      | _ => .panic "import: unreachable" σ₁.out : Res Str)
      (match modName.lit with
      | .str name => .ok name
      | _ => .panic "import: unreachable" σ₂.out : Res Str) := by
    cases modName.lit <;> first | exact RSim.ok rfl | exact RSim.panicS h
  apply RSim.bindQ hname
  intro name
  have hload : RSim TSim
      (match cfg.modules name with
       | some table => .ok (table, σ₁)
       | none =>
         let path := joinPath (dirOf σ₁.filePath) name
         if !hasApExtension path then rtErr "std module not found" modName.span σ₁ else
         match Fs.fileRead σ₁.world.fs path with
         | none => rtErr "module file does not exist" modName.span σ₁
         | some src =>
           let lexed := lex cfg.lex src
           if !lexed.errors.isEmpty then rtErr "module has lexical errors" modName.span σ₁ else
           match parse (parseFuel lexed.tokens.length) lexed.tokens with
           | .ok prog =>
             (run₁ prog (moduleState cfg σ₁ path)).bind fun σm => .ok (σm.exports, afterModule σ₁ σm)
           | .errs _ => rtErr "module has syntax errors" modName.span σ₁
           | .panic p => .panic p σ₁.out
           | .fuel => .fuel : Res (FunTable × St))
      (match cfg.modules name with
       | some table => .ok (table, σ₂)
       | none =>
         let path := joinPath (dirOf σ₂.filePath) name
         if !hasApExtension path then rtErr "std module not found" (0, 0) σ₂ else
         match Fs.fileRead σ₂.world.fs path with
         | none => rtErr "module file does not exist" (0, 0) σ₂
         | some src =>
           let lexed := lex cfg.lex src
           if !lexed.errors.isEmpty then rtErr "module has lexical errors" (0, 0) σ₂ else
           match parse (parseFuel lexed.tokens.length) lexed.tokens with
           | .ok prog =>
             (run₂ prog (moduleState cfg σ₂ path)).bind fun σm => .ok (σm.exports, afterModule σ₂ σm)
           | .errs _ => rtErr "module has syntax errors" (0, 0) σ₂
           | .panic p => .panic p σ₂.out
           | .fuel => .fuel : Res (FunTable × St)) := by
    cases cfg.modules name with
    | some table => exact RSim.ok ⟨rfl, h⟩
    | none =>
      simp only [h.filePath, h.world]
      split
      · exact RSim.rtErr h
      · split
        · exact RSim.rtErr h
        · split
          · exact RSim.rtErr h
          · split
            · apply RSim.bind (hrun _ _ _ (moduleState_sim cfg h _))
              intro m₁ m₂ hm
              exact RSim.ok ⟨hm.exports, afterModule_sim h hm⟩
            · exact RSim.rtErr h
            · exact RSim.panicS h
            · exact RSim.fuel
  apply RSim.bind hload
  rintro ⟨mod₁, τ₁⟩ ⟨mod₂, τ₂⟩ ⟨hmod, hτ⟩
  have htrim : RSim TabSim
      (match only with
       | some names => trimModule names mod₁ [] τ₁
       | none => .ok mod₁ : Res FunTable)
      (match only.map (List.map Token.norm) with
       | some names => trimModule names mod₂ [] τ₂
       | none => .ok mod₂ : Res FunTable) := by
    cases only with
    | none => exact RSim.ok hmod
    | some names => exact trimModule_sim hτ names mod₁ mod₂ [] [] hmod rfl
  apply RSim.bind htrim
  intro r₁ r₂ hr
  apply RSim.ok
  exact ⟨hτ.heap, hτ.scopes, by simp only [FunTable.norm_extend, hτ.procs, show FunTable.norm r₂ = FunTable.norm r₁ from hr],
    hτ.exports, hτ.ret, hτ.loops, hτ.out, hτ.world, hτ.filePath, hτ.budget⟩

/-! ## expressions -/

theorem procSim_cases {p₁ p₂ : Proc} (hp : p₂.norm = p₁.norm) :
    (∃ n, p₁ = .native n ∧ p₂ = .native n) ∨
    (∃ ps b₁ b₂, p₁ = .user ps b₁ ∧ p₂ = .user ps b₂ ∧ b₁.norm = b₂.norm) := by
  cases p₁ <;> cases p₂ <;> simp only [Proc.norm, Proc.user.injEq, Proc.native.injEq, reduceCtorEq] at hp
  · exact Or.inr ⟨_, _, _, by rw [hp.1], rfl, hp.2.symm⟩
  · exact Or.inl ⟨_, by rw [hp], rfl⟩

section step
variable {cfg : Cfg} {f : Nat} (ih : EvSim cfg f)
include ih

/-- the call of a looked-up procedure, after the arguments are evaluated -/
theorem call_sim (name : Str) (vs : List Value) (sp₁ sp₂ : List Span) (hl : sp₁.length = sp₂.length)
    (tok₁ lp₁ rp₁ tok₂ lp₂ rp₂ : Token) {σ₁ σ₂ : St} (h : StSim σ₁ σ₂) :
    VSim
      (match σ₁.procs.find? name with
        | none => rtErr "Invalid PROCEDURE" tok₁.span σ₁
        | some (.native n) =>
          if n.arity != vs.length then rtErr "Incorrect Number Of Args" (interior lp₁ rp₁) σ₁
          else callNative cfg.chars n vs sp₁ σ₁
        | some (.user params body) =>
          if params.length != vs.length then rtErr "Incorrect Number Of Args" (interior lp₁ rp₁) σ₁ else
          (stmt cfg f body { σ₁ with scopes := bindParams params vs [] :: σ₁.scopes, ret := none }).bind fun σ =>
          match σ.scopes with
          | [] => .panic "env.scrape" σ.out
          | _ :: rest => .ok (σ.ret.getD .null, { σ with ret := σ₁.ret, scopes := rest }))
      (match σ₂.procs.find? name with
        | none => rtErr "Invalid PROCEDURE" tok₂.span σ₂
        | some (.native n) =>
          if n.arity != vs.length then rtErr "Incorrect Number Of Args" (interior lp₂ rp₂) σ₂
          else callNative cfg.chars n vs sp₂ σ₂
        | some (.user params body) =>
          if params.length != vs.length then rtErr "Incorrect Number Of Args" (interior lp₂ rp₂) σ₂ else
          (stmt cfg f body { σ₂ with scopes := bindParams params vs [] :: σ₂.scopes, ret := none }).bind fun σ =>
          match σ.scopes with
          | [] => .panic "env.scrape" σ.out
          | _ :: rest => .ok (σ.ret.getD .null, { σ with ret := σ₂.ret, scopes := rest })) := by
  rcases tabSim_find (m₁ := σ₁.procs) (m₂ := σ₂.procs) h.procs name with ⟨e1, e2⟩ | ⟨p₁, p₂, e1, e2, hp⟩
  · simp only [e1, e2]; exact RSim.rtErr h
  · simp only [e1, e2]
    rcases procSim_cases hp with ⟨n, rfl, rfl⟩ | ⟨ps, b₁, b₂, rfl, rfl, hb⟩
    · dsimp only
      by_cases ha : (n.arity != vs.length) = true
      · simp only [ha, if_true]; exact RSim.rtErr h
      · simp only [ha, Bool.false_eq_true, if_false]
        have : vs.length = n.arity := by
          simp only [bne_iff_ne, ne_eq, Decidable.not_not] at ha; exact ha.symm
        exact callNative_sim h cfg.chars n vs sp₁ sp₂ this hl
    · dsimp only
      by_cases ha : (ps.length != vs.length) = true
      · simp only [ha, if_true]; exact RSim.rtErr h
      · simp only [ha, Bool.false_eq_true, if_false]
        have hst : StSim ({ σ₁ with scopes := bindParams ps vs [] :: σ₁.scopes, ret := none } : St)
            ({ σ₂ with scopes := bindParams ps vs [] :: σ₂.scopes, ret := none } : St) :=
          ⟨h.heap, by simp only [h.scopes], h.procs, h.exports, rfl, h.loops, h.out, h.world, h.filePath, h.budget⟩
        apply RSim.bind (ih.stmt2 hb hst)
        intro τ₁ τ₂ hτ
        simp only [hτ.scopes, hτ.out, hτ.ret]
        split
        · exact RSim.panic rfl
        · exact RSim.ok ⟨rfl, ⟨hτ.heap, rfl, hτ.procs, hτ.exports, h.ret, hτ.loops, rfl, hτ.world, hτ.filePath,
            hτ.budget⟩⟩

theorem exprs_sim_step (es : List Expr) {σ₁ σ₂ : St} (h : StSim σ₁ σ₂) :
    VSim (exprs cfg (f+1) es σ₁) (exprs cfg (f+1) (Expr.normL es) σ₂) := by
  cases es with
  | nil => simp only [Expr.normL, exprs]; exact RSim.okP h
  | cons e es =>
    simp only [Expr.normL, exprs]
    apply RSim.bindP (ih.expr e _ _ h); intro v τ₁ τ₂ h1
    apply RSim.bindP (ih.exprs es _ _ h1); intro vs υ₁ υ₂ h2
    exact RSim.okP h2

theorem expr_sim_step (e : Expr) {σ₁ σ₂ : St} (h : StSim σ₁ σ₂) :
    VSim (expr cfg (f+1) e σ₁) (expr cfg (f+1) e.norm σ₂) := by
  cases e with
  | grouping e lp rp => simp only [Expr.norm, expr]; exact ih.expr e _ _ h
  | lit v tok => simp only [Expr.norm, expr]; exact RSim.okP h
  | binary l op r tok =>
    simp only [Expr.norm, expr]
    apply RSim.bindP (ih.expr l _ _ h); intro a τ₁ τ₂ h1
    apply RSim.bindP (ih.expr r _ _ h1); intro b υ₁ υ₂ h2
    exact h2.binop op _ _ a b
  | unary op r tok =>
    simp only [Expr.norm, expr]
    apply RSim.bindP (ih.expr r _ _ h); intro v τ₁ τ₂ h1
    exact h1.unop op _ _ v
  | access l lt k lb rb =>
    simp only [Expr.norm, expr]
    apply RSim.bindP (ih.expr l _ _ h); intro lv τ₁ τ₂ h1
    apply RSim.bindP (ih.expr k _ _ h1); intro kv υ₁ υ₂ h2
    exact h2.indexRead lv kv _ _ _ _ _ _
  | list items lb rb =>
    simp only [Expr.norm, expr]
    apply RSim.bindP (ih.exprs items _ _ h); intro vs τ₁ τ₂ h1
    exact RSim.ok (h1.mkList vs)
  | var name tok =>
    simp only [Expr.norm, expr, h.lookupVar]
    split
    · exact RSim.okP h
    · exact RSim.rtErr h
  | assign name nt value arrow =>
    simp only [Expr.norm, expr]
    apply RSim.bindP (ih.expr value _ _ h); intro v τ₁ τ₂ h1
    exact h1.assignVar name v
  | set l lt idx lb rb value arrow =>
    simp only [Expr.norm, expr]
    apply RSim.bindP (ih.expr l _ _ h); intro lv τ₁ τ₂ h1
    apply RSim.bindP (ih.expr idx _ _ h1); intro kv υ₁ υ₂ h2
    apply RSim.bindP (ih.expr value _ _ h2); intro v φ₁ φ₂ h3
    exact h3.indexWrite lv kv v _ _ _ _ _ _
  | logical l op r tok =>
    simp only [Expr.norm, expr]
    apply RSim.bindP (ih.expr l _ _ h); intro a τ₁ τ₂ h1
    cases op <;> dsimp only <;> split <;> first | exact RSim.okP h1 | exact ih.expr r _ _ h1
  | call name args spans tok lp rp =>
    simp only [Expr.norm, expr]
    apply RSim.bindP (ih.exprs args _ _ h); intro vs τ₁ τ₂ h1
    exact call_sim ih name vs spans (zeroSpans spans) (by simp) tok lp rp tok.norm lp.norm rp.norm h1

theorem block_sim_step (ss : List Stmt) {σ₁ σ₂ : St} (h : StSim σ₁ σ₂) :
    SSim (block cfg (f+1) ss σ₁) (block cfg (f+1) (Stmt.normL ss) σ₂) := by
  cases ss with
  | nil => simp only [Stmt.normL, block]; exact RSim.ok h
  | cons s ss =>
    simp only [Stmt.normL, block, h.pending]
    by_cases hp : pending σ₁ = true
    · simp only [hp, if_true]; exact RSim.ok h
    · simp only [hp, Bool.false_eq_true, if_false]
      apply RSim.bind (ih.stmt s _ _ h); intro τ₁ τ₂ h1
      exact ih.block ss _ _ h1

theorem program_sim_step (ss : List Stmt) {σ₁ σ₂ : St} (h : StSim σ₁ σ₂) :
    SSim (program cfg (f+1) ss σ₁) (program cfg (f+1) (Stmt.normL ss) σ₂) := by
  cases ss with
  | nil => simp only [Stmt.normL, program]; exact RSim.ok h
  | cons s ss =>
    simp only [Stmt.normL, program]
    apply RSim.bind (ih.stmt s _ _ h); intro τ₁ τ₂ h1
    exact ih.program ss _ _ h1

theorem repeatLoop_sim_step (k : Nat) (body : Stmt) {σ₁ σ₂ : St} (h : StSim σ₁ σ₂) :
    SSim (repeatLoop cfg (f+1) k body σ₁) (repeatLoop cfg (f+1) k body.norm σ₂) := by
  cases k with
  | zero => simp only [repeatLoop]; exact RSim.ok h
  | succ k =>
    simp only [repeatLoop]
    apply RSim.bind (ih.stmt body _ _ h); intro τ₁ τ₂ h1
    apply RSim.bindP (h1.afterBody false); intro nxt υ₁ υ₂ h2
    cases nxt
    · exact ih.repeatLoop k body _ _ h2
    · exact RSim.ok h2

theorem untilLoop_sim_step (c : Expr) (body : Stmt) {σ₁ σ₂ : St} (h : StSim σ₁ σ₂) :
    SSim (untilLoop cfg (f+1) c body σ₁) (untilLoop cfg (f+1) c.norm body.norm σ₂) := by
  simp only [untilLoop]
  apply RSim.bindP (ih.expr c _ _ h); intro v τ₁ τ₂ h1
  by_cases hv : truthy v = true
  · simp only [hv, if_true]; exact RSim.ok h1
  · simp only [hv, Bool.false_eq_true, if_false]
    apply RSim.bind (ih.stmt body _ _ h1); intro υ₁ υ₂ h2
    apply RSim.bindP (h2.afterBody true); intro nxt φ₁ φ₂ h3
    cases nxt
    · exact ih.untilLoop c body _ _ h3
    · exact RSim.ok h3

theorem forLoop_sim_step (item : Str) (a i len : Nat) (body : Stmt) {σ₁ σ₂ : St} (h : StSim σ₁ σ₂) :
    SSim (forLoop cfg (f+1) item a i len body σ₁) (forLoop cfg (f+1) item a i len body.norm σ₂) := by
  simp only [forLoop, h.getList]
  by_cases hi : i ≥ len
  · simp only [hi, if_true]; exact RSim.ok h
  · simp only [hi, if_false]
    cases hg : (getList σ₁ a).bind (fun vs => vs[i]?) with
    | none => exact RSim.ok h
    | some v =>
      dsimp only
      apply RSim.bind (h.define item v); intro τ₁ τ₂ h1
      apply RSim.bind (ih.stmt body _ _ h1); intro υ₁ υ₂ h2
      apply RSim.bindP h2.forAfter; intro nxt φ₁ φ₂ h3
      cases nxt
      · exact RSim.ok h3
      · exact ih.forLoop item a (i+1) len body _ _ h3
      · apply RSim.bindP (h3.removeVar item); intro cur ψ₁ ψ₂ h4
        exact ih.forLoop item a (i+1) len body _ _ (h4.writeBack a i cur)

omit ih in
/-- wrapping a loop: run with a fresh control record, then pop it -/
theorem popLoop_bind {r₁ r₂ : Res St} (h : SSim r₁ r₂) : SSim (r₁.bind popLoop) (r₂.bind popLoop) :=
  RSim.bind h (fun _ _ hs => hs.popLoop)

theorem stmt_sim_step (s : Stmt) {σ₁ σ₂ : St} (h0 : StSim σ₁ σ₂) :
    SSim (stmt cfg (f+1) s σ₁) (stmt cfg (f+1) s.norm σ₂) := by
  simp only [stmt]
  cases ht : tick σ₁ with
  | none => rw [h0.tick_none ht]; trivial
  | some τ₁ =>
    obtain ⟨τ₂, ht2, h⟩ := h0.tick_some ht
    rw [ht2]
    cases s with
    | expr e =>
      simp only [Stmt.norm]
      apply RSim.bindP (ih.expr e _ _ h); intro v υ₁ υ₂ h1
      exact RSim.ok h1
    | ifs c t e it et =>
      simp only [Stmt.norm]
      apply RSim.bindP (ih.expr c _ _ h); intro v υ₁ υ₂ h1
      by_cases hv : truthy v = true
      · simp only [hv, if_true]; exact ih.stmt t _ _ h1
      · simp only [hv, Bool.false_eq_true, if_false]
        cases e with
        | none => exact RSim.ok h1
        | some e => exact ih.stmt e _ _ h1
    | repeatTimes count body rt tt ct =>
      simp only [Stmt.norm]
      apply RSim.bindP (ih.expr count _ _ h); intro v υ₁ υ₂ h1
      cases v with
      | num n => exact popLoop_bind (ih.repeatLoop (countOf n) body _ _ (by stsim h1))
      | null => exact RSim.rtErr h1
      | bool b => exact RSim.rtErr h1
      | str x => exact RSim.rtErr h1
      | list a => exact RSim.rtErr h1
      | obj a => exact RSim.rtErr h1
    | repeatUntil cond body rt ut =>
      simp only [Stmt.norm]
      exact popLoop_bind (ih.untilLoop cond body _ _ (by stsim h))
    | forEach item itemTok list body ft et int lt =>
      simp only [Stmt.norm]
      apply RSim.bindP (ih.expr list _ _ h); intro v υ₁ υ₂ h1
      have hsrc : VSim
          (match v with
           | .list a => .ok (a, υ₁)
           | .str s => .ok ((allocCell υ₁ (.list ((StrOps.charsToStrs s).map Value.str))).1,
               (allocCell υ₁ (.list ((StrOps.charsToStrs s).map Value.str))).2)
           | _ => rtErr "Invalid Iterator" lt.span υ₁ : Res (Nat × St))
          (match v with
           | .list a => .ok (a, υ₂)
           | .str s => .ok ((allocCell υ₂ (.list ((StrOps.charsToStrs s).map Value.str))).1,
               (allocCell υ₂ (.list ((StrOps.charsToStrs s).map Value.str))).2)
           | _ => rtErr "Invalid Iterator" lt.norm.span υ₂ : Res (Nat × St)) := by
        cases v with
        | list a => exact RSim.okP h1
        | str x => exact RSim.ok ⟨(h1.allocCell_fst _).symm, h1.allocCell _⟩
        | null => exact RSim.rtErr h1
        | bool b => exact RSim.rtErr h1
        | num n => exact RSim.rtErr h1
        | obj a => exact RSim.rtErr h1
      apply RSim.bindP hsrc; intro a φ₁ φ₂ h2
      apply RSim.bindP (h2.removeVar item); intro cached ψ₁ ψ₂ h3
      have hlen : QSim
          (match getList ψ₁ a with
           | some vs => .ok vs.length
           | none => .panic "dangling list" ψ₁.out : Res Nat)
          (match getList ψ₂ a with
           | some vs => .ok vs.length
           | none => .panic "dangling list" ψ₂.out : Res Nat) := by
        rw [h3.getList]
        cases getList ψ₁ a with
        | some vs => exact RSim.ok rfl
        | none => exact RSim.panicS h3
      apply RSim.bindQ hlen; intro len
      apply RSim.bind (ih.forLoop item a 0 len body _ _ (by stsim h3)); intro χ₁ χ₂ h4
      apply RSim.bind h4.popLoop; intro ω₁ ω₂ h5
      cases cached with
      | some v => exact h5.define item v
      | none => exact RSim.ok h5
    | procDecl name params body exported pt nt =>
      simp only [Stmt.norm, List.map_map]
      apply RSim.ok
      have hp : Proc.norm (Proc.user (List.map ((fun p : Str × Token => p.1) ∘ fun p => (p.1, p.2.norm)) params) body.norm) =
          Proc.norm (Proc.user (List.map (fun p : Str × Token => p.1) params) body) := by
        simp only [Proc.norm, Stmt.norm_norm, Function.comp_def]
      refine ⟨h.heap, h.scopes, ?_, ?_, h.ret, h.loops, h.out, h.world, h.filePath, h.budget⟩
      · simp only [FunTable.norm_insert, h.procs, hp]
      · cases exported
        · exact h.exports
        · simp only [if_true, FunTable.norm_insert, h.exports, hp]
    | ret tok value =>
      simp only [Stmt.norm]
      cases value with
      | none => exact RSim.ok (h.withRet _)
      | some e =>
        simp only [Option.map_some]
        apply RSim.bindP (ih.expr e _ _ h); intro v υ₁ υ₂ h1
        exact RSim.ok (h1.withRet _)
    | cont tok =>
      simp only [Stmt.norm, h.loops, h.out]
      split
      · exact RSim.panic rfl
      · apply RSim.ok; stsim h
    | brk tok =>
      simp only [Stmt.norm, h.loops, h.out]
      split
      · exact RSim.panic rfl
      · apply RSim.ok; stsim h
    | block lb stmts rb =>
      simp only [Stmt.norm]
      apply RSim.bind h.createNested; intro υ₁ υ₂ h1
      apply RSim.bind (ih.block stmts _ _ h1); intro φ₁ φ₂ h2
      exact h2.flattenNested
    | import_ it mt ft only mn =>
      simp only [Stmt.norm]
      exact importStmt_sim cfg (fun prog σm => program cfg f prog σm) (fun prog σm => program cfg f prog σm)
        (fun prog a b hab => ih.program2 (p₁ := prog) (p₂ := prog) rfl hab) only mn h

end step

/-- **the evaluator does not look at positions**: at every fuel, a tree and its erasure, run from similar states,
give similar results -/
theorem evSim (cfg : Cfg) : ∀ f, EvSim cfg f
  | 0 => evSim_zero cfg
  | f+1 =>
    have ih := evSim cfg f
    { expr := fun e _ _ h => expr_sim_step ih e h
      exprs := fun es _ _ h => exprs_sim_step ih es h
      stmt := fun s _ _ h => stmt_sim_step ih s h
      block := fun ss _ _ h => block_sim_step ih ss h
      repeatLoop := fun k b _ _ h => repeatLoop_sim_step ih k b h
      untilLoop := fun c b _ _ h => untilLoop_sim_step ih c b h
      forLoop := fun item a i len b _ _ h => forLoop_sim_step ih item a i len b h
      program := fun ss _ _ h => program_sim_step ih ss h }

/-- two programs that agree up to erasure, run from similar states, give similar results -/
theorem program_sim (cfg : Cfg) (f : Nat) {p₁ p₂ : List Stmt} (hp : p₁.map Stmt.norm = p₂.map Stmt.norm)
    {σ₁ σ₂ : St} (h : StSim σ₁ σ₂) : SSim (program cfg f p₁ σ₁) (program cfg f p₂ σ₂) :=
  (evSim cfg f).program2 (by rw [Stmt.normL_eq_map, Stmt.normL_eq_map, hp]) h

end Aplang
