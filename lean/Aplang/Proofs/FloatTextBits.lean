import Aplang.Proofs.FloatTextDefs
import Aplang.Proofs.FloatIndex
import Aplang.Proofs.FloatEq
/-!
# Number ↔ text: the bit fields of `F64.fmtBits` and `Float.Model.unpack`
-/
namespace Aplang.FloatText
open Float.Model Float.Model.UnpackedFloat

/-- sign of a bit pattern as a `Sign` -/
def sgn (b : UInt64) : Sign := if F64.signBit b then .negative else .positive

/-! ## the fields as arithmetic on `toNat` -/

theorem ftb_expField_nat (b : UInt64) : F64.expField b = b.toNat / 2 ^ 52 % 2 ^ 11 := by
  unfold F64.expField
  rw [UInt64.toNat_and, UInt64.toNat_shiftRight]
  have h1 : (0x7FF : UInt64).toNat = 2 ^ 11 - 1 := by decide
  have h2 : (52 : UInt64).toNat % 64 = 52 := by decide
  rw [h1, h2, Nat.and_two_pow_sub_one_eq_mod, Nat.shiftRight_eq_div_pow]

theorem ftb_fracField_nat (b : UInt64) : F64.fracField b = b.toNat % 2 ^ 52 := by
  unfold F64.fracField
  rw [UInt64.toNat_and]
  have h1 : (0xFFFFFFFFFFFFF : UInt64).toNat = 2 ^ 52 - 1 := by decide
  rw [h1, Nat.and_two_pow_sub_one_eq_mod]

theorem ftb_abs_nat (b : UInt64) : (b &&& F64.absMask).toNat = b.toNat % 2 ^ 63 := by
  rw [UInt64.toNat_and]
  have h1 : F64.absMask.toNat = 2 ^ 63 - 1 := by decide
  rw [h1, Nat.and_two_pow_sub_one_eq_mod]

theorem ftb_signBit_nat (b : UInt64) : F64.signBit b = decide (2 ^ 63 ≤ b.toNat) := by
  unfold F64.signBit
  have hlt := b.toNat_lt
  have h : (b >>> 63).toNat = b.toNat / 2 ^ 63 := by
    rw [UInt64.toNat_shiftRight]
    have h2 : (63 : UInt64).toNat % 64 = 63 := by decide
    rw [h2, Nat.shiftRight_eq_div_pow]
  by_cases hc : 2 ^ 63 ≤ b.toNat
  · have : b >>> 63 = 1 := by
      apply UInt64.toNat_inj.1
      rw [h]; show _ = 1; omega
    simp [this, hc]
  · have : b >>> 63 ≠ 1 := by
      intro he
      have := congrArg UInt64.toNat he
      rw [h] at this
      have h1 : (1 : UInt64).toNat = 1 := by decide
      omega
    simp [this, hc]

theorem ftb_mant_toNat (b : BitVec 64) :
    (unpackMantissa (spec := Format.binary64) b).toNat = b.toNat % 2 ^ 52 := by
  unfold unpackMantissa
  simp [BitVec.extractLsb, Nat.shiftRight_eq_div_pow]

theorem ftb_exp_toNat (b : BitVec 64) :
    (unpackExponent (spec := Format.binary64) b).toNat = b.toNat / 2 ^ 52 % 2 ^ 11 := by
  unfold unpackExponent
  simp [BitVec.extractLsb, Nat.shiftRight_eq_div_pow]

theorem ftb_sign_toNat (b : BitVec 64) :
    (unpackSign (spec := Format.binary64) b).toNat = b.toNat / 2 ^ 63 := by
  have hlt : b.toNat < 2 ^ 64 := b.isLt
  unfold unpackSign
  simp [BitVec.extractLsb, Nat.shiftRight_eq_div_pow]
  omega

/-- fields of the magnitude bits are the fields of the bits -/
theorem expField_abs (b : UInt64) : F64.expField (b &&& F64.absMask) = F64.expField b := by
  rw [ftb_expField_nat, ftb_expField_nat, ftb_abs_nat]; omega

theorem fracField_abs (b : UInt64) : F64.fracField (b &&& F64.absMask) = F64.fracField b := by
  rw [ftb_fracField_nat, ftb_fracField_nat, ftb_abs_nat]; omega

theorem ftb_decompose_abs (b : UInt64) : F64.decompose (b &&& F64.absMask) = F64.decompose b := by
  unfold F64.decompose
  rw [expField_abs, fracField_abs]

theorem ftb_decompose_zero (b : UInt64) (h : F64.expField b = 0) :
    F64.decompose b = (F64.fracField b, -1074) := by
  simp [F64.decompose, h]

theorem ftb_decompose_pos (b : UInt64) (h : F64.expField b ≠ 0) :
    F64.decompose b = (F64.fracField b + 2 ^ 52, (F64.expField b : Int) - 1075) := by
  simp [F64.decompose, h]

theorem ftb_fracField_lt (b : UInt64) : F64.fracField b < 2 ^ 52 := by
  rw [ftb_fracField_nat]; exact Nat.mod_lt _ (by decide)

theorem ftb_expField_lt (b : UInt64) : F64.expField b < 2048 := by
  rw [ftb_expField_nat]; exact Nat.mod_lt _ (by decide)

/-- `b.toNat = sign·2^63 + exp·2^52 + frac` -/
theorem ftb_toNat_fields (b : UInt64) :
    b.toNat = (if F64.signBit b then 2 ^ 63 else 0) + F64.expField b * 2 ^ 52 + F64.fracField b := by
  have hlt := b.toNat_lt
  rw [ftb_signBit_nat, ftb_expField_nat, ftb_fracField_nat]
  by_cases hc : 2 ^ 63 ≤ b.toNat
  · simp only [hc, decide_true, if_true]; omega
  · simp only [hc, decide_false]; simp only [Bool.false_eq_true, if_false]; omega

/-! ## `unpack` through the fields -/

theorem ftb_finite_ext (s s' : Sign) (m m' : Nat) (e e' : Int) (h' : 0 < m') (hs : s' = s) (hm : m' = m)
    (he : e' = e) : ∃ h, UnpackedFloat.finite s' m' e' h' = .finite s m e h := by
  subst hs hm he; exact ⟨h', rfl⟩

theorem ftb_sign_eq (u : UInt64) :
    Sign.ofBitVec (unpackSign (spec := Format.binary64) u.toBitVec) = sgn u := by
  have hlt := u.toNat_lt
  have hs := ftb_sign_toNat u.toBitVec
  rw [UInt64.toNat_toBitVec] at hs
  unfold sgn Sign.ofBitVec
  rw [ftb_signBit_nat]
  by_cases hc : 2 ^ 63 ≤ u.toNat
  · have : unpackSign (spec := Format.binary64) u.toBitVec ≠ 0#1 := by
      intro h0; rw [h0] at hs; simp at hs; omega
    simp [this, hc]
  · have : unpackSign (spec := Format.binary64) u.toBitVec = 0#1 := by
      apply BitVec.eq_of_toNat_eq; rw [hs]; simp; omega
    simp [this, hc]

theorem ftb_exp_eq_iff (b : BitVec 64) (k : Nat) (hk : k < 2 ^ 11) :
    unpackExponent (spec := Format.binary64) b = BitVec.ofNat 11 k ↔ b.toNat / 2 ^ 52 % 2 ^ 11 = k := by
  rw [← ftb_exp_toNat]
  constructor
  · intro h; rw [h, BitVec.toNat_ofNat]; exact Nat.mod_eq_of_lt hk
  · intro h; apply BitVec.eq_of_toNat_eq; rw [h, BitVec.toNat_ofNat]; exact (Nat.mod_eq_of_lt hk).symm

theorem ftb_exp_allOnes_iff (b : BitVec 64) :
    unpackExponent (spec := Format.binary64) b = -1#11 ↔ b.toNat / 2 ^ 52 % 2 ^ 11 = 2047 := by
  have : (-1#11 : BitVec 11) = BitVec.ofNat 11 2047 := by decide
  rw [this]; exact ftb_exp_eq_iff b 2047 (by decide)

theorem ftb_exp_zero_iff (b : BitVec 64) :
    unpackExponent (spec := Format.binary64) b = 0#11 ↔ b.toNat / 2 ^ 52 % 2 ^ 11 = 0 :=
  ftb_exp_eq_iff b 0 (by decide)

theorem ftb_mant_zero_iff (b : BitVec 64) :
    unpackMantissa (spec := Format.binary64) b = 0#52 ↔ b.toNat % 2 ^ 52 = 0 := by
  rw [← ftb_mant_toNat]
  constructor
  · intro h; rw [h]; rfl
  · intro h; apply BitVec.eq_of_toNat_eq; rw [h]; rfl

/-- subnormal patterns -/
theorem ftb_unpack_sub (b : BitVec 64) (he : b.toNat / 2 ^ 52 % 2 ^ 11 = 0) (hz : b.toNat % 2 ^ 52 ≠ 0) :
    ∃ h, UnpackedFloat.unpack Format.binary64 b =
      .finite (Sign.ofBitVec (unpackSign (spec := Format.binary64) b)) (b.toNat % 2 ^ 52) (-1074) h := by
  have hE := (ftb_exp_zero_iff b).2 he
  have hE1 : ¬ unpackExponent (spec := Format.binary64) b = -1#11 := by
    rw [ftb_exp_allOnes_iff]; omega
  have hM : ¬ unpackMantissa (spec := Format.binary64) b = 0#52 := by
    rw [ftb_mant_zero_iff]; exact hz
  unfold UnpackedFloat.unpack
  simp only []
  split
  · contradiction
  · apply ftb_finite_ext
    · rfl
    · exact ftb_mant_toNat b
    · rw [hE]; simp only [Format.exponentBias]; decide

/-- normal patterns -/
theorem ftb_unpack_norm (b : BitVec 64) (he0 : b.toNat / 2 ^ 52 % 2 ^ 11 ≠ 0)
    (he1 : b.toNat / 2 ^ 52 % 2 ^ 11 ≠ 2047) :
    ∃ h, UnpackedFloat.unpack Format.binary64 b =
      .finite (Sign.ofBitVec (unpackSign (spec := Format.binary64) b)) (b.toNat % 2 ^ 52 + 2 ^ 52)
        ((b.toNat / 2 ^ 52 % 2 ^ 11 : Nat) - 1075) h := by
  have hE0 : ¬ unpackExponent (spec := Format.binary64) b = 0#11 := by
    rw [ftb_exp_zero_iff]; exact he0
  have hE1 : ¬ unpackExponent (spec := Format.binary64) b = -1#11 := by
    rw [ftb_exp_allOnes_iff]; exact he1
  unfold UnpackedFloat.unpack
  simp only []
  split
  · contradiction
  · apply ftb_finite_ext
    · rfl
    · rw [FloatEq.one_append_toNat, ftb_mant_toNat]; omega
    · rw [ftb_exp_toNat]; simp only [Format.exponentBias]; omega

/-- finite non-zero: `decompose` of the magnitude bits is the canonical mantissa/exponent, and it is what
`unpack` gives -/
theorem unpack_finite (x : Float) (he : F64.expField x.toBits ≠ 0x7FF) (hz : x.toBits &&& F64.absMask ≠ 0) :
    Canon (F64.decompose (x.toBits &&& F64.absMask)).1 (F64.decompose (x.toBits &&& F64.absMask)).2 ∧
    ∃ h, x.toModel.unpack = .finite (sgn x.toBits)
        (F64.decompose (x.toBits &&& F64.absMask)).1 (F64.decompose (x.toBits &&& F64.absMask)).2 h := by
  rw [ftb_decompose_abs]
  have hlt := x.toBits.toNat_lt
  have hz' : x.toBits.toNat % 2 ^ 63 ≠ 0 := by
    intro h0; apply hz; apply UInt64.toNat_inj.1; rw [ftb_abs_nat, h0]; rfl
  have hfl := ftb_fracField_lt x.toBits
  have hel := ftb_expField_lt x.toBits
  have hen := ftb_expField_nat x.toBits
  have hfn := ftb_fracField_nat x.toBits
  show _ ∧ ∃ h, UnpackedFloat.unpack Format.binary64 x.toModel.toBits.toBitVec = _
  rw [← ftb_sign_eq]
  by_cases h0 : F64.expField x.toBits = 0
  · rw [ftb_decompose_zero _ h0]
    have hfr : F64.fracField x.toBits ≠ 0 := by omega
    refine ⟨⟨by omega, by omega, by omega, by omega, fun h => absurd rfl h⟩, ?_⟩
    simp only [hfn]
    exact ftb_unpack_sub _ (by rw [UInt64.toNat_toBitVec]; omega) (by rw [UInt64.toNat_toBitVec]; omega)
  · rw [ftb_decompose_pos _ h0]
    refine ⟨⟨by omega, by omega, by omega, by omega, fun _ => by omega⟩, ?_⟩
    simp only [hfn, hen]
    exact ftb_unpack_norm _ (by rw [UInt64.toNat_toBitVec]; omega) (by rw [UInt64.toNat_toBitVec]; omega)

set_option linter.unusedVariables false in
/-- the `asym` flag that `shortestGen` passes to `scale` -/
theorem asym_flag (ab : UInt64) (hz : ab ≠ 0) (he : F64.expField ab ≠ 0x7FF) :
    (F64.fracField ab == 0 && decide (F64.expField ab > 1)) =
      asymOf (F64.decompose ab).1 (F64.decompose ab).2 := by
  have hfl := ftb_fracField_lt ab
  rw [Bool.eq_iff_iff]
  by_cases h0 : F64.expField ab = 0
  · rw [ftb_decompose_zero _ h0]
    simp only [asymOf, h0]
    simp
  · rw [ftb_decompose_pos _ h0]
    simp only [asymOf]
    simp
    omega

/-! ## pack ∘ unpack -/

theorem ftb_log2_lt_52 (m : Nat) (h : 0 < m) (h2 : m < 2 ^ 52) : m.log2 < 52 :=
  (Nat.log2_lt (by omega)).mpr h2

/-- subnormal round trip -/
theorem ftb_unpack_pack_sub (s : Sign) (m : Nat) (h : 0 < m) (h2 : m < 2 ^ 52) :
    UnpackedFloat.unpack Format.binary64 (UnpackedFloat.pack Format.binary64 (.finite s m (-1074) h)) =
      .finite s m (-1074) h := by
  have hl := ftb_log2_lt_52 m h h2
  unfold UnpackedFloat.pack
  simp only [Format.exponentBias, Format.mantissaBits]
  have c1 : ¬ (2 ^ 11 ≤ ((-1074 : Int) + ((2 ^ (11 - 1) - 1 : Nat) : Int) + ((52 : Nat) : Int)).toNat + 1) := by
    decide
  have c2 : ¬ (m.log2 + 1 = 1 + 52) := by omega
  simp only [c1, c2, if_false]
  unfold UnpackedFloat.unpack
  simp only [unpackMantissa_packComponents, unpackExponent_packComponents,
    FloatIndex.unpackSign_packComponents, FloatIndex.sign_ofBitVec_toBitVec]
  have hn : (BitVec.ofNat 52 m).toNat = m := by
    rw [BitVec.toNat_ofNat]; exact Nat.mod_eq_of_lt h2
  have d1 : ¬ ((0#11 : BitVec 11) = -1#11) := by decide
  have d2 : ¬ (BitVec.ofNat 52 m = 0#52) := by
    intro hc; have := congrArg BitVec.toNat hc; rw [hn] at this; simp at this; omega
  simp only [d1, d2, if_false, if_true, dite_false, hn, Format.exponentBias]
  congr 1

/-- pack ∘ unpack on canonical finite forms (extends `FloatIndex.unpack_pack_normal` to subnormals) -/
theorem unpack_pack_canon (s : Sign) (m : Nat) (e : Int) (h : 0 < m) (hc : Canon m e) :
    UnpackedFloat.unpack Format.binary64 (UnpackedFloat.pack Format.binary64 (.finite s m e h)) =
      .finite s m e h := by
  by_cases hn : 2 ^ 52 ≤ m
  · exact FloatIndex.unpack_pack_normal s m e h hn hc.lt hc.elo hc.ehi
  · have he : e = -1074 := by
      apply Classical.byContradiction; intro hne; exact hn (hc.norm hne)
    subst he
    exact ftb_unpack_pack_sub s m h (by omega)

/-! ## floats and their bits -/

theorem ftb_float_ext (x y : Float) (h : x.toBits = y.toBits) : x = y := by
  cases x with
  | ofModel a =>
    cases y with
    | ofModel b =>
      cases a; cases b
      simp only [Float.toBits] at h
      subst h; rfl

theorem ftb_toBits_pack (F : UnpackedFloat) :
    (Float.ofModel (Float.Model.pack F)).toBits.toBitVec = UnpackedFloat.pack Format.binary64 F := rfl

/-- a float is determined by a canonical finite unpacked form -/
theorem float_eq_of_unpack (x : Float) (s : Sign) (m : Nat) (e : Int) (h : 0 < m) (hc : Canon m e)
    (hx : x.toModel.unpack = .finite s m e h) : x = Float.ofModel (Float.Model.pack (.finite s m e h)) := by
  apply ftb_float_ext
  apply UInt64.toBitVec_inj.1
  rw [ftb_toBits_pack]
  have hx' : UnpackedFloat.unpack Format.binary64 x.toBits.toBitVec = .finite s m e h := hx
  have hu : FloatEq.UEq (UnpackedFloat.unpack Format.binary64 x.toBits.toBitVec)
      (UnpackedFloat.unpack Format.binary64 (UnpackedFloat.pack Format.binary64 (.finite s m e h))) := by
    rw [hx', unpack_pack_canon s m e h hc]; exact ⟨rfl, rfl, rfl⟩
  rcases FloatEq.unpack_inj_of_ueq _ _ hu with h1 | ⟨s1, s2, h1, _⟩
  · exact h1
  · rw [hx'] at h1; cases h1

/-- negation of a packed canonical positive float -/
theorem neg_pack (m : Nat) (e : Int) (h : 0 < m) (hc : Canon m e) :
    Float.neg (Float.ofModel (Float.Model.pack (.finite .positive m e h))) =
      Float.ofModel (Float.Model.pack (.finite .negative m e h)) := by
  show Float.ofModel (Float.Model.pack (UnpackedFloat.neg (UnpackedFloat.unpack Format.binary64
    (UnpackedFloat.pack Format.binary64 (.finite .positive m e h))))) = _
  rw [unpack_pack_canon _ m e h hc]
  rfl

/-! ## the special values by fields -/

theorem ftb_bits_of_fields (b c : UInt64) (hs : F64.signBit b = F64.signBit c)
    (he : F64.expField b = F64.expField c) (hf : F64.fracField b = F64.fracField c) : b = c := by
  apply UInt64.toNat_inj.1
  rw [ftb_toNat_fields b, ftb_toNat_fields c, hs, he, hf]

theorem float_pos_inf (x : Float) (he : F64.expField x.toBits = 0x7FF) (hf : F64.fracField x.toBits = 0)
    (hs : F64.signBit x.toBits = false) : x = F64.posInf := by
  apply ftb_float_ext
  have hb : F64.posInf.toBits = 0x7FF0000000000000 := by decide
  rw [hb]
  apply ftb_bits_of_fields
  · rw [hs]; decide
  · rw [he]; decide
  · rw [hf]; decide

theorem float_neg_inf (x : Float) (he : F64.expField x.toBits = 0x7FF) (hf : F64.fracField x.toBits = 0)
    (hs : F64.signBit x.toBits = true) : x = Float.neg F64.posInf := by
  apply ftb_float_ext
  have hb : (Float.neg F64.posInf).toBits = 0xFFF0000000000000 := by decide
  rw [hb]
  apply ftb_bits_of_fields
  · rw [hs]; decide
  · rw [he]; decide
  · rw [hf]; decide

theorem float_nan (x : Float) (he : F64.expField x.toBits = 0x7FF) (hf : F64.fracField x.toBits ≠ 0) :
    x = F64.nan := by
  apply ftb_float_ext
  apply UInt64.toBitVec_inj.1
  have hb : F64.nan.toBits.toBitVec = packedNaN Format.binary64 := by decide
  rw [hb]
  apply x.toModel.valid.eq_packedNaN
  · rw [ftb_exp_allOnes_iff, UInt64.toNat_toBitVec, ← ftb_expField_nat]; exact he
  · intro hm
    apply hf
    rw [ftb_fracField_nat]
    exact (ftb_mant_zero_iff x.toModel.toBits.toBitVec).1 hm

theorem ftb_abs_zero_fields (b : UInt64) (hz : b &&& F64.absMask = 0) :
    F64.expField b = 0 ∧ F64.fracField b = 0 := by
  have h := ftb_abs_nat b
  rw [hz] at h
  have h0 : (0 : UInt64).toNat = 0 := rfl
  rw [h0] at h
  have hlt := b.toNat_lt
  rw [ftb_expField_nat, ftb_fracField_nat]
  omega

theorem float_pos_zero (x : Float) (hz : x.toBits &&& F64.absMask = 0) (hs : F64.signBit x.toBits = false) :
    x = Float.ofBits 0 := by
  apply ftb_float_ext
  have hb : (Float.ofBits 0).toBits = 0 := by decide
  rw [hb]
  obtain ⟨he, hf⟩ := ftb_abs_zero_fields _ hz
  apply ftb_bits_of_fields
  · rw [hs]; decide
  · rw [he]; decide
  · rw [hf]; decide

theorem float_neg_zero (x : Float) (hz : x.toBits &&& F64.absMask = 0) (hs : F64.signBit x.toBits = true) :
    x = Float.neg (Float.ofBits 0) := by
  apply ftb_float_ext
  have hb : (Float.neg (Float.ofBits 0)).toBits = 0x8000000000000000 := by decide
  rw [hb]
  obtain ⟨he, hf⟩ := ftb_abs_zero_fields _ hz
  apply ftb_bits_of_fields
  · rw [hs]; decide
  · rw [he]; decide
  · rw [hf]; decide

/-! ## `smallInt?` -/

theorem ftb_mant_or (ab : UInt64) :
    ((ab &&& 0xFFFFFFFFFFFFF) ||| 0x10000000000000).toNat = F64.fracField ab + 2 ^ 52 := by
  have hfl := ftb_fracField_lt ab
  rw [UInt64.toNat_or]
  show F64.fracField ab ||| (0x10000000000000 : UInt64).toNat = _
  have h1 : (0x10000000000000 : UInt64).toNat = 1 <<< 52 := by decide
  rw [h1, Nat.or_comm, ← Nat.shiftLeft_add_eq_or_of_lt hfl 1]
  simp only [Nat.shiftLeft_eq]
  omega

theorem ftb_sh_toNat (ex : Nat) : ((1075 - ex).toUInt64).toNat = 1075 - ex := by
  show (UInt64.ofNat (1075 - ex)).toNat = _
  rw [UInt64.toNat_ofNat']
  apply Nat.mod_eq_of_lt
  have : (1075 : Nat) < 2 ^ 64 := by decide
  omega

/-- the exactness test of `smallInt?` on natural numbers -/
theorem ftb_shift_exact (mant sh : UInt64) (hm : mant.toNat < 2 ^ 53) (hs : sh.toNat ≤ 52)
    (h : (mant >>> sh) <<< sh = mant) : mant.toNat = (mant >>> sh).toNat * 2 ^ sh.toNat := by
  have hs64 : sh.toNat % 64 = sh.toNat := Nat.mod_eq_of_lt (by omega)
  have h1 := congrArg UInt64.toNat h
  rw [UInt64.toNat_shiftLeft, hs64, Nat.shiftLeft_eq] at h1
  have h2 : (mant >>> sh).toNat = mant.toNat / 2 ^ sh.toNat := by
    rw [UInt64.toNat_shiftRight, hs64, Nat.shiftRight_eq_div_pow]
  have h3 : (mant >>> sh).toNat * 2 ^ sh.toNat ≤ mant.toNat := by
    rw [h2]; exact Nat.div_mul_le_self _ _
  have h4 : (mant >>> sh).toNat * 2 ^ sh.toNat < 2 ^ 64 :=
    Nat.lt_of_le_of_lt h3 (Nat.lt_trans hm (by decide))
  rw [Nat.mod_eq_of_lt h4] at h1
  exact h1.symm

/-- `smallInt?`: the double is the integer `n` exactly -/
theorem smallInt_spec (ab : UInt64) (n : Nat) (h : F64.smallInt? ab = some n) :
    (F64.decompose ab).2 ≤ 0 ∧ (F64.decompose ab).1 = n * 2 ^ (-(F64.decompose ab).2).toNat ∧ 0 < n := by
  have hfl := ftb_fracField_lt ab
  unfold F64.smallInt? at h
  simp only [] at h
  split at h
  · rename_i hex
    simp only [Bool.and_eq_true, decide_eq_true_eq] at hex
    obtain ⟨hex1, hex2⟩ := hex
    split at h
    · rename_i hb
      have hb' := eq_of_beq hb
      simp only [Option.some.injEq] at h
      have hm := ftb_mant_or ab
      have hsh := ftb_sh_toNat (F64.expField ab)
      have key := ftb_shift_exact _ _ (by rw [hm]; omega) (by rw [hsh]; omega) hb'
      rw [h, hm, hsh] at key
      rw [ftb_decompose_pos ab (by omega)]
      have he : (-((F64.expField ab : Int) - 1075)).toNat = 1075 - F64.expField ab := by omega
      refine ⟨by simp only; omega, ?_, ?_⟩
      · simp only [he]; exact key
      · apply Nat.pos_of_ne_zero
        intro h0; rw [h0] at key; omega
    · cases h
  · cases h

end Aplang.FloatText
