import Aplang.Proofs.ParserMin
import Aplang.Proofs.ParserWF
/-!
# Minimal parenthesisation, the full expression language — part 1: printed expressions  (C05 / C09)

`Proofs/ParserMin` proves completeness of the expression parser for minimally parenthesised renderings of
literals, variables, binary / logical / unary operators and assignment to a variable. This file redoes the
development for *all* expression forms of `Model/Ast.lean`: in addition procedure calls, list literals,
indexing (postfix, chains `e[i][j]`, `f(x)[i]`), indexed assignment `e[i] <- v`, and parentheses the author
wrote although the grammar does not require them.

The development is independent of any particular syntax type: a *printed expression* `ME` is the level of
its root, its tokens without outer parentheses and its tree; the printer's rules are the combinators
`ME.binary`, `ME.call`, `ME.index`, … below. `ME.render ctx e` adds parentheses exactly when the position
`ctx` requires a tighter level than `e` has. For each combinator: if the parts satisfy `MinM` (what the
induction carries), so does the whole. `Proofs/ParserMin2Expr` instantiates this for the syntax type.

Re-used from `ParserMin` / `ParserComplete`: the rungs of the ladder, `Parses`, `down_to`, the one-round
lemmas for the binary loops. New: the `accessLoop` (postfix chain) as a fourth left-nesting loop (`AccM`),
the argument / item loops (`ArgsOK`).
-/
namespace Aplang
namespace P

theorem trigLevel_le (k : TT) : trigLevel k ≤ 9 := by cases k <;> simp [trigLevel]

/-- a printed expression: the level of its root (1 assignment … 8 unary, 9 indexing, 10 primary), its
tokens without outer parentheses, its tree -/
structure ME where
  lvl : Nat
  toks : List Token
  tree : Expr

/-- a printed, non-empty, comma-separated list of expressions: all the tokens, the trees, the commas -/
structure MArgs where
  toks : List Token
  trees : List Expr
  seps : List Token

section defs
variable (lp rp : Token)

/-- `e` at a position that admits level `ctx` and tighter: in parentheses iff it binds looser -/
def ME.render (ctx : Nat) (e : ME) : List Token := wrapToks lp rp (decide (ctx ≤ e.lvl)) e.toks
/-- the tree of `ME.render ctx e`: a `.grouping` node iff parentheses were written -/
def ME.treeAt (ctx : Nat) (e : ME) : Expr := wrapTree lp rp (decide (ctx ≤ e.lvl)) e.tree

theorem ME.render_congr {a b : Nat} {e : ME} (h : a ≤ e.lvl ↔ b ≤ e.lvl) :
    ME.render lp rp a e = ME.render lp rp b e ∧ ME.treeAt lp rp a e = ME.treeAt lp rp b e := by
  have : decide (a ≤ e.lvl) = decide (b ≤ e.lvl) := by simp [h]
  simp [ME.render, ME.treeAt, this]

theorem ME.render_raw {a : Nat} {e : ME} (h : a ≤ e.lvl) :
    ME.render lp rp a e = e.toks ∧ ME.treeAt lp rp a e = e.tree := by
  simp [ME.render, ME.treeAt, wrapToks, wrapTree, h]

theorem ME.render_paren {a : Nat} {e : ME} (h : ¬ a ≤ e.lvl) :
    ME.render lp rp a e = lp :: (e.toks ++ [rp]) ∧ ME.treeAt lp rp a e = .grouping e.tree lp rp := by
  simp [ME.render, ME.treeAt, wrapToks, wrapTree, h]

/-! ## the printer's rules -/

def ME.lit (v : LitV) (tok : Token) : ME := ⟨10, [tok], .lit v tok⟩
def ME.var (tok : Token) : ME := ⟨10, [tok], .var tok.lexeme tok⟩
/-- binary operators nest to the left: the right operand must bind strictly tighter -/
def ME.binary (l : ME) (op : BinOp) (tok : Token) (r : ME) : ME :=
  ⟨opLevel op, ME.render lp rp (opLevel op) l ++ tok :: ME.render lp rp (opLevel op + 1) r,
   .binary (ME.treeAt lp rp (opLevel op) l) op (ME.treeAt lp rp (opLevel op + 1) r) tok⟩
/-- OR nests to the left, AND to the right (as the model does) -/
def ME.logical (l : ME) (op : LogOp) (tok : Token) (r : ME) : ME :=
  ⟨logLevel op, ME.render lp rp (lctx op) l ++ tok :: ME.render lp rp 3 r,
   .logical (ME.treeAt lp rp (lctx op) l) op (ME.treeAt lp rp 3 r) tok⟩
def ME.unary (op : UnOp) (tok : Token) (r : ME) : ME :=
  ⟨8, tok :: ME.render lp rp 8 r, .unary op (ME.treeAt lp rp 8 r) tok⟩
/-- assignment nests to the right -/
def ME.assign (name arrow : Token) (v : ME) : ME :=
  ⟨1, name :: arrow :: ME.render lp rp 1 v, .assign name.lexeme name (ME.treeAt lp rp 1 v) arrow⟩
/-- parentheses the author wrote (tokens `lp'`, `rp'`), needed or not -/
def ME.paren (lp' : Token) (e : ME) (rp' : Token) : ME :=
  ⟨10, lp' :: (ME.render lp rp 1 e ++ [rp']), .grouping (ME.treeAt lp rp 1 e) lp' rp'⟩
/-- a call without arguments -/
def ME.call0 (name lp' rp' : Token) : ME := ⟨10, [name, lp', rp'], .call name.lexeme [] [] name lp' rp'⟩
/-- a call with arguments; the recorded argument spans are those between `(`, the commas and `)` -/
def ME.call (name lp' : Token) (a : MArgs) (rp' : Token) : ME :=
  ⟨10, name :: lp' :: (a.toks ++ [rp']),
   .call name.lexeme a.trees (windowSpans (lp' :: (a.seps ++ [rp']))) name lp' rp'⟩
def ME.list0 (lb rb : Token) : ME := ⟨10, [lb, rb], .list [] lb rb⟩
def ME.list (lb : Token) (a : MArgs) (rb : Token) : ME := ⟨10, lb :: (a.toks ++ [rb]), .list a.trees lb rb⟩
/-- indexing is postfix: the base is a primary or another postfix expression (level ≥ 9); the tree records
the last token of the primary the chain started from (`baseTok`) -/
def ME.index (l : ME) (lb : Token) (idx : ME) (rb : Token) : ME :=
  ⟨9, ME.render lp rp 9 l ++ lb :: (ME.render lp rp 1 idx ++ [rb]),
   .access (ME.treeAt lp rp 9 l) (baseTok (ME.treeAt lp rp 9 l)) (ME.treeAt lp rp 1 idx) lb rb⟩
/-- indexed assignment: the target is an index expression; nests to the right -/
def ME.set (l : ME) (lb : Token) (idx : ME) (rb : Token) (arrow : Token) (v : ME) : ME :=
  ⟨1, (ME.index lp rp l lb idx rb).toks ++ arrow :: ME.render lp rp 1 v,
   .set (ME.treeAt lp rp 9 l) (baseTok (ME.treeAt lp rp 9 l)) (ME.treeAt lp rp 1 idx) lb rb
     (ME.treeAt lp rp 1 v) arrow⟩

/-- arguments and list items are full expressions -/
def MArgs.one (e : ME) : MArgs := ⟨ME.render lp rp 1 e, [ME.treeAt lp rp 1 e], []⟩
def MArgs.cons (e : ME) (comma : Token) (a : MArgs) : MArgs :=
  ⟨ME.render lp rp 1 e ++ comma :: a.toks, ME.treeAt lp rp 1 e :: a.trees, comma :: a.seps⟩

/-! ## what the induction carries -/

/-- at every rung, the rendering for that rung parses to the tree for that rung -/
def AllM (e : ME) : Prop :=
  ∀ (b : Rung) s nxt r, s.after = ME.render lp rp b.n e ++ nxt :: r → trigLevel nxt.tt < b.n →
    nxt.tt ≠ .leftParen → Parses b s (ME.treeAt lp rp b.n e) (advs s (ME.render lp rp b.n e) (nxt :: r))

/-- `e` as the first operand of the operator loop of a binary level -/
def BinM (e : ME) (lvl : BinLevel) : Prop :=
  ∀ s nxt r out s', s.after = ME.render lp rp lvl.n e ++ nxt :: r → trigLevel nxt.tt ≤ lvl.n →
    nxt.tt ≠ .leftParen →
    (∃ g, binLoop g lvl (ME.treeAt lp rp lvl.n e) (advs s (ME.render lp rp lvl.n e) (nxt :: r)) = .ok out s') →
    ∃ f, binLevel f lvl s = .ok out s'

/-- `e` as the first operand of the OR loop -/
def OrM (e : ME) : Prop :=
  ∀ s nxt r out s', s.after = ME.render lp rp 2 e ++ nxt :: r → trigLevel nxt.tt ≤ 2 →
    nxt.tt ≠ .leftParen →
    (∃ g, orLoop g (ME.treeAt lp rp 2 e) (advs s (ME.render lp rp 2 e) (nxt :: r)) = .ok out s') →
    ∃ f, orE f s = .ok out s'

/-- `e` as the base of the postfix loop -/
def AccM (e : ME) : Prop :=
  ∀ s nxt r out s', s.after = ME.render lp rp 9 e ++ nxt :: r → nxt.tt ≠ .leftParen →
    (∃ g, accessLoop g (baseTok (ME.treeAt lp rp 9 e)) (ME.treeAt lp rp 9 e)
      (advs s (ME.render lp rp 9 e) (nxt :: r)) = .ok out s') →
    ∃ f, access f s = .ok out s'

/-- the first token can begin an expression, and is no unary operator if the root is postfix / primary -/
def HeadM (e : ME) : Prop :=
  ∃ t c', e.toks = t :: c' ∧ isExprStart t.tt = true ∧ (9 ≤ e.lvl → t.tt ∉ [TT.not_, TT.minus])

structure MinM (e : ME) : Prop where
  all : AllM lp rp e
  bin : ∀ lvl, BinM lp rp e lvl
  or : OrM lp rp e
  acc : AccM lp rp e
  head : HeadM e
  lvl_pos : 1 ≤ e.lvl
  lvl_le : e.lvl ≤ 10

/-- the argument loop of a call and the item loop of a list literal accept the printed list -/
structure ArgsOK (a : MArgs) : Prop where
  call : ∀ s acc accT closer r, s.after = a.toks ++ closer :: r → closer.tt = .rightParen →
    acc.length + a.trees.length ≤ 255 →
    ∃ f, callArgs f acc accT s = .ok (acc ++ a.trees, accT ++ a.seps ++ [closer]) (advs s a.toks (closer :: r))
  list : ∀ s acc closer r, s.after = a.toks ++ closer :: r → closer.tt = .rightBracket →
    ∃ f, listItems f acc s = .ok (acc ++ a.trees) (advs s a.toks (closer :: r))
  head : ∃ t c', a.toks = t :: c' ∧ isExprStart t.tt = true

end defs

/-! ## one round of the postfix loop; nodes that the older development does not have -/

theorem accessLoop_round {s1 s3 s' : PState} {bt lb rb : Token} {tl ti out : Expr} {rest rest3 : List Token}
    (h1 : s1.after = lb :: rest) (hlb : lb.tt = .leftBracket)
    (h2 : ∃ f, expression f (adv s1 lb rest) = .ok ti s3) (h3 : s3.after = rb :: rest3)
    (hrb : rb.tt = .rightBracket)
    (h4 : ∃ g, accessLoop g bt (.access tl bt ti lb rb) (adv s3 rb rest3) = .ok out s') :
    ∃ g, accessLoop g bt tl s1 = .ok out s' := by
  obtain ⟨f, hf⟩ := h2
  obtain ⟨g, hg⟩ := h4
  refine ⟨max f g + 1, ?_⟩
  rw [P.accessLoop, matchToken_hit h1 hlb (by decide)]
  simp only [PRes.bind_ok]
  rw [(exprMono (Nat.le_max_left f g)).expression _ _ _ hf]
  simp only [PRes.bind_ok]
  rw [consume_hit _ h3 hrb (by decide)]
  simp only [PRes.bind_ok]
  exact (exprMono (Nat.le_max_right f g)).accessLoop _ _ _ _ _ hg

theorem set_node {s s1 s3 : PState} {l k : Expr} {lt lb rb arrow : Token} {v : Expr} {rest1 : List Token}
    (hl : ∃ f, orE f s = .ok (.access l lt k lb rb) s1) (h1 : s1.after = arrow :: rest1)
    (ha : arrow.tt = .arrow) (hr : ∃ f, assignment f (adv s1 arrow rest1) = .ok v s3) :
    ∃ f, assignment f s = .ok (.set l lt k lb rb v arrow) s3 := by
  obtain ⟨f1, hf1⟩ := hl
  obtain ⟨f2, hf2⟩ := hr
  refine ⟨max f1 f2 + 1, ?_⟩
  have hp := ((exprSound f1).orE s).elim hf1
  rw [P.assignment]
  rw [(exprMono (show f1 ≤ max f1 f2 by omega)).orE s _ s1 hf1]
  simp only [PRes.bind_ok, previous_of_exprQ hp]
  rw [matchToken_hit h1 ha (by decide)]
  simp only [PRes.bind_ok]
  rw [(exprMono (show f2 ≤ max f1 f2 by omega)).assignment _ v s3 hf2]
  rfl

/-- `primary` on `name ( )` -/
theorem primary_call0 (f : Nat) {s : PState} {name lp' rp' : Token} {rest : List Token}
    (h : s.after = name :: lp' :: rp' :: rest) (hn : name.tt = .identifier) (hl : lp'.tt = .leftParen)
    (hr : rp'.tt = .rightParen) :
    primary (f+1) s = .ok (.call name.lexeme [] [] name lp' rp')
      (adv (adv (adv s name (lp' :: rp' :: rest)) lp' (rp' :: rest)) rp' rest) := by
  simp only [P.primary]
  rw [matchToken_miss h (by rw [hn]; decide)]; simp only [PRes.bind_ok]
  rw [matchToken_miss h (by rw [hn]; decide)]; simp only [PRes.bind_ok]
  rw [matchToken_miss h (by rw [hn]; decide)]; simp only [PRes.bind_ok]
  rw [matchToken_miss h (by rw [hn]; decide)]; simp only [PRes.bind_ok]
  rw [matchToken_miss h (by rw [hn]; decide)]; simp only [PRes.bind_ok]
  rw [matchToken_hit h hn (by decide)]; simp only [PRes.bind_ok]
  rw [matchToken_hit (s := adv s name (lp' :: rp' :: rest)) rfl hl (by decide)]; simp only [PRes.bind_ok]
  rw [check_eq .rightParen (s := adv (adv s name (lp' :: rp' :: rest)) lp' (rp' :: rest)) rfl]
  simp only [hr, PRes.bind_ok]
  rw [show ((!(TT.rightParen == TT.eof) && TT.rightParen == TT.rightParen)) = true by decide]
  simp only [if_true, PRes.bind_ok]
  rw [consume_hit _ (s := adv (adv s name (lp' :: rp' :: rest)) lp' (rp' :: rest)) rfl hr (by decide)]
  rfl

/-- `primary` on `name ( args )`, given the run of the argument loop -/
theorem primary_callN (f : Nat) {s s3 : PState} {name lp' rp' t : Token} {rest0 rest rest3 : List Token}
    {args : List Expr} {argToks : List Token}
    (h : s.after = name :: lp' :: rest) (hn : name.tt = .identifier) (hl : lp'.tt = .leftParen)
    (hrest : rest = t :: rest0) (ht : t.tt ≠ .rightParen)
    (hargs : callArgs f [] [lp'] (adv (adv s name (lp' :: rest)) lp' rest) = .ok (args, argToks) s3)
    (h3 : s3.after = rp' :: rest3) (hr : rp'.tt = .rightParen) :
    primary (f+1) s = .ok (.call name.lexeme args (windowSpans argToks) name lp' rp') (adv s3 rp' rest3) := by
  simp only [P.primary]
  rw [matchToken_miss h (by rw [hn]; decide)]; simp only [PRes.bind_ok]
  rw [matchToken_miss h (by rw [hn]; decide)]; simp only [PRes.bind_ok]
  rw [matchToken_miss h (by rw [hn]; decide)]; simp only [PRes.bind_ok]
  rw [matchToken_miss h (by rw [hn]; decide)]; simp only [PRes.bind_ok]
  rw [matchToken_miss h (by rw [hn]; decide)]; simp only [PRes.bind_ok]
  rw [matchToken_hit h hn (by decide)]; simp only [PRes.bind_ok]
  rw [matchToken_hit (s := adv s name (lp' :: rest)) rfl hl (by decide)]; simp only [PRes.bind_ok]
  rw [check_eq .rightParen (s := adv (adv s name (lp' :: rest)) lp' rest) (t := t) (r := rest0) hrest]
  have hc : (!(t.tt == TT.eof) && t.tt == TT.rightParen) = false := by
    have : (t.tt == TT.rightParen) = false := by simpa using ht
    simp [this]
  simp only [hc, PRes.bind_ok, Bool.false_eq_true, if_false]
  rw [hargs]
  simp only [PRes.bind_ok]
  rw [consume_hit _ h3 hr (by decide)]
  rfl

/-- `primary` on `[ ]` -/
theorem primary_list0 (f : Nat) {s : PState} {lb rb : Token} {rest : List Token}
    (h : s.after = lb :: rb :: rest) (hl : lb.tt = .leftBracket) (hr : rb.tt = .rightBracket) :
    primary (f+1) s = .ok (.list [] lb rb) (adv (adv s lb (rb :: rest)) rb rest) := by
  simp only [P.primary]
  rw [matchToken_miss h (by rw [hl]; decide)]; simp only [PRes.bind_ok]
  rw [matchToken_miss h (by rw [hl]; decide)]; simp only [PRes.bind_ok]
  rw [matchToken_miss h (by rw [hl]; decide)]; simp only [PRes.bind_ok]
  rw [matchToken_miss h (by rw [hl]; decide)]; simp only [PRes.bind_ok]
  rw [matchToken_miss h (by rw [hl]; decide)]; simp only [PRes.bind_ok]
  rw [matchToken_miss h (by rw [hl]; decide)]; simp only [PRes.bind_ok]
  rw [matchToken_miss h (by rw [hl]; decide)]; simp only [PRes.bind_ok]
  rw [matchToken_hit h hl (by decide)]; simp only [PRes.bind_ok]
  rw [check_eq .rightBracket (s := adv s lb (rb :: rest)) rfl]
  simp only [hr, PRes.bind_ok]
  rw [show ((!(TT.rightBracket == TT.eof) && TT.rightBracket == TT.rightBracket)) = true by decide]
  simp only [if_true, PRes.bind_ok]
  rw [consume_hit _ (s := adv s lb (rb :: rest)) rfl hr (by decide)]
  rfl

/-- `primary` on `[ items ]`, given the run of the item loop -/
theorem primary_listN (f : Nat) {s s3 : PState} {lb rb t : Token} {rest0 rest rest3 : List Token}
    {items : List Expr}
    (h : s.after = lb :: rest) (hl : lb.tt = .leftBracket)
    (hrest : rest = t :: rest0) (ht : t.tt ≠ .rightBracket)
    (hitems : listItems f [] (adv s lb rest) = .ok items s3)
    (h3 : s3.after = rb :: rest3) (hr : rb.tt = .rightBracket) :
    primary (f+1) s = .ok (.list items lb rb) (adv s3 rb rest3) := by
  simp only [P.primary]
  rw [matchToken_miss h (by rw [hl]; decide)]; simp only [PRes.bind_ok]
  rw [matchToken_miss h (by rw [hl]; decide)]; simp only [PRes.bind_ok]
  rw [matchToken_miss h (by rw [hl]; decide)]; simp only [PRes.bind_ok]
  rw [matchToken_miss h (by rw [hl]; decide)]; simp only [PRes.bind_ok]
  rw [matchToken_miss h (by rw [hl]; decide)]; simp only [PRes.bind_ok]
  rw [matchToken_miss h (by rw [hl]; decide)]; simp only [PRes.bind_ok]
  rw [matchToken_miss h (by rw [hl]; decide)]; simp only [PRes.bind_ok]
  rw [matchToken_hit h hl (by decide)]; simp only [PRes.bind_ok]
  rw [check_eq .rightBracket (s := adv s lb rest) (t := t) (r := rest0) hrest]
  have hc : (!(t.tt == TT.eof) && t.tt == TT.rightBracket) = false := by
    have : (t.tt == TT.rightBracket) = false := by simpa using ht
    simp [this]
  simp only [hc, PRes.bind_ok, Bool.false_eq_true, if_false]
  rw [hitems]
  simp only [PRes.bind_ok]
  rw [consume_hit _ h3 hr (by decide)]
  rfl

section main
variable (lp rp : Token) (hlp : lp.tt = .leftParen) (hrp : rp.tt = .rightParen)
include hlp hrp

/-- from the parse at the expression's own rung to every rung: looser rungs pass the tree through,
tighter rungs see it in parentheses -/
theorem allM_of_own (k : Rung) (e : ME) (hk : e.lvl = k.n)
    (own : ∀ s nxt r, s.after = e.toks ++ nxt :: r → trigLevel nxt.tt < k.n → nxt.tt ≠ .leftParen →
      Parses k s e.tree (advs s e.toks (nxt :: r)))
    (hhead : 8 < k.n → ∃ t c', e.toks = t :: c' ∧ t.tt ∉ [TT.not_, TT.minus]) : AllM lp rp e := by
  intro b s nxt r h hT hnp
  by_cases hb : b.n ≤ e.lvl
  · obtain ⟨e1, e2⟩ := ME.render_raw lp rp hb
    rw [e1] at h ⊢; rw [e2]
    have hp := own s nxt r h (by omega) hnp
    refine down_to (advs_after _ _ _) (k.n - b.n) k b (by omega) hp hT ?_
    intro _ h8
    obtain ⟨t, c', hc, ht⟩ := hhead h8
    exact ⟨t, c' ++ nxt :: r, by rw [h, hc]; rfl, ht⟩
  · obtain ⟨e1, e2⟩ := ME.render_paren lp rp hb
    rw [e1] at h ⊢; rw [e2]
    have h' : s.after = lp :: (e.toks ++ rp :: nxt :: r) := by rw [h]; simp
    have hp := own (adv s lp (e.toks ++ rp :: nxt :: r)) rp (nxt :: r) rfl
      (by rw [hrp]; have := Rung.n_pos k; simp [trigLevel]; omega) (by rw [hrp]; decide)
    have ha : Parses .assign (adv s lp (e.toks ++ rp :: nxt :: r)) e.tree _ :=
      down_to (advs_after _ _ _) (k.n - 1) k .assign (by have := Rung.n_pos k; show k.n = 1 + (k.n - 1); omega) hp
        (by rw [hrp]; decide) (by
          intro _ h8
          obtain ⟨t, c', hc, ht⟩ := hhead h8
          exact ⟨t, c' ++ rp :: nxt :: r, by simp [hc], ht⟩)
    obtain ⟨f, hf⟩ := up_expr ha
    have hprim : Parses .primary s (.grouping e.tree lp rp)
        (advs s (lp :: (e.toks ++ [rp])) (nxt :: r)) := by
      refine ⟨f + 1, ?_⟩
      show P.primary (f+1) s = _
      rw [primary_lparen f h' hlp, hf]
      simp only [PRes.bind_ok]
      rw [consume_hit _ (advs_after _ _ _) hrp (by decide)]
      simp [advs]
    exact down_to (advs_after _ _ _) (10 - b.n) .primary b (by have := Rung.n_le b; show 10 = b.n + (10 - b.n); omega)
      hprim hT (fun _ _ => ⟨lp, _, h', by rw [hlp]; decide⟩)

/-! ### left-associative binary levels -/

omit hlp hrp in
theorem binM_of_all (e : ME) (lvl : BinLevel) (hne : e.lvl ≠ lvl.n) (hall : AllM lp rp e) :
    BinM lp rp e lvl := by
  intro s nxt r out s' h hT hnp hloop
  obtain ⟨e1, e2⟩ := ME.render_congr lp rp (a := lvl.n) (b := lvl.n + 1) (e := e) (by omega)
  rw [e1] at h hloop; rw [e2] at hloop
  have := hall (Rung.opnd lvl) s nxt r (by rw [Rung.opnd_n]; exact h) (by rw [Rung.opnd_n]; omega) hnp
  rw [Rung.opnd_n] at this
  exact binLevel_of_operand_loop lvl this hloop

omit hlp hrp in
theorem own_of_binM (e : ME) (lvl : BinLevel) (hlv : e.lvl = lvl.n) (hs : BinM lp rp e lvl)
    (s : PState) (nxt : Token) (r : List Token) (h : s.after = e.toks ++ nxt :: r)
    (hT : trigLevel nxt.tt < (Rung.ofLvl lvl).n) (hnp : nxt.tt ≠ .leftParen) :
    Parses (Rung.ofLvl lvl) s e.tree (advs s e.toks (nxt :: r)) := by
  rw [Rung.ofLvl_n] at hT
  obtain ⟨e1, e2⟩ := ME.render_raw lp rp (a := lvl.n) (e := e) (by omega)
  have := hs s nxt r e.tree (advs s e.toks (nxt :: r)) (by rw [e1]; exact h)
    (by omega) hnp ⟨1, by
      rw [e1, e2, P.binLoop, matchTokens_miss (advs_after _ _ _) (not_mem_ops (by omega))]; rfl⟩
  obtain ⟨f, hf⟩ := this
  exact ⟨f, by rw [Rung.ofLvl_run]; exact hf⟩

omit hlp hrp in
theorem binM_node (l r : ME) (op : BinOp) (tok : Token) (hop : toBinOp tok.tt = some op)
    (hl : BinM lp rp l (lvlOf op)) (hr : AllM lp rp r) : BinM lp rp (ME.binary lp rp l op tok r) (lvlOf op) := by
  intro s nxt r' out s' h hT hnp ⟨g, hg⟩
  have hmem := toBinOp_lvl hop
  have hlev : opLevel op = (lvlOf op).n := opLevel_of_mem hmem hop
  obtain ⟨e1, e2⟩ := ME.render_raw lp rp (a := (lvlOf op).n) (e := ME.binary lp rp l op tok r)
    (by simp [ME.binary, hlev])
  rw [e1] at h hg; rw [e2] at hg
  simp only [ME.binary, hlev] at h hg
  simp only [List.append_assoc, List.cons_append] at h
  refine hl s tok _ out s' h (by rw [trig_of_mem_ops hmem]; exact Nat.le_refl _) (toBinOp_ne_lparen hop) ?_
  have hr' := hr (Rung.opnd (lvlOf op))
    (adv (advs s (ME.render lp rp (lvlOf op).n l) (tok :: (ME.render lp rp ((lvlOf op).n + 1) r ++ nxt :: r')))
      tok (ME.render lp rp ((lvlOf op).n + 1) r ++ nxt :: r')) nxt r'
    (by rw [Rung.opnd_n]) (by rw [Rung.opnd_n]; omega) hnp
  rw [Rung.opnd_n] at hr'
  refine binLoop_round (lvlOf op) (advs_after _ _ _) hmem hop hr' ⟨g, ?_⟩
  rw [advs3]
  exact hg

/-! ### the OR loop -/

omit hlp hrp in
theorem orM_of_all (e : ME) (hne : e.lvl ≠ 2) (hall : AllM lp rp e) : OrM lp rp e := by
  intro s nxt r out s' h hT hnp ⟨g, hg⟩
  obtain ⟨e1, e2⟩ := ME.render_congr lp rp (a := 2) (b := 3) (e := e) (by omega)
  rw [e1] at h hg; rw [e2] at hg
  obtain ⟨f, hf⟩ := hall .and s nxt r h (by simp [Rung.n]; omega) hnp
  refine ⟨max f g + 1, ?_⟩
  rw [P.orE, (exprMono (Nat.le_max_left f g)).andE s _ _ hf]
  simp only [PRes.bind_ok]
  exact (exprMono (Nat.le_max_right f g)).orLoop _ _ _ _ hg

omit hlp hrp in
theorem own_of_orM (e : ME) (hlv : e.lvl = 2) (hs : OrM lp rp e)
    (s : PState) (nxt : Token) (r : List Token) (h : s.after = e.toks ++ nxt :: r)
    (hT : trigLevel nxt.tt < Rung.or.n) (hnp : nxt.tt ≠ .leftParen) :
    Parses .or s e.tree (advs s e.toks (nxt :: r)) := by
  simp only [Rung.n] at hT
  obtain ⟨e1, e2⟩ := ME.render_raw lp rp (a := 2) (e := e) (by omega)
  exact hs s nxt r e.tree (advs s e.toks (nxt :: r)) (by rw [e1]; exact h)
    (by omega) hnp ⟨1, by
      rw [e1, e2, P.orLoop, matchToken_miss (advs_after _ _ _) (by
        intro e; rw [e] at hT; simp [trigLevel] at hT)]; rfl⟩

omit hlp hrp in
theorem orM_node (l r : ME) (tok : Token) (htok : tok.tt = .or_)
    (hl : OrM lp rp l) (hr : AllM lp rp r) : OrM lp rp (ME.logical lp rp l .or tok r) := by
  intro s nxt r' out s' h hT hnp ⟨g, hg⟩
  obtain ⟨e1, e2⟩ := ME.render_raw lp rp (a := 2) (e := ME.logical lp rp l .or tok r) (by simp [ME.logical, logLevel])
  rw [e1] at h hg; rw [e2] at hg
  simp only [ME.logical, lctx] at h hg
  simp only [List.append_assoc, List.cons_append] at h
  refine hl s tok _ out s' h (by rw [htok]; decide) (by rw [htok]; decide) ?_
  obtain ⟨f, hf⟩ := hr .and
    (adv (advs s (ME.render lp rp 2 l) (tok :: (ME.render lp rp 3 r ++ nxt :: r')))
      tok (ME.render lp rp 3 r ++ nxt :: r')) nxt r' rfl (by simp [Rung.n]; omega) hnp
  refine ⟨max f g + 1, ?_⟩
  rw [P.orLoop, matchToken_hit (advs_after _ _ _) htok (by decide)]
  simp only [PRes.bind_ok]
  rw [(exprMono (Nat.le_max_left f g)).andE _ _ _ hf]
  simp only [PRes.bind_ok]
  rw [advs3]
  exact (exprMono (Nat.le_max_right f g)).orLoop _ _ _ _ hg

/-! ### the postfix loop -/

omit hlp hrp in
/-- pass-through: a primary (or a parenthesised expression) as the base of the postfix loop -/
theorem accM_of_all (e : ME) (hne : e.lvl ≠ 9) (hall : AllM lp rp e) : AccM lp rp e := by
  intro s nxt r out s' h hnp ⟨g, hg⟩
  obtain ⟨e1, e2⟩ := ME.render_congr lp rp (a := 9) (b := 10) (e := e) (by omega)
  rw [e1] at h hg; rw [e2] at hg
  obtain ⟨f, hf⟩ := hall .primary s nxt r h (by have := trigLevel_le nxt.tt; simp [Rung.n]; omega) hnp
  have hf' : primary f s = .ok (ME.treeAt lp rp 10 e) (advs s (ME.render lp rp 10 e) (nxt :: r)) := hf
  have hp := ((exprSound f).primary s).elim hf'
  refine ⟨max f g + 1, ?_⟩
  rw [P.access, (exprMono (Nat.le_max_left f g)).primary s _ _ hf']
  simp only [PRes.bind_ok, previous_of_exprQ hp.1]
  rw [← hp.2]
  exact (exprMono (Nat.le_max_right f g)).accessLoop _ _ _ _ _ hg

omit hlp hrp in
/-- the postfix loop stops on a token that is not `[` -/
theorem own_of_accM (e : ME) (hlv : e.lvl = 9) (hs : AccM lp rp e)
    (s : PState) (nxt : Token) (r : List Token) (h : s.after = e.toks ++ nxt :: r)
    (hT : trigLevel nxt.tt < Rung.access.n) (hnp : nxt.tt ≠ .leftParen) :
    Parses .access s e.tree (advs s e.toks (nxt :: r)) := by
  simp only [Rung.n] at hT
  obtain ⟨e1, e2⟩ := ME.render_raw lp rp (a := 9) (e := e) (by omega)
  exact hs s nxt r e.tree (advs s e.toks (nxt :: r)) (by rw [e1]; exact h) hnp ⟨1, by
    rw [e1, e2, P.accessLoop, matchToken_miss (advs_after _ _ _) (by
      intro e; rw [e] at hT; simp [trigLevel] at hT)]; rfl⟩

omit hlp hrp in
/-- an index expression as the base of the postfix loop: one more round -/
theorem accM_node (l idx : ME) (lb rb : Token) (hlb : lb.tt = .leftBracket) (hrb : rb.tt = .rightBracket)
    (hl : AccM lp rp l) (hi : AllM lp rp idx) : AccM lp rp (ME.index lp rp l lb idx rb) := by
  intro s nxt r out s' h hnp ⟨g, hg⟩
  obtain ⟨e1, e2⟩ := ME.render_raw lp rp (a := 9) (e := ME.index lp rp l lb idx rb) (by simp [ME.index])
  rw [e1] at h hg; rw [e2] at hg
  simp only [ME.index] at h hg
  simp only [List.append_assoc, List.cons_append, List.nil_append] at h
  refine hl s lb _ out s' h (by rw [hlb]; decide) ?_
  have hi' := hi .assign
    (adv (advs s (ME.render lp rp 9 l) (lb :: (ME.render lp rp 1 idx ++ rb :: nxt :: r)))
      lb (ME.render lp rp 1 idx ++ rb :: nxt :: r)) rb (nxt :: r) rfl (by rw [hrb]; decide) (by rw [hrb]; decide)
  simp only [Rung.n] at hi'
  refine accessLoop_round (advs_after _ _ _) hlb (up_expr hi') (advs_after _ _ _) hrb ⟨g, ?_⟩
  have : adv (advs (adv (advs s (ME.render lp rp 9 l) (lb :: (ME.render lp rp 1 idx ++ rb :: nxt :: r))) lb
      (ME.render lp rp 1 idx ++ rb :: nxt :: r)) (ME.render lp rp 1 idx) (rb :: nxt :: r)) rb (nxt :: r) =
      advs s (ME.render lp rp 9 l ++ lb :: (ME.render lp rp 1 idx ++ [rb])) (nxt :: r) := by
    simp [advs]
  rw [this]
  exact hg

/-! ### assembling `MinM` -/

omit hrp in
theorem ME.render_head {e : ME} (h : HeadM e) (ctx : Nat) :
    ∃ t c', ME.render lp rp ctx e = t :: c' ∧ isExprStart t.tt = true ∧
      (9 ≤ e.lvl ∨ ¬ ctx ≤ e.lvl → t.tt ∉ [TT.not_, TT.minus]) := by
  obtain ⟨t, c', ht, hs, hu⟩ := h
  by_cases hc : ctx ≤ e.lvl
  · refine ⟨t, c', by rw [(ME.render_raw lp rp hc).1, ht], hs, ?_⟩
    rintro (h9 | hn)
    · exact hu h9
    · exact absurd hc hn
  · exact ⟨lp, e.toks ++ [rp], (ME.render_paren lp rp hc).1, by rw [hlp]; rfl, fun _ => by rw [hlp]; decide⟩

omit hlp hrp in
theorem minM_of_all (e : ME) (hall : AllM lp rp e) (hh : HeadM e) (h1 : ∀ lvl : BinLevel, e.lvl ≠ lvl.n)
    (h2 : e.lvl ≠ 2) (h9 : e.lvl ≠ 9) (hp : 1 ≤ e.lvl) (hle : e.lvl ≤ 10) : MinM lp rp e :=
  ⟨hall, fun lvl => binM_of_all lp rp e lvl (h1 lvl) hall, orM_of_all lp rp e h2 hall,
    accM_of_all lp rp e h9 hall, hh, hp, hle⟩

omit hlp hrp in
theorem headM_not_unary {e : ME} (h : HeadM e) (h9 : 9 ≤ e.lvl) :
    ∃ t c', e.toks = t :: c' ∧ t.tt ∉ [TT.not_, TT.minus] := by
  obtain ⟨t, c', ht, _, hu⟩ := h
  exact ⟨t, c', ht, hu h9⟩

/-- a node of level 10 that `primary` parses -/
theorem minM_primary (e : ME) (hlv : e.lvl = 10) (hh : HeadM e)
    (own : ∀ s nxt r, s.after = e.toks ++ nxt :: r → nxt.tt ≠ .leftParen →
      Parses .primary s e.tree (advs s e.toks (nxt :: r))) : MinM lp rp e := by
  have hall : AllM lp rp e := allM_of_own lp rp hlp hrp .primary e hlv
    (fun s nxt r h _ hnp => own s nxt r h hnp) (fun _ => headM_not_unary hh (by omega))
  exact minM_of_all lp rp e hall hh (by intro lvl; cases lvl <;> simp [hlv, BinLevel.n]) (by omega) (by omega)
    (by omega) (by omega)

theorem minM_lit (v : LitV) (tok : Token) (hv : litOf tok = some v) : MinM lp rp (ME.lit v tok) :=
  minM_primary lp rp hlp hrp _ rfl ⟨tok, [], rfl, litOf_start hv, fun _ => litOf_not_unary hv⟩
    (fun _ _ _ h _ => ⟨1, primary_lit h hv⟩)

theorem minM_var (tok : Token) (htt : tok.tt = .identifier) : MinM lp rp (ME.var tok) :=
  minM_primary lp rp hlp hrp _ rfl ⟨tok, [], rfl, by rw [htt]; rfl, fun _ => by simp [htt]⟩
    (fun _ _ _ h hnp => ⟨1, primary_var h htt hnp⟩)

theorem minM_paren (lp' rp' : Token) (e : ME) (hlp' : lp'.tt = .leftParen) (hrp' : rp'.tt = .rightParen)
    (he : MinM lp rp e) : MinM lp rp (ME.paren lp rp lp' e rp') := by
  refine minM_primary lp rp hlp hrp _ rfl ⟨lp', _, rfl, by rw [hlp']; rfl, fun _ => by rw [hlp']; decide⟩ ?_
  intro s nxt r h _
  simp only [ME.paren, List.cons_append, List.append_assoc, List.nil_append] at h ⊢
  have ha := he.all .assign (adv s lp' (ME.render lp rp 1 e ++ rp' :: nxt :: r)) rp' (nxt :: r) rfl
    (by rw [hrp']; decide) (by rw [hrp']; decide)
  obtain ⟨f, hf⟩ := up_expr ha
  refine ⟨f + 1, ?_⟩
  show P.primary (f+1) s = _
  rw [primary_lparen f h hlp', hf]
  simp only [PRes.bind_ok]
  rw [consume_hit _ (advs_after _ _ _) hrp' (by decide)]
  simp [advs, Rung.n]

theorem minM_call0 (name lp' rp' : Token) (hn : name.tt = .identifier) (hlp' : lp'.tt = .leftParen)
    (hrp' : rp'.tt = .rightParen) : MinM lp rp (ME.call0 name lp' rp') := by
  refine minM_primary lp rp hlp hrp _ rfl ⟨name, _, rfl, by rw [hn]; rfl, fun _ => by simp [hn]⟩ ?_
  intro s nxt r h _
  simp only [ME.call0, List.cons_append, List.nil_append] at h ⊢
  refine ⟨1, ?_⟩
  show P.primary 1 s = _
  rw [primary_call0 0 h hn hlp' hrp']
  simp [advs]

theorem minM_call (name lp' rp' : Token) (a : MArgs) (hn : name.tt = .identifier) (hlp' : lp'.tt = .leftParen)
    (hrp' : rp'.tt = .rightParen) (ha : ArgsOK a) (hlen : a.trees.length ≤ 255) :
    MinM lp rp (ME.call name lp' a rp') := by
  refine minM_primary lp rp hlp hrp _ rfl ⟨name, _, rfl, by rw [hn]; rfl, fun _ => by simp [hn]⟩ ?_
  intro s nxt r h _
  simp only [ME.call, List.cons_append, List.append_assoc, List.nil_append] at h ⊢
  obtain ⟨t, c', hc, hst⟩ := ha.head
  obtain ⟨f, hf⟩ := ha.call (adv (adv s name (lp' :: (a.toks ++ rp' :: nxt :: r))) lp' (a.toks ++ rp' :: nxt :: r))
    [] [lp'] rp' (nxt :: r) rfl hrp' (by simpa using hlen)
  refine ⟨f + 1, ?_⟩
  show P.primary (f+1) s = _
  rw [primary_callN f h hn hlp' (t := t) (rest0 := c' ++ rp' :: nxt :: r) (by rw [hc]; rfl)
    (by intro e; rw [e] at hst; cases hst) hf (advs_after _ _ _) hrp']
  simp [advs]

theorem minM_list0 (lb rb : Token) (hlb : lb.tt = .leftBracket) (hrb : rb.tt = .rightBracket) :
    MinM lp rp (ME.list0 lb rb) := by
  refine minM_primary lp rp hlp hrp _ rfl ⟨lb, _, rfl, by rw [hlb]; rfl, fun _ => by rw [hlb]; decide⟩ ?_
  intro s nxt r h _
  simp only [ME.list0, List.cons_append, List.nil_append] at h ⊢
  refine ⟨1, ?_⟩
  show P.primary 1 s = _
  rw [primary_list0 0 h hlb hrb]
  simp [advs]

theorem minM_list (lb rb : Token) (a : MArgs) (hlb : lb.tt = .leftBracket) (hrb : rb.tt = .rightBracket)
    (ha : ArgsOK a) : MinM lp rp (ME.list lb a rb) := by
  refine minM_primary lp rp hlp hrp _ rfl ⟨lb, _, rfl, by rw [hlb]; rfl, fun _ => by rw [hlb]; decide⟩ ?_
  intro s nxt r h _
  simp only [ME.list, List.cons_append, List.append_assoc, List.nil_append] at h ⊢
  obtain ⟨t, c', hc, hst⟩ := ha.head
  obtain ⟨f, hf⟩ := ha.list (adv s lb (a.toks ++ rb :: nxt :: r)) [] rb (nxt :: r) rfl hrb
  refine ⟨f + 1, ?_⟩
  show P.primary (f+1) s = _
  rw [primary_listN f h hlb (t := t) (rest0 := c' ++ rb :: nxt :: r) (by rw [hc]; rfl)
    (by intro e; rw [e] at hst; cases hst) hf (advs_after _ _ _) hrb]
  simp [advs]

/-! ### operators -/

theorem minM_binary (l r : ME) (op : BinOp) (tok : Token) (hop : toBinOp tok.tt = some op)
    (hl : MinM lp rp l) (hr : MinM lp rp r) : MinM lp rp (ME.binary lp rp l op tok r) := by
  have hmem := toBinOp_lvl hop
  have hlev : opLevel op = (lvlOf op).n := opLevel_of_mem hmem hop
  have hlv : (ME.binary lp rp l op tok r).lvl = opLevel op := rfl
  have hs : BinM lp rp (ME.binary lp rp l op tok r) (lvlOf op) :=
    binM_node lp rp l r op tok hop (hl.bin _) hr.all
  have hall : AllM lp rp (ME.binary lp rp l op tok r) :=
    allM_of_own lp rp hlp hrp (Rung.ofLvl (lvlOf op)) _ (by rw [Rung.ofLvl_n]; exact hlev)
      (own_of_binM lp rp _ (lvlOf op) hlev hs)
      (by rw [Rung.ofLvl_n]; intro h8; cases op <;> simp [lvlOf, BinLevel.n] at h8)
  have hrange : 4 ≤ opLevel op ∧ opLevel op ≤ 7 := by cases op <;> simp [opLevel]
  obtain ⟨t, c', hc, hst, _⟩ := ME.render_head lp rp hlp hl.head (opLevel op)
  refine ⟨hall, fun lvl => ?_, orM_of_all lp rp _ (by rw [hlv]; omega) hall,
    accM_of_all lp rp _ (by rw [hlv]; omega) hall,
    ⟨t, c' ++ tok :: ME.render lp rp (opLevel op + 1) r, by simp [ME.binary, hc], hst,
      fun h9 => by rw [hlv] at h9; omega⟩, by rw [hlv]; omega, by rw [hlv]; omega⟩
  by_cases hlvl : opLevel op = lvl.n
  · rw [lvlOf_inj hlvl]; exact hs
  · exact binM_of_all lp rp _ lvl hlvl hall

theorem minM_or (l r : ME) (tok : Token) (htok : tok.tt = .or_)
    (hl : MinM lp rp l) (hr : MinM lp rp r) : MinM lp rp (ME.logical lp rp l .or tok r) := by
  have hs : OrM lp rp (ME.logical lp rp l .or tok r) := orM_node lp rp l r tok htok hl.or hr.all
  have hall : AllM lp rp (ME.logical lp rp l .or tok r) :=
    allM_of_own lp rp hlp hrp .or _ rfl (own_of_orM lp rp _ rfl hs) (by simp [Rung.n])
  obtain ⟨t, c', hc, hst, _⟩ := ME.render_head lp rp hlp hl.head 2
  exact ⟨hall, fun lvl => binM_of_all lp rp _ lvl (by cases lvl <;> simp [ME.logical, logLevel, BinLevel.n]) hall,
    hs, accM_of_all lp rp _ (by simp [ME.logical, logLevel]) hall,
    ⟨t, c' ++ tok :: ME.render lp rp 3 r, by simp [ME.logical, lctx, hc], hst,
      fun h9 => by simp [ME.logical, logLevel] at h9⟩, by simp [ME.logical, logLevel], by simp [ME.logical, logLevel]⟩

theorem minM_and (l x : ME) (tok : Token) (htok : tok.tt = .and_)
    (hl : MinM lp rp l) (hx : MinM lp rp x) : MinM lp rp (ME.logical lp rp l .and tok x) := by
  have own : ∀ s nxt r, s.after = (ME.logical lp rp l .and tok x).toks ++ nxt :: r →
      trigLevel nxt.tt < Rung.and.n → nxt.tt ≠ .leftParen →
      Parses .and s (ME.logical lp rp l .and tok x).tree (advs s (ME.logical lp rp l .and tok x).toks (nxt :: r)) := by
    intro s nxt r h hT hnp
    simp only [ME.logical, lctx] at h ⊢
    simp only [List.append_assoc, List.cons_append] at h
    have o1 := hl.all .eq s tok _ h (by rw [htok]; decide) (by rw [htok]; decide)
    have o2 := hx.all .and (adv (advs s (ME.render lp rp 4 l) (tok :: (ME.render lp rp 3 x ++ nxt :: r))) tok
      (ME.render lp rp 3 x ++ nxt :: r)) nxt r rfl hT hnp
    obtain ⟨f, hf⟩ := and_node o1 (advs_after _ _ _) htok o2 (advs_after _ _ _)
      (by intro e; rw [e] at hT; simp [trigLevel, Rung.n] at hT)
    refine ⟨f, ?_⟩
    show andE f s = _
    rw [hf, advs3]
    rfl
  have hall : AllM lp rp (ME.logical lp rp l .and tok x) :=
    allM_of_own lp rp hlp hrp .and _ rfl own (by simp [Rung.n])
  obtain ⟨t, c', hc, hst, _⟩ := ME.render_head lp rp hlp hl.head 4
  exact minM_of_all lp rp _ hall
    ⟨t, c' ++ tok :: ME.render lp rp 3 x, by simp [ME.logical, lctx, hc], hst,
      fun h9 => by simp [ME.logical, logLevel] at h9⟩
    (by intro lvl; cases lvl <;> simp [ME.logical, logLevel, BinLevel.n])
    (by simp [ME.logical, logLevel]) (by simp [ME.logical, logLevel]) (by simp [ME.logical, logLevel])
    (by simp [ME.logical, logLevel])

theorem minM_unary (op : UnOp) (tok : Token) (x : ME) (hop : toUnOp tok.tt = some op)
    (hx : MinM lp rp x) : MinM lp rp (ME.unary lp rp op tok x) := by
  have own : ∀ s nxt r, s.after = (ME.unary lp rp op tok x).toks ++ nxt :: r →
      trigLevel nxt.tt < Rung.unary.n → nxt.tt ≠ .leftParen →
      Parses .unary s (ME.unary lp rp op tok x).tree (advs s (ME.unary lp rp op tok x).toks (nxt :: r)) := by
    intro s nxt r h hT hnp
    simp only [ME.unary, List.cons_append] at h ⊢
    have o2 := hx.all .unary (adv s tok (ME.render lp rp 8 x ++ nxt :: r)) nxt r rfl hT hnp
    obtain ⟨f, hf⟩ := unary_node h hop o2
    refine ⟨f, ?_⟩
    show P.unary f s = _
    rw [hf, advs_adv]
    rfl
  have hall : AllM lp rp (ME.unary lp rp op tok x) :=
    allM_of_own lp rp hlp hrp .unary _ rfl own (by simp [Rung.n])
  exact minM_of_all lp rp _ hall ⟨tok, _, rfl, toUnOp_start hop, fun h9 => by simp [ME.unary] at h9⟩
    (by intro lvl; cases lvl <;> simp [ME.unary, BinLevel.n])
    (by simp [ME.unary]) (by simp [ME.unary]) (by simp [ME.unary]) (by simp [ME.unary])

theorem minM_assign (name arrow : Token) (v : ME) (hname : name.tt = .identifier) (harrow : arrow.tt = .arrow)
    (hv : MinM lp rp v) : MinM lp rp (ME.assign lp rp name arrow v) := by
  have own : ∀ s nxt r, s.after = (ME.assign lp rp name arrow v).toks ++ nxt :: r →
      trigLevel nxt.tt < Rung.assign.n → nxt.tt ≠ .leftParen →
      Parses .assign s (ME.assign lp rp name arrow v).tree (advs s (ME.assign lp rp name arrow v).toks (nxt :: r)) := by
    intro s nxt r h hT hnp
    simp only [ME.assign, List.cons_append] at h ⊢
    have hp1 : ∃ f, primary f s = .ok (.var name.lexeme name)
        (adv s name (arrow :: (ME.render lp rp 1 v ++ nxt :: r))) :=
      ⟨1, primary_var h hname (by rw [harrow]; decide)⟩
    have o1 := prim_to_or hp1 h (by simp [hname]) rfl (by rw [harrow]; decide)
    have o2 := hv.all .assign (adv (adv s name (arrow :: (ME.render lp rp 1 v ++ nxt :: r))) arrow
      (ME.render lp rp 1 v ++ nxt :: r)) nxt r rfl hT hnp
    obtain ⟨f, hf⟩ := assign_node o1 rfl harrow o2
    refine ⟨f, ?_⟩
    show assignment f s = _
    rw [hf]
    simp [advs, Rung.n]
  have hall : AllM lp rp (ME.assign lp rp name arrow v) :=
    allM_of_own lp rp hlp hrp .assign _ rfl own (by simp [Rung.n])
  exact minM_of_all lp rp _ hall ⟨name, _, rfl, by rw [hname]; rfl, fun h9 => by simp [ME.assign] at h9⟩
    (by intro lvl; cases lvl <;> simp [ME.assign, BinLevel.n])
    (by simp [ME.assign]) (by simp [ME.assign]) (by simp [ME.assign]) (by simp [ME.assign])

/-! ### indexing and indexed assignment -/

theorem minM_index (l idx : ME) (lb rb : Token) (hlb : lb.tt = .leftBracket) (hrb : rb.tt = .rightBracket)
    (hl : MinM lp rp l) (hi : MinM lp rp idx) : MinM lp rp (ME.index lp rp l lb idx rb) := by
  have hs : AccM lp rp (ME.index lp rp l lb idx rb) := accM_node lp rp l idx lb rb hlb hrb hl.acc hi.all
  obtain ⟨t, c', hc, hst, hu⟩ := ME.render_head lp rp hlp hl.head 9
  have hun : t.tt ∉ [TT.not_, TT.minus] := by
    by_cases h9 : 9 ≤ l.lvl
    · exact hu (Or.inl h9)
    · exact hu (Or.inr h9)
  have hh : HeadM (ME.index lp rp l lb idx rb) :=
    ⟨t, c' ++ lb :: (ME.render lp rp 1 idx ++ [rb]), by simp [ME.index, hc], hst, fun _ => hun⟩
  have hall : AllM lp rp (ME.index lp rp l lb idx rb) :=
    allM_of_own lp rp hlp hrp .access _ rfl (own_of_accM lp rp _ rfl hs)
      (fun _ => ⟨t, c' ++ lb :: (ME.render lp rp 1 idx ++ [rb]), by simp [ME.index, hc], hun⟩)
  exact ⟨hall, fun lvl => binM_of_all lp rp _ lvl (by cases lvl <;> simp [ME.index, BinLevel.n]) hall,
    orM_of_all lp rp _ (by simp [ME.index]) hall, hs, hh, by simp [ME.index], by simp [ME.index]⟩

theorem minM_set (l idx v : ME) (lb rb arrow : Token) (hlb : lb.tt = .leftBracket) (hrb : rb.tt = .rightBracket)
    (harrow : arrow.tt = .arrow) (hl : MinM lp rp l) (hi : MinM lp rp idx) (hv : MinM lp rp v) :
    MinM lp rp (ME.set lp rp l lb idx rb arrow v) := by
  have hidx := minM_index lp rp hlp hrp l idx lb rb hlb hrb hl hi
  have own : ∀ s nxt r, s.after = (ME.set lp rp l lb idx rb arrow v).toks ++ nxt :: r →
      trigLevel nxt.tt < Rung.assign.n → nxt.tt ≠ .leftParen →
      Parses .assign s (ME.set lp rp l lb idx rb arrow v).tree
        (advs s (ME.set lp rp l lb idx rb arrow v).toks (nxt :: r)) := by
    intro s nxt r h hT hnp
    simp only [ME.set] at h ⊢
    simp only [List.append_assoc, List.cons_append] at h
    obtain ⟨e1, e2⟩ := ME.render_raw lp rp (a := 2) (e := ME.index lp rp l lb idx rb) (by simp [ME.index])
    have o1 := hidx.all .or s arrow (ME.render lp rp 1 v ++ nxt :: r) (by rw [show Rung.or.n = 2 from rfl, e1]; exact h)
      (by rw [harrow]; decide) (by rw [harrow]; decide)
    rw [show Rung.or.n = 2 from rfl, e1, e2] at o1
    have o2 := hv.all .assign (adv (advs s (ME.index lp rp l lb idx rb).toks (arrow :: (ME.render lp rp 1 v ++ nxt :: r)))
      arrow (ME.render lp rp 1 v ++ nxt :: r)) nxt r rfl hT hnp
    obtain ⟨f, hf⟩ := set_node (l := ME.treeAt lp rp 9 l) (lt := baseTok (ME.treeAt lp rp 9 l))
      (k := ME.treeAt lp rp 1 idx) (lb := lb) (rb := rb) o1 (advs_after _ _ _) harrow o2
    refine ⟨f, ?_⟩
    show assignment f s = _
    rw [hf, advs3]
    rfl
  have hall : AllM lp rp (ME.set lp rp l lb idx rb arrow v) :=
    allM_of_own lp rp hlp hrp .assign _ rfl own (by simp [Rung.n])
  obtain ⟨t, c', hc, hst, _⟩ := hidx.head
  exact minM_of_all lp rp _ hall
    ⟨t, c' ++ arrow :: ME.render lp rp 1 v, by simp [ME.set, hc], hst, fun h9 => by simp [ME.set] at h9⟩
    (by intro lvl; cases lvl <;> simp [ME.set, BinLevel.n])
    (by simp [ME.set]) (by simp [ME.set]) (by simp [ME.set]) (by simp [ME.set])

/-! ### argument and item lists -/

omit hlp hrp in
/-- a full expression in front of a token that continues nothing -/
theorem AllM.expr {e : ME} (h : AllM lp rp e) (s : PState) (nxt : Token) (r : List Token)
    (ha : s.after = ME.render lp rp 1 e ++ nxt :: r) (hT : trigLevel nxt.tt < 1) (hnp : nxt.tt ≠ .leftParen) :
    ∃ f, expression f s = .ok (ME.treeAt lp rp 1 e) (advs s (ME.render lp rp 1 e) (nxt :: r)) :=
  up_expr (h .assign s nxt r ha hT hnp)

omit hlp hrp in
theorem callArgs_last (f : Nat) {s s1 : PState} {acc : List Expr} {accT : List Token} {t : Expr}
    {closer : Token} {r : List Token} (hlen : acc.length < 255)
    (he : expression f s = .ok t s1) (h1 : s1.after = closer :: r) (hc : closer.tt ≠ .comma) :
    callArgs (f+1) acc accT s = .ok (acc ++ [t], accT ++ [closer]) s1 := by
  rw [P.callArgs]
  rw [if_neg (by omega), he]
  simp only [PRes.bind_ok, peek, h1]
  rw [matchToken_miss h1 hc]
  rfl

omit hlp hrp in
theorem callArgs_more (f : Nat) {s s1 : PState} {acc : List Expr} {accT : List Token} {t : Expr}
    {comma : Token} {r : List Token} (hlen : acc.length < 255)
    (he : expression f s = .ok t s1) (h1 : s1.after = comma :: r) (hc : comma.tt = .comma) :
    callArgs (f+1) acc accT s = callArgs f (acc ++ [t]) (accT ++ [comma]) (adv s1 comma r) := by
  rw [P.callArgs]
  rw [if_neg (by omega), he]
  simp only [PRes.bind_ok, peek, h1]
  rw [matchToken_hit h1 hc (by decide)]
  rfl

omit hlp hrp in
theorem listItems_last (f : Nat) {s s1 : PState} {acc : List Expr} {t : Expr}
    {closer : Token} {r : List Token}
    (he : expression f s = .ok t s1) (h1 : s1.after = closer :: r) (hc : closer.tt ≠ .comma) :
    listItems (f+1) acc s = .ok (acc ++ [t]) s1 := by
  rw [P.listItems, he]
  simp only [PRes.bind_ok]
  rw [matchToken_miss h1 hc]
  rfl

omit hlp hrp in
theorem listItems_more (f : Nat) {s s1 : PState} {acc : List Expr} {t : Expr}
    {comma : Token} {r : List Token}
    (he : expression f s = .ok t s1) (h1 : s1.after = comma :: r) (hc : comma.tt = .comma) :
    listItems (f+1) acc s = listItems f (acc ++ [t]) (adv s1 comma r) := by
  rw [P.listItems, he]
  simp only [PRes.bind_ok]
  rw [matchToken_hit h1 hc (by decide)]
  rfl

omit hrp in
theorem argsOK_one (e : ME) (he : MinM lp rp e) : ArgsOK (MArgs.one lp rp e) := by
  refine ⟨?_, ?_, ?_⟩
  · intro s acc accT closer r h hcl hlen
    simp only [MArgs.one, List.length_singleton] at h hlen ⊢
    obtain ⟨f, hf⟩ := he.all.expr lp rp s closer r h (by rw [hcl]; decide) (by rw [hcl]; decide)
    refine ⟨f + 1, ?_⟩
    rw [callArgs_last f (by omega) hf (advs_after _ _ _) (by rw [hcl]; decide)]
    simp
  · intro s acc closer r h hcl
    simp only [MArgs.one] at h ⊢
    obtain ⟨f, hf⟩ := he.all.expr lp rp s closer r h (by rw [hcl]; decide) (by rw [hcl]; decide)
    refine ⟨f + 1, ?_⟩
    rw [listItems_last f hf (advs_after _ _ _) (by rw [hcl]; decide)]
  · obtain ⟨t, c', hc, hst, _⟩ := ME.render_head lp rp hlp he.head 1
    exact ⟨t, c', hc, hst⟩

omit hrp in
theorem argsOK_cons (e : ME) (comma : Token) (a : MArgs) (hcomma : comma.tt = .comma) (he : MinM lp rp e)
    (ha : ArgsOK a) : ArgsOK (MArgs.cons lp rp e comma a) := by
  refine ⟨?_, ?_, ?_⟩
  · intro s acc accT closer r h hcl hlen
    simp only [MArgs.cons, List.length_cons, List.append_assoc, List.cons_append] at h hlen ⊢
    obtain ⟨f, hf⟩ := he.all.expr lp rp s comma _ h (by rw [hcomma]; decide) (by rw [hcomma]; decide)
    obtain ⟨g, hg⟩ := ha.call (adv (advs s (ME.render lp rp 1 e) (comma :: (a.toks ++ closer :: r))) comma
      (a.toks ++ closer :: r)) (acc ++ [ME.treeAt lp rp 1 e]) (accT ++ [comma]) closer r rfl hcl
      (by simp; omega)
    refine ⟨max f g + 1, ?_⟩
    rw [callArgs_more _ (by omega) ((exprMono (Nat.le_max_left f g)).expression _ _ _ hf) (advs_after _ _ _) hcomma]
    rw [(exprMono (Nat.le_max_right f g)).callArgs _ _ _ _ _ hg]
    simp [advs]
  · intro s acc closer r h hcl
    simp only [MArgs.cons, List.append_assoc, List.cons_append] at h ⊢
    obtain ⟨f, hf⟩ := he.all.expr lp rp s comma _ h (by rw [hcomma]; decide) (by rw [hcomma]; decide)
    obtain ⟨g, hg⟩ := ha.list (adv (advs s (ME.render lp rp 1 e) (comma :: (a.toks ++ closer :: r))) comma
      (a.toks ++ closer :: r)) (acc ++ [ME.treeAt lp rp 1 e]) closer r rfl hcl
    refine ⟨max f g + 1, ?_⟩
    rw [listItems_more _ ((exprMono (Nat.le_max_left f g)).expression _ _ _ hf) (advs_after _ _ _) hcomma]
    rw [(exprMono (Nat.le_max_right f g)).listItems _ _ _ _ hg]
    simp [advs]
  · obtain ⟨t, c', hc, hst, _⟩ := ME.render_head lp rp hlp he.head 1
    exact ⟨t, c' ++ comma :: a.toks, by simp [MArgs.cons, hc], hst⟩

end main

end P
end Aplang
