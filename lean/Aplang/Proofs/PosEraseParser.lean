import Aplang.Proofs.PosEraseSyntax
/-!
# The parser commutes with erasure  (property C06)

`parse f (ts.map Token.norm) = (parse f ts).norm`: the parser never looks at the position of a token, nor at
the spelling of a token that is not an identifier.  Every parser function `g` satisfies
`g f s.norm = (g f s).norm erase` where `erase` is the erasure of the result type.
-/
namespace Aplang

def PErr.norm (e : PErr) : PErr := ⟨e.code, zeroSpans e.labels⟩

def PState.norm (s : PState) : PState :=
  ⟨s.before.map Token.norm, s.after.map Token.norm, s.inFn, s.inLoop⟩

@[simp] theorem PState.norm_inFn (s : PState) : s.norm.inFn = s.inFn := rfl
@[simp] theorem PState.norm_inLoop (s : PState) : s.norm.inLoop = s.inLoop := rfl
@[simp] theorem PState.norm_flags (s : PState) (a b : Bool) :
    ({ s with inFn := a, inLoop := b } : PState).norm = { s.norm with inFn := a, inLoop := b } := rfl
@[simp] theorem PState.norm_inLoop_set (s : PState) (b : Bool) :
    ({ s with inLoop := b } : PState).norm = { s.norm with inLoop := b } := rfl

/-- erasure of a parser result; `fa` erases the value -/
def PRes.norm {α} (fa : α → α) : PRes α → PRes α
  | .ok a s => .ok (fa a) s.norm
  | .err e s => .err e.norm s.norm
  | .panic p => .panic p
  | .fuel => .fuel

@[simp] theorem PRes.norm_ok {α} (fa : α → α) (a s) : (PRes.ok a s).norm fa = .ok (fa a) s.norm := rfl
@[simp] theorem PRes.norm_err {α} (fa : α → α) (e s) : (PRes.err e s : PRes α).norm fa = .err e.norm s.norm := rfl
@[simp] theorem PRes.norm_panic {α} (fa : α → α) (p) : (PRes.panic p : PRes α).norm fa = .panic p := rfl
@[simp] theorem PRes.norm_fuel {α} (fa : α → α) : (PRes.fuel : PRes α).norm fa = .fuel := rfl

/-- the continuation on the erased side is the erasure of the continuation -/
theorem PRes.norm_bind {α β} {fa : α → α} {fb : β → β} {r : PRes α} {k k' : α → PState → PRes β}
    (h : ∀ a s, r = .ok a s → k' (fa a) s.norm = (k a s).norm fb) :
    (r.norm fa).bind k' = (r.bind k).norm fb := by
  cases r with
  | ok a s => exact h a s rfl
  | err e s => rfl
  | panic p => rfl
  | fuel => rfl

/-- `PRes.norm_bind` with the first call given by an equation (when `rw` cannot find it) -/
theorem PRes.norm_bind' {α β} {fa : α → α} {fb : β → β} {r r' : PRes α} {k k' : α → PState → PRes β}
    (hr : r' = r.norm fa) (h : ∀ a s, r = .ok a s → k' (fa a) s.norm = (k a s).norm fb) :
    r'.bind k' = (r.bind k).norm fb := by
  subst hr; exact PRes.norm_bind h

@[simp] theorem err1_norm (code : String) (labels : List Span) : (P.err1 code labels).norm = P.err1 code (zeroSpans labels) := rfl

namespace P

/-! ## cursor primitives -/

theorem peek_norm (s : PState) : peek s.norm = (peek s).norm Token.norm := by
  unfold peek
  cases h : s.after <;> simp [PState.norm, h]

theorem previous_norm (s : PState) : previous s.norm = (previous s).norm Token.norm := by
  unfold previous
  cases h : s.before <;> simp [PState.norm, h]

theorem isAtEnd_norm (s : PState) : isAtEnd s.norm = (isAtEnd s).norm id := by
  unfold isAtEnd
  rw [peek_norm]
  apply PRes.norm_bind
  intro t s' _
  simp

theorem advance_norm (s : PState) : advance s.norm = (advance s).norm Token.norm := by
  unfold advance
  rw [isAtEnd_norm]
  apply PRes.norm_bind
  intro e s' _
  simp only [id]
  split
  · exact previous_norm s'
  · cases h : s'.after with
    | nil => simp [PState.norm, h]
    | cons t r =>
      have : ({ s' with before := t :: s'.before, after := r } : PState).norm =
          { s'.norm with before := t.norm :: s'.norm.before, after := r.map Token.norm } := rfl
      simp only [PState.norm, h, List.map_cons]
      exact previous_norm { s' with before := t :: s'.before, after := r }

theorem check_norm (tt : TT) (s : PState) : check tt s.norm = (check tt s).norm id := by
  unfold check
  rw [isAtEnd_norm]
  apply PRes.norm_bind
  intro e s' _
  simp only [id]
  split
  · rfl
  · rw [peek_norm]
    apply PRes.norm_bind
    intro t s'' _
    simp

theorem matchToken_norm (tt : TT) (s : PState) :
    matchToken tt s.norm = (matchToken tt s).norm (Option.map Token.norm) := by
  unfold matchToken
  rw [check_norm]
  apply PRes.norm_bind
  intro c s' _
  simp only [id]
  split
  · rw [advance_norm]
    apply PRes.norm_bind
    intro t s'' _
    rfl
  · rfl

theorem matchTokens_norm (tts : List TT) (s : PState) :
    matchTokens tts s.norm = (matchTokens tts s).norm (Option.map Token.norm) := by
  induction tts generalizing s with
  | nil => rfl
  | cons tt tts ih =>
    unfold matchTokens
    rw [matchToken_norm]
    apply PRes.norm_bind
    intro m s' _
    cases m with
    | some t => rfl
    | none => exact ih s'

theorem consume_norm (tt : TT) (rep rep' : Token → PErr) (s : PState) (h : ∀ t, rep' t.norm = (rep t).norm) :
    consume tt rep' s.norm = (consume tt rep s).norm Token.norm := by
  unfold consume
  rw [peek_norm]
  apply PRes.norm_bind
  intro t s' _
  simp only [Token.norm_tt]
  by_cases hc : (t.tt == tt) = true
  · simp only [hc, if_true]; exact advance_norm s'
  · simp only [hc, Bool.false_eq_true, ↓reduceIte, PRes.norm_err, h]

theorem confirm_norm (tt : TT) (s : PState) : confirm tt s.norm = (confirm tt s).norm id := by
  unfold confirm
  rw [previous_norm]
  apply PRes.norm_bind
  intro t s' _
  simp only [Token.norm_tt]
  by_cases hc : (t.tt == tt) = true
  · simp only [hc, if_true]; rfl
  · simp only [hc]; rfl

/-! ## a matched / consumed token has the kind asked for (needed where its spelling is used) -/

theorem peek_ok {s t s'} (h : peek s = .ok t s') : s' = s ∧ ∃ r, s.after = t :: r := by
  unfold peek at h
  split at h
  · rename_i t0 r heq; cases h; exact ⟨rfl, r, heq⟩
  · cases h

theorem matchToken_tt {tt : TT} {s s' : PState} {t : Token} (h : matchToken tt s = .ok (some t) s') : t.tt = tt := by
  unfold matchToken check isAtEnd peek at h
  cases ha : s.after with
  | nil => simp [ha] at h
  | cons t0 r =>
    simp only [ha, PRes.bind_ok] at h
    by_cases he : (t0.tt == .eof) = true
    · simp [he] at h
    · by_cases hc : (t0.tt == tt) = true
      · simp [he, hc, advance, isAtEnd, peek, ha, previous] at h
        obtain ⟨rfl, _⟩ := h
        simpa using hc
      · simp [he, hc] at h

theorem consume_tt {tt : TT} (hne : tt ≠ .eof) {rep : Token → PErr} {s s' : PState} {t : Token}
    (h : consume tt rep s = .ok t s') : t.tt = tt := by
  unfold consume peek at h
  cases ha : s.after with
  | nil => simp [ha] at h
  | cons t0 r =>
    simp only [ha, PRes.bind_ok] at h
    by_cases hc : (t0.tt == tt) = true
    · have h0 : t0.tt = tt := by simpa using hc
      have he : (t0.tt == TT.eof) = false := by rw [h0]; simpa using hne
      simp [hc, he, advance, isAtEnd, peek, ha, previous] at h
      obtain ⟨rfl, _⟩ := h
      exact h0
    · simp [hc] at h

/-! ## the expression ladder -/

/-- erasure of the pair of accumulators of `callArgs` -/
def normArgs (p : List Expr × List Token) : List Expr × List Token := (p.1.map Expr.norm, p.2.map Token.norm)

theorem windowSpans_norm : ∀ toks : List Token, windowSpans (toks.map Token.norm) = zeroSpans (windowSpans toks)
  | [] => rfl
  | [_] => rfl
  | a :: b :: r => by
    have h := windowSpans_norm (b :: r)
    simp only [List.map_cons] at h ⊢
    simp only [windowSpans, zeroSpans_cons, h]
    rfl

structure ExprNorm (f : Nat) : Prop where
  expression : ∀ s, expression f (PState.norm s) = (expression f s).norm Expr.norm
  assignment : ∀ s, assignment f (PState.norm s) = (assignment f s).norm Expr.norm
  orE : ∀ s, orE f (PState.norm s) = (orE f s).norm Expr.norm
  orLoop : ∀ l s, orLoop f (Expr.norm l) (PState.norm s) = (orLoop f l s).norm Expr.norm
  andE : ∀ s, andE f (PState.norm s) = (andE f s).norm Expr.norm
  andLoop : ∀ l s, andLoop f (Expr.norm l) (PState.norm s) = (andLoop f l s).norm Expr.norm
  binLevel : ∀ lvl s, binLevel f lvl (PState.norm s) = (binLevel f lvl s).norm Expr.norm
  binLoop : ∀ lvl l s, binLoop f lvl (Expr.norm l) (PState.norm s) = (binLoop f lvl l s).norm Expr.norm
  unary : ∀ s, unary f (PState.norm s) = (unary f s).norm Expr.norm
  access : ∀ s, access f (PState.norm s) = (access f s).norm Expr.norm
  accessLoop : ∀ t e s, accessLoop f (Token.norm t) (Expr.norm e) (PState.norm s) = (accessLoop f t e s).norm Expr.norm
  primary : ∀ s, primary f (PState.norm s) = (primary f s).norm Expr.norm
  callArgs : ∀ a t s, callArgs f (a.map Expr.norm) (t.map Token.norm) (PState.norm s) = (callArgs f a t s).norm normArgs
  listItems : ∀ a s, listItems f (a.map Expr.norm) (PState.norm s) = (listItems f a s).norm (List.map Expr.norm)

theorem exprNorm_zero : ExprNorm 0 := by
  constructor <;> intros <;> simp only [P.expression, P.assignment, P.orE, P.orLoop, P.andE, P.andLoop,
    P.binLevel, P.binLoop, P.unary, P.access, P.accessLoop, P.primary, P.callArgs, P.listItems] <;> rfl

section step
variable {f : Nat} (ih : ExprNorm f)
include ih

theorem expression_nstep (s) : expression (f+1) (PState.norm s) = (expression (f+1) s).norm Expr.norm := by
  simp only [P.expression]; exact ih.assignment s

theorem assignment_nstep (s) : assignment (f+1) (PState.norm s) = (assignment (f+1) s).norm Expr.norm := by
  simp only [P.assignment]
  rw [ih.orE]
  apply PRes.norm_bind; intro e s1 _
  rw [previous_norm]
  apply PRes.norm_bind; intro exprTok s2 _
  rw [matchToken_norm]
  apply PRes.norm_bind; intro m s3 _
  cases m with
  | none => rfl
  | some arrow =>
    simp only [Option.map_some]
    rw [ih.assignment]
    apply PRes.norm_bind; intro value s4 _
    cases e <;> simp [Expr.norm]

theorem orLoop_nstep (l s) : orLoop (f+1) (Expr.norm l) (PState.norm s) = (orLoop (f+1) l s).norm Expr.norm := by
  simp only [P.orLoop]
  rw [matchToken_norm]
  apply PRes.norm_bind; intro m s1 _
  cases m with
  | none => rfl
  | some tok =>
    simp only [Option.map_some]
    rw [ih.andE]
    apply PRes.norm_bind; intro right s2 _
    exact ih.orLoop (.logical l .or right tok) s2

theorem accessLoop_nstep (t e s) :
    accessLoop (f+1) (Token.norm t) (Expr.norm e) (PState.norm s) = (accessLoop (f+1) t e s).norm Expr.norm := by
  simp only [P.accessLoop]
  rw [matchToken_norm]
  apply PRes.norm_bind; intro m s1 _
  cases m with
  | none => rfl
  | some lb =>
    simp only [Option.map_some]
    rw [ih.expression]
    apply PRes.norm_bind; intro index s2 _
    rw [consume_norm .rightBracket (fun t => err1 "missing_rbracket" [t.span]) _ s2 (fun t => by simp)]
    apply PRes.norm_bind; intro rb s3 _
    exact ih.accessLoop t (.access e t index lb rb) s3

theorem orE_nstep (s) : orE (f+1) (PState.norm s) = (orE (f+1) s).norm Expr.norm := by
  simp only [P.orE]
  rw [ih.andE]
  apply PRes.norm_bind; intro e s1 _
  exact ih.orLoop e s1

theorem andE_nstep (s) : andE (f+1) (PState.norm s) = (andE (f+1) s).norm Expr.norm := by
  simp only [P.andE]
  rw [ih.binLevel]
  apply PRes.norm_bind; intro e s1 _
  exact ih.andLoop e s1

theorem andLoop_nstep (l s) : andLoop (f+1) (Expr.norm l) (PState.norm s) = (andLoop (f+1) l s).norm Expr.norm := by
  simp only [P.andLoop]
  rw [matchToken_norm]
  apply PRes.norm_bind; intro m s1 _
  cases m with
  | none => rfl
  | some tok =>
    simp only [Option.map_some]
    rw [ih.andE]
    apply PRes.norm_bind; intro right s2 _
    exact ih.andLoop (.logical l .and right tok) s2

theorem operand_norm (lvl : BinLevel) (s : PState) :
    (match lvl.next with | some n => binLevel f n s.norm | none => unary f s.norm) =
      (match lvl.next with | some n => binLevel f n s | none => unary f s).norm Expr.norm := by
  cases lvl.next with
  | some n => exact ih.binLevel n s
  | none => exact ih.unary s

theorem binLevel_nstep (lvl s) : binLevel (f+1) lvl (PState.norm s) = (binLevel (f+1) lvl s).norm Expr.norm := by
  simp only [P.binLevel]
  apply PRes.norm_bind' (operand_norm ih lvl s); intro e s1 _
  exact ih.binLoop lvl e s1

theorem binLoop_nstep (lvl l s) :
    binLoop (f+1) lvl (Expr.norm l) (PState.norm s) = (binLoop (f+1) lvl l s).norm Expr.norm := by
  simp only [P.binLoop]
  rw [matchTokens_norm]
  apply PRes.norm_bind; intro m s1 _
  cases m with
  | none => rfl
  | some tok =>
    simp only [Option.map_some]
    apply PRes.norm_bind' (operand_norm ih lvl s1); intro right s2 _
    simp only [Token.norm_tt]
    cases toBinOp tok.tt with
    | some op => exact ih.binLoop lvl (.binary l op right tok) s2
    | none => rfl

theorem unary_nstep (s) : unary (f+1) (PState.norm s) = (unary (f+1) s).norm Expr.norm := by
  simp only [P.unary]
  rw [matchTokens_norm]
  apply PRes.norm_bind; intro m s1 _
  cases m with
  | none => exact ih.access s1
  | some tok =>
    simp only [Option.map_some]
    rw [ih.unary]
    apply PRes.norm_bind; intro right s2 _
    simp only [Token.norm_tt]
    cases toUnOp tok.tt with
    | some op => simp [Expr.norm]
    | none => rfl

theorem access_nstep (s) : access (f+1) (PState.norm s) = (access (f+1) s).norm Expr.norm := by
  simp only [P.access]
  rw [ih.primary]
  apply PRes.norm_bind; intro e s1 _
  rw [previous_norm]
  apply PRes.norm_bind; intro t s2 _
  exact ih.accessLoop t e s2

theorem callArgs_nstep (a t s) :
    callArgs (f+1) (a.map Expr.norm) (t.map Token.norm) (PState.norm s) = (callArgs (f+1) a t s).norm normArgs := by
  simp only [P.callArgs, List.length_map]
  by_cases hc : a.length ≥ 255
  · simp only [hc, if_true]; rfl
  · simp only [hc, if_false]
    rw [ih.expression]
    apply PRes.norm_bind; intro e s1 _
    rw [peek_norm]
    apply PRes.norm_bind; intro nxt s2 _
    rw [matchToken_norm]
    apply PRes.norm_bind; intro m s3 _
    cases m with
    | some c =>
      simp only [Option.map_some]
      have h := ih.callArgs (a ++ [e]) (t ++ [nxt]) s3
      simpa using h
    | none => simp [normArgs]

theorem listItems_nstep (a s) :
    listItems (f+1) (a.map Expr.norm) (PState.norm s) = (listItems (f+1) a s).norm (List.map Expr.norm) := by
  simp only [P.listItems]
  rw [ih.expression]
  apply PRes.norm_bind; intro e s1 _
  rw [matchToken_norm]
  apply PRes.norm_bind; intro m s2 _
  cases m with
  | some c =>
    simp only [Option.map_some]
    have h := ih.listItems (a ++ [e]) s2
    simpa using h
  | none => simp

theorem primary_nstep (s) : primary (f+1) (PState.norm s) = (primary (f+1) s).norm Expr.norm := by
  simp only [P.primary]
  rw [matchToken_norm]
  apply PRes.norm_bind; intro m s1 _
  cases m with
  | some tok => simp [Expr.norm]
  | none =>
  simp only [Option.map_none]
  rw [matchToken_norm]
  apply PRes.norm_bind; intro m s2 _
  cases m with
  | some tok => simp [Expr.norm]
  | none =>
  simp only [Option.map_none]
  rw [matchToken_norm]
  apply PRes.norm_bind; intro m s3 _
  cases m with
  | some tok => simp [Expr.norm]
  | none =>
  simp only [Option.map_none]
  rw [matchToken_norm]
  apply PRes.norm_bind; intro m s4 _
  cases m with
  | some tok =>
    simp only [Option.map_some, Token.norm_lit]
    cases tok.lit <;> simp [Expr.norm]
  | none =>
  simp only [Option.map_none]
  rw [matchToken_norm]
  apply PRes.norm_bind; intro m s5 _
  cases m with
  | some tok =>
    simp only [Option.map_some, Token.norm_lit]
    cases tok.lit <;> simp [Expr.norm]
  | none =>
  simp only [Option.map_none]
  rw [matchToken_norm]
  apply PRes.norm_bind; intro m s6 h6
  cases m with
  | some tok =>
    have hlex : tok.norm.lexeme = tok.lexeme := Token.norm_lexeme (matchToken_tt h6)
    simp only [Option.map_some]
    rw [matchToken_norm]
    apply PRes.norm_bind; intro m s7 _
    cases m with
    | none => simp [Expr.norm, hlex]
    | some lp =>
      simp only [Option.map_some]
      rw [check_norm]
      apply PRes.norm_bind; intro c s8 _
      apply PRes.norm_bind' (fa := normArgs) (r := if c = true then .ok ([], [lp]) s8 else callArgs f [] [lp] s8)
      · cases c
        · simp only [id, Bool.false_eq_true, if_false]; exact ih.callArgs [] [lp] s8
        · simp [normArgs]
      · intro p s9 _
        obtain ⟨args, argToks⟩ := p
        simp only [normArgs]
        rw [consume_norm .rightParen (fun t => err1 "missing_rp" [t.span]) _ s9 (fun t => by simp)]
        apply PRes.norm_bind; intro rp s10 _
        simp [Expr.norm, Expr.normL_eq_map, windowSpans_norm, hlex]
  | none =>
  simp only [Option.map_none]
  rw [matchToken_norm]
  apply PRes.norm_bind; intro m s7 _
  cases m with
  | some lp =>
    simp only [Option.map_some]
    rw [ih.expression]
    apply PRes.norm_bind; intro e s8 _
    rw [consume_norm .rightParen (fun t => err1 "missing_lp" [t.span]) _ s8 (fun t => by simp)]
    apply PRes.norm_bind; intro rp s9 _
    simp [Expr.norm]
  | none =>
  simp only [Option.map_none]
  rw [matchToken_norm]
  apply PRes.norm_bind; intro m s8 _
  cases m with
  | some lb =>
    simp only [Option.map_some]
    rw [check_norm]
    apply PRes.norm_bind; intro c s9 _
    apply PRes.norm_bind' (fa := List.map Expr.norm) (r := if c = true then .ok [] s9 else listItems f [] s9)
    · cases c
      · simp only [id, Bool.false_eq_true, if_false]; exact ih.listItems [] s9
      · simp
    · intro items s10 _
      rw [consume_norm .rightBracket (fun t => err1 "missing_rb" [t.span]) _ s10 (fun t => by simp)]
      apply PRes.norm_bind; intro rb s11 _
      simp [Expr.norm, Expr.normL_eq_map]
  | none =>
    simp only [Option.map_none]
    rw [peek_norm]
    apply PRes.norm_bind; intro t s9 _
    simp

end step

theorem exprNorm : ∀ f, ExprNorm f
  | 0 => exprNorm_zero
  | f+1 =>
    have ih := exprNorm f
    { expression := expression_nstep ih, assignment := assignment_nstep ih, orE := orE_nstep ih,
      orLoop := orLoop_nstep ih, andE := andE_nstep ih, andLoop := andLoop_nstep ih,
      binLevel := binLevel_nstep ih, binLoop := binLoop_nstep ih, unary := unary_nstep ih,
      access := access_nstep ih, accessLoop := accessLoop_nstep ih, primary := primary_nstep ih,
      callArgs := callArgs_nstep ih, listItems := listItems_nstep ih }

theorem expression_norm (f s) : expression f (PState.norm s) = (expression f s).norm Expr.norm :=
  (exprNorm f).expression s

/-! ## statements: the helpers outside the mutual block -/

theorem terminator_norm (code lab s) : terminator code lab (PState.norm s) = (terminator code lab s).norm id := by
  unfold terminator
  rw [isAtEnd_norm]
  apply PRes.norm_bind; intro e s1 _
  simp only [id]
  cases e
  · simp only [Bool.false_eq_true, if_false]
    rw [check_norm]
    apply PRes.norm_bind; intro c s2 _
    simp only [id]
    cases c
    · simp only [Bool.false_eq_true, if_false]
      rw [consume_norm .softSemi (fun t => err1 code (if lab then [t.span] else [])) _ s2
        (fun t => by cases lab <;> simp)]
      apply PRes.norm_bind; intro _ s3 _
      rfl
    · rfl
  · rfl

theorem expressionStatement_norm (f s) :
    expressionStatement f (PState.norm s) = (expressionStatement f s).norm Stmt.norm := by
  unfold expressionStatement
  rw [expression_norm]
  apply PRes.norm_bind; intro e s1 _
  rw [terminator_norm]
  apply PRes.norm_bind; intro _ s2 _
  simp [Stmt.norm]

theorem returnStatement_norm (f tok s) :
    returnStatement f (Token.norm tok) (PState.norm s) = (returnStatement f tok s).norm Stmt.norm := by
  unfold returnStatement
  simp only [PState.norm_inFn]
  rcases Bool.eq_false_or_eq_true s.inFn with hf | hf
  · simp only [hf, Bool.not_true, Bool.false_eq_true, if_false]
    rw [matchToken_norm]
    apply PRes.norm_bind; intro m s1 _
    cases m with
    | some _ => simp [Stmt.norm]
    | none =>
      simp only [Option.map_none]
      rw [isAtEnd_norm]
      apply PRes.norm_bind; intro e s2 _
      rw [check_norm]
      apply PRes.norm_bind; intro c s3 _
      simp only [id]
      by_cases h : (e || c) = true
      · simp [h, Stmt.norm]
      · simp only [h]
        rw [expression_norm]
        apply PRes.norm_bind; intro v s4 _
        rw [terminator_norm]
        apply PRes.norm_bind; intro _ s5 _
        simp [Stmt.norm]
  · simp [hf]

theorem importNames_norm : ∀ f lb names s,
    importNames f (Token.norm lb) (names.map Token.norm) (PState.norm s) =
      (importNames f lb names s).norm (List.map Token.norm)
  | 0, _, _, _ => rfl
  | f+1, lb, names, s => by
    simp only [importNames, List.length_map]
    by_cases hc : names.length ≥ 63
    · simp only [hc, if_true, PRes.norm_err, err1_norm, List.getLast?_map]
      cases names.getLast? <;> rfl
    · simp only [hc, if_false]
      rw [consume_norm .stringLiteral (fun _ => err1 "expected_specific_function" []) _ s (fun _ => by rfl)]
      apply PRes.norm_bind; intro t s1 _
      rw [matchToken_norm]
      apply PRes.norm_bind; intro m s2 _
      cases m with
      | some _ =>
        simp only [Option.map_some]
        have h := importNames_norm f lb (names ++ [t]) s2
        simpa using h
      | none => simp

theorem importStatement_norm (f tok s) :
    importStatement f (Token.norm tok) (PState.norm s) = (importStatement f tok s).norm Stmt.norm := by
  unfold importStatement
  rw [matchToken_norm]
  apply PRes.norm_bind; intro m s1 _
  apply PRes.norm_bind' (fa := Option.map (List.map Token.norm))
  · cases m with
    | some lb =>
      simp only [Option.map_some]
      have h := importNames_norm f lb [] s1
      rw [List.map_nil] at h
      rw [h]
      apply PRes.norm_bind; intro names s2 _
      rw [consume_norm .rightBracket (fun _ => err1 "import_rbracket" []) _ s2 (fun _ => by rfl)]
      apply PRes.norm_bind; intro _ s3 _
      rfl
    | none =>
      simp only [Option.map_none]
      rw [matchToken_norm]
      apply PRes.norm_bind; intro m s2 _
      cases m <;> rfl
  · intro only s2 _
    apply PRes.norm_bind' (fa := Option.map Token.norm)
    · cases only with
      | some _ =>
        simp only [Option.map_some]
        rw [consume_norm .from_ (fun _ => err1 "expected_from" []) _ s2 (fun _ => by rfl)]
        apply PRes.norm_bind; intro t s3 _
        rfl
      | none => rfl
    · intro fromTok s3 _
      rw [consume_norm .mod_ (fun _ => err1 "expected_mod" []) _ s3 (fun _ => by rfl)]
      apply PRes.norm_bind; intro modTok s4 _
      rw [consume_norm .stringLiteral (fun _ => err1 "expected_module_name" []) _ s4 (fun _ => by rfl)]
      apply PRes.norm_bind; intro modName s5 _
      rw [terminator_norm]
      apply PRes.norm_bind; intro _ s6 _
      simp [Stmt.norm]

theorem procParams_norm : ∀ f params s,
    procParams f (params.map fun p : Str × Token => (p.1, p.2.norm)) (PState.norm s) =
      (procParams f params s).norm (List.map fun p : Str × Token => (p.1, p.2.norm))
  | 0, _, _ => rfl
  | f+1, params, s => by
    simp only [procParams, List.length_map]
    by_cases hc : params.length ≥ 255
    · simp only [hc, if_true]; rfl
    · simp only [hc, if_false]
      rw [consume_norm .identifier (fun _ => err1 "param_ident" []) _ s (fun _ => by rfl)]
      apply PRes.norm_bind; intro t s1 h1
      have hlex : t.norm.lexeme = t.lexeme := Token.norm_lexeme (consume_tt (by decide) h1)
      rw [matchToken_norm]
      apply PRes.norm_bind; intro m s2 _
      cases m with
      | some _ =>
        simp only [Option.map_some]
        have h := procParams_norm f (params ++ [(t.lexeme, t)]) s2
        simpa [hlex] using h
      | none => simp [hlex]

theorem restoreLoop_norm {α} (c : Bool) (fa : α → α) (r : PRes α) :
    restoreLoop c (r.norm fa) = (restoreLoop c r).norm fa := by
  cases r <;> rfl

/-! ## statements: the mutual block -/

structure StmtNorm (f : Nat) : Prop where
  declaration : ∀ s, declaration f (PState.norm s) = (declaration f s).norm Stmt.norm
  procedure : ∀ t s, procedure f (Token.norm t) (PState.norm s) = (procedure f t s).norm Stmt.norm
  statement : ∀ s, statement f (PState.norm s) = (statement f s).norm Stmt.norm
  blockLoop : ∀ acc s, blockLoop f (acc.map Stmt.norm) (PState.norm s) = (blockLoop f acc s).norm (List.map Stmt.norm)
  ifStatement : ∀ t s, ifStatement f (Token.norm t) (PState.norm s) = (ifStatement f t s).norm Stmt.norm
  repeatTimes : ∀ t s, repeatTimes f (Token.norm t) (PState.norm s) = (repeatTimes f t s).norm Stmt.norm
  repeatUntil : ∀ t s, repeatUntil f (Token.norm t) (PState.norm s) = (repeatUntil f t s).norm Stmt.norm
  forEach : ∀ t s, forEach f (Token.norm t) (PState.norm s) = (forEach f t s).norm Stmt.norm

theorem stmtNorm_zero : StmtNorm 0 := by
  constructor <;> intros <;> simp only [P.declaration, P.procedure, P.statement, P.blockLoop, P.ifStatement,
    P.repeatTimes, P.repeatUntil, P.forEach] <;> rfl

section sstep
variable {f : Nat} (ih : StmtNorm f)
include ih

theorem declaration_nstep (s) : declaration (f+1) (PState.norm s) = (declaration (f+1) s).norm Stmt.norm := by
  simp only [P.declaration]
  rw [matchTokens_norm]
  apply PRes.norm_bind; intro m s1 _
  cases m with
  | some t => exact ih.procedure t s1
  | none => exact ih.statement s1

theorem procedure_nstep (t s) :
    procedure (f+1) (Token.norm t) (PState.norm s) = (procedure (f+1) t s).norm Stmt.norm := by
  simp only [P.procedure, Token.norm_tt]
  apply PRes.norm_bind' (fa := fun p : Token × Bool => (p.1.norm, p.2))
  · by_cases hc : (t.tt == .export_) = true
    · simp only [hc, if_true]
      rw [consume_norm .procedure (fun t => err1 "standalone_export" [t.span, t.span]) _ s (fun t => by simp)]
      apply PRes.norm_bind; intro pt s1 _
      rfl
    · simp only [hc, Bool.false_eq_true, if_false]; rfl
  · intro p s1 _
    obtain ⟨procTok, exported⟩ := p
    dsimp only
    rw [consume_norm .identifier (fun t => err1 "unnamed_procedure" [procTok.span, t.span]) _ s1 (fun t => by simp)]
    apply PRes.norm_bind; intro nameTok s2 h2
    have hlex : nameTok.norm.lexeme = nameTok.lexeme := Token.norm_lexeme (consume_tt (by decide) h2)
    rw [consume_norm .leftParen (fun t => err1 "missing_lp" [t.span, nameTok.span]) _ s2 (fun t => by simp)]
    apply PRes.norm_bind; intro _ s3 _
    rw [check_norm]
    apply PRes.norm_bind; intro c s4 _
    apply PRes.norm_bind' (fa := List.map fun p : Str × Token => (p.1, p.2.norm))
    · cases c
      · simp only [id, Bool.false_eq_true, if_false]; exact procParams_norm f [] s4
      · rfl
    · intro params s5 _
      rw [consume_norm .rightParen (fun t => err1 "missing_rp" [t.span]) _ s5 (fun t => by simp)]
      apply PRes.norm_bind; intro _ s6 _
      apply PRes.norm_bind' (ih.statement { s6 with inFn := true, inLoop := false })
      intro body s7 _
      simp [Stmt.norm, hlex]

theorem blockLoop_nstep (acc s) :
    blockLoop (f+1) (acc.map Stmt.norm) (PState.norm s) = (blockLoop (f+1) acc s).norm (List.map Stmt.norm) := by
  simp only [P.blockLoop]
  rw [check_norm]
  apply PRes.norm_bind; intro c s1 _
  rw [isAtEnd_norm]
  apply PRes.norm_bind; intro e s2 _
  simp only [id]
  by_cases h : (c || e) = true
  · simp only [h, if_true]; rfl
  · simp only [h]
    rw [matchToken_norm]
    apply PRes.norm_bind; intro m s3 _
    cases m with
    | some _ => exact ih.blockLoop acc s3
    | none =>
      simp only [Option.map_none]
      rw [ih.declaration]
      apply PRes.norm_bind; intro st s4 _
      have h := ih.blockLoop (acc ++ [st]) s4
      simpa using h

theorem ifStatement_nstep (t s) :
    ifStatement (f+1) (Token.norm t) (PState.norm s) = (ifStatement (f+1) t s).norm Stmt.norm := by
  simp only [P.ifStatement]
  rw [consume_norm .leftParen (fun x => err1 "missing_lp" [x.span, t.span]) _ s (fun x => by simp)]
  apply PRes.norm_bind; intro _ s1 _
  rw [expression_norm]
  apply PRes.norm_bind; intro cond s2 _
  rw [consume_norm .rightParen (fun x => err1 "missing_rp" [x.span]) _ s2 (fun x => by simp)]
  apply PRes.norm_bind; intro _ s3 _
  rw [ih.statement]
  apply PRes.norm_bind; intro thn s4 _
  rw [matchToken_norm]
  apply PRes.norm_bind; intro m s5 _
  cases m with
  | some et =>
    simp only [Option.map_some]
    rw [ih.statement]
    apply PRes.norm_bind; intro els s6 _
    simp [Stmt.norm, Stmt.normO]
  | none => simp [Stmt.norm, Stmt.normO]

theorem repeatTimes_nstep (t s) :
    repeatTimes (f+1) (Token.norm t) (PState.norm s) = (repeatTimes (f+1) t s).norm Stmt.norm := by
  simp only [P.repeatTimes]
  rw [confirm_norm]
  apply PRes.norm_bind; intro _ s1 _
  rw [expression_norm]
  apply PRes.norm_bind; intro count s2 _
  rw [previous_norm]
  apply PRes.norm_bind; intro countTok s3 _
  rw [consume_norm .times (fun x => err1 "missing_times" [x.span]) _ s3 (fun x => by simp)]
  apply PRes.norm_bind; intro timesTok s4 _
  rw [ih.statement]
  apply PRes.norm_bind; intro body s5 _
  simp [Stmt.norm]

theorem repeatUntil_nstep (t s) :
    repeatUntil (f+1) (Token.norm t) (PState.norm s) = (repeatUntil (f+1) t s).norm Stmt.norm := by
  simp only [P.repeatUntil]
  rw [confirm_norm]
  apply PRes.norm_bind; intro _ s1 _
  rw [consume_norm .until_ (fun _ => err1 "expected_until" []) _ s1 (fun _ => by rfl)]
  apply PRes.norm_bind; intro untilTok s2 _
  rw [consume_norm .leftParen (fun x => err1 "missing_lp" [x.span, untilTok.span]) _ s2 (fun x => by simp)]
  apply PRes.norm_bind; intro _ s3 _
  rw [expression_norm]
  apply PRes.norm_bind; intro cond s4 _
  rw [consume_norm .rightParen (fun x => err1 "missing_rp" [x.span]) _ s4 (fun x => by simp)]
  apply PRes.norm_bind; intro _ s5 _
  rw [ih.statement]
  apply PRes.norm_bind; intro body s6 _
  simp [Stmt.norm]

theorem forEach_nstep (t s) :
    forEach (f+1) (Token.norm t) (PState.norm s) = (forEach (f+1) t s).norm Stmt.norm := by
  simp only [P.forEach]
  rw [confirm_norm]
  apply PRes.norm_bind; intro _ s1 _
  rw [consume_norm .each (fun x => err1 "missing_each" [x.span]) _ s1 (fun x => by simp)]
  apply PRes.norm_bind; intro eachTok s2 _
  rw [consume_norm .identifier (fun x => err1 "missing_ident" [eachTok.span, x.span]) _ s2 (fun x => by simp)]
  apply PRes.norm_bind; intro itemTok s3 h3
  have hlex : itemTok.norm.lexeme = itemTok.lexeme := Token.norm_lexeme (consume_tt (by decide) h3)
  rw [consume_norm .in_ (fun x => err1 "missing_in" [itemTok.span, x.span]) _ s3 (fun x => by simp)]
  apply PRes.norm_bind; intro inTok s4 _
  rw [expression_norm]
  apply PRes.norm_bind; intro list s5 _
  rw [previous_norm]
  apply PRes.norm_bind; intro listTok s6 _
  rw [ih.statement]
  apply PRes.norm_bind; intro body s7 _
  simp [Stmt.norm, hlex]

theorem statement_nstep (s) : statement (f+1) (PState.norm s) = (statement (f+1) s).norm Stmt.norm := by
  simp only [P.statement]
  rw [matchToken_norm]
  apply PRes.norm_bind; intro m s1 _
  cases m with
  | some t => exact importStatement_norm f t s1
  | none =>
  simp only [Option.map_none]
  rw [matchToken_norm]
  apply PRes.norm_bind; intro m s2 _
  cases m with
  | some t => exact ih.ifStatement t s2
  | none =>
  simp only [Option.map_none]
  rw [matchToken_norm]
  apply PRes.norm_bind; intro m s3 _
  cases m with
  | some t =>
    simp only [Option.map_some, PState.norm_inLoop]
    rw [← PState.norm_inLoop_set, check_norm]
    apply PRes.norm_bind; intro c s4 _
    simp only [id]
    rw [← restoreLoop_norm]
    congr 1
    cases c
    · simp only [Bool.false_eq_true, if_false]; exact ih.repeatTimes t s4
    · simp only [if_true]; exact ih.repeatUntil t s4
  | none =>
  simp only [Option.map_none]
  rw [matchToken_norm]
  apply PRes.norm_bind; intro m s4 _
  cases m with
  | some t =>
    simp only [Option.map_some, PState.norm_inLoop]
    rw [← PState.norm_inLoop_set, ih.forEach, restoreLoop_norm]
  | none =>
  simp only [Option.map_none]
  rw [matchToken_norm]
  apply PRes.norm_bind; intro m s5 _
  cases m with
  | some lb =>
    simp only [Option.map_some]
    have h := ih.blockLoop [] s5
    rw [List.map_nil] at h
    rw [h]
    apply PRes.norm_bind; intro stmts s6 _
    rw [consume_norm .rightBrace (fun _ => err1 "missing_rb" [lb.span]) _ s6 (fun _ => by simp)]
    apply PRes.norm_bind; intro rb s7 _
    simp [Stmt.norm, Stmt.normL_eq_map]
  | none =>
  simp only [Option.map_none]
  rw [matchToken_norm]
  apply PRes.norm_bind; intro m s6 _
  cases m with
  | some t =>
    simp only [Option.map_some, PState.norm_inLoop]
    rcases Bool.eq_false_or_eq_true s6.inLoop with hl | hl <;> simp [hl, Stmt.norm]
  | none =>
  simp only [Option.map_none]
  rw [matchToken_norm]
  apply PRes.norm_bind; intro m s7 _
  cases m with
  | some t =>
    simp only [Option.map_some, PState.norm_inLoop]
    rcases Bool.eq_false_or_eq_true s7.inLoop with hl | hl <;> simp [hl, Stmt.norm]
  | none =>
  simp only [Option.map_none]
  rw [matchToken_norm]
  apply PRes.norm_bind; intro m s8 _
  cases m with
  | some t => exact returnStatement_norm f t s8
  | none => exact expressionStatement_norm f s8

end sstep

theorem stmtNorm : ∀ f, StmtNorm f
  | 0 => stmtNorm_zero
  | f+1 =>
    have ih := stmtNorm f
    { declaration := declaration_nstep ih, procedure := procedure_nstep ih, statement := statement_nstep ih,
      blockLoop := blockLoop_nstep ih, ifStatement := ifStatement_nstep ih, repeatTimes := repeatTimes_nstep ih,
      repeatUntil := repeatUntil_nstep ih, forEach := forEach_nstep ih }

theorem declaration_norm (f s) : declaration f (PState.norm s) = (declaration f s).norm Stmt.norm :=
  (stmtNorm f).declaration s

/-! ## error recovery and the top-level loop -/

theorem syncLoop_norm : ∀ f s, syncLoop f (PState.norm s) = (syncLoop f s).norm id
  | 0, _ => rfl
  | f+1, s => by
    simp only [syncLoop]
    rw [isAtEnd_norm]
    apply PRes.norm_bind; intro e s1 _
    simp only [id]
    cases e
    · simp only [Bool.false_eq_true, if_false]
      rw [peek_norm]
      apply PRes.norm_bind; intro t s2 _
      simp only [Token.norm_tt]
      rcases Bool.eq_false_or_eq_true (isSyncPoint t.tt) with hp | hp
      · simp only [hp, if_true]; rfl
      · simp only [hp, Bool.false_eq_true, if_false]
        rw [advance_norm]
        apply PRes.norm_bind; intro _ s3 _
        exact syncLoop_norm f s3
    · rfl

theorem synchronize_norm (f s) : synchronize f (PState.norm s) = (synchronize f s).norm id := by
  unfold synchronize
  rw [advance_norm]
  apply PRes.norm_bind; intro _ s1 _
  exact syncLoop_norm f s1

/-- erasure of the parser's outcome -/
def ParseOut.norm : ParseOut → ParseOut
  | .ok prog => .ok (prog.map Stmt.norm)
  | .errs es => .errs (es.map PErr.norm)
  | .panic p => .panic p
  | .fuel => .fuel

theorem parseLoop_norm : ∀ f stmts errs s,
    parseLoop f (stmts.map Stmt.norm) (errs.map PErr.norm) (PState.norm s) = (parseLoop f stmts errs s).norm
  | 0, _, _, _ => rfl
  | f+1, stmts, errs, s => by
    simp only [parseLoop]
    rw [isAtEnd_norm]
    cases isAtEnd s with
    | panic p => rfl
    | fuel => rfl
    | err e s1 => rfl
    | ok b s1 =>
      cases b with
      | true => cases errs <;> rfl
      | false =>
        simp only [PRes.norm_ok, id]
        rw [matchToken_norm]
        cases matchToken .softSemi s1 with
        | panic p => rfl
        | fuel => rfl
        | err e s2 => rfl
        | ok m s2 =>
          cases m with
          | some _ => exact parseLoop_norm f stmts errs s2
          | none =>
            simp only [PRes.norm_ok, Option.map_none]
            rw [declaration_norm]
            cases declaration f s2 with
            | panic p => rfl
            | fuel => rfl
            | ok st s3 =>
              simp only [PRes.norm_ok]
              have h := parseLoop_norm f (stmts ++ [st]) errs s3
              simpa using h
            | err e s3 =>
              simp only [PRes.norm_err]
              rw [synchronize_norm]
              cases synchronize f s3 with
              | panic p => rfl
              | fuel => rfl
              | err e' s4 => rfl
              | ok _ s4 =>
                simp only [PRes.norm_ok]
                have h := parseLoop_norm f stmts (errs ++ [e]) s4
                simpa using h

end P

/-- **C06 (parser).** Parsing the erased token stream gives the erasure of the parse. -/
theorem parse_norm (f : Nat) (ts : List Token) : parse f (ts.map Token.norm) = (parse f ts).norm := by
  unfold parse
  exact P.parseLoop_norm f [] [] ⟨[], ts, false, false⟩

end Aplang
