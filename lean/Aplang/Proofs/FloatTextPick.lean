import Aplang.Proofs.FloatTextDefs
/-!
# Number → text: the digit search of `F64.shortestGen` (`scale` + `pick`) is sound and succeeds

* `scale_*` — what `F64.scale` computes, in closed form (`scA`, `scDen`, `estOf`), and the characterisation of
  `lo` / `hi` as the least / greatest integer of the scaled rounding interval;
* `pick_sound` — whatever `pick` returns (non-zero) lies in `[lo, hi]` at the unit where it stopped;
* `scale_v_ge`, `scale_unit_one`, `pick_succeeds` — the estimate `est` of `⌊log10 x⌋` is a lower estimate
  (table check of `⌊T·30103/100000⌋` against `2^T`, `-1074 ≤ T ≤ 1023`), so the scaled value has at least 17 digits,
  the scaled interval is wider than one unit, and the search stops at unit `1` at the latest;
* `shortestGen_inside` — the result is a decimal inside the rounding interval.
-/
namespace Aplang.FloatText

/-- what `scale` computes, without `if`/`<<<`/`natAbs`: `scA / scDen = 2^(e-2) / 10^s0` -/
def scA (e s0 : Int) : Nat := 10 ^ (-s0).toNat * 2 ^ (e - 2).toNat
def scDen (e s0 : Int) : Nat := 10 ^ s0.toNat * 2 ^ (2 - e).toNat
/-- the estimate of `⌊log10 (m·2^e)⌋` used by `scale` -/
def estOf (m : Nat) (e : Int) : Int := (((m.log2 : Nat) : Int) + e) * 30103 / 100000

theorem ftk_scA_pos (e s0 : Int) : 0 < scA e s0 :=
  Nat.mul_pos (Nat.pow_pos (by decide)) (Nat.pow_pos (by decide))

theorem ftk_scDen_pos (e s0 : Int) : 0 < scDen e s0 :=
  Nat.mul_pos (Nat.pow_pos (by decide)) (Nat.pow_pos (by decide))

private theorem ftk_a (e s0 : Int) :
    (if s0 < 0 then F64.pow10 s0.natAbs else 1) <<< (if e - 2 ≥ 0 then (e - 2).toNat else 0) = scA e s0 := by
  unfold scA F64.pow10
  rw [Nat.shiftLeft_eq]
  have h1 : (if e - 2 ≥ 0 then (e - 2).toNat else 0) = (e - 2).toNat := by split <;> omega
  have h2 : (if s0 < 0 then 10 ^ s0.natAbs else 1) = 10 ^ (-s0).toNat := by
    split
    · have : s0.natAbs = (-s0).toNat := by omega
      rw [this]
    · have : (-s0).toNat = 0 := by omega
      simp only [this, Nat.pow_zero]
  rw [h1, h2]

private theorem ftk_den (e s0 : Int) :
    (if s0 ≥ 0 then F64.pow10 s0.toNat else 1) <<< (if e - 2 < 0 then (e - 2).natAbs else 0) = scDen e s0 := by
  unfold scDen F64.pow10
  rw [Nat.shiftLeft_eq]
  have h1 : (if e - 2 < 0 then (e - 2).natAbs else 0) = (2 - e).toNat := by split <;> omega
  have h2 : (if s0 ≥ 0 then 10 ^ s0.toNat else 1) = 10 ^ s0.toNat := by
    split
    · rfl
    · have : s0.toNat = 0 := by omega
      simp only [this, Nat.pow_zero]
  rw [h1, h2]

theorem scale_s0 (m : Nat) (e : Int) (asym : Bool) : (F64.scale m e asym).s0 = estOf m e - 16 := rfl

theorem scale_den (m : Nat) (e : Int) (asym : Bool) :
    (F64.scale m e asym).den = scDen e (estOf m e - 16) := ftk_den e (estOf m e - 16)

theorem scale_v (m : Nat) (e : Int) (asym : Bool) :
    (F64.scale m e asym).v = 4 * m * scA e (estOf m e - 16) / scDen e (estOf m e - 16) := by
  rw [← ftk_a, ← ftk_den]; rfl

theorem scale_rv (m : Nat) (e : Int) (asym : Bool) :
    (F64.scale m e asym).rv = 4 * m * scA e (estOf m e - 16) % scDen e (estOf m e - 16) := by
  rw [← ftk_a, ← ftk_den]; rfl

theorem ftk_scale_lo (m : Nat) (e : Int) (asym : Bool) :
    (F64.scale m e asym).lo =
      if m % 2 = 0 then
        (l4 m asym * scA e (estOf m e - 16) + scDen e (estOf m e - 16) - 1) / scDen e (estOf m e - 16)
      else l4 m asym * scA e (estOf m e - 16) / scDen e (estOf m e - 16) + 1 := by
  rw [← ftk_a, ← ftk_den]
  by_cases h : m % 2 = 0
  · have hb : (m % 2 == 0) = true := by rw [h]; rfl
    rw [if_pos h]
    show (if (m % 2 == 0) = true then _ else _) = _
    rw [if_pos hb]; rfl
  · have hb : ¬ (m % 2 == 0) = true := by
      intro hb; exact h (by simpa using hb)
    rw [if_neg h]
    show (if (m % 2 == 0) = true then _ else _) = _
    rw [if_neg hb]; rfl

theorem ftk_scale_hi (m : Nat) (e : Int) (asym : Bool) :
    (F64.scale m e asym).hi =
      if m % 2 = 0 then h4 m * scA e (estOf m e - 16) / scDen e (estOf m e - 16)
      else (h4 m * scA e (estOf m e - 16) + scDen e (estOf m e - 16) - 1) / scDen e (estOf m e - 16) - 1 := by
  rw [← ftk_a, ← ftk_den]
  by_cases h : m % 2 = 0
  · have hb : (m % 2 == 0) = true := by rw [h]; rfl
    rw [if_pos h]
    show (if (m % 2 == 0) = true then _ else _) = _
    rw [if_pos hb]; rfl
  · have hb : ¬ (m % 2 == 0) = true := by
      intro hb; exact h (by simpa using hb)
    rw [if_neg h]
    show (if (m % 2 == 0) = true then _ else _) = _
    rw [if_neg hb]; rfl

/-! ### integer division: least / greatest integer of an interval with rational end points -/

theorem ftk_ceil_le (n d D : Nat) (hd : 0 < d) : (n + d - 1) / d ≤ D ↔ n ≤ D * d := by
  rw [← Nat.lt_succ_iff, Nat.div_lt_iff_lt_mul hd, Nat.succ_mul]
  omega

theorem ftk_floor_succ_le (n d D : Nat) (hd : 0 < d) : n / d + 1 ≤ D ↔ n < D * d := by
  rw [Nat.succ_le_iff, Nat.div_lt_iff_lt_mul hd]

theorem ftk_le_ceil_pred (n d D : Nat) (hd : 0 < d) (hn : 0 < n) : D ≤ (n + d - 1) / d - 1 ↔ D * d < n := by
  have h1 : 1 ≤ (n + d - 1) / d := by
    rw [Nat.le_div_iff_mul_le hd]; omega
  have h2 : D ≤ (n + d - 1) / d - 1 ↔ D + 1 ≤ (n + d - 1) / d := by omega
  rw [h2, Nat.le_div_iff_mul_le hd, Nat.succ_mul]
  omega

/-- (2) `lo` is the least integer in the rounding interval (in units of `10^s0`) -/
theorem scale_lo_le_iff (m : Nat) (e : Int) (asym : Bool) (hm : 0 < m) (D : Nat) :
    (F64.scale m e asym).lo ≤ D ↔
      (if m % 2 = 0 then l4 m asym * scA e (estOf m e - 16) ≤ D * scDen e (estOf m e - 16)
       else l4 m asym * scA e (estOf m e - 16) < D * scDen e (estOf m e - 16)) := by
  have _ := hm
  rw [ftk_scale_lo]
  by_cases h : m % 2 = 0
  · rw [if_pos h, if_pos h]; exact ftk_ceil_le _ _ _ (ftk_scDen_pos _ _)
  · rw [if_neg h, if_neg h]; exact ftk_floor_succ_le _ _ _ (ftk_scDen_pos _ _)

/-- (2) `hi` is the greatest integer in the rounding interval (in units of `10^s0`) -/
theorem scale_le_hi_iff (m : Nat) (e : Int) (asym : Bool) (hm : 0 < m) (D : Nat) :
    D ≤ (F64.scale m e asym).hi ↔
      (if m % 2 = 0 then D * scDen e (estOf m e - 16) ≤ h4 m * scA e (estOf m e - 16)
       else D * scDen e (estOf m e - 16) < h4 m * scA e (estOf m e - 16)) := by
  rw [ftk_scale_hi]
  by_cases h : m % 2 = 0
  · rw [if_pos h, if_pos h]; exact Nat.le_div_iff_mul_le (ftk_scDen_pos _ _)
  · rw [if_neg h, if_neg h]
    refine ftk_le_ceil_pred _ _ _ (ftk_scDen_pos _ _) (Nat.mul_pos ?_ (ftk_scA_pos _ _))
    unfold h4; omega

/-- hence: an integer `D` of the scaled interval is a decimal inside the rounding interval -/
theorem scale_inside_iff (m : Nat) (e : Int) (asym : Bool) (hm : 0 < m) (D : Nat) :
    ((F64.scale m e asym).lo ≤ D ∧ D ≤ (F64.scale m e asym).hi) ↔ Inside m e asym D (estOf m e - 16) := by
  rw [scale_lo_le_iff m e asym hm, scale_le_hi_iff m e asym hm]
  unfold Inside Le2 Lt2 scA scDen
  have k1 : (e - 2 - 0).toNat = (e - 2).toNat := by omega
  have k2 : (0 - (e - 2)).toNat = (2 - e).toNat := by omega
  rw [k1, k2]
  simp only [Nat.mul_assoc]
  by_cases h : m % 2 = 0
  · have h' : ¬ m % 2 = 1 := by omega
    simp only [if_pos h, h', false_imp_iff, and_true]
  · have h' : m % 2 = 1 := by omega
    simp only [h', true_imp_iff]
    constructor
    · intro hh; exact ⟨⟨Nat.le_of_lt hh.1, Nat.le_of_lt hh.2⟩, hh⟩
    · intro hh; exact hh.2

/-! ### `pick`: one step -/

theorem ftk_pick_step (sc : F64.Scaled) (fuel t : Nat) (s : Int) :
    (∃ c, F64.pick sc (fuel + 1) t s = (c, s) ∧ c ≠ 0 ∧ sc.lo ≤ c * t ∧ c * t ≤ sc.hi) ∨
    (F64.pick sc (fuel + 1) t s = F64.pick sc fuel (t / 10) (s - 1) ∧
      ¬ (0 < sc.v / t ∧ sc.lo ≤ sc.v / t * t ∧ sc.v / t * t ≤ sc.hi) ∧
      ¬ (sc.lo ≤ (sc.v / t + 1) * t ∧ (sc.v / t + 1) * t ≤ sc.hi)) := by
  have hxl : sc.v - sc.v % t = sc.v / t * t := by
    have := Nat.div_add_mod sc.v t
    rw [Nat.mul_comm] at this
    omega
  have hxh : ∀ cl, cl * t + t = (cl + 1) * t := fun cl => (Nat.succ_mul cl t).symm
  rw [F64.pick]
  simp only [hxl, hxh]
  generalize sc.v / t = cl
  have e1 : (decide (cl > 0) && decide (sc.lo ≤ cl * t) && decide (cl * t ≤ sc.hi))
      = decide (0 < cl ∧ sc.lo ≤ cl * t ∧ cl * t ≤ sc.hi) := by
    simp [Bool.decide_and, Bool.and_assoc]
  have e2 : (decide (sc.lo ≤ (cl + 1) * t) && decide ((cl + 1) * t ≤ sc.hi))
      = decide (sc.lo ≤ (cl + 1) * t ∧ (cl + 1) * t ≤ sc.hi) := by
    simp [Bool.decide_and]
  rw [e1, e2]
  by_cases h1 : (0 < cl ∧ sc.lo ≤ cl * t ∧ cl * t ≤ sc.hi) <;>
    by_cases h2 : (sc.lo ≤ (cl + 1) * t ∧ (cl + 1) * t ≤ sc.hi)
  · left
    by_cases h3 : 2 * (sc.v % t * sc.den + sc.rv) < t * sc.den
    · exact ⟨cl, by simp [h1, h2, h3], by omega, h1.2.1, h1.2.2⟩
    · exact ⟨cl + 1, by simp [h1, h2, h3], by omega, h2.1, h2.2⟩
  · left
    exact ⟨cl, by simp [h1, h2], by omega, h1.2.1, h1.2.2⟩
  · left
    exact ⟨cl + 1, by simp [h1, h2], by omega, h2.1, h2.2⟩
  · right
    exact ⟨by simp [h1, h2], h1, h2⟩

/-- (2) whatever `pick` returns with non-zero digits lies in `[lo, hi]` at the unit where it stopped;
`i` = number of units skipped -/
theorem pick_sound (sc : F64.Scaled) (fuel t : Nat) (s : Int) (c : Nat) (s' : Int)
    (h : F64.pick sc fuel t s = (c, s')) (hc : c ≠ 0) :
    ∃ i, i < fuel ∧ s' = s - i ∧ sc.lo ≤ c * (t / 10 ^ i) ∧ c * (t / 10 ^ i) ≤ sc.hi := by
  induction fuel generalizing t s with
  | zero =>
    rw [F64.pick] at h
    exact absurd (congrArg Prod.fst h).symm hc
  | succ f ih =>
    rcases ftk_pick_step sc f t s with ⟨c0, h0, _, hlo, hhi⟩ | ⟨h0, _, _⟩
    · rw [h0] at h
      have hc0 : c0 = c := congrArg Prod.fst h
      have hs : s = s' := congrArg Prod.snd h
      subst hc0; subst hs
      refine ⟨0, Nat.succ_pos f, by simp, ?_, ?_⟩
      · rw [Nat.pow_zero, Nat.div_one]; exact hlo
      · rw [Nat.pow_zero, Nat.div_one]; exact hhi
    · rw [h0] at h
      obtain ⟨i, hi, hs, hlo, hhi⟩ := ih (t / 10) (s - 1) h
      have e : t / 10 / 10 ^ i = t / 10 ^ (i + 1) := by
        rw [Nat.div_div_eq_div_mul, Nat.pow_succ, Nat.mul_comm]
      rw [e] at hlo hhi
      refine ⟨i + 1, Nat.succ_lt_succ hi, ?_, hlo, hhi⟩
      rw [hs]; push_cast; omega

/-! ### the estimate `est = ⌊T · 30103 / 100000⌋` of `⌊log10 2^T⌋` is a lower estimate (table check) -/

private theorem ftk_tabPos : ∀ i < 1024, 10 ^ (i * 30103 / 100000) ≤ 2 ^ i := by decide +kernel
private theorem ftk_tabNeg : ∀ j < 1075, 2 ^ j ≤ 10 ^ ((j * 30103 + 99999) / 100000) := by decide +kernel

/-- `10^est ≤ 2^T` for every binary exponent `T` of a finite double -/
theorem ftk_table (T : Int) (h1 : -1074 ≤ T) (h2 : T ≤ 1023) :
    10 ^ (T * 30103 / 100000).toNat * 2 ^ (-T).toNat ≤ 10 ^ (-(T * 30103 / 100000)).toNat * 2 ^ T.toNat := by
  by_cases h : 0 ≤ T
  · have := ftk_tabPos T.toNat (by omega)
    have a1 : (T * 30103 / 100000).toNat = T.toNat * 30103 / 100000 := by omega
    have a2 : (-T).toNat = 0 := by omega
    have a3 : (-(T * 30103 / 100000)).toNat = 0 := by omega
    simp only [a1, a2, a3, Nat.pow_zero, Nat.mul_one, Nat.one_mul]
    exact this
  · have := ftk_tabNeg (-T).toNat (by omega)
    have a1 : (T * 30103 / 100000).toNat = 0 := by omega
    have a2 : T.toNat = 0 := by omega
    have a3 : (-(T * 30103 / 100000)).toNat = ((-T).toNat * 30103 + 99999) / 100000 := by omega
    simp only [a1, a2, a3, Nat.pow_zero, Nat.mul_one, Nat.one_mul]
    exact this

private theorem ftk_core_aux (L m : Nat) (e : Int) (hLm : 2 ^ L ≤ m)
    (hT1 : -1074 ≤ (L : Int) + e) (hT2 : (L : Int) + e ≤ 1023) :
    10 ^ 16 * scDen e (((L : Int) + e) * 30103 / 100000 - 16)
      ≤ 4 * m * scA e (((L : Int) + e) * 30103 / 100000 - 16) := by
  have tb := ftk_table ((L : Int) + e) hT1 hT2
  generalize ((L : Int) + e) * 30103 / 100000 = est at tb ⊢
  obtain ⟨k10, h10a, h10b⟩ : ∃ k10, 16 + (est - 16).toNat = est.toNat + k10 ∧
      (-(est - 16)).toNat = (-est).toNat + k10 := ⟨16 + (est - 16).toNat - est.toNat, by omega, by omega⟩
  obtain ⟨k2, h2a, h2b⟩ : ∃ k2, (2 - e).toNat = (-((L : Int) + e)).toNat + k2 ∧
      L + 2 + (e - 2).toNat = ((L : Int) + e).toNat + k2 :=
    ⟨(2 - e).toNat - (-((L : Int) + e)).toNat, by omega, by omega⟩
  unfold scA scDen
  have E1 : 10 ^ 16 * 10 ^ (est - 16).toNat = 10 ^ est.toNat * 10 ^ k10 := by
    rw [← Nat.pow_add, ← Nat.pow_add, h10a]
  have E2 : 10 ^ (-(est - 16)).toNat = 10 ^ (-est).toNat * 10 ^ k10 := by
    rw [← Nat.pow_add, h10b]
  have E3 : 2 ^ (2 - e).toNat = 2 ^ (-((L : Int) + e)).toNat * 2 ^ k2 := by
    rw [← Nat.pow_add, h2a]
  have E4 : 2 ^ L * 4 * 2 ^ (e - 2).toNat = 2 ^ ((L : Int) + e).toNat * 2 ^ k2 := by
    rw [← Nat.pow_add, ← h2b, Nat.pow_add, Nat.pow_add]
  calc 10 ^ 16 * (10 ^ (est - 16).toNat * 2 ^ (2 - e).toNat)
      = (10 ^ 16 * 10 ^ (est - 16).toNat) * 2 ^ (2 - e).toNat := by rw [Nat.mul_assoc]
    _ = (10 ^ est.toNat * 10 ^ k10) * (2 ^ (-((L : Int) + e)).toNat * 2 ^ k2) := by rw [E1, E3]
    _ = (10 ^ est.toNat * 2 ^ (-((L : Int) + e)).toNat) * (10 ^ k10 * 2 ^ k2) := Nat.mul_mul_mul_comm _ _ _ _
    _ ≤ (10 ^ (-est).toNat * 2 ^ ((L : Int) + e).toNat) * (10 ^ k10 * 2 ^ k2) := Nat.mul_le_mul_right _ tb
    _ = (10 ^ (-est).toNat * 10 ^ k10) * (2 ^ ((L : Int) + e).toNat * 2 ^ k2) := Nat.mul_mul_mul_comm _ _ _ _
    _ = 10 ^ (-(est - 16)).toNat * (2 ^ L * 4 * 2 ^ (e - 2).toNat) := by rw [← E2, ← E4]
    _ = 4 * 2 ^ L * (10 ^ (-(est - 16)).toNat * 2 ^ (e - 2).toNat) := by ac_rfl
    _ ≤ 4 * m * (10 ^ (-(est - 16)).toNat * 2 ^ (e - 2).toNat) :=
        Nat.mul_le_mul_right _ (Nat.mul_le_mul_left 4 hLm)

theorem ftk_log2_lt (m : Nat) (e : Int) (hc : Canon m e) : m.log2 < 53 :=
  (Nat.log2_lt (Nat.pos_iff_ne_zero.1 hc.pos)).2 hc.lt

/-- `x ≥ 10^est`, cross-multiplied: `10^16 · den ≤ 4m · a` -/
theorem ftk_core (m : Nat) (e : Int) (hc : Canon m e) :
    10 ^ 16 * scDen e (estOf m e - 16) ≤ 4 * m * scA e (estOf m e - 16) := by
  have hL := ftk_log2_lt m e hc
  have h1 := hc.elo
  have h2 := hc.ehi
  exact ftk_core_aux m.log2 m e (Nat.log2_self_le (Nat.pos_iff_ne_zero.1 hc.pos)) (by omega) (by omega)

/-- (4) `est` is a lower estimate of log10: `x ≥ 10^est`, i.e. the scaled value is at least `10^16` -/
theorem scale_v_ge (m : Nat) (e : Int) (hc : Canon m e) (asym : Bool) : 10 ^ 16 ≤ (F64.scale m e asym).v := by
  rw [scale_v, Nat.le_div_iff_mul_le (ftk_scDen_pos _ _)]
  exact ftk_core m e hc

/-! ### the scaled interval is wider than one unit -/

theorem ftk_unit (lN vN hN den : Nat) (hden : 0 < den) (h1 : lN < vN) (h2 : vN < hN) (h3 : lN + den < hN) :
    (lN < vN / den * den ∧ vN / den * den < hN) ∨
      (lN < (vN / den + 1) * den ∧ (vN / den + 1) * den < hN) := by
  have a1 : vN / den * den ≤ vN := Nat.div_mul_le_self _ _
  have a2 : vN < (vN / den + 1) * den := by
    have := Nat.lt_mul_div_succ vN hden
    rwa [Nat.mul_comm] at this
  rw [Nat.add_one_mul] at a2 ⊢
  by_cases h : lN < vN / den * den
  · left; omega
  · right; omega

theorem ftk_width (m : Nat) (e : Int) (hc : Canon m e) :
    l4 m (asymOf m e) * scA e (estOf m e - 16) + scDen e (estOf m e - 16) < h4 m * scA e (estOf m e - 16) := by
  have core := ftk_core m e hc
  have ha := ftk_scA_pos e (estOf m e - 16)
  generalize scA e (estOf m e - 16) = a at core ha ⊢
  generalize scDen e (estOf m e - 16) = den at core ⊢
  have h16 : (10 : Nat) ^ 16 = 10000000000000000 := by decide
  have h53 : (2 : Nat) ^ 53 = 9007199254740992 := by decide
  have hlt := hc.lt
  have hpos := hc.pos
  rw [h53] at hlt
  rw [h16] at core
  have hma : 4 * m * a ≤ 4 * 9007199254740991 * a := Nat.mul_le_mul_right a (by omega)
  have hden : 10000000000000000 * den ≤ 4 * 9007199254740991 * a := Nat.le_trans core hma
  rcases Bool.eq_false_or_eq_true (asymOf m e) with hb | hb
  · -- m = 2^52
    have hm : m = 2 ^ 52 := by
      unfold asymOf at hb
      rw [Bool.and_eq_true, decide_eq_true_eq] at hb
      exact hb.1
    have h52 : (2 : Nat) ^ 52 = 4503599627370496 := by decide
    rw [h52] at hm
    subst hm
    have e1 : h4 4503599627370496 = l4 4503599627370496 true + 3 := by decide
    rw [hb, e1, Nat.add_mul]
    have : l4 4503599627370496 true * a + den < l4 4503599627370496 true * a + 3 * a := by omega
    exact this
  · have e1 : h4 m = l4 m false + 4 := by unfold h4 l4; simp only [Bool.false_eq_true, if_false]; omega
    rw [hb, e1, Nat.add_mul]
    have : l4 m false * a + den < l4 m false * a + 4 * a := by omega
    exact this

/-- (4) the scaled interval is more than one unit wide: at unit 1, `v` or `v+1` is inside -/
theorem scale_unit_one (m : Nat) (e : Int) (hc : Canon m e) :
    let sc := F64.scale m e (asymOf m e)
    (sc.lo ≤ sc.v ∧ sc.v ≤ sc.hi) ∨ (sc.lo ≤ sc.v + 1 ∧ sc.v + 1 ≤ sc.hi) := by
  intro sc
  have ha := ftk_scA_pos e (estOf m e - 16)
  have hpos := hc.pos
  have hl : l4 m (asymOf m e) < 4 * m := by unfold l4; split <;> omega
  have hh : 4 * m < h4 m := by unfold h4; omega
  have u := ftk_unit _ _ _ _ (ftk_scDen_pos e (estOf m e - 16))
    ((Nat.mul_lt_mul_right ha).2 hl) ((Nat.mul_lt_mul_right ha).2 hh) (ftk_width m e hc)
  show (sc.lo ≤ sc.v ∧ sc.v ≤ sc.hi) ∨ (sc.lo ≤ sc.v + 1 ∧ sc.v + 1 ≤ sc.hi)
  simp only [sc, scale_lo_le_iff m e _ hc.pos, scale_le_hi_iff m e _ hc.pos, scale_v]
  by_cases h : m % 2 = 0
  · simp only [if_pos h]
    rcases u with ⟨u1, u2⟩ | ⟨u1, u2⟩
    · exact Or.inl ⟨Nat.le_of_lt u1, Nat.le_of_lt u2⟩
    · exact Or.inr ⟨Nat.le_of_lt u1, Nat.le_of_lt u2⟩
  · simp only [if_neg h]
    exact u

/-! ### success -/

theorem ftk_pick_ne_zero (sc : F64.Scaled) (hv : 0 < sc.v)
    (hu : (sc.lo ≤ sc.v ∧ sc.v ≤ sc.hi) ∨ (sc.lo ≤ sc.v + 1 ∧ sc.v + 1 ≤ sc.hi)) :
    ∀ (f : Nat) (s : Int), (F64.pick sc (f + 1) (10 ^ f) s).1 ≠ 0 := by
  intro f
  induction f with
  | zero =>
    intro s
    rcases ftk_pick_step sc 0 (10 ^ 0) s with ⟨c, h0, hc, _⟩ | ⟨_, n1, n2⟩
    · rw [h0]; exact hc
    · exfalso
      simp only [Nat.pow_zero, Nat.div_one, Nat.mul_one] at n1 n2
      rcases hu with hu | hu
      · exact n1 ⟨hv, hu⟩
      · exact n2 hu
  | succ f ih =>
    intro s
    rcases ftk_pick_step sc (f + 1) (10 ^ (f + 1)) s with ⟨c, h0, hc, _⟩ | ⟨h0, _, _⟩
    · rw [h0]; exact hc
    · have e : 10 ^ (f + 1) / 10 = 10 ^ f := by
        rw [Nat.pow_succ, Nat.mul_div_cancel _ (by decide)]
      rw [h0, e]
      exact ih (s - 1)

private theorem ftk_e18 : (1000000000000000000 : Nat) = 10 ^ 18 := by decide

/-- (4) success: fuel 19 from `10^18` always stops with non-zero digits -/
theorem pick_succeeds (m : Nat) (e : Int) (hc : Canon m e) :
    (F64.pick (F64.scale m e (asymOf m e)) 19 1000000000000000000
      ((F64.scale m e (asymOf m e)).s0 + 18)).1 ≠ 0 := by
  rw [ftk_e18]
  have hv : 0 < (F64.scale m e (asymOf m e)).v :=
    Nat.lt_of_lt_of_le (Nat.pow_pos (by decide)) (scale_v_ge m e hc _)
  exact ftk_pick_ne_zero _ hv (scale_unit_one m e hc) 18 _

/-- headline of this file: the general branch of `shortest` returns a decimal inside the rounding interval -/
theorem shortestGen_inside (m : Nat) (e : Int) (hc : Canon m e) (c : Nat) (s : Int)
    (h : F64.pick (F64.scale m e (asymOf m e)) 19 1000000000000000000
      ((F64.scale m e (asymOf m e)).s0 + 18) = (c, s)) :
    0 < c ∧ Inside m e (asymOf m e) c s ∧ -340 ≤ s ∧ s ≤ 309 := by
  have hne := pick_succeeds m e hc
  rw [h] at hne
  have hne' : c ≠ 0 := hne
  obtain ⟨i, hi, hs, hlo, hhi⟩ := pick_sound _ _ _ _ _ _ h hne'
  rw [ftk_e18, Nat.pow_div (by omega) (by decide)] at hlo hhi
  have hin := (scale_inside_iff m e _ hc.pos _).1 ⟨hlo, hhi⟩
  rw [inside_shift] at hin
  rw [scale_s0] at hs
  have hs' : estOf m e - 16 + ((18 - i : Nat) : Int) = s := by omega
  rw [hs'] at hin
  have hL := ftk_log2_lt m e hc
  have h1 := hc.elo
  have h2 := hc.ehi
  have hest : estOf m e = (((m.log2 : Nat) : Int) + e) * 30103 / 100000 := rfl
  refine ⟨Nat.pos_of_ne_zero hne', hin, ?_, ?_⟩ <;> omega

end Aplang.FloatText
