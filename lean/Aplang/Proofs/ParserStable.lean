import Aplang.Model.Parser
/-!
# Strong fuel monotonicity of the parser model

With more fuel, every outcome that is not `.fuel` stays exactly the same outcome: successes, syntax
errors and panics alike. `ParserMono` has the weak form (successes only, expression ladder only); this
file replays that proof with the stronger relation `Stab` and extends it to the statement functions,
`synchronize` and `parseLoop`, giving `parse_stable`.
-/
namespace Aplang
namespace P

/-- a non-fuel outcome of `r1` is the outcome of `r2` -/
def Stab {α} (r1 r2 : PRes α) : Prop := r1 ≠ .fuel → r2 = r1

theorem Stab.refl {α} (r : PRes α) : Stab r r := fun _ => rfl
theorem Stab.fuel {α} (r : PRes α) : Stab .fuel r := fun h => absurd rfl h
theorem Stab.bind {α β} {r1 r2 : PRes α} {k1 k2 : α → PState → PRes β} (h : Stab r1 r2)
    (hk : ∀ a s, Stab (k1 a s) (k2 a s)) : Stab (r1.bind k1) (r2.bind k2) := by
  intro hne
  cases r1 with
  | ok a s' => rw [h (by intro h'; cases h')]; exact hk a s' hne
  | err e s' => rw [h (by intro h'; cases h')]; rfl
  | panic m => rw [h (by intro h'; cases h')]; rfl
  | fuel => exact absurd rfl hne
theorem Stab.bind_same {α β} (r : PRes α) {k1 k2 : α → PState → PRes β}
    (hk : ∀ a s, Stab (k1 a s) (k2 a s)) : Stab (r.bind k1) (r.bind k2) := Stab.bind (Stab.refl r) hk

theorem Stab.ite {α} {c : Prop} [Decidable c] {a1 a2 b1 b2 : PRes α} (ha : Stab a1 a2) (hb : Stab b1 b2) :
    Stab (if c then a1 else b1) (if c then a2 else b2) := by
  by_cases hc : c
  · simp only [hc, if_true]; exact ha
  · simp only [hc, if_false]; exact hb

theorem Stab.restore {α} (cache : Bool) {r1 r2 : PRes α} (h : Stab r1 r2) :
    Stab (restoreLoop cache r1) (restoreLoop cache r2) := by
  intro hne
  cases r1 with
  | ok a s' => rw [h (by intro h'; cases h')]
  | err e s' => rw [h (by intro h'; cases h')]
  | panic m => rw [h (by intro h'; cases h')]
  | fuel => exact absurd rfl hne

structure ExprStab (f g : Nat) : Prop where
  expression : ∀ s, Stab (expression f s) (expression g s)
  assignment : ∀ s, Stab (assignment f s) (assignment g s)
  orE : ∀ s, Stab (orE f s) (orE g s)
  orLoop : ∀ l s, Stab (orLoop f l s) (orLoop g l s)
  andE : ∀ s, Stab (andE f s) (andE g s)
  andLoop : ∀ l s, Stab (andLoop f l s) (andLoop g l s)
  binLevel : ∀ lvl s, Stab (binLevel f lvl s) (binLevel g lvl s)
  binLoop : ∀ lvl l s, Stab (binLoop f lvl l s) (binLoop g lvl l s)
  unary : ∀ s, Stab (unary f s) (unary g s)
  access : ∀ s, Stab (access f s) (access g s)
  accessLoop : ∀ t e s, Stab (accessLoop f t e s) (accessLoop g t e s)
  primary : ∀ s, Stab (primary f s) (primary g s)
  callArgs : ∀ a t s, Stab (callArgs f a t s) (callArgs g a t s)
  listItems : ∀ a s, Stab (listItems f a s) (listItems g a s)

theorem exprStab_zero (g : Nat) : ExprStab 0 g := by
  constructor <;> intros <;> simp only [P.expression, P.assignment, P.orE, P.orLoop, P.andE, P.andLoop,
    P.binLevel, P.binLoop, P.unary, P.access, P.accessLoop, P.primary, P.callArgs, P.listItems] <;>
    exact Stab.fuel _

section step
variable {f g : Nat} (ih : ExprStab f g)
include ih

theorem expression_stabstep (s) : Stab (expression (f+1) s) (expression (g+1) s) := by
  simp only [P.expression]; exact ih.assignment s

theorem assignment_stabstep (s) : Stab (assignment (f+1) s) (assignment (g+1) s) := by
  simp only [P.assignment]
  apply Stab.bind (ih.orE s)
  intro e s1
  apply Stab.bind_same; intro exprTok s2
  apply Stab.bind_same; intro m s3
  cases m with
  | none => exact Stab.refl _
  | some arrow =>
    dsimp only
    apply Stab.bind (ih.assignment _)
    intro value s4
    exact Stab.refl _

theorem orE_stabstep (s) : Stab (orE (f+1) s) (orE (g+1) s) := by
  simp only [P.orE]
  exact Stab.bind (ih.andE s) (fun e s1 => ih.orLoop e s1)

theorem orLoop_stabstep (l s) : Stab (orLoop (f+1) l s) (orLoop (g+1) l s) := by
  simp only [P.orLoop]
  apply Stab.bind_same; intro m s1
  cases m with
  | none => exact Stab.refl _
  | some tok => exact Stab.bind (ih.andE _) (fun r s2 => ih.orLoop _ s2)

theorem andE_stabstep (s) : Stab (andE (f+1) s) (andE (g+1) s) := by
  simp only [P.andE]
  exact Stab.bind (ih.binLevel _ s) (fun e s1 => ih.andLoop e s1)

theorem andLoop_stabstep (l s) : Stab (andLoop (f+1) l s) (andLoop (g+1) l s) := by
  simp only [P.andLoop]
  apply Stab.bind_same; intro m s1
  cases m with
  | none => exact Stab.refl _
  | some tok => exact Stab.bind (ih.andE _) (fun r s2 => ih.andLoop _ s2)

theorem stab_operand (lvl : BinLevel) (s) :
    Stab (match lvl.next with | some n => binLevel f n s | none => unary f s)
         (match lvl.next with | some n => binLevel g n s | none => unary g s) := by
  cases lvl.next with
  | some n => exact ih.binLevel n s
  | none => exact ih.unary s

theorem binLevel_stabstep (lvl s) : Stab (binLevel (f+1) lvl s) (binLevel (g+1) lvl s) := by
  simp only [P.binLevel]
  exact Stab.bind (stab_operand ih lvl s) (fun e s1 => ih.binLoop lvl e s1)

theorem binLoop_stabstep (lvl l s) : Stab (binLoop (f+1) lvl l s) (binLoop (g+1) lvl l s) := by
  simp only [P.binLoop]
  apply Stab.bind_same; intro m s1
  cases m with
  | none => exact Stab.refl _
  | some tok =>
    dsimp only
    apply Stab.bind (stab_operand ih lvl s1)
    intro right s2
    cases toBinOp tok.tt with
    | none => exact Stab.refl _
    | some op => exact ih.binLoop lvl _ s2

theorem unary_stabstep (s) : Stab (unary (f+1) s) (unary (g+1) s) := by
  simp only [P.unary]
  apply Stab.bind_same; intro m s1
  cases m with
  | none => exact ih.access s1
  | some tok => exact Stab.bind (ih.unary _) (fun r s2 => Stab.refl _)

theorem access_stabstep (s) : Stab (access (f+1) s) (access (g+1) s) := by
  simp only [P.access]
  apply Stab.bind (ih.primary s)
  intro e s1
  apply Stab.bind_same; intro t s2
  exact ih.accessLoop t e s2

theorem accessLoop_stabstep (t e s) : Stab (accessLoop (f+1) t e s) (accessLoop (g+1) t e s) := by
  simp only [P.accessLoop]
  apply Stab.bind_same; intro m s1
  cases m with
  | none => exact Stab.refl _
  | some lb =>
    dsimp only
    apply Stab.bind (ih.expression _)
    intro index s2
    apply Stab.bind_same; intro rb s3
    exact ih.accessLoop t _ s3

theorem callArgs_stabstep (a t s) : Stab (callArgs (f+1) a t s) (callArgs (g+1) a t s) := by
  simp only [P.callArgs]
  apply Stab.ite (Stab.refl _)
  apply Stab.bind (ih.expression s)
  intro e s1
  apply Stab.bind_same; intro nxt s2
  apply Stab.bind_same; intro m s3
  cases m with
  | none => exact Stab.refl _
  | some _ => exact ih.callArgs _ _ s3

theorem listItems_stabstep (a s) : Stab (listItems (f+1) a s) (listItems (g+1) a s) := by
  simp only [P.listItems]
  apply Stab.bind (ih.expression s)
  intro e s1
  apply Stab.bind_same; intro m s3
  cases m with
  | none => exact Stab.refl _
  | some _ => exact ih.listItems _ s3

theorem primary_stabstep (s) : Stab (primary (f+1) s) (primary (g+1) s) := by
  simp only [P.primary]
  apply Stab.bind_same; intro m s
  cases m with
  | some tok => exact Stab.refl _
  | none =>
  dsimp only
  apply Stab.bind_same; intro m s
  cases m with
  | some tok => exact Stab.refl _
  | none =>
  dsimp only
  apply Stab.bind_same; intro m s
  cases m with
  | some tok => exact Stab.refl _
  | none =>
  dsimp only
  apply Stab.bind_same; intro m s
  cases m with
  | some tok => exact Stab.refl _
  | none =>
  dsimp only
  apply Stab.bind_same; intro m s
  cases m with
  | some tok => exact Stab.refl _
  | none =>
  dsimp only
  apply Stab.bind_same; intro m s
  cases m with
  | some tok =>
    dsimp only
    apply Stab.bind_same; intro m s
    cases m with
    | none => exact Stab.refl _
    | some lp =>
      dsimp only
      apply Stab.bind_same; intro c s
      apply Stab.bind
      · exact Stab.ite (Stab.refl _) (ih.callArgs _ _ s)
      · intro p s; exact Stab.refl _
  | none =>
  dsimp only
  apply Stab.bind_same; intro m s
  cases m with
  | some lp =>
    dsimp only
    exact Stab.bind (ih.expression _) (fun e s => Stab.refl _)
  | none =>
  dsimp only
  apply Stab.bind_same; intro m s
  cases m with
  | some lb =>
    dsimp only
    apply Stab.bind_same; intro c s
    apply Stab.bind
    · exact Stab.ite (Stab.refl _) (ih.listItems _ s)
    · intro p s; exact Stab.refl _
  | none => exact Stab.refl _

end step

theorem exprStab_succ {f g : Nat} (ih : ExprStab f g) : ExprStab (f+1) (g+1) :=
  { expression := expression_stabstep ih, assignment := assignment_stabstep ih, orE := orE_stabstep ih,
    orLoop := orLoop_stabstep ih, andE := andE_stabstep ih, andLoop := andLoop_stabstep ih,
    binLevel := binLevel_stabstep ih, binLoop := binLoop_stabstep ih, unary := unary_stabstep ih,
    access := access_stabstep ih, accessLoop := accessLoop_stabstep ih, primary := primary_stabstep ih,
    callArgs := callArgs_stabstep ih, listItems := listItems_stabstep ih }

/-- **strong fuel monotonicity** of the expression ladder -/
theorem exprStab : ∀ {f g : Nat}, f ≤ g → ExprStab f g
  | 0, g, _ => exprStab_zero g
  | f+1, 0, h => absurd h (by omega)
  | f+1, g+1, h => exprStab_succ (exprStab (Nat.le_of_succ_le_succ h))

/-! ## the non-mutual statement helpers -/

theorem expressionStatement_stab {f g : Nat} (h : f ≤ g) (s) :
    Stab (expressionStatement f s) (expressionStatement g s) := by
  unfold expressionStatement
  exact Stab.bind ((exprStab h).expression s) (fun e s1 => Stab.refl _)

theorem returnStatement_stab {f g : Nat} (h : f ≤ g) (tok s) :
    Stab (returnStatement f tok s) (returnStatement g tok s) := by
  unfold returnStatement
  apply Stab.ite (Stab.refl _)
  apply Stab.bind_same; intro m s1
  cases m with
  | some _ => exact Stab.refl _
  | none =>
    dsimp only
    apply Stab.bind_same; intro e s2
    apply Stab.bind_same; intro c s3
    apply Stab.ite (Stab.refl _)
    exact Stab.bind ((exprStab h).expression s3) (fun v s4 => Stab.refl _)

theorem importNames_stab : ∀ {f g : Nat}, f ≤ g → ∀ lb names s,
    Stab (importNames f lb names s) (importNames g lb names s)
  | 0, g, _, _, _, _ => by simp only [importNames]; exact Stab.fuel _
  | f+1, 0, h, _, _, _ => absurd h (by omega)
  | f+1, g+1, h, lb, names, s => by
    simp only [importNames]
    apply Stab.ite (Stab.refl _)
    apply Stab.bind_same; intro t s1
    apply Stab.bind_same; intro m s2
    cases m with
    | some _ => exact importNames_stab (Nat.le_of_succ_le_succ h) lb _ s2
    | none => exact Stab.refl _

theorem importStatement_stab {f g : Nat} (h : f ≤ g) (tok s) :
    Stab (importStatement f tok s) (importStatement g tok s) := by
  unfold importStatement
  apply Stab.bind_same; intro m s1
  apply Stab.bind
  · cases m with
    | some lb =>
      dsimp only
      exact Stab.bind (importNames_stab h lb [] s1) (fun names s2 => Stab.refl _)
    | none => exact Stab.refl _
  · intro only s2; exact Stab.refl _

theorem procParams_stab : ∀ {f g : Nat}, f ≤ g → ∀ params s,
    Stab (procParams f params s) (procParams g params s)
  | 0, g, _, _, _ => by simp only [procParams]; exact Stab.fuel _
  | f+1, 0, h, _, _ => absurd h (by omega)
  | f+1, g+1, h, params, s => by
    simp only [procParams]
    apply Stab.ite (Stab.refl _)
    apply Stab.bind_same; intro t s1
    apply Stab.bind_same; intro m s2
    cases m with
    | some _ => exact procParams_stab (Nat.le_of_succ_le_succ h) _ s2
    | none => exact Stab.refl _

/-! ## the mutual statement functions -/

structure StmtStab (f g : Nat) : Prop where
  declaration : ∀ s, Stab (declaration f s) (declaration g s)
  procedure : ∀ t s, Stab (procedure f t s) (procedure g t s)
  statement : ∀ s, Stab (statement f s) (statement g s)
  blockLoop : ∀ acc s, Stab (blockLoop f acc s) (blockLoop g acc s)
  ifStatement : ∀ t s, Stab (ifStatement f t s) (ifStatement g t s)
  repeatTimes : ∀ t s, Stab (repeatTimes f t s) (repeatTimes g t s)
  repeatUntil : ∀ t s, Stab (repeatUntil f t s) (repeatUntil g t s)
  forEach : ∀ t s, Stab (forEach f t s) (forEach g t s)

theorem stmtStab_zero (g : Nat) : StmtStab 0 g := by
  constructor <;> intros <;> simp only [P.declaration, P.procedure, P.statement, P.blockLoop, P.ifStatement,
    P.repeatTimes, P.repeatUntil, P.forEach] <;> exact Stab.fuel _

section sstep
variable {f g : Nat} (hfg : f ≤ g) (ih : StmtStab f g)
include hfg ih

omit hfg in
theorem declaration_stabstep (s) : Stab (declaration (f+1) s) (declaration (g+1) s) := by
  simp only [P.declaration]
  apply Stab.bind_same; intro m s1
  cases m with
  | some t => exact ih.procedure t s1
  | none => exact ih.statement s1

theorem procedure_stabstep (t s) : Stab (procedure (f+1) t s) (procedure (g+1) t s) := by
  simp only [P.procedure]
  apply Stab.bind_same; intro pe s1
  obtain ⟨procTok, exported⟩ := pe
  dsimp only
  apply Stab.bind_same; intro nameTok s2
  apply Stab.bind_same; intro _ s3
  apply Stab.bind_same; intro c s4
  apply Stab.bind
  · exact Stab.ite (Stab.refl _) (procParams_stab hfg [] s4)
  · intro params s5
    apply Stab.bind_same; intro _ s6
    exact Stab.bind (ih.statement _) (fun body s7 => Stab.refl _)

omit hfg in
theorem blockLoop_stabstep (acc s) : Stab (blockLoop (f+1) acc s) (blockLoop (g+1) acc s) := by
  simp only [P.blockLoop]
  apply Stab.bind_same; intro c s1
  apply Stab.bind_same; intro e s2
  apply Stab.ite (Stab.refl _)
  apply Stab.bind_same; intro m s3
  cases m with
  | some _ => exact ih.blockLoop acc s3
  | none => exact Stab.bind (ih.declaration s3) (fun st s4 => ih.blockLoop _ s4)

theorem ifStatement_stabstep (t s) : Stab (ifStatement (f+1) t s) (ifStatement (g+1) t s) := by
  simp only [P.ifStatement]
  apply Stab.bind_same; intro _ s1
  apply Stab.bind ((exprStab hfg).expression s1); intro cond s2
  apply Stab.bind_same; intro _ s3
  apply Stab.bind (ih.statement s3); intro thn s4
  apply Stab.bind_same; intro m s5
  cases m with
  | some et => exact Stab.bind (ih.statement s5) (fun els s6 => Stab.refl _)
  | none => exact Stab.refl _

theorem repeatTimes_stabstep (t s) : Stab (repeatTimes (f+1) t s) (repeatTimes (g+1) t s) := by
  simp only [P.repeatTimes]
  apply Stab.bind_same; intro _ s1
  apply Stab.bind ((exprStab hfg).expression s1); intro count s2
  apply Stab.bind_same; intro ct s3
  apply Stab.bind_same; intro tt s4
  exact Stab.bind (ih.statement s4) (fun body s5 => Stab.refl _)

theorem repeatUntil_stabstep (t s) : Stab (repeatUntil (f+1) t s) (repeatUntil (g+1) t s) := by
  simp only [P.repeatUntil]
  apply Stab.bind_same; intro _ s1
  apply Stab.bind_same; intro ut s2
  apply Stab.bind_same; intro _ s3
  apply Stab.bind ((exprStab hfg).expression s3); intro cond s4
  apply Stab.bind_same; intro _ s5
  exact Stab.bind (ih.statement s5) (fun body s6 => Stab.refl _)

theorem forEach_stabstep (t s) : Stab (forEach (f+1) t s) (forEach (g+1) t s) := by
  simp only [P.forEach]
  apply Stab.bind_same; intro _ s1
  apply Stab.bind_same; intro et s2
  apply Stab.bind_same; intro it s3
  apply Stab.bind_same; intro int s4
  apply Stab.bind ((exprStab hfg).expression s4); intro list s5
  apply Stab.bind_same; intro lt s6
  exact Stab.bind (ih.statement s6) (fun body s7 => Stab.refl _)

theorem statement_stabstep (s) : Stab (statement (f+1) s) (statement (g+1) s) := by
  simp only [P.statement]
  apply Stab.bind_same; intro m s1
  cases m with
  | some t => exact importStatement_stab hfg t s1
  | none =>
  dsimp only
  apply Stab.bind_same; intro m s2
  cases m with
  | some t => exact ih.ifStatement t s2
  | none =>
  dsimp only
  apply Stab.bind_same; intro m s3
  cases m with
  | some t =>
    dsimp only
    apply Stab.bind_same; intro c s4
    apply Stab.restore
    exact Stab.ite (ih.repeatUntil t s4) (ih.repeatTimes t s4)
  | none =>
  dsimp only
  apply Stab.bind_same; intro m s4
  cases m with
  | some t =>
    dsimp only
    apply Stab.restore
    exact ih.forEach t _
  | none =>
  dsimp only
  apply Stab.bind_same; intro m s5
  cases m with
  | some lb =>
    dsimp only
    exact Stab.bind (ih.blockLoop [] s5) (fun stmts s6 => Stab.refl _)
  | none =>
  dsimp only
  apply Stab.bind_same; intro m s6
  cases m with
  | some t => exact Stab.refl _
  | none =>
  dsimp only
  apply Stab.bind_same; intro m s7
  cases m with
  | some t => exact Stab.refl _
  | none =>
  dsimp only
  apply Stab.bind_same; intro m s8
  cases m with
  | some t => exact returnStatement_stab hfg t s8
  | none => exact expressionStatement_stab hfg s8

end sstep

theorem stmtStab_succ {f g : Nat} (hfg : f ≤ g) (ih : StmtStab f g) : StmtStab (f+1) (g+1) :=
  { declaration := declaration_stabstep ih, procedure := procedure_stabstep hfg ih,
    statement := statement_stabstep hfg ih, blockLoop := blockLoop_stabstep ih,
    ifStatement := ifStatement_stabstep hfg ih, repeatTimes := repeatTimes_stabstep hfg ih,
    repeatUntil := repeatUntil_stabstep hfg ih, forEach := forEach_stabstep hfg ih }

/-- **strong fuel monotonicity** of the statement functions -/
theorem stmtStab : ∀ {f g : Nat}, f ≤ g → StmtStab f g
  | 0, g, _ => stmtStab_zero g
  | f+1, 0, h => absurd h (by omega)
  | f+1, g+1, h => stmtStab_succ (Nat.le_of_succ_le_succ h) (stmtStab (Nat.le_of_succ_le_succ h))

/-! ## error recovery and the program loop -/

theorem syncLoop_stab : ∀ {f g : Nat}, f ≤ g → ∀ s, Stab (syncLoop f s) (syncLoop g s)
  | 0, g, _, _ => by simp only [syncLoop]; exact Stab.fuel _
  | f+1, 0, h, _ => absurd h (by omega)
  | f+1, g+1, h, s => by
    simp only [syncLoop]
    apply Stab.bind_same; intro e s1
    apply Stab.ite (Stab.refl _)
    apply Stab.bind_same; intro t s2
    apply Stab.ite (Stab.refl _)
    apply Stab.bind_same; intro _ s3
    exact syncLoop_stab (Nat.le_of_succ_le_succ h) s3

theorem synchronize_stab {f g : Nat} (h : f ≤ g) (s) : Stab (synchronize f s) (synchronize g s) := by
  unfold synchronize
  exact Stab.bind_same _ (fun _ s1 => syncLoop_stab h s1)

/-- **headline**: a `parseLoop` run that does not run out of fuel is the same run with more fuel -/
theorem parseLoop_stable : ∀ {f g : Nat}, f ≤ g → ∀ stmts errs s,
    parseLoop f stmts errs s ≠ .fuel → parseLoop g stmts errs s = parseLoop f stmts errs s
  | 0, g, _, _, _, _, hne => by simp only [parseLoop] at hne; exact absurd rfl hne
  | f+1, 0, h, _, _, _, _ => absurd h (by omega)
  | f+1, g+1, h, stmts, errs, s, hne => by
    have hfg : f ≤ g := Nat.le_of_succ_le_succ h
    simp only [parseLoop] at hne ⊢
    cases h1 : isAtEnd s with
    | panic p => rfl
    | fuel => rfl
    | err e s1 => rfl
    | ok b s1 =>
      rw [h1] at hne
      cases b with
      | true => rfl
      | false =>
        dsimp only at hne ⊢
        cases h2 : matchToken .softSemi s1 with
        | panic p => rfl
        | fuel => rfl
        | err e s2 => rfl
        | ok m s2 =>
          rw [h2] at hne
          cases m with
          | some t =>
            dsimp only at hne ⊢
            exact parseLoop_stable hfg stmts errs s2 hne
          | none =>
            dsimp only at hne ⊢
            cases h3 : declaration f s2 with
            | fuel => rw [h3] at hne; exact absurd rfl hne
            | panic p =>
              rw [(stmtStab hfg).declaration s2 (by rw [h3]; intro h'; cases h'), h3]
            | ok st s3 =>
              rw [h3] at hne
              rw [(stmtStab hfg).declaration s2 (by rw [h3]; intro h'; cases h'), h3]
              dsimp only at hne ⊢
              exact parseLoop_stable hfg _ errs s3 hne
            | err e s3 =>
              rw [h3] at hne
              rw [(stmtStab hfg).declaration s2 (by rw [h3]; intro h'; cases h'), h3]
              dsimp only at hne ⊢
              cases h4 : synchronize f s3 with
              | fuel => rw [h4] at hne; exact absurd rfl hne
              | panic p =>
                rw [synchronize_stab hfg s3 (by rw [h4]; intro h'; cases h'), h4]
              | err e' s4 =>
                rw [synchronize_stab hfg s3 (by rw [h4]; intro h'; cases h'), h4]
              | ok u s4 =>
                rw [h4] at hne
                rw [synchronize_stab hfg s3 (by rw [h4]; intro h'; cases h'), h4]
                dsimp only at hne ⊢
                exact parseLoop_stable hfg stmts _ s4 hne

end P

/-- **strong fuel monotonicity of `parse`**: whatever `parse` returns without running out of fuel
(a program, syntax errors or a panic) is what it returns with any larger fuel -/
theorem parse_stable {f g : Nat} (h : f ≤ g) (ts : List Token) (hf : parse f ts ≠ .fuel) :
    parse g ts = parse f ts :=
  P.parseLoop_stable h [] [] _ hf

end Aplang
