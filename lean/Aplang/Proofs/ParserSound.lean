import Aplang.Model.Parser
/-!
# Soundness of the expression parser (lemmas for C05)

Partial correctness: *whenever* a parser function of the model returns `.ok`, the returned tree is a
rendering (`Shape`) of exactly the tokens the cursor moved over (`Consumed`), and the tree respects
the documented precedence ladder (`RespectsPrec`). No hypothesis on the token list is needed.

The proof has the shape of `Proofs/ParserSafe`: a `Post` triple with a bind rule, one lemma per parser
function taking the induction hypothesis for the smaller fuel as a structure, assembly by induction on
the fuel.
-/
namespace Aplang
namespace P

/-! ## partial-correctness triples -/

/-- `Q` holds of every successful outcome -/
def Post {α} (r : PRes α) (Q : α → PState → Prop) : Prop :=
  match r with
  | .ok a s' => Q a s'
  | _ => True

theorem Post.bind {α β} {r : PRes α} {k : α → PState → PRes β} {Q : α → PState → Prop}
    {Q' : β → PState → Prop} (h1 : Post r Q) (h2 : ∀ a s', Q a s' → Post (k a s') Q') :
    Post (r.bind k) (fun b s'' => Q' b s'') := by
  cases r with
  | ok a s' => exact h2 a s' h1
  | err e s' => trivial
  | panic m => trivial
  | fuel => trivial

theorem Post.mono {α} {r : PRes α} {Q Q' : α → PState → Prop} (h : Post r Q)
    (hq : ∀ a s', Q a s' → Q' a s') : Post r Q' := by
  cases r with
  | ok a s' => exact hq a s' h
  | err e s' => trivial
  | panic m => trivial
  | fuel => trivial

theorem Post.elim {α} {r : PRes α} {Q : α → PState → Prop} (h : Post r Q) {a s'} (e : r = .ok a s') :
    Q a s' := by
  rw [e] at h; exact h

theorem Post.intro {α} {r : PRes α} {Q : α → PState → Prop} (h : ∀ a s', r = .ok a s' → Q a s') :
    Post r Q := by
  cases r with
  | ok a s' => exact h a s' rfl
  | err e s' => trivial
  | panic m => trivial
  | fuel => trivial

/-- the cursor moved over the token `t` -/
abbrev adv (s : PState) (t : Token) (r : List Token) : PState :=
  { s with before := t :: s.before, after := r }

/-! ## cursor primitives -/

theorem peek_post (s) : Post (peek s) (fun t s' => s' = s ∧ ∃ r, s.after = t :: r) := by
  unfold peek
  split
  · rename_i t r h; exact ⟨rfl, r, h⟩
  · trivial

theorem previous_post (s) : Post (previous s) (fun t s' => s' = s ∧ ∃ r, s.before = t :: r) := by
  unfold previous
  split
  · rename_i t r h; exact ⟨rfl, r, h⟩
  · trivial

theorem isAtEnd_post (s) :
    Post (isAtEnd s) (fun b s' => s' = s ∧ ∃ t r, s.after = t :: r ∧ b = (t.tt == .eof)) := by
  unfold isAtEnd
  apply (peek_post s).bind
  intro t s' ⟨hs, r, hr⟩
  subst hs
  exact ⟨rfl, t, r, hr, rfl⟩

theorem advance_post (s) : Post (advance s) (fun t' s' =>
    ∀ t r, s.after = t :: r → (t.tt == .eof) = false → t' = t ∧ s' = adv s t r) := by
  unfold advance
  apply (isAtEnd_post s).bind
  intro e s1 ⟨hs, t, r, hr, he⟩
  subst hs
  cases e with
  | true =>
    apply Post.intro
    intro t' s' _ t2 r2 h2 hne
    rw [hr] at h2; cases h2; rw [hne] at he; cases he
  | false =>
    simp only [Bool.false_eq_true, ite_false, hr, previous]
    intro t2 r2 h2 _
    cases h2
    exact ⟨rfl, rfl⟩

theorem check_post (tt s) : Post (check tt s) (fun b s' =>
    s' = s ∧ ∃ t r, s.after = t :: r ∧ b = (!(t.tt == .eof) && t.tt == tt)) := by
  unfold check
  apply (isAtEnd_post s).bind
  intro e s1 ⟨hs, t, r, hr, he⟩
  subst hs
  cases e with
  | true => exact ⟨rfl, t, r, hr, by simp [← he]⟩
  | false =>
    simp only [Bool.false_eq_true, ite_false]
    apply (peek_post _).bind
    intro t' s2 ⟨hs2, r', hr'⟩
    subst hs2
    rw [hr] at hr'; cases hr'
    exact ⟨rfl, t, r, hr, by simp [← he]⟩

/-- the outcome of `match_token(s)`: no match and the state as it was, or the cursor moved over a
token of one of the kinds -/
inductive Matched (tts : List TT) (s : PState) : Option Token → PState → Prop
  | none : (∀ t r, s.after = t :: r → t.tt ≠ .eof → t.tt ∉ tts) → Matched tts s none s
  | some (t r) : s.after = t :: r → t.tt ∈ tts → t.tt ≠ .eof → Matched tts s (some t) (adv s t r)

theorem matchToken_post (tt s) : Post (matchToken tt s) (Matched [tt] s) := by
  unfold matchToken
  apply (check_post tt s).bind
  intro c s1 ⟨hs, t, r, hr, hc⟩
  subst hs
  cases c with
  | true =>
    simp only [ite_true]
    have h1 : (t.tt == .eof) = false ∧ t.tt = tt := by
      have := hc.symm
      simpa using this
    apply (advance_post _).bind
    intro t' s2 h
    obtain ⟨rfl, rfl⟩ := h t r hr h1.1
    exact Matched.some _ r hr (by simp [h1.2]) (by simpa using h1.1)
  | false =>
    simp only [Bool.false_eq_true, ite_false]
    refine Matched.none ?_
    intro t' r' h' hne
    rw [hr] at h'; cases h'
    have := hc.symm
    simp at this
    simpa using this hne

theorem matchTokens_post : ∀ tts s, Post (matchTokens tts s) (Matched tts s)
  | [], s => Matched.none (by simp)
  | tt :: tts, s => by
    unfold matchTokens
    apply (matchToken_post tt s).bind
    intro m s1 hm
    cases hm with
    | some t r ha hmem hne =>
      exact Matched.some t r ha (by simp at hmem; simp [hmem]) hne
    | none hn =>
      apply (matchTokens_post tts s).mono
      intro m s2 hm
      cases hm with
      | some t r ha hmem hne => exact Matched.some t r ha (List.mem_cons_of_mem _ hmem) hne
      | none hn2 =>
        refine Matched.none ?_
        intro t r h hne
        have a := hn t r h hne
        have b := hn2 t r h hne
        simp at a
        simp [a, b]

theorem consume_post (tt : TT) (hne : tt ≠ .eof) (rep s) :
    Post (consume tt rep s) (fun t s' => ∃ r, s.after = t :: r ∧ t.tt = tt ∧ s' = adv s t r) := by
  unfold consume
  apply (peek_post s).bind
  intro nxt s1 ⟨hs, r, hr⟩
  subst hs
  split
  · rename_i heq
    have htt : nxt.tt = tt := by simpa using heq
    apply (advance_post _).mono
    intro t' s2 h
    obtain ⟨rfl, rfl⟩ := h nxt r hr (by rw [htt]; simpa using hne)
    exact ⟨r, hr, htt, rfl⟩
  · trivial

/-! ## the tokens a parser function moved over -/

/-- between `s` and `s'` the cursor moved over exactly the tokens `c`; the scope flags are kept -/
structure Consumed (s s' : PState) (c : List Token) : Prop where
  before : s'.before = c.reverse ++ s.before
  after : s.after = c ++ s'.after
  inFn : s'.inFn = s.inFn
  inLoop : s'.inLoop = s.inLoop

theorem Consumed.refl (s : PState) : Consumed s s [] := ⟨rfl, rfl, rfl, rfl⟩

theorem Consumed.trans {a b c : PState} {c1 c2 : List Token} (h1 : Consumed a b c1) (h2 : Consumed b c c2) :
    Consumed a c (c1 ++ c2) :=
  ⟨by rw [h2.before, h1.before]; simp, by rw [h1.after, h2.after]; simp,
   h2.inFn.trans h1.inFn, h2.inLoop.trans h1.inLoop⟩

theorem Consumed.adv {s : PState} {t : Token} {r : List Token} (h : s.after = t :: r) :
    Consumed s (adv s t r) [t] := ⟨rfl, h, rfl, rfl⟩

theorem Consumed.cons {s s' : PState} {t : Token} {r c : List Token} (h : s.after = t :: r)
    (h2 : Consumed (P.adv s t r) s' c) : Consumed s s' (t :: c) := (Consumed.adv h).trans h2

theorem Consumed.snoc {s s' : PState} {t : Token} {r c : List Token} (h1 : Consumed s s' c)
    (h : s'.after = t :: r) : Consumed s (P.adv s' t r) (c ++ [t]) := h1.trans (Consumed.adv h)

/-- what `previous()` is after a non-empty stretch -/
theorem Consumed.prev {s s' : PState} {c : List Token} {x : Token} (h : Consumed s s' c)
    (hl : c.getLast? = some x) : ∃ r, s'.before = x :: r := by
  obtain ⟨ys, rfl⟩ := List.getLast?_eq_some_iff.mp hl
  exact ⟨ys.reverse ++ s.before, by rw [h.before]; simp⟩

theorem getLast?_app {α} {x : α} {cr : List α} (pre : List α) (h : cr.getLast? = some x) :
    (pre ++ cr).getLast? = some x := by
  obtain ⟨ys, rfl⟩ := List.getLast?_eq_some_iff.mp h
  rw [← List.append_assoc]; simp

theorem getLast?_cons_of {α} {x : α} {cr : List α} (t : α) (h : cr.getLast? = some x) :
    (t :: cr).getLast? = some x := getLast?_app [t] h

theorem getLast?_app_cons_of {α} {x : α} {cr : List α} (pre : List α) (t : α) (h : cr.getLast? = some x) :
    (pre ++ t :: cr).getLast? = some x := getLast?_app pre (getLast?_cons_of t h)

theorem getLast?_cons_snoc {α} (t x : α) (c : List α) : (t :: (c ++ [x])).getLast? = some x :=
  getLast?_cons_of t (by simp)

/-! ## renderings -/

/-- src: token.rs `to_logical_op` (the parser constructs the operator from the loop it is in) -/
def toLogOp : TT → Option LogOp
  | .or_ => some .or | .and_ => some .and | _ => none

/-- the literal a token denotes -/
def litOf (t : Token) : Option LitV :=
  match t.tt, t.lit with
  | .true_, _ => some .true
  | .false_, _ => some .false
  | .null, _ => some .null
  | .stringLiteral, .str v => some (.str v)
  | .number, .num v => some (.num v)
  | _, _ => none

/-- the token an index expression records for its base: the last token of the *primary* the chain of
indexings started from (src: `let expr_token = self.previous()` before the `while` of `access`) -/
def baseTok : Expr → Token
  | .access _ lt _ _ _ => lt
  | e => lastTok e

mutual
/-- `Shape e c`: the token list `c` is a rendering of the tree `e`. Every token field of the tree is
determined by `c`; the separators of argument lists, which the tree does not keep, appear in `c` and
(for calls) in the recorded argument spans. -/
inductive Shape : Expr → List Token → Prop
  | lit {v tok} : litOf tok = some v → Shape (.lit v tok) [tok]
  | var {tok} : tok.tt = .identifier → Shape (.var tok.lexeme tok) [tok]
  | binary {l op r tok cl cr} : Shape l cl → toBinOp tok.tt = some op → Shape r cr →
      Shape (.binary l op r tok) (cl ++ tok :: cr)
  | logical {l op r tok cl cr} : Shape l cl → toLogOp tok.tt = some op → Shape r cr →
      Shape (.logical l op r tok) (cl ++ tok :: cr)
  | unary {op r tok cr} : toUnOp tok.tt = some op → Shape r cr → Shape (.unary op r tok) (tok :: cr)
  | grouping {e lp rp c} : lp.tt = .leftParen → Shape e c → rp.tt = .rightParen →
      Shape (.grouping e lp rp) (lp :: (c ++ [rp]))
  | call0 {tok lp rp} : tok.tt = .identifier → lp.tt = .leftParen → rp.tt = .rightParen →
      Shape (.call tok.lexeme [] [] tok lp rp) [tok, lp, rp]
  | callN {tok lp rp args seps c} : tok.tt = .identifier → lp.tt = .leftParen → ShapeArgs args seps c →
      rp.tt = .rightParen →
      Shape (.call tok.lexeme args (windowSpans (lp :: (seps ++ [rp]))) tok lp rp) (tok :: lp :: (c ++ [rp]))
  | access {l lt k lb rb cl ck} : Shape l cl → lt = baseTok l → lb.tt = .leftBracket → Shape k ck →
      rb.tt = .rightBracket → Shape (.access l lt k lb rb) (cl ++ lb :: (ck ++ [rb]))
  | list0 {lb rb} : lb.tt = .leftBracket → rb.tt = .rightBracket → Shape (.list [] lb rb) [lb, rb]
  | listN {lb rb items seps c} : lb.tt = .leftBracket → ShapeArgs items seps c → rb.tt = .rightBracket →
      Shape (.list items lb rb) (lb :: (c ++ [rb]))
  | assign {name tok v arrow c cv} : Shape (.var name tok) c → arrow.tt = .arrow → Shape v cv →
      Shape (.assign name tok v arrow) (c ++ arrow :: cv)
  | set {l lt k lb rb v arrow c cv} : Shape (.access l lt k lb rb) c → arrow.tt = .arrow → Shape v cv →
      Shape (.set l lt k lb rb v arrow) (c ++ arrow :: cv)
/-- a non-empty comma-separated list: the trees, the comma tokens, all the tokens -/
inductive ShapeArgs : List Expr → List Token → List Token → Prop
  | one {e c} : Shape e c → ShapeArgs [e] [] c
  | cons {e c comma es seps cs} : Shape e c → comma.tt = .comma → ShapeArgs es seps cs →
      ShapeArgs (e :: es) (comma :: seps) (c ++ comma :: cs)
end

/-- the last token of a rendering is the tree's `lastTok` -/
theorem Shape.last' : ∀ (e : Expr) (c : List Token), Shape e c → c.getLast? = some (lastTok e)
  | _, _, .lit _ => rfl
  | _, _, .var _ => rfl
  | _, _, .binary _ _ hr => by have h := Shape.last' _ _ hr; exact getLast?_app_cons_of _ _ h
  | _, _, .logical _ _ hr => by have h := Shape.last' _ _ hr; exact getLast?_app_cons_of _ _ h
  | _, _, .unary _ hr => by have h := Shape.last' _ _ hr; exact getLast?_cons_of _ h
  | _, _, .grouping _ _ _ => getLast?_cons_snoc _ _ _
  | _, _, .call0 _ _ _ => rfl
  | _, _, .callN _ _ _ _ => getLast?_cons_of _ (getLast?_cons_snoc _ _ _)
  | _, _, .access _ _ _ _ _ => getLast?_app _ (getLast?_cons_snoc _ _ _)
  | _, _, .list0 _ _ => rfl
  | _, _, .listN _ _ _ => getLast?_cons_snoc _ _ _
  | _, _, .assign _ _ hv => by have h := Shape.last' _ _ hv; exact getLast?_app_cons_of _ _ h
  | _, _, .set _ _ hv => by have h := Shape.last' _ _ hv; exact getLast?_app_cons_of _ _ h

theorem Shape.last {e c} (h : Shape e c) : c.getLast? = some (lastTok e) := Shape.last' e c h

theorem Shape.ne_nil {e c} (h : Shape e c) : c ≠ [] := by
  intro hc; have := h.last; rw [hc] at this; cases this

/-! ## the precedence ladder -/

def BinLevel.n : BinLevel → Nat
  | .equality => 4 | .comparison => 5 | .addition => 6 | .multiplication => 7

def opLevel : BinOp → Nat
  | .eqeq | .ne => 4
  | .lt | .le | .gt | .ge => 5
  | .add | .sub => 6
  | .mul | .div | .mod => 7

def logLevel : LogOp → Nat
  | .or => 2 | .and => 3

/-- binding strength of the root of a tree: assignment 1 < OR 2 < AND 3 < `== !=` 4 < `< <= > >=` 5 <
`+ -` 6 < `* / MOD` 7 < unary 8 < everything else (literals, variables, calls, lists, indexing,
parenthesised expressions) 9 -/
def level : Expr → Nat
  | .assign .. => 1
  | .set .. => 1
  | .logical _ op _ _ => logLevel op
  | .binary _ op _ _ => opLevel op
  | .unary .. => 8
  | _ => 9

theorem level_le (e : Expr) : level e ≤ 9 := by
  cases e <;> simp [level]
  · rename_i op _ _; cases op <;> simp [opLevel]
  · rename_i op _ _; cases op <;> simp [logLevel]

theorem level_pos (e : Expr) : 1 ≤ level e := by
  cases e <;> simp [level]
  · rename_i op _ _; cases op <;> simp [opLevel]
  · rename_i op _ _; cases op <;> simp [logLevel]

/-- the tree could have been written without parentheses other than its `.grouping` nodes: every
operand binds at least as tightly as its position in the documented ladder demands -/
inductive RespectsPrec : Expr → Prop
  | lit (v tok) : RespectsPrec (.lit v tok)
  | var (n tok) : RespectsPrec (.var n tok)
  /-- left-associative: the left operand may be a chain of the same level, the right one may not -/
  | binary {l op r tok} : RespectsPrec l → RespectsPrec r → opLevel op ≤ level l → opLevel op < level r →
      RespectsPrec (.binary l op r tok)
  | or {l r tok} : RespectsPrec l → RespectsPrec r → 2 ≤ level l → 3 ≤ level r →
      RespectsPrec (.logical l .or r tok)
  /-- AND chains are nested to the RIGHT (the Rust `and` calls itself for the right operand) -/
  | and {l r tok} : RespectsPrec l → RespectsPrec r → 4 ≤ level l → 3 ≤ level r →
      RespectsPrec (.logical l .and r tok)
  | unary {op r tok} : RespectsPrec r → 8 ≤ level r → RespectsPrec (.unary op r tok)
  /-- explicit parentheses: anything inside -/
  | grouping {e lp rp} : RespectsPrec e → RespectsPrec (.grouping e lp rp)
  | call {name args spans tok lp rp} : (∀ a ∈ args, RespectsPrec a) →
      RespectsPrec (.call name args spans tok lp rp)
  | list {items lb rb} : (∀ a ∈ items, RespectsPrec a) → RespectsPrec (.list items lb rb)
  | access {l lt k lb rb} : RespectsPrec l → 9 ≤ level l → RespectsPrec k →
      RespectsPrec (.access l lt k lb rb)
  /-- right-nested; the target is a variable -/
  | assign {name tok v arrow} : RespectsPrec v → RespectsPrec (.assign name tok v arrow)
  /-- right-nested; the target is an index expression -/
  | set {l lt k lb rb v arrow} : RespectsPrec (.access l lt k lb rb) → RespectsPrec v →
      RespectsPrec (.set l lt k lb rb v arrow)

theorem opLevel_of_mem {lvl : BinLevel} {k : TT} {op : BinOp} (hmem : k ∈ lvl.ops)
    (hop : toBinOp k = some op) : opLevel op = lvl.n := by
  cases lvl <;> cases k <;> simp [BinLevel.ops] at hmem <;> (simp [toBinOp] at hop; subst hop; rfl)

/-! ## the ladder, function by function -/

/-- what a successful expression-level function returns: it moved over `c`, a rendering of the tree,
and the tree respects the ladder and binds at least as tightly as level `n` -/
def ExprQ (n : Nat) (s : PState) (e : Expr) (s' : PState) : Prop :=
  ∃ c, Consumed s s' c ∧ Shape e c ∧ RespectsPrec e ∧ n ≤ level e

theorem ExprQ.mono {n m s e s'} (h : ExprQ m s e s') (hnm : n ≤ m) : ExprQ n s e s' := by
  obtain ⟨c, h1, h2, h3, h4⟩ := h
  exact ⟨c, h1, h2, h3, Nat.le_trans hnm h4⟩

/-- the next token is not `AND` -/
def NoAnd (s : PState) : Prop := ∀ t r, s.after = t :: r → t.tt ≠ .and_

/-- argument / item loops: the accumulators grew by `new`, rendered by the tokens moved over -/
def ArgsQ (args : List Expr) (s : PState) (res : List Expr) (s' : PState) : Prop :=
  ∃ new seps c, res = args ++ new ∧ Consumed s s' c ∧ ShapeArgs new seps c ∧ ∀ x ∈ new, RespectsPrec x

def CallArgsQ (args : List Expr) (toks : List Token) (s : PState) (res : List Expr × List Token)
    (s' : PState) : Prop :=
  ∃ new seps c nxt r, res.1 = args ++ new ∧ res.2 = toks ++ seps ++ [nxt] ∧ s'.after = nxt :: r ∧
    Consumed s s' c ∧ ShapeArgs new seps c ∧ ∀ x ∈ new, RespectsPrec x

structure ExprSound (f : Nat) : Prop where
  expression : ∀ s, Post (expression f s) (ExprQ 1 s)
  assignment : ∀ s, Post (assignment f s) (ExprQ 1 s)
  orE : ∀ s, Post (orE f s) (ExprQ 2 s)
  orLoop : ∀ s0 l s, ExprQ 2 s0 l s → Post (orLoop f l s) (ExprQ 2 s0)
  andE : ∀ s, Post (andE f s) (fun e s' => ExprQ 3 s e s' ∧ NoAnd s')
  andLoop : ∀ s0 l s, ExprQ 3 s0 l s → (4 ≤ level l ∨ NoAnd s) →
    Post (andLoop f l s) (fun e s' => ExprQ 3 s0 e s' ∧ NoAnd s')
  binLevel : ∀ lvl s, Post (binLevel f lvl s) (ExprQ lvl.n s)
  binLoop : ∀ lvl s0 l s, ExprQ lvl.n s0 l s → Post (binLoop f lvl l s) (ExprQ lvl.n s0)
  unary : ∀ s, Post (unary f s) (ExprQ 8 s)
  access : ∀ s, Post (access f s) (ExprQ 9 s)
  accessLoop : ∀ s0 t e s, ExprQ 9 s0 e s → baseTok e = t → Post (accessLoop f t e s) (ExprQ 9 s0)
  primary : ∀ s, Post (primary f s) (fun e s' => ExprQ 9 s e s' ∧ baseTok e = lastTok e)
  callArgs : ∀ a t s, Post (callArgs f a t s) (CallArgsQ a t s)
  listItems : ∀ a s, Post (listItems f a s) (ArgsQ a s)

theorem exprSound_zero : ExprSound 0 := by
  constructor <;> intros <;> simp only [P.expression, P.assignment, P.orE, P.orLoop, P.andE, P.andLoop,
    P.binLevel, P.binLoop, P.unary, P.access, P.accessLoop, P.primary, P.callArgs, P.listItems] <;> trivial

theorem litOf_true {t : Token} (h : t.tt = .true_) : litOf t = some .true := by simp [litOf, h]
theorem litOf_false {t : Token} (h : t.tt = .false_) : litOf t = some .false := by simp [litOf, h]
theorem litOf_null {t : Token} (h : t.tt = .null) : litOf t = some .null := by simp [litOf, h]
theorem litOf_str {t : Token} {v} (h : t.tt = .stringLiteral) (hl : t.lit = .str v) :
    litOf t = some (.str v) := by simp [litOf, h, hl]
theorem litOf_num {t : Token} {v} (h : t.tt = .number) (hl : t.lit = .num v) :
    litOf t = some (.num v) := by simp [litOf, h, hl]

section step
variable {f : Nat} (ih : ExprSound f)
include ih

theorem expression_sstep (s) : Post (expression (f+1) s) (ExprQ 1 s) := by
  simp only [P.expression]; exact ih.assignment s

theorem assignment_sstep (s) : Post (assignment (f+1) s) (ExprQ 1 s) := by
  simp only [P.assignment]
  apply (ih.orE s).bind
  intro e s1 h1
  apply (previous_post s1).bind
  intro exprTok s2 ⟨hs2, _⟩
  subst hs2
  apply (matchToken_post .arrow _).bind
  intro m s3 hm
  cases hm with
  | none _ => exact h1.mono (by decide)
  | some arrow r ha hmem hne =>
    apply (ih.assignment _).bind
    intro value s4 ⟨cv, hcv, hsv, hrv, _⟩
    obtain ⟨c, hc, hs, hrp, _⟩ := h1
    have harrow : arrow.tt = .arrow := by simpa using hmem
    cases e with
    | var name tok =>
      exact ⟨c ++ arrow :: cv, hc.trans (.cons ha hcv), .assign hs harrow hsv, .assign hrv, by simp [level]⟩
    | access l lt k lb rb =>
      exact ⟨c ++ arrow :: cv, hc.trans (.cons ha hcv), .set hs harrow hsv, .set hrp hrv, by simp [level]⟩
    | _ => trivial

theorem orE_sstep (s) : Post (orE (f+1) s) (ExprQ 2 s) := by
  simp only [P.orE]
  apply (ih.andE s).bind
  intro e s1 h1
  exact ih.orLoop s e s1 (h1.1.mono (by decide))

theorem orLoop_sstep (s0 l s) (hl : ExprQ 2 s0 l s) : Post (orLoop (f+1) l s) (ExprQ 2 s0) := by
  simp only [P.orLoop]
  apply (matchToken_post .or_ s).bind
  intro m s1 hm
  cases hm with
  | none _ => exact hl
  | some tok r ha hmem hne =>
    apply (ih.andE _).bind
    intro right s2 ⟨⟨cr, hcr, hsr, hrr, hlr⟩, _⟩
    apply ih.orLoop
    obtain ⟨cl, hcl, hsl, hrl, hll⟩ := hl
    have htt : tok.tt = .or_ := by simpa using hmem
    exact ⟨cl ++ tok :: cr, hcl.trans (.cons ha hcr), .logical hsl (by simp [htt, toLogOp]) hsr,
      .or hrl hrr hll hlr, by simp [level, logLevel]⟩

theorem andE_sstep (s) : Post (andE (f+1) s) (fun e s' => ExprQ 3 s e s' ∧ NoAnd s') := by
  simp only [P.andE]
  apply (ih.binLevel .equality s).bind
  intro e s1 h1
  refine ih.andLoop s e s1 (h1.mono (by decide)) (Or.inl ?_)
  obtain ⟨_, _, _, _, h⟩ := h1
  exact h

theorem andLoop_sstep (s0 l s) (hl : ExprQ 3 s0 l s) (hand : 4 ≤ level l ∨ NoAnd s) :
    Post (andLoop (f+1) l s) (fun e s' => ExprQ 3 s0 e s' ∧ NoAnd s') := by
  simp only [P.andLoop]
  apply (matchToken_post .and_ s).bind
  intro m s1 hm
  cases hm with
  | none hn =>
    refine ⟨hl, ?_⟩
    intro t r h htt
    exact hn t r h (by rw [htt]; decide) (by simp [htt])
  | some tok r ha hmem hne =>
    have htt : tok.tt = .and_ := by simpa using hmem
    have h4 : 4 ≤ level l := by
      rcases hand with h | h
      · exact h
      · exact absurd htt (h tok r ha)
    apply (ih.andE _).bind
    intro right s2 ⟨⟨cr, hcr, hsr, hrr, hlr⟩, hno⟩
    apply ih.andLoop
    · obtain ⟨cl, hcl, hsl, hrl, hll⟩ := hl
      exact ⟨cl ++ tok :: cr, hcl.trans (.cons ha hcr), .logical hsl (by simp [htt, toLogOp]) hsr,
        .and hrl hrr h4 hlr, by simp [level, logLevel]⟩
    · exact Or.inr hno

theorem operand_post (lvl : BinLevel) (s) :
    Post (match lvl.next with | some n => binLevel f n s | none => unary f s) (ExprQ (lvl.n + 1) s) := by
  cases lvl
  · exact ih.binLevel .comparison s
  · exact ih.binLevel .addition s
  · exact ih.binLevel .multiplication s
  · exact ih.unary s

theorem binLevel_sstep (lvl s) : Post (binLevel (f+1) lvl s) (ExprQ lvl.n s) := by
  simp only [P.binLevel]
  apply (operand_post ih lvl s).bind
  intro e s1 h1
  exact ih.binLoop lvl s e s1 (h1.mono (Nat.le_succ _))

theorem binLoop_sstep (lvl s0 l s) (hl : ExprQ lvl.n s0 l s) :
    Post (binLoop (f+1) lvl l s) (ExprQ lvl.n s0) := by
  simp only [P.binLoop]
  apply (matchTokens_post lvl.ops s).bind
  intro m s1 hm
  cases hm with
  | none _ => exact hl
  | some tok r ha hmem hne =>
    apply (operand_post ih lvl _).bind
    intro right s2 ⟨cr, hcr, hsr, hrr, hlr⟩
    cases hop : toBinOp tok.tt with
    | none => trivial
    | some op =>
      apply ih.binLoop
      obtain ⟨cl, hcl, hsl, hrl, hll⟩ := hl
      have hlev := opLevel_of_mem hmem hop
      exact ⟨cl ++ tok :: cr, hcl.trans (.cons ha hcr), .binary hsl hop hsr,
        .binary hrl hrr (by omega) (by omega), by simp [level, hlev]⟩

theorem unary_sstep (s) : Post (unary (f+1) s) (ExprQ 8 s) := by
  simp only [P.unary]
  apply (matchTokens_post [.not_, .minus] s).bind
  intro m s1 hm
  cases hm with
  | none _ => exact (ih.access s).mono (fun e s' h => h.mono (by decide))
  | some tok r ha hmem hne =>
    apply (ih.unary _).bind
    intro right s2 ⟨cr, hcr, hsr, hrr, hlr⟩
    cases hop : toUnOp tok.tt with
    | none => trivial
    | some op => exact ⟨tok :: cr, .cons ha hcr, .unary hop hsr, .unary hrr hlr, by simp [level]⟩

theorem access_sstep (s) : Post (access (f+1) s) (ExprQ 9 s) := by
  simp only [P.access]
  apply (ih.primary s).bind
  intro e s1 ⟨hq, hb⟩
  apply (previous_post s1).bind
  intro t s2 ⟨hs2, r, hr⟩
  subst hs2
  apply ih.accessLoop _ _ _ _ hq
  obtain ⟨c, hc, hs, _, _⟩ := hq
  obtain ⟨r', hr'⟩ := hc.prev hs.last
  rw [hr] at hr'; cases hr'
  exact hb

theorem accessLoop_sstep (s0 t e s) (hl : ExprQ 9 s0 e s) (hb : baseTok e = t) :
    Post (accessLoop (f+1) t e s) (ExprQ 9 s0) := by
  simp only [P.accessLoop]
  apply (matchToken_post .leftBracket s).bind
  intro m s1 hm
  cases hm with
  | none _ => exact hl
  | some lb r ha hmem hne =>
    apply (ih.expression _).bind
    intro index s2 ⟨ck, hck, hsk, hrk, _⟩
    apply (consume_post .rightBracket (by decide) _ s2).bind
    intro rb s3 ⟨r3, ha3, htt3, hs3⟩
    subst hs3
    obtain ⟨cl, hcl, hsl, hrl, hll⟩ := hl
    apply ih.accessLoop
    · exact ⟨cl ++ lb :: (ck ++ [rb]), hcl.trans (.cons ha (hck.snoc ha3)),
        .access hsl hb.symm (by simpa using hmem) hsk htt3, .access hrl hll hrk, by simp [level]⟩
    · rfl

theorem callArgs_sstep (a t s) : Post (callArgs (f+1) a t s) (CallArgsQ a t s) := by
  simp only [P.callArgs]
  split
  · trivial
  · apply (ih.expression s).bind
    intro e s1 ⟨c1, hc1, hs1, hrp1, _⟩
    apply (peek_post s1).bind
    intro nxt s2 ⟨hs2, r, hr⟩
    subst hs2
    apply (matchToken_post .comma _).bind
    intro m s3 hm
    cases hm with
    | none _ => exact ⟨[e], [], c1, nxt, r, rfl, by simp, hr, hc1, .one hs1, by simpa using hrp1⟩
    | some t' r' ha hmem hne =>
      rw [hr] at ha; cases ha
      apply (ih.callArgs _ _ _).mono
      intro p s4 ⟨new, seps, c, nxt', r4, h1, h2, h3, h4, h5, h6⟩
      refine ⟨e :: new, nxt :: seps, c1 ++ nxt :: c, nxt', r4, by simp [h1], by simp [h2], h3,
        hc1.trans (.cons hr h4), .cons hs1 (by simpa using hmem) h5, ?_⟩
      intro x hx
      rcases List.mem_cons.mp hx with rfl | hx
      · exact hrp1
      · exact h6 x hx

theorem listItems_sstep (a s) : Post (listItems (f+1) a s) (ArgsQ a s) := by
  simp only [P.listItems]
  apply (ih.expression s).bind
  intro e s1 ⟨c1, hc1, hs1, hrp1, _⟩
  apply (matchToken_post .comma _).bind
  intro m s3 hm
  cases hm with
  | none _ => exact ⟨[e], [], c1, rfl, hc1, .one hs1, by simpa using hrp1⟩
  | some comma r ha hmem hne =>
    apply (ih.listItems _ _).mono
    intro items s4 ⟨new, seps, c, h1, h4, h5, h6⟩
    refine ⟨e :: new, comma :: seps, c1 ++ comma :: c, by simp [h1], hc1.trans (.cons ha h4),
      .cons hs1 (by simpa using hmem) h5, ?_⟩
    intro x hx
    rcases List.mem_cons.mp hx with rfl | hx
    · exact hrp1
    · exact h6 x hx

theorem primary_sstep (s) :
    Post (primary (f+1) s) (fun e s' => ExprQ 9 s e s' ∧ baseTok e = lastTok e) := by
  simp only [P.primary]
  apply (matchToken_post .true_ s).bind
  intro m s1 hm
  cases hm with
  | some tok r ha hmem hne =>
    exact ⟨⟨[tok], .adv ha, .lit (litOf_true (by simpa using hmem)), .lit _ _, by simp [level]⟩, rfl⟩
  | none _ =>
  apply (matchToken_post .false_ s).bind
  intro m s1 hm
  cases hm with
  | some tok r ha hmem hne =>
    exact ⟨⟨[tok], .adv ha, .lit (litOf_false (by simpa using hmem)), .lit _ _, by simp [level]⟩, rfl⟩
  | none _ =>
  apply (matchToken_post .null s).bind
  intro m s1 hm
  cases hm with
  | some tok r ha hmem hne =>
    exact ⟨⟨[tok], .adv ha, .lit (litOf_null (by simpa using hmem)), .lit _ _, by simp [level]⟩, rfl⟩
  | none _ =>
  apply (matchToken_post .stringLiteral s).bind
  intro m s1 hm
  cases hm with
  | some tok r ha hmem hne =>
    dsimp only
    cases hl : tok.lit with
    | str v =>
      exact ⟨⟨[tok], .adv ha, .lit (litOf_str (by simpa using hmem) hl), .lit _ _, by simp [level]⟩, rfl⟩
    | none => trivial
    | num _ => trivial
  | none _ =>
  apply (matchToken_post .number s).bind
  intro m s1 hm
  cases hm with
  | some tok r ha hmem hne =>
    dsimp only
    cases hl : tok.lit with
    | num v =>
      exact ⟨⟨[tok], .adv ha, .lit (litOf_num (by simpa using hmem) hl), .lit _ _, by simp [level]⟩, rfl⟩
    | none => trivial
    | str _ => trivial
  | none _ =>
  apply (matchToken_post .identifier s).bind
  intro m s1 hm
  cases hm with
  | some tok r ha hmem hne =>
    have hid : tok.tt = .identifier := by simpa using hmem
    apply (matchToken_post .leftParen _).bind
    intro m s2 hm2
    cases hm2 with
    | none _ => exact ⟨⟨[tok], .adv ha, .var hid, .var _ _, by simp [level]⟩, rfl⟩
    | some lp r2 ha2 hmem2 hne2 =>
      have hlp : lp.tt = .leftParen := by simpa using hmem2
      apply (check_post .rightParen _).bind
      intro c s3 ⟨hs3, _⟩
      subst hs3
      cases c with
      | true =>
        simp only [ite_true, PRes.bind_ok]
        apply (consume_post .rightParen (by decide) _ _).bind
        intro rp s4 ⟨r4, ha4, hrp, hs4⟩
        subst hs4
        exact ⟨⟨[tok, lp, rp], .cons ha (.cons ha2 (.adv ha4)), .call0 hid hlp hrp,
          .call (by simp), by simp [level]⟩, rfl⟩
      | false =>
        simp only [Bool.false_eq_true, ite_false]
        apply (ih.callArgs _ _ _).bind
        intro p s4 ⟨new, seps, c, nxt, r4, h1, h2, h3, h4, h5, h6⟩
        obtain ⟨args, argToks⟩ := p
        simp only [List.nil_append] at h1 h2
        subst h1 h2
        apply (consume_post .rightParen (by decide) _ _).bind
        intro rp s5 ⟨r5, ha5, hrp, hs5⟩
        subst hs5
        rw [h3] at ha5; cases ha5
        exact ⟨⟨tok :: lp :: (c ++ [nxt]), .cons ha (.cons ha2 (h4.snoc h3)), .callN hid hlp h5 hrp,
          .call h6, by simp [level]⟩, rfl⟩
  | none _ =>
  apply (matchToken_post .leftParen s).bind
  intro m s1 hm
  cases hm with
  | some lp r ha hmem hne =>
    apply (ih.expression _).bind
    intro e s2 ⟨c, hc, hs, hrp, _⟩
    apply (consume_post .rightParen (by decide) _ _).bind
    intro rp s3 ⟨r3, ha3, hrpt, hs3⟩
    subst hs3
    exact ⟨⟨lp :: (c ++ [rp]), .cons ha (hc.snoc ha3), .grouping (by simpa using hmem) hs hrpt,
      .grouping hrp, by simp [level]⟩, rfl⟩
  | none _ =>
  apply (matchToken_post .leftBracket s).bind
  intro m s1 hm
  cases hm with
  | some lb r ha hmem hne =>
    have hlb : lb.tt = .leftBracket := by simpa using hmem
    apply (check_post .rightBracket _).bind
    intro c s3 ⟨hs3, _⟩
    subst hs3
    cases c with
    | true =>
      simp only [ite_true, PRes.bind_ok]
      apply (consume_post .rightBracket (by decide) _ _).bind
      intro rb s4 ⟨r4, ha4, hrb, hs4⟩
      subst hs4
      exact ⟨⟨[lb, rb], .cons ha (.adv ha4), .list0 hlb hrb, .list (by simp), by simp [level]⟩, rfl⟩
    | false =>
      simp only [Bool.false_eq_true, ite_false]
      apply (ih.listItems _ _).bind
      intro items s4 ⟨new, seps, c, h1, h4, h5, h6⟩
      simp only [List.nil_append] at h1
      subst h1
      apply (consume_post .rightBracket (by decide) _ _).bind
      intro rb s5 ⟨r5, ha5, hrb, hs5⟩
      subst hs5
      exact ⟨⟨lb :: (c ++ [rb]), .cons ha (h4.snoc ha5), .listN hlb h5 hrb, .list h6, by simp [level]⟩, rfl⟩
  | none _ =>
    apply (peek_post s).bind
    intro t s2 _
    trivial

end step

theorem exprSound : ∀ f, ExprSound f
  | 0 => exprSound_zero
  | f+1 =>
    have ih := exprSound f
    { expression := expression_sstep ih, assignment := assignment_sstep ih, orE := orE_sstep ih,
      orLoop := orLoop_sstep ih, andE := andE_sstep ih, andLoop := andLoop_sstep ih,
      binLevel := binLevel_sstep ih, binLoop := binLoop_sstep ih, unary := unary_sstep ih,
      access := access_sstep ih, accessLoop := accessLoop_sstep ih, primary := primary_sstep ih,
      callArgs := callArgs_sstep ih, listItems := listItems_sstep ih }

theorem expression_sound (f s) : Post (expression f s) (ExprQ 1 s) := (exprSound f).expression s

end P
end Aplang
