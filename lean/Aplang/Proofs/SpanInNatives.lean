import Aplang.Proofs.SpanInBasics
import Aplang.Proofs.NativesSame
/-!
# Library diagnostics are labelled with one of the argument spans (for C11, first sentence)

* `callNative_err_span`: whatever a native procedure is called with, a runtime error it raises is labelled with
  one of the spans it was handed (the per-argument ranges of the call node). A sweep over all 80 procedures.
* `callNative_fs_same`: the procedures that are not among the eight file-system *mutators* of the FS module leave
  the files as they are (used for the module-aware statement: module files that cannot change under the run).
-/
namespace Aplang

/-- a runtime error of `r` is labelled with one of `spans` -/
def ErrSp {α} (spans : List Span) (r : Res α) : Prop := ∀ e σ', r = .err e σ' → e.span ∈ spans

section
variable {α β : Type} {spans : List Span}

theorem ErrSp.ok (a : α) : ErrSp spans (.ok a) := by intro e s h; cases h
theorem ErrSp.panic (p o) : ErrSp (α := α) spans (.panic p o) := by intro e s h; cases h
theorem ErrSp.terminate (w σ) : ErrSp (α := α) spans (.terminate w σ) := by intro e s h; cases h
theorem ErrSp.fuel : ErrSp (α := α) spans .fuel := by intro e s h; cases h
theorem ErrSp.err {e : RtErr} {σ : St} (h : e.span ∈ spans) : ErrSp (α := α) spans (.err e σ) := by
  intro e' s h'; cases h'; exact h

theorem ErrSp.bind {x : Res α} {k : α → Res β} (hx : ErrSp spans x) (hk : ∀ a, ErrSp spans (k a)) :
    ErrSp spans (x.bind k) := by
  cases x with
  | ok a => exact hk a
  | err e s => intro e' s' h; rw [Res.bind_err] at h; cases h; exact hx e s rfl
  | terminate w s => intro e s' h; cases h
  | panic p s => intro e s' h; cases h
  | fuel => intro e s' h; cases h

theorem castNum_esp {v σ} {sp : Span} (h : sp ∈ spans) : ErrSp spans (castNum v sp σ) := by
  unfold castNum castErr; split <;> first | exact ErrSp.ok _ | exact ErrSp.err h
theorem castStr_esp {v σ} {sp : Span} (h : sp ∈ spans) : ErrSp spans (castStr v sp σ) := by
  unfold castStr castErr; split <;> first | exact ErrSp.ok _ | exact ErrSp.err h
theorem castList_esp {v σ} {sp : Span} (h : sp ∈ spans) : ErrSp spans (castList v sp σ) := by
  unfold castList castErr
  split
  · split <;> first | exact ErrSp.ok _ | exact ErrSp.panic _ _
  · exact ErrSp.err h
theorem castMap_esp {v σ} {sp : Span} (h : sp ∈ spans) : ErrSp spans (castMap v sp σ) := by
  unfold castMap castErr
  split
  · split <;> first | exact ErrSp.ok _ | exact ErrSp.panic _ _ | exact ErrSp.err h
  · exact ErrSp.err h
theorem castRobot_esp {v σ} {sp : Span} (h : sp ∈ spans) : ErrSp spans (castRobot v sp σ) := by
  unfold castRobot castErr
  split
  · split <;> first | exact ErrSp.ok _ | exact ErrSp.panic _ _ | exact ErrSp.err h
  · exact ErrSp.err h

theorem display_esp (σ v) : ErrSp spans (display σ v) := by
  unfold display; split <;> first | exact ErrSp.ok _ | exact ErrSp.fuel

theorem displayAll_esp (σ : St) : ∀ vs, ErrSp spans (displayAll σ vs)
  | [] => ErrSp.ok _
  | v :: vs => by
    unfold displayAll
    exact ErrSp.bind (display_esp σ v) fun a => ErrSp.bind (displayAll_esp σ vs) fun b => ErrSp.ok _

theorem fsFlag_esp (op path σ) : ErrSp spans (fsFlag op path σ) := by
  unfold fsFlag; exact ErrSp.ok _

end

macro "esp_leaf" : tactic =>
  `(tactic| first
    | exact ErrSp.ok _
    | exact ErrSp.panic _ _
    | exact ErrSp.terminate _ _
    | exact ErrSp.fuel
    | exact ErrSp.err (by simp)
    | exact fsFlag_esp _ _ _)

macro "esp_pure" : tactic =>
  `(tactic| first
    | exact castNum_esp (by simp)
    | exact castStr_esp (by simp)
    | exact castList_esp (by simp)
    | exact castMap_esp (by simp)
    | exact castRobot_esp (by simp)
    | exact display_esp _ _
    | exact displayAll_esp _ _)

macro "esp_step" : tactic =>
  `(tactic| first
    | esp_leaf
    | (refine ErrSp.bind (by esp_pure) ?_; intro _)
    | split)

theorem moveRobot_esp {spans : List Span} (v s1 σ) (h : s1 ∈ spans) : ErrSp spans (moveRobot v s1 σ) := by
  unfold moveRobot
  refine ErrSp.bind (castRobot_esp h) ?_
  intro _
  repeat' esp_step

theorem callCore_esp (env n args spans σ) : ErrSp spans (callCore env n args spans σ) := by
  unfold callCore; split
  all_goals (repeat' esp_step)
theorem callMath_esp (env n args spans σ) : ErrSp spans (callMath env n args spans σ) := by
  unfold callMath; split
  all_goals (repeat' esp_step)
theorem callString_esp (env n args spans σ) : ErrSp spans (callString env n args spans σ) := by
  unfold callString; split
  all_goals (repeat' esp_step)
theorem callMap_esp (env n args spans σ) : ErrSp spans (callMap env n args spans σ) := by
  unfold callMap; split
  all_goals (repeat' esp_step)
theorem callIo_esp (env n args spans σ) : ErrSp spans (callIo env n args spans σ) := by
  unfold callIo; split
  all_goals (repeat' esp_step)
theorem callStyle_esp (env n args spans σ) : ErrSp spans (callStyle env n args spans σ) := by
  unfold callStyle; split
  all_goals (repeat' esp_step)
theorem callTime_esp (env n args spans σ) : ErrSp spans (callTime env n args spans σ) := by
  unfold callTime; split
  all_goals (repeat' esp_step)
theorem callRobot_esp (env n args spans σ) : ErrSp spans (callRobot env n args spans σ) := by
  unfold callRobot; split
  all_goals first | exact moveRobot_esp _ _ _ (by simp) | (repeat' esp_step)
theorem callFs_esp (env n args spans σ) : ErrSp spans (callFs env n args spans σ) := by
  unfold callFs; split
  all_goals (repeat' esp_step)

/-- **a runtime error raised by a native procedure is labelled with one of the spans the call handed it** -/
theorem callNative_err_span (env : CharEnv) (n : Native) (args : List Value) (spans : List Span) (σ : St) :
    ErrSp spans (callNative env n args spans σ) := by
  unfold callNative
  split
  · exact callCore_esp env n args spans σ
  · exact callMath_esp env n args spans σ
  · exact callString_esp env n args spans σ
  · exact callMap_esp env n args spans σ
  · exact callIo_esp env n args spans σ
  · exact callStyle_esp env n args spans σ
  · exact callTime_esp env n args spans σ
  · exact callRobot_esp env n args spans σ
  · exact callFs_esp env n args spans σ

/-! ## who can change the files -/

/-- the eight procedures of the FS module that create, change or remove files and directories -/
def Native.fsWrites : Native → Bool
  | .fileRemove | .fileCreate | .fileAppend | .fileOverwrite
  | .directoryCreate | .directoryCreateAll | .directoryRemove | .directoryRemoveAll => true
  | _ => false

/-- a successful result leaves the files as they are -/
def OkFs {α} (σ : St) (r : Res (α × St)) : Prop := ∀ a σ', r = .ok (a, σ') → σ'.world.fs = σ.world.fs

section
variable {α β : Type} {σ : St}
theorem OkFs.bind_pure {x : Res α} {k : α → Res (β × St)} (h : ∀ a, OkFs σ (k a)) : OkFs σ (x.bind k) := by
  cases x with
  | ok a => exact h a
  | err e s => intro a σ' he; cases he
  | terminate w s => intro a σ' he; cases he
  | panic p s => intro a σ' he; cases he
  | fuel => intro a σ' he; cases he
theorem OkFs.ok {σ' : St} (a : α) (h : σ'.world.fs = σ.world.fs) : OkFs σ (.ok (a, σ')) := by
  intro b s he; cases he; exact h
theorem OkFs.err (e s) : OkFs (α := α) σ (.err e s) := by intro b s' he; cases he
theorem OkFs.panic (e s) : OkFs (α := α) σ (.panic e s) := by intro b s' he; cases he
theorem OkFs.terminate (e s) : OkFs (α := α) σ (.terminate e s) := by intro b s' he; cases he
theorem OkFs.fuel : OkFs (α := α) σ .fuel := by intro b s' he; cases he
end

macro "okfs_leaf" : tactic =>
  `(tactic| first
    | exact OkFs.ok _ rfl
    | exact OkFs.err _ _
    | exact OkFs.panic _ _
    | exact OkFs.terminate _ _
    | exact OkFs.fuel)

macro "okfs_step" : tactic =>
  `(tactic| first
    | okfs_leaf
    | (apply OkFs.bind_pure; intro _)
    | split)

theorem moveRobot_okfs (v s1 σ) : OkFs σ (moveRobot v s1 σ) := by
  unfold moveRobot
  repeat' okfs_step

theorem callCore_okfs (env n args spans σ) : OkFs σ (callCore env n args spans σ) := by
  unfold callCore; split
  all_goals (repeat' okfs_step)
theorem callMath_okfs (env n args spans σ) : OkFs σ (callMath env n args spans σ) := by
  unfold callMath; split
  all_goals (repeat' okfs_step)
theorem callString_okfs (env n args spans σ) : OkFs σ (callString env n args spans σ) := by
  unfold callString; split
  all_goals (repeat' okfs_step)
theorem callMap_okfs (env n args spans σ) : OkFs σ (callMap env n args spans σ) := by
  unfold callMap; split
  all_goals (repeat' okfs_step)
theorem callIo_okfs (env n args spans σ) : OkFs σ (callIo env n args spans σ) := by
  unfold callIo; split
  all_goals (repeat' okfs_step)
theorem callStyle_okfs (env n args spans σ) : OkFs σ (callStyle env n args spans σ) := by
  unfold callStyle; split
  all_goals (repeat' okfs_step)
theorem callTime_okfs (env n args spans σ) : OkFs σ (callTime env n args spans σ) := by
  unfold callTime; split
  all_goals (repeat' okfs_step)
theorem callRobot_okfs (env n args spans σ) : OkFs σ (callRobot env n args spans σ) := by
  unfold callRobot; split
  all_goals first | exact moveRobot_okfs _ _ _ | (repeat' okfs_step)
theorem callFs_okfs (env n args spans σ) (h : n.fsWrites = false) : OkFs σ (callFs env n args spans σ) := by
  unfold callFs; split
  all_goals first | exact absurd h (by decide) | (repeat' okfs_step)

/-- **only the eight mutators of the FS module change the files** -/
theorem callNative_fs_same (env : CharEnv) (n : Native) (args : List Value) (spans : List Span) (σ : St)
    (h : n.fsWrites = false) : OkFs σ (callNative env n args spans σ) := by
  unfold callNative
  split
  · exact callCore_okfs env n args spans σ
  · exact callMath_okfs env n args spans σ
  · exact callString_okfs env n args spans σ
  · exact callMap_okfs env n args spans σ
  · exact callIo_okfs env n args spans σ
  · exact callStyle_okfs env n args spans σ
  · exact callTime_okfs env n args spans σ
  · exact callRobot_okfs env n args spans σ
  · exact callFs_okfs env n args spans σ h

end Aplang
