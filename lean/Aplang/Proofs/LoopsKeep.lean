import Aplang.Proofs.NativesSame
import Aplang.Proofs.ScopeFrame
/-!
# The loop-control stack is balanced

Every successful evaluation of the reference semantics — expression, statement, block, loop, program — ends with
exactly the loop-control stack (`σ.loops`) it started with: a loop statement pushes one record and pops it again
on every way out (normal end, BREAK, RETURN, shortened list), a call and an IMPORT leave the stack alone.
No hypothesis on the program, the state or the configuration; induction on the fuel over the eight functions of
`Spec/Eval.lean` (the pattern of `Proofs/ScopeFrame.lean`).
-/
namespace Aplang

/-- a successful result has exactly the loop-control stack of `σ` -/
def LoopsR {α : Type} [HasSt α] (σ : St) (r : Res α) : Prop := OkHolds (fun a => (HasSt.st a).loops = σ.loops) r

section
variable {α β : Type} {σ : St}

theorem LoopsR.ok [HasSt α] {a : α} (h : (HasSt.st a).loops = σ.loops) : LoopsR σ (.ok a) := h

theorem LoopsR.getP {r : Res (α × St)} {a : α} {σ' : St} (h : LoopsR σ r) (hr : r = .ok (a, σ')) :
    σ'.loops = σ.loops := by subst hr; exact h
theorem LoopsR.getS {r : Res St} {σ' : St} (h : LoopsR σ r) (hr : r = .ok σ') : σ'.loops = σ.loops := by
  subst hr; exact h

theorem LoopsR.of_eq [HasSt α] {σ1 : St} {r : Res α} (hσ : σ1.loops = σ.loops) (h : LoopsR σ1 r) : LoopsR σ r :=
  OkHolds.mono h fun _ ha => ha.trans hσ

theorem LoopsR.bindP [HasSt β] {x : Res (α × St)} {k : α × St → Res β} (hx : LoopsR σ x)
    (hk : ∀ a σ1, σ1.loops = σ.loops → LoopsR σ1 (k (a, σ1))) : LoopsR σ (x.bind k) :=
  OkHolds.bind hx fun p hp => LoopsR.of_eq hp (hk p.1 p.2 hp)
theorem LoopsR.bindS [HasSt β] {x : Res St} {k : St → Res β} (hx : LoopsR σ x)
    (hk : ∀ σ1, σ1.loops = σ.loops → LoopsR σ1 (k σ1)) : LoopsR σ (x.bind k) :=
  OkHolds.bind hx fun p hp => LoopsR.of_eq hp (hk p hp)
theorem LoopsR.bind_eq [HasSt β] {x : Res α} {k : α → Res β} (h : ∀ a, x = .ok a → LoopsR σ (k a)) :
    LoopsR σ (x.bind k) := OkHolds.bind_eq h
theorem LoopsR.bind_any [HasSt β] {x : Res α} {k : α → Res β} (h : ∀ a, LoopsR σ (k a)) : LoopsR σ (x.bind k) :=
  OkHolds.bind_eq fun a _ => h a

theorem LoopsR.of_okSame {r : Res (α × St)} (h : OkSame σ r) : LoopsR σ r :=
  OkHolds.intro fun p hp => (h p.1 p.2 hp).loops

end

macro "lk_refl" : tactic => `(tactic| first | exact LoopsR.ok rfl | exact (trivial : True))

/-! ## the state primitives -/

theorem tick_loops {σ0 σ : St} (h : tick σ0 = some σ) : σ.loops = σ0.loops := by
  unfold tick at h; split at h
  · cases h
  · cases h; rfl

theorem define_loopsR (σ x v) : LoopsR σ (define σ x v) :=
  OkHolds.intro fun σ' h => (define_same σ x v σ' h).loops

theorem removeVar_loopsR (σ x) : LoopsR σ (removeVar σ x) :=
  OkHolds.intro fun p h => (removeVar_same σ x p.1 p.2 h).loops

theorem createNested_loopsR (σ) : LoopsR σ (createNested σ) :=
  OkHolds.intro fun σ' h => (createNested_same σ σ' h).loops

theorem flattenNested_loopsR (σ) : LoopsR σ (flattenNested σ) :=
  OkHolds.intro fun σ' h => (flattenNested_same σ σ' h).loops

theorem writeBack_loops_eq (σ : St) (a i : Nat) (cur : Option Value) : (writeBack σ a i cur).loops = σ.loops := by
  unfold writeBack
  split
  · split <;> rfl
  · rfl

/-- the pop undoes the push -/
theorem popLoop_loops {σ2 σ3 : St} {lc : LoopCtl} {L : List LoopCtl} (h2 : σ2.loops = lc :: L)
    (h3 : popLoop σ2 = .ok σ3) : σ3.loops = L := by
  unfold popLoop at h3
  rw [h2] at h3
  cases h3; rfl

/-- IMPORT: the module runs on a loop stack of its own (`moduleState`), the importer's is put back (`afterModule`) -/
theorem importStmt_loopsR (cfg : Cfg) (runModule : List Stmt → St → Res St) (only modName σ) :
    LoopsR σ (importStmt cfg runModule only modName σ) := by
  unfold importStmt rtErr
  apply LoopsR.bind_any
  intro name
  refine LoopsR.bindP ?_ ?_
  · split
    · lk_refl
    · dsimp only
      split
      · lk_refl
      · split
        · lk_refl
        · split
          · lk_refl
          · split
            · apply LoopsR.bind_any
              intro σm
              exact LoopsR.ok rfl
            · lk_refl
            · lk_refl
            · lk_refl
  · intro module σ1 _
    apply LoopsR.bind_any
    intro m
    exact LoopsR.ok rfl

/-! ## the reference semantics, by induction on fuel -/

namespace Spec

structure LoopsAll (cfg : Cfg) (f : Nat) : Prop where
  expr : ∀ e σ, LoopsR σ (Spec.expr cfg f e σ)
  exprs : ∀ es σ, LoopsR σ (Spec.exprs cfg f es σ)
  stmt : ∀ s σ, LoopsR σ (Spec.stmt cfg f s σ)
  block : ∀ ss σ, LoopsR σ (Spec.block cfg f ss σ)
  repeatLoop : ∀ k body σ, LoopsR σ (Spec.repeatLoop cfg f k body σ)
  untilLoop : ∀ c body σ, LoopsR σ (Spec.untilLoop cfg f c body σ)
  forLoop : ∀ item a i len body σ, LoopsR σ (Spec.forLoop cfg f item a i len body σ)
  program : ∀ ss σ, LoopsR σ (Spec.program cfg f ss σ)

theorem loopsAll_zero (cfg : Cfg) : LoopsAll cfg 0 where
  expr := by intro e σ; simp only [Spec.expr]; trivial
  exprs := by
    intro es σ
    cases es with
    | nil => simp only [Spec.exprs]; lk_refl
    | cons e es => simp only [Spec.exprs]; trivial
  stmt := by intro s σ; simp only [Spec.stmt]; trivial
  block := by
    intro ss σ
    cases ss with
    | nil => simp only [Spec.block]; lk_refl
    | cons s ss => simp only [Spec.block]; trivial
  repeatLoop := by
    intro k body σ
    cases k with
    | zero => simp only [Spec.repeatLoop]; lk_refl
    | succ k => simp only [Spec.repeatLoop]; trivial
  untilLoop := by intro c body σ; simp only [Spec.untilLoop]; trivial
  forLoop := by intro item a i len body σ; simp only [Spec.forLoop]; trivial
  program := by
    intro ss σ
    cases ss with
    | nil => simp only [Spec.program]; lk_refl
    | cons s ss => simp only [Spec.program]; trivial

section step
variable {cfg : Cfg} {f : Nat} (ih : LoopsAll cfg f)
include ih

theorem call_tail_loops (name : Str) (vs : List Value) (spans : List Span) (tok lp rp : Token) (σ1 : St) :
    LoopsR σ1
      (match σ1.procs.find? name with
      | none => rtErr "Invalid PROCEDURE" tok.span σ1
      | some (.native n) =>
        if n.arity != vs.length then rtErr "Incorrect Number Of Args" (interior lp rp) σ1
        else callNative cfg.chars n vs spans σ1
      | some (.user params body) =>
        if params.length != vs.length then rtErr "Incorrect Number Of Args" (interior lp rp) σ1 else
        (Spec.stmt cfg f body { σ1 with scopes := bindParams params vs [] :: σ1.scopes }).bind fun (sig, σ) =>
        match σ.scopes with
        | [] => .panic "env.scrape" σ.out
        | _ :: rest => .ok ((match sig with | .ret v => v | _ => .null), { σ with scopes := rest })) := by
  split
  · trivial
  · split
    · trivial
    · exact LoopsR.of_okSame (callNative_same cfg.chars _ vs spans σ1)
  · split
    · trivial
    · apply OkHolds.bind_eq
      intro p hτ
      obtain ⟨sig, τ⟩ := p
      have hk := LoopsR.getP (ih.stmt _ _) hτ
      dsimp only
      split
      · trivial
      · exact LoopsR.ok hk

theorem exprs_loops_step (es σ) : LoopsR σ (Spec.exprs cfg (f+1) es σ) := by
  cases es with
  | nil => simp only [Spec.exprs]; lk_refl
  | cons e es =>
    simp only [Spec.exprs]
    apply LoopsR.bindP (ih.expr e σ)
    intro v σ1 _
    apply LoopsR.bindP (ih.exprs es σ1)
    intro vs σ2 _
    lk_refl

theorem expr_loops_step (e σ) : LoopsR σ (Spec.expr cfg (f+1) e σ) := by
  cases e with
  | grouping e lp rp => simp only [Spec.expr]; exact ih.expr e σ
  | lit v tok => simp only [Spec.expr]; lk_refl
  | binary l op r tok =>
    simp only [Spec.expr]
    apply LoopsR.bindP (ih.expr l σ)
    intro a σ1 _
    apply LoopsR.bindP (ih.expr r σ1)
    intro b σ2 _
    exact LoopsR.of_okSame (binop_same op tok a b σ2)
  | unary op r tok =>
    simp only [Spec.expr]
    apply LoopsR.bindP (ih.expr r σ)
    intro v σ1 _
    exact LoopsR.of_okSame (unop_same op tok v σ1)
  | access l lt k lb rb =>
    simp only [Spec.expr]
    apply LoopsR.bindP (ih.expr l σ)
    intro lv σ1 _
    apply LoopsR.bindP (ih.expr k σ1)
    intro kv σ2 _
    exact LoopsR.of_okSame (indexRead_same lv kv lt lb rb σ2)
  | list items lb rb =>
    simp only [Spec.expr]
    apply LoopsR.bindP (ih.exprs items σ)
    intro vs σ1 _
    exact LoopsR.ok rfl
  | var name tok =>
    simp only [Spec.expr, rtErr]
    split <;> lk_refl
  | assign name nt value arrow =>
    simp only [Spec.expr]
    apply LoopsR.bindP (ih.expr value σ)
    intro v σ1 _
    exact LoopsR.of_okSame (assignVar_same name v σ1)
  | set l lt idx lb rb value arrow =>
    simp only [Spec.expr]
    apply LoopsR.bindP (ih.expr l σ)
    intro lv σ1 _
    apply LoopsR.bindP (ih.expr idx σ1)
    intro kv σ2 _
    apply LoopsR.bindP (ih.expr value σ2)
    intro v σ3 _
    exact LoopsR.of_okSame (indexWrite_same lv kv v lt lb rb σ3)
  | logical l op r tok =>
    simp only [Spec.expr]
    apply LoopsR.bindP (ih.expr l σ)
    intro a σ1 _
    cases op <;> dsimp only <;> split <;> first | lk_refl | exact ih.expr r σ1
  | call name args spans tok lp rp =>
    simp only [Spec.expr]
    apply LoopsR.bindP (ih.exprs args σ)
    intro vs σ1 _
    exact call_tail_loops ih name vs spans tok lp rp σ1

theorem block_loops_step (ss σ) : LoopsR σ (Spec.block cfg (f+1) ss σ) := by
  cases ss with
  | nil => simp only [Spec.block]; lk_refl
  | cons s ss =>
    simp only [Spec.block]
    apply LoopsR.bindP (ih.stmt s σ)
    intro sig σ1 _
    cases sig <;> dsimp only <;> first | exact ih.block ss σ1 | lk_refl

theorem repeatLoop_loops_step (k body σ) : LoopsR σ (Spec.repeatLoop cfg (f+1) k body σ) := by
  cases k with
  | zero => simp only [Spec.repeatLoop]; lk_refl
  | succ k =>
    simp only [Spec.repeatLoop]
    apply LoopsR.bindP (ih.stmt body σ)
    intro sig σ1 _
    cases sig <;> dsimp only <;> first | exact ih.repeatLoop k body σ1 | lk_refl

theorem untilLoop_loops_step (c body σ) : LoopsR σ (Spec.untilLoop cfg (f+1) c body σ) := by
  simp only [Spec.untilLoop]
  apply LoopsR.bindP (ih.expr c σ)
  intro v σ1 _
  dsimp only
  split
  · lk_refl
  · apply LoopsR.bindP (ih.stmt body σ1)
    intro sig σ2 _
    cases sig <;> dsimp only <;> first | exact ih.untilLoop c body σ2 | lk_refl

theorem forLoop_loops_step (item a i len body σ) : LoopsR σ (Spec.forLoop cfg (f+1) item a i len body σ) := by
  simp only [Spec.forLoop]
  split
  · lk_refl
  · split
    · lk_refl
    · apply LoopsR.bindS (define_loopsR σ item _)
      intro σ1 _
      apply LoopsR.bindP (ih.stmt body σ1)
      intro sig σ2 _
      cases sig
      · dsimp only
        apply LoopsR.bindP (removeVar_loopsR σ2 item)
        intro cur σ3 _
        exact LoopsR.of_eq (writeBack_loops_eq σ3 a i cur) (ih.forLoop item a (i+1) len body _)
      · lk_refl
      · exact ih.forLoop item a (i+1) len body σ2
      · lk_refl

theorem program_loops_step (ss σ) : LoopsR σ (Spec.program cfg (f+1) ss σ) := by
  cases ss with
  | nil => simp only [Spec.program]; lk_refl
  | cons s ss =>
    simp only [Spec.program]
    apply LoopsR.bindP (ih.stmt s σ)
    intro sig σ1 _
    exact ih.program ss σ1

theorem stmt_loops_step (s σ0) : LoopsR σ0 (Spec.stmt cfg (f+1) s σ0) := by
  simp only [Spec.stmt]
  cases ht : tick σ0 with
  | none => trivial
  | some σ =>
    apply LoopsR.of_eq (tick_loops ht)
    cases s with
    | expr e =>
      dsimp only
      apply LoopsR.bindP (ih.expr e σ)
      intro v σ1 _
      lk_refl
    | ifs c t e it et =>
      dsimp only
      apply LoopsR.bindP (ih.expr c σ)
      intro v σ1 _
      dsimp only
      split
      · exact ih.stmt t σ1
      · cases e with
        | none => lk_refl
        | some e => exact ih.stmt e σ1
    | repeatTimes count body rt tt ct =>
      dsimp only
      apply LoopsR.bindP (ih.expr count σ)
      intro v σ1 _
      cases v with
      | num n =>
        dsimp only
        apply LoopsR.bind_eq
        intro p hp
        obtain ⟨sig, σ2⟩ := p
        have h2 : σ2.loops = {} :: σ1.loops := (ih.repeatLoop _ body _).getP hp
        apply LoopsR.bind_eq
        intro σ3 h3
        exact LoopsR.ok (popLoop_loops h2 h3)
      | null => trivial
      | bool b => trivial
      | str x => trivial
      | list a => trivial
      | obj a => trivial
    | repeatUntil cond body rt ut =>
      dsimp only
      apply LoopsR.bind_eq
      intro p hp
      obtain ⟨sig, σ2⟩ := p
      have h2 : σ2.loops = {} :: σ.loops := (ih.untilLoop cond body _).getP hp
      apply LoopsR.bind_eq
      intro σ3 h3
      exact LoopsR.ok (popLoop_loops h2 h3)
    | procDecl name params body exported pt nt =>
      dsimp only
      exact LoopsR.ok rfl
    | ret tok value =>
      dsimp only
      cases value with
      | none => lk_refl
      | some e =>
        dsimp only
        apply LoopsR.bindP (ih.expr e σ)
        intro v σ1 _
        lk_refl
    | cont tok =>
      dsimp only
      split <;> lk_refl
    | brk tok =>
      dsimp only
      split <;> lk_refl
    | block lb stmts rb =>
      dsimp only
      apply LoopsR.bindS (createNested_loopsR σ)
      intro σ1 _
      apply LoopsR.bindP (ih.block stmts σ1)
      intro sig σ2 _
      apply LoopsR.bindS (flattenNested_loopsR σ2)
      intro σ3 _
      lk_refl
    | import_ it mt ft only modName =>
      dsimp only
      apply LoopsR.bindS (importStmt_loopsR cfg _ only modName σ)
      intro σ1 _
      lk_refl
    | forEach item itok list body ft et int lt =>
      dsimp only
      apply LoopsR.bindP (ih.expr list σ)
      intro v σ1 _
      dsimp only
      refine LoopsR.bindP (by cases v <;> first | exact LoopsR.ok rfl | trivial) ?_
      intro a σ2 _
      dsimp only
      apply LoopsR.bindP (removeVar_loopsR σ2 item)
      intro cached σ3 _
      dsimp only
      apply LoopsR.bind_any
      intro len
      apply LoopsR.bind_eq
      intro p hp
      obtain ⟨sig, σ4⟩ := p
      have h4 : σ4.loops = {} :: σ3.loops := (ih.forLoop item a 0 len body _).getP hp
      apply LoopsR.bind_eq
      intro σ5 h5
      have h5' : σ5.loops = σ3.loops := popLoop_loops h4 h5
      refine LoopsR.bindS (x := match cached with | some v => define σ5 item v | none => .ok σ5) ?_ ?_
      · cases cached with
        | none => exact LoopsR.ok h5'
        | some v => exact LoopsR.of_eq (σ1 := σ5) h5' (define_loopsR σ5 item v)
      · intro σ6 _
        lk_refl

end step

/-- **the loop-control stack is balanced**, for every fuel -/
theorem loopsAll (cfg : Cfg) : ∀ f, LoopsAll cfg f
  | 0 => loopsAll_zero cfg
  | f+1 =>
    have ih := loopsAll cfg f
    { expr := expr_loops_step ih, exprs := exprs_loops_step ih, stmt := stmt_loops_step ih,
      block := block_loops_step ih, repeatLoop := repeatLoop_loops_step ih, untilLoop := untilLoop_loops_step ih,
      forLoop := forLoop_loops_step ih, program := program_loops_step ih }

/-- a statement that ends leaves the loop-control stack as it found it -/
theorem stmt_loops (cfg : Cfg) {f : Nat} {s : Stmt} {σ σ' : St} {sig : Sig}
    (h : Spec.stmt cfg f s σ = .ok (sig, σ')) : σ'.loops = σ.loops :=
  ((loopsAll cfg f).stmt s σ).getP h

theorem expr_loops (cfg : Cfg) {f : Nat} {e : Expr} {σ σ' : St} {v : Value}
    (h : Spec.expr cfg f e σ = .ok (v, σ')) : σ'.loops = σ.loops :=
  ((loopsAll cfg f).expr e σ).getP h

end Spec

end Aplang
