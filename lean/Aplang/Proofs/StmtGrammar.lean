import Aplang.Proofs.StmtComplete
/-!
# The documented statement grammar, its printer, and completeness of the statement parser (lemmas for C09b)

`SStmt` / `SSeq`: derivations of the statement grammar (every node carries its tokens).
`renderStmt` / `renderSeq`: the canonical printer. `treeStmt` / `treeSeq`: the syntax tree.
`SStmt.Syn` / `SSeq.Syn`: the tokens are of the right kinds, expressions are accepted by the expression
parser (`PExpr.OK`), bodies are in braces, an ELSE branch is a block or an IF, parameter / name lists respect
the parser's limits (255 / 63), and a simple statement without terminator is the last of its sequence.

Main results: `stQ` (every statement form, by `statement` / `declaration`), `seqQ` (the statement loop of a
block), `progQ` (the top-level loop).
-/
namespace Aplang
namespace P

mutual
/-- derivations of the statement grammar -/
inductive SStmt : Type
  /-- expression statement with its optional terminator -/
  | expr (e : PExpr) (term : Option Token)
  /-- `IF ( cond ) { … }` -/
  | ifs (ifTok lp : Token) (cond : PExpr) (rp : Token) (thn : SStmt)
  /-- `IF ( cond ) { … } ELSE { … }` and `IF ( cond ) { … } ELSE IF …` -/
  | ifElse (ifTok lp : Token) (cond : PExpr) (rp : Token) (thn : SStmt) (elseTok : Token) (els : SStmt)
  /-- `REPEAT count TIMES { … }` -/
  | repeatTimes (repeatTok : Token) (count : PExpr) (timesTok : Token) (body : SStmt)
  /-- `REPEAT UNTIL ( cond ) { … }` -/
  | repeatUntil (repeatTok untilTok lp : Token) (cond : PExpr) (rp : Token) (body : SStmt)
  /-- `FOR EACH item IN list { … }` -/
  | forEach (forTok eachTok itemTok inTok : Token) (list : PExpr) (body : SStmt)
  /-- `[EXPORT] PROCEDURE name ( params ) { … }` -/
  | procDecl (exportTok : Option Token) (procTok nameTok lp : Token) (params : Option SepList) (rp : Token)
      (body : SStmt)
  /-- `{ … }` -/
  | block (lb : Token) (body : SSeq) (rb : Token)
  /-- `RETURN [value]` with its optional terminator -/
  | ret (tok : Token) (value : Option PExpr) (term : Option Token)
  | cont (tok : Token)
  | brk (tok : Token)
  /-- `IMPORT MOD "m"` -/
  | importAll (importTok modTok modName : Token) (term : Option Token)
  /-- `IMPORT "f" FROM MOD "m"` -/
  | importOne (importTok name fromTok modTok modName : Token) (term : Option Token)
  /-- `IMPORT ["f", "g"] FROM MOD "m"` -/
  | importList (importTok lb : Token) (names : SepList) (rb fromTok modTok modName : Token) (term : Option Token)
/-- statement sequences (block contents, programs): statements and additional terminator tokens -/
inductive SSeq : Type
  | nil
  | semi (tok : Token) (rest : SSeq)
  | cons (st : SStmt) (rest : SSeq)
end

def optToks : Option PExpr → List Token
  | none => []
  | some e => e.toks

mutual
/-- the canonical printer -/
def renderStmt : SStmt → List Token
  | .expr e term => e.toks ++ term.toList
  | .ifs ifTok lp c rp thn => ifTok :: lp :: (c.toks ++ rp :: renderStmt thn)
  | .ifElse ifTok lp c rp thn et els => ifTok :: lp :: (c.toks ++ rp :: (renderStmt thn ++ et :: renderStmt els))
  | .repeatTimes rt c tt body => rt :: (c.toks ++ tt :: renderStmt body)
  | .repeatUntil rt ut lp c rp body => rt :: ut :: lp :: (c.toks ++ rp :: renderStmt body)
  | .forEach ft et it int l body => ft :: et :: it :: int :: (l.toks ++ renderStmt body)
  | .procDecl ex pt nt lp ps rp body =>
      ex.toList ++ pt :: nt :: lp :: (SepList.toksO ps ++ rp :: renderStmt body)
  | .block lb q rb => lb :: (renderSeq q ++ [rb])
  | .ret tok v term => tok :: (optToks v ++ term.toList)
  | .cont tok => [tok]
  | .brk tok => [tok]
  | .importAll it mt mn term => it :: mt :: mn :: term.toList
  | .importOne it n ft mt mn term => it :: n :: ft :: mt :: mn :: term.toList
  | .importList it lb ns rb ft mt mn term => it :: lb :: (ns.toks ++ rb :: ft :: mt :: mn :: term.toList)
def renderSeq : SSeq → List Token
  | .nil => []
  | .semi t r => t :: renderSeq r
  | .cons st r => renderStmt st ++ renderSeq r
end

mutual
/-- the syntax tree of a derivation -/
def treeStmt : SStmt → Stmt
  | .expr e _ => .expr e.tree
  | .ifs ifTok _ c _ thn => .ifs c.tree (treeStmt thn) none ifTok none
  | .ifElse ifTok _ c _ thn et els => .ifs c.tree (treeStmt thn) (some (treeStmt els)) ifTok (some et)
  | .repeatTimes rt c tt body => .repeatTimes c.tree (treeStmt body) rt tt (lastTok c.tree)
  | .repeatUntil rt ut _ c _ body => .repeatUntil c.tree (treeStmt body) rt ut
  | .forEach ft et it int l body => .forEach it.lexeme it l.tree (treeStmt body) ft et int (lastTok l.tree)
  | .procDecl ex pt nt _ ps _ body => .procDecl nt.lexeme (paramsOf ps) (treeStmt body) ex.isSome pt nt
  | .block lb q rb => .block lb (treeSeq q) rb
  | .ret tok v _ => .ret tok (v.map (·.tree))
  | .cont tok => .cont tok
  | .brk tok => .brk tok
  | .importAll it mt mn _ => .import_ it mt none none mn
  | .importOne it n ft mt mn _ => .import_ it mt (some ft) (some [n]) mn
  | .importList it _ ns _ ft mt mn _ => .import_ it mt (some ft) (some ns.items) mn
def treeSeq : SSeq → List Stmt
  | .nil => []
  | .semi _ r => treeSeq r
  | .cons st r => treeStmt st :: treeSeq r
end

def SStmt.isBlock : SStmt → Bool
  | .block .. => true
  | _ => false

def SStmt.isIf : SStmt → Bool
  | .ifs .. => true
  | .ifElse .. => true
  | _ => false

def SStmt.isProc : SStmt → Bool
  | .procDecl .. => true
  | _ => false

/-- a simple statement written without its terminator -/
def SStmt.bare : SStmt → Bool
  | .expr _ term => term.isNone
  | .ret _ _ term => term.isNone
  | .importAll _ _ _ term => term.isNone
  | .importOne _ _ _ _ _ term => term.isNone
  | .importList _ _ _ _ _ _ _ term => term.isNone
  | _ => false

def SSeq.isNil : SSeq → Bool
  | .nil => true
  | _ => false

mutual
/-- the derivation is one of the documented grammar -/
def SStmt.Syn : SStmt → Prop
  | .expr e term => e.OK ∧ TermOK term
  | .ifs ifTok lp c rp thn =>
      ifTok.tt = .if_ ∧ lp.tt = .leftParen ∧ c.OK ∧ rp.tt = .rightParen ∧ thn.isBlock = true ∧ thn.Syn
  | .ifElse ifTok lp c rp thn et els =>
      ifTok.tt = .if_ ∧ lp.tt = .leftParen ∧ c.OK ∧ rp.tt = .rightParen ∧ thn.isBlock = true ∧ thn.Syn ∧
      et.tt = .else_ ∧ (els.isBlock = true ∨ els.isIf = true) ∧ els.Syn
  | .repeatTimes rt c tt body =>
      rt.tt = .repeat_ ∧ c.OK ∧ tt.tt = .times ∧ body.isBlock = true ∧ body.Syn
  | .repeatUntil rt ut lp c rp body =>
      rt.tt = .repeat_ ∧ ut.tt = .until_ ∧ lp.tt = .leftParen ∧ c.OK ∧ rp.tt = .rightParen ∧
      body.isBlock = true ∧ body.Syn
  | .forEach ft et it int l body =>
      ft.tt = .for_ ∧ et.tt = .each ∧ it.tt = .identifier ∧ int.tt = .in_ ∧ l.OK ∧ body.isBlock = true ∧ body.Syn
  | .procDecl ex pt nt lp ps rp body =>
      (∀ t, ex = some t → t.tt = .export_) ∧ pt.tt = .procedure ∧ nt.tt = .identifier ∧ lp.tt = .leftParen ∧
      (∀ l, ps = some l → l.OK .identifier ∧ l.more.length + 1 ≤ 255) ∧ rp.tt = .rightParen ∧
      body.isBlock = true ∧ body.Syn
  | .block lb q rb => lb.tt = .leftBrace ∧ q.Syn ∧ rb.tt = .rightBrace
  | .ret tok v term => tok.tt = .return_ ∧ (∀ e, v = some e → e.OK) ∧ TermOK term
  | .cont tok => tok.tt = .continue_
  | .brk tok => tok.tt = .break_
  | .importAll it mt mn term => it.tt = .import_ ∧ mt.tt = .mod_ ∧ mn.tt = .stringLiteral ∧ TermOK term
  | .importOne it n ft mt mn term =>
      it.tt = .import_ ∧ n.tt = .stringLiteral ∧ ft.tt = .from_ ∧ mt.tt = .mod_ ∧ mn.tt = .stringLiteral ∧
      TermOK term
  | .importList it lb ns rb ft mt mn term =>
      it.tt = .import_ ∧ lb.tt = .leftBracket ∧ ns.OK .stringLiteral ∧ ns.more.length + 1 ≤ 63 ∧
      rb.tt = .rightBracket ∧ ft.tt = .from_ ∧ mt.tt = .mod_ ∧ mn.tt = .stringLiteral ∧ TermOK term
def SSeq.Syn : SSeq → Prop
  | .nil => True
  | .semi t r => t.tt = .softSemi ∧ r.Syn
  | .cons st r => st.Syn ∧ (st.bare = true → r.isNil = true) ∧ r.Syn
end

/-! ## the first token of a statement -/

/-- kinds no statement begins with -/
def StartsStmt (k : TT) : Prop :=
  k ≠ .else_ ∧ k ≠ .rightBrace ∧ k ≠ .eof ∧ k ≠ .softSemi

theorem exprStart_starts {k : TT} (h : isExprStart k = true) : StartsStmt k := by
  cases k <;> simp [isExprStart] at h <;> simp [StartsStmt]

theorem SStmt.first_ok : (st : SStmt) → st.Syn → ∃ t r, renderStmt st = t :: r ∧ StartsStmt t.tt
  | .expr e term, h => by
    obtain ⟨t, r, ht, hs⟩ := h.1.first
    exact ⟨t, r ++ term.toList, by simp [renderStmt, ht], exprStart_starts hs⟩
  | .ifs ifTok _ _ _ _, h => ⟨ifTok, _, rfl, by simp only [SStmt.Syn] at h; rw [h.1]; simp [StartsStmt]⟩
  | .ifElse ifTok _ _ _ _ _ _, h => ⟨ifTok, _, rfl, by simp only [SStmt.Syn] at h; rw [h.1]; simp [StartsStmt]⟩
  | .repeatTimes rt _ _ _, h => ⟨rt, _, rfl, by simp only [SStmt.Syn] at h; rw [h.1]; simp [StartsStmt]⟩
  | .repeatUntil rt _ _ _ _ _, h => ⟨rt, _, rfl, by simp only [SStmt.Syn] at h; rw [h.1]; simp [StartsStmt]⟩
  | .forEach ft _ _ _ _ _, h => ⟨ft, _, rfl, by simp only [SStmt.Syn] at h; rw [h.1]; simp [StartsStmt]⟩
  | .procDecl none pt _ _ _ _ _, h => ⟨pt, _, rfl, by simp only [SStmt.Syn] at h; rw [h.2.1]; simp [StartsStmt]⟩
  | .procDecl (some et) _ _ _ _ _ _, h =>
    ⟨et, _, rfl, by simp only [SStmt.Syn] at h; rw [h.1 et rfl]; simp [StartsStmt]⟩
  | .block lb _ _, h => ⟨lb, _, rfl, by simp only [SStmt.Syn] at h; rw [h.1]; simp [StartsStmt]⟩
  | .ret tok _ _, h => ⟨tok, _, rfl, by simp only [SStmt.Syn] at h; rw [h.1]; simp [StartsStmt]⟩
  | .cont tok, h => ⟨tok, _, rfl, by simp only [SStmt.Syn] at h; rw [h]; simp [StartsStmt]⟩
  | .brk tok, h => ⟨tok, _, rfl, by simp only [SStmt.Syn] at h; rw [h]; simp [StartsStmt]⟩
  | .importAll it _ _ _, h => ⟨it, _, rfl, by simp only [SStmt.Syn] at h; rw [h.1]; simp [StartsStmt]⟩
  | .importOne it _ _ _ _ _, h => ⟨it, _, rfl, by simp only [SStmt.Syn] at h; rw [h.1]; simp [StartsStmt]⟩
  | .importList it _ _ _ _ _ _ _, h => ⟨it, _, rfl, by simp only [SStmt.Syn] at h; rw [h.1]; simp [StartsStmt]⟩

/-! ## what the induction proves -/

/-- the continuation a statement can stand in front of: a non-block is not followed by `ELSE`, a simple
statement without terminator is followed by `}` or the end of the input -/
def Follow (st : SStmt) (rest : List Token) : Prop :=
  ∃ t r, rest = t :: r ∧ (st.isBlock = false → t.tt ≠ .else_) ∧
    (st.bare = true → t.tt = .rightBrace ∨ t.tt = .eof)

theorem Follow.closes {st : SStmt} {rest : List Token} (h : Follow st rest) (hb : st.bare = true) : Closes rest := by
  obtain ⟨t, r, rfl, _, hc⟩ := h
  exact ⟨t, r, rfl, hc hb⟩

/-- `statement` accepts the form in front of any admissible continuation -/
def StmtAcc (st : SStmt) : Prop :=
  ∀ s rest, s.after = renderStmt st ++ rest → Follow st rest → WFStmt s.inLoop s.inFn (treeStmt st) →
    Evt (fun g => statement g s) (treeStmt st) (advs s (renderStmt st) rest)

/-- `declaration` accepts the form in front of any admissible continuation -/
def DeclAcc (st : SStmt) : Prop :=
  ∀ s rest, s.after = renderStmt st ++ rest → Follow st rest → WFStmt s.inLoop s.inFn (treeStmt st) →
    Evt (fun g => declaration g s) (treeStmt st) (advs s (renderStmt st) rest)

/-- the statement loop of a block accepts the sequence and stops in front of the closing token -/
def SeqAcc (q : SSeq) : Prop :=
  ∀ s close rest acc, s.after = renderSeq q ++ close :: rest → (close.tt = .rightBrace ∨ close.tt = .eof) →
    WFList s.inLoop s.inFn (treeSeq q) →
    Evt (fun g => blockLoop g acc s) (acc ++ treeSeq q) (advs s (renderSeq q) (close :: rest))

theorem declQ_of_stmtQ {st : SStmt} (hq : StmtAcc st)
    (hfirst : ∃ t r, renderStmt st = t :: r ∧ t.tt ≠ .export_ ∧ t.tt ≠ .procedure) : DeclAcc st := by
  intro s rest h hf hw
  obtain ⟨f, hf'⟩ := hq s rest h hf hw
  obtain ⟨t, r, ht, h1, h2⟩ := hfirst
  refine Evt.of_succ f (fun g hg => ?_)
  dsimp only at hf' ⊢
  rw [declaration_stmt g (t := t) (r := r ++ rest) (by rw [h, ht]; rfl) h1 h2]
  exact hf' g hg

theorem bare_of_block {st : SStmt} (h : st.isBlock = true) : st.bare = false := by
  cases st <;> simp [SStmt.isBlock] at h <;> rfl

theorem bare_of_if {st : SStmt} (h : st.isIf = true) : st.bare = false := by
  cases st <;> simp [SStmt.isIf] at h <;> rfl

/-- a block can be followed by anything -/
theorem follow_block {st : SStmt} (h : st.isBlock = true) (t : Token) (r : List Token) : Follow st (t :: r) :=
  ⟨t, r, rfl, by simp [h], by simp [bare_of_block h]⟩

/-! ## one lemma per form -/

theorem stmtQ_expr (e : PExpr) (term : Option Token) (he : e.OK) (hterm : TermOK term) : StmtAcc (.expr e term) := by
  intro s rest h hfol _
  obtain ⟨t0, r0, h0, hs0⟩ := he.first
  have hkw := exprStart_not_kw hs0
  have h' : s.after = e.toks ++ (term.toList ++ rest) := by simpa [renderStmt] using h
  obtain ⟨f, hf⟩ := expressionStatement_ev he h' hterm
    (fun hn => hfol.closes (by simp [SStmt.bare, hn]))
  refine Evt.of_succ f (fun g hg => ?_)
  dsimp only at hf ⊢
  rw [statement_expr g (t := t0) (r := r0 ++ (term.toList ++ rest)) (by rw [h', h0]; rfl) hkw.1]
  rw [hf g hg]
  simp [renderStmt, treeStmt]

theorem stmtQ_ifs (ifTok lp : Token) (c : PExpr) (rp : Token) (thn : SStmt) (hif : ifTok.tt = .if_)
    (hlp : lp.tt = .leftParen) (hc : c.OK) (hrp : rp.tt = .rightParen) (hb : thn.isBlock = true)
    (hthn : StmtAcc thn) : StmtAcc (.ifs ifTok lp c rp thn) := by
  intro s rest h hfol hw
  obtain ⟨nxt, r3, rfl, hne, _⟩ := hfol
  have h' : s.after = ifTok :: lp :: (c.toks ++ rp :: (renderStmt thn ++ nxt :: r3)) := by
    simpa [renderStmt] using h
  have hw' : WFStmt s.inLoop s.inFn (treeStmt thn) := by simp only [treeStmt, WFStmt] at hw; exact hw.1
  have hthen := hthn (advs (adv s ifTok (lp :: (c.toks ++ rp :: (renderStmt thn ++ nxt :: r3))))
    (lp :: (c.toks ++ [rp])) (renderStmt thn ++ nxt :: r3)) (nxt :: r3) rfl (follow_block hb _ _) hw'
  obtain ⟨f, hf⟩ := ifStatement_ev (ifTok := ifTok) (s := adv s ifTok _) rfl hlp hrp hc hthen (advs_after _ _ _)
    (hne rfl)
  refine Evt.of_succ f (fun g hg => ?_)
  dsimp only at hf ⊢
  rw [statement_if g h' hif, hf g hg]
  simp [renderStmt, treeStmt, advs]

theorem stmtQ_ifElse (ifTok lp : Token) (c : PExpr) (rp : Token) (thn : SStmt) (et : Token) (els : SStmt)
    (hif : ifTok.tt = .if_) (hlp : lp.tt = .leftParen) (hc : c.OK) (hrp : rp.tt = .rightParen)
    (hb : thn.isBlock = true) (hthn : StmtAcc thn) (het : et.tt = .else_)
    (hbe : els.isBlock = true ∨ els.isIf = true) (hels : StmtAcc els) : StmtAcc (.ifElse ifTok lp c rp thn et els) := by
  intro s rest h hfol hw
  obtain ⟨nxt, r3, rfl, hne, _⟩ := hfol
  have h' : s.after = ifTok :: lp :: (c.toks ++ rp :: (renderStmt thn ++ et :: (renderStmt els ++ nxt :: r3))) := by
    simpa [renderStmt] using h
  have hw1 : WFStmt s.inLoop s.inFn (treeStmt thn) := by simp only [treeStmt, WFStmt] at hw; exact hw.1
  have hw2 : WFStmt s.inLoop s.inFn (treeStmt els) := by simp only [treeStmt, WFStmt] at hw; exact hw.2
  have hthen := hthn (advs (adv s ifTok (lp :: (c.toks ++ rp :: (renderStmt thn ++ et :: (renderStmt els ++ nxt :: r3)))))
    (lp :: (c.toks ++ [rp])) (renderStmt thn ++ et :: (renderStmt els ++ nxt :: r3)))
    (et :: (renderStmt els ++ nxt :: r3)) rfl (follow_block hb _ _) hw1
  have hfe : Follow els (nxt :: r3) := by
    rcases hbe with hb' | hi
    · exact follow_block hb' _ _
    · exact ⟨nxt, r3, rfl, fun _ => hne rfl, by simp [bare_of_if hi]⟩
  have helse := hels (adv (advs (advs (adv s ifTok (lp :: (c.toks ++ rp :: (renderStmt thn ++ et :: (renderStmt els ++ nxt :: r3)))))
    (lp :: (c.toks ++ [rp])) (renderStmt thn ++ et :: (renderStmt els ++ nxt :: r3))) (renderStmt thn)
    (et :: (renderStmt els ++ nxt :: r3))) et (renderStmt els ++ nxt :: r3)) (nxt :: r3) rfl hfe hw2
  obtain ⟨f, hf⟩ := ifElse_ev (ifTok := ifTok) (s := adv s ifTok _) rfl hlp hrp hc hthen (advs_after _ _ _) het helse
  refine Evt.of_succ f (fun g hg => ?_)
  dsimp only at hf ⊢
  rw [statement_if g h' hif, hf g hg]
  simp [renderStmt, treeStmt, advs]

theorem stmtQ_repeatTimes (rt : Token) (c : PExpr) (tt : Token) (body : SStmt) (hrt : rt.tt = .repeat_)
    (hc : c.OK) (htt : tt.tt = .times) (hb : body.isBlock = true) (hbody : StmtAcc body) :
    StmtAcc (.repeatTimes rt c tt body) := by
  intro s rest h hfol hw
  obtain ⟨nxt, r3, rfl, _, _⟩ := hfol
  obtain ⟨t0, r0, h0, hs0⟩ := hc.first
  have hkw := exprStart_not_kw hs0
  have h' : s.after = rt :: t0 :: (r0 ++ tt :: (renderStmt body ++ nxt :: r3)) := by
    simpa [renderStmt, h0] using h
  have hw' : WFStmt true s.inFn (treeStmt body) := by simpa only [treeStmt, WFStmt] using hw
  have hbd := hbody (advs { adv s rt (t0 :: (r0 ++ tt :: (renderStmt body ++ nxt :: r3))) with inLoop := true }
    (c.toks ++ [tt]) (renderStmt body ++ nxt :: r3)) (nxt :: r3) rfl (follow_block hb _ _) hw'
  obtain ⟨f, hf⟩ := repeatTimes_ev (rt := rt) (b := s.before)
    (s := { adv s rt (t0 :: (r0 ++ tt :: (renderStmt body ++ nxt :: r3))) with inLoop := true }) rfl hrt
    (by simp [h0]) htt hc hbd
  refine Evt.of_succ f (fun g hg => ?_)
  dsimp only at hf ⊢
  rw [statement_repeat_times g h' hrt hkw.2.2.2.2.2.2, hf g hg]
  simp [restoreLoop, renderStmt, treeStmt, advs]

theorem stmtQ_repeatUntil (rt ut lp : Token) (c : PExpr) (rp : Token) (body : SStmt) (hrt : rt.tt = .repeat_)
    (hut : ut.tt = .until_) (hlp : lp.tt = .leftParen) (hc : c.OK) (hrp : rp.tt = .rightParen)
    (hb : body.isBlock = true) (hbody : StmtAcc body) : StmtAcc (.repeatUntil rt ut lp c rp body) := by
  intro s rest h hfol hw
  obtain ⟨nxt, r3, rfl, _, _⟩ := hfol
  have h' : s.after = rt :: ut :: (lp :: (c.toks ++ rp :: (renderStmt body ++ nxt :: r3))) := by
    simpa [renderStmt] using h
  have hw' : WFStmt true s.inFn (treeStmt body) := by simpa only [treeStmt, WFStmt] using hw
  have hbd := hbody (advs { adv s rt (ut :: (lp :: (c.toks ++ rp :: (renderStmt body ++ nxt :: r3)))) with inLoop := true }
    (ut :: lp :: (c.toks ++ [rp])) (renderStmt body ++ nxt :: r3)) (nxt :: r3) rfl (follow_block hb _ _) hw'
  obtain ⟨f, hf⟩ := repeatUntil_ev (rt := rt) (b := s.before)
    (s := { adv s rt (ut :: (lp :: (c.toks ++ rp :: (renderStmt body ++ nxt :: r3)))) with inLoop := true }) rfl hrt
    rfl hut hlp hrp hc hbd
  refine Evt.of_succ f (fun g hg => ?_)
  dsimp only at hf ⊢
  rw [statement_repeat_until g h' hrt hut, hf g hg]
  simp [restoreLoop, renderStmt, treeStmt, advs]

theorem block_first {st : SStmt} (hb : st.isBlock = true) (hs : st.Syn) :
    ∃ lb r, renderStmt st = lb :: r ∧ lb.tt = .leftBrace := by
  cases st <;> simp [SStmt.isBlock] at hb
  rename_i lb q rb
  simp only [SStmt.Syn] at hs
  exact ⟨lb, _, rfl, hs.1⟩

theorem stmtQ_forEach (ft et it int : Token) (l : PExpr) (body : SStmt) (hft : ft.tt = .for_)
    (het : et.tt = .each) (hit : it.tt = .identifier) (hint : int.tt = .in_) (hl : l.OK)
    (hb : body.isBlock = true) (hsb : body.Syn) (hbody : StmtAcc body) : StmtAcc (.forEach ft et it int l body) := by
  intro s rest h hfol hw
  obtain ⟨nxt, r3, rfl, _, _⟩ := hfol
  obtain ⟨lb, rb0, hlb0, hlbt⟩ := block_first hb hsb
  have h' : s.after = ft :: (et :: it :: int :: (l.toks ++ lb :: (rb0 ++ nxt :: r3))) := by
    simpa [renderStmt, hlb0] using h
  have hw' : WFStmt true s.inFn (treeStmt body) := by simpa only [treeStmt, WFStmt] using hw
  have hbd := hbody (advs { adv s ft (et :: it :: int :: (l.toks ++ lb :: (rb0 ++ nxt :: r3))) with inLoop := true }
    (et :: it :: int :: l.toks) (lb :: (rb0 ++ nxt :: r3))) (nxt :: r3) (by simp [hlb0]) (follow_block hb _ _) hw'
  obtain ⟨f, hf⟩ := forEach_ev (ft := ft) (b := s.before)
    (s := { adv s ft (et :: it :: int :: (l.toks ++ lb :: (rb0 ++ nxt :: r3))) with inLoop := true }) rfl hft
    rfl het hit hint hl (by rw [hlbt]; decide) hbd
  refine Evt.of_succ f (fun g hg => ?_)
  dsimp only at hf ⊢
  rw [statement_for g h' hft, hf g hg]
  simp [restoreLoop, renderStmt, treeStmt, advs, hlb0]

theorem stmtQ_block (lb : Token) (q : SSeq) (rb : Token) (hlb : lb.tt = .leftBrace) (hrb : rb.tt = .rightBrace)
    (hq : SeqAcc q) : StmtAcc (.block lb q rb) := by
  intro s rest h _ hw
  have h' : s.after = lb :: (renderSeq q ++ rb :: rest) := by simpa [renderStmt] using h
  have hw' : WFList s.inLoop s.inFn (treeSeq q) := by simpa only [treeStmt, WFStmt] using hw
  have hloop := hq (adv s lb (renderSeq q ++ rb :: rest)) rb rest [] rfl (Or.inl hrb) hw'
  obtain ⟨f, hf⟩ := block_ev h' hlb hloop (advs_after _ _ _) hrb
  refine ⟨f, fun g hg => ?_⟩
  dsimp only at hf ⊢
  rw [hf g hg]
  simp [renderStmt, treeStmt, advs, adv]

theorem stmtQ_ret (tok : Token) (v : Option PExpr) (term : Option Token) (htok : tok.tt = .return_)
    (hv : ∀ e, v = some e → e.OK) (hterm : TermOK term) : StmtAcc (.ret tok v term) := by
  intro s rest h hfol hw
  have hfn : s.inFn = true := by simpa only [treeStmt, WFStmt] using hw
  have hcl : term = none → Closes rest := fun hn => hfol.closes (by simp [SStmt.bare, hn])
  cases v with
  | none =>
    have h' : s.after = tok :: (term.toList ++ rest) := by simpa [renderStmt, optToks] using h
    refine Evt.of_succ 0 (fun g _ => ?_)
    rw [statement_return g h' htok,
      returnStatement_none_ev g (s := adv s tok _) (term := term) (rest := rest) hfn rfl hterm hcl]
    simp [renderStmt, treeStmt, optToks, advs]
  | some e =>
    have h' : s.after = tok :: (e.toks ++ (term.toList ++ rest)) := by simpa [renderStmt, optToks] using h
    obtain ⟨f, hf⟩ := returnStatement_some_ev (tok := tok) (s := adv s tok _) hfn (hv e rfl) rfl hterm hcl
    refine Evt.of_succ f (fun g hg => ?_)
    dsimp only at hf ⊢
    rw [statement_return g h' htok, hf g hg]
    simp [renderStmt, treeStmt, optToks, advs]

theorem stmtQ_cont (tok : Token) (htok : tok.tt = .continue_) : StmtAcc (.cont tok) := by
  intro s rest h _ hw
  have hl : s.inLoop = true := by simpa only [treeStmt, WFStmt] using hw
  have h' : s.after = tok :: rest := by simpa [renderStmt] using h
  refine Evt.of_succ 0 (fun g _ => ?_)
  rw [statement_continue g h' htok hl]
  simp [renderStmt, treeStmt, advs, adv]

theorem stmtQ_brk (tok : Token) (htok : tok.tt = .break_) : StmtAcc (.brk tok) := by
  intro s rest h _ hw
  have hl : s.inLoop = true := by simpa only [treeStmt, WFStmt] using hw
  have h' : s.after = tok :: rest := by simpa [renderStmt] using h
  refine Evt.of_succ 0 (fun g _ => ?_)
  rw [statement_break g h' htok hl]
  simp [renderStmt, treeStmt, advs, adv]

theorem stmtQ_importAll (it mt mn : Token) (term : Option Token) (hit : it.tt = .import_) (hmt : mt.tt = .mod_)
    (hmn : mn.tt = .stringLiteral) (hterm : TermOK term) : StmtAcc (.importAll it mt mn term) := by
  intro s rest h hfol _
  have hcl : term = none → Closes rest := fun hn => hfol.closes (by simp [SStmt.bare, hn])
  have h' : s.after = it :: (mt :: mn :: (term.toList ++ rest)) := by simpa [renderStmt] using h
  refine Evt.of_succ 0 (fun g _ => ?_)
  rw [statement_import g h' hit, importStatement_all_ev g (s := adv s it _) rfl hmt hmn hterm hcl]
  simp [renderStmt, treeStmt, advs]

theorem stmtQ_importOne (it n ft mt mn : Token) (term : Option Token) (hit : it.tt = .import_)
    (hn : n.tt = .stringLiteral) (hft : ft.tt = .from_) (hmt : mt.tt = .mod_) (hmn : mn.tt = .stringLiteral)
    (hterm : TermOK term) : StmtAcc (.importOne it n ft mt mn term) := by
  intro s rest h hfol _
  have hcl : term = none → Closes rest := fun hn => hfol.closes (by simp [SStmt.bare, hn])
  have h' : s.after = it :: (n :: ft :: mt :: mn :: (term.toList ++ rest)) := by simpa [renderStmt] using h
  refine Evt.of_succ 0 (fun g _ => ?_)
  rw [statement_import g h' hit, importStatement_one_ev g (s := adv s it _) rfl hn hft hmt hmn hterm hcl]
  simp [renderStmt, treeStmt, advs]

theorem stmtQ_importList (it lb : Token) (ns : SepList) (rb ft mt mn : Token) (term : Option Token)
    (hit : it.tt = .import_) (hlb : lb.tt = .leftBracket) (hns : ns.OK .stringLiteral)
    (hlen : ns.more.length + 1 ≤ 63) (hrb : rb.tt = .rightBracket) (hft : ft.tt = .from_) (hmt : mt.tt = .mod_)
    (hmn : mn.tt = .stringLiteral) (hterm : TermOK term) : StmtAcc (.importList it lb ns rb ft mt mn term) := by
  intro s rest h hfol _
  have hcl : term = none → Closes rest := fun hn => hfol.closes (by simp [SStmt.bare, hn])
  have h' : s.after = it :: (lb :: (ns.toks ++ rb :: ft :: mt :: mn :: (term.toList ++ rest))) := by
    simpa [renderStmt] using h
  obtain ⟨f, hf⟩ := importStatement_list_ev (it := it) (s := adv s it _) rfl hlb hns hlen hrb hft hmt hmn hterm hcl
  refine Evt.of_succ f (fun g hg => ?_)
  dsimp only at hf ⊢
  rw [statement_import g h' hit, hf g hg]
  simp [renderStmt, treeStmt, advs]

theorem declQ_procDecl (ex : Option Token) (pt nt lp : Token) (ps : Option SepList) (rp : Token) (body : SStmt)
    (hex : ∀ t, ex = some t → t.tt = .export_) (hpt : pt.tt = .procedure) (hnt : nt.tt = .identifier)
    (hlp : lp.tt = .leftParen) (hps : ∀ l, ps = some l → l.OK .identifier ∧ l.more.length + 1 ≤ 255)
    (hrp : rp.tt = .rightParen) (hb : body.isBlock = true) (hbody : StmtAcc body) :
    DeclAcc (.procDecl ex pt nt lp ps rp body) := by
  intro s rest h hfol hw
  obtain ⟨nxt, r3, rfl, _, _⟩ := hfol
  have hw' : WFStmt false true (treeStmt body) := by simpa only [treeStmt, WFStmt] using hw
  cases ex with
  | none =>
    have h' : s.after = pt :: (nt :: lp :: (SepList.toksO ps ++ rp :: (renderStmt body ++ nxt :: r3))) := by
      simpa [renderStmt] using h
    have hbd := hbody { advs (adv s pt (nt :: lp :: (SepList.toksO ps ++ rp :: (renderStmt body ++ nxt :: r3))))
      (nt :: lp :: (SepList.toksO ps ++ [rp])) (renderStmt body ++ nxt :: r3) with inFn := true, inLoop := false }
      (nxt :: r3) rfl (follow_block hb _ _) hw'
    obtain ⟨f, hf⟩ := procTail_ev (pt := pt) (exported := false) (s := adv s pt _) rfl hnt hlp hps hrp hbd
    refine Evt.of_succ (f + 1) (fun g hg => ?_)
    obtain ⟨g, rfl⟩ : ∃ g', g = g' + 1 := ⟨g - 1, by omega⟩
    dsimp only at hf ⊢
    rw [declaration_proc (g+1) h' (Or.inr hpt), procedure_plain g _ hpt, hf g (by omega)]
    simp [renderStmt, treeStmt, advs]
  | some et =>
    have het := hex et rfl
    have h' : s.after = et :: (pt :: (nt :: lp :: (SepList.toksO ps ++ rp :: (renderStmt body ++ nxt :: r3)))) := by
      simpa [renderStmt] using h
    have hbd := hbody { advs (adv (adv s et (pt :: (nt :: lp :: (SepList.toksO ps ++ rp :: (renderStmt body ++ nxt :: r3)))))
      pt (nt :: lp :: (SepList.toksO ps ++ rp :: (renderStmt body ++ nxt :: r3))))
      (nt :: lp :: (SepList.toksO ps ++ [rp])) (renderStmt body ++ nxt :: r3) with inFn := true, inLoop := false }
      (nxt :: r3) rfl (follow_block hb _ _) hw'
    obtain ⟨f, hf⟩ := procTail_ev (pt := pt) (exported := true) (s := adv (adv s et _) pt _) rfl hnt hlp hps hrp hbd
    refine Evt.of_succ (f + 1) (fun g hg => ?_)
    obtain ⟨g, rfl⟩ : ∃ g', g = g' + 1 := ⟨g - 1, by omega⟩
    dsimp only at hf ⊢
    rw [declaration_proc (g+1) h' (Or.inl het), procedure_export g (s := adv s et _) het rfl hpt, hf g (by omega)]
    simp [renderStmt, treeStmt, advs]

/-! ## sequences -/

/-- the token a sequence in front of a closing token begins with -/
theorem seq_head (q : SSeq) (hq : q.Syn) (close : Token) (rest : List Token)
    (hc : close.tt = .rightBrace ∨ close.tt = .eof) :
    ∃ t r, renderSeq q ++ close :: rest = t :: r ∧ t.tt ≠ .else_ ∧
      (q.isNil = true → t.tt = .rightBrace ∨ t.tt = .eof) := by
  cases q with
  | nil => exact ⟨close, rest, rfl, by rcases hc with e | e <;> rw [e] <;> decide, fun _ => hc⟩
  | semi t r =>
    simp only [SSeq.Syn] at hq
    exact ⟨t, _, rfl, by rw [hq.1]; decide, by simp [SSeq.isNil]⟩
  | cons st r =>
    simp only [SSeq.Syn] at hq
    obtain ⟨t, r0, ht, hs⟩ := st.first_ok hq.1
    exact ⟨t, r0 ++ (renderSeq r ++ close :: rest), by simp [renderSeq, ht], hs.1, by simp [SSeq.isNil]⟩

theorem seqQ_nil : SeqAcc .nil := by
  intro s close rest acc h hc _
  refine Evt.of_succ 0 (fun g _ => ?_)
  have h' : s.after = close :: rest := by simpa [renderSeq] using h
  rw [blockLoop_close g acc h' hc]
  obtain ⟨b, a, f1, f2⟩ := s
  simp at h'
  subst h'
  simp [renderSeq, treeSeq, advs]

theorem seqQ_semi (t : Token) (r : SSeq) (ht : t.tt = .softSemi) (hr : SeqAcc r) : SeqAcc (.semi t r) := by
  intro s close rest acc h hc hw
  have h' : s.after = t :: (renderSeq r ++ close :: rest) := by simpa [renderSeq] using h
  obtain ⟨f, hf⟩ := hr (adv s t (renderSeq r ++ close :: rest)) close rest acc rfl hc
    (by simpa only [treeSeq] using hw)
  refine Evt.of_succ f (fun g hg => ?_)
  dsimp only at hf ⊢
  rw [blockLoop_semi g acc h' ht, hf g hg]
  simp [renderSeq, treeSeq, advs]

theorem seqQ_cons (st : SStmt) (r : SSeq) (hst : st.Syn) (hbare : st.bare = true → r.isNil = true) (hsr : r.Syn)
    (hd : DeclAcc st) (hr : SeqAcc r) : SeqAcc (.cons st r) := by
  intro s close rest acc h hc hw
  have h' : s.after = renderStmt st ++ (renderSeq r ++ close :: rest) := by simpa [renderSeq] using h
  obtain ⟨t0, r0, h0, hs0⟩ := st.first_ok hst
  obtain ⟨nxt, rn, hn, hne, hcl⟩ := seq_head r hsr close rest hc
  have hw1 : WFStmt s.inLoop s.inFn (treeStmt st) := by simp only [treeSeq, WFList] at hw; exact hw.1
  have hw2 : WFList s.inLoop s.inFn (treeSeq r) := by simp only [treeSeq, WFList] at hw; exact hw.2
  obtain ⟨f1, hf1⟩ := hd s (renderSeq r ++ close :: rest) h'
    ⟨nxt, rn, hn, fun _ => hne, fun hb => hcl (hbare hb)⟩ hw1
  obtain ⟨f2, hf2⟩ := hr (advs s (renderStmt st) (renderSeq r ++ close :: rest)) close rest (acc ++ [treeStmt st])
    rfl hc hw2
  refine Evt.of_succ (max f1 f2) (fun g hg => ?_)
  dsimp only at hf1 hf2 ⊢
  rw [blockLoop_decl g acc (t := t0) (r := r0 ++ (renderSeq r ++ close :: rest)) (by rw [h', h0]; rfl)
    hs0.2.1 hs0.2.2.1 hs0.2.2.2, hf1 g (by omega)]
  simp only [PRes.bind_ok]
  rw [hf2 g (by omega)]
  simp [renderSeq, treeSeq, advs]

/-! ## the induction over derivations -/

mutual
/-- **every statement form of the grammar is accepted**: by `declaration`, and (all forms but procedure
declarations) by `statement` -/
theorem stQ : (st : SStmt) → st.Syn → (st.isProc = false → StmtAcc st) ∧ DeclAcc st
  | .expr e term, h => by
    simp only [SStmt.Syn] at h
    have q := stmtQ_expr e term h.1 h.2
    obtain ⟨t, r, ht, hs⟩ := h.1.first
    have hk := exprStart_not_kw hs
    exact ⟨fun _ => q, declQ_of_stmtQ q ⟨t, r ++ term.toList, by simp [renderStmt, ht], hk.2.1, hk.2.2.1⟩⟩
  | .ifs ifTok lp c rp thn, h => by
    simp only [SStmt.Syn] at h
    obtain ⟨h1, h2, h3, h4, h5, h6⟩ := h
    have q := stmtQ_ifs ifTok lp c rp thn h1 h2 h3 h4 h5 ((stQ thn h6).1 (by cases thn <;> simp [SStmt.isBlock] at h5 <;> rfl))
    exact ⟨fun _ => q, declQ_of_stmtQ q ⟨ifTok, _, rfl, by rw [h1]; decide, by rw [h1]; decide⟩⟩
  | .ifElse ifTok lp c rp thn et els, h => by
    simp only [SStmt.Syn] at h
    obtain ⟨h1, h2, h3, h4, h5, h6, h7, h8, h9⟩ := h
    have q := stmtQ_ifElse ifTok lp c rp thn et els h1 h2 h3 h4 h5
      ((stQ thn h6).1 (by cases thn <;> simp [SStmt.isBlock] at h5 <;> rfl)) h7 h8
      ((stQ els h9).1 (by cases els <;> simp [SStmt.isBlock, SStmt.isIf] at h8 <;> rfl))
    exact ⟨fun _ => q, declQ_of_stmtQ q ⟨ifTok, _, rfl, by rw [h1]; decide, by rw [h1]; decide⟩⟩
  | .repeatTimes rt c tt body, h => by
    simp only [SStmt.Syn] at h
    obtain ⟨h1, h2, h3, h4, h5⟩ := h
    have q := stmtQ_repeatTimes rt c tt body h1 h2 h3 h4
      ((stQ body h5).1 (by cases body <;> simp [SStmt.isBlock] at h4 <;> rfl))
    exact ⟨fun _ => q, declQ_of_stmtQ q ⟨rt, _, rfl, by rw [h1]; decide, by rw [h1]; decide⟩⟩
  | .repeatUntil rt ut lp c rp body, h => by
    simp only [SStmt.Syn] at h
    obtain ⟨h1, h2, h3, h4, h5, h6, h7⟩ := h
    have q := stmtQ_repeatUntil rt ut lp c rp body h1 h2 h3 h4 h5 h6
      ((stQ body h7).1 (by cases body <;> simp [SStmt.isBlock] at h6 <;> rfl))
    exact ⟨fun _ => q, declQ_of_stmtQ q ⟨rt, _, rfl, by rw [h1]; decide, by rw [h1]; decide⟩⟩
  | .forEach ft et it int l body, h => by
    simp only [SStmt.Syn] at h
    obtain ⟨h1, h2, h3, h4, h5, h6, h7⟩ := h
    have q := stmtQ_forEach ft et it int l body h1 h2 h3 h4 h5 h6 h7
      ((stQ body h7).1 (by cases body <;> simp [SStmt.isBlock] at h6 <;> rfl))
    exact ⟨fun _ => q, declQ_of_stmtQ q ⟨ft, _, rfl, by rw [h1]; decide, by rw [h1]; decide⟩⟩
  | .procDecl ex pt nt lp ps rp body, h => by
    simp only [SStmt.Syn] at h
    obtain ⟨h1, h2, h3, h4, h5, h6, h7, h8⟩ := h
    exact ⟨fun hp => by simp [SStmt.isProc] at hp,
      declQ_procDecl ex pt nt lp ps rp body h1 h2 h3 h4 h5 h6 h7
        ((stQ body h8).1 (by cases body <;> simp [SStmt.isBlock] at h7 <;> rfl))⟩
  | .block lb q rb, h => by
    simp only [SStmt.Syn] at h
    have qq := stmtQ_block lb q rb h.1 h.2.2 (seqQ q h.2.1)
    exact ⟨fun _ => qq, declQ_of_stmtQ qq ⟨lb, _, rfl, by rw [h.1]; decide, by rw [h.1]; decide⟩⟩
  | .ret tok v term, h => by
    simp only [SStmt.Syn] at h
    have q := stmtQ_ret tok v term h.1 h.2.1 h.2.2
    exact ⟨fun _ => q, declQ_of_stmtQ q ⟨tok, _, rfl, by rw [h.1]; decide, by rw [h.1]; decide⟩⟩
  | .cont tok, h => by
    simp only [SStmt.Syn] at h
    have q := stmtQ_cont tok h
    exact ⟨fun _ => q, declQ_of_stmtQ q ⟨tok, _, rfl, by rw [h]; decide, by rw [h]; decide⟩⟩
  | .brk tok, h => by
    simp only [SStmt.Syn] at h
    have q := stmtQ_brk tok h
    exact ⟨fun _ => q, declQ_of_stmtQ q ⟨tok, _, rfl, by rw [h]; decide, by rw [h]; decide⟩⟩
  | .importAll it mt mn term, h => by
    simp only [SStmt.Syn] at h
    have q := stmtQ_importAll it mt mn term h.1 h.2.1 h.2.2.1 h.2.2.2
    exact ⟨fun _ => q, declQ_of_stmtQ q ⟨it, _, rfl, by rw [h.1]; decide, by rw [h.1]; decide⟩⟩
  | .importOne it n ft mt mn term, h => by
    simp only [SStmt.Syn] at h
    obtain ⟨h1, h2, h3, h4, h5, h6⟩ := h
    have q := stmtQ_importOne it n ft mt mn term h1 h2 h3 h4 h5 h6
    exact ⟨fun _ => q, declQ_of_stmtQ q ⟨it, _, rfl, by rw [h1]; decide, by rw [h1]; decide⟩⟩
  | .importList it lb ns rb ft mt mn term, h => by
    simp only [SStmt.Syn] at h
    obtain ⟨h1, h2, h3, h4, h5, h6, h7, h8, h9⟩ := h
    have q := stmtQ_importList it lb ns rb ft mt mn term h1 h2 h3 h4 h5 h6 h7 h8 h9
    exact ⟨fun _ => q, declQ_of_stmtQ q ⟨it, _, rfl, by rw [h1]; decide, by rw [h1]; decide⟩⟩
/-- **the statement loop of a block accepts every sequence of the grammar** -/
theorem seqQ : (q : SSeq) → q.Syn → SeqAcc q
  | .nil, _ => seqQ_nil
  | .semi t r, h => by
    simp only [SSeq.Syn] at h
    exact seqQ_semi t r h.1 (seqQ r h.2)
  | .cons st r, h => by
    simp only [SSeq.Syn] at h
    exact seqQ_cons st r h.1 h.2.1 h.2.2 (stQ st h.1).2 (seqQ r h.2.2)
end

/-! ## the top-level loop -/

/-- the top-level loop accepts every sequence of the grammar in front of the end-of-input token -/
theorem progQ : (q : SSeq) → q.Syn → ∀ (s : PState) (eof : Token) (rest : List Token) (acc : List Stmt),
    s.after = renderSeq q ++ eof :: rest → eof.tt = .eof → WFList s.inLoop s.inFn (treeSeq q) →
    ∃ f, ∀ g, f ≤ g → parseLoop g acc [] s = .ok (acc ++ treeSeq q)
  | .nil, _, s, eof, rest, acc, h, he, _ => by
    refine ⟨1, fun g hg => ?_⟩
    obtain ⟨g, rfl⟩ : ∃ g', g = g' + 1 := ⟨g - 1, by omega⟩
    have h' : s.after = eof :: rest := by simpa [renderSeq] using h
    rw [parseLoop_eof g acc h' he]
    simp [treeSeq]
  | .semi t r, hq, s, eof, rest, acc, h, he, hw => by
    simp only [SSeq.Syn] at hq
    have h' : s.after = t :: (renderSeq r ++ eof :: rest) := by simpa [renderSeq] using h
    obtain ⟨f, hf⟩ := progQ r hq.2 (adv s t (renderSeq r ++ eof :: rest)) eof rest acc rfl he
      (by simpa only [treeSeq] using hw)
    refine ⟨f + 1, fun g hg => ?_⟩
    obtain ⟨g, rfl⟩ : ∃ g', g = g' + 1 := ⟨g - 1, by omega⟩
    rw [parseLoop_semi g acc [] h' hq.1, hf g (by omega)]
    simp [treeSeq]
  | .cons st r, hq, s, eof, rest, acc, h, he, hw => by
    simp only [SSeq.Syn] at hq
    obtain ⟨hst, hbare, hsr⟩ := hq
    have h' : s.after = renderStmt st ++ (renderSeq r ++ eof :: rest) := by simpa [renderSeq] using h
    obtain ⟨t0, r0, h0, hs0⟩ := st.first_ok hst
    obtain ⟨nxt, rn, hn, hne, hcl⟩ := seq_head r hsr eof rest (Or.inr he)
    have hw1 : WFStmt s.inLoop s.inFn (treeStmt st) := by simp only [treeSeq, WFList] at hw; exact hw.1
    have hw2 : WFList s.inLoop s.inFn (treeSeq r) := by simp only [treeSeq, WFList] at hw; exact hw.2
    obtain ⟨f1, hf1⟩ := (stQ st hst).2 s (renderSeq r ++ eof :: rest) h'
      ⟨nxt, rn, hn, fun _ => hne, fun hb => hcl (hbare hb)⟩ hw1
    obtain ⟨f2, hf2⟩ := progQ r hsr (advs s (renderStmt st) (renderSeq r ++ eof :: rest)) eof rest
      (acc ++ [treeStmt st]) rfl he hw2
    refine ⟨max f1 f2 + 1, fun g hg => ?_⟩
    obtain ⟨g, rfl⟩ : ∃ g', g = g' + 1 := ⟨g - 1, by omega⟩
    dsimp only at hf1
    rw [parseLoop_decl g acc [] (t := t0) (r := r0 ++ (renderSeq r ++ eof :: rest)) (by rw [h', h0]; rfl)
      hs0.2.2.1 hs0.2.2.2 (hf1 g (by omega)), hf2 g (by omega)]
    simp [treeSeq]

end P
end Aplang
