import Aplang.Model.Interp
/-!
# Lemmas for IMPORT: lookup in a `FunTable` after `insert` / `extend`, and `trimModule`
-/
namespace Aplang

namespace FunTable

/-- the names a table defines -/
def keys (t : FunTable) : List Str := t.map (·.1)

/-- every name is defined at most once -/
def NoDupKeys (t : FunTable) : Prop := (keys t).Nodup

theorem find?_nil (m : Str) : FunTable.find? [] m = none := rfl

theorem find?_cons (e : Str × Proc) (t : FunTable) (m : Str) :
    FunTable.find? (e :: t) m = if e.1 = m then some e.2 else FunTable.find? t m := by
  unfold FunTable.find?
  by_cases h : e.1 = m
  · simp [h]
  · rw [List.find?_cons_of_neg (by simpa using h)]; simp [h]

theorem find?_append (t u : FunTable) (m : Str) :
    FunTable.find? (t ++ u) m = (FunTable.find? t m).or (FunTable.find? u m) := by
  unfold FunTable.find?
  rw [List.find?_append]
  cases List.find? (fun e => e.1 == m) t <;> simp

theorem find?_eq_none_iff (t : FunTable) (m : Str) : FunTable.find? t m = none ↔ m ∉ keys t := by
  induction t with
  | nil => simp [find?_nil, keys]
  | cons e t ih =>
    rw [find?_cons]
    by_cases h : e.1 = m
    · simp [h, keys]
    · have h' : ¬ m = e.1 := fun h' => h h'.symm
      simp only [h, ↓reduceIte, ih]; simp [keys, h']

theorem find?_filter_ne (t : FunTable) (n m : Str) :
    FunTable.find? (List.filter (fun e => e.1 != n) t) m = if m = n then none else FunTable.find? t m := by
  induction t with
  | nil => simp [find?_nil]
  | cons e t ih =>
    by_cases he : e.1 = n
    · have : List.filter (fun e => e.1 != n) (e :: t) = List.filter (fun e => e.1 != n) t := by
        simp [he]
      rw [this, ih, find?_cons]
      by_cases hm : m = n
      · simp [hm]
      · have : ¬ e.1 = m := by rw [he]; exact fun h => hm h.symm
        simp [hm, this]
    · have : List.filter (fun e => e.1 != n) (e :: t) = e :: List.filter (fun e => e.1 != n) t := by
        simp [he]
      rw [this, find?_cons, find?_cons, ih]
      by_cases hem : e.1 = m
      · have : ¬ m = n := by rw [← hem]; exact he
        simp [hem, this]
      · simp [hem]

/-- lookup after `insert`: the inserted name gives the new procedure, every other name is as before -/
theorem find?_insert (t : FunTable) (n : Str) (p : Proc) (m : Str) :
    (t.insert n p).find? m = if m = n then some p else t.find? m := by
  unfold FunTable.insert
  rw [find?_cons, find?_filter_ne]
  by_cases h : m = n
  · simp [h]
  · have : ¬ n = m := fun h' => h h'.symm
    simp [h, this]

/-- lookup after `extend`: the LAST entry of `more` with that name wins (`extend` inserts left to right),
and names that `more` does not define are as before -/
theorem find?_extend (t more : FunTable) (m : Str) :
    (t.extend more).find? m = (FunTable.find? more.reverse m).or (t.find? m) := by
  unfold FunTable.extend
  induction more generalizing t with
  | nil => simp [find?_nil]
  | cons e more ih =>
    rw [List.foldl_cons, ih, List.reverse_cons, find?_append, find?_insert, find?_cons, find?_nil]
    cases FunTable.find? more.reverse m with
    | some p => simp
    | none =>
      by_cases h : m = e.1
      · simp [h]
      · have : ¬ e.1 = m := fun h' => h h'.symm
        simp [h, this]

theorem find?_reverse_of_noDup (t : FunTable) (h : NoDupKeys t) (m : Str) :
    FunTable.find? t.reverse m = FunTable.find? t m := by
  induction t with
  | nil => rfl
  | cons e t ih =>
    have hnd : NoDupKeys t := by
      unfold NoDupKeys keys at *; simp only [List.map_cons, List.nodup_cons] at h; exact h.2
    have hne : e.1 ∉ keys t := by
      unfold NoDupKeys keys at *; simp only [List.map_cons, List.nodup_cons] at h; exact h.1
    rw [List.reverse_cons, find?_append, ih hnd, find?_cons, find?_cons, find?_nil]
    by_cases hm : e.1 = m
    · have : FunTable.find? t m = none := by rw [find?_eq_none_iff, ← hm]; exact hne
      simp [hm, this]
    · simp [hm]

/-- lookup after `extend` with a table without duplicate names: `more` wins, else the old table -/
theorem find?_extend_of_noDup (t more : FunTable) (h : NoDupKeys more) (m : Str) :
    (t.extend more).find? m = (more.find? m).or (t.find? m) := by
  rw [find?_extend, find?_reverse_of_noDup more h]

theorem find?_reverse_eq_none_iff (t : FunTable) (m : Str) :
    FunTable.find? t.reverse m = none ↔ FunTable.find? t m = none := by
  rw [find?_eq_none_iff, find?_eq_none_iff]; simp [keys]

theorem find?_extend_eq_none (t more : FunTable) (m : Str) (h1 : more.find? m = none) (h2 : t.find? m = none) :
    (t.extend more).find? m = none := by
  rw [find?_extend, (find?_reverse_eq_none_iff more m).2 h1, h2]; rfl

theorem noDup_nil : NoDupKeys [] := by simp [NoDupKeys, keys]

theorem noDup_insert (t : FunTable) (n : Str) (p : Proc) (h : NoDupKeys t) : NoDupKeys (t.insert n p) := by
  unfold FunTable.insert NoDupKeys keys at *
  simp only [List.map_cons, List.nodup_cons, List.mem_map, List.mem_filter]
  refine ⟨?_, List.Nodup.sublist (List.Sublist.map _ List.filter_sublist) h⟩
  rintro ⟨e, ⟨_, he⟩, heq⟩
  simp [heq] at he

theorem noDup_extend (t more : FunTable) (h : NoDupKeys t) : NoDupKeys (t.extend more) := by
  unfold FunTable.extend
  induction more generalizing t with
  | nil => exact h
  | cons e more ih => exact ih _ (noDup_insert t e.1 e.2 h)

end FunTable

/-! ## `trimModule` -/

/-- the name an IMPORT list token carries -/
def tokName (t : Token) : Str := match t.lit with | .str s => s | _ => []

/-- the token is a string literal (the parser builds the import list from string literals only) -/
def IsStrTok (t : Token) : Prop := ∃ nm, t.lit = .str nm

theorem tokName_of_lit {t : Token} {nm : Str} (h : t.lit = .str nm) : tokName t = nm := by
  unfold tokName; rw [h]

theorem trimModule_cons_str (t : Token) (ts : List Token) (module acc : FunTable) (σ : St) (nm : Str)
    (h : t.lit = .str nm) :
    trimModule (t :: ts) module acc σ =
      match module.find? nm with
      | some p => trimModule ts (List.filter (fun e => e.1 != nm) module) (acc.insert nm p) σ
      | none => rtErr "Invalid Function" t.span σ := by
  rw [trimModule]; simp only [h]
  cases module.find? nm <;> rfl

/-- distinct names that the module defines: the trimmed table defines exactly them, as the module does -/
theorem trimModule_ok (toks : List Token) (module acc : FunTable) (σ : St)
    (hstr : ∀ t ∈ toks, IsStrTok t) (hnd : (toks.map tokName).Nodup)
    (hin : ∀ nm ∈ toks.map tokName, module.find? nm ≠ none) :
    ∃ acc', trimModule toks module acc σ = .ok acc' ∧
      (∀ n, acc'.find? n = if n ∈ toks.map tokName then module.find? n else acc.find? n) ∧
      (FunTable.NoDupKeys acc → FunTable.NoDupKeys acc') := by
  induction toks generalizing module acc with
  | nil => exact ⟨acc, rfl, by simp, id⟩
  | cons t ts ih =>
    obtain ⟨nm, hlit⟩ := hstr t (by simp)
    have hname := tokName_of_lit hlit
    simp only [List.map_cons, hname, List.nodup_cons] at hnd
    rw [trimModule_cons_str t ts module acc σ nm hlit]
    cases hf : module.find? nm with
    | none => exact absurd hf (hin nm (by simp [hname]))
    | some p =>
      simp only []
      obtain ⟨acc', h1, h2, h3⟩ := ih (List.filter (fun e => e.1 != nm) module) (acc.insert nm p)
        (fun t' ht' => hstr t' (by simp [ht'])) hnd.2
        (fun n hn => by
          have : n ≠ nm := fun h => hnd.1 (h ▸ hn)
          rw [FunTable.find?_filter_ne]; simp only [this, ↓reduceIte]
          exact hin n (by simp [hn]))
      refine ⟨acc', h1, ?_, fun h => h3 (FunTable.noDup_insert acc nm p h)⟩
      intro n
      rw [h2 n, FunTable.find?_filter_ne, FunTable.find?_insert]
      simp only [List.map_cons, hname, List.mem_cons]
      by_cases hn : n = nm
      · subst hn; simp [hnd.1, hf]
      · simp [hn]

/-- what a successful `trimModule` implies about the token list -/
theorem trimModule_ok_inv (toks : List Token) (module acc acc' : FunTable) (σ : St)
    (h : trimModule toks module acc σ = .ok acc') :
    (∀ t ∈ toks, IsStrTok t) ∧ (toks.map tokName).Nodup ∧ ∀ nm ∈ toks.map tokName, module.find? nm ≠ none := by
  induction toks generalizing module acc with
  | nil => simp
  | cons t ts ih =>
    rw [trimModule] at h
    cases hlit : t.lit with
    | none => simp [hlit] at h
    | num x => simp [hlit] at h
    | str nm =>
      have hname := tokName_of_lit hlit
      simp only [hlit] at h
      cases hf : module.find? nm with
      | none => simp [hf, rtErr] at h
      | some p =>
        simp only [hf] at h
        obtain ⟨i1, i2, i3⟩ := ih _ _ h
        refine ⟨?_, ?_, ?_⟩
        · intro t' ht'
          rcases List.mem_cons.1 ht' with rfl | ht'
          · exact ⟨nm, hlit⟩
          · exact i1 t' ht'
        · simp only [List.map_cons, hname, List.nodup_cons]
          refine ⟨fun hmem => ?_, i2⟩
          have := i3 nm hmem
          rw [FunTable.find?_filter_ne] at this; simp at this
        · intro n hn
          simp only [List.map_cons, hname, List.mem_cons] at hn
          rcases hn with rfl | hn
          · rw [hf]; simp
          · have := i3 n hn
            rw [FunTable.find?_filter_ne] at this
            split at this
            · exact absurd rfl this
            · exact this

/-- the first requested name that the module does not define, or that was requested before, is
reported at its own token, with the state unchanged -/
theorem trimModule_err (pre : List Token) (t : Token) (post : List Token) (module acc : FunTable) (σ : St)
    (nm : Str) (hstr : ∀ u ∈ pre, IsStrTok u) (hnd : (pre.map tokName).Nodup)
    (hin : ∀ n ∈ pre.map tokName, module.find? n ≠ none) (hlit : t.lit = .str nm)
    (hbad : module.find? nm = none ∨ nm ∈ pre.map tokName) :
    trimModule (pre ++ t :: post) module acc σ = .err ⟨"Invalid Function", t.span⟩ σ := by
  induction pre generalizing module acc with
  | nil =>
    have hf : module.find? nm = none := by simpa using hbad
    rw [List.nil_append, trimModule_cons_str t post module acc σ nm hlit, hf]; rfl
  | cons u pre ih =>
    obtain ⟨un, hul⟩ := hstr u (by simp)
    have hname := tokName_of_lit hul
    simp only [List.map_cons, hname, List.nodup_cons] at hnd
    rw [List.cons_append, trimModule_cons_str u _ module acc σ un hul]
    cases hf : module.find? un with
    | none => exact absurd hf (hin un (by simp [hname]))
    | some p =>
      simp only []
      apply ih
      · exact fun t' ht' => hstr t' (by simp [ht'])
      · exact hnd.2
      · intro n hn
        have : n ≠ un := fun h => hnd.1 (h ▸ hn)
        rw [FunTable.find?_filter_ne]; simp only [this, ↓reduceIte]
        exact hin n (by simp [hn])
      · rw [FunTable.find?_filter_ne]
        by_cases hnu : nm = un
        · left; simp [hnu]
        · simp only [hnu, ↓reduceIte]
          rcases hbad with hb | hb
          · exact Or.inl hb
          · simp only [List.map_cons, hname, List.mem_cons, hnu, false_or] at hb
            exact Or.inr hb

/-- a token that is not a string literal in the import list is the only way `trimModule` can panic; with
string tokens the result is a table or the "Invalid Function" diagnostic -/
theorem trimModule_ok_or_err (toks : List Token) (module acc : FunTable) (σ : St) (hstr : ∀ t ∈ toks, IsStrTok t) :
    (∃ acc', trimModule toks module acc σ = .ok acc') ∨
    (∃ t ∈ toks, trimModule toks module acc σ = .err ⟨"Invalid Function", t.span⟩ σ) := by
  induction toks generalizing module acc with
  | nil => exact Or.inl ⟨acc, rfl⟩
  | cons t ts ih =>
    obtain ⟨nm, hlit⟩ := hstr t (by simp)
    rw [trimModule_cons_str t ts module acc σ nm hlit]
    cases hf : module.find? nm with
    | none => exact Or.inr ⟨t, by simp, rfl⟩
    | some p =>
      simp only []
      rcases ih (List.filter (fun e => e.1 != nm) module) (acc.insert nm p)
        (fun t' ht' => hstr t' (by simp [ht'])) with h | ⟨t', ht', h⟩
      · exact Or.inl h
      · exact Or.inr ⟨t', by simp [ht'], h⟩

end Aplang
