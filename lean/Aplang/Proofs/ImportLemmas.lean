import Aplang.Model.Interp
/-!
# Lemmas for IMPORT: lookup in a `FunTable` after `insert` / `extend`, and `trimModule`
-/
namespace Aplang

namespace FunTable

/-- the names a table defines -/
def keys (t : FunTable) : List Str := t.map (·.1)

/-- every name is defined at most once -/
def NoDupKeys (t : FunTable) : Prop := (keys t).Nodup

theorem find?_nil (m : Str) : FunTable.find? [] m = none := rfl

theorem find?_cons (e : Str × Proc) (t : FunTable) (m : Str) :
    FunTable.find? (e :: t) m = if e.1 = m then some e.2 else FunTable.find? t m := by
  unfold FunTable.find?
  by_cases h : e.1 = m
  · simp [h]
  · rw [List.find?_cons_of_neg (by simpa using h)]; simp [h]

theorem find?_append (t u : FunTable) (m : Str) :
    FunTable.find? (t ++ u) m = (FunTable.find? t m).or (FunTable.find? u m) := by
  unfold FunTable.find?
  rw [List.find?_append]
  cases List.find? (fun e => e.1 == m) t <;> simp

theorem find?_eq_none_iff (t : FunTable) (m : Str) : FunTable.find? t m = none ↔ m ∉ keys t := by
  induction t with
  | nil => simp [find?_nil, keys]
  | cons e t ih =>
    rw [find?_cons]
    by_cases h : e.1 = m
    · simp [h, keys]
    · have h' : ¬ m = e.1 := fun h' => h h'.symm
      simp only [h, ↓reduceIte, ih]; simp [keys, h']

theorem find?_filter_ne (t : FunTable) (n m : Str) :
    FunTable.find? (List.filter (fun e => e.1 != n) t) m = if m = n then none else FunTable.find? t m := by
  induction t with
  | nil => simp [find?_nil]
  | cons e t ih =>
    by_cases he : e.1 = n
    · have : List.filter (fun e => e.1 != n) (e :: t) = List.filter (fun e => e.1 != n) t := by
        simp [he]
      rw [this, ih, find?_cons]
      by_cases hm : m = n
      · simp [hm]
      · have : ¬ e.1 = m := by rw [he]; exact fun h => hm h.symm
        simp [hm, this]
    · have : List.filter (fun e => e.1 != n) (e :: t) = e :: List.filter (fun e => e.1 != n) t := by
        simp [he]
      rw [this, find?_cons, find?_cons, ih]
      by_cases hem : e.1 = m
      · have : ¬ m = n := by rw [← hem]; exact he
        simp [hem, this]
      · simp [hem]

/-- lookup after `insert`: the inserted name gives the new procedure, every other name is as before -/
theorem find?_insert (t : FunTable) (n : Str) (p : Proc) (m : Str) :
    (t.insert n p).find? m = if m = n then some p else t.find? m := by
  unfold FunTable.insert
  rw [find?_cons, find?_filter_ne]
  by_cases h : m = n
  · simp [h]
  · have : ¬ n = m := fun h' => h h'.symm
    simp [h, this]

/-- lookup after `extend`: the LAST entry of `more` with that name wins (`extend` inserts left to right),
and names that `more` does not define are as before -/
theorem find?_extend (t more : FunTable) (m : Str) :
    (t.extend more).find? m = (FunTable.find? more.reverse m).or (t.find? m) := by
  unfold FunTable.extend
  induction more generalizing t with
  | nil => simp [find?_nil]
  | cons e more ih =>
    rw [List.foldl_cons, ih, List.reverse_cons, find?_append, find?_insert, find?_cons, find?_nil]
    cases FunTable.find? more.reverse m with
    | some p => simp
    | none =>
      by_cases h : m = e.1
      · simp [h]
      · have : ¬ e.1 = m := fun h' => h h'.symm
        simp [h, this]

theorem find?_reverse_of_noDup (t : FunTable) (h : NoDupKeys t) (m : Str) :
    FunTable.find? t.reverse m = FunTable.find? t m := by
  induction t with
  | nil => rfl
  | cons e t ih =>
    have hnd : NoDupKeys t := by
      unfold NoDupKeys keys at *; simp only [List.map_cons, List.nodup_cons] at h; exact h.2
    have hne : e.1 ∉ keys t := by
      unfold NoDupKeys keys at *; simp only [List.map_cons, List.nodup_cons] at h; exact h.1
    rw [List.reverse_cons, find?_append, ih hnd, find?_cons, find?_cons, find?_nil]
    by_cases hm : e.1 = m
    · have : FunTable.find? t m = none := by rw [find?_eq_none_iff, ← hm]; exact hne
      simp [hm, this]
    · simp [hm]

/-- lookup after `extend` with a table without duplicate names: `more` wins, else the old table -/
theorem find?_extend_of_noDup (t more : FunTable) (h : NoDupKeys more) (m : Str) :
    (t.extend more).find? m = (more.find? m).or (t.find? m) := by
  rw [find?_extend, find?_reverse_of_noDup more h]

theorem find?_reverse_eq_none_iff (t : FunTable) (m : Str) :
    FunTable.find? t.reverse m = none ↔ FunTable.find? t m = none := by
  rw [find?_eq_none_iff, find?_eq_none_iff]; simp [keys]

theorem find?_extend_eq_none (t more : FunTable) (m : Str) (h1 : more.find? m = none) (h2 : t.find? m = none) :
    (t.extend more).find? m = none := by
  rw [find?_extend, (find?_reverse_eq_none_iff more m).2 h1, h2]; rfl

theorem noDup_nil : NoDupKeys [] := by simp [NoDupKeys, keys]

theorem noDup_insert (t : FunTable) (n : Str) (p : Proc) (h : NoDupKeys t) : NoDupKeys (t.insert n p) := by
  unfold FunTable.insert NoDupKeys keys at *
  simp only [List.map_cons, List.nodup_cons, List.mem_map, List.mem_filter]
  refine ⟨?_, List.Nodup.sublist (List.Sublist.map _ List.filter_sublist) h⟩
  rintro ⟨e, ⟨_, he⟩, heq⟩
  simp [heq] at he

theorem noDup_extend (t more : FunTable) (h : NoDupKeys t) : NoDupKeys (t.extend more) := by
  unfold FunTable.extend
  induction more generalizing t with
  | nil => exact h
  | cons e more ih => exact ih _ (noDup_insert t e.1 e.2 h)

end FunTable

/-! ## `trimModule` -/

/-- the name an IMPORT list token carries -/
def tokName (t : Token) : Str := match t.lit with | .str s => s | _ => []

/-- the token is a string literal (the parser builds the import list from string literals only) -/
def IsStrTok (t : Token) : Prop := ∃ nm, t.lit = .str nm

theorem tokName_of_lit {t : Token} {nm : Str} (h : t.lit = .str nm) : tokName t = nm := by
  unfold tokName; rw [h]

theorem trimModule_cons_str (t : Token) (ts : List Token) (module acc : FunTable) (σ : St) (nm : Str)
    (h : t.lit = .str nm) :
    trimModule (t :: ts) module acc σ =
      match module.find? nm with
      | some p => trimModule ts (List.filter (fun e => e.1 != nm) module) (acc.insert nm p) σ
      | none => rtErr "Invalid Function" t.span σ := by
  rw [trimModule]; simp only [h]
  cases module.find? nm <;> rfl

/-- distinct names that the module defines: the trimmed table defines exactly them, as the module does -/
theorem trimModule_ok (toks : List Token) (module acc : FunTable) (σ : St)
    (hstr : ∀ t ∈ toks, IsStrTok t) (hnd : (toks.map tokName).Nodup)
    (hin : ∀ nm ∈ toks.map tokName, module.find? nm ≠ none) :
    ∃ acc', trimModule toks module acc σ = .ok acc' ∧
      (∀ n, acc'.find? n = if n ∈ toks.map tokName then module.find? n else acc.find? n) ∧
      (FunTable.NoDupKeys acc → FunTable.NoDupKeys acc') := by
  induction toks generalizing module acc with
  | nil => exact ⟨acc, rfl, by simp, id⟩
  | cons t ts ih =>
    obtain ⟨nm, hlit⟩ := hstr t (by simp)
    have hname := tokName_of_lit hlit
    simp only [List.map_cons, hname, List.nodup_cons] at hnd
    rw [trimModule_cons_str t ts module acc σ nm hlit]
    cases hf : module.find? nm with
    | none => exact absurd hf (hin nm (by simp [hname]))
    | some p =>
      simp only []
      obtain ⟨acc', h1, h2, h3⟩ := ih (List.filter (fun e => e.1 != nm) module) (acc.insert nm p)
        (fun t' ht' => hstr t' (by simp [ht'])) hnd.2
        (fun n hn => by
          have : n ≠ nm := fun h => hnd.1 (h ▸ hn)
          rw [FunTable.find?_filter_ne]; simp only [this, ↓reduceIte]
          exact hin n (by simp [hn]))
      refine ⟨acc', h1, ?_, fun h => h3 (FunTable.noDup_insert acc nm p h)⟩
      intro n
      rw [h2 n, FunTable.find?_filter_ne, FunTable.find?_insert]
      simp only [List.map_cons, hname, List.mem_cons]
      by_cases hn : n = nm
      · subst hn; simp [hnd.1, hf]
      · simp [hn]

/-- what a successful `trimModule` implies about the token list -/
theorem trimModule_ok_inv (toks : List Token) (module acc acc' : FunTable) (σ : St)
    (h : trimModule toks module acc σ = .ok acc') :
    (∀ t ∈ toks, IsStrTok t) ∧ (toks.map tokName).Nodup ∧ ∀ nm ∈ toks.map tokName, module.find? nm ≠ none := by
  induction toks generalizing module acc with
  | nil => simp
  | cons t ts ih =>
    rw [trimModule] at h
    cases hlit : t.lit with
    | none => simp [hlit] at h
    | num x => simp [hlit] at h
    | str nm =>
      have hname := tokName_of_lit hlit
      simp only [hlit] at h
      cases hf : module.find? nm with
      | none => simp [hf, rtErr] at h
      | some p =>
        simp only [hf] at h
        obtain ⟨i1, i2, i3⟩ := ih _ _ h
        refine ⟨?_, ?_, ?_⟩
        · intro t' ht'
          rcases List.mem_cons.1 ht' with rfl | ht'
          · exact ⟨nm, hlit⟩
          · exact i1 t' ht'
        · simp only [List.map_cons, hname, List.nodup_cons]
          refine ⟨fun hmem => ?_, i2⟩
          have := i3 nm hmem
          rw [FunTable.find?_filter_ne] at this; simp at this
        · intro n hn
          simp only [List.map_cons, hname, List.mem_cons] at hn
          rcases hn with rfl | hn
          · rw [hf]; simp
          · have := i3 n hn
            rw [FunTable.find?_filter_ne] at this
            split at this
            · exact absurd rfl this
            · exact this

/-- the first requested name that the module does not define, or that was requested before, is
reported at its own token, with the state unchanged -/
theorem trimModule_err (pre : List Token) (t : Token) (post : List Token) (module acc : FunTable) (σ : St)
    (nm : Str) (hstr : ∀ u ∈ pre, IsStrTok u) (hnd : (pre.map tokName).Nodup)
    (hin : ∀ n ∈ pre.map tokName, module.find? n ≠ none) (hlit : t.lit = .str nm)
    (hbad : module.find? nm = none ∨ nm ∈ pre.map tokName) :
    trimModule (pre ++ t :: post) module acc σ = .err ⟨"Invalid Function", t.span⟩ σ := by
  induction pre generalizing module acc with
  | nil =>
    have hf : module.find? nm = none := by simpa using hbad
    rw [List.nil_append, trimModule_cons_str t post module acc σ nm hlit, hf]; rfl
  | cons u pre ih =>
    obtain ⟨un, hul⟩ := hstr u (by simp)
    have hname := tokName_of_lit hul
    simp only [List.map_cons, hname, List.nodup_cons] at hnd
    rw [List.cons_append, trimModule_cons_str u _ module acc σ un hul]
    cases hf : module.find? un with
    | none => exact absurd hf (hin un (by simp [hname]))
    | some p =>
      simp only []
      apply ih
      · exact fun t' ht' => hstr t' (by simp [ht'])
      · exact hnd.2
      · intro n hn
        have : n ≠ un := fun h => hnd.1 (h ▸ hn)
        rw [FunTable.find?_filter_ne]; simp only [this, ↓reduceIte]
        exact hin n (by simp [hn])
      · rw [FunTable.find?_filter_ne]
        by_cases hnu : nm = un
        · left; simp [hnu]
        · simp only [hnu, ↓reduceIte]
          rcases hbad with hb | hb
          · exact Or.inl hb
          · simp only [List.map_cons, hname, List.mem_cons, hnu, false_or] at hb
            exact Or.inr hb

/-- a token that is not a string literal in the import list is the only way `trimModule` can panic; with
string tokens the result is a table or the "Invalid Function" diagnostic -/
theorem trimModule_ok_or_err (toks : List Token) (module acc : FunTable) (σ : St) (hstr : ∀ t ∈ toks, IsStrTok t) :
    (∃ acc', trimModule toks module acc σ = .ok acc') ∨
    (∃ t ∈ toks, trimModule toks module acc σ = .err ⟨"Invalid Function", t.span⟩ σ) := by
  induction toks generalizing module acc with
  | nil => exact Or.inl ⟨acc, rfl⟩
  | cons t ts ih =>
    obtain ⟨nm, hlit⟩ := hstr t (by simp)
    rw [trimModule_cons_str t ts module acc σ nm hlit]
    cases hf : module.find? nm with
    | none => exact Or.inr ⟨t, by simp, rfl⟩
    | some p =>
      simp only []
      rcases ih (List.filter (fun e => e.1 != nm) module) (acc.insert nm p)
        (fun t' ht' => hstr t' (by simp [ht'])) with h | ⟨t', ht', h⟩
      · exact Or.inl h
      · exact Or.inr ⟨t', by simp [ht'], h⟩

/-! # Evaluation depends on the procedure table only through the names the code can call

`St.withProcs σ P` is `σ` with the procedure table `P`. First: no native procedure and no helper of the
evaluator reads or writes `procs` (`*_obl`: running in `σ.withProcs P` is running in `σ` and putting `P`
into the resulting states). Then, by one mutual induction on fuel over the eight evaluators (`Obl`,
`obl_all`): two states that differ in `procs` only, whose tables agree on `names` and are closed under
`names` (the bodies of the procedures reachable from `names` call only `names`), give related results
for every piece of code that `CallsWithin names`. -/

/-- the state with another procedure table -/
def St.withProcs (σ : St) (P : FunTable) : St := { σ with procs := P }

/-- replace the procedure table in every state a result carries -/
def Res.mapP {α} (g : α → α) (P : FunTable) : Res α → Res α
  | .ok a => .ok (g a)
  | .err e s => .err e (s.withProcs P)
  | .terminate w s => .terminate w (s.withProcs P)
  | .panic p o => .panic p o
  | .fuel => .fuel

abbrev Res.mapPV {α} (P : FunTable) (r : Res (α × St)) : Res (α × St) := r.mapP (fun x => (x.1, x.2.withProcs P)) P
abbrev Res.mapPE {α} (P : FunTable) (r : Res α) : Res α := r.mapP id P

section
variable (σ : St) (P : FunTable)
@[simp] theorem withProcs_heap : (σ.withProcs P).heap = σ.heap := rfl
@[simp] theorem withProcs_world : (σ.withProcs P).world = σ.world := rfl
@[simp] theorem withProcs_out : (σ.withProcs P).out = σ.out := rfl
@[simp] theorem withProcs_scopes : (σ.withProcs P).scopes = σ.scopes := rfl
@[simp] theorem getList_withProcs (a : Nat) : getList (σ.withProcs P) a = getList σ a := rfl
end

theorem bind_obl {α β} {g : β → β} {P : FunTable} {x₁ x₂ : Res α} {k₁ k₂ : α → Res β}
    (hx : x₂ = x₁.mapPE P) (hk : ∀ a, k₂ a = (k₁ a).mapP g P) : x₂.bind k₂ = (x₁.bind k₁).mapP g P := by
  subst hx
  cases x₁ with
  | ok a => exact hk a
  | _ => rfl

variable (σ : St) (P : FunTable)

theorem castStr_obl (v : Value) (sp : Span) : castStr v sp (σ.withProcs P) = (castStr v sp σ).mapPE P := by
  cases v <;> rfl
theorem castNum_obl (v : Value) (sp : Span) : castNum v sp (σ.withProcs P) = (castNum v sp σ).mapPE P := by
  cases v <;> rfl
theorem castList_obl (v : Value) (sp : Span) : castList v sp (σ.withProcs P) = (castList v sp σ).mapPE P := by
  cases v <;> try rfl
  simp only [castList, getList_withProcs]
  split <;> rfl
theorem castMap_obl (v : Value) (sp : Span) : castMap v sp (σ.withProcs P) = (castMap v sp σ).mapPE P := by
  cases v <;> try rfl
  simp only [castMap, withProcs_heap]
  split <;> rfl
theorem castRobot_obl (v : Value) (sp : Span) : castRobot v sp (σ.withProcs P) = (castRobot v sp σ).mapPE P := by
  cases v <;> try rfl
  simp only [castRobot, withProcs_heap]
  split <;> rfl
theorem display_obl (v : Value) : display (σ.withProcs P) v = (display σ v).mapPE P := by
  simp only [display, withProcs_heap]
  split <;> rfl
theorem displayAll_obl (vs : List Value) : displayAll (σ.withProcs P) vs = (displayAll σ vs).mapPE P := by
  induction vs with
  | nil => rfl
  | cons v vs ih =>
    simp only [displayAll]
    apply bind_obl (display_obl σ P v); intro a
    apply bind_obl ih; intro b
    rfl

macro "obl_step" : tactic =>
  `(tactic| first
    | rfl
    | (apply bind_obl (castStr_obl _ _ _ _); intro _)
    | (apply bind_obl (castNum_obl _ _ _ _); intro _)
    | (apply bind_obl (castList_obl _ _ _ _); intro _)
    | (apply bind_obl (castMap_obl _ _ _ _); intro _)
    | (apply bind_obl (castRobot_obl _ _ _ _); intro _)
    | (apply bind_obl (display_obl _ _ _); intro _)
    | (apply bind_obl (displayAll_obl _ _ _); intro _)
    | split)


theorem moveRobot_obl (v : Value) (s1 : Span) :
    moveRobot v s1 (σ.withProcs P) = (moveRobot v s1 σ).mapPV P := by
  unfold moveRobot
  repeat' obl_step

macro "obl_native" : tactic =>
  `(tactic| (split
             all_goals (try simp only [withProcs_heap, withProcs_world, withProcs_out, getList_withProcs])
             all_goals (repeat' obl_step)))

theorem callCore_obl (env n args spans) :
    callCore env n args spans (σ.withProcs P) = (callCore env n args spans σ).mapPV P := by
  unfold callCore; obl_native
theorem callMath_obl (env n args spans) :
    callMath env n args spans (σ.withProcs P) = (callMath env n args spans σ).mapPV P := by
  unfold callMath; obl_native
theorem callString_obl (env n args spans) :
    callString env n args spans (σ.withProcs P) = (callString env n args spans σ).mapPV P := by
  unfold callString; obl_native
theorem callMap_obl (env n args spans) :
    callMap env n args spans (σ.withProcs P) = (callMap env n args spans σ).mapPV P := by
  unfold callMap; obl_native
theorem callIo_obl (env n args spans) :
    callIo env n args spans (σ.withProcs P) = (callIo env n args spans σ).mapPV P := by
  unfold callIo; obl_native
theorem callStyle_obl (env n args spans) :
    callStyle env n args spans (σ.withProcs P) = (callStyle env n args spans σ).mapPV P := by
  unfold callStyle; obl_native
theorem callTime_obl (env n args spans) :
    callTime env n args spans (σ.withProcs P) = (callTime env n args spans σ).mapPV P := by
  unfold callTime; obl_native
set_option linter.unusedSimpArgs false in
theorem callRobot_obl (env n args spans) :
    callRobot env n args spans (σ.withProcs P) = (callRobot env n args spans σ).mapPV P := by
  unfold callRobot
  split
  all_goals (try simp only [withProcs_heap, withProcs_world, withProcs_out, getList_withProcs])
  all_goals first | exact moveRobot_obl _ _ _ _ | (repeat' obl_step)
theorem callFs_obl (env n args spans) :
    callFs env n args spans (σ.withProcs P) = (callFs env n args spans σ).mapPV P := by
  unfold callFs; obl_native

/-- no native procedure reads or writes the procedure table -/
theorem callNative_obl (env n args spans) :
    callNative env n args spans (σ.withProcs P) = (callNative env n args spans σ).mapPV P := by
  unfold callNative
  split
  · exact callCore_obl σ P env n args spans
  · exact callMath_obl σ P env n args spans
  · exact callString_obl σ P env n args spans
  · exact callMap_obl σ P env n args spans
  · exact callIo_obl σ P env n args spans
  · exact callStyle_obl σ P env n args spans
  · exact callTime_obl σ P env n args spans
  · exact callRobot_obl σ P env n args spans
  · exact callFs_obl σ P env n args spans


/-! ### the evaluator's helpers -/

abbrev Res.mapPS (P : FunTable) (r : Res St) : Res St := r.mapP (·.withProcs P) P

section
variable (σ : St) (P : FunTable)
@[simp] theorem withProcs_procs : (σ.withProcs P).procs = P := rfl
@[simp] theorem withProcs_ret : (σ.withProcs P).ret = σ.ret := rfl
@[simp] theorem withProcs_loops : (σ.withProcs P).loops = σ.loops := rfl
@[simp] theorem withProcs_exports : (σ.withProcs P).exports = σ.exports := rfl
@[simp] theorem withProcs_budget : (σ.withProcs P).budget = σ.budget := rfl
@[simp] theorem withProcs_filePath : (σ.withProcs P).filePath = σ.filePath := rfl
@[simp] theorem lookupVar_withProcs (x : Str) : lookupVar (σ.withProcs P) x = lookupVar σ x := rfl
@[simp] theorem pending_withProcs : pending (σ.withProcs P) = pending σ := rfl

theorem bind_oblS {β} {g : β → β} {P : FunTable} {x₁ x₂ : Res St} {k₁ k₂ : St → Res β}
    (hx : x₂ = x₁.mapPS P) (hk : ∀ s, k₂ (s.withProcs P) = (k₁ s).mapP g P) :
    x₂.bind k₂ = (x₁.bind k₁).mapP g P := by
  subst hx
  cases x₁ with
  | ok a => exact hk a
  | _ => rfl

theorem binop_obl (op tok a b) : binop op tok a b (σ.withProcs P) = (binop op tok a b σ).mapPV P := by
  unfold binop
  split
  all_goals (try simp only [getList_withProcs])
  all_goals (repeat' obl_step)

theorem unop_obl (op tok v) : unop op tok v (σ.withProcs P) = (unop op tok v σ).mapPV P := by
  unfold unop
  split <;> rfl

theorem define_obl (x v) : define (σ.withProcs P) x v = (define σ x v).mapPS P := by
  unfold define
  simp only [withProcs_scopes]
  split <;> rfl

theorem removeVar_obl (x) : removeVar (σ.withProcs P) x = (removeVar σ x).mapPV P := by
  unfold removeVar
  simp only [withProcs_scopes]
  split <;> rfl

theorem createNested_obl : createNested (σ.withProcs P) = (createNested σ).mapPS P := by
  unfold createNested
  simp only [withProcs_scopes]
  split <;> rfl

theorem flattenNested_obl : flattenNested (σ.withProcs P) = (flattenNested σ).mapPS P := by
  unfold flattenNested
  simp only [withProcs_scopes]
  split <;> rfl

theorem popLoop_obl : popLoop (σ.withProcs P) = (popLoop σ).mapPS P := by
  unfold popLoop
  simp only [withProcs_loops]
  split <;> rfl

theorem afterBody_obl (b : Bool) : afterBody b (σ.withProcs P) = (afterBody b σ).mapPV P := by
  cases σ
  dsimp only [afterBody, St.withProcs]
  repeat' (first | rfl | contradiction | split)

theorem forAfter_obl : forAfter (σ.withProcs P) = (forAfter σ).mapPV P := by
  cases σ
  dsimp only [forAfter, St.withProcs]
  repeat' (first | rfl | contradiction | split)

theorem writeBack_withProcs (a i : Nat) (cur : Option Value) :
    writeBack (σ.withProcs P) a i cur = (writeBack σ a i cur).withProcs P := by
  unfold writeBack
  simp only [getList_withProcs]
  repeat' (first | rfl | contradiction | split)

theorem assignVar_obl (name v) : assignVar name v (σ.withProcs P) = (assignVar name v σ).mapPV P := by
  unfold assignVar
  simp only [lookupVar_withProcs, getList_withProcs]
  repeat' (first | rfl | contradiction | (apply bind_oblS (define_obl _ _ _ _); intro _; rfl) | split)

theorem indexRead_obl (l k lt lb rb) :
    indexRead l k lt lb rb (σ.withProcs P) = (indexRead l k lt lb rb σ).mapPV P := by
  unfold indexRead
  simp only [getList_withProcs]
  repeat' (first | rfl | contradiction | split)

theorem indexWrite_obl (l k v lt lb rb) :
    indexWrite l k v lt lb rb (σ.withProcs P) = (indexWrite l k v lt lb rb σ).mapPV P := by
  unfold indexWrite
  simp only [getList_withProcs]
  repeat' (first | rfl | contradiction | split)

theorem tick_withProcs : tick (σ.withProcs P) = (tick σ).map (·.withProcs P) := by
  cases σ
  dsimp only [tick, St.withProcs]
  split <;> rfl
end


/-! ## which procedures a piece of code can call -/

mutual
/-- every call in the expression names a procedure in `names` -/
def Expr.CallsWithin (names : List Str) : Expr → Prop
  | .lit _ _ => True
  | .binary l _ r _ => Expr.CallsWithin names l ∧ Expr.CallsWithin names r
  | .logical l _ r _ => Expr.CallsWithin names l ∧ Expr.CallsWithin names r
  | .unary _ r _ => Expr.CallsWithin names r
  | .grouping e _ _ => Expr.CallsWithin names e
  | .call name args _ _ _ _ => name ∈ names ∧ Expr.CallsWithinL names args
  | .access l _ k _ _ => Expr.CallsWithin names l ∧ Expr.CallsWithin names k
  | .list items _ _ => Expr.CallsWithinL names items
  | .var _ _ => True
  | .assign _ _ v _ => Expr.CallsWithin names v
  | .set l _ i _ _ v _ => Expr.CallsWithin names l ∧ Expr.CallsWithin names i ∧ Expr.CallsWithin names v
def Expr.CallsWithinL (names : List Str) : List Expr → Prop
  | [] => True
  | e :: es => Expr.CallsWithin names e ∧ Expr.CallsWithinL names es
end

mutual
/-- every call in the statement names a procedure in `names`; the statement imports nothing -/
def Stmt.CallsWithin (names : List Str) : Stmt → Prop
  | .expr e => e.CallsWithin names
  | .ifs c t e _ _ => c.CallsWithin names ∧ Stmt.CallsWithin names t ∧ Stmt.CallsWithinO names e
  | .repeatTimes c b _ _ _ => c.CallsWithin names ∧ Stmt.CallsWithin names b
  | .repeatUntil c b _ _ => c.CallsWithin names ∧ Stmt.CallsWithin names b
  | .forEach _ _ l b _ _ _ _ => l.CallsWithin names ∧ Stmt.CallsWithin names b
  | .procDecl _ _ b _ _ _ => Stmt.CallsWithin names b
  | .block _ ss _ => Stmt.CallsWithinL names ss
  | .ret _ v => (match v with | some e => e.CallsWithin names | none => True)
  | .cont _ => True
  | .brk _ => True
  | .import_ _ _ _ _ _ => False
def Stmt.CallsWithinO (names : List Str) : Option Stmt → Prop
  | none => True
  | some s => Stmt.CallsWithin names s
def Stmt.CallsWithinL (names : List Str) : List Stmt → Prop
  | [] => True
  | s :: ss => Stmt.CallsWithin names s ∧ Stmt.CallsWithinL names ss
end

/-! ## two states that differ in the procedure table only, and agree on `names` -/

def AgreeOn (names : List Str) (P Q : FunTable) : Prop := ∀ n ∈ names, P.find? n = Q.find? n

def Proc.CallsWithin (names : List Str) : Proc → Prop
  | .user _ body => body.CallsWithin names
  | .native _ => True

/-- the user procedures reachable under `names` call only procedures in `names` -/
def Closed (names : List Str) (P : FunTable) : Prop := ∀ n ∈ names, ∀ p, P.find? n = some p → p.CallsWithin names

def RelSt (names : List Str) (s t : St) : Prop :=
  ∃ Q, t = s.withProcs Q ∧ AgreeOn names s.procs Q ∧ Closed names s.procs

/-- results that agree up to the procedure table of the states they carry -/
def RelR {α} (R : α → α → Prop) : Res α → Res α → Prop
  | .ok a, .ok b => R a b
  | .err e s, .err e' t => e = e' ∧ ∃ Q, t = s.withProcs Q
  | .terminate w s, .terminate w' t => w = w' ∧ ∃ Q, t = s.withProcs Q
  | .panic p o, .panic p' o' => p = p' ∧ o = o'
  | .fuel, .fuel => True
  | _, _ => False

def RV {α} (names : List Str) (x y : α × St) : Prop := x.1 = y.1 ∧ RelSt names x.2 y.2

theorem RelR.bind {α β} {R : α → α → Prop} {S : β → β → Prop} {x₁ x₂ : Res α} {k₁ k₂ : α → Res β}
    (hx : RelR R x₁ x₂) (hk : ∀ a b, R a b → RelR S (k₁ a) (k₂ b)) : RelR S (x₁.bind k₁) (x₂.bind k₂) := by
  cases x₁ <;> cases x₂ <;> first | exact False.elim hx | exact hk _ _ hx | exact hx

theorem agreeOn_insert {names : List Str} {P Q : FunTable} (h : AgreeOn names P Q) (n : Str) (p : Proc) :
    AgreeOn names (P.insert n p) (Q.insert n p) := by
  intro m hm; rw [FunTable.find?_insert, FunTable.find?_insert, h m hm]

theorem closed_insert {names : List Str} {P : FunTable} (h : Closed names P) (n : Str) (p : Proc)
    (hp : p.CallsWithin names) : Closed names (P.insert n p) := by
  intro m hm q hq
  rw [FunTable.find?_insert] at hq
  split at hq
  · injection hq with hq; subst hq; exact hp
  · exact h m hm q hq

theorem relV_of_obl {α} {names : List Str} {F : St → Res (α × St)}
    (h : ∀ σ P, F (σ.withProcs P) = (F σ).mapPV P) {s t : St} (r : RelSt names s t) :
    RelR (RV names) (F s) (F t) := by
  obtain ⟨Q, rfl, ha, hc⟩ := r
  have h2 : F s = (F s).mapPV s.procs := h s s.procs
  rw [h s Q]
  cases hF : F s with
  | ok p =>
    obtain ⟨a, s'⟩ := p
    rw [hF] at h2
    have hp : s.procs = s'.procs := by
      injection h2 with h2
      exact (congrArg (fun x => x.2.procs) h2).symm
    exact ⟨rfl, Q, rfl, hp ▸ ha, hp ▸ hc⟩
  | err e s' => exact ⟨rfl, Q, rfl⟩
  | terminate w s' => exact ⟨rfl, Q, rfl⟩
  | panic p o => exact ⟨rfl, rfl⟩
  | fuel => trivial

theorem relS_of_obl {names : List Str} {F : St → Res St}
    (h : ∀ σ P, F (σ.withProcs P) = (F σ).mapPS P) {s t : St} (r : RelSt names s t) :
    RelR (RelSt names) (F s) (F t) := by
  obtain ⟨Q, rfl, ha, hc⟩ := r
  have h2 : F s = (F s).mapPS s.procs := h s s.procs
  rw [h s Q]
  cases hF : F s with
  | ok s' =>
    rw [hF] at h2
    have hp : s.procs = s'.procs := by
      injection h2 with h2
      exact (congrArg St.procs h2).symm
    exact ⟨Q, rfl, hp ▸ ha, hp ▸ hc⟩
  | err e s' => exact ⟨rfl, Q, rfl⟩
  | terminate w s' => exact ⟨rfl, Q, rfl⟩
  | panic p o => exact ⟨rfl, rfl⟩
  | fuel => trivial

/-- the induction hypothesis: all eight evaluators at fuel `f` -/
structure Obl (cfg : Cfg) (names : List Str) (f : Nat) : Prop where
  expr : ∀ e s t, Expr.CallsWithin names e → RelSt names s t →
    RelR (RV names) (expr cfg f e s) (expr cfg f e t)
  exprs : ∀ es s t, Expr.CallsWithinL names es → RelSt names s t →
    RelR (RV names) (exprs cfg f es s) (exprs cfg f es t)
  stmt : ∀ st s t, Stmt.CallsWithin names st → RelSt names s t →
    RelR (RelSt names) (stmt cfg f st s) (stmt cfg f st t)
  block : ∀ ss s t, Stmt.CallsWithinL names ss → RelSt names s t →
    RelR (RelSt names) (block cfg f ss s) (block cfg f ss t)
  repeatLoop : ∀ k body s t, Stmt.CallsWithin names body → RelSt names s t →
    RelR (RelSt names) (repeatLoop cfg f k body s) (repeatLoop cfg f k body t)
  untilLoop : ∀ c body s t, Expr.CallsWithin names c → Stmt.CallsWithin names body → RelSt names s t →
    RelR (RelSt names) (untilLoop cfg f c body s) (untilLoop cfg f c body t)
  forLoop : ∀ item a i len body s t, Stmt.CallsWithin names body → RelSt names s t →
    RelR (RelSt names) (forLoop cfg f item a i len body s) (forLoop cfg f item a i len body t)
  program : ∀ ss s t, Stmt.CallsWithinL names ss → RelSt names s t →
    RelR (RelSt names) (program cfg f ss s) (program cfg f ss t)

section step
variable {cfg : Cfg} {names : List Str} {f : Nat} (ih : Obl cfg names f)
include ih

theorem exprs_step (es : List Expr) (s t : St) (hcw : Expr.CallsWithinL names es) (r : RelSt names s t) :
    RelR (RV names) (exprs cfg (f+1) es s) (exprs cfg (f+1) es t) := by
  cases es with
  | nil => simp only [exprs]; exact ⟨rfl, r⟩
  | cons e es =>
    simp only [Expr.CallsWithinL] at hcw
    simp only [exprs]
    refine RelR.bind (ih.expr e s t hcw.1 r) ?_
    rintro ⟨v, s1⟩ ⟨v', t1⟩ ⟨hv, r1⟩
    dsimp only at hv r1 ⊢; subst hv
    refine RelR.bind (ih.exprs es s1 t1 hcw.2 r1) ?_
    rintro ⟨vs, s2⟩ ⟨vs', t2⟩ ⟨hv, r2⟩
    dsimp only at hv r2 ⊢; subst hv
    exact ⟨rfl, r2⟩

theorem expr_step (e : Expr) (s t : St) (hcw : Expr.CallsWithin names e) (r : RelSt names s t) :
    RelR (RV names) (expr cfg (f+1) e s) (expr cfg (f+1) e t) := by
  cases e with
  | grouping e lp rp => simp only [Expr.CallsWithin] at hcw; simp only [expr]; exact ih.expr e s t hcw r
  | lit v tok => simp only [expr]; exact ⟨rfl, r⟩
  | binary l op rr tok =>
    simp only [Expr.CallsWithin] at hcw
    simp only [expr]
    refine RelR.bind (ih.expr l s t hcw.1 r) ?_
    rintro ⟨a, s1⟩ ⟨a', t1⟩ ⟨hv, r1⟩
    dsimp only at hv r1 ⊢; subst hv
    refine RelR.bind (ih.expr rr s1 t1 hcw.2 r1) ?_
    rintro ⟨b, s2⟩ ⟨b', t2⟩ ⟨hv, r2⟩
    dsimp only at hv r2 ⊢; subst hv
    exact relV_of_obl (fun σ P => binop_obl σ P op tok a b) r2
  | unary op rr tok =>
    simp only [Expr.CallsWithin] at hcw
    simp only [expr]
    refine RelR.bind (ih.expr rr s t hcw r) ?_
    rintro ⟨a, s1⟩ ⟨a', t1⟩ ⟨hv, r1⟩
    dsimp only at hv r1 ⊢; subst hv
    exact relV_of_obl (fun σ P => unop_obl σ P op tok a) r1
  | access l lt k lb rb =>
    simp only [Expr.CallsWithin] at hcw
    simp only [expr]
    refine RelR.bind (ih.expr l s t hcw.1 r) ?_
    rintro ⟨a, s1⟩ ⟨a', t1⟩ ⟨hv, r1⟩
    dsimp only at hv r1 ⊢; subst hv
    refine RelR.bind (ih.expr k s1 t1 hcw.2 r1) ?_
    rintro ⟨b, s2⟩ ⟨b', t2⟩ ⟨hv, r2⟩
    dsimp only at hv r2 ⊢; subst hv
    exact relV_of_obl (fun σ P => indexRead_obl σ P a b lt lb rb) r2
  | list items lb rb =>
    simp only [Expr.CallsWithin] at hcw
    simp only [expr]
    refine RelR.bind (ih.exprs items s t hcw r) ?_
    rintro ⟨vs, s1⟩ ⟨vs', t1⟩ ⟨hv, r1⟩
    dsimp only at hv r1 ⊢; subst hv
    exact relV_of_obl (F := fun σ => .ok (mkList σ vs)) (fun σ P => rfl) r1
  | var name tok =>
    simp only [expr]
    refine relV_of_obl (F := fun σ => match lookupVar σ name with
      | some v => .ok (v, σ)
      | none => rtErr "Invalid Variable" tok.span σ) (fun σ P => ?_) r
    simp only [lookupVar_withProcs]
    cases lookupVar σ name <;> rfl
  | assign name nt value arrow =>
    simp only [Expr.CallsWithin] at hcw
    simp only [expr]
    refine RelR.bind (ih.expr value s t hcw r) ?_
    rintro ⟨a, s1⟩ ⟨a', t1⟩ ⟨hv, r1⟩
    dsimp only at hv r1 ⊢; subst hv
    exact relV_of_obl (fun σ P => assignVar_obl σ P name a) r1
  | set l lt idx lb rb value arrow =>
    simp only [Expr.CallsWithin] at hcw
    simp only [expr]
    refine RelR.bind (ih.expr l s t hcw.1 r) ?_
    rintro ⟨a, s1⟩ ⟨a', t1⟩ ⟨hv, r1⟩
    dsimp only at hv r1 ⊢; subst hv
    refine RelR.bind (ih.expr idx s1 t1 hcw.2.1 r1) ?_
    rintro ⟨b, s2⟩ ⟨b', t2⟩ ⟨hv, r2⟩
    dsimp only at hv r2 ⊢; subst hv
    refine RelR.bind (ih.expr value s2 t2 hcw.2.2 r2) ?_
    rintro ⟨c, s3⟩ ⟨c', t3⟩ ⟨hv, r3⟩
    dsimp only at hv r3 ⊢; subst hv
    exact relV_of_obl (fun σ P => indexWrite_obl σ P a b c lt lb rb) r3
  | logical l op rr tok =>
    simp only [Expr.CallsWithin] at hcw
    simp only [expr]
    refine RelR.bind (ih.expr l s t hcw.1 r) ?_
    rintro ⟨a, s1⟩ ⟨a', t1⟩ ⟨hv, r1⟩
    dsimp only at hv r1 ⊢; subst hv
    cases op <;> dsimp only <;> split <;> first | exact ⟨rfl, r1⟩ | exact ih.expr rr s1 t1 hcw.2 r1
  | call name args spans tok lp rp =>
    simp only [Expr.CallsWithin] at hcw
    simp only [expr]
    refine RelR.bind (ih.exprs args s t hcw.2 r) ?_
    rintro ⟨vs, s1⟩ ⟨vs', t1⟩ ⟨hv, r1⟩
    dsimp only at hv r1 ⊢; subst hv
    obtain ⟨Q, rfl, ha, hc⟩ := r1
    simp only [withProcs_procs]
    rw [← ha name hcw.1]
    cases hf : s1.procs.find? name with
    | none => exact ⟨rfl, Q, rfl⟩
    | some p =>
      cases p with
      | native n =>
        dsimp only
        split
        · exact ⟨rfl, Q, rfl⟩
        · exact relV_of_obl (fun σ P => callNative_obl σ P cfg.chars n vs spans) ⟨Q, rfl, ha, hc⟩
      | user params body =>
        dsimp only
        split
        · exact ⟨rfl, Q, rfl⟩
        · have hb : body.CallsWithin names := hc name hcw.1 _ hf
          refine RelR.bind (ih.stmt body _ _ hb ⟨Q, rfl, ha, hc⟩) ?_
          intro s2 t2 r2
          obtain ⟨Q2, rfl, ha2, hc2⟩ := r2
          simp only [withProcs_scopes]
          cases s2.scopes with
          | nil => exact ⟨rfl, rfl⟩
          | cons fr rest => exact ⟨rfl, Q2, rfl, ha2, hc2⟩


theorem program_step (ss : List Stmt) (s t : St) (hcw : Stmt.CallsWithinL names ss) (r : RelSt names s t) :
    RelR (RelSt names) (program cfg (f+1) ss s) (program cfg (f+1) ss t) := by
  cases ss with
  | nil => simp only [program]; exact r
  | cons st ss =>
    simp only [Stmt.CallsWithinL] at hcw
    simp only [program]
    refine RelR.bind (ih.stmt st s t hcw.1 r) ?_
    intro s1 t1 r1
    exact ih.program ss s1 t1 hcw.2 r1

theorem block_step (ss : List Stmt) (s t : St) (hcw : Stmt.CallsWithinL names ss) (r : RelSt names s t) :
    RelR (RelSt names) (block cfg (f+1) ss s) (block cfg (f+1) ss t) := by
  cases ss with
  | nil => simp only [block]; exact r
  | cons st ss =>
    simp only [Stmt.CallsWithinL] at hcw
    simp only [block]
    have hp : pending t = pending s := by obtain ⟨Q, rfl, _, _⟩ := r; rfl
    rw [hp]
    cases pending s with
    | true => exact r
    | false =>
      simp only [Bool.false_eq_true, ↓reduceIte]
      refine RelR.bind (ih.stmt st s t hcw.1 r) ?_
      intro s1 t1 r1
      exact ih.block ss s1 t1 hcw.2 r1

theorem repeatLoop_step (k : Nat) (body : Stmt) (s t : St) (hcw : Stmt.CallsWithin names body)
    (r : RelSt names s t) :
    RelR (RelSt names) (repeatLoop cfg (f+1) k body s) (repeatLoop cfg (f+1) k body t) := by
  cases k with
  | zero => simp only [repeatLoop]; exact r
  | succ k =>
    simp only [repeatLoop]
    refine RelR.bind (ih.stmt body s t hcw r) ?_
    intro s1 t1 r1
    refine RelR.bind (relV_of_obl (fun σ P => afterBody_obl σ P false) r1) ?_
    rintro ⟨nxt, s2⟩ ⟨nxt', t2⟩ ⟨hv, r2⟩
    dsimp only at hv r2 ⊢; subst hv
    cases nxt with
    | stop => exact r2
    | again => exact ih.repeatLoop k body s2 t2 hcw r2

theorem untilLoop_step (c : Expr) (body : Stmt) (s t : St) (hc : Expr.CallsWithin names c)
    (hcw : Stmt.CallsWithin names body) (r : RelSt names s t) :
    RelR (RelSt names) (untilLoop cfg (f+1) c body s) (untilLoop cfg (f+1) c body t) := by
  simp only [untilLoop]
  refine RelR.bind (ih.expr c s t hc r) ?_
  rintro ⟨v, s0⟩ ⟨v', t0⟩ ⟨hv, r0⟩
  dsimp only at hv r0 ⊢; subst hv
  split
  · exact r0
  · refine RelR.bind (ih.stmt body s0 t0 hcw r0) ?_
    intro s1 t1 r1
    refine RelR.bind (relV_of_obl (fun σ P => afterBody_obl σ P true) r1) ?_
    rintro ⟨nxt, s2⟩ ⟨nxt', t2⟩ ⟨hv, r2⟩
    dsimp only at hv r2 ⊢; subst hv
    cases nxt with
    | stop => exact r2
    | again => exact ih.untilLoop c body s2 t2 hc hcw r2

theorem forLoop_step (item : Str) (a i len : Nat) (body : Stmt) (s t : St) (hcw : Stmt.CallsWithin names body)
    (r : RelSt names s t) :
    RelR (RelSt names) (forLoop cfg (f+1) item a i len body s) (forLoop cfg (f+1) item a i len body t) := by
  simp only [forLoop]
  split
  · exact r
  · have hg : getList t a = getList s a := by obtain ⟨Q, rfl, _, _⟩ := r; rfl
    rw [hg]
    cases (getList s a).bind (fun vs => vs[i]?) with
    | none => exact r
    | some v =>
      dsimp only
      refine RelR.bind (relS_of_obl (F := fun σ => define σ item v) (fun σ P => define_obl σ P item v) r) ?_
      intro s1 t1 r1
      refine RelR.bind (ih.stmt body s1 t1 hcw r1) ?_
      intro s2 t2 r2
      refine RelR.bind (relV_of_obl (fun σ P => forAfter_obl σ P) r2) ?_
      rintro ⟨nxt, s3⟩ ⟨nxt', t3⟩ ⟨hv, r3⟩
      dsimp only at hv r3 ⊢; subst hv
      cases nxt with
      | stop => exact r3
      | skip => exact ih.forLoop item a (i + 1) len body s3 t3 hcw r3
      | writeBack =>
        dsimp only
        refine RelR.bind (relV_of_obl (F := fun σ => removeVar σ item) (fun σ P => removeVar_obl σ P item) r3) ?_
        rintro ⟨cur, s4⟩ ⟨cur', t4⟩ ⟨hv, r4⟩
        dsimp only at hv r4 ⊢; subst hv
        refine ih.forLoop item a (i + 1) len body _ _ hcw ?_
        obtain ⟨Q, rfl, ha, hc⟩ := r4
        refine ⟨Q, writeBack_withProcs s4 Q a i cur, ?_, ?_⟩
        · have : (writeBack s4 a i cur).procs = s4.procs := by
            unfold writeBack; repeat' (first | rfl | split)
          rw [this]; exact ha
        · have : (writeBack s4 a i cur).procs = s4.procs := by
            unfold writeBack; repeat' (first | rfl | split)
          rw [this]; exact hc

theorem stmt_step (st : Stmt) (s t : St) (hcw : Stmt.CallsWithin names st) (r : RelSt names s t) :
    RelR (RelSt names) (stmt cfg (f+1) st s) (stmt cfg (f+1) st t) := by
  simp only [stmt]
  obtain ⟨Q, rfl, ha, hc⟩ := r
  rw [tick_withProcs]
  cases htick : tick s with
  | none => trivial
  | some s0 =>
    have hp0 : s0.procs = s.procs := by
      unfold tick at htick; split at htick
      · cases htick
      · injection htick with htick; subst htick; rfl
    have r0 : RelSt names s0 (s0.withProcs Q) := ⟨Q, rfl, hp0 ▸ ha, hp0 ▸ hc⟩
    simp only [Option.map_some]
    generalize s0.withProcs Q = t0 at r0
    clear htick hp0 ha hc
    cases st with
    | expr e =>
      simp only [Stmt.CallsWithin] at hcw
      dsimp only
      refine RelR.bind (ih.expr e s0 t0 hcw r0) ?_
      rintro ⟨v, s1⟩ ⟨v', t1⟩ ⟨hv, r1⟩
      exact r1
    | ifs c th el it et =>
      simp only [Stmt.CallsWithin] at hcw
      dsimp only
      refine RelR.bind (ih.expr c s0 t0 hcw.1 r0) ?_
      rintro ⟨v, s1⟩ ⟨v', t1⟩ ⟨hv, r1⟩
      dsimp only at hv r1 ⊢; subst hv
      split
      · exact ih.stmt th s1 t1 hcw.2.1 r1
      · cases el with
        | none => exact r1
        | some e => exact ih.stmt e s1 t1 hcw.2.2 r1
    | repeatTimes count body rt tt ct =>
      simp only [Stmt.CallsWithin] at hcw
      dsimp only
      refine RelR.bind (ih.expr count s0 t0 hcw.1 r0) ?_
      rintro ⟨v, s1⟩ ⟨v', t1⟩ ⟨hv, r1⟩
      dsimp only at hv r1 ⊢; subst hv
      obtain ⟨Q1, rfl, ha1, hc1⟩ := r1
      cases v with
      | num n =>
        dsimp only
        refine RelR.bind (ih.repeatLoop (countOf n) body _ _ hcw.2 ⟨Q1, rfl, ha1, hc1⟩) ?_
        intro s2 t2 r2
        exact relS_of_obl (fun σ P => popLoop_obl σ P) r2
      | _ => exact ⟨rfl, Q1, rfl⟩
    | repeatUntil cond body rt ut =>
      simp only [Stmt.CallsWithin] at hcw
      dsimp only
      obtain ⟨Q1, rfl, ha1, hc1⟩ := r0
      refine RelR.bind (ih.untilLoop cond body _ _ hcw.1 hcw.2 ⟨Q1, rfl, ha1, hc1⟩) ?_
      intro s2 t2 r2
      exact relS_of_obl (fun σ P => popLoop_obl σ P) r2
    | forEach item itok list body ft et int lt =>
      simp only [Stmt.CallsWithin] at hcw
      dsimp only
      refine RelR.bind (ih.expr list s0 t0 hcw.1 r0) ?_
      rintro ⟨v, s1⟩ ⟨v', t1⟩ ⟨hv, r1⟩
      dsimp only at hv r1 ⊢; subst hv
      refine RelR.bind (R := RV names) ?_ ?_
      · refine relV_of_obl (F := fun σ => (match v with
          | .list a => .ok (a, σ)
          | .str s => .ok ((allocCell σ (.list ((StrOps.charsToStrs s).map Value.str))).1,
              (allocCell σ (.list ((StrOps.charsToStrs s).map Value.str))).2)
          | _ => rtErr "Invalid Iterator" lt.span σ : Res (Nat × St))) (fun σ P => ?_) r1
        cases v <;> rfl
      rintro ⟨a, s2⟩ ⟨a', t2⟩ ⟨hv, r2⟩
      dsimp only at hv r2 ⊢; subst hv
      refine RelR.bind (relV_of_obl (F := fun σ => removeVar σ item) (fun σ P => removeVar_obl σ P item) r2) ?_
      rintro ⟨cached, s3⟩ ⟨cached', t3⟩ ⟨hv, r3⟩
      dsimp only at hv r3 ⊢; subst hv
      obtain ⟨Q3, rfl, ha3, hc3⟩ := r3
      simp only [getList_withProcs, withProcs_out, withProcs_loops]
      refine RelR.bind (R := Eq) ?_ ?_
      · cases getList s3 a with
        | none => exact ⟨rfl, rfl⟩
        | some vs => exact rfl
      rintro len _ rfl
      refine RelR.bind (ih.forLoop item a 0 len body _ _ hcw.2 ⟨Q3, rfl, ha3, hc3⟩) ?_
      intro s4 t4 r4
      refine RelR.bind (relS_of_obl (fun σ P => popLoop_obl σ P) r4) ?_
      intro s5 t5 r5
      cases cached with
      | none => exact r5
      | some cv => exact relS_of_obl (F := fun σ => define σ item cv) (fun σ P => define_obl σ P item cv) r5
    | procDecl name params body exported pt nt =>
      simp only [Stmt.CallsWithin] at hcw
      dsimp only
      obtain ⟨Q1, rfl, ha1, hc1⟩ := r0
      exact ⟨Q1.insert name (Proc.user (params.map (·.1)) body), rfl, agreeOn_insert ha1 _ _,
        closed_insert hc1 _ _ hcw⟩
    | ret tok value =>
      cases value with
      | none =>
        dsimp only
        obtain ⟨Q1, rfl, ha1, hc1⟩ := r0
        exact ⟨Q1, rfl, ha1, hc1⟩
      | some e =>
        simp only [Stmt.CallsWithin] at hcw
        dsimp only
        refine RelR.bind (ih.expr e s0 t0 hcw r0) ?_
        rintro ⟨v, s1⟩ ⟨v', t1⟩ ⟨hv, r1⟩
        dsimp only at hv r1 ⊢; subst hv
        obtain ⟨Q1, rfl, ha1, hc1⟩ := r1
        exact ⟨Q1, rfl, ha1, hc1⟩
    | cont tok =>
      dsimp only
      obtain ⟨Q1, rfl, ha1, hc1⟩ := r0
      simp only [withProcs_loops, withProcs_out]
      cases s0.loops with
      | nil => exact ⟨rfl, rfl⟩
      | cons lc rest => exact ⟨Q1, rfl, ha1, hc1⟩
    | brk tok =>
      dsimp only
      obtain ⟨Q1, rfl, ha1, hc1⟩ := r0
      simp only [withProcs_loops, withProcs_out]
      cases s0.loops with
      | nil => exact ⟨rfl, rfl⟩
      | cons lc rest => exact ⟨Q1, rfl, ha1, hc1⟩
    | block lb ss rb =>
      simp only [Stmt.CallsWithin] at hcw
      dsimp only
      refine RelR.bind (relS_of_obl (fun σ P => createNested_obl σ P) r0) ?_
      intro s1 t1 r1
      refine RelR.bind (ih.block ss s1 t1 hcw r1) ?_
      intro s2 t2 r2
      exact relS_of_obl (fun σ P => flattenNested_obl σ P) r2
    | import_ it mt ft only mn => simp only [Stmt.CallsWithin] at hcw

end step


theorem obl_zero (cfg : Cfg) (names : List Str) : Obl cfg names 0 where
  expr := by intro e s t _ _; simp only [expr]; trivial
  exprs := by
    intro es s t _ r
    cases es with
    | nil => simp only [exprs]; exact ⟨rfl, r⟩
    | cons e es => simp only [exprs]; trivial
  stmt := by intro st s t _ _; simp only [stmt]; trivial
  block := by
    intro ss s t _ r
    cases ss with
    | nil => simp only [block]; exact r
    | cons st ss =>
      simp only [block]
      have hp : pending t = pending s := by obtain ⟨Q, rfl, _, _⟩ := r; rfl
      rw [hp]
      cases pending s with
      | true => exact r
      | false => trivial
  repeatLoop := by
    intro k body s t _ r
    cases k with
    | zero => simp only [repeatLoop]; exact r
    | succ k => simp only [repeatLoop]; trivial
  untilLoop := by intro c body s t _ _ _; simp only [untilLoop]; trivial
  forLoop := by intro item a i len body s t _ _; simp only [forLoop]; trivial
  program := by
    intro ss s t _ r
    cases ss with
    | nil => simp only [program]; exact r
    | cons st ss => simp only [program]; trivial

/-- evaluation depends on the procedure table only through the lookups of the names in `names` -/
theorem obl_all (cfg : Cfg) (names : List Str) : ∀ f, Obl cfg names f
  | 0 => obl_zero cfg names
  | f+1 =>
    have ih := obl_all cfg names f
    { expr := expr_step ih, exprs := exprs_step ih, stmt := stmt_step ih, block := block_step ih,
      repeatLoop := repeatLoop_step ih, untilLoop := untilLoop_step ih, forLoop := forLoop_step ih,
      program := program_step ih }

end Aplang
