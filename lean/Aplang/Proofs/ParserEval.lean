import Aplang.Proofs.ParserSound
/-!
# Forward evaluation of the parser model (lemmas for C05 / C09 completeness statements)

Equations that compute the cursor primitives on a state whose next token is known.
-/
namespace Aplang
namespace P

theorem isAtEnd_eq {s : PState} {t r} (h : s.after = t :: r) : isAtEnd s = .ok (t.tt == .eof) s := by
  simp [isAtEnd, peek, h]

theorem check_eq (tt : TT) {s : PState} {t r} (h : s.after = t :: r) :
    check tt s = .ok (!(t.tt == .eof) && t.tt == tt) s := by
  unfold check
  rw [isAtEnd_eq h]
  cases he : (t.tt == TT.eof) <;> simp [peek, h]

theorem advance_eq {s : PState} {t r} (h : s.after = t :: r) (hne : t.tt ≠ .eof) :
    advance s = .ok t (adv s t r) := by
  unfold advance
  rw [isAtEnd_eq h]
  have : (t.tt == TT.eof) = false := by simpa using hne
  simp [this, h, previous]

theorem matchToken_hit {s : PState} {t r} {tt : TT} (h : s.after = t :: r) (htt : t.tt = tt) (hne : tt ≠ .eof) :
    matchToken tt s = .ok (some t) (adv s t r) := by
  unfold matchToken
  rw [check_eq tt h]
  have h1 : (t.tt == TT.eof) = false := by rw [htt]; simpa using hne
  have h2 : (t.tt == tt) = true := by simpa using htt
  simp [h1, h2, advance_eq h (by rw [htt]; exact hne)]

theorem matchToken_miss {s : PState} {t r} {tt : TT} (h : s.after = t :: r) (htt : t.tt ≠ tt) :
    matchToken tt s = .ok none s := by
  unfold matchToken
  rw [check_eq tt h]
  have h2 : (t.tt == tt) = false := by simpa using htt
  simp [h2]

theorem matchTokens_miss {s : PState} {t r} : ∀ {tts : List TT}, s.after = t :: r → t.tt ∉ tts →
    matchTokens tts s = .ok none s
  | [], _, _ => rfl
  | tt :: tts, h, hn => by
    unfold matchTokens
    rw [matchToken_miss h (by intro e; exact hn (by simp [e]))]
    simp only [PRes.bind_ok]
    exact matchTokens_miss h (by intro e; exact hn (List.mem_cons_of_mem _ e))

theorem matchTokens_hit {s : PState} {t r} : ∀ {tts : List TT}, s.after = t :: r → t.tt ∈ tts → t.tt ≠ .eof →
    matchTokens tts s = .ok (some t) (adv s t r)
  | [], _, hm, _ => by simp at hm
  | tt :: tts, h, hm, hne => by
    unfold matchTokens
    by_cases e : t.tt = tt
    · rw [matchToken_hit h e (by rw [← e]; exact hne)]; rfl
    · rw [matchToken_miss h e]
      simp only [PRes.bind_ok]
      exact matchTokens_hit h (by simpa [e] using hm) hne

theorem consume_hit {s : PState} {t r} {tt : TT} (rep) (h : s.after = t :: r) (htt : t.tt = tt) (hne : tt ≠ .eof) :
    consume tt rep s = .ok t (adv s t r) := by
  unfold consume
  simp [peek, h, htt, advance_eq h (by rw [htt]; exact hne)]

/-- `primary` on a `(`: the parenthesised-expression branch -/
theorem primary_lparen (f : Nat) {s : PState} {lp r} (h : s.after = lp :: r) (hlp : lp.tt = .leftParen) :
    primary (f+1) s =
      (expression f (adv s lp r)).bind fun e s =>
      (consume .rightParen (fun t => err1 "missing_lp" [t.span]) s).bind fun rp s =>
      .ok (.grouping e lp rp) s := by
  simp only [P.primary]
  rw [matchToken_miss h (by rw [hlp]; decide)]; simp only [PRes.bind_ok]
  rw [matchToken_miss h (by rw [hlp]; decide)]; simp only [PRes.bind_ok]
  rw [matchToken_miss h (by rw [hlp]; decide)]; simp only [PRes.bind_ok]
  rw [matchToken_miss h (by rw [hlp]; decide)]; simp only [PRes.bind_ok]
  rw [matchToken_miss h (by rw [hlp]; decide)]; simp only [PRes.bind_ok]
  rw [matchToken_miss h (by rw [hlp]; decide)]; simp only [PRes.bind_ok]
  rw [matchToken_hit h hlp (by decide)]; simp only [PRes.bind_ok]

end P
end Aplang
