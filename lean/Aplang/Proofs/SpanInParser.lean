import Aplang.Proofs.SpanInBasics
/-!
# What the parser stores and what it labels comes from its input (for C11, first sentence)

If every token of the input list is `TokIn pos` (both ends of its range are good positions), then

* every token and every argument span of every tree the parser returns is in (`ExprIn` / `StmtIn`), and
* every label of every syntax diagnostic is in (`LabelsIn`),

for every fuel. The parser stores and labels only tokens it has seen (`peek`, `previous`, the matched /
consumed token) and ranges between two of them (`spanBetween`), which are in whatever the order of the two
tokens (`spanBetween_in`).

Proof shape as in `Proofs/ParserSafe`: one triple `PIn` covering the successful *and* the failing outcome, the
invariant `AllIn` (all tokens on both sides of the cursor are in), a structure of statements per fuel.
-/
namespace Aplang
namespace P

section
variable (pos : Nat → Prop)

/-- every token on either side of the cursor is in -/
def AllIn (s : PState) : Prop := (∀ t ∈ s.before, TokIn pos t) ∧ (∀ t ∈ s.after, TokIn pos t)

/-- every label of the diagnostic is in -/
def LabelsIn (e : PErr) : Prop := ∀ l ∈ e.labels, SpIn pos l

/-- the successful result satisfies `Q`, the diagnostic of a failing one is labelled inside; both leave a
state whose tokens are in -/
def PIn {α} (r : PRes α) (Q : α → Prop) : Prop :=
  match r with
  | .ok a s' => AllIn pos s' ∧ Q a
  | .err e s' => AllIn pos s' ∧ LabelsIn pos e
  | .panic _ => True
  | .fuel => True

end

section
variable {pos : Nat → Prop}

theorem PIn.bind {α β} {r : PRes α} {k : α → PState → PRes β} {Q : α → Prop} {Q' : β → Prop}
    (h1 : PIn pos r Q) (h2 : ∀ a s', AllIn pos s' → Q a → PIn pos (k a s') Q') : PIn pos (r.bind k) Q' := by
  cases r with
  | ok a s' => exact h2 a s' h1.1 h1.2
  | err e s' => exact h1
  | panic m => trivial
  | fuel => trivial

theorem PIn.mono {α} {r : PRes α} {Q Q' : α → Prop} (h : PIn pos r Q) (hq : ∀ a, Q a → Q' a) : PIn pos r Q' := by
  cases r with
  | ok a s' => exact ⟨h.1, hq a h.2⟩
  | err e s' => exact h
  | panic m => trivial
  | fuel => trivial

theorem PIn.ok {α} {s : PState} {a : α} {Q : α → Prop} (hs : AllIn pos s) (q : Q a) : PIn pos (.ok a s) Q := ⟨hs, q⟩
theorem PIn.err {α} {s : PState} {e : PErr} {Q : α → Prop} (hs : AllIn pos s) (h : LabelsIn pos e) :
    PIn pos (.err e s : PRes α) Q := ⟨hs, h⟩
theorem PIn.fuel {α} {Q : α → Prop} : PIn pos (.fuel : PRes α) Q := trivial

theorem LabelsIn.nil (code : String) : LabelsIn pos (err1 code []) := by intro l hl; cases hl
theorem LabelsIn.one (code : String) {a : Span} (ha : SpIn pos a) : LabelsIn pos (err1 code [a]) := by
  intro l hl; simp only [err1, List.mem_singleton] at hl; subst hl; exact ha
theorem LabelsIn.two (code : String) {a b : Span} (ha : SpIn pos a) (hb : SpIn pos b) :
    LabelsIn pos (err1 code [a, b]) := by
  intro l hl
  simp only [err1, List.mem_cons, List.not_mem_nil, or_false] at hl
  rcases hl with rfl | rfl
  · exact ha
  · exact hb

theorem AllIn.adv {s : PState} {t : Token} {r : List Token} (hs : AllIn pos s) (h : s.after = t :: r) :
    AllIn pos { s with before := t :: s.before, after := r } := by
  refine ⟨?_, fun x hx => hs.2 x (by rw [h]; exact List.mem_cons_of_mem _ hx)⟩
  intro x hx
  rcases List.mem_cons.mp hx with rfl | hx
  · exact hs.2 x (by rw [h]; exact List.mem_cons_self)
  · exact hs.1 x hx

theorem AllIn.flags {s : PState} (hs : AllIn pos s) (a b : Bool) : AllIn pos { s with inFn := a, inLoop := b } := hs
theorem AllIn.inLoop {s : PState} (hs : AllIn pos s) (b : Bool) : AllIn pos { s with inLoop := b } := hs

/-! ## cursor primitives -/

theorem peek_in {s : PState} (hs : AllIn pos s) : PIn pos (peek s) (TokIn pos) := by
  unfold peek
  cases h : s.after with
  | nil => trivial
  | cons t r => exact ⟨hs, hs.2 t (by rw [h]; exact List.mem_cons_self)⟩

theorem previous_in {s : PState} (hs : AllIn pos s) : PIn pos (previous s) (TokIn pos) := by
  unfold previous
  cases h : s.before with
  | nil => trivial
  | cons t r => exact ⟨hs, hs.1 t (by rw [h]; exact List.mem_cons_self)⟩

theorem isAtEnd_in {s : PState} (hs : AllIn pos s) : PIn pos (isAtEnd s) (fun _ => True) := by
  unfold isAtEnd
  exact (peek_in hs).bind (fun t s' h' _ => PIn.ok h' trivial)

theorem advance_in {s : PState} (hs : AllIn pos s) : PIn pos (advance s) (TokIn pos) := by
  unfold advance
  apply (isAtEnd_in hs).bind
  intro e s' h' _
  split
  · exact previous_in h'
  · cases h : s'.after with
    | nil => trivial
    | cons t r => exact previous_in (h'.adv h)

theorem check_in {s : PState} (hs : AllIn pos s) (tt : TT) : PIn pos (check tt s) (fun _ => True) := by
  unfold check
  apply (isAtEnd_in hs).bind
  intro e s' h' _
  split
  · exact PIn.ok h' trivial
  · exact (peek_in h').bind (fun t s'' h'' _ => PIn.ok h'' trivial)

theorem matchToken_in {s : PState} (hs : AllIn pos s) (tt : TT) : PIn pos (matchToken tt s) (OptTokIn pos) := by
  unfold matchToken
  apply (check_in hs tt).bind
  intro c s' h' _
  split
  · exact (advance_in h').bind (fun t s'' h'' ht => PIn.ok h'' ht)
  · exact PIn.ok h' trivial

theorem matchTokens_in : ∀ (tts : List TT) {s : PState}, AllIn pos s → PIn pos (matchTokens tts s) (OptTokIn pos)
  | [], s, hs => PIn.ok hs trivial
  | tt :: tts, s, hs => by
    unfold matchTokens
    apply (matchToken_in hs tt).bind
    intro m s' h' hm
    cases m with
    | some t => exact PIn.ok h' hm
    | none => exact matchTokens_in tts h'

theorem consume_in {s : PState} (hs : AllIn pos s) (tt : TT) (rep : Token → PErr)
    (hrep : ∀ t, TokIn pos t → LabelsIn pos (rep t)) : PIn pos (consume tt rep s) (TokIn pos) := by
  unfold consume
  apply (peek_in hs).bind
  intro t s' h' ht
  split
  · exact advance_in h'
  · exact PIn.err h' (hrep t ht)

theorem confirm_in {s : PState} (hs : AllIn pos s) (tt : TT) : PIn pos (confirm tt s) (fun _ => True) := by
  unfold confirm
  apply (previous_in hs).bind
  intro t s' h' _
  split
  · exact PIn.ok h' trivial
  · exact PIn.err h' (by intro l hl; cases hl)

/-- the usual shapes of `report` -/
theorem rep_nil (code : String) : ∀ t : Token, TokIn pos t → LabelsIn pos ((fun _ => err1 code []) t) :=
  fun _ _ => LabelsIn.nil code
theorem rep_one (code : String) : ∀ t : Token, TokIn pos t → LabelsIn pos ((fun t => err1 code [t.span]) t) :=
  fun _ ht => LabelsIn.one code ht.span
theorem rep_two (code : String) {x : Token} (hx : TokIn pos x) :
    ∀ t : Token, TokIn pos t → LabelsIn pos ((fun t => err1 code [t.span, x.span]) t) :=
  fun _ ht => LabelsIn.two code ht.span hx.span
theorem rep_two' (code : String) {x : Token} (hx : TokIn pos x) :
    ∀ t : Token, TokIn pos t → LabelsIn pos ((fun t => err1 code [x.span, t.span]) t) :=
  fun _ ht => LabelsIn.two code hx.span ht.span

/-! ## the expression ladder -/

variable (pos) in
structure ExprPIn (f : Nat) : Prop where
  expression : ∀ s, AllIn pos s → PIn pos (expression f s) (ExprIn pos)
  assignment : ∀ s, AllIn pos s → PIn pos (assignment f s) (ExprIn pos)
  orE : ∀ s, AllIn pos s → PIn pos (orE f s) (ExprIn pos)
  orLoop : ∀ l s, ExprIn pos l → AllIn pos s → PIn pos (orLoop f l s) (ExprIn pos)
  andE : ∀ s, AllIn pos s → PIn pos (andE f s) (ExprIn pos)
  andLoop : ∀ l s, ExprIn pos l → AllIn pos s → PIn pos (andLoop f l s) (ExprIn pos)
  binLevel : ∀ lvl s, AllIn pos s → PIn pos (binLevel f lvl s) (ExprIn pos)
  binLoop : ∀ lvl l s, ExprIn pos l → AllIn pos s → PIn pos (binLoop f lvl l s) (ExprIn pos)
  unary : ∀ s, AllIn pos s → PIn pos (unary f s) (ExprIn pos)
  access : ∀ s, AllIn pos s → PIn pos (access f s) (ExprIn pos)
  accessLoop : ∀ t e s, TokIn pos t → ExprIn pos e → AllIn pos s → PIn pos (accessLoop f t e s) (ExprIn pos)
  primary : ∀ s, AllIn pos s → PIn pos (primary f s) (ExprIn pos)
  callArgs : ∀ a t s, ExprsIn pos a → (∀ x ∈ t, TokIn pos x) → AllIn pos s →
    PIn pos (callArgs f a t s) (fun r => ExprsIn pos r.1 ∧ ∀ x ∈ r.2, TokIn pos x)
  listItems : ∀ a s, ExprsIn pos a → AllIn pos s → PIn pos (listItems f a s) (ExprsIn pos)

theorem exprPIn_zero : ExprPIn pos 0 := by
  constructor <;> intros <;> simp only [P.expression, P.assignment, P.orE, P.orLoop, P.andE, P.andLoop,
    P.binLevel, P.binLoop, P.unary, P.access, P.accessLoop, P.primary, P.callArgs, P.listItems] <;> exact PIn.fuel

theorem mem_snoc_in {ts : List Token} {t : Token} (h1 : ∀ x ∈ ts, TokIn pos x) (h2 : TokIn pos t) :
    ∀ x ∈ ts ++ [t], TokIn pos x := by
  intro x hx
  rcases List.mem_append.mp hx with hx | hx
  · exact h1 x hx
  · rw [List.mem_singleton.mp hx]; exact h2

section step
variable {f : Nat} (ih : ExprPIn pos f)
include ih

theorem expression_pstep (s) (hs : AllIn pos s) : PIn pos (expression (f+1) s) (ExprIn pos) := by
  simp only [P.expression]; exact ih.assignment s hs

theorem assignment_pstep (s) (hs : AllIn pos s) : PIn pos (assignment (f+1) s) (ExprIn pos) := by
  simp only [P.assignment]
  apply (ih.orE s hs).bind
  intro e s1 h1 he
  apply (previous_in h1).bind
  intro exprTok s2 h2 het
  apply (matchToken_in h2 .arrow).bind
  intro m s3 h3 hm
  cases m with
  | none => exact PIn.ok h3 he
  | some arrow =>
    apply (ih.assignment s3 h3).bind
    intro value s4 h4 hv
    cases e with
    | var name tok => exact PIn.ok h4 (by simp only [ExprIn] at he ⊢; exact ⟨hv, he, hm⟩)
    | access l lt k lb rb =>
      refine PIn.ok h4 ?_
      simp only [ExprIn] at he ⊢
      exact ⟨he.1, he.2.1, hv, he.2.2.1, he.2.2.2.1, he.2.2.2.2, hm⟩
    | _ => exact PIn.err h4 (LabelsIn.two _ (TokIn.span hm) het.span)

theorem orE_pstep (s) (hs : AllIn pos s) : PIn pos (orE (f+1) s) (ExprIn pos) := by
  simp only [P.orE]
  apply (ih.andE s hs).bind
  intro e s1 h1 he
  exact ih.orLoop e s1 he h1

theorem orLoop_pstep (l s) (hl : ExprIn pos l) (hs : AllIn pos s) : PIn pos (orLoop (f+1) l s) (ExprIn pos) := by
  simp only [P.orLoop]
  apply (matchToken_in hs .or_).bind
  intro m s1 h1 hm
  cases m with
  | none => exact PIn.ok h1 hl
  | some tok =>
    apply (ih.andE s1 h1).bind
    intro right s2 h2 hr
    exact ih.orLoop _ s2 (by simp only [ExprIn]; exact ⟨hl, hr, hm⟩) h2

theorem andE_pstep (s) (hs : AllIn pos s) : PIn pos (andE (f+1) s) (ExprIn pos) := by
  simp only [P.andE]
  apply (ih.binLevel .equality s hs).bind
  intro e s1 h1 he
  exact ih.andLoop e s1 he h1

theorem andLoop_pstep (l s) (hl : ExprIn pos l) (hs : AllIn pos s) : PIn pos (andLoop (f+1) l s) (ExprIn pos) := by
  simp only [P.andLoop]
  apply (matchToken_in hs .and_).bind
  intro m s1 h1 hm
  cases m with
  | none => exact PIn.ok h1 hl
  | some tok =>
    apply (ih.andE s1 h1).bind
    intro right s2 h2 hr
    exact ih.andLoop _ s2 (by simp only [ExprIn]; exact ⟨hl, hr, hm⟩) h2

theorem operand_in (lvl : BinLevel) (s) (hs : AllIn pos s) :
    PIn pos (match lvl.next with | some n => binLevel f n s | none => unary f s) (ExprIn pos) := by
  cases lvl.next with
  | some n => exact ih.binLevel n s hs
  | none => exact ih.unary s hs

theorem binLevel_pstep (lvl s) (hs : AllIn pos s) : PIn pos (binLevel (f+1) lvl s) (ExprIn pos) := by
  simp only [P.binLevel]
  apply (operand_in ih lvl s hs).bind
  intro e s1 h1 he
  exact ih.binLoop lvl e s1 he h1

theorem binLoop_pstep (lvl l s) (hl : ExprIn pos l) (hs : AllIn pos s) :
    PIn pos (binLoop (f+1) lvl l s) (ExprIn pos) := by
  simp only [P.binLoop]
  apply (matchTokens_in lvl.ops hs).bind
  intro m s1 h1 hm
  cases m with
  | none => exact PIn.ok h1 hl
  | some tok =>
    apply (operand_in ih lvl s1 h1).bind
    intro right s2 h2 hr
    cases toBinOp tok.tt with
    | some op => exact ih.binLoop lvl _ s2 (by simp only [ExprIn]; exact ⟨hl, hr, hm⟩) h2
    | none => exact PIn.err h2 (LabelsIn.nil _)

theorem unary_pstep (s) (hs : AllIn pos s) : PIn pos (unary (f+1) s) (ExprIn pos) := by
  simp only [P.unary]
  apply (matchTokens_in [.not_, .minus] hs).bind
  intro m s1 h1 hm
  cases m with
  | none => exact ih.access s1 h1
  | some tok =>
    apply (ih.unary s1 h1).bind
    intro right s2 h2 hr
    cases toUnOp tok.tt with
    | some op => exact PIn.ok h2 (by simp only [ExprIn]; exact ⟨hr, hm⟩)
    | none => exact PIn.err h2 (LabelsIn.nil _)

theorem access_pstep (s) (hs : AllIn pos s) : PIn pos (access (f+1) s) (ExprIn pos) := by
  simp only [P.access]
  apply (ih.primary s hs).bind
  intro e s1 h1 he
  apply (previous_in h1).bind
  intro t s2 h2 ht
  exact ih.accessLoop t e s2 ht he h2

theorem accessLoop_pstep (t e s) (ht : TokIn pos t) (he : ExprIn pos e) (hs : AllIn pos s) :
    PIn pos (accessLoop (f+1) t e s) (ExprIn pos) := by
  simp only [P.accessLoop]
  apply (matchToken_in hs .leftBracket).bind
  intro m s1 h1 hm
  cases m with
  | none => exact PIn.ok h1 he
  | some lb =>
    apply (ih.expression s1 h1).bind
    intro index s2 h2 hi
    apply (consume_in h2 .rightBracket _ (rep_one _)).bind
    intro rb s3 h3 hrb
    exact ih.accessLoop t _ s3 ht (by simp only [ExprIn]; exact ⟨he, hi, ht, hm, hrb⟩) h3

theorem callArgs_pstep (a t s) (ha : ExprsIn pos a) (ht : ∀ x ∈ t, TokIn pos x) (hs : AllIn pos s) :
    PIn pos (callArgs (f+1) a t s) (fun r => ExprsIn pos r.1 ∧ ∀ x ∈ r.2, TokIn pos x) := by
  simp only [P.callArgs]
  split
  · exact PIn.err hs (LabelsIn.nil _)
  · apply (ih.expression s hs).bind
    intro e s1 h1 he
    apply (peek_in h1).bind
    intro nxt s2 h2 hn
    apply (matchToken_in h2 .comma).bind
    intro m s3 h3 _
    cases m with
    | some c => exact ih.callArgs _ _ s3 (ExprsIn_snoc ha he) (mem_snoc_in ht hn) h3
    | none => exact PIn.ok h3 ⟨ExprsIn_snoc ha he, mem_snoc_in ht hn⟩

theorem listItems_pstep (a s) (ha : ExprsIn pos a) (hs : AllIn pos s) :
    PIn pos (listItems (f+1) a s) (ExprsIn pos) := by
  simp only [P.listItems]
  apply (ih.expression s hs).bind
  intro e s1 h1 he
  apply (matchToken_in h1 .comma).bind
  intro m s2 h2 _
  cases m with
  | some c => exact ih.listItems _ s2 (ExprsIn_snoc ha he) h2
  | none => exact PIn.ok h2 (ExprsIn_snoc ha he)

theorem primary_pstep (s) (hs : AllIn pos s) : PIn pos (primary (f+1) s) (ExprIn pos) := by
  simp only [P.primary]
  apply (matchToken_in hs .true_).bind
  intro m s1 h1 hm
  cases m with
  | some tok => exact PIn.ok h1 hm
  | none =>
  apply (matchToken_in h1 .false_).bind
  intro m s2 h2 hm
  cases m with
  | some tok => exact PIn.ok h2 hm
  | none =>
  apply (matchToken_in h2 .null).bind
  intro m s3 h3 hm
  cases m with
  | some tok => exact PIn.ok h3 hm
  | none =>
  apply (matchToken_in h3 .stringLiteral).bind
  intro m s4 h4 hm
  cases m with
  | some tok =>
    dsimp only
    split
    · exact PIn.ok h4 hm
    · trivial
    · trivial
  | none =>
  apply (matchToken_in h4 .number).bind
  intro m s5 h5 hm
  cases m with
  | some tok =>
    dsimp only
    split
    · exact PIn.ok h5 hm
    · trivial
    · trivial
  | none =>
  apply (matchToken_in h5 .identifier).bind
  intro m s6 h6 hm
  cases m with
  | some tok =>
    apply (matchToken_in h6 .leftParen).bind
    intro m s7 h7 hlp
    cases m with
    | none => exact PIn.ok h7 hm
    | some lp =>
      apply (check_in h7 .rightParen).bind
      intro c s8 h8 _
      have hargs : PIn pos (if c = true then PRes.ok ([], [lp]) s8 else callArgs f [] [lp] s8)
          (fun r => ExprsIn pos r.1 ∧ ∀ x ∈ r.2, TokIn pos x) := by
        have hlp' : ∀ x ∈ [lp], TokIn pos x := by
          intro x hx; rw [List.mem_singleton.mp hx]; exact hlp
        split
        · exact PIn.ok h8 ⟨trivial, hlp'⟩
        · exact ih.callArgs _ _ s8 trivial hlp' h8
      apply hargs.bind
      intro at_ s9 h9 hat
      obtain ⟨args, argToks⟩ := at_
      apply (consume_in h9 .rightParen _ (rep_one _)).bind
      intro rp s10 h10 hrp
      refine PIn.ok h10 ?_
      simp only [ExprIn]
      exact ⟨hat.1, windowSpans_in argToks hat.2, hm, hlp, hrp⟩
  | none =>
  apply (matchToken_in h6 .leftParen).bind
  intro m s7 h7 hlp
  cases m with
  | some lp =>
    apply (ih.expression s7 h7).bind
    intro e s8 h8 he
    apply (consume_in h8 .rightParen _ (rep_one _)).bind
    intro rp s9 h9 hrp
    exact PIn.ok h9 (by simp only [ExprIn]; exact ⟨he, hlp, hrp⟩)
  | none =>
  apply (matchToken_in h7 .leftBracket).bind
  intro m s8 h8 hlb
  cases m with
  | some lb =>
    apply (check_in h8 .rightBracket).bind
    intro c s9 h9 _
    have hitems : PIn pos (if c = true then PRes.ok [] s9 else listItems f [] s9) (ExprsIn pos) := by
      split
      · exact PIn.ok h9 trivial
      · exact ih.listItems _ s9 trivial h9
    apply hitems.bind
    intro items s10 h10 hit
    apply (consume_in h10 .rightBracket _ (rep_one _)).bind
    intro rb s11 h11 hrb
    exact PIn.ok h11 (by simp only [ExprIn]; exact ⟨hit, hlb, hrb⟩)
  | none =>
    apply (peek_in h8).bind
    intro t s9 h9 ht
    exact PIn.err h9 (LabelsIn.one _ ht.span)

end step

theorem exprPIn : ∀ f, ExprPIn pos f
  | 0 => exprPIn_zero
  | f+1 =>
    have ih := exprPIn f
    { expression := expression_pstep ih, assignment := assignment_pstep ih, orE := orE_pstep ih,
      orLoop := orLoop_pstep ih, andE := andE_pstep ih, andLoop := andLoop_pstep ih,
      binLevel := binLevel_pstep ih, binLoop := binLoop_pstep ih, unary := unary_pstep ih,
      access := access_pstep ih, accessLoop := accessLoop_pstep ih, primary := primary_pstep ih,
      callArgs := callArgs_pstep ih, listItems := listItems_pstep ih }

theorem expression_in (f s) (hs : AllIn pos s) : PIn pos (expression f s) (ExprIn pos) :=
  (exprPIn f).expression s hs

/-! ## statements without sub-statements -/

theorem terminator_in (code lab s) (hs : AllIn pos s) : PIn pos (terminator code lab s) (fun _ => True) := by
  unfold terminator
  apply (isAtEnd_in hs).bind
  intro e s1 h1 _
  split
  · exact PIn.ok h1 trivial
  · apply (check_in h1 .rightBrace).bind
    intro c s2 h2 _
    split
    · exact PIn.ok h2 trivial
    · refine (consume_in h2 .softSemi _ ?_).bind (fun _ s3 h3 _ => PIn.ok h3 trivial)
      intro t ht
      cases lab
      · exact LabelsIn.nil _
      · exact LabelsIn.one _ ht.span

/-- the statements produced satisfy `StmtIn pos (fun _ => True)`: all tokens in, no condition on IMPORT -/
abbrev SIn (pos : Nat → Prop) : Stmt → Prop := StmtIn pos (fun _ => True)

theorem expressionStatement_in (f s) (hs : AllIn pos s) : PIn pos (expressionStatement f s) (SIn pos) := by
  unfold expressionStatement
  apply (expression_in f s hs).bind
  intro e s1 h1 he
  apply (terminator_in _ _ s1 h1).bind
  intro _ s2 h2 _
  exact PIn.ok h2 (by simpa only [SIn, StmtIn] using he)

theorem returnStatement_in (f tok s) (ht : TokIn pos tok) (hs : AllIn pos s) :
    PIn pos (returnStatement f tok s) (SIn pos) := by
  unfold returnStatement
  split
  · exact PIn.err hs (LabelsIn.nil _)
  · apply (matchToken_in hs .softSemi).bind
    intro m s1 h1 _
    cases m with
    | some _ => exact PIn.ok h1 (by simp only [SIn, StmtIn, OptExprIn]; exact ⟨trivial, ht⟩)
    | none =>
      dsimp only
      apply (isAtEnd_in h1).bind
      intro e s2 h2 _
      apply (check_in h2 .rightBrace).bind
      intro c s3 h3 _
      split
      · exact PIn.ok h3 (by simp only [SIn, StmtIn, OptExprIn]; exact ⟨trivial, ht⟩)
      · apply (expression_in f _ h3).bind
        intro v s4 h4 hv
        apply (terminator_in _ _ s4 h4).bind
        intro _ s5 h5 _
        exact PIn.ok h5 (by simp only [SIn, StmtIn, OptExprIn]; exact ⟨hv, ht⟩)

theorem importNames_in : ∀ f lb names s, TokIn pos lb → (∀ t ∈ names, TokIn pos t) → AllIn pos s →
    PIn pos (importNames f lb names s) (fun ns => ∀ t ∈ ns, TokIn pos t)
  | 0, _, _, _, _, _, _ => PIn.fuel
  | f+1, lb, names, s, hlb, hn, hs => by
    simp only [importNames]
    split
    · rename_i hlen
      refine PIn.err hs (LabelsIn.one _ ?_)
      cases hl : names.getLast? with
      | none =>
        have : names = [] := List.getLast?_eq_none_iff.mp hl
        subst this; simp at hlen
      | some l => exact spanBetween_in hlb (hn l (List.mem_of_getLast? hl))
    · apply (consume_in hs .stringLiteral _ (rep_nil _)).bind
      intro t s1 h1 ht
      apply (matchToken_in h1 .comma).bind
      intro m s2 h2 _
      cases m with
      | some _ => exact importNames_in f lb _ s2 hlb (mem_snoc_in hn ht) h2
      | none => exact PIn.ok h2 (mem_snoc_in hn ht)


theorem importStatement_in (f tok s) (ht : TokIn pos tok) (hs : AllIn pos s) :
    PIn pos (importStatement f tok s) (SIn pos) := by
  unfold importStatement
  apply (matchToken_in hs .leftBracket).bind
  intro m s0 h0 hm
  refine PIn.bind (Q := fun only => ∀ names, only = some names → ∀ t ∈ names, TokIn pos t) ?_ ?_
  · cases m with
    | some lb =>
      dsimp only
      apply (importNames_in f lb [] _ hm (by simp) h0).bind
      intro names s2 h2 hn
      apply (consume_in h2 .rightBracket _ (rep_nil _)).bind
      intro rb s3 h3 _
      refine PIn.ok h3 ?_
      intro names' e; cases e; exact hn
    | none =>
      dsimp only
      apply (matchToken_in h0 .stringLiteral).bind
      intro m s2 h2 hm2
      cases m with
      | some one =>
        refine PIn.ok h2 ?_
        intro names' e; cases e
        intro t ht'; rw [List.mem_singleton.mp ht']; exact hm2
      | none =>
        refine PIn.ok h2 ?_
        intro names' e; cases e
  · intro only s1 h1 honly
    refine PIn.bind (Q := OptTokIn pos) ?_ ?_
    · cases only with
      | none => exact PIn.ok h1 trivial
      | some _ =>
        dsimp only
        apply (consume_in h1 .from_ _ (rep_nil _)).bind
        intro t s2 h2 ht2
        exact PIn.ok h2 ht2
    · intro fromTok s2 h2 hft
      apply (consume_in h2 .mod_ _ (rep_nil _)).bind
      intro t3 s3 h3 ht3
      apply (consume_in h3 .stringLiteral _ (rep_nil _)).bind
      intro t4 s4 h4 ht4
      apply (terminator_in _ _ _ h4).bind
      intro _ s5 h5 _
      refine PIn.ok h5 ?_
      simp only [SIn, StmtIn]
      exact ⟨ht, ht3, hft, honly, ht4, trivial⟩

theorem procParams_in : ∀ f (params : List (Str × Token)) s, (∀ p ∈ params, TokIn pos p.2) → AllIn pos s →
    PIn pos (procParams f params s) (fun ps => ∀ p ∈ ps, TokIn pos p.2)
  | 0, _, _, _, _ => PIn.fuel
  | f+1, params, s, hp, hs => by
    simp only [procParams]
    split
    · exact PIn.err hs (LabelsIn.nil _)
    · apply (consume_in hs .identifier _ (rep_nil _)).bind
      intro t s1 h1 ht
      have hp' : ∀ p ∈ params ++ [(t.lexeme, t)], TokIn pos p.2 := by
        intro p hpm
        rcases List.mem_append.mp hpm with hpm | hpm
        · exact hp p hpm
        · rw [List.mem_singleton.mp hpm]; exact ht
      apply (matchToken_in h1 .comma).bind
      intro m s2 h2 _
      cases m with
      | some _ => exact procParams_in f _ s2 hp' h2
      | none => exact PIn.ok h2 hp'

theorem PIn.restore {α} {r : PRes α} {Q : α → Prop} (cache : Bool) (h : PIn pos r Q) :
    PIn pos (restoreLoop cache r) Q := by
  cases r with
  | ok a s => exact h
  | err e s => exact h
  | panic m => trivial
  | fuel => trivial

/-! ## statements with sub-statements -/

variable (pos) in
structure StmtPIn (f : Nat) : Prop where
  declaration : ∀ s, AllIn pos s → PIn pos (declaration f s) (SIn pos)
  procedure : ∀ t s, TokIn pos t → AllIn pos s → PIn pos (procedure f t s) (SIn pos)
  statement : ∀ s, AllIn pos s → PIn pos (statement f s) (SIn pos)
  blockLoop : ∀ acc s, StmtsIn pos (fun _ => True) acc → AllIn pos s →
    PIn pos (blockLoop f acc s) (StmtsIn pos (fun _ => True))
  ifStatement : ∀ t s, TokIn pos t → AllIn pos s → PIn pos (ifStatement f t s) (SIn pos)
  repeatTimes : ∀ t s, TokIn pos t → AllIn pos s → PIn pos (repeatTimes f t s) (SIn pos)
  repeatUntil : ∀ t s, TokIn pos t → AllIn pos s → PIn pos (repeatUntil f t s) (SIn pos)
  forEach : ∀ t s, TokIn pos t → AllIn pos s → PIn pos (forEach f t s) (SIn pos)

theorem stmtPIn_zero : StmtPIn pos 0 := by
  constructor <;> intros <;> simp only [P.declaration, P.procedure, P.statement, P.blockLoop, P.ifStatement,
    P.repeatTimes, P.repeatUntil, P.forEach] <;> exact PIn.fuel

section sstep
variable {f : Nat} (ih : StmtPIn pos f)
include ih

theorem declaration_pstep (s) (hs : AllIn pos s) : PIn pos (declaration (f+1) s) (SIn pos) := by
  simp only [P.declaration]
  apply (matchTokens_in [.export_, .procedure] hs).bind
  intro m s1 h1 hm
  cases m with
  | none => exact ih.statement s1 h1
  | some t => exact ih.procedure t s1 hm h1

theorem procedure_pstep (t s) (ht : TokIn pos t) (hs : AllIn pos s) :
    PIn pos (procedure (f+1) t s) (SIn pos) := by
  simp only [P.procedure]
  refine PIn.bind (Q := fun pe => TokIn pos pe.1) ?_ ?_
  · split
    · apply (consume_in hs .procedure _ ?_).bind
      · intro pt s1 h1 hpt
        exact PIn.ok h1 hpt
      · intro x hx; exact LabelsIn.two _ hx.span hx.span
    · exact PIn.ok hs ht
  · intro pe s1 h1 hpe
    obtain ⟨procTok, exported⟩ := pe
    dsimp only at hpe ⊢
    apply (consume_in h1 .identifier _ (rep_two' _ hpe)).bind
    intro nameTok s2 h2 hnt
    apply (consume_in h2 .leftParen _ (rep_two _ hnt)).bind
    intro lp s3 h3 _
    apply (check_in h3 .rightParen).bind
    intro c s4 h4 _
    refine PIn.bind (Q := fun ps => ∀ p ∈ ps, TokIn pos p.2) ?_ ?_
    · split
      · exact PIn.ok h4 (by simp)
      · exact procParams_in f [] _ (by simp) h4
    · intro params s5 h5 hps
      apply (consume_in h5 .rightParen _ (rep_one _)).bind
      intro rp s6 h6 _
      apply (ih.statement _ (h6.flags true false)).bind
      intro body s7 h7 hb
      refine PIn.ok (h7.flags _ _) ?_
      simp only [SIn, StmtIn]
      exact ⟨hb, hps, hpe, hnt⟩

theorem blockLoop_pstep (acc s) (hacc : StmtsIn pos (fun _ => True) acc) (hs : AllIn pos s) :
    PIn pos (blockLoop (f+1) acc s) (StmtsIn pos (fun _ => True)) := by
  simp only [P.blockLoop]
  apply (check_in hs .rightBrace).bind
  intro c s1 h1 _
  apply (isAtEnd_in h1).bind
  intro e s2 h2 _
  split
  · exact PIn.ok h2 hacc
  · apply (matchToken_in h2 .softSemi).bind
    intro m s3 h3 _
    cases m with
    | some _ => exact ih.blockLoop acc s3 hacc h3
    | none =>
      dsimp only
      apply (ih.declaration s3 h3).bind
      intro st s4 h4 hst
      exact ih.blockLoop _ s4 (StmtsIn_snoc hacc hst) h4

theorem ifStatement_pstep (t s) (ht : TokIn pos t) (hs : AllIn pos s) :
    PIn pos (ifStatement (f+1) t s) (SIn pos) := by
  simp only [P.ifStatement]
  apply (consume_in hs .leftParen _ (rep_two _ ht)).bind
  intro lp s1 h1 _
  apply (expression_in f _ h1).bind
  intro cond s2 h2 hc
  apply (consume_in h2 .rightParen _ (rep_one _)).bind
  intro rp s3 h3 _
  apply (ih.statement _ h3).bind
  intro thn s4 h4 hthn
  apply (matchToken_in h4 .else_).bind
  intro m s5 h5 hm
  cases m with
  | some et =>
    dsimp only
    apply (ih.statement _ h5).bind
    intro els s6 h6 hels
    refine PIn.ok h6 ?_
    simp only [SIn, StmtIn, OptStmtIn]
    exact ⟨hc, hthn, hels, ht, hm⟩
  | none =>
    refine PIn.ok h5 ?_
    simp only [SIn, StmtIn, OptStmtIn]
    exact ⟨hc, hthn, trivial, ht, trivial⟩

theorem repeatTimes_pstep (t s) (ht : TokIn pos t) (hs : AllIn pos s) :
    PIn pos (repeatTimes (f+1) t s) (SIn pos) := by
  simp only [P.repeatTimes]
  apply (confirm_in hs .repeat_).bind
  intro _ s1 h1 _
  apply (expression_in f _ h1).bind
  intro count s2 h2 hc
  apply (previous_in h2).bind
  intro countTok s3 h3 hct
  apply (consume_in h3 .times _ (rep_one _)).bind
  intro timesTok s4 h4 htt
  apply (ih.statement _ h4).bind
  intro body s5 h5 hb
  refine PIn.ok h5 ?_
  simp only [SIn, StmtIn]
  exact ⟨hc, hb, ht, htt, hct⟩

theorem repeatUntil_pstep (t s) (ht : TokIn pos t) (hs : AllIn pos s) :
    PIn pos (repeatUntil (f+1) t s) (SIn pos) := by
  simp only [P.repeatUntil]
  apply (confirm_in hs .repeat_).bind
  intro _ s1 h1 _
  apply (consume_in h1 .until_ _ (rep_nil _)).bind
  intro untilTok s2 h2 hut
  apply (consume_in h2 .leftParen _ (rep_two _ hut)).bind
  intro lp s3 h3 _
  apply (expression_in f _ h3).bind
  intro cond s4 h4 hc
  apply (consume_in h4 .rightParen _ (rep_one _)).bind
  intro rp s5 h5 _
  apply (ih.statement _ h5).bind
  intro body s6 h6 hb
  refine PIn.ok h6 ?_
  simp only [SIn, StmtIn]
  exact ⟨hc, hb, ht, hut⟩

theorem forEach_pstep (t s) (ht : TokIn pos t) (hs : AllIn pos s) :
    PIn pos (forEach (f+1) t s) (SIn pos) := by
  simp only [P.forEach]
  apply (confirm_in hs .for_).bind
  intro _ s1 h1 _
  apply (consume_in h1 .each _ (rep_one _)).bind
  intro eachTok s2 h2 het
  apply (consume_in h2 .identifier _ (rep_two' _ het)).bind
  intro itemTok s3 h3 hit
  apply (consume_in h3 .in_ _ (rep_two' _ hit)).bind
  intro inTok s4 h4 hint
  apply (expression_in f _ h4).bind
  intro list s5 h5 hl
  apply (previous_in h5).bind
  intro listTok s6 h6 hlt
  apply (ih.statement _ h6).bind
  intro body s7 h7 hb
  refine PIn.ok h7 ?_
  simp only [SIn, StmtIn]
  exact ⟨hl, hb, hit, ht, het, hint, hlt⟩

theorem statement_pstep (s) (hs : AllIn pos s) : PIn pos (statement (f+1) s) (SIn pos) := by
  simp only [P.statement]
  apply (matchToken_in hs .import_).bind
  intro m s1 h1 hm
  cases m with
  | some t => exact importStatement_in f t s1 hm h1
  | none =>
  apply (matchToken_in h1 .if_).bind
  intro m s2 h2 hm
  cases m with
  | some t => exact ih.ifStatement t s2 hm h2
  | none =>
  apply (matchToken_in h2 .repeat_).bind
  intro m s3 h3 hm
  cases m with
  | some t =>
    dsimp only
    apply (check_in (h3.inLoop true) .until_).bind
    intro c s4 h4 _
    apply PIn.restore
    split
    · exact ih.repeatUntil t s4 hm h4
    · exact ih.repeatTimes t s4 hm h4
  | none =>
  apply (matchToken_in h3 .for_).bind
  intro m s4 h4 hm
  cases m with
  | some t =>
    dsimp only
    apply PIn.restore
    exact ih.forEach t _ hm (h4.inLoop true)
  | none =>
  apply (matchToken_in h4 .leftBrace).bind
  intro m s5 h5 hm
  cases m with
  | some lb =>
    dsimp only
    apply (ih.blockLoop [] s5 trivial h5).bind
    intro stmts s6 h6 hss
    apply (consume_in h6 .rightBrace _ (fun _ _ => LabelsIn.one _ (TokIn.span hm))).bind
    intro rb s7 h7 hrb
    refine PIn.ok h7 ?_
    simp only [SIn, StmtIn]
    exact ⟨hss, hm, hrb⟩
  | none =>
  apply (matchToken_in h5 .continue_).bind
  intro m s6 h6 hm
  cases m with
  | some t =>
    dsimp only
    split
    · exact PIn.err h6 (LabelsIn.nil _)
    · exact PIn.ok h6 hm
  | none =>
  apply (matchToken_in h6 .break_).bind
  intro m s7 h7 hm
  cases m with
  | some t =>
    dsimp only
    split
    · exact PIn.err h7 (LabelsIn.nil _)
    · exact PIn.ok h7 hm
  | none =>
  apply (matchToken_in h7 .return_).bind
  intro m s8 h8 hm
  cases m with
  | some t => exact returnStatement_in f t s8 hm h8
  | none => exact expressionStatement_in f s8 h8

end sstep

theorem stmtPIn : ∀ f, StmtPIn pos f
  | 0 => stmtPIn_zero
  | f+1 =>
    have ih := stmtPIn f
    { declaration := declaration_pstep ih, procedure := procedure_pstep ih, statement := statement_pstep ih,
      blockLoop := blockLoop_pstep ih, ifStatement := ifStatement_pstep ih, repeatTimes := repeatTimes_pstep ih,
      repeatUntil := repeatUntil_pstep ih, forEach := forEach_pstep ih }

/-! ## error recovery and the statement loop -/

theorem syncLoop_in : ∀ f s, AllIn pos s → PIn pos (syncLoop f s) (fun _ => True)
  | 0, _, _ => PIn.fuel
  | f+1, s, hs => by
    simp only [syncLoop]
    apply (isAtEnd_in hs).bind
    intro e s1 h1 _
    split
    · exact PIn.ok h1 trivial
    · apply (peek_in h1).bind
      intro t s2 h2 _
      split
      · exact PIn.ok h2 trivial
      · exact (advance_in h2).bind (fun _ s3 h3 _ => syncLoop_in f s3 h3)

theorem synchronize_in (f s) (hs : AllIn pos s) : PIn pos (synchronize f s) (fun _ => True) := by
  unfold synchronize
  exact (advance_in hs).bind (fun _ s1 h1 _ => syncLoop_in f s1 h1)

/-- what a parse returns: trees whose tokens are all in, or diagnostics whose labels are all in -/
def OutIn (pos : Nat → Prop) : ParseOut → Prop
  | .ok prog => ∀ st ∈ prog, StmtIn pos (fun _ => True) st
  | .errs es => ∀ e ∈ es, LabelsIn pos e
  | .panic _ => True
  | .fuel => True

theorem parseLoop_in : ∀ f stmts errs s, (∀ st ∈ stmts, StmtIn pos (fun _ => True) st) →
    (∀ e ∈ errs, LabelsIn pos e) → AllIn pos s → OutIn pos (parseLoop f stmts errs s)
  | 0, _, _, _, _, _, _ => trivial
  | f+1, stmts, errs, s, hst, her, hs => by
    simp only [parseLoop]
    have hi := isAtEnd_in hs
    cases he : isAtEnd s with
    | panic m => trivial
    | fuel => trivial
    | err e s' => trivial
    | ok b s1 =>
      rw [he] at hi
      cases b with
      | true =>
        dsimp only
        split
        · exact hst
        · exact her
      | false =>
        dsimp only
        have hm := matchToken_in hi.1 .softSemi
        cases hms : matchToken .softSemi s1 with
        | panic m => trivial
        | fuel => trivial
        | err e s' => trivial
        | ok m s2 =>
          rw [hms] at hm
          cases m with
          | some _ => exact parseLoop_in f stmts errs s2 hst her hm.1
          | none =>
            dsimp only
            have hd := (stmtPIn f).declaration s2 hm.1
            cases hds : declaration f s2 with
            | panic m => trivial
            | fuel => trivial
            | ok st s3 =>
              rw [hds] at hd
              refine parseLoop_in f _ errs s3 ?_ her hd.1
              intro x hx
              rcases List.mem_append.mp hx with hx | hx
              · exact hst x hx
              · rw [List.mem_singleton.mp hx]; exact hd.2
            | err e s3 =>
              rw [hds] at hd
              have hsy := synchronize_in f s3 hd.1
              dsimp only
              cases hss : synchronize f s3 with
              | panic m => trivial
              | fuel => trivial
              | err e' s4 => trivial
              | ok u s4 =>
                rw [hss] at hsy
                refine parseLoop_in f stmts _ s4 hst ?_ hsy.1
                intro x hx
                rcases List.mem_append.mp hx with hx | hx
                · exact her x hx
                · rw [List.mem_singleton.mp hx]; exact hd.2

end

end P

/-- **the parser's output is made of its input**: for every fuel, if every token of the list is in, every
token and argument span of every returned tree is in, and every label of every syntax diagnostic is in -/
theorem parse_in {pos : Nat → Prop} (fuel : Nat) (ts : List Token) (h : ∀ t ∈ ts, TokIn pos t) :
    P.OutIn pos (parse fuel ts) := by
  unfold parse
  exact P.parseLoop_in fuel [] [] _ (by simp) (by simp) ⟨by simp, h⟩

end Aplang
