import Aplang.Proofs.FloatTextMain
import Aplang.Proofs.FloatTextConv
import Aplang.Proofs.FloatTextMin
/-!
# "the shortest decimal that reads back", and integer-valued doubles print without a point

* `fmt_shortest`: every decimal `D · 10^S` that reads back (`Float.ofScientific`) as `|x|` has at least as many
  significant digits as the text of `x` (minimality inside the rounding interval, `FloatTextMin`, + the converse of
  correct rounding, `FloatTextConv.readBack_iff`);
* `integer_no_point`: a finite non-zero double whose value is an integer prints without `.`.
-/
set_option linter.unusedSimpArgs false
namespace Aplang.FloatText
open Float.Model Float.Model.UnpackedFloat

/-- `|x|` as a packed canonical form -/
theorem abs_eq_pack (x : Float) (he : F64.expField x.toBits ≠ 0x7FF) (hz : x.toBits &&& F64.absMask ≠ 0) :
    Float.abs x = Float.ofModel (Float.Model.pack (.finite .positive
      (F64.decompose (x.toBits &&& F64.absMask)).1 (F64.decompose (x.toBits &&& F64.absMask)).2
      (unpack_finite x he hz).1.pos)) := by
  obtain ⟨hc, h, hu⟩ := unpack_finite x he hz
  have habs : ∀ (U : UnpackedFloat) (s : Sign) (m : Nat) (e : Int) (h h' : 0 < m), U = .finite s m e h →
      U.abs = .finite .positive m e h' := by
    intro U s m e h h' hU; subst hU; rfl
  have h1 : Float.abs x = Float.ofModel (Float.Model.pack (x.toModel.unpack.abs)) := rfl
  rw [h1, habs _ _ _ _ h hc.pos hu]

/-- the digits printed for `x` (finite, non-zero): `stripZeros` of `shortest` of the magnitude bits -/
def printedDigits (x : Float) : Nat :=
  (F64.stripZeros 20 (F64.shortest (x.toBits &&& F64.absMask)).1 (F64.shortest (x.toBits &&& F64.absMask)).2).1
/-- … and the decimal exponent -/
def printedExp (x : Float) : Int :=
  (F64.stripZeros 20 (F64.shortest (x.toBits &&& F64.absMask)).1 (F64.shortest (x.toBits &&& F64.absMask)).2).2

theorem fmt_eq_printed (x : Float) (he : F64.expField x.toBits ≠ 0x7FF) (hz : x.toBits &&& F64.absMask ≠ 0) :
    F64.fmt x = (if F64.signBit x.toBits then ['-'] else []) ++
      F64.positional (Nat.toDigits 10 (printedDigits x)) (printedExp x) :=
  fmtBits_finite x.toBits he hz

/-- the printed decimal reads back as `|x|` -/
theorem printed_reads_back (x : Float) (he : F64.expField x.toBits ≠ 0x7FF) (hz : x.toBits &&& F64.absMask ≠ 0) :
    F64.readBack (printedDigits x) (printedExp x) = Float.abs x := by
  obtain ⟨hc, hm0, hu⟩ := unpack_finite x he hz
  have he' : F64.expField (x.toBits &&& F64.absMask) ≠ 0x7FF := by rw [expField_abs]; exact he
  obtain ⟨hd, hin, hs1, hs2⟩ := printed_inside (x.toBits &&& F64.absMask) hz he' hc
  rw [abs_eq_pack x he hz]
  exact (readBack_iff _ _ hc _ _ hd (by unfold printedExp; omega)).mpr hin

/-- **shortest**: any decimal `D · 10^S` that reads back as `|x|` has at least as many digits as the printed one -/
theorem fmt_shortest (x : Float) (he : F64.expField x.toBits ≠ 0x7FF) (hz : x.toBits &&& F64.absMask ≠ 0)
    (D : Nat) (S : Int) (hD : 0 < D) (hS : -2048 ≤ S) (hrb : F64.readBack D S = Float.abs x) :
    (Nat.toDigits 10 (printedDigits x)).length ≤ (Nat.toDigits 10 D).length := by
  obtain ⟨hc, hm0, hu⟩ := unpack_finite x he hz
  rw [abs_eq_pack x he hz] at hrb
  exact shortest_minimal_float x he hz D S hD ((readBack_iff _ _ hc D S hD hS).mp hrb)

/-! ## integer-valued doubles -/

theorem inside_int (m : Nat) (e : Int) (asym : Bool) (hm : 0 < m) (he : 0 ≤ e) : Inside m e asym (m * 2 ^ e.toNat) 0 := by
  have hl : l4 m asym < 4 * m := by unfold l4; split <;> omega
  have hh : 4 * m < h4 m := by unfold h4; omega
  have e0 : (-(0 : Int)).toNat = 0 := rfl
  have e1 : (0 : Int).toNat = 0 := rfl
  have k1 : (e - 2 - -2).toNat = e.toNat := by omega
  have k2 : ((0 : Int) - -2).toNat = 2 := by decide
  have hp : 0 < 2 ^ e.toNat := Nat.two_pow_pos _
  have a1 : m * 2 ^ e.toNat * 2 ^ 2 = (4 * m) * 2 ^ e.toNat := by
    rw [Nat.mul_right_comm]; congr 1; omega
  unfold Inside
  simp only [e0, e1, Nat.pow_zero, Nat.mul_one]
  rw [le2_iff _ _ _ _ (-2) (by omega) (by omega), le2_iff _ _ _ _ (-2) (by omega) (by omega),
    lt2_iff _ _ _ _ (-2) (by omega) (by omega), lt2_iff _ _ _ _ (-2) (by omega) (by omega), k1, k2, a1]
  exact ⟨⟨Nat.mul_le_mul_right _ (Nat.le_of_lt hl), Nat.mul_le_mul_right _ (Nat.le_of_lt hh)⟩,
    fun _ => ⟨Nat.mul_lt_mul_of_pos_right hl hp, Nat.mul_lt_mul_of_pos_right hh hp⟩⟩

/-- the printed exponent of an integer-valued double is not negative -/
theorem printedExp_nonneg (x : Float) (he : F64.expField x.toBits ≠ 0x7FF) (hz : x.toBits &&& F64.absMask ≠ 0)
    (hint : 0 ≤ (F64.decompose (x.toBits &&& F64.absMask)).2 ∨
      ∃ n, (F64.decompose (x.toBits &&& F64.absMask)).1 =
        n * 2 ^ (-(F64.decompose (x.toBits &&& F64.absMask)).2).toNat) :
    0 ≤ printedExp x := by
  obtain ⟨hc, hm0, hu⟩ := unpack_finite x he hz
  have he' : F64.expField (x.toBits &&& F64.absMask) ≠ 0x7FF := by rw [expField_abs]; exact he
  unfold printedExp
  generalize hab : x.toBits &&& F64.absMask = ab at *
  have hge := (stripZeros_spec 20 (F64.shortest ab).1 (F64.shortest ab).2).2.1
  suffices 0 ≤ (F64.shortest ab).2 by omega
  unfold F64.shortest
  cases hs : F64.smallInt? ab with
  | some n => simp only []; decide
  | none =>
    simp only []
    -- an integer decimal inside the interval
    have hex : ∃ D, 0 < D ∧ Inside (F64.decompose ab).1 (F64.decompose ab).2
        (asymOf (F64.decompose ab).1 (F64.decompose ab).2) D 0 := by
      rcases hint with h0 | ⟨n, hn⟩
      · exact ⟨_, Nat.mul_pos hc.pos (Nat.two_pow_pos _), inside_int _ _ _ hc.pos h0⟩
      · by_cases h0 : 0 ≤ (F64.decompose ab).2
        · exact ⟨_, Nat.mul_pos hc.pos (Nat.two_pow_pos _), inside_int _ _ _ hc.pos h0⟩
        · have hn0 : 0 < n := by
            apply Nat.pos_of_ne_zero; intro h; rw [h, Nat.zero_mul] at hn; have := hc.pos; omega
          exact ⟨n, hn0, inside_self _ _ _ n hc.pos (by omega) hn⟩
    obtain ⟨D, hD, hin⟩ := hex
    have := (pick_minimal _ _ hc _ _ (by rw [← ftm_shortestGen_eq ab hz he']) D 0 hD hin).1
    exact this

/-- **integer-valued doubles print without a decimal point** (all of them: `1`, `2^53 + 2`, `1e21`, `f64::MAX`, …):
`|x| = m · 2^e` with `e ≥ 0`, or `2^(-e)` divides `m` -/
theorem integer_no_point (x : Float) (he : F64.expField x.toBits ≠ 0x7FF) (hz : x.toBits &&& F64.absMask ≠ 0)
    (hint : 0 ≤ (F64.decompose (x.toBits &&& F64.absMask)).2 ∨
      ∃ n, (F64.decompose (x.toBits &&& F64.absMask)).1 =
        n * 2 ^ (-(F64.decompose (x.toBits &&& F64.absMask)).2).toNat) :
    '.' ∉ F64.fmt x := by
  rw [fmt_eq_printed x he hz]
  intro hmem
  rcases List.mem_append.1 hmem with h1 | h1
  · split at h1 <;> simp at h1
  · refine positional_no_point _ _ (printedExp_nonneg x he hz hint) ?_ h1
    intro h
    exact absurd (toDigits_all_digit _ _ h) (by decide)

end Aplang.FloatText
