import Aplang.Proofs.SpanInNatives
import Aplang.Proofs.StateOf
/-!
# Runtime diagnostics are labelled inside the text their tokens came from (for C11, first sentence)

The evaluator builds every runtime error from a token of the tree it is interpreting (`tok.span`), from two of
them (`interior lp rp`), or hands the call node's argument spans to a native procedure, which labels with one of
them (`callNative_err_span`). So if the tree's tokens and spans are in (`ExprIn pos` / `StmtIn pos M`), the
error's span is `SpIn pos`. The one complication is *whose* tree is being interpreted: a procedure body stored in the
tables may come from another text (a user module). Hence the theorem is stated for a **family of origins**

* `F : (Nat → Prop) → Prop` — the position predicates of the admissible origins (`Bd src` for the main text,
  `Bd text` for module texts);
* `M : Token → Prop` — a condition on the module-name token of every IMPORT statement that is interpreted;
* `N : Native → Prop` — the native procedures that can be reached;
* `W : World → Prop` — an invariant of the world (e.g. "the files are those of the start"),

with the hypotheses `EvalHyp` tying them to the configuration. Invariant of the state (`StIn`): every stored user
procedure body is `StmtIn pos M` for some `pos` in `F`, every stored native is in `N`, the world satisfies `W`.
Conclusion (`ResP`): a successful result keeps the invariant; **a runtime error's span is `SpIn pos` for some `pos`
in `F`** (`GoodSp`). Induction on fuel over the eight functions of the evaluator model, as in `Proofs/OutputMono`.
-/
namespace Aplang

section
variable (cfg : Cfg) (F : (Nat → Prop) → Prop) (M : Token → Prop) (N : Native → Prop) (W : World → Prop)

/-- a stored procedure: a user body whose tokens are in for one of the origins, or an admissible native -/
def ProcIn : Proc → Prop
  | .user _ body => ∃ pos, F pos ∧ StmtIn pos M body
  | .native n => N n

def TableIn (t : FunTable) : Prop := ∀ e ∈ t, ProcIn F M N e.2

/-- the invariant of the interpreter state -/
structure StIn (σ : St) : Prop where
  procs : TableIn F M N σ.procs
  exports : TableIn F M N σ.exports
  world : W σ.world

/-- the span is in for one of the origins -/
def GoodSp (sp : Span) : Prop := ∃ pos, F pos ∧ SpIn pos sp

/-- a successful result satisfies `P`; **a runtime error is labelled inside one of the origins** -/
def ResP {α} (P : α → Prop) : Res α → Prop
  | .ok a => P a
  | .err e _ => GoodSp F e.span
  | .terminate _ _ => True
  | .panic _ _ => True
  | .fuel => True

/-- the same with "the state of the result keeps the invariant" as the success condition -/
abbrev ResIn {α} [HasSt α] (r : Res α) : Prop := ResP F (fun a => StIn F M N W (HasSt.st a)) r

/-- what ties the parameters to the configuration -/
structure EvalHyp : Prop where
  /-- the CORE table every interpreter starts with -/
  core : TableIn F M N ((cfg.modules "CORE".toList).getD [])
  /-- the library modules an admissible IMPORT can name -/
  mods : ∀ tok name table, M tok → tok.lit = .str name → cfg.modules name = some table → TableIn F M N table
  /-- admissible natives keep the world invariant -/
  nat : ∀ n vs spans σ v σ', N n → W σ.world → callNative cfg.chars n vs spans σ = .ok (v, σ') → W σ'.world
  /-- a user module that an admissible IMPORT loads from a world satisfying the invariant is one of the origins -/
  imp : ∀ tok name (w : World) path text prog, M tok → tok.lit = .str name → cfg.modules name = none → W w →
    Fs.fileRead w.fs path = some text → (lex cfg.lex text).errors.isEmpty = true →
    parse (parseFuel (lex cfg.lex text).tokens.length) (lex cfg.lex text).tokens = .ok prog →
    ∃ pos, F pos ∧ StmtsIn pos M prog

end

section
variable {cfg : Cfg} {F : (Nat → Prop) → Prop} {M : Token → Prop} {N : Native → Prop} {W : World → Prop}

/-- the parts of the state the invariant reads are the same -/
def Fr (σ σ' : St) : Prop := σ'.procs = σ.procs ∧ σ'.exports = σ.exports ∧ σ'.world = σ.world

theorem StIn.fr {σ σ' : St} (h : StIn F M N W σ) (hf : Fr σ σ') : StIn F M N W σ' :=
  ⟨hf.1 ▸ h.procs, hf.2.1 ▸ h.exports, hf.2.2 ▸ h.world⟩

theorem GoodSp.of {pos : Nat → Prop} {sp : Span} (hF : F pos) (h : SpIn pos sp) : GoodSp F sp := ⟨pos, hF, h⟩

/-! ## the result predicate -/

theorem ResP.ok {α} {P : α → Prop} {a : α} (h : P a) : ResP F P (.ok a) := h
theorem ResP.err {α} {P : α → Prop} {e : RtErr} {σ : St} (h : GoodSp F e.span) : ResP F P (.err e σ : Res α) := h

theorem ResP.bind {α β} {P : α → Prop} {Q : β → Prop} {x : Res α} {k : α → Res β}
    (hx : ResP F P x) (hk : ∀ a, P a → ResP F Q (k a)) : ResP F Q (x.bind k) := by
  cases x with
  | ok a => exact hk a hx
  | err e s => exact hx
  | terminate w s => trivial
  | panic p o => trivial
  | fuel => trivial

theorem ResP.mono {α} {P Q : α → Prop} {x : Res α} (hx : ResP F P x) (h : ∀ a, P a → Q a) : ResP F Q x := by
  cases x with
  | ok a => exact h a hx
  | err e s => exact hx
  | terminate w s => trivial
  | panic p o => trivial
  | fuel => trivial

theorem ResP.bindP {α β} {Q : β → Prop} {x : Res (α × St)} {k : α × St → Res β}
    (hx : ResIn F M N W x) (hk : ∀ a σ1, StIn F M N W σ1 → ResP F Q (k (a, σ1))) : ResP F Q (x.bind k) :=
  ResP.bind hx (fun p hp => hk p.1 p.2 hp)

theorem ResP.bindS {β} {Q : β → Prop} {x : Res St} {k : St → Res β}
    (hx : ResIn F M N W x) (hk : ∀ σ1, StIn F M N W σ1 → ResP F Q (k σ1)) : ResP F Q (x.bind k) :=
  ResP.bind hx (fun p hp => hk p hp)

/-! ## procedure tables -/

theorem TableIn.nil : TableIn F M N [] := by intro e he; cases he

theorem TableIn.find {t : FunTable} {name : Str} {p : Proc} (h : TableIn F M N t) (hf : t.find? name = some p) :
    ProcIn F M N p := by
  simp only [FunTable.find?, Option.map_eq_some_iff] at hf
  obtain ⟨e, he, rfl⟩ := hf
  exact h e (List.mem_of_find?_eq_some he)

theorem TableIn.filter {t : FunTable} (h : TableIn F M N t) (q : Str × Proc → Bool) :
    TableIn F M N (List.filter q t) := fun e he => h e (List.mem_filter.mp he).1

theorem TableIn.insert {t : FunTable} {name : Str} {p : Proc} (h : TableIn F M N t) (hp : ProcIn F M N p) :
    TableIn F M N (t.insert name p) := by
  intro e he
  simp only [FunTable.insert, List.mem_cons] at he
  rcases he with rfl | he
  · exact hp
  · exact h.filter _ e he

theorem TableIn.extend {t more : FunTable} (h : TableIn F M N t) (hm : TableIn F M N more) :
    TableIn F M N (t.extend more) := by
  unfold FunTable.extend
  induction more generalizing t with
  | nil => exact h
  | cons e more ih =>
    simp only [List.foldl_cons]
    exact ih (h.insert (hm e List.mem_cons_self)) (fun x hx => hm x (List.mem_cons_of_mem _ hx))

/-! ## state primitives and operators -/

set_option hygiene false in
/-- leaves of the helper sweeps: the one state hypothesis is called `hσ`, the admissible spans are hypotheses -/
macro "si_leaf" : tactic =>
  `(tactic| first
    | exact ResP.ok (StIn.fr hσ ⟨rfl, rfl, rfl⟩)
    | exact ResP.err (by assumption)
    | exact True.intro)

theorem display_in (σ v) : ResP F (fun _ : Str => True) (display σ v) := by
  unfold display; split <;> exact True.intro

macro "si_step" : tactic =>
  `(tactic| first
    | si_leaf
    | (refine ResP.bind (display_in _ _) ?_; intro _ _)
    | split)

theorem define_in {σ x v} (hσ : StIn F M N W σ) : ResIn F M N W (define σ x v) := by
  unfold define; repeat' si_step
theorem removeVar_in {σ x} (hσ : StIn F M N W σ) : ResIn F M N W (removeVar σ x) := by
  unfold removeVar; repeat' si_step
theorem createNested_in {σ} (hσ : StIn F M N W σ) : ResIn F M N W (createNested σ) := by
  unfold createNested; repeat' si_step
theorem flattenNested_in {σ} (hσ : StIn F M N W σ) : ResIn F M N W (flattenNested σ) := by
  unfold flattenNested; repeat' si_step
theorem popLoop_in {σ} (hσ : StIn F M N W σ) : ResIn F M N W (popLoop σ) := by
  unfold popLoop; repeat' si_step
theorem afterBody_in {b σ} (hσ : StIn F M N W σ) : ResIn F M N W (afterBody b σ) := by
  unfold afterBody; repeat' si_step
theorem forAfter_in {σ} (hσ : StIn F M N W σ) : ResIn F M N W (forAfter σ) := by
  unfold forAfter; repeat' si_step

theorem binop_in {op tok a b σ} (hσ : StIn F M N W σ) (ht : GoodSp F (Token.span tok)) :
    ResIn F M N W (binop op tok a b σ) := by
  unfold binop rtErr; repeat' si_step

theorem unop_in {op tok v σ} (hσ : StIn F M N W σ) (ht : GoodSp F (Token.span tok)) :
    ResIn F M N W (unop op tok v σ) := by
  unfold unop rtErr; repeat' si_step

theorem assignVar_in {name v σ} (hσ : StIn F M N W σ) : ResIn F M N W (assignVar name v σ) := by
  have hd : ResIn F M N W ((define σ name v).bind fun σ => Res.ok (v, σ)) :=
    ResP.bindS (define_in hσ) fun σ1 h1 => ResP.ok h1
  unfold assignVar
  split
  · split
    · split
      · si_leaf
      · split <;> si_leaf
    · exact hd
  · exact hd

theorem indexRead_in {l k lt lb rb σ} (hσ : StIn F M N W σ) (h1 : GoodSp F (interior lb rb))
    (h2 : GoodSp F (Token.span lt)) : ResIn F M N W (indexRead l k lt lb rb σ) := by
  unfold indexRead rtErr; repeat' si_step

theorem indexWrite_in {l k v lt lb rb σ} (hσ : StIn F M N W σ) (h1 : GoodSp F (interior lb rb))
    (h2 : GoodSp F (Token.span lt)) : ResIn F M N W (indexWrite l k v lt lb rb σ) := by
  unfold indexWrite rtErr; repeat' si_step

theorem writeBack_fr (σ a i cur) : Fr σ (writeBack σ a i cur) := by
  unfold writeBack
  split
  · split <;> exact ⟨rfl, rfl, rfl⟩
  · exact ⟨rfl, rfl, rfl⟩

theorem tick_fr {σ0 σ : St} (h : tick σ0 = some σ) : Fr σ0 σ := by
  unfold tick at h
  split at h
  · cases h
  · cases h; exact ⟨rfl, rfl, rfl⟩

/-! ## native procedures -/

theorem callNative_in (hyp : EvalHyp cfg F M N W) {n vs spans σ} (hσ : StIn F M N W σ) (hn : N n)
    (hsp : ∀ sp ∈ spans, GoodSp F sp) : ResIn F M N W (callNative cfg.chars n vs spans σ) := by
  cases hr : callNative cfg.chars n vs spans σ with
  | ok p =>
    obtain ⟨v, σ'⟩ := p
    have hs := callNative_same _ _ _ _ _ v σ' hr
    exact ⟨hs.procs ▸ hσ.procs, hs.exports ▸ hσ.exports, hyp.nat n vs spans σ v σ' hn hσ.world hr⟩
  | err e σ' => exact hsp _ (callNative_err_span _ _ _ _ _ e σ' hr)
  | terminate w s => exact True.intro
  | panic p o => exact True.intro
  | fuel => exact True.intro

/-! ## IMPORT -/

theorem trimModule_in : ∀ (toks : List Token) (module acc : FunTable) (σ : St),
    (∀ t ∈ toks, GoodSp F (Token.span t)) → TableIn F M N module → TableIn F M N acc →
    ResP F (TableIn F M N) (trimModule toks module acc σ)
  | [], _, _, _, _, _, ha => ha
  | t :: ts, module, acc, σ, ht, hm, ha => by
    unfold trimModule rtErr
    split
    · split
      · rename_i p hp
        exact trimModule_in ts _ _ σ (fun x hx => ht x (List.mem_cons_of_mem _ hx)) (hm.filter _)
          (ha.insert (hm.find hp))
      · exact ResP.err (ht t List.mem_cons_self)
    · exact True.intro

theorem moduleState_in (hyp : EvalHyp cfg F M N W) {σ : St} (hσ : StIn F M N W σ) (path : Str) :
    StIn F M N W (moduleState cfg σ path) :=
  ⟨TableIn.nil.extend hyp.core, TableIn.nil, hσ.world⟩

theorem afterModule_in {σ σm : St} (hσ : StIn F M N W σ) (hm : StIn F M N W σm) :
    StIn F M N W (afterModule σ σm) := ⟨hσ.procs, hσ.exports, hm.world⟩

/-- IMPORT of a library module extends the table with admissible procedures; a user module runs in a fresh
interpreter whose state keeps the invariant, its own tree being one of the origins (`EvalHyp.imp`); every error of
the IMPORT statement itself is labelled at the module-name token or at a selected name -/
theorem importStmt_in (hyp : EvalHyp cfg F M N W) (runModule : List Stmt → St → Res St)
    (hrun : ∀ pos, F pos → ∀ prog σm, StmtsIn pos M prog → StIn F M N W σm → ResIn F M N W (runModule prog σm))
    {only : Option (List Token)} {modName : Token} {σ : St}
    (honly : ∀ names, only = some names → ∀ t ∈ names, GoodSp F (Token.span t))
    (hmod : GoodSp F (Token.span modName)) (hM : M modName) (hσ : StIn F M N W σ) :
    ResIn F M N W (importStmt cfg runModule only modName σ) := by
  unfold importStmt rtErr
  refine ResP.bind (P := fun name => modName.lit = .str name) ?_ ?_
  · split
    · rename_i name hname; exact hname
    · exact True.intro
  · intro name hname
    refine ResP.bind (P := fun p : FunTable × St => TableIn F M N p.1 ∧ StIn F M N W p.2) ?_ ?_
    · split
      · rename_i table htable
        exact ⟨hyp.mods modName name table hM hname htable, hσ⟩
      · rename_i hnone
        dsimp only
        split
        · exact ResP.err hmod
        · split
          · exact ResP.err hmod
          · rename_i text htext
            split
            · exact ResP.err hmod
            · rename_i hlex
              split
              · rename_i prog hprog
                obtain ⟨pos, hF, hp⟩ := hyp.imp modName name σ.world _ text prog hM hname hnone hσ.world htext
                  (by simpa using hlex) hprog
                refine ResP.bindS (hrun pos hF prog _ hp (moduleState_in hyp hσ _)) ?_
                intro σm hm
                exact ⟨hm.exports, afterModule_in hσ hm⟩
              · exact ResP.err hmod
              · exact True.intro
              · exact True.intro
    · intro p hp
      obtain ⟨module, σ1⟩ := p
      obtain ⟨hmt, h1⟩ := hp
      refine ResP.bind (P := TableIn F M N) ?_ ?_
      · split
        · rename_i names
          exact trimModule_in names module [] σ1 (honly names rfl) hmt TableIn.nil
        · exact hmt
      · intro m hm
        exact ⟨h1.procs.extend hm, h1.exports, h1.world⟩

/-! ## the evaluator, by induction on fuel -/

variable (cfg F M N W) in
/-- all eight functions of the evaluator, at fuel `f`: from a state that keeps the invariant, interpreting a tree of
one of the origins, the result keeps the invariant and a runtime error is labelled inside one of the origins -/
structure InAll (f : Nat) : Prop where
  expr : ∀ pos, F pos → ∀ e σ, ExprIn pos e → StIn F M N W σ → ResIn F M N W (expr cfg f e σ)
  exprs : ∀ pos, F pos → ∀ es σ, ExprsIn pos es → StIn F M N W σ → ResIn F M N W (exprs cfg f es σ)
  stmt : ∀ pos, F pos → ∀ s σ, StmtIn pos M s → StIn F M N W σ → ResIn F M N W (stmt cfg f s σ)
  block : ∀ pos, F pos → ∀ ss σ, StmtsIn pos M ss → StIn F M N W σ → ResIn F M N W (block cfg f ss σ)
  repeatLoop : ∀ pos, F pos → ∀ k body σ, StmtIn pos M body → StIn F M N W σ →
    ResIn F M N W (repeatLoop cfg f k body σ)
  untilLoop : ∀ pos, F pos → ∀ c body σ, ExprIn pos c → StmtIn pos M body → StIn F M N W σ →
    ResIn F M N W (untilLoop cfg f c body σ)
  forLoop : ∀ pos, F pos → ∀ item a i len body σ, StmtIn pos M body → StIn F M N W σ →
    ResIn F M N W (forLoop cfg f item a i len body σ)
  program : ∀ pos, F pos → ∀ ss σ, StmtsIn pos M ss → StIn F M N W σ → ResIn F M N W (program cfg f ss σ)

theorem inAll_zero : InAll cfg F M N W 0 where
  expr := by intro pos hF e σ _ _; simp only [expr]; exact True.intro
  exprs := by
    intro pos hF es σ _ hσ
    cases es with
    | nil => simp only [exprs]; exact ResP.ok hσ
    | cons e es => simp only [exprs]; exact True.intro
  stmt := by intro pos hF s σ _ _; simp only [stmt]; exact True.intro
  block := by
    intro pos hF ss σ _ hσ
    cases ss with
    | nil => simp only [block]; exact ResP.ok hσ
    | cons s ss => simp only [block]; split <;> first | exact ResP.ok hσ | exact True.intro
  repeatLoop := by
    intro pos hF k body σ _ hσ
    cases k with
    | zero => simp only [repeatLoop]; exact ResP.ok hσ
    | succ k => simp only [repeatLoop]; exact True.intro
  untilLoop := by intro pos hF c body σ _ _ _; simp only [untilLoop]; exact True.intro
  forLoop := by intro pos hF item a i len body σ _ _; simp only [forLoop]; exact True.intro
  program := by
    intro pos hF ss σ _ hσ
    cases ss with
    | nil => simp only [program]; exact ResP.ok hσ
    | cons s ss => simp only [program]; exact True.intro

section step
variable (hyp : EvalHyp cfg F M N W) {f : Nat} (ih : InAll cfg F M N W f)
include ih

theorem exprs_istep (pos) (hF : F pos) (es σ) (he : ExprsIn pos es) (hσ : StIn F M N W σ) :
    ResIn F M N W (exprs cfg (f+1) es σ) := by
  cases es with
  | nil => simp only [exprs]; exact ResP.ok hσ
  | cons e es =>
    simp only [exprs]
    simp only [ExprsIn] at he
    apply ResP.bindP (ih.expr pos hF e σ he.1 hσ)
    intro v σ1 h1
    apply ResP.bindP (ih.exprs pos hF es σ1 he.2 h1)
    intro vs σ2 h2
    exact ResP.ok h2

include hyp in
theorem expr_istep (pos) (hF : F pos) (e σ) (he : ExprIn pos e) (hσ : StIn F M N W σ) :
    ResIn F M N W (expr cfg (f+1) e σ) := by
  cases e with
  | grouping e lp rp =>
    simp only [expr]; simp only [ExprIn] at he
    exact ih.expr pos hF e σ he.1 hσ
  | lit v tok => simp only [expr]; exact ResP.ok hσ
  | binary l op r tok =>
    simp only [expr]; simp only [ExprIn] at he
    apply ResP.bindP (ih.expr pos hF l σ he.1 hσ)
    intro a σ1 h1
    apply ResP.bindP (ih.expr pos hF r σ1 he.2.1 h1)
    intro b σ2 h2
    exact binop_in h2 (GoodSp.of hF he.2.2.span)
  | unary op r tok =>
    simp only [expr]; simp only [ExprIn] at he
    apply ResP.bindP (ih.expr pos hF r σ he.1 hσ)
    intro v σ1 h1
    exact unop_in h1 (GoodSp.of hF he.2.span)
  | access l lt k lb rb =>
    simp only [expr]; simp only [ExprIn] at he
    apply ResP.bindP (ih.expr pos hF l σ he.1 hσ)
    intro lv σ1 h1
    apply ResP.bindP (ih.expr pos hF k σ1 he.2.1 h1)
    intro kv σ2 h2
    exact indexRead_in h2 (GoodSp.of hF (interior_in he.2.2.2.1 he.2.2.2.2)) (GoodSp.of hF he.2.2.1.span)
  | list items lb rb =>
    simp only [expr]; simp only [ExprIn] at he
    apply ResP.bindP (ih.exprs pos hF items σ he.1 hσ)
    intro vs σ1 h1
    exact ResP.ok (h1.fr ⟨rfl, rfl, rfl⟩)
  | var name tok =>
    simp only [expr, rtErr]; simp only [ExprIn] at he
    split
    · exact ResP.ok hσ
    · exact ResP.err (GoodSp.of hF he.span)
  | assign name nt value arrow =>
    simp only [expr]; simp only [ExprIn] at he
    apply ResP.bindP (ih.expr pos hF value σ he.1 hσ)
    intro v σ1 h1
    exact assignVar_in h1
  | set l lt idx lb rb value arrow =>
    simp only [expr]; simp only [ExprIn] at he
    apply ResP.bindP (ih.expr pos hF l σ he.1 hσ)
    intro lv σ1 h1
    apply ResP.bindP (ih.expr pos hF idx σ1 he.2.1 h1)
    intro kv σ2 h2
    apply ResP.bindP (ih.expr pos hF value σ2 he.2.2.1 h2)
    intro v σ3 h3
    exact indexWrite_in h3 (GoodSp.of hF (interior_in he.2.2.2.2.1 he.2.2.2.2.2.1)) (GoodSp.of hF he.2.2.2.1.span)
  | logical l op r tok =>
    simp only [expr]; simp only [ExprIn] at he
    apply ResP.bindP (ih.expr pos hF l σ he.1 hσ)
    intro a σ1 h1
    cases op <;> dsimp only <;> split <;> first | exact ResP.ok h1 | exact ih.expr pos hF r σ1 he.2.1 h1
  | call name args spans tok lp rp =>
    simp only [expr, rtErr]; simp only [ExprIn] at he
    obtain ⟨ha, hsp, htok, hlp, hrp⟩ := he
    apply ResP.bindP (ih.exprs pos hF args σ ha hσ)
    intro vs σ1 h1
    dsimp only
    split
    · exact ResP.err (GoodSp.of hF htok.span)
    · rename_i n hfind
      split
      · exact ResP.err (GoodSp.of hF (interior_in hlp hrp))
      · exact callNative_in hyp h1 (h1.procs.find hfind) (fun sp h => GoodSp.of hF (hsp sp h))
    · rename_i params body hfind
      obtain ⟨pos', hF', hb⟩ := h1.procs.find hfind
      split
      · exact ResP.err (GoodSp.of hF (interior_in hlp hrp))
      · refine ResP.bindS (ih.stmt pos' hF' body _ hb (h1.fr ⟨rfl, rfl, rfl⟩)) ?_
        intro τ hτ
        split
        · exact True.intro
        · exact ResP.ok (hτ.fr ⟨rfl, rfl, rfl⟩)

theorem block_istep (pos) (hF : F pos) (ss σ) (hs : StmtsIn pos M ss) (hσ : StIn F M N W σ) :
    ResIn F M N W (block cfg (f+1) ss σ) := by
  cases ss with
  | nil => simp only [block]; exact ResP.ok hσ
  | cons s ss =>
    simp only [block]; simp only [StmtsIn] at hs
    split
    · exact ResP.ok hσ
    · apply ResP.bindS (ih.stmt pos hF s σ hs.1 hσ)
      intro σ1 h1
      exact ih.block pos hF ss σ1 hs.2 h1

theorem repeatLoop_istep (pos) (hF : F pos) (k body σ) (hb : StmtIn pos M body) (hσ : StIn F M N W σ) :
    ResIn F M N W (repeatLoop cfg (f+1) k body σ) := by
  cases k with
  | zero => simp only [repeatLoop]; exact ResP.ok hσ
  | succ k =>
    simp only [repeatLoop]
    apply ResP.bindS (ih.stmt pos hF body σ hb hσ)
    intro σ1 h1
    apply ResP.bindP (afterBody_in h1)
    intro nxt σ2 h2
    cases nxt
    · exact ih.repeatLoop pos hF k body σ2 hb h2
    · exact ResP.ok h2

theorem untilLoop_istep (pos) (hF : F pos) (c body σ) (hc : ExprIn pos c) (hb : StmtIn pos M body)
    (hσ : StIn F M N W σ) : ResIn F M N W (untilLoop cfg (f+1) c body σ) := by
  simp only [untilLoop]
  apply ResP.bindP (ih.expr pos hF c σ hc hσ)
  intro v σ1 h1
  dsimp only
  split
  · exact ResP.ok h1
  · apply ResP.bindS (ih.stmt pos hF body σ1 hb h1)
    intro σ2 h2
    apply ResP.bindP (afterBody_in h2)
    intro nxt σ3 h3
    cases nxt
    · exact ih.untilLoop pos hF c body σ3 hc hb h3
    · exact ResP.ok h3

theorem forLoop_istep (pos) (hF : F pos) (item a i len body σ) (hb : StmtIn pos M body) (hσ : StIn F M N W σ) :
    ResIn F M N W (forLoop cfg (f+1) item a i len body σ) := by
  simp only [forLoop]
  split
  · exact ResP.ok hσ
  · split
    · exact ResP.ok hσ
    · apply ResP.bindS (define_in hσ)
      intro σ1 h1
      apply ResP.bindS (ih.stmt pos hF body σ1 hb h1)
      intro σ2 h2
      apply ResP.bindP (forAfter_in h2)
      intro nxt σ3 h3
      cases nxt
      · exact ResP.ok h3
      · exact ih.forLoop pos hF item a (i+1) len body σ3 hb h3
      · dsimp only
        apply ResP.bindP (removeVar_in h3)
        intro cur σ4 h4
        exact ih.forLoop pos hF item a (i+1) len body _ hb (h4.fr (writeBack_fr σ4 a i cur))

theorem program_istep (pos) (hF : F pos) (ss σ) (hs : StmtsIn pos M ss) (hσ : StIn F M N W σ) :
    ResIn F M N W (program cfg (f+1) ss σ) := by
  cases ss with
  | nil => simp only [program]; exact ResP.ok hσ
  | cons s ss =>
    simp only [program]; simp only [StmtsIn] at hs
    apply ResP.bindS (ih.stmt pos hF s σ hs.1 hσ)
    intro σ1 h1
    exact ih.program pos hF ss σ1 hs.2 h1

include hyp in
theorem stmt_istep (pos) (hF : F pos) (s σ0) (hs : StmtIn pos M s) (hσ0 : StIn F M N W σ0) :
    ResIn F M N W (stmt cfg (f+1) s σ0) := by
  simp only [stmt]
  cases ht : tick σ0 with
  | none => exact True.intro
  | some σ =>
    have hσ : StIn F M N W σ := hσ0.fr (tick_fr ht)
    cases s with
    | expr e =>
      dsimp only; simp only [StmtIn] at hs
      apply ResP.bindP (ih.expr pos hF e σ hs hσ)
      intro v σ1 h1
      exact ResP.ok h1
    | ifs c t e it et =>
      dsimp only; simp only [StmtIn] at hs
      apply ResP.bindP (ih.expr pos hF c σ hs.1 hσ)
      intro v σ1 h1
      dsimp only
      split
      · exact ih.stmt pos hF t σ1 hs.2.1 h1
      · cases e with
        | none => exact ResP.ok h1
        | some e => exact ih.stmt pos hF e σ1 hs.2.2.1 h1
    | repeatTimes count body rt tt ct =>
      dsimp only; simp only [StmtIn] at hs
      apply ResP.bindP (ih.expr pos hF count σ hs.1 hσ)
      intro v σ1 h1
      have hct : GoodSp F (Token.span ct) := GoodSp.of hF hs.2.2.2.2.span
      cases v with
      | num n =>
        dsimp only
        refine ResP.bindS (ih.repeatLoop pos hF _ body _ hs.2.1 (h1.fr ⟨rfl, rfl, rfl⟩)) ?_
        intro σ2 h2
        exact popLoop_in h2
      | null => exact ResP.err hct
      | bool b => exact ResP.err hct
      | str x => exact ResP.err hct
      | list a => exact ResP.err hct
      | obj a => exact ResP.err hct
    | repeatUntil cond body rt ut =>
      dsimp only; simp only [StmtIn] at hs
      refine ResP.bindS (ih.untilLoop pos hF cond body _ hs.1 hs.2.1 (hσ.fr ⟨rfl, rfl, rfl⟩)) ?_
      intro σ2 h2
      exact popLoop_in h2
    | procDecl name params body exported pt nt =>
      dsimp only; simp only [StmtIn] at hs
      have hp : ProcIn F M N (Proc.user (params.map (·.1)) body) := ⟨pos, hF, hs.1⟩
      refine ResP.ok ⟨hσ.procs.insert hp, ?_, hσ.world⟩
      show TableIn F M N (if exported = true then _ else _)
      split
      · exact hσ.exports.insert hp
      · exact hσ.exports
    | ret tok value =>
      dsimp only; simp only [StmtIn] at hs
      cases value with
      | none => exact ResP.ok (hσ.fr ⟨rfl, rfl, rfl⟩)
      | some e =>
        dsimp only
        apply ResP.bindP (ih.expr pos hF e σ hs.1 hσ)
        intro v σ1 h1
        exact ResP.ok (h1.fr ⟨rfl, rfl, rfl⟩)
    | cont tok =>
      dsimp only
      split
      · exact True.intro
      · exact ResP.ok (hσ.fr ⟨rfl, rfl, rfl⟩)
    | brk tok =>
      dsimp only
      split
      · exact True.intro
      · exact ResP.ok (hσ.fr ⟨rfl, rfl, rfl⟩)
    | block lb stmts rb =>
      dsimp only; simp only [StmtIn] at hs
      apply ResP.bindS (createNested_in hσ)
      intro σ1 h1
      apply ResP.bindS (ih.block pos hF stmts σ1 hs.1 h1)
      intro σ2 h2
      exact flattenNested_in h2
    | import_ it mt ft only modName =>
      dsimp only; simp only [StmtIn] at hs
      exact importStmt_in hyp _ (fun pos' hF' prog σm hp hm => ih.program pos' hF' prog σm hp hm)
        (fun names hn t ht => GoodSp.of hF (hs.2.2.2.1 names hn t ht).span)
        (GoodSp.of hF hs.2.2.2.2.1.span) hs.2.2.2.2.2 hσ
    | forEach item itok list body ft et int lt =>
      dsimp only; simp only [StmtIn] at hs
      apply ResP.bindP (ih.expr pos hF list σ hs.1 hσ)
      intro v σ1 h1
      dsimp only
      have hlt : GoodSp F (Token.span lt) := GoodSp.of hF hs.2.2.2.2.2.2.span
      refine ResP.bindP (M := M) (N := N) (W := W) ?_ ?_
      · cases v with
        | list a => exact ResP.ok h1
        | str x => exact ResP.ok (h1.fr ⟨rfl, rfl, rfl⟩)
        | null => exact ResP.err hlt
        | bool b => exact ResP.err hlt
        | num n => exact ResP.err hlt
        | obj a => exact ResP.err hlt
      · intro a σ2 h2
        dsimp only
        apply ResP.bindP (removeVar_in h2)
        intro cached σ3 h3
        dsimp only
        refine ResP.bind (P := fun _ => True) (by split <;> exact True.intro) ?_
        intro len _
        refine ResP.bindS (ih.forLoop pos hF item a 0 len body _ hs.2.1 (h3.fr ⟨rfl, rfl, rfl⟩)) ?_
        intro σ4 h4
        apply ResP.bindS (popLoop_in h4)
        intro σ5 h5
        cases cached with
        | none => exact ResP.ok h5
        | some v => exact define_in h5

end step

/-- **every function of the evaluator model labels its runtime errors inside one of the origins**, for every fuel -/
theorem inAll (hyp : EvalHyp cfg F M N W) : ∀ f, InAll cfg F M N W f
  | 0 => inAll_zero
  | f+1 =>
    have ih := inAll hyp f
    { expr := expr_istep hyp ih, exprs := exprs_istep ih, stmt := stmt_istep hyp ih, block := block_istep ih,
      repeatLoop := repeatLoop_istep ih, untilLoop := untilLoop_istep ih, forLoop := forLoop_istep ih,
      program := program_istep ih }

end

end Aplang
