import Aplang.Model.Ast
/-!
# Syntactic facts about parsed programs that the evaluator relies on (for C10)

Two conventions between the parser and the evaluator are not visible in the types of the syntax tree:

* a call node records one byte range per argument (`argSpans`; the library reads them for the
  diagnostics of failing argument casts and indexes them by argument position);
* the module-name token of an IMPORT statement, and the tokens of its list of selected procedures, are string
  literal tokens that carry their text (`Interpreter::stmt` has an `unreachable!()` otherwise).

`EOK` / `SOK` state them for every node of an expression / statement. `Proofs/ParserOK.lean` proves them for
everything the parser accepts from a token list whose literal tokens carry their literals.
-/
namespace Aplang

/-- the token carries a string literal -/
def TokStr (t : Token) : Prop := ∃ v, t.lit = .str v

mutual
/-- every call node of the expression has as many argument spans as arguments -/
def EOK : Expr → Prop
  | .lit _ _ => True
  | .binary l _ r _ => EOK l ∧ EOK r
  | .logical l _ r _ => EOK l ∧ EOK r
  | .unary _ r _ => EOK r
  | .grouping e _ _ => EOK e
  | .call _ args spans _ _ _ => spans.length = args.length ∧ EsOK args
  | .access l _ k _ _ => EOK l ∧ EOK k
  | .list items _ _ => EsOK items
  | .var _ _ => True
  | .assign _ _ v _ => EOK v
  | .set l _ i _ _ v _ => EOK l ∧ EOK i ∧ EOK v
def EsOK : List Expr → Prop
  | [] => True
  | e :: es => EOK e ∧ EsOK es
end

def EOptOK : Option Expr → Prop
  | none => True
  | some e => EOK e

mutual
/-- every expression of the statement is `EOK`; the tokens of every IMPORT carry their strings -/
def SOK : Stmt → Prop
  | .expr e => EOK e
  | .ifs c t e _ _ => EOK c ∧ SOK t ∧ SOptOK e
  | .repeatTimes c b _ _ _ => EOK c ∧ SOK b
  | .repeatUntil c b _ _ => EOK c ∧ SOK b
  | .forEach _ _ l b _ _ _ _ => EOK l ∧ SOK b
  | .procDecl _ _ b _ _ _ => SOK b
  | .block _ ss _ => SsOK ss
  | .ret _ v => EOptOK v
  | .cont _ => True
  | .brk _ => True
  | .import_ _ _ _ only modName => TokStr modName ∧ ∀ names, only = some names → ∀ t ∈ names, TokStr t
def SOptOK : Option Stmt → Prop
  | none => True
  | some s => SOK s
def SsOK : List Stmt → Prop
  | [] => True
  | s :: ss => SOK s ∧ SsOK ss
end

theorem EsOK_iff (es : List Expr) : EsOK es ↔ ∀ e ∈ es, EOK e := by
  induction es with
  | nil => simp [EsOK]
  | cons e es ih => simp [EsOK, ih]

theorem SsOK_iff (ss : List Stmt) : SsOK ss ↔ ∀ s ∈ ss, SOK s := by
  induction ss with
  | nil => simp [SsOK]
  | cons s ss ih => simp [SsOK, ih]

theorem EsOK_append (a b : List Expr) : EsOK (a ++ b) ↔ EsOK a ∧ EsOK b := by
  simp only [EsOK_iff, List.mem_append]
  constructor
  · intro h; exact ⟨fun e he => h e (Or.inl he), fun e he => h e (Or.inr he)⟩
  · rintro ⟨h1, h2⟩ e (he | he)
    · exact h1 e he
    · exact h2 e he

theorem SsOK_append (a b : List Stmt) : SsOK (a ++ b) ↔ SsOK a ∧ SsOK b := by
  simp only [SsOK_iff, List.mem_append]
  constructor
  · intro h; exact ⟨fun e he => h e (Or.inl he), fun e he => h e (Or.inr he)⟩
  · rintro ⟨h1, h2⟩ e (he | he)
    · exact h1 e he
    · exact h2 e he

end Aplang
