import Aplang.Proofs.FloatIndex
import Aplang.Proofs.FloatTextDefs
import Mathlib.Tactic.Ring
/-!
# Correct rounding from the definitions of the `Float.Model` (piece 3 of `display_reads_back`)

`roundWithAccuracy binary64 .positive M E acc` — the single rounding step behind `mul`, `div` and `ofScientific` — is
round-to-nearest-even of the exact value `(M + num/den) · 2^E` (`acc = accuracyOfFraction num den`): `rwa_spec`.
Hence (`rwa_round`): if that value lies in the rounding interval of the canonical double `m · 2^e`, the result is
`.finite .positive m e`. `mul_round` / `div_round` are the two instances used by `Float.ofScientific`.
-/
set_option linter.unusedSimpArgs false
set_option linter.unnecessarySeqFocus false

namespace Aplang.FloatText
open Float.Model Float.Model.UnpackedFloat Aplang.FloatIndex

/-- `em` is the truncation of `N / D` together with its two residual bits -/
structure Rep (em : ExtendedMantissa) (N D : Nat) : Prop where
  mant : em.mantissa = N / D
  rb : em.roundBit = true ↔ D ≤ 2 * (N % D)
  sb : em.stickyBit = true ↔ (N % D ≠ 0 ∧ 2 * (N % D) ≠ D)

theorem rep_init (M num den : Nat) (h : num < den) :
    Rep (ExtendedMantissa.ofMantissaAndAccuracy M (accuracyOfFraction num den)) (M * den + num) den := by
  have hq : (M * den + num) / den = M := by
    rw [Nat.mul_comm, Nat.mul_add_div (by omega), Nat.div_eq_of_lt h, Nat.add_zero]
  have hr : (M * den + num) % den = num := by
    rw [Nat.mul_comm, Nat.mul_add_mod, Nat.mod_eq_of_lt h]
  unfold accuracyOfFraction
  by_cases h0 : num = 0
  · subst h0
    simp only [if_true, ExtendedMantissa.ofMantissaAndAccuracy]
    exact ⟨hq.symm, by simp [hr]; omega, by simp [hr]⟩
  · simp only [h0, if_false]
    rcases Nat.lt_trichotomy (2 * num) den with hlt | heq | hgt
    · rw [Nat.compare_eq_lt.mpr hlt]
      exact ⟨hq.symm, by simp [hr, ExtendedMantissa.ofMantissaAndAccuracy]; omega,
        by simp [hr, ExtendedMantissa.ofMantissaAndAccuracy]; omega⟩
    · rw [Nat.compare_eq_eq.mpr heq]
      exact ⟨hq.symm, by simp [hr, ExtendedMantissa.ofMantissaAndAccuracy]; omega,
        by simp [hr, ExtendedMantissa.ofMantissaAndAccuracy]; omega⟩
    · rw [Nat.compare_eq_gt.mpr hgt]
      exact ⟨hq.symm, by simp [hr, ExtendedMantissa.ofMantissaAndAccuracy]; omega,
        by simp [hr, ExtendedMantissa.ofMantissaAndAccuracy]; omega⟩

theorem mod_two_mul (N D : Nat) (hD : 0 < D) : N % (2 * D) = (N / D % 2) * D + N % D := by
  have h1 := Nat.div_add_mod N D
  have h2 := Nat.div_add_mod (N / D) 2
  have h3 : N / (2 * D) = N / D / 2 := by rw [Nat.mul_comm, Nat.div_div_eq_div_mul]
  have h4 := Nat.div_add_mod N (2 * D)
  have h5 : N % D < D := Nat.mod_lt _ hD
  have h6 : N / D % 2 < 2 := Nat.mod_lt _ (by decide)
  rw [h3] at h4
  -- N = D * (N/D) + N%D, N/D = 2 * (N/D/2) + b
  generalize N / D / 2 = q2 at *
  generalize N / D % 2 = b at *
  generalize N / D = q at *
  generalize N % D = r at *
  generalize N % (2 * D) = r2 at *
  subst h2
  have : 2 * D * q2 + r2 = D * (2 * q2 + b) + r := by rw [h4, h1]
  have e : D * (2 * q2 + b) = 2 * D * q2 + b * D := by ring
  omega

theorem rep_step (em : ExtendedMantissa) (N D : Nat) (hD : 0 < D) (h : Rep em N D) :
    Rep em.shiftRightOne N (2 * D) := by
  obtain ⟨mt, r, st⟩ := em
  obtain ⟨h1, h2, h3⟩ := h
  simp only at h1 h2 h3
  have hm := mod_two_mul N D hD
  have h5 : N % D < D := Nat.mod_lt _ hD
  have h6 : N / D % 2 < 2 := Nat.mod_lt _ (by decide)
  refine ⟨?_, ?_, ?_⟩
  · simp only [ExtendedMantissa.shiftRightOne, h1]
    rw [Nat.mul_comm, Nat.div_div_eq_div_mul]
  · simp only [ExtendedMantissa.shiftRightOne, h1]
    rcases Nat.mod_two_eq_zero_or_one (N / D) with hb | hb <;> rw [hb] at hm <;> simp only [hb, hm] <;>
      simp <;> omega
  · simp only [ExtendedMantissa.shiftRightOne, Bool.or_eq_true, h2, h3]
    rcases Nat.mod_two_eq_zero_or_one (N / D) with hb | hb <;> rw [hb] at hm <;> simp only [hm] <;> omega

theorem rep_shift (em : ExtendedMantissa) (N D : Nat) (hD : 0 < D) (h : Rep em N D) (k : Nat) :
    Rep (em >>> k) N (2 ^ k * D) := by
  show Rep (Nat.repeat ExtendedMantissa.shiftRightOne k em) N (2 ^ k * D)
  induction k with
  | zero => simpa [Nat.repeat] using h
  | succ k ih =>
    have := rep_step _ N (2 ^ k * D) (Nat.mul_pos (Nat.two_pow_pos k) hD) ih
    rw [← Nat.mul_assoc, ← Nat.pow_succ'] at this
    exact this

/-- round-to-nearest-even of `N / D` -/
def rne (N D : Nat) : Nat :=
  if 2 * (N % D) < D then N / D else if 2 * (N % D) = D then N / D + N / D % 2 else N / D + 1

theorem rep_rounded (em : ExtendedMantissa) (N D : Nat) (hD : 0 < D) (h : Rep em N D) :
    em.roundedMantissa = rne N D := by
  obtain ⟨m, r, s⟩ := em
  obtain ⟨h1, h2, h3⟩ := h
  simp only at h1 h2 h3
  subst h1
  unfold rne
  cases r <;> cases s <;>
    simp only [ExtendedMantissa.roundedMantissa, ExtendedMantissa.accuracy, Accuracy.roundToNearestEven] <;>
    simp at h2 h3 <;> (repeat' split) <;> omega

/-- the exponent at which `M · 2^E` is rounded -/
def tgt (M : Nat) (E : Int) : Int := max (E + (M.log2 : Int) - 52) (-1074)

theorem target_eq (M : Nat) (E : Int) : Format.binary64.targetExponent (totalExponent M E) = tgt M E := by
  simp only [Format.targetExponent, totalExponent, Format.mantissaBits, Format.minExponent, tgt]
  omega

/-- `roundWithAccuracy` computes: round-to-nearest-even of `(M + num/den) / 2^k` at the target exponent -/
theorem rwa_spec (M : Nat) (E : Int) (num den : Nat) (hnd : num < den) (hE : E ≤ tgt M E) :
    roundWithAccuracy Format.binary64 .positive M E (accuracyOfFraction num den) =
      finish (rne (M * den + num) (2 ^ (tgt M E - E).toNat * den)) (tgt M E) := by
  rw [rwa_eq_finish]
  have hst : shiftToTargetExponent Format.binary64 M E (accuracyOfFraction num den) =
      (ExtendedMantissa.ofMantissaAndAccuracy M (accuracyOfFraction num den) >>> (tgt M E - E).toNat,
        E + ((tgt M E - E).toNat : Int)) := by
    unfold shiftToTargetExponent shiftToExponent
    simp only [target_eq]
  rw [hst]
  simp only []
  have hden : 0 < den := by omega
  rw [rep_rounded _ _ _ (Nat.mul_pos (Nat.two_pow_pos _) hden) (rep_shift _ _ _ hden (rep_init M num den hnd) _)]
  congr 1
  omega

theorem finish_sub (r : Nat) (h0 : 0 < r) (h : r < 2 ^ 52) :
    ∃ h', finish r (-1074) = .finite .positive r (-1074) h' := by
  have hl : r.log2 < 52 := (Nat.log2_lt (by omega)).mpr h
  have ht : Format.binary64.targetExponent (totalExponent r (-1074)) = -1074 := by
    rw [target_eq, tgt]; omega
  have hr : r ≠ 0 := by omega
  unfold finish shiftToTargetExponent shiftToExponent
  have hs : ((-1074 : Int) - -1074).toNat = 0 := by decide
  simp only [ht, hs, shr_zero, ExtendedMantissa.ofMantissaAndAccuracy, hr, dite_false]
  have hz : (-1074 : Int) + ((0 : Nat) : Int) = -1074 := by decide
  simp only [hz]
  exact ⟨by omega, trivial⟩

theorem finish_canon (m : Nat) (e : Int) (hc : Canon m e) : ∃ h, finish m e = .finite .positive m e h := by
  by_cases hn : 2 ^ 52 ≤ m
  · exact finish_canonical m e hn hc.lt hc.elo
  · have he : e = -1074 := by
      apply Classical.byContradiction; intro h; exact hn (hc.norm h)
    subst he
    exact finish_sub m hc.pos (by omega)

/-- rounding `N / W` to nearest even gives `m` when `N / W ∈ [m - 1/2, m + 1/2]` (ends only if `m` is even) -/
theorem rne_eq_of_interval (N W m : Nat) (hW : 0 < W) (hm : 0 < m)
    (hlo : (4 * m - 2) * W ≤ 4 * N) (hhi : 4 * N ≤ (4 * m + 2) * W)
    (hodd : m % 2 = 1 → (4 * m - 2) * W < 4 * N ∧ 4 * N < (4 * m + 2) * W) : rne N W = m := by
  have hN := Nat.div_add_mod N W
  have hr : N % W < W := Nat.mod_lt _ hW
  have e1 : (4 * m - 2) * W = 4 * (W * m) - 2 * W := by
    rw [Nat.sub_mul]; congr 1; ring
  have e2 : (4 * m + 2) * W = 4 * (W * m) + 2 * W := by ring
  have hP : W ≤ W * m := Nat.le_mul_of_pos_right W hm
  rw [e1] at hlo hodd
  rw [e2] at hhi hodd
  have hq1 : N / W ≤ m := by
    apply Classical.byContradiction; intro hcon
    have : W * (m + 1) ≤ W * (N / W) := Nat.mul_le_mul_left W (by omega)
    rw [Nat.mul_succ] at this
    omega
  have hq2 : m - 1 ≤ N / W := by
    apply Classical.byContradiction; intro hcon
    have : W * (N / W + 2) ≤ W * m := Nat.mul_le_mul_left W (by omega)
    rw [Nat.mul_add] at this
    omega
  unfold rne
  rcases (by omega : N / W = m ∨ N / W + 1 = m) with hq | hq
  · rw [hq] at hN ⊢
    split
    · rfl
    · split
      · have : ¬ (m % 2 = 1) := by intro ho; have := (hodd ho).2; omega
        omega
      · omega
  · have e3 : W * m = W * (N / W) + W := by rw [← hq, Nat.mul_succ]
    split
    · omega
    · split
      · have : ¬ (m % 2 = 1) := by intro ho; have := (hodd ho).1; omega
        omega
      · omega

/-- the lower binade: `N / W' ∈ [2^53 - 1/2, 2^53)` rounds to `2^53` -/
theorem rne_eq_overflow (N W : Nat) (hW : 0 < W) (hlo : (2 ^ 54 - 1) * W ≤ 2 * N) (hhi : N < 2 ^ 53 * W) :
    rne N W = 2 ^ 53 := by
  have hN := Nat.div_add_mod N W
  have hr : N % W < W := Nat.mod_lt _ hW
  have hq1 : N / W < 2 ^ 53 := (Nat.div_lt_iff_lt_mul hW).mpr hhi
  have e1 : (2 ^ 54 - 1) * W = 2 ^ 54 * W - W := by rw [Nat.sub_mul, Nat.one_mul]
  have hq2 : 2 ^ 53 - 1 ≤ N / W := by
    apply Classical.byContradiction; intro hcon
    have : W * (N / W + 2) ≤ W * 2 ^ 53 := Nat.mul_le_mul_left W (by omega)
    rw [Nat.mul_add] at this
    have e2 : 2 ^ 54 * W = 2 * (W * 2 ^ 53) := by ring
    omega
  have hq : N / W = 2 ^ 53 - 1 := by omega
  have e3 : 2 ^ 54 * W = 2 * (W * (2 ^ 53 - 1)) + 2 * W := by
    have : (2:Nat) ^ 54 = 2 * (2 ^ 53 - 1) + 2 := by decide
    rw [this]; ring
  unfold rne
  rw [hq] at hN ⊢
  split
  · omega
  · split
    · decide
    · decide

theorem log2_lt_of_lt (M k : Nat) (h : M < 2 ^ k) : M = 0 ∨ M.log2 < k := by
  by_cases h0 : M = 0
  · exact Or.inl h0
  · exact Or.inr ((Nat.log2_lt h0).mpr h)

theorem tgt_le (M : Nat) (E : Int) (j : Nat) (e : Int) (he : -1074 ≤ e) (hj : E + j = e) (h : M < 2 ^ (53 + j)) :
    tgt M E ≤ e := by
  unfold tgt
  rcases log2_lt_of_lt M _ h with h0 | h0
  · subst h0; simp only [Nat.log2_zero]; omega
  · omega

theorem tgt_ge (M : Nat) (E : Int) (a : Nat) (h : 2 ^ a ≤ M) : E + a - 52 ≤ tgt M E := by
  have hM : M ≠ 0 := by have := Nat.two_pow_pos a; omega
  have := (Nat.le_log2 hM).mpr h
  unfold tgt; omega

/-- **the rounding step is correct**: if the exact value `(M + num/den) · 2^E` lies in the rounding interval of the
canonical double `m · 2^e`, `roundWithAccuracy` returns that double -/
theorem rwa_round (m : Nat) (e : Int) (hc : Canon m e) (M : Nat) (E : Int) (num den : Nat) (hnd : num < den)
    (hM : 52 ≤ M.log2 ∨ E ≤ -1074)
    (hlo : Le2 (l4 m (asymOf m e) * den) (e - 2) (M * den + num) E)
    (hhi : Le2 (M * den + num) E (h4 m * den) (e - 2))
    (hodd : m % 2 = 1 → Lt2 (l4 m (asymOf m e) * den) (e - 2) (M * den + num) E ∧
      Lt2 (M * den + num) E (h4 m * den) (e - 2)) :
    ∃ h, roundWithAccuracy Format.binary64 .positive M E (accuracyOfFraction num den) = .finite .positive m e h := by
  have hden : 0 < den := by omega
  obtain ⟨hm0, hm53, hel, ehi, hnorm⟩ := hc
  have hc : Canon m e := ⟨hm0, hm53, hel, ehi, hnorm⟩
  generalize hNdef : M * den + num = N at *
  have hN1 : M * den ≤ N := by omega
  have hN2 : N < (M + 1) * den := by rw [Nat.add_mul]; omega
  have hM52 : 52 ≤ M.log2 → 2 ^ 52 ≤ M := by
    intro h
    have hM0 : M ≠ 0 := by intro h0; subst h0; simp at h
    exact Nat.le_trans (Nat.pow_le_pow_right (by decide) h) (Nat.log2_self_le hM0)
  -- 1. E ≤ e
  have hEe : E ≤ e := by
    apply Classical.byContradiction; intro hcon
    have h52 : 2 ^ 52 ≤ M := hM52 (by omega)
    rw [le2_iff _ _ _ _ (e - 2) (by omega) (by omega)] at hhi
    have e0 : (e - 2 - (e - 2)).toNat = 0 := by omega
    rw [e0, Nat.pow_zero, Nat.mul_one] at hhi
    have h8 : 2 ^ 3 ≤ 2 ^ (E - (e - 2)).toNat := Nat.pow_le_pow_right (by decide) (by omega)
    have h1 : 2 ^ 52 * den * 2 ^ 3 ≤ N * 2 ^ (E - (e - 2)).toNat :=
      Nat.mul_le_mul (Nat.le_trans (Nat.mul_le_mul_right den h52) hN1) h8
    have h2 : 2 ^ 55 * den ≤ h4 m * den := by
      have : 2 ^ 52 * den * 2 ^ 3 = 2 ^ 55 * den := by ring
      omega
    have := Nat.le_of_mul_le_mul_right h2 hden
    unfold h4 at this; omega
  -- 2. natural-number form of the hypotheses, in units `2^(E-2)`
  obtain ⟨j, hj⟩ : ∃ j : Nat, E + j = e := ⟨(e - E).toNat, by omega⟩
  have ej1 : (e - 2 - (E - 2)).toNat = j := by omega
  have ej2 : (E - (E - 2)).toNat = 2 := by omega
  rw [le2_iff _ _ _ _ (E - 2) (by omega) (by omega), ej1, ej2] at hlo hhi
  rw [lt2_iff _ _ _ _ (E - 2) (by omega) (by omega), lt2_iff _ _ _ _ (E - 2) (by omega) (by omega), ej1, ej2] at hodd
  generalize hWdef : 2 ^ j * den = W at *
  have hW : 0 < W := by rw [← hWdef]; exact Nat.mul_pos (Nat.two_pow_pos j) hden
  have a1 : ∀ x : Nat, x * den * 2 ^ j = x * W := by intro x; rw [← hWdef]; ring
  have a2 : N * 2 ^ 2 = 4 * N := by omega
  rw [a1, a2] at hlo hhi
  simp only [a1, a2] at hodd
  have hl4 : (4 * m - 2) * W ≤ l4 m (asymOf m e) * W := by
    apply Nat.mul_le_mul_right; unfold l4; split <;> omega
  -- M < 2^(53+j)
  have hMhi : M < 2 ^ (53 + j) := by
    have h1 : 4 * (M * den) ≤ (4 * m + 2) * (2 ^ j * den) := by unfold h4 at hhi; rw [hWdef]; omega
    have h2 : (4 * M) * den ≤ ((4 * m + 2) * 2 ^ j) * den := by
      have : 4 * (M * den) = (4 * M) * den := by ring
      have : (4 * m + 2) * (2 ^ j * den) = ((4 * m + 2) * 2 ^ j) * den := by ring
      omega
    have h3 := Nat.le_of_mul_le_mul_right h2 hden
    have h4' : (4 * m + 2) * 2 ^ j < 2 ^ 55 * 2 ^ j := Nat.mul_lt_mul_of_pos_right (by omega) (Nat.two_pow_pos j)
    have : (2:Nat) ^ 55 * 2 ^ j = 4 * 2 ^ (53 + j) := by rw [Nat.pow_add]; ring
    omega
  have htle := tgt_le M E j e hel hj hMhi
  by_cases hA : e = -1074 ∨ 2 ^ 52 * W ≤ N
  · -- same binade
    have htge : e ≤ tgt M E := by
      rcases hA with hA | hA
      · unfold tgt; omega
      · have h1 : 2 ^ (52 + j) * den < (M + 1) * den := by
          have : 2 ^ (52 + j) * den = 2 ^ 52 * W := by rw [← hWdef, Nat.pow_add]; ring
          omega
        have h2 := Nat.lt_of_mul_lt_mul_right h1
        have := tgt_ge M E (52 + j) (by omega)
        omega
    have ht : tgt M E = e := by omega
    have hk : (tgt M E - E).toNat = j := by omega
    rw [rwa_spec M E num den hnd (by omega), hNdef, hk, hWdef, ht]
    have hr : rne N W = m := by
      apply rne_eq_of_interval N W m hW hm0 (Nat.le_trans hl4 hlo) (by unfold h4 at hhi; exact hhi)
      intro ho
      have := hodd ho
      unfold h4 at this
      exact ⟨Nat.lt_of_le_of_lt hl4 this.1, this.2⟩
    rw [hr]
    exact finish_canon m e hc
  · -- the value is just below the binade of `m · 2^e`
    have hA1 : e ≠ -1074 := fun h => hA (Or.inl h)
    have hA2 : N < 2 ^ 52 * W := by
      apply Classical.byContradiction; intro h; exact hA (Or.inr (by omega))
    have hm52 : 2 ^ 52 ≤ m := hnorm hA1
    have hlW : l4 m (asymOf m e) < 2 ^ 54 := by
      have h1 : l4 m (asymOf m e) * W < 2 ^ 54 * W := by
        have : 2 ^ 54 * W = 4 * (2 ^ 52 * W) := by ring
        omega
      exact Nat.lt_of_mul_lt_mul_right h1
    have hmeq : m = 2 ^ 52 := by unfold l4 at hlW; split at hlW <;> omega
    have hasym : asymOf m e = true := by simp [asymOf, hmeq, hA1]
    rw [hasym] at hlo
    simp only [l4, if_true] at hlo
    subst hmeq
    have hj1 : 1 ≤ j := by
      rcases hM with h | h
      · have h52 := hM52 h
        apply Classical.byContradiction; intro hcon
        have hj0 : j = 0 := by omega
        subst hj0
        have : 2 ^ 52 * den ≤ M * den := Nat.mul_le_mul_right den h52
        rw [← hWdef] at hA2
        omega
      · omega
    obtain ⟨j', rfl⟩ : ∃ j', j = j' + 1 := ⟨j - 1, by omega⟩
    generalize hW'def : 2 ^ j' * den = W' at *
    have hWW : W = 2 * W' := by rw [← hWdef, ← hW'def, Nat.pow_succ]; ring
    have hW' : 0 < W' := by omega
    subst hWW
    have hMhi' : M < 2 ^ (53 + j') := by
      have h1 : M * den < 2 ^ (53 + j') * den := by
        have : 2 ^ (53 + j') * den = 2 ^ 52 * (2 * W') := by rw [← hW'def, Nat.pow_add]; ring
        omega
      exact Nat.lt_of_mul_lt_mul_right h1
    have hMlo : 2 ^ (52 + j') ≤ M := by
      apply Classical.byContradiction; intro hcon
      have h1 : (M + 1) * den ≤ 2 ^ (52 + j') * den := Nat.mul_le_mul_right den (by omega)
      have h2 : 2 ^ (52 + j') * den = 2 ^ 52 * W' := by rw [← hW'def, Nat.pow_add]; ring
      have h3 : (4 * 2 ^ 52 - 1) * (2 * W') = 2 ^ 55 * W' - 2 * W' := by
        have : (4 * 2 ^ 52 - 1 : Nat) = 2 ^ 54 - 1 := by decide
        rw [this, Nat.sub_mul]
        have : 2 ^ 54 * (2 * W') = 2 ^ 55 * W' := by ring
        omega
      have h4' : 2 ^ 55 * W' = 8 * (2 ^ 52 * W') := by ring
      omega
    have ht : tgt M E = e - 1 := by
      have h1 := tgt_ge M E (52 + j') hMlo
      have h2 := tgt_le M E j' (e - 1) (by omega) (by omega) hMhi'
      omega
    have hk : (tgt M E - E).toNat = j' := by omega
    rw [rwa_spec M E num den hnd (by omega), hNdef, hk, hW'def, ht]
    have hr : rne N W' = 2 ^ 53 := by
      apply rne_eq_overflow N W' hW'
      · have h3 : (4 * 2 ^ 52 - 1) * (2 * W') = 2 * ((2 ^ 54 - 1) * W') := by
          have : (4 * 2 ^ 52 - 1 : Nat) = 2 ^ 54 - 1 := by decide
          rw [this]; ring
        omega
      · have : 2 ^ 53 * W' = 2 ^ 52 * (2 * W') := by ring
        omega
    rw [hr]
    obtain ⟨h, hf⟩ := finish_overflow (e - 1) (by omega)
    have he1 : e - 1 + 1 = e := by omega
    rw [he1] at hf
    exact ⟨h, hf⟩

/-- **multiplication rounds correctly** -/
theorem mul_round (m : Nat) (e : Int) (hc : Canon m e) (m1 : Nat) (e1 : Int) (m2 : Nat) (e2 : Int)
    (h1 : 0 < m1) (h2 : 0 < m2) (hM : 52 ≤ (m1 * m2).log2 ∨ e1 + e2 ≤ -1074)
    (hlo : Le2 (l4 m (asymOf m e)) (e - 2) (m1 * m2) (e1 + e2))
    (hhi : Le2 (m1 * m2) (e1 + e2) (h4 m) (e - 2))
    (hodd : m % 2 = 1 → Lt2 (l4 m (asymOf m e)) (e - 2) (m1 * m2) (e1 + e2) ∧
      Lt2 (m1 * m2) (e1 + e2) (h4 m) (e - 2)) :
    ∃ h, UnpackedFloat.mul Format.binary64 (.finite .positive m1 e1 h1) (.finite .positive m2 e2 h2) =
      .finite .positive m e h := by
  have hm : UnpackedFloat.mul Format.binary64 (.finite .positive m1 e1 h1) (.finite .positive m2 e2 h2) =
      roundWithAccuracy Format.binary64 .positive (m1 * m2) (e1 + e2) (accuracyOfFraction 0 1) := rfl
  rw [hm]
  apply rwa_round m e hc (m1 * m2) (e1 + e2) 0 1 (by decide) hM
  · simpa using hlo
  · simpa using hhi
  · simpa using hodd

/-- **division rounds correctly** -/
theorem div_round (m : Nat) (e : Int) (hc : Canon m e) (m1 : Nat) (e1 : Int) (m2 : Nat) (e2 : Int)
    (h1 : 0 < m1) (h2 : 0 < m2)
    (hlo : Le2 (l4 m (asymOf m e) * m2) (e - 2) m1 (e1 - e2))
    (hhi : Le2 m1 (e1 - e2) (h4 m * m2) (e - 2))
    (hodd : m % 2 = 1 → Lt2 (l4 m (asymOf m e) * m2) (e - 2) m1 (e1 - e2) ∧
      Lt2 m1 (e1 - e2) (h4 m * m2) (e - 2)) :
    ∃ h, UnpackedFloat.div Format.binary64 (.finite .positive m1 e1 h1) (.finite .positive m2 e2 h2) =
      .finite .positive m e h := by
  generalize htE : min (e1 - e2) (Format.binary64.targetExponent (totalExponent m1 e1 - totalExponent m2 e2)) = tE
  generalize hsh : (e1 - e2 - tE).toNat = sh
  have hd : UnpackedFloat.div Format.binary64 (.finite .positive m1 e1 h1) (.finite .positive m2 e2 h2) =
      roundWithAccuracy Format.binary64 .positive (m1 * 2 ^ sh / m2) tE
        (accuracyOfFraction (m1 * 2 ^ sh % m2) m2) := by
    simp only [UnpackedFloat.div, divCore, htE, hsh, Nat.shiftLeft_eq]
    rfl
  rw [hd]
  have htle : tE ≤ e1 - e2 := by omega
  have hsum : tE + (sh : Int) = e1 - e2 := by omega
  have hN : m1 * 2 ^ sh / m2 * m2 + m1 * 2 ^ sh % m2 = m1 * 2 ^ sh := by
    rw [Nat.mul_comm]; exact Nat.div_add_mod _ _
  apply rwa_round m e hc _ tE _ m2 (Nat.mod_lt _ h2)
  · -- enough bits
    by_cases hlow : tE ≤ -1074
    · exact Or.inr hlow
    · left
      have ht : tE ≤ (totalExponent m1 e1 - totalExponent m2 e2) - 53 := by
        simp only [Format.targetExponent, Format.mantissaBits, Format.minExponent] at htE
        omega
      simp only [totalExponent] at ht
      have hsh' : 53 + m2.log2 ≤ m1.log2 + sh := by omega
      have g1 : 2 ^ m1.log2 ≤ m1 := Nat.log2_self_le (by omega)
      have g2 : m2 < 2 ^ (m2.log2 + 1) := Nat.lt_log2_self
      have g3 : 2 ^ (53 + m2.log2) ≤ m1 * 2 ^ sh := by
        calc 2 ^ (53 + m2.log2) ≤ 2 ^ (m1.log2 + sh) := Nat.pow_le_pow_right (by decide) hsh'
          _ = 2 ^ m1.log2 * 2 ^ sh := Nat.pow_add _ _ _
          _ ≤ m1 * 2 ^ sh := Nat.mul_le_mul_right _ g1
      have g4 : 2 ^ 52 * m2 ≤ m1 * 2 ^ sh := by
        have : 2 ^ (53 + m2.log2) = 2 ^ 52 * 2 ^ (m2.log2 + 1) := by rw [← Nat.pow_add]; congr 1; omega
        have : 2 ^ 52 * m2 ≤ 2 ^ 52 * 2 ^ (m2.log2 + 1) := Nat.mul_le_mul_left _ (by omega)
        omega
      have g5 : 2 ^ 52 ≤ m1 * 2 ^ sh / m2 := (Nat.le_div_iff_mul_le h2).mpr g4
      exact (Nat.le_log2 (by omega)).mpr g5
  · rw [hN, le2_pow_right, hsum]; exact hlo
  · rw [hN, le2_pow_left, hsum]; exact hhi
  · rw [hN, lt2_pow_right, lt2_pow_left, hsum]; exact hodd

end Aplang.FloatText
