import Aplang.Proofs.FloatTextRead
import Aplang.Proofs.FloatTextPick
import Aplang.Proofs.FloatTextBits
import Aplang.Proofs.FloatTextParse
/-!
# `F64.parse (F64.fmt x) = some x` for every `Float` (assembly of the pieces of `display_reads_back`)

* `shortest_inside` / `printed_inside`: the digits that `fmt` prints are a decimal inside the rounding interval of `x`
  (pieces 2 and 4: `FloatTextPick`; the integer branch `smallInt?` prints `x` itself);
* `FloatTextParse.parse_positional`: the parser reads the text as exactly that decimal, handed to `Float.ofScientific`;
* `FloatTextRead.readBack_correct`: `Float.ofScientific` is correctly rounded (piece 3, from the toolchain definitions);
* `FloatTextBits`: bit fields vs. the unpacked model, special values.
-/
set_option linter.unusedSimpArgs false
namespace Aplang.FloatText
open Float.Model Float.Model.UnpackedFloat

/-- the digits `shortest` returns are a decimal inside the rounding interval -/
theorem shortest_inside (ab : UInt64) (hz : ab ≠ 0) (he : F64.expField ab ≠ 0x7FF)
    (hc : Canon (F64.decompose ab).1 (F64.decompose ab).2) :
    0 < (F64.shortest ab).1 ∧
    Inside (F64.decompose ab).1 (F64.decompose ab).2 (asymOf (F64.decompose ab).1 (F64.decompose ab).2)
      (F64.shortest ab).1 (F64.shortest ab).2 ∧
    -340 ≤ (F64.shortest ab).2 ∧ (F64.shortest ab).2 ≤ 309 := by
  unfold F64.shortest
  cases hs : F64.smallInt? ab with
  | some n =>
    obtain ⟨h1, h2, h3⟩ := smallInt_spec ab n hs
    simp only []
    exact ⟨h3, inside_self _ _ _ n hc.pos h1 h2, by decide, by decide⟩
  | none =>
    simp only []
    have hg : F64.shortestGen ab =
        F64.pick (F64.scale (F64.decompose ab).1 (F64.decompose ab).2 (asymOf (F64.decompose ab).1 (F64.decompose ab).2))
          19 1000000000000000000
          ((F64.scale (F64.decompose ab).1 (F64.decompose ab).2
            (asymOf (F64.decompose ab).1 (F64.decompose ab).2)).s0 + 18) := by
      unfold F64.shortestGen
      simp only [asym_flag ab hz he]
    rw [hg]
    exact shortestGen_inside _ _ hc _ _ rfl

/-- the digits that are printed (`stripZeros` of `shortest`) -/
theorem printed_inside (ab : UInt64) (hz : ab ≠ 0) (he : F64.expField ab ≠ 0x7FF)
    (hc : Canon (F64.decompose ab).1 (F64.decompose ab).2) :
    0 < (F64.stripZeros 20 (F64.shortest ab).1 (F64.shortest ab).2).1 ∧
    Inside (F64.decompose ab).1 (F64.decompose ab).2 (asymOf (F64.decompose ab).1 (F64.decompose ab).2)
      (F64.stripZeros 20 (F64.shortest ab).1 (F64.shortest ab).2).1
      (F64.stripZeros 20 (F64.shortest ab).1 (F64.shortest ab).2).2 ∧
    -340 ≤ (F64.stripZeros 20 (F64.shortest ab).1 (F64.shortest ab).2).2 ∧
    (F64.stripZeros 20 (F64.shortest ab).1 (F64.shortest ab).2).2 ≤ 329 := by
  obtain ⟨h1, h2, h3, h4⟩ := shortest_inside ab hz he hc
  obtain ⟨g1, g2, g3, g4⟩ := stripZeros_spec 20 (F64.shortest ab).1 (F64.shortest ab).2
  refine ⟨g4 h1, ?_, by omega, by omega⟩
  rw [← g1, inside_shift] at h2
  have : (F64.shortest ab).2 +
      (((F64.stripZeros 20 (F64.shortest ab).1 (F64.shortest ab).2).2 - (F64.shortest ab).2).toNat : Int) =
      (F64.stripZeros 20 (F64.shortest ab).1 (F64.shortest ab).2).2 := by omega
  rw [this] at h2
  exact h2

theorem fmtBits_finite (b : UInt64) (he : F64.expField b ≠ 0x7FF) (hz : b &&& F64.absMask ≠ 0) :
    F64.fmtBits b = (if F64.signBit b then ['-'] else []) ++
      F64.positional (Nat.toDigits 10
        (F64.stripZeros 20 (F64.shortest (b &&& F64.absMask)).1 (F64.shortest (b &&& F64.absMask)).2).1)
        (F64.stripZeros 20 (F64.shortest (b &&& F64.absMask)).1 (F64.shortest (b &&& F64.absMask)).2).2 := by
  unfold F64.fmtBits
  have h1 : (F64.expField b == 0x7FF) = false := by simpa using he
  have h2 : (b &&& F64.absMask == 0) = false := by simpa using hz
  simp only [h1, h2, Bool.false_eq_true, if_false]

/-- **finite non-zero doubles read back** -/
theorem fmt_parse_finite (x : Float) (he : F64.expField x.toBits ≠ 0x7FF) (hz : x.toBits &&& F64.absMask ≠ 0) :
    F64.parse (F64.fmt x) = some x := by
  obtain ⟨hc, hm0, hu⟩ := unpack_finite x he hz
  have he' : F64.expField (x.toBits &&& F64.absMask) ≠ 0x7FF := by rw [expField_abs]; exact he
  obtain ⟨hd, hin, hs1, hs2⟩ := printed_inside (x.toBits &&& F64.absMask) hz he' hc
  unfold F64.fmt
  rw [fmtBits_finite _ he hz, parse_positional _ _ _ hd (by omega)]
  obtain ⟨h, hr⟩ := readBack_correct _ _ hc _ _ hd (by omega) hin
  have hx := float_eq_of_unpack x _ _ _ hm0 hc hu
  rw [hr]
  congr 1
  unfold sgn at hx
  cases hsb : F64.signBit x.toBits
  · rw [hsb] at hx
    simp only [Bool.false_eq_true, if_false] at hx ⊢
    exact hx.symm
  · rw [hsb] at hx
    simp only [if_true] at hx ⊢
    rw [neg_pack _ _ _ hc]
    exact hx.symm

/-- **every double reads back**: the text `F64.fmt x` parses to `x` itself (same bit pattern: the sign of zero, the
infinities — and NaN, which is canonical in the model) -/
theorem fmt_parse (x : Float) : F64.parse (F64.fmt x) = some x := by
  by_cases he : F64.expField x.toBits = 0x7FF
  · by_cases hf : F64.fracField x.toBits = 0
    · cases hs : F64.signBit x.toBits
      · have hfmt : F64.fmt x = "inf".toList := by simp [F64.fmt, F64.fmtBits, he, hf, hs]
        rw [hfmt, parse_inf, ← float_pos_inf x he hf hs]
      · have hfmt : F64.fmt x = "-inf".toList := by simp [F64.fmt, F64.fmtBits, he, hf, hs]
        rw [hfmt, parse_neg_inf, ← float_neg_inf x he hf hs]
    · have hfmt : F64.fmt x = "NaN".toList := by simp [F64.fmt, F64.fmtBits, he, hf]
      rw [hfmt, parse_NaN, ← float_nan x he hf]
  · by_cases hz : x.toBits &&& F64.absMask = 0
    · have h1 : (F64.expField x.toBits == 0x7FF) = false := by simpa using he
      cases hs : F64.signBit x.toBits
      · have hfmt : F64.fmt x = ['0'] := by
          unfold F64.fmt F64.fmtBits; simp [h1, hz, hs]
        rw [hfmt, parse_zero, ← float_pos_zero x hz hs]
      · have hfmt : F64.fmt x = ['-', '0'] := by
          unfold F64.fmt F64.fmtBits; simp [h1, hz, hs]
        rw [hfmt, parse_neg_zero, ← float_neg_zero x hz hs]
    · exact fmt_parse_finite x he hz

end Aplang.FloatText
