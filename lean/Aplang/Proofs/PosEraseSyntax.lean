import Aplang.Model.Run
/-!
# Erasing positions (and immaterial spellings) from tokens, syntax trees and procedure tables  (property C06)

`Token.noPos` forgets where a token stands (`off`, `len`).  `Token.norm` forgets, in addition, the spelling
(`lexeme`) of every token that is not an identifier: the spelling of a keyword (`IF` / `if`), of a statement
terminator (`;` / newline) or of a literal (whose value is `lit`) is never looked at by the parser or the
evaluator.  `norm` factors through `noPos`, so "equal up to positions" implies "equal up to `norm`".

`Expr.norm`, `Stmt.norm` apply `Token.norm` to every token of a tree and replace every stored byte range by
`(0, 0)`; `Proc.norm`, `FunTable.norm` do the same for stored user procedures.
-/
namespace Aplang

/-- forget the position of a token -/
def Token.noPos (t : Token) : Token := { t with off := 0, len := 0 }

/-- forget the position of a token and, unless it is an identifier, its spelling -/
def Token.norm (t : Token) : Token :=
  { tt := t.tt, lexeme := if t.tt = .identifier then t.lexeme else [], lit := t.lit, off := 0, len := 0 }

@[simp] theorem Token.norm_tt (t : Token) : t.norm.tt = t.tt := rfl
@[simp] theorem Token.norm_lit (t : Token) : t.norm.lit = t.lit := rfl
@[simp] theorem Token.norm_span (t : Token) : t.norm.span = (0, 0) := rfl
@[simp] theorem Token.norm_endOff (t : Token) : t.norm.endOff = 0 := rfl
theorem Token.norm_noPos (t : Token) : t.noPos.norm = t.norm := rfl
theorem Token.norm_lexeme {t : Token} (h : t.tt = .identifier) : t.norm.lexeme = t.lexeme := by
  simp [Token.norm, h]
@[simp] theorem Token.norm_norm (t : Token) : t.norm.norm = t.norm := by
  simp only [Token.norm]
  split <;> rfl

/-- the byte range every erased tree carries -/
abbrev zeroSpan : Span := (0, 0)

/-- a list of byte ranges, erased (the length is kept) -/
def zeroSpans (l : List Span) : List Span := l.map fun _ => zeroSpan

@[simp] theorem zeroSpans_length (l : List Span) : (zeroSpans l).length = l.length := by simp [zeroSpans]
@[simp] theorem zeroSpans_zeroSpans (l : List Span) : zeroSpans (zeroSpans l) = zeroSpans l := by
  simp [zeroSpans]
@[simp] theorem zeroSpans_nil : zeroSpans [] = [] := rfl
@[simp] theorem zeroSpans_cons (a l) : zeroSpans (a :: l) = zeroSpan :: zeroSpans l := rfl
@[simp] theorem zeroSpans_append (a b) : zeroSpans (a ++ b) = zeroSpans a ++ zeroSpans b := by simp [zeroSpans]

mutual
def Expr.norm : Expr → Expr
  | .lit v t => .lit v t.norm
  | .binary l op r t => .binary l.norm op r.norm t.norm
  | .logical l op r t => .logical l.norm op r.norm t.norm
  | .unary op r t => .unary op r.norm t.norm
  | .grouping e lp rp => .grouping e.norm lp.norm rp.norm
  | .call name args sp tok lp rp => .call name (Expr.normL args) (zeroSpans sp) tok.norm lp.norm rp.norm
  | .access l lt k lb rb => .access l.norm lt.norm k.norm lb.norm rb.norm
  | .list items lb rb => .list (Expr.normL items) lb.norm rb.norm
  | .var n t => .var n t.norm
  | .assign n nt v a => .assign n nt.norm v.norm a.norm
  | .set l lt i lb rb v a => .set l.norm lt.norm i.norm lb.norm rb.norm v.norm a.norm
def Expr.normL : List Expr → List Expr
  | [] => []
  | e :: es => e.norm :: Expr.normL es
end

theorem Expr.normL_eq_map (es : List Expr) : Expr.normL es = es.map Expr.norm := by
  induction es with
  | nil => rfl
  | cons e es ih => simp [Expr.normL, ih]

mutual
def Stmt.norm : Stmt → Stmt
  | .expr e => .expr e.norm
  | .ifs c t e it et => .ifs c.norm t.norm (Stmt.normO e) it.norm (et.map Token.norm)
  | .repeatTimes c b rt tt ct => .repeatTimes c.norm b.norm rt.norm tt.norm ct.norm
  | .repeatUntil c b rt ut => .repeatUntil c.norm b.norm rt.norm ut.norm
  | .forEach item it l b ft et int lt =>
    .forEach item it.norm l.norm b.norm ft.norm et.norm int.norm lt.norm
  | .procDecl name params body ex pt nt =>
    .procDecl name (params.map fun p => (p.1, p.2.norm)) body.norm ex pt.norm nt.norm
  | .block lb ss rb => .block lb.norm (Stmt.normL ss) rb.norm
  | .ret t v => .ret t.norm (v.map Expr.norm)
  | .cont t => .cont t.norm
  | .brk t => .brk t.norm
  | .import_ it mt ft only mn =>
    .import_ it.norm mt.norm (ft.map Token.norm) (only.map (List.map Token.norm)) mn.norm
def Stmt.normO : Option Stmt → Option Stmt
  | none => none
  | some s => some s.norm
def Stmt.normL : List Stmt → List Stmt
  | [] => []
  | s :: ss => s.norm :: Stmt.normL ss
end

theorem Stmt.normL_eq_map (ss : List Stmt) : Stmt.normL ss = ss.map Stmt.norm := by
  induction ss with
  | nil => rfl
  | cons s ss ih => simp [Stmt.normL, ih]

theorem Stmt.normO_eq_map (o : Option Stmt) : Stmt.normO o = o.map Stmt.norm := by
  cases o <;> rfl

/-! ## erasing twice is erasing once -/

mutual
theorem Expr.norm_norm : ∀ e : Expr, e.norm.norm = e.norm
  | .lit v t => by simp [Expr.norm]
  | .binary l op r t => by simp [Expr.norm, Expr.norm_norm l, Expr.norm_norm r]
  | .logical l op r t => by simp [Expr.norm, Expr.norm_norm l, Expr.norm_norm r]
  | .unary op r t => by simp [Expr.norm, Expr.norm_norm r]
  | .grouping e lp rp => by simp [Expr.norm, Expr.norm_norm e]
  | .call name args sp tok lp rp => by simp [Expr.norm, Expr.normL_normL args]
  | .access l lt k lb rb => by simp [Expr.norm, Expr.norm_norm l, Expr.norm_norm k]
  | .list items lb rb => by simp [Expr.norm, Expr.normL_normL items]
  | .var n t => by simp [Expr.norm]
  | .assign n nt v a => by simp [Expr.norm, Expr.norm_norm v]
  | .set l lt i lb rb v a => by simp [Expr.norm, Expr.norm_norm l, Expr.norm_norm i, Expr.norm_norm v]
theorem Expr.normL_normL : ∀ es : List Expr, Expr.normL (Expr.normL es) = Expr.normL es
  | [] => rfl
  | e :: es => by simp [Expr.normL, Expr.norm_norm e, Expr.normL_normL es]
end

mutual
theorem Stmt.norm_norm : ∀ s : Stmt, s.norm.norm = s.norm
  | .expr e => by simp [Stmt.norm, Expr.norm_norm]
  | .ifs c t e it et => by
    simp [Stmt.norm, Expr.norm_norm, Stmt.norm_norm t, Stmt.normO_normO e, Function.comp_def]
  | .repeatTimes c b rt tt ct => by simp [Stmt.norm, Expr.norm_norm, Stmt.norm_norm b]
  | .repeatUntil c b rt ut => by simp [Stmt.norm, Expr.norm_norm, Stmt.norm_norm b]
  | .forEach item it l b ft et int lt => by simp [Stmt.norm, Expr.norm_norm, Stmt.norm_norm b]
  | .procDecl name params body ex pt nt => by
    simp [Stmt.norm, Stmt.norm_norm body, Function.comp_def]
  | .block lb ss rb => by simp [Stmt.norm, Stmt.normL_normL ss]
  | .ret t v => by simp [Stmt.norm, Expr.norm_norm, Function.comp_def]
  | .cont t => by simp [Stmt.norm]
  | .brk t => by simp [Stmt.norm]
  | .import_ it mt ft only mn => by simp [Stmt.norm, Function.comp_def]
theorem Stmt.normO_normO : ∀ o : Option Stmt, Stmt.normO (Stmt.normO o) = Stmt.normO o
  | none => rfl
  | some s => by simp [Stmt.normO, Stmt.norm_norm s]
theorem Stmt.normL_normL : ∀ ss : List Stmt, Stmt.normL (Stmt.normL ss) = Stmt.normL ss
  | [] => rfl
  | s :: ss => by simp [Stmt.normL, Stmt.norm_norm s, Stmt.normL_normL ss]
end

/-! ## procedure tables -/

def Proc.norm : Proc → Proc
  | .user ps b => .user ps b.norm
  | .native n => .native n

@[simp] theorem Proc.norm_norm (p : Proc) : p.norm.norm = p.norm := by
  cases p <;> simp [Proc.norm, Stmt.norm_norm]

def FunTable.norm (t : FunTable) : FunTable := t.map fun e => (e.1, e.2.norm)

@[simp] theorem FunTable.norm_nil : FunTable.norm [] = [] := rfl
@[simp] theorem FunTable.norm_cons (e : Str × Proc) (t : FunTable) :
    FunTable.norm (e :: t) = (e.1, e.2.norm) :: FunTable.norm t := rfl

@[simp] theorem FunTable.norm_norm (t : FunTable) : (FunTable.norm t).norm = FunTable.norm t := by
  simp [FunTable.norm, Function.comp_def]

theorem FunTable.norm_filter (t : FunTable) (name : Str) :
    FunTable.norm (List.filter (fun e => e.1 != name) t) = List.filter (fun e => e.1 != name) (FunTable.norm t) := by
  induction t with
  | nil => rfl
  | cons e t ih =>
    simp only [List.filter_cons, FunTable.norm_cons]
    split <;> simp [ih]

theorem FunTable.norm_insert (t : FunTable) (name : Str) (p : Proc) :
    FunTable.norm (t.insert name p) = (FunTable.norm t).insert name p.norm := by
  simp only [FunTable.insert, FunTable.norm_cons, FunTable.norm_filter]

theorem FunTable.norm_find? (t : FunTable) (name : Str) :
    (FunTable.norm t).find? name = (t.find? name).map Proc.norm := by
  induction t with
  | nil => rfl
  | cons e t ih =>
    simp only [FunTable.find?, FunTable.norm_cons, List.find?_cons] at ih ⊢
    split <;> simp_all

theorem FunTable.norm_extend (t more : FunTable) :
    FunTable.norm (t.extend more) = (FunTable.norm t).extend (FunTable.norm more) := by
  unfold FunTable.extend
  induction more generalizing t with
  | nil => rfl
  | cons e more ih => simp only [List.foldl_cons, FunTable.norm_cons, ih, FunTable.norm_insert]

/-- a table of native procedures is its own erasure -/
theorem FunTable.norm_of_natives (t : FunTable) (h : ∀ e ∈ t, ∃ n, e.2 = .native n) : FunTable.norm t = t := by
  induction t with
  | nil => rfl
  | cons e t ih =>
    obtain ⟨n, hn⟩ := h e (by simp)
    rw [FunTable.norm_cons, ih (fun x hx => h x (by simp [hx])), hn]
    cases e; simp_all [Proc.norm]

end Aplang
