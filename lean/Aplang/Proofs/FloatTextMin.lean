import Aplang.Proofs.FloatTextPick
import Aplang.Proofs.FloatTextBits
import Aplang.Proofs.FloatTextParse
/-!
# Number → text: the digits of `F64.fmt` are the *shortest* (minimality half of "shortest round trip")

No decimal with fewer significant digits than the one `F64.shortest` (+ `stripZeros`) returns lies in the rounding
interval of the double.

* `ndigits D` — number of decimal digits of `D` (`(Nat.toDigits 10 D).length`, i.e. what `fmt` prints);
* `Above m e asym D S` — the lower-end half of `Inside`: the decimal `D·10^S` is at / above the lower end of the
  rounding interval; `above_shift`, `above_mono`, `scale_lo_above`;
* `ftm_no_multiple` — when `pick` passes a unit `t`, no positive multiple of `t` lies in `[lo, hi]`;
* `ftm_pick_inv` — invariant through the recursion of `pick`; `scale_hi_le` — `hi ≤ 10^18` (table check of
  `2^(T+1) ≤ 10^(est+2)`, `-1074 ≤ T ≤ 1023`): no positive multiple of `10^19` either;
* `pick_stop` — where `pick` stops: unit `10^j`, `j ≤ 18`, `c·10^j ∈ [lo, hi]`, no positive multiple of `10^(j+1)`
  in `[lo, hi]`;
* `pick_minimal`, `pick_no_trailing_zero`, `int_minimal`, `shortest_minimal` — the headlines.
-/
namespace Aplang.FloatText

/-- number of decimal digits, as printed by `Nat.toDigits 10` (what `F64.fmt` prints) -/
def ndigits (D : Nat) : Nat := (Nat.toDigits 10 D).length

theorem ndigits_pos (D : Nat) : 0 < ndigits D := Nat.length_toDigits_pos

theorem ndigits_lt_ten (D : Nat) (h : D < 10) : ndigits D = 1 := by
  unfold ndigits; rw [Nat.toDigits_of_lt_base h]; rfl

theorem ndigits_ge_ten (D : Nat) (h : 10 ≤ D) : ndigits D = ndigits (D / 10) + 1 := by
  unfold ndigits; rw [Nat.toDigits_of_base_le (by decide) h, List.length_append]; rfl

/-- `10^(ndigits D - 1) ≤ D < 10^(ndigits D)` (upper half) -/
theorem lt_pow_ndigits (D : Nat) : D < 10 ^ ndigits D :=
  (Nat.length_toDigits_le_iff (by decide) (ndigits_pos D)).1 (Nat.le_refl _)

theorem ndigits_le_iff (D k : Nat) (hk : 0 < k) : ndigits D ≤ k ↔ D < 10 ^ k :=
  Nat.length_toDigits_le_iff (by decide) hk

/-- `10^(ndigits D - 1) ≤ D < 10^(ndigits D)` (lower half, `D > 0`) -/
theorem pow_ndigits_le (D : Nat) (hD : 0 < D) : 10 ^ (ndigits D - 1) ≤ D := by
  have hp := ndigits_pos D
  by_cases h1 : ndigits D = 1
  · rw [h1]; exact hD
  · apply Nat.le_of_not_lt
    intro hlt
    have := (ndigits_le_iff D (ndigits D - 1) (by omega)).2 hlt
    omega

theorem ndigits_mono {a b : Nat} (h : a ≤ b) : ndigits a ≤ ndigits b :=
  (ndigits_le_iff a _ (ndigits_pos b)).2 (Nat.lt_of_le_of_lt h (lt_pow_ndigits b))

/-! ## the lower-end half of `Inside` -/

/-- the decimal `D · 10^S` is at / above the lower end of the rounding interval of `m · 2^e` -/
def Above (m : Nat) (e : Int) (asym : Bool) (D : Nat) (S : Int) : Prop :=
  Le2 (l4 m asym * 10 ^ (-S).toNat) (e - 2) (D * 10 ^ S.toNat) 0 ∧
  (m % 2 = 1 → Lt2 (l4 m asym * 10 ^ (-S).toNat) (e - 2) (D * 10 ^ S.toNat) 0)

theorem Inside.above {m : Nat} {e : Int} {asym : Bool} {D : Nat} {S : Int} (h : Inside m e asym D S) :
    Above m e asym D S := ⟨h.1.1, fun ho => (h.2 ho).1⟩

private theorem ftm_dec_shift (j : Nat) (S : Int) :
    ∃ c, 0 < c ∧ (∀ l : Nat, l * 10 ^ (-S).toNat = l * 10 ^ (-(S + j)).toNat * c) ∧
      (∀ D : Nat, D * 10 ^ j * 10 ^ S.toNat = D * 10 ^ (S + j).toNat * c) := by
  have h10 : ∀ n, 0 < 10 ^ n := fun n => Nat.pow_pos (by decide)
  by_cases h0 : 0 ≤ S
  · refine ⟨1, by decide, fun l => ?_, fun D => ?_⟩
    · have e1 : (-S).toNat = 0 := by omega
      have e2 : (-(S + j)).toNat = 0 := by omega
      rw [e1, e2, Nat.pow_zero, Nat.mul_one, Nat.mul_one]
    · have e1 : (S + j).toNat = j + S.toNat := by omega
      rw [e1, Nat.pow_add, Nat.mul_one, Nat.mul_assoc]
  · by_cases h1 : 0 ≤ S + j
    · refine ⟨10 ^ (-S).toNat, h10 _, fun l => ?_, fun D => ?_⟩
      · have e2 : (-(S + j)).toNat = 0 := by omega
        rw [e2, Nat.pow_zero, Nat.mul_one]
      · have e1 : S.toNat = 0 := by omega
        have e2 : j = (S + j).toNat + (-S).toNat := by omega
        rw [e1, Nat.pow_zero, Nat.mul_one, Nat.mul_assoc, ← Nat.pow_add, ← e2]
    · refine ⟨10 ^ j, h10 _, fun l => ?_, fun D => ?_⟩
      · have e1 : (-S).toNat = (-(S + j)).toNat + j := by omega
        rw [e1, Nat.pow_add, Nat.mul_assoc]
      · have e1 : S.toNat = 0 := by omega
        have e2 : (S + j).toNat = 0 := by omega
        rw [e1, e2, Nat.pow_zero, Nat.mul_one, Nat.mul_one]

/-- the representation of the decimal does not matter: `(D·10^j)·10^S` and `D·10^(S+j)` -/
theorem above_shift (m : Nat) (e : Int) (asym : Bool) (D j : Nat) (S : Int) :
    Above m e asym (D * 10 ^ j) S ↔ Above m e asym D (S + j) := by
  obtain ⟨c, hc, e1, e2⟩ := ftm_dec_shift j S
  unfold Above
  rw [e1 (l4 m asym), e2 D, le2_mul_iff _ _ _ _ _ hc, lt2_mul_iff _ _ _ _ _ hc]

/-- a larger decimal (same exponent) is above the lower end, too -/
theorem above_mono {m : Nat} {e : Int} {asym : Bool} {D D' : Nat} {S : Int} (h : Above m e asym D S)
    (hD : D ≤ D') : Above m e asym D' S := by
  have hm : D * 10 ^ S.toNat * 2 ^ (0 - (e - 2)).toNat ≤ D' * 10 ^ S.toNat * 2 ^ (0 - (e - 2)).toNat :=
    Nat.mul_le_mul_right _ (Nat.mul_le_mul_right _ hD)
  refine ⟨?_, fun ho => ?_⟩
  · have := h.1
    unfold Le2 at this ⊢
    exact Nat.le_trans this hm
  · have := h.2 ho
    unfold Lt2 at this ⊢
    exact Nat.lt_of_lt_of_le this hm

/-- `lo` is the least integer (in units of `10^s0`) above the lower end -/
theorem scale_lo_above (m : Nat) (e : Int) (asym : Bool) (hm : 0 < m) (D : Nat) :
    (F64.scale m e asym).lo ≤ D ↔ Above m e asym D (estOf m e - 16) := by
  rw [scale_lo_le_iff m e asym hm]
  unfold Above Le2 Lt2 scA scDen
  have k1 : (e - 2 - 0).toNat = (e - 2).toNat := by omega
  have k2 : (0 - (e - 2)).toNat = (2 - e).toNat := by omega
  rw [k1, k2]
  simp only [Nat.mul_assoc]
  by_cases h : m % 2 = 0
  · have h' : ¬ m % 2 = 1 := by omega
    simp only [if_pos h, h', false_imp_iff, and_true]
  · have h' : m % 2 = 1 := by omega
    simp only [h', true_imp_iff]
    constructor
    · intro hh; exact ⟨Nat.le_of_lt hh, hh⟩
    · intro hh; exact hh.2

/-! ## (1) `lo ≤ v + 1`, `v ≤ hi` -/

private theorem ftm_lt_succ_mul (a b : Nat) (hb : 0 < b) : a < (a / b + 1) * b := by
  have := Nat.lt_mul_div_succ a hb
  rw [Nat.mul_comm b] at this
  exact this

theorem scale_lo_le_v_succ (m : Nat) (e : Int) (asym : Bool) (hm : 0 < m) :
    (F64.scale m e asym).lo ≤ (F64.scale m e asym).v + 1 := by
  rw [scale_lo_le_iff m e asym hm, scale_v]
  have ha := ftk_scA_pos e (estOf m e - 16)
  have hd := ftk_scDen_pos e (estOf m e - 16)
  have hl : l4 m asym < 4 * m := by unfold l4; split <;> omega
  have h1 : l4 m asym * scA e (estOf m e - 16) < 4 * m * scA e (estOf m e - 16) :=
    (Nat.mul_lt_mul_right ha).2 hl
  have h2 := ftm_lt_succ_mul (4 * m * scA e (estOf m e - 16)) _ hd
  have h3 := Nat.lt_trans h1 h2
  split
  · exact Nat.le_of_lt h3
  · exact h3

theorem scale_v_le_hi (m : Nat) (e : Int) (asym : Bool) (hm : 0 < m) :
    (F64.scale m e asym).v ≤ (F64.scale m e asym).hi := by
  rw [scale_le_hi_iff m e asym hm, scale_v]
  have ha := ftk_scA_pos e (estOf m e - 16)
  have hh : 4 * m < h4 m := by unfold h4; omega
  have h1 : 4 * m * scA e (estOf m e - 16) < h4 m * scA e (estOf m e - 16) :=
    (Nat.mul_lt_mul_right ha).2 hh
  have h2 := Nat.div_mul_le_self (4 * m * scA e (estOf m e - 16)) (scDen e (estOf m e - 16))
  have h3 := Nat.lt_of_le_of_lt h2 h1
  split
  · exact Nat.le_of_lt h3
  · exact h3

/-! ## (2) a unit that `pick` passes has no positive multiple in `[lo, hi]` -/

/-- no positive multiple of `t` lies in `[lo, hi]` -/
def NoMult (sc : F64.Scaled) (t : Nat) : Prop := ∀ k, 0 < k → sc.lo ≤ k * t → k * t ≤ sc.hi → False

theorem ftm_no_multiple (sc : F64.Scaled) (t : Nat) (ht : 0 < t) (h1 : sc.lo ≤ sc.v + 1) (h2 : sc.v ≤ sc.hi)
    (n1 : ¬ (0 < sc.v / t ∧ sc.lo ≤ sc.v / t * t ∧ sc.v / t * t ≤ sc.hi))
    (n2 : ¬ (sc.lo ≤ (sc.v / t + 1) * t ∧ (sc.v / t + 1) * t ≤ sc.hi)) : NoMult sc t := by
  intro k hk hlo hhi
  by_cases hkv : k * t ≤ sc.v
  · apply n1
    have a1 : k ≤ sc.v / t := (Nat.le_div_iff_mul_le ht).2 hkv
    have a2 : k * t ≤ sc.v / t * t := Nat.mul_le_mul_right t a1
    have a3 : sc.v / t * t ≤ sc.v := Nat.div_mul_le_self _ _
    exact ⟨by omega, by omega, by omega⟩
  · apply n2
    have a1 : sc.v / t < k := (Nat.div_lt_iff_lt_mul ht).2 (by omega)
    have a2 : (sc.v / t + 1) * t ≤ k * t := Nat.mul_le_mul_right t a1
    have a3 := ftm_lt_succ_mul sc.v t ht
    exact ⟨by omega, by omega⟩

/-- invariant through the recursion of `pick`: it stops at some unit `10^i`, and passed all larger units -/
theorem ftm_pick_inv (sc : F64.Scaled) (h1 : sc.lo ≤ sc.v + 1) (h2 : sc.v ≤ sc.hi) (c : Nat) (s' : Int)
    (hc : c ≠ 0) : ∀ (j : Nat) (s : Int), F64.pick sc (j + 1) (10 ^ j) s = (c, s') →
      ∃ i, i ≤ j ∧ s' = s - ((j - i : Nat) : Int) ∧ sc.lo ≤ c * 10 ^ i ∧ c * 10 ^ i ≤ sc.hi ∧
        ∀ i', i < i' → i' ≤ j → NoMult sc (10 ^ i') := by
  intro j
  induction j with
  | zero =>
    intro s h
    rcases ftk_pick_step sc 0 (10 ^ 0) s with ⟨c0, h0, _, hlo, hhi⟩ | ⟨h0, _, _⟩
    · rw [h0] at h
      have hc0 : c0 = c := congrArg Prod.fst h
      have hs : s = s' := congrArg Prod.snd h
      subst hc0; subst hs
      exact ⟨0, Nat.le_refl _, by simp, hlo, hhi, fun i' a b => by omega⟩
    · rw [h0, F64.pick] at h
      exact absurd (congrArg Prod.fst h).symm hc
  | succ j ih =>
    intro s h
    rcases ftk_pick_step sc (j + 1) (10 ^ (j + 1)) s with ⟨c0, h0, _, hlo, hhi⟩ | ⟨h0, n1, n2⟩
    · rw [h0] at h
      have hc0 : c0 = c := congrArg Prod.fst h
      have hs : s = s' := congrArg Prod.snd h
      subst hc0; subst hs
      exact ⟨j + 1, Nat.le_refl _, by simp, hlo, hhi, fun i' a b => by omega⟩
    · have e : 10 ^ (j + 1) / 10 = 10 ^ j := by
        rw [Nat.pow_succ, Nat.mul_div_cancel _ (by decide)]
      rw [h0, e] at h
      obtain ⟨i, hi, hs, hlo, hhi, hno⟩ := ih (s - 1) h
      refine ⟨i, by omega, ?_, hlo, hhi, fun i' a b => ?_⟩
      · rw [hs]
        have : ((j + 1 - i : Nat) : Int) = ((j - i : Nat) : Int) + 1 := by omega
        rw [this]; omega
      · by_cases hb : i' ≤ j
        · exact hno i' a hb
        · have : i' = j + 1 := by omega
          subst this
          exact ftm_no_multiple sc _ (Nat.pow_pos (by decide)) h1 h2 n1 n2

/-! ## (3) upper bound: `hi ≤ 10^18` (the estimate `est` is at most `1` below `⌊log10 x⌋`; table check) -/

private theorem ftm_tabPos : ∀ i < 1024, 2 ^ (i + 1) ≤ 10 ^ (i * 30103 / 100000 + 2) := by decide +kernel
private theorem ftm_tabNeg : ∀ j < 1075, 2 * 10 ^ ((j * 30103 + 99999) / 100000) ≤ 100 * 2 ^ j := by
  decide +kernel

/-- `2^(T+1) ≤ 10^(est+2)` for every binary exponent `T` of a finite double, cross-multiplied -/
theorem ftm_table (T : Int) (h1 : -1074 ≤ T) (h2 : T ≤ 1023) :
    2 * (10 ^ (-(T * 30103 / 100000)).toNat * 2 ^ T.toNat) ≤
      100 * (10 ^ (T * 30103 / 100000).toNat * 2 ^ (-T).toNat) := by
  by_cases h : 0 ≤ T
  · have := ftm_tabPos T.toNat (by omega)
    have a1 : (T * 30103 / 100000).toNat = T.toNat * 30103 / 100000 := by omega
    have a2 : (-T).toNat = 0 := by omega
    have a3 : (-(T * 30103 / 100000)).toNat = 0 := by omega
    simp only [a1, a2, a3, Nat.pow_zero, Nat.mul_one, Nat.one_mul]
    rw [Nat.pow_succ, Nat.pow_add] at this
    omega
  · have := ftm_tabNeg (-T).toNat (by omega)
    have a1 : (T * 30103 / 100000).toNat = 0 := by omega
    have a2 : T.toNat = 0 := by omega
    have a3 : (-(T * 30103 / 100000)).toNat = ((-T).toNat * 30103 + 99999) / 100000 := by omega
    simp only [a1, a2, a3, Nat.pow_zero, Nat.mul_one, Nat.one_mul]
    exact this

private theorem ftm_upper_aux (L m : Nat) (e : Int) (hLm : m < 2 ^ (L + 1))
    (hT1 : -1074 ≤ (L : Int) + e) (hT2 : (L : Int) + e ≤ 1023) :
    h4 m * scA e (((L : Int) + e) * 30103 / 100000 - 16)
      ≤ 10 ^ 18 * scDen e (((L : Int) + e) * 30103 / 100000 - 16) := by
  have tb := ftm_table ((L : Int) + e) hT1 hT2
  generalize ((L : Int) + e) * 30103 / 100000 = est at tb ⊢
  obtain ⟨k10, h10a, h10b⟩ : ∃ k10, 16 + (est - 16).toNat = est.toNat + k10 ∧
      (-(est - 16)).toNat = (-est).toNat + k10 := ⟨16 + (est - 16).toNat - est.toNat, by omega, by omega⟩
  obtain ⟨k2, h2a, h2b⟩ : ∃ k2, (2 - e).toNat = (-((L : Int) + e)).toNat + k2 ∧
      L + 2 + (e - 2).toNat = ((L : Int) + e).toNat + k2 :=
    ⟨(2 - e).toNat - (-((L : Int) + e)).toNat, by omega, by omega⟩
  unfold scA scDen
  have E1 : 10 ^ 16 * 10 ^ (est - 16).toNat = 10 ^ est.toNat * 10 ^ k10 := by
    rw [← Nat.pow_add, ← Nat.pow_add, h10a]
  have E2 : 10 ^ (-(est - 16)).toNat = 10 ^ (-est).toNat * 10 ^ k10 := by
    rw [← Nat.pow_add, h10b]
  have E3 : 2 ^ (2 - e).toNat = 2 ^ (-((L : Int) + e)).toNat * 2 ^ k2 := by
    rw [← Nat.pow_add, h2a]
  have E4 : 2 ^ L * 4 * 2 ^ (e - 2).toNat = 2 ^ ((L : Int) + e).toNat * 2 ^ k2 := by
    rw [← Nat.pow_add, ← h2b, Nat.pow_add, Nat.pow_add]
  have hh : h4 m ≤ 2 * (2 ^ L * 4) := by
    unfold h4
    rw [Nat.pow_succ] at hLm
    omega
  have e18 : (10 : Nat) ^ 18 = 100 * 10 ^ 16 := by decide
  calc h4 m * (10 ^ (-(est - 16)).toNat * 2 ^ (e - 2).toNat)
      ≤ 2 * (2 ^ L * 4) * (10 ^ (-(est - 16)).toNat * 2 ^ (e - 2).toNat) := Nat.mul_le_mul_right _ hh
    _ = 2 * (10 ^ (-(est - 16)).toNat * (2 ^ L * 4 * 2 ^ (e - 2).toNat)) := by ac_rfl
    _ = 2 * ((10 ^ (-est).toNat * 10 ^ k10) * (2 ^ ((L : Int) + e).toNat * 2 ^ k2)) := by rw [E2, E4]
    _ = 2 * (10 ^ (-est).toNat * 2 ^ ((L : Int) + e).toNat) * (10 ^ k10 * 2 ^ k2) := by ac_rfl
    _ ≤ 100 * (10 ^ est.toNat * 2 ^ (-((L : Int) + e)).toNat) * (10 ^ k10 * 2 ^ k2) :=
        Nat.mul_le_mul_right _ tb
    _ = 100 * ((10 ^ est.toNat * 10 ^ k10) * (2 ^ (-((L : Int) + e)).toNat * 2 ^ k2)) := by ac_rfl
    _ = 100 * ((10 ^ 16 * 10 ^ (est - 16).toNat) * 2 ^ (2 - e).toNat) := by rw [← E1, ← E3]
    _ = 10 ^ 18 * (10 ^ (est - 16).toNat * 2 ^ (2 - e).toNat) := by rw [e18]; ac_rfl

/-- the upper end of the rounding interval is at most `10^(est+2)`: `h4·a ≤ 10^18·den` -/
theorem ftm_upper (m : Nat) (e : Int) (hc : Canon m e) :
    h4 m * scA e (estOf m e - 16) ≤ 10 ^ 18 * scDen e (estOf m e - 16) := by
  have hL := ftk_log2_lt m e hc
  have h1 := hc.elo
  have h2 := hc.ehi
  exact ftm_upper_aux m.log2 m e Nat.lt_log2_self (by omega) (by omega)

/-- (3) `hi ≤ 10^18` -/
theorem scale_hi_le (m : Nat) (e : Int) (hc : Canon m e) (asym : Bool) : (F64.scale m e asym).hi ≤ 10 ^ 18 := by
  have h := (scale_le_hi_iff m e asym hc.pos (F64.scale m e asym).hi).1 (Nat.le_refl _)
  have hu := ftm_upper m e hc
  have h' : (F64.scale m e asym).hi * scDen e (estOf m e - 16) ≤ h4 m * scA e (estOf m e - 16) := by
    split at h
    · exact h
    · exact Nat.le_of_lt h
  exact Nat.le_of_mul_le_mul_right (Nat.le_trans h' hu) (ftk_scDen_pos _ _)

theorem ftm_noMult_19 (m : Nat) (e : Int) (hc : Canon m e) (asym : Bool) :
    NoMult (F64.scale m e asym) (10 ^ 19) := by
  intro k hk _ hhi
  have h := scale_hi_le m e hc asym
  have : 1 * 10 ^ 19 ≤ k * 10 ^ 19 := Nat.mul_le_mul_right _ hk
  have e18 : (10 : Nat) ^ 18 = 1000000000000000000 := by decide
  have e19 : (10 : Nat) ^ 19 = 10000000000000000000 := by decide
  rw [e18] at h
  rw [e19] at this hhi
  omega

/-! ## where `pick` stops -/

private theorem ftm_e18 : (1000000000000000000 : Nat) = 10 ^ 18 := by decide

/-- `pick` stops at a unit `10^j`, `j ≤ 18`, with non-zero digits `c`, `c·10^j ∈ [lo, hi]`, and no positive
multiple of the next larger unit lies in `[lo, hi]` -/
theorem pick_stop (m : Nat) (e : Int) (hc : Canon m e) (c : Nat) (s : Int)
    (h : F64.pick (F64.scale m e (asymOf m e)) 19 1000000000000000000
      ((F64.scale m e (asymOf m e)).s0 + 18) = (c, s)) :
    ∃ j : Nat, j ≤ 18 ∧ s = estOf m e - 16 + j ∧ c ≠ 0 ∧
      (F64.scale m e (asymOf m e)).lo ≤ c * 10 ^ j ∧ c * 10 ^ j ≤ (F64.scale m e (asymOf m e)).hi ∧
      NoMult (F64.scale m e (asymOf m e)) (10 ^ (j + 1)) := by
  have hne := pick_succeeds m e hc
  rw [h] at hne
  have hne' : c ≠ 0 := hne
  rw [ftm_e18] at h
  obtain ⟨i, hi, hs, hlo, hhi, hno⟩ := ftm_pick_inv _ (scale_lo_le_v_succ m e _ hc.pos)
    (scale_v_le_hi m e _ hc.pos) c s hne' 18 _ h
  rw [scale_s0] at hs
  refine ⟨i, hi, by omega, hne', hlo, hhi, ?_⟩
  by_cases h18 : i = 18
  · subst h18; exact ftm_noMult_19 m e hc _
  · exact hno (i + 1) (by omega) (by omega)

/-! ## (4) (5) (6) the general branch -/

/-- (4) every decimal inside the rounding interval has an exponent at most the one `pick` returns -/
theorem ftm_exp_le (m : Nat) (e : Int) (hm : 0 < m) (asym : Bool) (j : Nat)
    (hno : NoMult (F64.scale m e asym) (10 ^ (j + 1)))
    (D : Nat) (S : Int) (hD : 0 < D) (hin : Inside m e asym D S) : S ≤ estOf m e - 16 + j := by
  apply Int.not_lt.1
  intro hlt
  obtain ⟨q, hq⟩ : ∃ q : Nat, S = estOf m e - 16 + ((q + (j + 1) : Nat) : Int) :=
    ⟨(S - (estOf m e - 16) - (j + 1)).toNat, by omega⟩
  rw [hq, ← inside_shift, ← scale_inside_iff m e asym hm] at hin
  have e1 : D * 10 ^ (q + (j + 1)) = D * 10 ^ q * 10 ^ (j + 1) := by rw [Nat.pow_add, Nat.mul_assoc]
  rw [e1] at hin
  exact hno (D * 10 ^ q) (Nat.mul_pos hD (Nat.pow_pos (by decide))) hin.1 hin.2

/-- (5) the digits have no trailing zero -/
theorem ftm_no_trailing_zero (sc : F64.Scaled) (j c : Nat) (hc : c ≠ 0)
    (hlo : sc.lo ≤ c * 10 ^ j) (hhi : c * 10 ^ j ≤ sc.hi) (hno : NoMult sc (10 ^ (j + 1))) : c % 10 ≠ 0 := by
  intro h0
  have e1 : c * 10 ^ j = c / 10 * 10 ^ (j + 1) := by
    have : c = c / 10 * 10 := by omega
    rw [Nat.pow_succ, Nat.mul_comm (10 ^ j) 10, ← Nat.mul_assoc, ← this]
  rw [e1] at hlo hhi
  exact hno (c / 10) (by omega) hlo hhi

/-- (6) every decimal inside the rounding interval with exponent `S ≤ s0 + j` exceeds `10·⌊c/10⌋` -/
theorem ftm_digits_gt (m : Nat) (e : Int) (hm : 0 < m) (asym : Bool) (j c : Nat) (hc10 : 10 ≤ c)
    (hhi : c * 10 ^ j ≤ (F64.scale m e asym).hi) (hno : NoMult (F64.scale m e asym) (10 ^ (j + 1)))
    (D : Nat) (S : Int) (hS : S ≤ estOf m e - 16 + j) (hin : Inside m e asym D S) : 10 * (c / 10) < D := by
  have hk : 0 < c / 10 := by omega
  -- `K = ⌊c/10⌋·10^(j+1) ≤ c·10^j ≤ hi`, so `K < lo`
  have hK : c / 10 * 10 ^ (j + 1) ≤ c * 10 ^ j := by
    rw [Nat.pow_succ, Nat.mul_comm (10 ^ j) 10, ← Nat.mul_assoc]
    exact Nat.mul_le_mul_right _ (by omega)
  have hnlo : ¬ (F64.scale m e asym).lo ≤ c / 10 * 10 ^ (j + 1) :=
    fun hlo => hno (c / 10) hk hlo (Nat.le_trans hK hhi)
  rw [scale_lo_above m e asym hm, above_shift] at hnlo
  -- the same decimal at exponent `S`
  obtain ⟨p, hp⟩ : ∃ p : Nat, estOf m e - 16 + ((j + 1 : Nat) : Int) = S + ((p + 1 : Nat) : Int) :=
    ⟨(estOf m e - 16 + j - S).toNat, by omega⟩
  rw [hp, ← above_shift] at hnlo
  apply Nat.lt_of_not_le
  intro hle
  apply hnlo
  refine above_mono hin.above (Nat.le_trans hle ?_)
  rw [Nat.pow_succ, Nat.mul_comm (10 ^ p) 10, ← Nat.mul_assoc, Nat.mul_comm 10]
  exact Nat.le_mul_of_pos_right _ (Nat.pow_pos (by decide))

/-- **general branch: what `pick` returns is minimal** — every decimal `D·10^S` (`D > 0`) inside the rounding
interval has an exponent `S ≤ s` and at least as many digits as `c` -/
theorem pick_minimal (m : Nat) (e : Int) (hc : Canon m e) (c : Nat) (s : Int)
    (h : F64.pick (F64.scale m e (asymOf m e)) 19 1000000000000000000
      ((F64.scale m e (asymOf m e)).s0 + 18) = (c, s))
    (D : Nat) (S : Int) (hD : 0 < D) (hin : Inside m e (asymOf m e) D S) :
    S ≤ s ∧ ndigits c ≤ ndigits D := by
  obtain ⟨j, _, hs, hc0, hlo, hhi, hno⟩ := pick_stop m e hc c s h
  have hS := ftm_exp_le m e hc.pos _ j hno D S hD hin
  refine ⟨by omega, ?_⟩
  by_cases hc10 : c < 10
  · rw [ndigits_lt_ten c hc10]; exact ndigits_pos D
  · have hgt := ftm_digits_gt m e hc.pos _ j c (by omega) hhi hno D S hS hin
    rw [ndigits_ge_ten c (by omega), ndigits_ge_ten D (by omega)]
    exact Nat.succ_le_succ (ndigits_mono (by omega))

/-- **the digits `pick` returns have no trailing zero** -/
theorem pick_no_trailing_zero (m : Nat) (e : Int) (hc : Canon m e) (c : Nat) (s : Int)
    (h : F64.pick (F64.scale m e (asymOf m e)) 19 1000000000000000000
      ((F64.scale m e (asymOf m e)).s0 + 18) = (c, s)) : c % 10 ≠ 0 := by
  obtain ⟨j, _, _, hc0, hlo, hhi, hno⟩ := pick_stop m e hc c s h
  exact ftm_no_trailing_zero _ j c hc0 hlo hhi hno

/-! ## `stripZeros` with enough fuel strips every trailing zero -/

theorem stripZeros_done (f d : Nat) (s : Int) (hd : 0 < d) :
    (F64.stripZeros f d s).1 % 10 ≠ 0 ∨ (F64.stripZeros f d s).2 = s + f := by
  induction f generalizing d s with
  | zero => right; simp [F64.stripZeros]
  | succ f ih =>
    simp only [F64.stripZeros]
    split
    · rename_i hc
      simp only [Bool.and_eq_true, bne_iff_ne, ne_eq, beq_iff_eq] at hc
      rcases ih (d / 10) (s + 1) (by omega) with h | h
      · exact Or.inl h
      · right; rw [h]; push_cast; omega
    · rename_i hc
      simp only [Bool.and_eq_true, bne_iff_ne, ne_eq, beq_iff_eq, not_and] at hc
      left
      exact hc (by omega)

theorem stripZeros_id (f c : Nat) (s : Int) (h : c % 10 ≠ 0) : F64.stripZeros f c s = (c, s) := by
  cases f with
  | zero => rfl
  | succ f =>
    simp only [F64.stripZeros]
    split
    · rename_i hc
      simp only [Bool.and_eq_true, bne_iff_ne, ne_eq, beq_iff_eq] at hc
      exact absurd hc.2 h
    · rfl

private theorem ftm_pow_cancel (d D a b : Nat) (hd : d % 10 ≠ 0) (h : d * 10 ^ a = D * 10 ^ b) : d ≤ D := by
  by_cases hab : b ≤ a
  · obtain ⟨r, rfl⟩ : ∃ r, a = r + b := ⟨a - b, by omega⟩
    rw [Nat.pow_add, ← Nat.mul_assoc] at h
    have := Nat.eq_of_mul_eq_mul_right (Nat.pow_pos (by decide)) h
    rw [← this]
    exact Nat.le_mul_of_pos_right _ (Nat.pow_pos (by decide))
  · exfalso
    obtain ⟨r, rfl⟩ : ∃ r, b = r + 1 + a := ⟨b - a - 1, by omega⟩
    rw [Nat.pow_add, ← Nat.mul_assoc] at h
    have := Nat.eq_of_mul_eq_mul_right (Nat.pow_pos (by decide)) h
    rw [Nat.pow_succ, ← Nat.mul_assoc] at this
    omega

/-! ## (7) the integer branch -/

private theorem ftm_int_quarter (m : Nat) (e : Int) (n : Nat) (he : e ≤ 0) (hn : m = n * 2 ^ (-e).toNat) :
    ∃ W, 4 ≤ W ∧ 2 ^ (0 - (e - 2)).toNat = W ∧ 4 * m = n * W := by
  refine ⟨2 ^ (0 - (e - 2)).toNat, ?_, rfl, ?_⟩
  · have : (0 - (e - 2)).toNat = (-e).toNat + 2 := by omega
    rw [this, Nat.pow_add]
    have := Nat.pow_pos (n := (-e).toNat) (show 0 < 2 by decide)
    omega
  · have : (0 - (e - 2)).toNat = (-e).toNat + 2 := by omega
    rw [this, Nat.pow_add, ← Nat.mul_assoc, ← hn]; omega

/-- a decimal with negative exponent inside the rounding interval of the integer `n`: `n ≤ D` -/
theorem ftm_int_ge (m : Nat) (e : Int) (asym : Bool) (n : Nat) (he : e ≤ 0) (hn : m = n * 2 ^ (-e).toNat)
    (h0 : 0 < n) (D : Nat) (S : Int) (hS : S < 0) (hin : Inside m e asym D S) : n ≤ D := by
  obtain ⟨W, hW, eW, hm⟩ := ftm_int_quarter m e n he hn
  have h := hin.1.1
  unfold Le2 at h
  have k1 : (e - 2 - 0).toNat = 0 := by omega
  have k2 : S.toNat = 0 := by omega
  rw [k1, k2, eW, Nat.pow_zero, Nat.mul_one, Nat.mul_one] at h
  have hP : l4 m asym ≤ l4 m asym * 10 ^ (-S).toNat := Nat.le_mul_of_pos_right _ (Nat.pow_pos (by decide))
  have hl : 4 * m - 2 ≤ l4 m asym := by unfold l4; split <;> omega
  apply Nat.le_of_not_lt
  intro hlt
  have h1 : (D + 1) * W ≤ n * W := Nat.mul_le_mul_right W hlt
  rw [Nat.add_mul, Nat.one_mul] at h1
  have h2 : 1 * W ≤ n * W := Nat.mul_le_mul_right W h0
  omega

/-- a decimal with non-negative exponent inside the rounding interval of the integer `n` is `n` -/
theorem ftm_int_eq (m : Nat) (e : Int) (asym : Bool) (n : Nat) (he : e ≤ 0) (hn : m = n * 2 ^ (-e).toNat)
    (h0 : 0 < n) (D : Nat) (S : Int) (hS : 0 ≤ S) (hin : Inside m e asym D S) : D * 10 ^ S.toNat = n := by
  obtain ⟨W, hW, eW, hm⟩ := ftm_int_quarter m e n he hn
  have hlo := hin.1.1
  have hhi := hin.1.2
  unfold Le2 at hlo hhi
  have k1 : (e - 2 - 0).toNat = 0 := by omega
  have k2 : (-S).toNat = 0 := by omega
  rw [k1, k2, eW, Nat.pow_zero, Nat.mul_one, Nat.mul_one] at hlo hhi
  have hl : 4 * m - 2 ≤ l4 m asym := by unfold l4; split <;> omega
  have hh : h4 m = 4 * m + 2 := rfl
  have h2 : 1 * W ≤ n * W := Nat.mul_le_mul_right W h0
  generalize D * 10 ^ S.toNat = N at hlo hhi ⊢
  rcases Nat.lt_trichotomy N n with hlt | heq | hgt
  · exfalso
    have h1 : (N + 1) * W ≤ n * W := Nat.mul_le_mul_right W hlt
    rw [Nat.add_mul, Nat.one_mul] at h1
    omega
  · exact heq
  · exfalso
    have h1 : (n + 1) * W ≤ N * W := Nat.mul_le_mul_right W hgt
    rw [Nat.add_mul, Nat.one_mul] at h1
    omega

/-- **integer branch**: `m·2^e = n` (`e ≤ 0`, `0 < n < 10^20`): the digits of `n` without its trailing zeros are at
most `D` for every decimal `D·10^S` (`D > 0`) inside the rounding interval -/
theorem int_le (m : Nat) (e : Int) (asym : Bool) (n : Nat) (he : e ≤ 0) (hn : m = n * 2 ^ (-e).toNat)
    (h0 : 0 < n) (hlt : n < 10 ^ 20) (D : Nat) (S : Int) (hin : Inside m e asym D S) :
    (F64.stripZeros 20 n 0).1 ≤ D := by
  obtain ⟨hv, hz0, hz20, hpos⟩ := stripZeros_spec 20 n 0
  have hle : (F64.stripZeros 20 n 0).1 ≤ n := by
    have := Nat.le_mul_of_pos_right (F64.stripZeros 20 n 0).1
      (Nat.pow_pos (n := ((F64.stripZeros 20 n 0).2 - 0).toNat) (show 0 < 10 by decide))
    rw [hv] at this
    exact this
  by_cases hS : S < 0
  · exact Nat.le_trans hle (ftm_int_ge m e asym n he hn h0 D S hS hin)
  · have heq := ftm_int_eq m e asym n he hn h0 D S (by omega) hin
    have hd : (F64.stripZeros 20 n 0).1 % 10 ≠ 0 := by
      rcases stripZeros_done 20 n 0 h0 with h | h
      · exact h
      · exfalso
        have e20 : ((F64.stripZeros 20 n 0).2 - 0).toNat = 20 := by rw [h]; rfl
        rw [e20] at hv
        have := Nat.mul_le_mul_right (10 ^ 20) (hpos h0)
        omega
    exact ftm_pow_cancel _ D _ _ hd (hv.trans heq.symm)

theorem int_minimal (m : Nat) (e : Int) (hc : Canon m e) (n : Nat) (he : e ≤ 0) (hn : m = n * 2 ^ (-e).toNat)
    (h0 : 0 < n) (D : Nat) (S : Int) (hin : Inside m e (asymOf m e) D S) :
    ndigits (F64.stripZeros 20 n 0).1 ≤ ndigits D := by
  have hnm : n ≤ m := by
    rw [hn]; exact Nat.le_mul_of_pos_right _ (Nat.pow_pos (by decide))
  have hlt : n < 10 ^ 20 := Nat.lt_of_le_of_lt hnm (Nat.lt_trans hc.lt (by decide))
  exact ndigits_mono (int_le m e _ n he hn h0 hlt D S hin)

/-! ## headline -/

theorem ftm_shortestGen_eq (ab : UInt64) (hz : ab ≠ 0) (he : F64.expField ab ≠ 0x7FF) :
    F64.shortestGen ab =
      F64.pick (F64.scale (F64.decompose ab).1 (F64.decompose ab).2
          (asymOf (F64.decompose ab).1 (F64.decompose ab).2)) 19 1000000000000000000
        ((F64.scale (F64.decompose ab).1 (F64.decompose ab).2
          (asymOf (F64.decompose ab).1 (F64.decompose ab).2)).s0 + 18) := by
  rw [← asym_flag ab hz he]
  rfl

/-- **the digits of `fmt` are the shortest**: `ab` the bit pattern of a finite non-zero double (sign cleared),
`(m, e) = decompose ab` canonical; `(d, s) = stripZeros 20 (shortest ab)` are the digits `fmtBits` prints.
Every decimal `D·10^S`, `D > 0`, inside the rounding interval of the double has at least as many digits as `d` —
in particular every decimal written with its significant digits only (`D % 10 ≠ 0`). -/
theorem shortest_minimal (ab : UInt64) (hz : ab ≠ 0) (he : F64.expField ab ≠ 0x7FF)
    (hc : Canon (F64.decompose ab).1 (F64.decompose ab).2) (D : Nat) (S : Int) (hD : 0 < D)
    (hin : Inside (F64.decompose ab).1 (F64.decompose ab).2
      (asymOf (F64.decompose ab).1 (F64.decompose ab).2) D S) :
    ndigits (F64.stripZeros 20 (F64.shortest ab).1 (F64.shortest ab).2).1 ≤ ndigits D := by
  unfold F64.shortest
  cases hsi : F64.smallInt? ab with
  | some n =>
    obtain ⟨h1, h2, h3⟩ := smallInt_spec ab n hsi
    exact int_minimal _ _ hc n h1 h2 h3 D S hin
  | none =>
    simp only []
    have hp := ftm_shortestGen_eq ab hz he
    have hp' : F64.pick _ 19 1000000000000000000 _ = ((F64.shortestGen ab).1, (F64.shortestGen ab).2) := hp.symm
    have hmin := pick_minimal _ _ hc _ _ hp' D S hD hin
    have hntz := pick_no_trailing_zero _ _ hc _ _ hp'
    rw [stripZeros_id _ _ _ hntz]
    exact hmin.2

/-- the same, spelled with `Nat.toDigits` (the digit string `fmtBits` hands to `positional`) -/
theorem shortest_minimal_toDigits (ab : UInt64) (hz : ab ≠ 0) (he : F64.expField ab ≠ 0x7FF)
    (hc : Canon (F64.decompose ab).1 (F64.decompose ab).2) (D : Nat) (S : Int) (hD : 0 < D)
    (hin : Inside (F64.decompose ab).1 (F64.decompose ab).2
      (asymOf (F64.decompose ab).1 (F64.decompose ab).2) D S) :
    (Nat.toDigits 10 (F64.stripZeros 20 (F64.shortest ab).1 (F64.shortest ab).2).1).length ≤
      (Nat.toDigits 10 D).length := shortest_minimal ab hz he hc D S hD hin

/-- for a finite non-zero `x : Float`: the hypotheses of `shortest_minimal` hold for `ab = |bits of x|` -/
theorem shortest_minimal_float (x : Float) (he : F64.expField x.toBits ≠ 0x7FF)
    (hz : x.toBits &&& F64.absMask ≠ 0) (D : Nat) (S : Int) (hD : 0 < D)
    (hin : Inside (F64.decompose (x.toBits &&& F64.absMask)).1 (F64.decompose (x.toBits &&& F64.absMask)).2
      (asymOf (F64.decompose (x.toBits &&& F64.absMask)).1 (F64.decompose (x.toBits &&& F64.absMask)).2) D S) :
    (Nat.toDigits 10 (F64.stripZeros 20 (F64.shortest (x.toBits &&& F64.absMask)).1
        (F64.shortest (x.toBits &&& F64.absMask)).2).1).length ≤ (Nat.toDigits 10 D).length :=
  shortest_minimal _ hz (by rw [expField_abs]; exact he) (unpack_finite x he hz).1 D S hD hin

end Aplang.FloatText

/- axiom audit (run once, 2026-09-30): every theorem below ⊆ {propext, Classical.choice, Quot.sound}
#print axioms Aplang.FloatText.pick_minimal
#print axioms Aplang.FloatText.pick_no_trailing_zero
#print axioms Aplang.FloatText.pick_stop
#print axioms Aplang.FloatText.scale_hi_le
#print axioms Aplang.FloatText.int_le
#print axioms Aplang.FloatText.int_minimal
#print axioms Aplang.FloatText.shortest_minimal
#print axioms Aplang.FloatText.shortest_minimal_toDigits
#print axioms Aplang.FloatText.shortest_minimal_float
-/
